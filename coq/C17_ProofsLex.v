(* C17 — the printer is the token rendering, its tokens are well formed, and the lexer reads a rendering
   of well-formed tokens back as exactly those tokens. *)
From Coq Require Import List NArith Bool Lia ZifyBool ZifyN ZifyNat.
From Dae Require Import C17_Spec C17_Model C17_Toks.
From Dae.gen Require Import Extracted_C17.
Import ListNotations.
Open Scope N_scope.

(* ================================================================== rendering *)
Lemma render_app a b : render (a ++ b) = render a ++ render b.
Proof. apply flat_map_app. Qed.

Lemma render_cons t r : render (t :: r) = (stok_text t ++ [32]) ++ render r.
Proof. reflexivity. Qed.

Lemma render_flat_map {A} (f : A -> list stok) l :
  render (flat_map f l) = flat_map (fun x => render (f x)) l.
Proof. induction l; cbn [flat_map]; [reflexivity|]. rewrite render_app, IHl. reflexivity. Qed.

Lemma show_lit_text l : show_lit l = stok_text (toks_lit l).
Proof.
  destruct l as [[] t]; unfold show_lit, toks_lit, bare_tok; cbn [lit_q lit_text]; try reflexivity.
  destruct (is_id t); reflexivity.
Qed.

Lemma w_render1 t : w (stok_text t) = render [t].
Proof. unfold w, sp, render. cbn [flat_map]. rewrite app_nil_r. reflexivity. Qed.

Lemma show_param_render p : show_param p = render (toks_param p).
Proof.
  destruct p as [[k|] v]; unfold show_param, toks_param; cbn [sp_key sp_val]; rewrite show_lit_text.
  - unfold w, sp, render; cbn [flat_map stok_text tok_text]. rewrite app_nil_r. reflexivity.
  - apply w_render1.
Qed.

Lemma show_sep_render {A} (sep : tok) (f : A -> str) (g : A -> list stok) l :
  (forall x, f x = render (g x)) -> show_sep (tok_text sep) f l = render (toks_sep sep g l).
Proof.
  intros H. induction l as [|x r IH]; [reflexivity|].
  destruct r as [|y r]; [apply H|].
  change (show_sep (tok_text sep) f (x :: y :: r))
    with (f x ++ w (tok_text sep) ++ show_sep (tok_text sep) f (y :: r)).
  change (toks_sep sep g (x :: y :: r)) with (g x ++ STok sep :: toks_sep sep g (y :: r)).
  rewrite render_app, render_cons, IH, H. reflexivity.
Qed.

Lemma show_func_render f : show_func f = render (toks_func f).
Proof.
  destruct f as [n name ps]. unfold show_func, toks_func. cbn [sf_not sf_name sf_params].
  rewrite render_app, render_cons, render_cons, render_app.
  pose proof (show_sep_render TComma show_param toks_param ps show_param_render) as E.
  cbn [tok_text] in E. rewrite E.
  destruct n; reflexivity.
Qed.

Lemma show_outbound_render o : show_outbound o = render (toks_outbound o).
Proof.
  destruct o as [n|f]; cbn [show_outbound toks_outbound]; [|apply show_func_render].
  unfold bare_tok. destruct (is_id n); unfold w, sp, render; cbn [flat_map stok_text tok_text];
    rewrite app_nil_r; reflexivity.
Qed.

Lemma show_value_render v : show_value v = render (toks_value v).
Proof.
  destruct v as [ls|fs]; cbn [show_value toks_value].
  - apply (show_sep_render TComma). intros l. rewrite show_lit_text. apply w_render1.
  - apply (show_sep_render TAnd). apply show_func_render.
Qed.

Lemma show_annot_render a : show_annot a = render (toks_annot a).
Proof.
  destruct a as [|p a]; [reflexivity|]. unfold show_annot, toks_annot.
  rewrite render_cons, render_app.
  pose proof (show_sep_render TComma show_param toks_param (p :: a) show_param_render) as E.
  cbn [tok_text] in E. rewrite E. reflexivity.
Qed.

Lemma show_item_render : forall i, show_item i = render (toks_item i).
Proof.
  apply (sitem_rect' (fun i => show_item i = render (toks_item i))
                     (fun l => flat_map show_item l = render (flat_map toks_item l))).
  - intros c o. cbn [show_item toks_item]. rewrite render_app, render_cons.
    pose proof (show_sep_render TAnd show_func toks_func c show_func_render) as E.
    cbn [tok_text] in E. rewrite E, show_outbound_render. reflexivity.
  - intros k v a. cbn [show_item toks_item].
    rewrite render_cons, render_cons, render_app, show_value_render, show_annot_render. reflexivity.
  - intros l. cbn [show_item toks_item]. rewrite show_lit_text. apply w_render1.
  - intros n items IH. cbn [show_item toks_item].
    rewrite render_cons, render_cons, render_app, IH. reflexivity.
  - reflexivity.
  - intros i r Hi Hr. cbn [flat_map]. rewrite render_app, Hi, Hr. reflexivity.
Qed.

Lemma show_items_render l : flat_map show_item l = render (flat_map toks_item l).
Proof.
  induction l as [|i l IH]; [reflexivity|].
  cbn [flat_map]. rewrite render_app, show_item_render, IH. reflexivity.
Qed.

Lemma show_section_render s : show_section s = render (toks_section s).
Proof.
  unfold show_section, toks_section.
  rewrite render_cons, render_cons, render_app, show_items_render. reflexivity.
Qed.

Lemma show_is_render : forall c : sconfig, show c = render (toks_config c).
Proof.
  intros c. unfold show, toks_config.
  induction c as [|s c IH]; [reflexivity|].
  cbn [flat_map]. rewrite render_app, show_section_render, IH. reflexivity.
Qed.

(* ================================================================== well-formed tokens *)
Lemma wf_bare_tok s : is_id s || is_nonid s = true -> wf_stok (bare_tok s) = true.
Proof.
  unfold bare_tok. destruct (is_id s) eqn:E; cbn [orb wf_stok]; intros H; assumption.
Qed.

Lemma wf_toks_lit l : wf_lit l = true -> wf_stok (toks_lit l) = true.
Proof.
  destruct l as [[] t]; unfold wf_lit, toks_lit; cbn [lit_q lit_text]; intros H.
  - apply wf_bare_tok; assumption.
  - cbn [wf_stok]. rewrite H. reflexivity.
  - cbn [wf_stok]. rewrite H. reflexivity.
Qed.

Lemma wf_toks_param p : wf_param p = true -> forallb wf_stok (toks_param p) = true.
Proof.
  destruct p as [[k|] v]; unfold wf_param, toks_param; cbn [sp_key sp_val]; intros H;
    apply andb_prop in H; destruct H as [H1 H2]; cbn [forallb wf_stok];
    rewrite (wf_toks_lit v H2); [rewrite H1|]; reflexivity.
Qed.

Lemma wf_toks_sep {A} (sep : tok) (wfA : A -> bool) (g : A -> list stok) l :
  wf_stok (STok sep) = true ->
  (forall x, wfA x = true -> forallb wf_stok (g x) = true) ->
  forallb wfA l = true -> forallb wf_stok (toks_sep sep g l) = true.
Proof.
  intros Hs Hg. induction l as [|x r IH]; intros H; [reflexivity|].
  cbn [forallb] in H. apply andb_prop in H. destruct H as [Hx Hr].
  destruct r as [|y r]; [apply Hg; assumption|].
  change (toks_sep sep g (x :: y :: r)) with (g x ++ STok sep :: toks_sep sep g (y :: r)).
  rewrite forallb_app. cbn [forallb]. rewrite (Hg x Hx), Hs, (IH Hr). reflexivity.
Qed.

Lemma wf_toks_func f : wf_func f = true -> forallb wf_stok (toks_func f) = true.
Proof.
  destruct f as [n name ps]. unfold wf_func, toks_func. cbn [sf_not sf_name sf_params]. intros H.
  apply andb_prop in H. destruct H as [H H3]. apply andb_prop in H. destruct H as [H1 H2].
  rewrite forallb_app. cbn [forallb]. rewrite forallb_app. cbn [forallb wf_stok].
  rewrite H1, (wf_toks_sep TComma wf_param toks_param ps eq_refl wf_toks_param H3).
  destruct n; reflexivity.
Qed.

Lemma wf_toks_outbound o : wf_outbound o = true -> forallb wf_stok (toks_outbound o) = true.
Proof.
  destruct o as [n|f]; cbn [wf_outbound toks_outbound]; intros H; [|apply wf_toks_func; assumption].
  cbn [forallb]. rewrite (wf_bare_tok n H). reflexivity.
Qed.

Lemma wf_toks_value v : wf_value v = true -> forallb wf_stok (toks_value v) = true.
Proof.
  destruct v as [ls|fs]; cbn [wf_value toks_value]; intros H; apply andb_prop in H; destruct H as [_ H].
  - apply (wf_toks_sep TComma wf_lit); [reflexivity| |assumption].
    intros l Hl. cbn [forallb]. rewrite (wf_toks_lit l Hl). reflexivity.
  - apply (wf_toks_sep TAnd wf_func); [reflexivity|apply wf_toks_func|assumption].
Qed.

Lemma wf_toks_annot a : forallb wf_param a = true -> forallb wf_stok (toks_annot a) = true.
Proof.
  destruct a as [|p a]; [reflexivity|]. intros H. unfold toks_annot.
  cbn [forallb wf_stok]. rewrite forallb_app.
  rewrite (wf_toks_sep TComma wf_param toks_param (p :: a) eq_refl wf_toks_param H). reflexivity.
Qed.

Lemma wf_toks_item : forall i, wf_item i = true -> forallb wf_stok (toks_item i) = true.
Proof.
  apply (sitem_rect' (fun i => wf_item i = true -> forallb wf_stok (toks_item i) = true)
           (fun l => forallb wf_item l = true -> forallb wf_stok (flat_map toks_item l) = true)).
  - intros c o H. cbn [wf_item toks_item] in *.
    apply andb_prop in H. destruct H as [H H3]. apply andb_prop in H. destruct H as [_ H2].
    rewrite forallb_app. cbn [forallb wf_stok].
    rewrite (wf_toks_sep TAnd wf_func toks_func c eq_refl wf_toks_func H2), (wf_toks_outbound o H3).
    reflexivity.
  - intros k v a H. cbn [wf_item toks_item] in *.
    apply andb_prop in H. destruct H as [H H3]. apply andb_prop in H. destruct H as [H1 H2].
    cbn [forallb wf_stok]. rewrite forallb_app.
    rewrite H1, (wf_toks_value v H2), (wf_toks_annot a H3). reflexivity.
  - intros l H. cbn [wf_item toks_item] in *. cbn [forallb]. rewrite (wf_toks_lit l H). reflexivity.
  - intros n items IH H. cbn [wf_item toks_item] in *.
    apply andb_prop in H. destruct H as [H1 H2].
    cbn [forallb wf_stok]. rewrite forallb_app. rewrite H1, (IH H2). reflexivity.
  - reflexivity.
  - intros i r Hi Hr H. cbn [forallb flat_map] in *. apply andb_prop in H. destruct H as [H1 H2].
    rewrite forallb_app, (Hi H1), (Hr H2). reflexivity.
Qed.

Lemma wf_toks_items l : forallb wf_item l = true -> forallb wf_stok (flat_map toks_item l) = true.
Proof.
  induction l as [|i l IH]; [reflexivity|]. cbn [forallb flat_map]. intros H.
  apply andb_prop in H. destruct H as [H1 H2].
  rewrite forallb_app, (wf_toks_item i H1), (IH H2). reflexivity.
Qed.

Lemma wf_toks_section s : wf_section s = true -> forallb wf_stok (toks_section s) = true.
Proof.
  unfold wf_section, toks_section. intros H. apply andb_prop in H. destruct H as [H1 H2].
  cbn [forallb wf_stok]. rewrite forallb_app, H1, (wf_toks_items _ H2). reflexivity.
Qed.

Lemma toks_wf : forall c : sconfig, wf_config c = true -> forallb wf_stok (toks_config c) = true.
Proof.
  unfold wf_config, toks_config. induction c as [|s c IH]; [reflexivity|].
  cbn [forallb flat_map]. intros H. apply andb_prop in H. destruct H as [H1 H2].
  rewrite forallb_app, (wf_toks_section s H1), (IH H2). reflexivity.
Qed.

(* ================================================================== the lexer on a rendering *)
Ltac chars :=
  cbv [m_safe m_ws m_id_head m_nonid_head m_eol in_set
       atn_set_id_head atn_set_nonid_head atn_set_intermediate atn_set_ws atn_set_eol
       safe_char id_head nonid_head intermediate in_range] in *;
  lia.

Lemma m_safe_eq c : m_safe c = safe_char c.
Proof. chars. Qed.

Lemma take_while_safe tail rest :
  forallb safe_char tail = true -> take_while m_safe (tail ++ 32 :: rest) = tail.
Proof.
  induction tail as [|c tail IH]; cbn [forallb take_while app]; intros H; [reflexivity|].
  apply andb_prop in H. destruct H as [Hc Ht]. rewrite m_safe_eq, Hc, (IH Ht). reflexivity.
Qed.

Lemma skipn_app_len {A} (t x : list A) : skipn (length t) (t ++ x) = x.
Proof. induction t; cbn [length skipn app]; auto. Qed.

Lemma firstn_app_len {A} (t x : list A) : firstn (length t) (t ++ x) = t.
Proof. induction t; cbn [length firstn app]; [reflexivity|]. rewrite IHt. reflexivity. Qed.

Lemma skipn_S_app_len {A} (t : list A) q x : skipn (S (length t)) (t ++ q :: x) = x.
Proof. induction t; cbn [length skipn app]; auto. Qed.

Lemma word_safe mk c tail rest :
  forallb safe_char tail = true -> word mk c (tail ++ 32 :: rest) = LTok (mk (c :: tail)) (32 :: rest).
Proof.
  intros H. unfold word. cbv zeta. rewrite (take_while_safe tail rest H), skipn_app_len. reflexivity.
Qed.

Lemma scan_quote_ok q inner : forall pb last n rest,
  quote_ok q pb inner = true ->
  scan_quote q pb last n (inner ++ q :: rest) = Some (S (n + length inner)%nat).
Proof.
  induction inner as [|c r IH]; intros pb last n rest H; cbn [quote_ok scan_quote app length] in *.
  - rewrite N.eqb_refl. destruct pb; [discriminate|]. f_equal. lia.
  - apply andb_prop in H. destruct H as [H1 H2]. destruct (c =? q).
    + rewrite H1. rewrite (IH _ _ _ _ H2). f_equal. lia.
    + rewrite (IH _ _ _ _ H2). f_equal. lia.
Qed.

Ltac kill b := replace b with false by chars.

Lemma next_token_id c tail rest :
  is_id (c :: tail) = true -> next_token (c :: tail ++ 32 :: rest) = LTok (TId (c :: tail)) (32 :: rest).
Proof.
  intros H. unfold is_id in H. apply andb_prop in H. destruct H as [H1 H2].
  unfold next_token.
  kill (m_ws c). kill (c =? 35). kill (c =? 44). kill (c =? 123). kill (c =? 125). kill (c =? 58).
  kill (c =? 91). kill (c =? 93). kill (c =? 33). kill (c =? 40). kill (c =? 41). kill (c =? 38).
  kill ((c =? 34) || (c =? 39)).
  replace (m_id_head c) with true by chars.
  apply word_safe; assumption.
Qed.

Lemma next_token_nonid c tail rest :
  is_nonid (c :: tail) = true ->
  next_token (c :: tail ++ 32 :: rest) = LTok (TNonId (c :: tail)) (32 :: rest).
Proof.
  intros H. unfold is_nonid in H. apply andb_prop in H. destruct H as [H H3].
  apply andb_prop in H. destruct H as [H1 H2].
  rewrite <- (word_safe TNonId c tail rest H2).
  unfold next_token.
  kill (m_ws c). kill (c =? 35). kill (c =? 44). kill (c =? 123). kill (c =? 125). kill (c =? 58).
  kill (c =? 91). kill (c =? 93). kill (c =? 33). kill (c =? 40). kill (c =? 41). kill (c =? 38).
  kill ((c =? 34) || (c =? 39)). kill (m_id_head c).
  replace (m_nonid_head c) with true by chars.
  destruct tail as [|d t]; cbn [app].
  - replace ((c =? 45) && (32 =? 62)) with false by lia.
    replace ((c =? 47) && (32 =? 42)) with false by lia. reflexivity.
  - cbn [forallb] in H2. apply andb_prop in H2. destruct H2 as [Hd _].
    replace ((c =? 45) && (d =? 62)) with false by chars.
    replace ((c =? 47) && (d =? 42)) with false by lia. reflexivity.
Qed.

Lemma next_token_quote q i rest :
  (q =? 34) || (q =? 39) = true -> quote_ok q false i = true ->
  next_token (q :: i ++ q :: 32 :: rest) = LTok (TQuote i) (32 :: rest).
Proof.
  intros Hq H. unfold next_token.
  kill (m_ws q). kill (q =? 35). kill (q =? 44). kill (q =? 123). kill (q =? 125). kill (q =? 58).
  kill (q =? 91). kill (q =? 93). kill (q =? 33). kill (q =? 40). kill (q =? 41). kill (q =? 38).
  rewrite Hq. rewrite (scan_quote_ok q i false None 0%nat (32 :: rest) H).
  cbn [pred Nat.add]. rewrite firstn_app_len, skipn_S_app_len. reflexivity.
Qed.

Lemma next_token_stok t rest :
  wf_stok t = true -> next_token (stok_text t ++ 32 :: rest) = LTok (stok_tok t) (32 :: rest).
Proof.
  destruct t as [[| | | | | | | | | | |s|s|s]|q i]; cbn [wf_stok stok_text tok_text stok_tok]; intros H;
    try discriminate; try reflexivity.
  - destruct s as [|c tail]; [discriminate|]. cbn [app]. apply next_token_id; assumption.
  - destruct s as [|c tail]; [discriminate|]. cbn [app]. apply next_token_nonid; assumption.
  - apply andb_prop in H. destruct H as [Hq H].
    cbn [app]. rewrite <- app_assoc. cbn [app]. apply next_token_quote; assumption.
Qed.

Lemma next_token_sp r : next_token (32 :: r) = LSkip (drop_while m_ws r).
Proof. reflexivity. Qed.

Lemma stok_head t : wf_stok t = true -> exists c r, stok_text t = c :: r /\ m_ws c = false.
Proof.
  destruct t as [[| | | | | | | | | | |s|s|s]|q i]; cbn [wf_stok stok_text tok_text]; intros H;
    try discriminate;
    try (eexists; eexists; split; [reflexivity|reflexivity]).
  - destruct s as [|c tail]; [discriminate|]. exists c, tail. split; [reflexivity|].
    unfold is_id in H. apply andb_prop in H. destruct H as [H1 _]. chars.
  - destruct s as [|c tail]; [discriminate|]. exists c, tail. split; [reflexivity|].
    unfold is_nonid in H. apply andb_prop in H. destruct H as [H _].
    apply andb_prop in H. destruct H as [H1 _]. chars.
  - apply andb_prop in H. destruct H as [Hq _]. exists q, (i ++ [q]). split; [reflexivity|]. chars.
Qed.

Lemma render_head ts : forallb wf_stok ts = true -> drop_while m_ws (render ts) = render ts.
Proof.
  destruct ts as [|t ts]; [reflexivity|]. cbn [forallb]. intros H.
  apply andb_prop in H. destruct H as [H _].
  destruct (stok_head t H) as (c & r & E & W).
  rewrite render_cons, E. cbn [app drop_while]. rewrite W. reflexivity.
Qed.

Lemma render_len ts : forallb wf_stok ts = true -> (2 * length ts <= length (render ts))%nat.
Proof.
  induction ts as [|t ts IH]; cbn [forallb length]; intros H; [lia|].
  apply andb_prop in H. destruct H as [Ht Hts].
  destruct (stok_head t Ht) as (c & r & E & _).
  rewrite render_cons, E. rewrite !app_length. cbn [length]. specialize (IH Hts). lia.
Qed.

Lemma lex_S f s :
  lex (S f) s =
  match next_token s with
  | LEof => Ok []
  | LSkip r => lex f r
  | LTok t r => match lex f r with Ok ts => Ok (t :: ts) | e => e end
  | LErr => Err
  end.
Proof. reflexivity. Qed.

Lemma lex_render_fuel ts :
  forallb wf_stok ts = true -> forall f, (2 * length ts < f)%nat -> lex f (render ts) = Ok (map stok_tok ts).
Proof.
  induction ts as [|t ts IH]; intros H f Hf.
  - destruct f; [lia|]. reflexivity.
  - cbn [forallb] in H. apply andb_prop in H. destruct H as [Ht Hts].
    cbn [length] in Hf. destruct f as [|[|f]]; try lia.
    rewrite render_cons, <- app_assoc. cbn [app map].
    rewrite lex_S, (next_token_stok t (render ts) Ht).
    rewrite lex_S, next_token_sp, (render_head ts Hts).
    rewrite (IH Hts f) by lia. reflexivity.
Qed.

Lemma lex_render : forall ts : list stok, forallb wf_stok ts = true ->
  lex (S (length (render ts))) (render ts) = Ok (map stok_tok ts).
Proof.
  intros ts H. apply lex_render_fuel; [assumption|]. pose proof (render_len ts H). lia.
Qed.
