(* C16 — group view: alive sets agree with alive flags; connectivity slot of latency-policy groups. *)
From Coq Require Import List NArith ZArith Bool Lia Permutation.
From Dae Require Import C16_Spec C16_Model C16_Proofs.
From Dae.gen Require Import C16_Consts.
Import ListNotations.
Open Scope N_scope.

Definition keys (l : list (N * Z)) : list N := map fst l.

Lemma is_member_app : forall d a b, is_member d (a ++ b) = is_member d a || is_member d b.
Proof. intros; unfold is_member; apply existsb_app. Qed.
Lemma is_member_In : forall d l, is_member d l = true <-> In d (keys l).
Proof.
  intros d l; unfold is_member, keys. rewrite existsb_exists. split.
  - intros (e & He & Hd). apply N.eqb_eq in Hd. subst. now apply in_map.
  - intros H. apply in_map_iff in H. destruct H as (e & <- & He). exists e; split; auto. apply N.eqb_refl.
Qed.
Lemma is_member_false : forall d l, is_member d l = false <-> ~ In d (keys l).
Proof. intros. rewrite <- is_member_In. destruct (is_member d l); split; congruence. Qed.
Lemma is_member_keys : forall d l l', keys l = keys l' -> is_member d l = is_member d l'.
Proof.
  intros d l l' H. destruct (is_member d l) eqn:E; symmetry.
  - apply is_member_In. rewrite <- H. now apply is_member_In.
  - apply is_member_false. rewrite <- H. now apply is_member_false.
Qed.

Lemma is_member_cons : forall d e l, is_member d (e :: l) = (fst e =? d) || is_member d l.
Proof. reflexivity. Qed.
Lemma is_member_nil : forall d, is_member d [] = false.
Proof. reflexivity. Qed.

(* ---------- swap_remove ---------- *)
Lemma find_idx_split : forall d l i, find_idx d l = Some i ->
  exists l1 e l2, l = l1 ++ e :: l2 /\ fst e = d /\ i = length l1.
Proof.
  induction l as [|e r IH]; intros i H; cbn in H; [discriminate|].
  destruct (fst e =? d) eqn:E.
  - inversion H; subst. exists [], e, r. apply N.eqb_eq in E. auto.
  - destruct (find_idx d r) as [j|] eqn:F; [|discriminate]. inversion H; subst.
    destruct (IH j eq_refl) as (l1 & e' & l2 & -> & Hd & ->). exists (e :: l1), e', l2. auto.
Qed.
Lemma find_idx_none : forall d l, find_idx d l = None -> is_member d l = false.
Proof.
  induction l as [|e r IH]; intros H; cbn in *; [reflexivity|].
  destruct (fst e =? d); [discriminate|]. destruct (find_idx d r); [discriminate|]. cbn. now apply IH.
Qed.
Lemma set_nth_app : forall A (l1 : list A) e r v, set_nth (length l1) v (l1 ++ e :: r) = l1 ++ v :: r.
Proof. induction l1; intros; cbn; [reflexivity|]. now rewrite IHl1. Qed.

Lemma swap_remove_spec : forall d l, NoDup (keys l) ->
  (forall y, is_member y (swap_remove d l) = is_member y l && negb (y =? d)) /\ NoDup (keys (swap_remove d l)).
Proof.
  intros d l ND. unfold swap_remove. destruct (find_idx d l) as [i|] eqn:F.
  2:{ split; [|assumption]. intros y. destruct (y =? d) eqn:E; [|cbn; now rewrite andb_true_r].
      apply N.eqb_eq in E; subst. rewrite (find_idx_none _ _ F). reflexivity. }
  destruct (find_idx_split _ _ _ F) as (l1 & e & l2 & -> & Hd & ->).
  unfold keys in ND. rewrite map_app in ND. cbn [map] in ND. rewrite Hd in ND.
  pose proof (NoDup_remove_1 _ _ _ ND) as ND1. pose proof (NoDup_remove_2 _ _ _ ND) as ND2.
  assert (Hl1 : is_member d l1 = false) by (apply is_member_false; intro; apply ND2; apply in_or_app; now left).
  assert (Hl2 : is_member d l2 = false) by (apply is_member_false; intro; apply ND2; apply in_or_app; now right).
  rewrite app_length. cbn [length].
  destruct l2 as [|z0 l2r] using rev_ind.
  - (* removed element is the last one *)
    match goal with |- context [if ?c then _ else _] => destruct c eqn:L end;
      [apply Nat.ltb_lt in L; cbn [length] in L; lia|].
    rewrite removelast_last. split.
    + intros y. rewrite is_member_app, is_member_cons, is_member_nil. rewrite Hd, orb_false_r.
      destruct (y =? d) eqn:E; cbn [negb].
      * apply N.eqb_eq in E; subst y. now rewrite Hl1, andb_false_r.
      * rewrite N.eqb_sym, E. now rewrite !orb_false_r, andb_true_r.
    + unfold keys. now rewrite app_nil_r in ND1.
  - clear IHl2r.
    match goal with |- context [if ?c then _ else _] => destruct c eqn:L end;
      [|apply Nat.ltb_ge in L; cbn [length] in L; rewrite app_length in L; cbn [length] in L; lia].
    assert (Hlast : last (l1 ++ e :: l2r ++ [z0]) (0, 0%Z) = z0).
    { replace (l1 ++ e :: l2r ++ [z0]) with ((l1 ++ e :: l2r) ++ [z0]) by (rewrite <- app_assoc; reflexivity). apply last_last. }
    rewrite Hlast, set_nth_app.
    replace (l1 ++ z0 :: l2r ++ [z0]) with ((l1 ++ z0 :: l2r) ++ [z0]) by (rewrite <- app_assoc; reflexivity).
    rewrite removelast_last.
    rewrite is_member_app in Hl2. apply orb_false_iff in Hl2. destruct Hl2 as (Hl2r & Hz).
    rewrite is_member_cons, is_member_nil, orb_false_r in Hz.
    split.
    + intros y. rewrite ?is_member_app, ?is_member_cons, ?is_member_app, ?is_member_cons, ?is_member_nil. rewrite Hd, ?orb_false_r.
      destruct (y =? d) eqn:E; cbn [negb].
      * apply N.eqb_eq in E; subst y. now rewrite Hl1, Hl2r, Hz, andb_false_r.
      * rewrite (N.eqb_sym d y), E, andb_true_r.
        destruct (is_member y l1), (fst z0 =? y), (is_member y l2r); reflexivity.
    + unfold keys in *. rewrite ?map_app in *. cbn [map] in *. rewrite ?map_app in *. cbn [map] in *.
      eapply Permutation_NoDup; [|exact ND1].
      apply Permutation_app_head. apply Permutation_sym. apply Permutation_cons_append.
Qed.

(* ---------- calc_min ---------- *)
Lemma scan_facts : forall l v o,
  let r := fold_left scan_step l (v, o) in
  (snd r = None <-> o = None /\ l = []) /\
  (forall k, snd r = Some k -> o = Some k \/ is_member k l = true).
Proof.
  induction l as [|e r IH]; intros v o; cbn [fold_left].
  - cbn. split; [split; [auto|now intros (H & _)]|auto].
  - set (acc := scan_step (v, o) e). destruct acc as [v' o'] eqn:Ea. specialize (IH v' o'). cbn zeta in *.
    destruct IH as (IH1 & IH2). unfold acc, scan_step in Ea. cbn [fst snd] in Ea.
    split.
    + split.
      * intros H. destruct (proj1 IH1 H) as (Ho & Hr). exfalso. subst o'.
        destruct o; cbn in Ea; [destruct (snd e <? v)%Z|]; inversion Ea.
      * intros (_ & H). discriminate.
    + intros k H0. destruct (IH2 k H0) as [H | H].
      * destruct o as [k0|]; cbn in Ea.
        -- destruct (snd e <? v)%Z; injection Ea as Hv Ho.
           ++ rewrite <- Ho in H. injection H as Hk. right. rewrite is_member_cons, Hk, N.eqb_refl. reflexivity.
           ++ left. congruence.
        -- injection Ea as Hv Ho. rewrite <- Ho in H. injection H as Hk. right. rewrite is_member_cons, Hk, N.eqb_refl. reflexivity.
      * right. rewrite is_member_cons, H. apply orb_true_r.
Qed.

Lemma calc_min_entries : forall tol a, as_entries (calc_min tol a) = as_entries a.
Proof.
  intros. unfold calc_min. destruct (fold_left scan_step (as_entries a) (HOUR, None)) as [ml md].
  destruct (as_best a); [destruct md; [destruct (switch_ok _ _ _)|]|]; reflexivity.
Qed.

Definition Ibest (a : aset) : Prop :=
  (as_best a = None -> as_entries a = []) /\ (forall b, as_best a = Some b -> is_member b (as_entries a) = true).

Lemma calc_min_best_none : forall tol a, as_best a = None ->
  (as_best (calc_min tol a) = None <-> as_entries a = []) /\
  (forall b, as_best (calc_min tol a) = Some b -> is_member b (as_entries a) = true).
Proof.
  intros tol a Hb. unfold calc_min. pose proof (scan_facts (as_entries a) HOUR None) as (F1 & F2). cbn zeta in *.
  destruct (fold_left scan_step (as_entries a) (HOUR, None)) as [ml md]. cbn [snd] in *. rewrite Hb. cbn [as_best].
  split.
  - split; intros H; [now apply F1 in H|]. apply F1. auto.
  - intros b H. destruct (F2 b H) as [H0|H0]; [discriminate|assumption].
Qed.
Lemma calc_min_best_some : forall tol a b0, as_best a = Some b0 ->
  exists b, as_best (calc_min tol a) = Some b /\ (b = b0 \/ is_member b (as_entries a) = true).
Proof.
  intros tol a b0 Hb. unfold calc_min. pose proof (scan_facts (as_entries a) HOUR None) as (F1 & F2). cbn zeta in *.
  destruct (fold_left scan_step (as_entries a) (HOUR, None)) as [ml md]. cbn [snd] in *. rewrite Hb.
  destruct md as [k|].
  - destruct (switch_ok tol ml (as_best_lat a)); cbn [as_best].
    + exists k. split; auto. right. destruct (F2 k eq_refl); [discriminate|assumption].
    + exists b0. rewrite Hb. auto.
  - exists b0. rewrite Hb. auto.
Qed.

(* ---------- notify: membership ---------- *)
Lemma set_lat_keys : forall d v l, keys (set_lat d v l) = keys l.
Proof. intros; unfold keys, set_lat. rewrite map_map. apply map_ext. intros e. destruct (fst e =? d); reflexivity. Qed.

Ltac split_ifs :=
  repeat (cbn [fst snd as_entries as_best as_best_lat andb negb orb];
          match goal with
          | |- context [if ?c then _ else _] => destruct c eqn:?
          | |- context [match ?x with Some _ => _ | None => _ end] => destruct x eqn:?
          end).

Lemma notify_entries_keys : forall minp tol off a d alive lat,
  keys (as_entries (fst (notify minp tol off a d alive lat))) =
  keys (if alive then (if is_member d (as_entries a) then as_entries a else as_entries a ++ [(d, 0%Z)])
        else (if is_member d (as_entries a) then swap_remove d (as_entries a) else as_entries a)).
Proof.
  intros. unfold notify.
  destruct alive; destruct (is_member d (as_entries a)) eqn:M; destruct minp; destruct lat as [raw|];
    cbn [andb negb orb fst snd as_entries as_best as_best_lat];
    split_ifs; rewrite ?calc_min_entries; cbn [as_entries]; rewrite ?calc_min_entries, ?set_lat_keys; try reflexivity.
  all: cbn [fst snd]; rewrite ?calc_min_entries; reflexivity.
Qed.

Lemma NoDup_snoc : forall (l : list N) d, NoDup l -> ~ In d l -> NoDup (l ++ [d]).
Proof. intros. eapply Permutation_NoDup; [apply Permutation_cons_append|]. now constructor. Qed.

Lemma notify_mem : forall minp tol off a d alive lat, NoDup (keys (as_entries a)) ->
  let a' := fst (notify minp tol off a d alive lat) in
  NoDup (keys (as_entries a')) /\
  forall y, is_member y (as_entries a') = if y =? d then alive else is_member y (as_entries a).
Proof.
  intros minp tol off a d alive lat ND a'. subst a'.
  pose proof (notify_entries_keys minp tol off a d alive lat) as K.
  split.
  - rewrite K. destruct alive; destruct (is_member d (as_entries a)) eqn:M; try assumption.
    + unfold keys. rewrite map_app. cbn [map fst]. apply NoDup_snoc; [assumption|]. now apply is_member_false.
    + now apply swap_remove_spec.
  - intros y. rewrite (is_member_keys y _ _ K).
    destruct alive; destruct (is_member d (as_entries a)) eqn:M.
    + destruct (y =? d) eqn:E; [apply N.eqb_eq in E; now subst|reflexivity].
    + rewrite is_member_app, is_member_cons, is_member_nil, orb_false_r. cbn [fst]. rewrite (N.eqb_sym d y).
      destruct (y =? d) eqn:E; [apply orb_true_r|apply orb_false_r].
    + destruct (swap_remove_spec d (as_entries a) ND) as (S1 & _). rewrite S1.
      destruct (y =? d); [apply andb_false_r|apply andb_true_r].
    + destruct (y =? d) eqn:E; [apply N.eqb_eq in E; now subst|reflexivity].
Qed.

(* ---------- notify: best dialer and callbacks (latency policies) ---------- *)
Definition isSome (o : option N) : bool := negb (optN_eqb o None).
Definition newbit (old : bool) (cbs : list bool) : bool := match rev cbs with [] => old | v :: _ => v end.

Lemma isSome_Some : forall b, isSome (Some b) = true. Proof. reflexivity. Qed.
Lemma isSome_None : isSome None = false. Proof. reflexivity. Qed.
Lemma optN_eqb_eq : forall a b, optN_eqb a b = true <-> a = b.
Proof.
  intros [x|] [y|]; cbn; split; intros H; try discriminate; try reflexivity.
  - apply N.eqb_eq in H; now subst.
  - inversion H; apply N.eqb_refl.
Qed.

Lemma cb2_bit : forall nb ob,
  newbit (isSome ob) ([] ++ (if optN_eqb nb ob then []
                             else match nb, ob with Some _, None => [true] | Some _, Some _ => [] | None, _ => [false] end))
  = isSome nb.
Proof. intros [x|] [y|]; cbn; try reflexivity. destruct (x =? y); reflexivity. Qed.

Local Arguments calc_min : simpl never.
Local Arguments set_lat : simpl never.
Local Arguments swap_remove : simpl never.
Local Arguments is_member : simpl never.
Local Arguments optN_eqb : simpl never.
Local Arguments switch_ok : simpl never.
Local Arguments Z.ltb : simpl never.
Local Arguments Z.add : simpl never.
Local Arguments isSome : simpl never.
Local Arguments newbit : simpl never.

Lemma is_member_set_lat : forall y d v l, is_member y (set_lat d v l) = is_member y l.
Proof. intros. apply is_member_keys. apply set_lat_keys. Qed.

Lemma notify_inv : forall tol off a d alive lat,
  NoDup (keys (as_entries a)) -> Ibest a ->
  let r := notify true tol off a d alive lat in
  Ibest (fst r) /\ newbit (isSome (as_best a)) (snd r) = isSome (as_best (fst r)).
Proof.
  intros tol off a d alive lat ND (I1 & I2).
  assert (Hsw : forall y, is_member y (swap_remove d (as_entries a)) = is_member y (as_entries a) && negb (y =? d))
    by (apply swap_remove_spec; assumption).
  unfold notify. destruct lat as [raw|]; destruct alive; destruct (is_member d (as_entries a)) eqn:M; cbn.
  - (* latency, alive, already a member *)
    rewrite M. split; [|apply cb2_bit].
    destruct (optN_eqb (as_best a) None || switch_ok tol (raw + off) (as_best_lat a)) eqn:C1; cbn.
    { split; cbn [as_entries as_best as_best_lat]; [discriminate|]. intros b Hb; inversion Hb; subst. now rewrite is_member_set_lat. }
    apply orb_false_iff in C1. destruct C1 as (C1 & _).
    destruct (as_best a) as [b0|] eqn:B; [|discriminate]. clear C1.
    destruct (optN_eqb (Some b0) (Some d)) eqn:C2; cbn.
    + apply optN_eqb_eq in C2. inversion C2; subst b0.
      destruct (as_best_lat a <? raw + off)%Z.
      * match goal with |- Ibest (calc_min tol ?X) =>
          destruct (calc_min_best_some tol X d eq_refl) as (b & Hb & Hm); split; rewrite calc_min_entries; cbn [as_entries] in * end.
        -- rewrite Hb; discriminate.
        -- intros b' Hb'. rewrite Hb in Hb'. inversion Hb'; subst b'. rewrite is_member_set_lat in *. destruct Hm; [now subst|assumption].
      * split; cbn; [discriminate|]. intros b Hb; inversion Hb; subst. now rewrite is_member_set_lat.
    + split; cbn; [discriminate|]. intros b Hb; inversion Hb; subst. rewrite is_member_set_lat. now apply I2.
  - (* latency, alive, new member *)
    assert (Hd : is_member d (as_entries a ++ [(d, 0%Z)]) = true)
      by (rewrite is_member_app, is_member_cons; cbn [fst]; rewrite N.eqb_refl; apply orb_true_r).
    rewrite Hd. split; [|apply cb2_bit].
    destruct (optN_eqb (as_best a) None || switch_ok tol (raw + off) (as_best_lat a)) eqn:C1; cbn.
    { split; cbn [as_entries as_best as_best_lat]; [discriminate|]. intros b Hb; inversion Hb; subst. now rewrite is_member_set_lat. }
    apply orb_false_iff in C1. destruct C1 as (C1 & _).
    destruct (as_best a) as [b0|] eqn:B; [|discriminate]. clear C1.
    assert (Hb0 : is_member b0 (as_entries a ++ [(d, 0%Z)]) = true) by (rewrite is_member_app, (I2 b0 eq_refl); reflexivity).
    destruct (optN_eqb (Some b0) (Some d)) eqn:C2; cbn.
    + apply optN_eqb_eq in C2. inversion C2; subst b0.
      destruct (as_best_lat a <? raw + off)%Z.
      * match goal with |- Ibest (calc_min tol ?X) =>
          destruct (calc_min_best_some tol X d eq_refl) as (b & Hb & Hm); split; rewrite calc_min_entries; cbn [as_entries] in * end.
        -- rewrite Hb; discriminate.
        -- intros b' Hb'. rewrite Hb in Hb'. inversion Hb'; subst b'. rewrite is_member_set_lat in *. destruct Hm; [now subst|assumption].
      * split; cbn; [discriminate|]. intros b Hb; inversion Hb; subst. now rewrite is_member_set_lat.
    + split; cbn; [discriminate|]. intros b Hb; inversion Hb; subst. now rewrite is_member_set_lat.
  - (* latency, dead, was a member *)
    assert (Hnd : is_member d (swap_remove d (as_entries a)) = false) by (rewrite Hsw, N.eqb_refl; apply andb_false_r).
    rewrite Hnd. split; [|apply cb2_bit].
    destruct (as_best a) as [b0|] eqn:B.
    2:{ rewrite (I1 eq_refl) in M. discriminate. }
    destruct (optN_eqb (Some b0) (Some d)) eqn:C2; cbn.
    + match goal with |- Ibest (calc_min tol ?X) =>
        destruct (calc_min_best_none tol X eq_refl) as (H1 & H2); split; rewrite calc_min_entries; cbn [as_entries] in * end.
      * apply H1. * exact H2.
    + split; cbn; [discriminate|]. intros b Hb; inversion Hb; subst. rewrite Hsw, (I2 b eq_refl). cbn.
      destruct (b =? d) eqn:E; [|reflexivity]. apply N.eqb_eq in E; subst.
      assert (optN_eqb (Some d) (Some d) = true) by now apply optN_eqb_eq. congruence.
  - (* latency, dead, not a member *)
    rewrite M. split; [|apply cb2_bit].
    destruct (optN_eqb (as_best a) (Some d)) eqn:C2; cbn.
    + apply optN_eqb_eq in C2. rewrite (I2 d C2) in M. discriminate.
    + split; cbn; assumption.
  - (* no latency, alive, already a member *)
    destruct (optN_eqb (as_best a) None) eqn:C; cbn.
    + split; [split; cbn; [discriminate|intros b Hb; inversion Hb; now subst]|reflexivity].
    + split; [split; assumption|reflexivity].
  - (* no latency, alive, new member *)
    destruct (optN_eqb (as_best a) None) eqn:C; cbn.
    + split; [split; cbn; [discriminate|]|reflexivity]. intros b Hb; inversion Hb; subst.
      rewrite is_member_app, is_member_cons; cbn [fst]; rewrite N.eqb_refl; apply orb_true_r.
    + split; [|reflexivity]. split; cbn.
      * intros Hn. rewrite Hn in C. discriminate.
      * intros b Hb. rewrite is_member_app, (I2 b Hb). reflexivity.
  - (* no latency, dead, was a member *)
    destruct (optN_eqb (as_best a) (Some d)) eqn:C; cbn.
    + apply optN_eqb_eq in C.
      match goal with |- context [calc_min tol ?X] =>
        destruct (calc_min_best_none tol X eq_refl) as (H1 & H2); pose proof (calc_min_entries tol X) as HE; cbn [as_entries] in * end.
      destruct (as_best (calc_min tol _)) as [b|] eqn:Bc; cbn.
      * split; [split; [rewrite Bc; discriminate|]|rewrite C; reflexivity].
        intros b' Hb'. rewrite HE. apply H2. rewrite Bc in Hb'. exact Hb'.
      * split; [split; [|rewrite Bc; discriminate]|reflexivity].
        intros _. rewrite HE. now apply H1.
    + destruct (as_best a) as [b0|] eqn:B.
      2:{ rewrite (I1 eq_refl) in M. discriminate. }
      split; [|reflexivity]. split; cbn; [discriminate|]. intros b Hb. inversion Hb; subst.
      rewrite Hsw, (I2 b eq_refl). cbn. destruct (b =? d) eqn:E; [|reflexivity]. apply N.eqb_eq in E; subst.
      assert (optN_eqb (Some d) (Some d) = true) by now apply optN_eqb_eq. congruence.
  - (* no latency, dead, not a member *)
    split; [split; assumption|reflexivity].
Qed.

(* ---------- inform: which sets and slots change ---------- *)
Lemma inform_group_sets : forall cfg m gi g n d alive l gi' d',
  let m' := inform_group cfg m gi g n d alive l in
  let r := notify (is_min g) (c_tol cfg) (offset_of g n) (m_sets m gi d) n alive (lookup_lat l n gi d) in
  let hit := keeps_sets g && is_member n (g_members g) && ((gi' =? gi) && dom_eqb d' d) in
  m_sets m' gi' d' = (if hit then fst r else m_sets m gi' d') /\
  m_bits m' gi' d' = (if hit then newbit (m_bits m gi' d') (snd r) else m_bits m gi' d').
Proof.
  intros. subst m' r hit. unfold inform_group.
  destruct (keeps_sets g && is_member n (g_members g)); [|split; reflexivity].
  destruct (notify _ _ _ _ _ _ _) as [a' cbs]. cbn [m_sets m_bits fst snd andb].
  destruct ((gi' =? gi) && dom_eqb d' d) eqn:H.
  - split; [reflexivity|]. unfold newbit. destruct (rev cbs); [|rewrite H]; reflexivity.
  - split; [reflexivity|]. destruct (rev cbs); [|rewrite H]; reflexivity.
Qed.

Lemma inform_groups_sets : forall cfg n d alive l gs m gi0 gi d',
  let m' := inform_groups cfg m gi0 gs n d alive l in
  match (if gi0 <=? gi then nth_error gs (N.to_nat (gi - gi0)) else None) with
  | Some g =>
      let r := notify (is_min g) (c_tol cfg) (offset_of g n) (m_sets m gi d) n alive (lookup_lat l n gi d) in
      let hit := keeps_sets g && is_member n (g_members g) && dom_eqb d' d in
      m_sets m' gi d' = (if hit then fst r else m_sets m gi d') /\
      m_bits m' gi d' = (if hit then newbit (m_bits m gi d') (snd r) else m_bits m gi d')
  | None => m_sets m' gi d' = m_sets m gi d' /\ m_bits m' gi d' = m_bits m gi d'
  end.
Proof.
  induction gs as [|g0 r IH]; intros m gi0 gi d'; cbn [inform_groups].
  - destruct (gi0 <=? gi); [destruct (N.to_nat (gi - gi0))|]; cbn; split; reflexivity.
  - specialize (IH (inform_group cfg m gi0 g0 n d alive l) (gi0 + 1) gi d').
    pose proof (inform_group_sets cfg m gi0 g0 n d alive l gi d') as (S1 & B1).
    pose proof (inform_group_sets cfg m gi0 g0 n d alive l gi d) as (S2 & _). cbn zeta in *.
    destruct (gi0 <=? gi) eqn:L1.
    + apply N.leb_le in L1. destruct (gi =? gi0) eqn:E.
      * apply N.eqb_eq in E; subst gi. rewrite N.sub_diag. cbn [N.to_nat nth_error].
        replace (gi0 + 1 <=? gi0) with false in IH by (symmetry; apply N.leb_gt; lia).
        cbn [andb] in S1, B1.
        destruct IH as (IH1 & IH2). rewrite IH1, IH2, S1, B1. split; reflexivity.
      * apply N.eqb_neq in E.
        replace (gi0 + 1 <=? gi) with true in IH by (symmetry; apply N.leb_le; lia).
        replace (N.to_nat (gi - gi0)) with (S (N.to_nat (gi - (gi0 + 1)))) by lia. cbn [nth_error].
        assert (E' : (gi =? gi0) = false) by now apply N.eqb_neq.
        rewrite ?E' in S1, B1, S2. cbn [andb] in S1, B1, S2. rewrite ?andb_false_r in S1, B1, S2.
        destruct (nth_error r (N.to_nat (gi - (gi0 + 1)))) as [g|]; cbn zeta in *; rewrite S1, B1, ?S2 in IH; exact IH.
    + apply N.leb_gt in L1.
      replace (gi0 + 1 <=? gi) with false in IH by (symmetry; apply N.leb_gt; lia).
      assert (E' : (gi =? gi0) = false) by (apply N.eqb_neq; lia).
      rewrite ?E' in S1, B1. cbn [andb] in S1, B1. rewrite ?andb_false_r in S1, B1. destruct IH as (IH1 & IH2). rewrite IH1, IH2, S1, B1. split; reflexivity.
Qed.

Lemma inform_sets : forall cfg m n d alive l gi d',
  let m' := inform cfg m n d alive l in
  match nth_error (c_groups cfg) (N.to_nat gi) with
  | Some g =>
      let r := notify (is_min g) (c_tol cfg) (offset_of g n) (m_sets m gi d) n alive (lookup_lat l n gi d) in
      let hit := keeps_sets g && is_member n (g_members g) && dom_eqb d' d in
      m_sets m' gi d' = (if hit then fst r else m_sets m gi d') /\
      m_bits m' gi d' = (if hit then newbit (m_bits m gi d') (snd r) else m_bits m gi d')
  | None => m_sets m' gi d' = m_sets m gi d' /\ m_bits m' gi d' = m_bits m gi d'
  end.
Proof.
  intros. subst m'. unfold inform.
  pose proof (inform_groups_sets cfg n d alive l (c_groups cfg) m 0 gi d') as H.
  cbn zeta in H. replace (0 <=? gi) with true in H by (symmetry; apply N.leb_le; lia). now rewrite N.sub_0_r in H.
Qed.

(* ---------- the group invariant ---------- *)
Definition SetOK (g : group) (a : aset) (al : N -> bool) (bit : bool) (pend : N -> bool) : Prop :=
  NoDup (keys (as_entries a)) /\
  (forall x, is_member x (as_entries a) = true -> is_member x (g_members g) = true) /\
  (forall x, is_member x (g_members g) = true -> pend x = false -> is_member x (as_entries a) = al x) /\
  (g_policy g = PMin -> Ibest a /\ bit = (Nat.eqb (length (g_members g)) 0 || isSome (as_best a))).

Definition InvG (cfg : config) (al : N -> dom -> bool) (sets : N -> dom -> aset) (bits : N -> dom -> bool)
                (pend : N -> dom -> bool) : Prop :=
  forall gi g d, nth_error (c_groups cfg) (N.to_nat gi) = Some g -> keeps_sets g = true ->
    SetOK g (sets gi d) (fun x => al x d) (bits gi d) (fun x => pend x d).

Definition fl (m : mstate) : N -> dom -> bool := fun n d => d_alive (m_d m n) d.
Definition nopend : N -> dom -> bool := fun _ _ => false.
Definition Inv (cfg : config) (m : mstate) : Prop := InvG cfg (fl m) (m_sets m) (m_bits m) nopend.

Lemma InvG_weaken : forall cfg al al' sets bits pend pend',
  InvG cfg al sets bits pend ->
  (forall x d, pend' x d = false -> pend x d = false /\ al' x d = al x d) ->
  InvG cfg al' sets bits pend'.
Proof.
  intros cfg al al' sets bits pend pend' H W gi g d Hg Hk.
  destruct (H gi g d Hg Hk) as (A & B & C & D). split; [exact A|]. split; [exact B|]. split; [|exact D].
  intros x Hx Hp. destruct (W x d Hp) as (W1 & W2). rewrite W2. now apply C.
Qed.

Lemma is_min_PMin : forall g, is_min g = true <-> g_policy g = PMin.
Proof. intros g; unfold is_min; destruct (g_policy g); split; congruence. Qed.

(* inform repairs the pending pair (n, d) *)
Lemma inform_fix : forall cfg m al pend pend' n d alive l,
  InvG cfg al (m_sets m) (m_bits m) pend -> al n d = alive ->
  (forall x d', pend' x d' = false -> pend x d' = false \/ (x = n /\ d' = d)) ->
  InvG cfg al (m_sets (inform cfg m n d alive l)) (m_bits (inform cfg m n d alive l)) pend'.
Proof.
  intros cfg m al pend pend' n d alive l H Hal W gi g d' Hg Hk.
  pose proof (inform_sets cfg m n d alive l gi d') as HS. cbn zeta in HS. rewrite Hg in HS. rewrite Hk in HS. cbn [andb] in HS.
  destruct (H gi g d' Hg Hk) as (A & B & C & D).
  destruct (is_member n (g_members g) && dom_eqb d' d) eqn:Hit.
  - apply andb_true_iff in Hit. destruct Hit as (Hm & Hd). apply dom_eqb_eq in Hd. subst d'.
    destruct HS as (-> & ->).
    destruct (notify_mem (is_min g) (c_tol cfg) (offset_of g n) (m_sets m gi d) n alive (lookup_lat l n gi d) A) as (N1 & N2).
    cbn zeta in N1, N2. split; [exact N1|]. split; [|split].
    + intros x Hx. rewrite N2 in Hx. destruct (x =? n) eqn:E; [apply N.eqb_eq in E; now subst|now apply B].
    + intros x Hx Hp. rewrite N2. destruct (x =? n) eqn:E.
      * apply N.eqb_eq in E; subst x. now symmetry.
      * destruct (W x d Hp) as [Hp'|(Hx' & _)]; [now apply C|]. apply N.eqb_neq in E. contradiction.
    + intros Hpol. destruct (D Hpol) as (D1 & D2).
      assert (Hmin : is_min g = true) by now apply is_min_PMin. rewrite Hmin.
      destruct (notify_inv (c_tol cfg) (offset_of g n) (m_sets m gi d) n alive (lookup_lat l n gi d) A D1) as (I & Hb).
      cbn zeta in I, Hb. split; [exact I|].
      assert (Hlen : Nat.eqb (length (g_members g)) 0 = false).
      { destruct (g_members g); [rewrite is_member_nil in Hm; discriminate|reflexivity]. }
      rewrite Hlen in *. cbn [orb] in *. rewrite D2. exact Hb.
  - destruct HS as (-> & ->). split; [exact A|]. split; [exact B|]. split; [|exact D].
    intros x Hx Hp. destruct (W x d' Hp) as [Hp'|(Hx' & Hd')]; [now apply C|].
    subst. rewrite Hx, dom_eqb_refl in Hit. discriminate.
Qed.

(* writing one flag makes exactly that pair pending *)
Lemma pend_add : forall cfg al al' sets bits pend n d,
  InvG cfg al sets bits pend ->
  (forall x d', (x = n /\ d' = d) \/ al' x d' = al x d') ->
  InvG cfg al' sets bits (fun x d' => pend x d' || ((x =? n) && dom_eqb d' d)).
Proof.
  intros cfg al al' sets bits pend n d H Hal. eapply InvG_weaken; [exact H|].
  intros x d' Hp. apply orb_false_iff in Hp. destruct Hp as (Hp & Hne). split; [exact Hp|].
  destruct (Hal x d') as [(-> & ->)|E]; [|exact E]. rewrite N.eqb_refl, dom_eqb_refl in Hne. discriminate.
Qed.

Lemma pend_sub : forall (pend : N -> dom -> bool) n d x d',
  pend x d' = false -> (pend x d' || ((x =? n) && dom_eqb d' d)) = false \/ (x = n /\ d' = d).
Proof.
  intros pend n d x d' Hp. rewrite Hp. cbn [orb].
  destruct (x =? n) eqn:E; [|now left]. destruct (dom_eqb d' d) eqn:E2; [|now left].
  right. apply N.eqb_eq in E. apply dom_eqb_eq in E2. auto.
Qed.

(* a flag write at (n, d) followed (possibly after other invariant-preserving work) by inform (n, d) *)
Lemma write_then_inform : forall cfg m m1 n d alive l pend,
  InvG cfg (fl m) (m_sets m) (m_bits m) pend ->
  m_sets m1 = m_sets m -> m_bits m1 = m_bits m ->
  (forall x d', (x = n /\ d' = d) \/ fl m1 x d' = fl m x d') ->
  fl m1 n d = alive ->
  let m2 := inform cfg m1 n d alive l in
  InvG cfg (fl m2) (m_sets m2) (m_bits m2) pend.
Proof.
  intros cfg m m1 n d alive l pend H S B F A m2.
  assert (Hfl : fl m2 = fl m1) by (subst m2; unfold fl; destruct (inform_health cfg m1 n d alive l) as (-> & _); reflexivity).
  rewrite Hfl. subst m2.
  eapply inform_fix; [rewrite S, B; eapply pend_add; [exact H|exact F]|exact A|].
  intros x d' Hp. now apply pend_sub.
Qed.

(* ---------- primitives of m_step preserve the invariant ---------- *)
Lemma fl_point : forall m n d v f t x d',
  fl (set_dialer m n {| md_alive := upd (md_alive (m_d m n)) (canon (index_of d)) v; md_fail := f; md_traffic := t |}) x d'
  = if (x =? n) && dom_eqb d' d then v else fl m x d'.
Proof.
  intros. unfold fl, set_dialer; cbn [m_d]. unfold upd at 1. destruct (x =? n) eqn:E; cbn [andb]; [|reflexivity].
  apply N.eqb_eq in E; subst x. apply point_alive.
Qed.

Lemma InvG_ext : forall cfg al al' s s' b b' pend,
  InvG cfg al s b pend -> (forall x d, al' x d = al x d) -> s' = s -> b' = b -> InvG cfg al' s' b' pend.
Proof. intros; subst. eapply InvG_weaken; [eassumption|]. intros; split; auto. Qed.

Lemma mark_forced_fl : forall cfg m n d l x d',
  fl (mark_forced cfg m n d l) x d' = if (x =? n) && dom_eqb d' d then false else fl m x d'.
Proof.
  intros. unfold mark_forced. cbv zeta.
  match goal with |- fl (inform cfg ?M n d false l) x d' = _ =>
    replace (fl (inform cfg M n d false l) x d') with (fl M x d')
      by (unfold fl; destruct (inform_health cfg M n d false l) as (-> & _); reflexivity) end.
  destruct (md_alive (m_d m n) (canon (index_of d))); apply fl_point.
Qed.

Lemma mark_forced_G : forall cfg m n d l pend,
  InvG cfg (fl m) (m_sets m) (m_bits m) pend ->
  let m' := mark_forced cfg m n d l in InvG cfg (fl m') (m_sets m') (m_bits m') pend.
Proof.
  intros cfg m n d l pend H m'. subst m'. unfold mark_forced. cbv zeta.
  match goal with |- InvG cfg (fl (inform cfg ?M n d false l)) _ _ _ => set (m1 := M) end.
  assert (F : forall x d', fl m1 x d' = if (x =? n) && dom_eqb d' d then false else fl m x d').
  { intros. subst m1. destruct (md_alive (m_d m n) (canon (index_of d))); apply fl_point. }
  apply (write_then_inform cfg m m1 n d false l pend H).
  - subst m1. destruct (md_alive (m_d m n) (canon (index_of d))); reflexivity.
  - subst m1. destruct (md_alive (m_d m n) (canon (index_of d))); reflexivity.
  - intros x d'. rewrite F. destruct ((x =? n) && dom_eqb d' d) eqn:E; [left|now right].
    apply andb_true_iff in E. destruct E as (E1 & E2). apply N.eqb_eq in E1. apply dom_eqb_eq in E2. auto.
  - rewrite F, N.eqb_refl, dom_eqb_refl. reflexivity.
Qed.

Lemma escalate_G : forall cfg m n l pend,
  InvG cfg (fl m) (m_sets m) (m_bits m) pend ->
  let m' := escalate cfg m n l in InvG cfg (fl m') (m_sets m') (m_bits m') pend.
Proof.
  intros cfg m n l pend H. unfold escalate. generalize dependent m.
  induction escalation_order as [|d r IH]; intros m H; cbn [fold_left]; [exact H|].
  apply IH. now apply mark_forced_G.
Qed.

Lemma escalate_fl_false : forall cfg n l x d' ds m,
  fl m x d' = false -> fl (fold_left (fun m d => mark_forced cfg m n d l) ds m) x d' = false.
Proof.
  induction ds as [|d r IH]; intros m H; cbn [fold_left]; [exact H|].
  apply IH. rewrite mark_forced_fl. destruct ((x =? n) && dom_eqb d' d); [reflexivity|exact H].
Qed.

Lemma notify_failure_G : forall cfg m n l pend,
  InvG cfg (fl m) (m_sets m) (m_bits m) pend ->
  let m' := notify_failure cfg m n l in InvG cfg (fl m') (m_sets m') (m_bits m') pend.
Proof.
  intros cfg m n l pend H. unfold notify_failure.
  destruct (c_addr cfg n =? 0); [exact H|]. destruct (m_suppressed m); [exact H|].
  destruct (max_consecutive_failures <=? m_tracker m (c_addr cfg n) + 1); [|exact H].
  apply escalate_G. exact H.
Qed.

Lemma notify_failure_fl_false : forall cfg m n l x d',
  fl m x d' = false -> fl (notify_failure cfg m n l) x d' = false.
Proof.
  intros cfg m n l x d' H. unfold notify_failure.
  destruct (c_addr cfg n =? 0); [exact H|]. destruct (m_suppressed m); [exact H|].
  destruct (max_consecutive_failures <=? m_tracker m (c_addr cfg n) + 1); [|exact H].
  unfold escalate. apply escalate_fl_false. exact H.
Qed.

Lemma mark_unavail_G : forall cfg m n d t l,
  Inv cfg m -> Inv cfg (mark_unavail cfg m n d t l).
Proof.
  intros cfg m n d t l H. unfold mark_unavail. destruct (m_suppressed m); [exact H|].
  set (cur := md_alive (m_d m n) (canon (index_of d))).
  destruct t.
  - (* traffic *)
    cbv beta iota zeta.
    set (alive := if md_traffic (m_d m n) (index_of d) + 1 <? threshold d true then cur else false).
    match goal with |- Inv cfg (inform cfg ?M3 n d alive l) => set (m3 := M3) end.
    set (m1 := set_dialer m n {| md_alive := upd (md_alive (m_d m n)) (canon (index_of d)) alive; md_fail := md_fail (m_d m n);
                                 md_traffic := upd (md_traffic (m_d m n)) (index_of d) (md_traffic (m_d m n) (index_of d) + 1) |}) in *.
    set (m2 := if xorb cur alive then log_transition m1 n d alive else m1) in *.
    assert (F2 : forall x d', fl m2 x d' = if (x =? n) && dom_eqb d' d then alive else fl m x d').
    { intros. subst m2. destruct (xorb cur alive); apply fl_point. }
    assert (S2 : m_sets m2 = m_sets m /\ m_bits m2 = m_bits m) by (subst m2; destruct (xorb cur alive); split; reflexivity).
    assert (H2 : InvG cfg (fl m2) (m_sets m2) (m_bits m2) (fun x d' => nopend x d' || ((x =? n) && dom_eqb d' d))).
    { destruct S2 as (-> & ->). eapply pend_add; [exact H|]. intros x d'. rewrite F2.
      destruct ((x =? n) && dom_eqb d' d) eqn:E; [left|now right].
      apply andb_true_iff in E. destruct E as (E1 & E2). apply N.eqb_eq in E1. apply dom_eqb_eq in E2. auto. }
    assert (H3 : InvG cfg (fl m3) (m_sets m3) (m_bits m3) (fun x d' => nopend x d' || ((x =? n) && dom_eqb d' d))).
    { subst m3. destruct (cur && negb alive); [apply notify_failure_G|]; exact H2. }
    assert (A3 : fl m3 n d = alive).
    { subst m3. destruct (cur && negb alive) eqn:C.
      - apply andb_true_iff in C. destruct C as (_ & C). destruct alive; [discriminate|].
        apply notify_failure_fl_false. rewrite F2, N.eqb_refl, dom_eqb_refl. reflexivity.
      - rewrite F2, N.eqb_refl, dom_eqb_refl. reflexivity. }
    unfold Inv.
    replace (fl (inform cfg m3 n d alive l)) with (fl m3)
      by (unfold fl; destruct (inform_health cfg m3 n d alive l) as (-> & _); reflexivity).
    eapply inform_fix; [exact H3|exact A3|]. intros x d' Hp. now apply pend_sub.
  - (* probe *)
    cbv beta iota zeta.
    set (alive := if md_fail (m_d m n) (index_of d) + 1 <? threshold d false then cur else false).
    match goal with |- Inv cfg (inform cfg ?M3 n d alive l) => set (m3 := M3) end.
    set (m1 := set_dialer m n {| md_alive := upd (md_alive (m_d m n)) (canon (index_of d)) alive;
                                 md_fail := upd (md_fail (m_d m n)) (index_of d) (md_fail (m_d m n) (index_of d) + 1);
                                 md_traffic := md_traffic (m_d m n) |}) in *.
    set (m2 := if xorb cur alive then log_transition m1 n d alive else m1) in *.
    assert (F2 : forall x d', fl m2 x d' = if (x =? n) && dom_eqb d' d then alive else fl m x d').
    { intros. subst m2. destruct (xorb cur alive); apply fl_point. }
    assert (S2 : m_sets m2 = m_sets m /\ m_bits m2 = m_bits m) by (subst m2; destruct (xorb cur alive); split; reflexivity).
    assert (H2 : InvG cfg (fl m2) (m_sets m2) (m_bits m2) (fun x d' => nopend x d' || ((x =? n) && dom_eqb d' d))).
    { destruct S2 as (-> & ->). eapply pend_add; [exact H|]. intros x d'. rewrite F2.
      destruct ((x =? n) && dom_eqb d' d) eqn:E; [left|now right].
      apply andb_true_iff in E. destruct E as (E1 & E2). apply N.eqb_eq in E1. apply dom_eqb_eq in E2. auto. }
    assert (H3 : InvG cfg (fl m3) (m_sets m3) (m_bits m3) (fun x d' => nopend x d' || ((x =? n) && dom_eqb d' d))).
    { subst m3. destruct (cur && negb alive); [apply notify_failure_G|]; exact H2. }
    assert (A3 : fl m3 n d = alive).
    { subst m3. destruct (cur && negb alive) eqn:C.
      - apply andb_true_iff in C. destruct C as (_ & C). destruct alive; [discriminate|].
        apply notify_failure_fl_false. rewrite F2, N.eqb_refl, dom_eqb_refl. reflexivity.
      - rewrite F2, N.eqb_refl, dom_eqb_refl. reflexivity. }
    unfold Inv.
    replace (fl (inform cfg m3 n d alive l)) with (fl m3)
      by (unfold fl; destruct (inform_health cfg m3 n d alive l) as (-> & _); reflexivity).
    eapply inform_fix; [exact H3|exact A3|]. intros x d' Hp. now apply pend_sub.
Qed.

Lemma hit_cases : forall (x n : N) (d' d : dom) (v : bool) (old : bool),
  (x = n /\ d' = d) \/ (if (x =? n) && dom_eqb d' d then v else old) = old.
Proof.
  intros. destruct ((x =? n) && dom_eqb d' d) eqn:E; [left|now right].
  apply andb_true_iff in E. destruct E as (E1 & E2). apply N.eqb_eq in E1. apply dom_eqb_eq in E2. auto.
Qed.

Lemma mark_avail_G : forall cfg m n d l pend,
  InvG cfg (fl m) (m_sets m) (m_bits m) pend ->
  let m' := mark_avail cfg m n d l in InvG cfg (fl m') (m_sets m') (m_bits m') pend.
Proof.
  intros cfg m n d l pend H m'. subst m'. unfold mark_avail. cbv zeta.
  match goal with |- InvG cfg (fl (inform cfg ?M n d true l)) _ _ _ => set (m1 := M) end.
  assert (F : forall x d', fl m1 x d' = if (x =? n) && dom_eqb d' d then true else fl m x d').
  { intros. subst m1. destruct (md_alive (m_d m n) (canon (index_of d))); destruct (c_addr cfg n =? 0); apply fl_point. }
  apply (write_then_inform cfg m m1 n d true l pend H).
  - subst m1. destruct (md_alive (m_d m n) (canon (index_of d))); destruct (c_addr cfg n =? 0); reflexivity.
  - subst m1. destruct (md_alive (m_d m n) (canon (index_of d))); destruct (c_addr cfg n =? 0); reflexivity.
  - intros x d'. rewrite F. apply hit_cases.
  - rewrite F, N.eqb_refl, dom_eqb_refl. reflexivity.
Qed.

Lemma mark_alive_fallback_G : forall cfg m n d l pend,
  InvG cfg (fl m) (m_sets m) (m_bits m) pend ->
  let m' := mark_alive_fallback cfg m n d l in InvG cfg (fl m') (m_sets m') (m_bits m') pend.
Proof.
  intros cfg m n d l pend H m'. subst m'. unfold mark_alive_fallback. cbv zeta.
  match goal with |- context [inform cfg ?M n d true l] => set (m1 := M) end.
  assert (F : forall x d', fl m1 x d' = if (x =? n) && dom_eqb d' d then true else fl m x d') by (intros; subst m1; apply fl_point).
  assert (G : InvG cfg (fl (inform cfg m1 n d true l)) (m_sets (inform cfg m1 n d true l)) (m_bits (inform cfg m1 n d true l)) pend).
  { apply (write_then_inform cfg m m1 n d true l pend H); try reflexivity.
    - intros x d'. rewrite F. apply hit_cases.
    - rewrite F, N.eqb_refl, dom_eqb_refl. reflexivity. }
  destruct (md_alive (m_d m n) (canon (index_of d))); exact G.
Qed.

Lemma traffic_ok_G : forall cfg m n d l, Inv cfg m -> Inv cfg (traffic_ok cfg m n d l).
Proof.
  intros cfg m n d l H. unfold traffic_ok. cbv zeta.
  set (x' := if md_traffic (m_d m n) (index_of d) =? 0 then m_d m n else _).
  assert (Hal : md_alive x' = md_alive (m_d m n)) by (subst x'; destruct (md_traffic (m_d m n) (index_of d) =? 0); reflexivity).
  assert (H1 : InvG cfg (fl (set_dialer m n x')) (m_sets (set_dialer m n x')) (m_bits (set_dialer m n x')) nopend).
  { eapply InvG_ext; [exact H| |reflexivity|reflexivity].
    intros x d'. unfold fl, set_dialer; cbn [m_d]. unfold upd. destruct (x =? n) eqn:E; [|reflexivity].
    apply N.eqb_eq in E; subst x. unfold d_alive. now rewrite Hal. }
  destruct (is_data d && negb (md_alive x' (canon (index_of d)))); [|exact H1].
  apply mark_avail_G. exact H1.
Qed.

