(* C16 — group view: alive sets agree with alive flags; connectivity slot of latency-policy groups. *)
From Coq Require Import List NArith ZArith Bool Lia Permutation.
From Dae Require Import C16_Spec C16_Model C16_Proofs.
From Dae.gen Require Import C16_Consts.
Import ListNotations.
Open Scope N_scope.

Definition keys (l : list (N * Z)) : list N := map fst l.

Lemma is_member_app : forall d a b, is_member d (a ++ b) = is_member d a || is_member d b.
Proof. intros; unfold is_member; apply existsb_app. Qed.
Lemma is_member_In : forall d l, is_member d l = true <-> In d (keys l).
Proof.
  intros d l; unfold is_member, keys. rewrite existsb_exists. split.
  - intros (e & He & Hd). apply N.eqb_eq in Hd. subst. now apply in_map.
  - intros H. apply in_map_iff in H. destruct H as (e & <- & He). exists e; split; auto. apply N.eqb_refl.
Qed.
Lemma is_member_false : forall d l, is_member d l = false <-> ~ In d (keys l).
Proof. intros. rewrite <- is_member_In. destruct (is_member d l); split; congruence. Qed.
Lemma is_member_keys : forall d l l', keys l = keys l' -> is_member d l = is_member d l'.
Proof.
  intros d l l' H. destruct (is_member d l) eqn:E; symmetry.
  - apply is_member_In. rewrite <- H. now apply is_member_In.
  - apply is_member_false. rewrite <- H. now apply is_member_false.
Qed.

(* ---------- swap_remove ---------- *)
Lemma find_idx_split : forall d l i, find_idx d l = Some i ->
  exists l1 e l2, l = l1 ++ e :: l2 /\ fst e = d /\ i = length l1.
Proof.
  induction l as [|e r IH]; intros i H; cbn in H; [discriminate|].
  destruct (fst e =? d) eqn:E.
  - inversion H; subst. exists [], e, r. apply N.eqb_eq in E. auto.
  - destruct (find_idx d r) as [j|] eqn:F; [|discriminate]. inversion H; subst.
    destruct (IH j eq_refl) as (l1 & e' & l2 & -> & Hd & ->). exists (e :: l1), e', l2. auto.
Qed.
Lemma find_idx_none : forall d l, find_idx d l = None -> is_member d l = false.
Proof.
  induction l as [|e r IH]; intros H; cbn in *; [reflexivity|].
  destruct (fst e =? d); [discriminate|]. destruct (find_idx d r); [discriminate|]. cbn. now apply IH.
Qed.
Lemma set_nth_app : forall A (l1 : list A) e r v, set_nth (length l1) v (l1 ++ e :: r) = l1 ++ v :: r.
Proof. induction l1; intros; cbn; [reflexivity|]. now rewrite IHl1. Qed.

Lemma swap_remove_spec : forall d l, NoDup (keys l) ->
  (forall y, is_member y (swap_remove d l) = is_member y l && negb (y =? d)) /\ NoDup (keys (swap_remove d l)).
Proof.
  intros d l ND. unfold swap_remove. destruct (find_idx d l) as [i|] eqn:F.
  2:{ split; [|assumption]. intros y. destruct (y =? d) eqn:E; [|cbn; now rewrite andb_true_r].
      apply N.eqb_eq in E; subst. rewrite (find_idx_none _ _ F). reflexivity. }
  destruct (find_idx_split _ _ _ F) as (l1 & e & l2 & -> & Hd & ->).
  unfold keys in ND. rewrite map_app in ND. cbn [map] in ND. rewrite Hd in ND.
  pose proof (NoDup_remove_1 _ _ _ ND) as ND1. pose proof (NoDup_remove_2 _ _ _ ND) as ND2.
  assert (Hl1 : is_member d l1 = false) by (apply is_member_false; intro; apply ND2; apply in_or_app; now left).
  assert (Hl2 : is_member d l2 = false) by (apply is_member_false; intro; apply ND2; apply in_or_app; now right).
  rewrite app_length. cbn [length].
  destruct l2 as [|z0 l2r] using rev_ind.
  - (* removed element is the last one *)
    replace (Nat.ltb (length l1) (length l1 + 1 - 1)) with false by (symmetry; apply Nat.ltb_ge; lia).
    rewrite removelast_last. split.
    + intros y. rewrite is_member_app. cbn. rewrite Hd, orb_false_r.
      destruct (y =? d) eqn:E; cbn.
      * apply N.eqb_eq in E; subst. now rewrite Hl1.
      * rewrite N.eqb_sym, E. now rewrite orb_false_r, andb_true_r.
    + unfold keys. now rewrite app_nil_r in ND1.
  - clear IHl2r.
    replace (Nat.ltb (length l1) (length l1 + S (length (l2r ++ [z0])) - 1)) with true
      by (symmetry; apply Nat.ltb_lt; rewrite app_length; cbn; lia).
    assert (Hlast : last (l1 ++ e :: l2r ++ [z0]) (0, 0%Z) = z0).
    { replace (l1 ++ e :: l2r ++ [z0]) with ((l1 ++ e :: l2r) ++ [z0]) by (rewrite <- app_assoc; reflexivity). apply last_last. }
    rewrite Hlast, set_nth_app.
    replace (l1 ++ z0 :: l2r ++ [z0]) with ((l1 ++ z0 :: l2r) ++ [z0]) by (rewrite <- app_assoc; reflexivity).
    rewrite removelast_last.
    rewrite is_member_app in Hl2. apply orb_false_iff in Hl2. destruct Hl2 as (Hl2r & Hz). cbn in Hz. rewrite orb_false_r in Hz.
    split.
    + intros y. rewrite !is_member_app. cbn. rewrite !is_member_app. cbn. rewrite Hd, !orb_false_r.
      destruct (y =? d) eqn:E; cbn.
      * apply N.eqb_eq in E; subst. now rewrite Hl1, Hl2r, Hz.
      * rewrite (N.eqb_sym d y), E, andb_true_r. cbn.
        destruct (is_member y l1), (fst z0 =? y), (is_member y l2r); reflexivity.
    + unfold keys in *. rewrite map_app in *. cbn [map] in *. rewrite map_app in ND1. cbn [map] in ND1.
      eapply Permutation_NoDup; [|exact ND1].
      apply Permutation_app_head. apply Permutation_sym. apply Permutation_cons_append.
Qed.

(* ---------- calc_min ---------- *)
Lemma scan_facts : forall l v o,
  let r := fold_left scan_step l (v, o) in
  (snd r = None <-> o = None /\ l = []) /\
  (forall k, snd r = Some k -> o = Some k \/ is_member k l = true).
Proof.
  induction l as [|e r IH]; intros v o; cbn [fold_left].
  - cbn. split; [split; [auto|now intros (H & _)]|auto].
  - set (acc := scan_step (v, o) e). destruct acc as [v' o'] eqn:Ea. specialize (IH v' o'). cbn zeta in *.
    destruct IH as (IH1 & IH2). unfold acc, scan_step in Ea. cbn [fst snd] in Ea.
    split.
    + split.
      * intros H. apply IH1 in H. destruct H as (-> & ->). exfalso.
        destruct o; cbn in Ea; [destruct (snd e <? v)%Z|]; inversion Ea.
      * intros (_ & H). discriminate.
    + intros k H. apply IH2 in H. destruct H as [H | H].
      * destruct o as [k0|]; cbn in Ea.
        -- destruct (snd e <? v)%Z; inversion Ea; subst.
           ++ inversion H; subst. right. cbn. now rewrite N.eqb_refl.
           ++ now left.
        -- inversion Ea; subst. inversion H; subst. right. cbn. now rewrite N.eqb_refl.
      * right. cbn. rewrite H. apply orb_true_r.
Qed.

Lemma calc_min_entries : forall tol a, as_entries (calc_min tol a) = as_entries a.
Proof.
  intros. unfold calc_min. destruct (fold_left scan_step (as_entries a) (HOUR, None)) as [ml md].
  destruct (as_best a); [destruct md; [destruct (switch_ok _ _ _)|]|]; reflexivity.
Qed.

Definition Ibest (a : aset) : Prop :=
  (as_best a = None -> as_entries a = []) /\ (forall b, as_best a = Some b -> is_member b (as_entries a) = true).

Lemma calc_min_best_none : forall tol a, as_best a = None ->
  (as_best (calc_min tol a) = None <-> as_entries a = []) /\
  (forall b, as_best (calc_min tol a) = Some b -> is_member b (as_entries a) = true).
Proof.
  intros tol a Hb. unfold calc_min. pose proof (scan_facts (as_entries a) HOUR None) as (F1 & F2). cbn zeta in *.
  destruct (fold_left scan_step (as_entries a) (HOUR, None)) as [ml md]. cbn [snd] in *. rewrite Hb. cbn [as_best].
  split.
  - split; intros H; [now apply F1 in H|]. apply F1. auto.
  - intros b H. destruct (F2 b H) as [H0|H0]; [discriminate|assumption].
Qed.
Lemma calc_min_best_some : forall tol a b0, as_best a = Some b0 ->
  exists b, as_best (calc_min tol a) = Some b /\ (b = b0 \/ is_member b (as_entries a) = true).
Proof.
  intros tol a b0 Hb. unfold calc_min. pose proof (scan_facts (as_entries a) HOUR None) as (F1 & F2). cbn zeta in *.
  destruct (fold_left scan_step (as_entries a) (HOUR, None)) as [ml md]. cbn [snd] in *. rewrite Hb.
  destruct md as [k|].
  - destruct (switch_ok tol ml (as_best_lat a)); cbn [as_best].
    + exists k. split; auto. right. destruct (F2 k eq_refl); [discriminate|assumption].
    + exists b0. rewrite Hb. auto.
  - exists b0. rewrite Hb. auto.
Qed.
