(* C07 — code-shaped executable model (no proofs) of
     component/routing/matcher_builder.go   RulesBuilder.Apply, groupParamValuesByKey (rule targets: name only)
     component/dns/request_routing.go       RequestMatcherBuilder (upstreamToId, addQName, addQType, addFallback, Build),
                                            RequestMatcher.Match
     component/dns/response_routing.go      ResponseMatcherBuilder (+ addIp, addUpstream), ResponseMatcher.Match
     component/dns/dns.go                   New (upstream table, too-many check), RequestSelect, ResponseSelect
     control/dns_control.go                 HandleWithResponseWriter_ (route first; reject clears the cache family and
                                            answers empty; cache lookup; miss -> dialSend), dialSend (depth check,
                                            response routing, accept / empty / re-ask with invokingDepth+1)
     component/dns/request_rule_split.go    classifyRequestRule, SplitRequestRules (bottom of this file)
     component/dns/routing_program.go       NewNormalizedRequestRoutingProgram (the split feeding dns.New)
     component/daedns/router.go, client.go  NewWithOption (split, request matcher, compileMatcher for sub/node/subnode
                                            rules, predicates), Match*Upstream, Wrap*Dialer's choice, selectUpstream,
                                            resolvingDialer.lookupIPAddr / lookupControlIPAddr (which resolver is asked)
   The two matchers are the same code up to the registered functions and the sentinel names; the model is written once
   with a `side` switch.
   Not modelled (other properties): the optimizers run by dns.New before lowering (C04); the domain matcher (C11: its
   bitmap is a parameter) and the CIDR trie behind ipSet[i].HasPrefix (C12: containment is computed on the 128-bit
   values); cache expiry / TTL / LRU (C08: entries are live); upstream initialisation errors; outbound parameters on
   DNS rule targets; in daedns: the wire exchange with the chosen resolver, the per-family (A/AAAA) aggregation of
   LookupIPAddr and its fall-through when the chosen resolver returns nothing, regexp2 (oracle: m_hits), the coalescing
   of identical concurrent lookups in lookupTypeDedup (a lookup that finds an identical one in flight, or just finished and
   not yet unregistered, shares its result and sends no question of its own; the harness looks up on an idle router). *)
From Coq Require Import List NArith Bool String Ascii.
From Dae Require Import C07_Spec.
From Dae.gen Require Import C07_Consts.
From Dae.gen Require C07_FwdKey.
Import ListNotations.
Open Scope N_scope.

Inductive res (A : Type) := Ok (a : A) | Err (e : N).
Arguments Ok {A} a.
Arguments Err {A} e.

(* error classes *)
Definition E_UPSTREAM : N := 1.       (* upstream ... not found *)
Definition E_FUNC : N := 2.           (* unknown function *)
Definition E_FALLBACK_LAST : N := 4.  (* fallback rule MUST be the last *)
Definition E_TOO_MANY : N := 5.       (* too many upstreams *)
Definition E_UNKNOWN_TYPE : N := 12.  (* unknown match type *)
Definition E_NO_HIT : N := 13.        (* no match set hit *)
Definition E_PANIC_INDEX : N := 14.   (* index out of range (Go panic) *)
Definition E_EMPTY_QNAME : N := 15.   (* qName cannot be empty *)
Definition E_BAD_INDEX : N := 16.     (* bad upstream index *)
Definition E_TOO_DEEP : N := 20.      (* too deep DNS lookup invoking *)
Definition E_UPSTREAM_FAIL : N := 21. (* forwarding failed *)
Definition E_FUEL : N := 99.          (* model artefact: recursion fuel exhausted (proved unreachable) *)

Inductive side := Request | Response.

Definition s_or (sd : side) : N := match sd with Request => DnsRequestOutboundIndex_LogicalOr | Response => DnsResponseOutboundIndex_LogicalOr end.
Definition s_and (sd : side) : N := match sd with Request => DnsRequestOutboundIndex_LogicalAnd | Response => DnsResponseOutboundIndex_LogicalAnd end.
Definition s_mask (sd : side) : N := match sd with Request => DnsRequestOutboundIndex_LogicalMask | Response => DnsResponseOutboundIndex_LogicalMask end.

(* ---------- dns.New: upstreamName2Id[tag] = uint8(len(s.upstream)); a later equal tag overwrites ---------- *)
Fixpoint name2id_go (ups : list string) (name : string) (i : N) (acc : option N) : option N :=
  match ups with
  | [] => acc
  | t :: r => name2id_go r name (i + 1) (if String.eqb t name then Some i else acc)
  end.
Definition name2id (ups : list string) (name : string) : option N := name2id_go ups name 0 None.

(* ---------- upstreamToId (request / response builder) ---------- *)
Definition upstream_to_id (sd : side) (ups : list string) (name : string) : res N :=
  match sd with
  | Request =>
    if String.eqb name "reject" then Ok DnsRequestOutboundIndex_Reject
    else if String.eqb name "asis" then Ok DnsRequestOutboundIndex_AsIs
    else if String.eqb name "<AND>" then Ok DnsRequestOutboundIndex_LogicalAnd
    else if String.eqb name "<OR>" then Ok DnsRequestOutboundIndex_LogicalOr
    else match name2id ups name with Some id => Ok id | None => Err E_UPSTREAM end
  | Response =>
    if String.eqb name "accept" then Ok DnsResponseOutboundIndex_Accept
    else if String.eqb name "reject" then Ok DnsResponseOutboundIndex_Reject
    else if String.eqb name "<AND>" then Ok DnsResponseOutboundIndex_LogicalAnd
    else if String.eqb name "<OR>" then Ok DnsResponseOutboundIndex_LogicalOr
    else match name2id ups name with Some id => Ok id | None => Err E_UPSTREAM end
  end.

(* ---------- the builders ---------- *)
Record mset := { m_type : N; m_value : N; m_not : bool; m_up : N }.        (* requestMatchSet / responseMatchSet *)
Record domset := { ds_key : dkind; ds_index : N; ds_domains : list string }. (* routing.DomainSet *)
Record builder := {
  b_rules : list mset;
  b_domsets : list domset;              (* simulatedDomainSet *)
  b_ipsets : list (list prefix) }.      (* ipSet (one trie per ip() key group) *)

Definition empty_builder : builder := {| b_rules := []; b_domsets := []; b_ipsets := [] |}.

Definition append_rule (b : builder) (m : mset) : builder :=
  {| b_rules := b_rules b ++ [m]; b_domsets := b_domsets b; b_ipsets := b_ipsets b |}.

(* addQName: the domain set is registered under the index the match-set is about to get *)
Definition add_qname (sd : side) (ups : list string) (b : builder) (neg : bool) (key : dkind) (vals : list string)
           (upname : string) : res builder :=
  let b1 := {| b_rules := b_rules b;
               b_domsets := b_domsets b ++ [{| ds_key := key; ds_index := N.of_nat (List.length (b_rules b)); ds_domains := vals |}];
               b_ipsets := b_ipsets b |} in
  match upstream_to_id sd ups upname with
  | Err e => Err e
  | Ok id => Ok (append_rule b1 {| m_type := MatchType_DomainSet; m_value := 0; m_not := neg; m_up := id |})
  end.

(* addQType: one match-set per value, chained with <OR>, the last one carries the target *)
Fixpoint add_qtype (sd : side) (ups : list string) (b : builder) (neg : bool) (vals : list N) (upname : string) : res builder :=
  match vals with
  | [] => Ok b
  | v :: rest =>
    let nm := match rest with [] => upname | _ => "<OR>"%string end in
    match upstream_to_id sd ups nm with
    | Err e => Err e
    | Ok id => add_qtype sd ups (append_rule b {| m_type := MatchType_QType; m_value := v; m_not := neg; m_up := id |}) neg rest upname
    end
  end.

(* addUpstream (response only): Value = id of the named upstream, through the same upstreamToId *)
Fixpoint add_upstream (ups : list string) (b : builder) (neg : bool) (vals : list string) (upname : string) : res builder :=
  match vals with
  | [] => Ok b
  | v :: rest =>
    let nm := match rest with [] => upname | _ => "<OR>"%string end in
    match upstream_to_id Response ups nm with
    | Err e => Err e
    | Ok id =>
      match upstream_to_id Response ups v with
      | Err e => Err e
      | Ok last => add_upstream ups (append_rule b {| m_type := MatchType_Upstream; m_value := last; m_not := neg; m_up := id |}) neg rest upname
      end
    end
  end.

(* addIp (response only): one match-set, Value = uint16(len(b.ipSet)), the index of the new trie truncated to 16 bits *)
Definition add_ip (ups : list string) (b : builder) (neg : bool) (ps : list prefix) (upname : string) : res builder :=
  match upstream_to_id Response ups upname with
  | Err e => Err e
  | Ok id =>
    Ok {| b_rules := b_rules b ++ [{| m_type := MatchType_IpSet; m_value := N.of_nat (List.length (b_ipsets b)) mod 65536; m_not := neg; m_up := id |}];
          b_domsets := b_domsets b;
          b_ipsets := b_ipsets b ++ [ps] |}
  end.

(* groupParamValuesByKey, for qname (the only function whose keys differ) *)
Definition dkind_eqb (a b : dkind) : bool :=
  match a, b with DFull, DFull | DSuffix, DSuffix | DKeyword, DKeyword | DRegex, DRegex => true | _, _ => false end.
Fixpoint add_to_group (key : dkind) (v : string) (gs : list (dkind * list string)) : list (dkind * list string) :=
  match gs with
  | [] => [(key, [v])]
  | (k, vs) :: rest => if dkind_eqb k key then (k, vs ++ [v]) :: rest else (k, vs) :: add_to_group key v rest
  end.
Definition group_by_key (params : list (dkind * string)) : list (dkind * list string) :=
  fold_left (fun gs kv => add_to_group (fst kv) (snd kv) gs) params [].

(* RulesBuilder.Apply: the name handed to the callback of key group j of function i *)
Definition override_name (last_group last_func : bool) (target : string) : string :=
  if last_group then (if last_func then target else "<AND>"%string) else "<OR>"%string.

Fixpoint apply_qname_groups (sd : side) (ups : list string) (b : builder) (neg : bool) (gs : list (dkind * list string))
         (last_func : bool) (target : string) : res builder :=
  match gs with
  | [] => Ok b
  | (k, vals) :: rest =>
    let nm := override_name (match rest with [] => true | _ => false end) last_func target in
    match add_qname sd ups b neg k vals nm with
    | Err e => Err e
    | Ok b' => apply_qname_groups sd ups b' neg rest last_func target
    end
  end.

Definition apply_func (sd : side) (ups : list string) (b : builder) (c : cond) (last_func : bool) (target : string) : res builder :=
  match c_body c with
  | BQName ps => apply_qname_groups sd ups b (c_neg c) (group_by_key ps) last_func target
  | BQType ts => match ts with [] => Ok b | _ => add_qtype sd ups b (c_neg c) ts (override_name true last_func target) end
  | BIp ps =>
    match sd with
    | Request => Err E_FUNC
    | Response => match ps with [] => Ok b | _ => add_ip ups b (c_neg c) ps (override_name true last_func target) end
    end
  | BUpstream ns =>
    match sd with
    | Request => Err E_FUNC
    | Response => match ns with [] => Ok b | _ => add_upstream ups b (c_neg c) ns (override_name true last_func target) end
    end
  end.

Fixpoint apply_funcs (sd : side) (ups : list string) (b : builder) (cs : list cond) (target : string) : res builder :=
  match cs with
  | [] => Ok b
  | c :: rest =>
    match apply_func sd ups b c (match rest with [] => true | _ => false end) target with
    | Err e => Err e
    | Ok b' => apply_funcs sd ups b' rest target
    end
  end.

Fixpoint apply_rules (sd : side) (ups : list string) (b : builder) (rs : list rule) : res builder :=
  match rs with
  | [] => Ok b
  | r :: rest =>
    match apply_funcs sd ups b (r_conds r) (r_target r) with
    | Err e => Err e
    | Ok b' => apply_rules sd ups b' rest
    end
  end.

Definition add_fallback (sd : side) (ups : list string) (b : builder) (fb : string) : res builder :=
  match upstream_to_id sd ups fb with
  | Err e => Err e
  | Ok id => Ok (append_rule b {| m_type := MatchType_Fallback; m_value := 0; m_not := false; m_up := id |})
  end.

(* New...BuilderFromProgram + Build *)
Definition build_matcher (sd : side) (ups : list string) (rt : routing) : res builder :=
  match apply_rules sd ups empty_builder (rt_rules rt) with
  | Err e => Err e
  | Ok b =>
    match add_fallback sd ups b (rt_fallback rt) with
    | Err e => Err e
    | Ok b' =>
      match last (map (fun m => Some m) (b_rules b')) None with
      | Some m => if m_type m =? MatchType_Fallback then Ok b' else Err E_FALLBACK_LAST
      | None => Err E_PANIC_INDEX
      end
    end
  end.

(* ---------- Match ---------- *)
Record margs := { a_qtype : N; a_ips : list N; a_from : N }.

(* (domainMatchBitmap[i/32]>>(i%32))&1 — unguarded index *)
Definition bm_read (bm : list N) (i : N) : option bool :=
  match nth_error bm (N.to_nat (i / 32)) with
  | Some w => Some (N.testbit w (i mod 32))
  | None => None
  end.

Definition eval_mset (sd : side) (ipsets : list (list prefix)) (a : margs) (bm : option (list N)) (i : N) (m : mset) : res bool :=
  if m_type m =? MatchType_DomainSet then
    match bm with
    | None => Ok false
    | Some w => match bm_read w i with Some b => Ok b | None => Err E_PANIC_INDEX end
    end
  else if m_type m =? MatchType_QType then Ok (a_qtype a =? m_value m)
  else if m_type m =? MatchType_Fallback then Ok true
  else
    match sd with
    | Request => Err E_UNKNOWN_TYPE
    | Response =>
      if m_type m =? MatchType_IpSet then
        match nth_error ipsets (N.to_nat (m_value m)) with
        | Some ps => Ok (existsb (fun ip => existsb (fun p => px_covers p ip) ps) (a_ips a))
        | None => Err E_PANIC_INDEX
        end
      else if m_type m =? MatchType_Upstream then Ok (a_from a =? m_value m)
      else Err E_UNKNOWN_TYPE
    end.

Fixpoint match_loop (sd : side) (ipsets : list (list prefix)) (a : margs) (bm : option (list N))
         (ms : list mset) (i : N) (good bad : bool) : res N :=
  match ms with
  | [] => Err E_NO_HIT
  | m :: rest =>
    match (if bad || good then Ok good else eval_mset sd ipsets a bm i m) with
    | Err e => Err e
    | Ok g1 =>
      let up := m_up m in
      let g2 := if negb (up =? s_or sd) then false else g1 in
      let b2 := if negb (up =? s_or sd) then (if Bool.eqb g1 (m_not m) then true else bad) else bad in
      if negb (N.land up (s_mask sd) =? s_mask sd) then
        if negb b2 then Ok up else match_loop sd ipsets a bm rest (i + 1) g2 false
      else match_loop sd ipsets a bm rest (i + 1) g2 b2
    end
  end.

(* ---------- dns.New / RequestSelect / ResponseSelect ---------- *)
Record dns := { d_ups : list string; d_req : builder; d_resp : builder }.

Definition dns_new (cfg : config) : res dns :=
  if DnsRequestOutboundIndex_UserDefinedMax <? N.of_nat (List.length (cf_upstreams cfg)) then Err E_TOO_MANY
  else
    match build_matcher Request (cf_upstreams cfg) (cf_request cfg) with
    | Err e => Err e
    | Ok rq =>
      match build_matcher Response (cf_upstreams cfg) (cf_response cfg) with
      | Err e => Err e
      | Ok rp => Ok {| d_ups := cf_upstreams cfg; d_req := rq; d_resp := rp |}
      end
    end.

(* upstream2Index.Load(fromUpstream): the index stored by the init callback, AsIs for anything else *)
Definition from_index (s : src) : N := match s with SAsIs => DnsRequestOutboundIndex_AsIs | SUp i => i end.

(* bm: what reqMatcher.domainMatcher.MatchDomainBitmap(qname) returns.  The request matcher has no answer addresses and
   no answering upstream (a_ips, a_from are never read on this side). *)
Definition request_select (d : dns) (bm : list N) (q : question) : res req_verdict :=
  let bmo := if String.eqb (q_name q) "" then None else Some bm in
  match match_loop Request (b_ipsets (d_req d)) {| a_qtype := q_type q; a_ips := []; a_from := from_index SAsIs |} bmo
                   (b_rules (d_req d)) 0 false false with
  | Err e => Err e
  | Ok up =>
    if (up =? DnsRequestOutboundIndex_AsIs) || (up =? DnsRequestOutboundIndex_Reject) then
      Ok (if up =? DnsRequestOutboundIndex_AsIs then QAsIs else QReject)
    else if N.of_nat (List.length (d_ups d)) <=? up then Err E_BAD_INDEX
    else Ok (QUp up)
  end.

Definition is_reserved (up : N) : bool :=
  (up =? DnsResponseOutboundIndex_Accept) || (up =? DnsResponseOutboundIndex_Reject)
  || (up =? DnsResponseOutboundIndex_LogicalOr) || (up =? DnsResponseOutboundIndex_LogicalAnd).

(* bm: what respMatcher.domainMatcher.MatchDomainBitmap(qname) returns *)
Definition response_select (d : dns) (bm : list N) (q : question) (ans : list rr) (from : src) : res resp_verdict :=
  if String.eqb (q_name q) "" then Err E_EMPTY_QNAME
  else
    match match_loop Response (b_ipsets (d_resp d))
                     {| a_qtype := q_type q; a_ips := answer_ips ans; a_from := from_index from |} (Some bm)
                     (b_rules (d_resp d)) 0 false false with
    | Err e => Err e
    | Ok up =>
      if negb (is_reserved up) then
        if N.of_nat (List.length (d_ups d)) <=? up then Err E_BAD_INDEX else Ok (PUp up)
      else if up =? DnsResponseOutboundIndex_Accept then Ok PAccept
      else if up =? DnsResponseOutboundIndex_Reject then Ok PReject
      else Err E_BAD_INDEX   (* dialSend: "unknown upstream" *)
    end.

(* ---------- the controller ---------- *)
(* dialSend.  fuel bounds the Coq recursion only; the code's own bound is the depth check. *)
Fixpoint dial_send (fuel : nat) (d : dns) (bm : list N) (q : question) (a : answers) (depth : N) (s : src)
  : res (list rr) * list src :=
  match fuel with
  | O => (Err E_FUEL, [])
  | S f =>
    if MaxDnsLookupDepth <=? depth then (Err E_TOO_DEEP, [])
    else
      match a s (N.to_nat depth) with
      | UFail => (Err E_UPSTREAM_FAIL, [s])
      | UAnswer ans =>
        match response_select d bm q ans s with
        | Err e => (Err e, [s])
        | Ok PAccept => (Ok ans, [s])
        | Ok PReject => (Ok [], [s])            (* respMsg.Answer = nil *)
        | Ok (PUp j) => let '(r, l) := dial_send f d bm q a (depth + 1) (SUp j) in (r, s :: l)
        end
      end
  end.

(* HandleWithResponseWriter_: route first, then the cache *)
Definition handle (fuel : nat) (d : dns) (bmq bmr : list N) (c : cache) (q : question) (a : answers)
  : res (list rr) * list src * cache :=
  match request_select d bmq q with
  | Err e => (Err e, [], c)
  | Ok QReject => (Ok [], [], cache_remove_family c q)   (* RemoveDnsRespCacheFamily; sendReject: Answer = nil *)
  | Ok v =>
    let s := match v with QUp i => SUp i | _ => SAsIs end in
    match cache_lookup c q (src_code s) with
    | Some ans => (Ok ans, [], c)
    | None =>
      let '(r, l) := dial_send fuel d bmr q a 0 s in
      (r, l, match r with Ok ans => cache_insert c q (src_code s) ans | Err _ => c end)
    end
  end.

(* ================================================================================================ *)
(* component/dns/request_rule_split.go, routing_program.go; component/daedns/router.go, client.go      *)
(* ================================================================================================ *)
Definition E_MIXED : N := 30.        (* cannot mix ... in one rule *)
Definition E_KEY : N := 31.          (* unsupported key *)
Definition E_INT_TARGET : N := 32.   (* dns upstream ... not found for sub/node/subnode rule *)
Definition E_NOT_CONFIGURED : N := 33.
Definition E_NAMED : N := 34.        (* dns upstream ... not found (lookup time) *)

(* classifyRequestRule.  cat: internalCategory (Some = hasInternal) *)
Definition is_qfunc (c : cond) : bool := match c_body c with BQName _ | BQType _ => true | _ => false end.

Fixpoint classify_go (fs : list rcond) (cat : option ikind) (has_dns has_other : bool) : res (option ikind) :=
  match fs with
  | [] => Ok cat
  | RDns c :: rest =>
    if is_qfunc c then
      match cat with Some _ => Err E_MIXED | None => classify_go rest cat true has_other end
    else
      match cat with Some _ => Err E_MIXED | None => classify_go rest cat has_dns true end
  | RInt k _ :: rest =>
    if has_dns then Err E_MIXED
    else if has_other then Err E_MIXED
    else match cat with
         | None => classify_go rest (Some k) has_dns has_other
         | Some k0 => if ikind_eqb k0 k then classify_go rest cat has_dns has_other else Err E_MIXED
         end
  end.
Definition classify (r : rrule) : res (option ikind) :=
  match rr_conds r with [] => Ok None | fs => classify_go fs None false false end.

Record split := { sp_dns : list rrule; sp_sub : list rrule; sp_node : list rrule; sp_subnode : list rrule }.

(* SplitRequestRules *)
Fixpoint split_go (rs : list rrule) (acc : split) : res split :=
  match rs with
  | [] => Ok acc
  | r :: rest =>
    match classify r with
    | Err e => Err e
    | Ok None => split_go rest {| sp_dns := sp_dns acc ++ [r]; sp_sub := sp_sub acc; sp_node := sp_node acc; sp_subnode := sp_subnode acc |}
    | Ok (Some ISub) => split_go rest {| sp_dns := sp_dns acc; sp_sub := sp_sub acc ++ [r]; sp_node := sp_node acc; sp_subnode := sp_subnode acc |}
    | Ok (Some INode) => split_go rest {| sp_dns := sp_dns acc; sp_sub := sp_sub acc; sp_node := sp_node acc ++ [r]; sp_subnode := sp_subnode acc |}
    | Ok (Some ISubNode) => split_go rest {| sp_dns := sp_dns acc; sp_sub := sp_sub acc; sp_node := sp_node acc; sp_subnode := sp_subnode acc ++ [r] |}
    end
  end.
Definition split_request_rules (rs : list rrule) : res split :=
  split_go rs {| sp_dns := []; sp_sub := []; sp_node := []; sp_subnode := [] |}.

(* dns.New on the written section: NewNormalizedRequestRoutingProgram, then the builders on program.Rules only *)
Definition cfg_of (rc : rconfig) (sp : split) : config :=
  {| cf_upstreams := rc_upstreams rc;
     cf_request := {| rt_rules := map to_rule (sp_dns sp); rt_fallback := rc_fallback rc |};
     cf_response := rc_response rc |}.
Definition dns_new_raw (rc : rconfig) : res dns :=
  if DnsRequestOutboundIndex_UserDefinedMax <? N.of_nat (List.length (rc_upstreams rc)) then Err E_TOO_MANY
  else match split_request_rules (rc_request rc) with
       | Err e => Err e
       | Ok sp => dns_new (cfg_of rc sp)
       end.

(* ---------- daedns.Router ---------- *)
Definition skey_code (k : skey) : N :=
  match k with KDefault => 0 | KTag => 1 | KTagRegex => 2 | KRegex => 3 | KLinkKeyword => 4 | KLinkRegex => 5 | KName => 6
             | KNameKeyword => 7 | KNameRegex => 8 | KSubtag => 9 | KSubtagRegex => 10 | KOther => 11 end.
Definition skey_eqb (a b : skey) : bool := skey_code a =? skey_code b.

(* groupParamValuesByKey (router.go) *)
Fixpoint sadd_to_group (key : skey) (v : string) (gs : list (skey * list string)) : list (skey * list string) :=
  match gs with
  | [] => [(key, [v])]
  | (k, vs) :: rest => if skey_eqb k key then (k, vs ++ [v]) :: rest else (k, vs) :: sadd_to_group key v rest
  end.
Definition sgroup_by_key (params : list (skey * string)) : list (skey * list string) :=
  fold_left (fun gs kv => sadd_to_group (fst kv) (snd kv) gs) params [].

(* compileSubscriptionCondition / compileNodeCondition / compileSubNodeCondition: one condition per key group *)
Inductive ccond :=
| CcTag (vs : list string)            (* slices.Contains(values, tag) *)
| CcName (vs : list string)
| CcRegex (field : N) (vs : list string)
| CcNameKeyword (vs : list string)
| CcLinkKeyword (vs : list string).

Definition compile_node_condition (key : skey) (vs : list string) : res ccond :=
  match key with
  | KDefault | KName => Ok (CcName vs)
  | KNameKeyword => Ok (CcNameKeyword vs)
  | KNameRegex => Ok (CcRegex 2 vs)
  | KLinkKeyword => Ok (CcLinkKeyword vs)
  | KLinkRegex => Ok (CcRegex 3 vs)
  | _ => Err E_KEY
  end.
Definition compile_condition (k : ikind) (key : skey) (vs : list string) : res ccond :=
  match k with
  | ISub =>
    match key with
    | KDefault | KTag => Ok (CcTag vs)
    | KTagRegex | KRegex => Ok (CcRegex 1 vs)
    | KLinkKeyword => Ok (CcLinkKeyword vs)
    | KLinkRegex => Ok (CcRegex 3 vs)
    | _ => Err E_KEY
    end
  | INode => compile_node_condition key vs
  | ISubNode =>
    match key with
    | KDefault | KSubtag => Ok (CcTag vs)
    | KSubtagRegex | KRegex => Ok (CcRegex 1 vs)
    | KName | KNameKeyword | KNameRegex | KLinkKeyword | KLinkRegex => compile_node_condition key vs
    | _ => Err E_KEY
    end
  end.

Definition ccond_eval (c : ccond) (m : meta) : bool :=
  match c with
  | CcTag vs => existsb (fun v => String.eqb v (m_subtag m)) vs
  | CcName vs => existsb (fun v => String.eqb v (m_name m)) vs
  | CcRegex f vs => existsb (fun v => hit m f v) vs
  | CcNameKeyword vs => existsb (fun v => contains (m_name m) v) vs
  | CcLinkKeyword vs => existsb (fun v => contains (m_link m) v) vs
  end.

Fixpoint compile_groups (k : ikind) (gs : list (skey * list string)) : res (list ccond) :=
  match gs with
  | [] => Ok []
  | (key, vs) :: rest =>
    match compile_condition k key vs with
    | Err e => Err e
    | Ok c => match compile_groups k rest with Err e => Err e | Ok cs => Ok (c :: cs) end
    end
  end.

(* compile*Predicate: conditions (a constant one when there are no params), wrapNotPredicate, the subnode guard *)
Record cpred := { cp_kind : ikind; cp_not : bool; cp_any : bool; cp_conds : list ccond }.
Definition compile_predicate (k : ikind) (s : selector) : res cpred :=
  match compile_groups k (sgroup_by_key (s_params s)) with
  | Err e => Err e
  | Ok cs => Ok {| cp_kind := k; cp_not := s_neg s; cp_any := match s_params s with [] => true | _ => false end; cp_conds := cs |}
  end.
Definition cpred_eval (p : cpred) (m : meta) : bool :=
  let has_sub := negb (String.eqb (m_subtag m) "") in
  let matched := (cp_any p && match cp_kind p with ISubNode => has_sub | _ => true end)
                 || existsb (fun c => ccond_eval c m) (cp_conds p) in
  let base := if cp_not p then negb matched else matched in
  match cp_kind p with ISubNode => if has_sub then base else false | _ => base end.

Record crule := { cr_preds : list cpred; cr_upstream : string }.

Fixpoint compile_preds (k : ikind) (fs : list rcond) : res (list cpred) :=
  match fs with
  | [] => Ok []
  | RDns _ :: _ => Err E_FUNC                       (* unexpected function in ... rule *)
  | RInt k' s :: rest =>
    if negb (ikind_eqb k k') then Err E_FUNC
    else match compile_predicate k s with
         | Err e => Err e
         | Ok p => match compile_preds k rest with Err e => Err e | Ok ps => Ok (p :: ps) end
         end
  end.

(* r.upstreams: map tag -> resolver *)
Definition has_tag (ups : list string) (t : string) : bool := existsb (String.eqb t) ups.

(* compileMatcher: nil for an empty rule list *)
Fixpoint compile_rules (ups : list string) (k : ikind) (rs : list rrule) : res (list crule) :=
  match rs with
  | [] => Ok []
  | r :: rest =>
    if negb (has_tag ups (rr_target r)) then Err E_INT_TARGET
    else match compile_preds k (rr_conds r) with
         | Err e => Err e
         | Ok ps => match compile_rules ups k rest with
                    | Err e => Err e
                    | Ok crs => Ok ({| cr_preds := ps; cr_upstream := rr_target r |} :: crs)
                    end
         end
  end.

Fixpoint cmatch (rules : list crule) (m : meta) : option string :=
  match rules with
  | [] => None
  | r :: rest => if forallb (fun p => cpred_eval p m) (cr_preds r) then Some (cr_upstream r) else cmatch rest m
  end.

Record router := { ro_ups : list string; ro_req : builder; ro_sub : list crule; ro_node : list crule; ro_subnode : list crule }.

(* NewWithOption: None = nil router (no request rule of any kind) *)
Definition router_new (rc : rconfig) : res (option router) :=
  match split_request_rules (rc_request rc) with
  | Err e => Err e
  | Ok sp =>
    match sp_dns sp, sp_sub sp, sp_node sp, sp_subnode sp with
    | [], [], [], [] => Ok None
    | _, _, _, _ =>
      match build_matcher Request (rc_upstreams rc) {| rt_rules := map to_rule (sp_dns sp); rt_fallback := rc_fallback rc |} with
      | Err e => Err e
      | Ok rq =>
        match compile_rules (rc_upstreams rc) ISub (sp_sub sp) with
        | Err e => Err e
        | Ok s =>
          match compile_rules (rc_upstreams rc) INode (sp_node sp) with
          | Err e => Err e
          | Ok n =>
            match compile_rules (rc_upstreams rc) ISubNode (sp_subnode sp) with
            | Err e => Err e
            | Ok sn => Ok (Some {| ro_ups := rc_upstreams rc; ro_req := rq; ro_sub := s; ro_node := n; ro_subnode := sn |})
            end
          end
        end
      end
    end
  end.

(* MatchSubscriptionUpstream / MatchNodeUpstream (and the selection inside Wrap*Dialer) *)
Definition match_subscription_upstream (r : router) (m : meta) : option string := cmatch (ro_sub r) m.
Definition match_node_upstream (r : router) (m : meta) : option string :=
  match (if negb (String.eqb (m_subtag m) "") then cmatch (ro_subnode r) m else None) with
  | Some u => Some u
  | None => cmatch (ro_node r) m
  end.

(* Router.selectUpstream: the named upstream, else the request matcher on CanonicalName(host) *)
Definition select_upstream (r : router) (name : string) (bm : list N) (q : question) : res plan :=
  if negb (String.eqb name "") then
    match name2id (ro_ups r) name with Some i => Ok (PlanUp i) | None => Err E_NAMED end
  else
    match match_loop Request (b_ipsets (ro_req r)) {| a_qtype := q_type q; a_ips := []; a_from := from_index SAsIs |} (Some bm)
                     (b_rules (ro_req r)) 0 false false with
    | Err e => Err e
    | Ok up =>
      if (up =? DnsRequestOutboundIndex_AsIs) || (up =? DnsRequestOutboundIndex_Reject) then Ok PlanBase
      else if N.of_nat (List.length (ro_ups r)) <=? up then Err E_BAD_INDEX
      else Ok (PlanUp up)
    end.

(* resolvingDialer.lookupIPAddr / lookupControlIPAddr: which resolver is asked first *)
Definition dialer_plan (r : router) (named : option string) (control_host host : string) (bm : list N) (q : question) : res plan :=
  let nm := match named with Some n => n | None => ""%string end in
  if same_host host control_host then
    if String.eqb nm "" then Ok PlanBootstrap else select_upstream r nm bm q
  else select_upstream r nm bm q.

(* ================================================================================================ *)
(* control/dns_control.go: dnsForwarderKey, newDnsForwarderKey, getOrCreateDnsForwarder,               *)
(*                         forwardWithDialArg (retire on failure)                                      *)
(* ================================================================================================ *)
(* dialArgument, as far as the key reads it ("" for a nil dialer / outbound) *)
Record dialarg := { d_l4 : N; d_ipv : N; d_dialer : string; d_outbound : string; d_target : N * N; d_mark : N; d_mptcp : bool }.
Definition L4_UDP : N := 2.

Inductive comp := CS (s : string) | CN (n : N).
Definition up_comp (u : uid) (c : N) : comp :=
  if c =? 1 then CS (u_scheme u) else if c =? 2 then CS (u_host u) else if c =? 3 then CN (u_port u)
  else if c =? 4 then CS (u_path u) else CN 0.
Definition dial_comp (d : dialarg) (c : N) : comp :=
  if c =? 1 then CN (d_l4 d) else if c =? 2 then CN (d_ipv d) else if c =? 3 then CS (d_dialer d)
  else if c =? 4 then CS (d_outbound d) else if c =? 5 then CN (fst (d_target d) * 65536 + snd (d_target d))
  else if c =? 6 then CN (d_mark d) else if c =? 7 then CN (if d_mptcp d then 1 else 0) else CN 0.

Definition fkey := (list comp * list comp)%type.
(* the key made of the given components *)
Definition fwd_key_of (ufs dfs : list N) (u : uid) (d : dialarg) : fkey := (map (up_comp u) ufs, map (dial_comp d) dfs).
(* newDnsForwarderKey: the components the CODE uses (coq/gen/C07_FwdKey.v, regenerated from the source on every run) *)
Definition fwd_key : uid -> dialarg -> fkey := fwd_key_of C07_FwdKey.FwdKeyUpstreamFields C07_FwdKey.FwdKeyDialFields.

Definition comp_eqb (a b : comp) : bool :=
  match a, b with CS x, CS y => String.eqb x y | CN x, CN y => x =? y | _, _ => false end.
Fixpoint comps_eqb (a b : list comp) : bool :=
  match a, b with
  | [], [] => true
  | x :: a', y :: b' => comp_eqb x y && comps_eqb a' b'
  | _, _ => false
  end.
Definition fkey_eqb (a b : fkey) : bool := comps_eqb (fst a) (fst b) && comps_eqb (snd a) (snd b).

(* dnsForwarderCache: key -> the forwarder, remembered here by the upstream it was created for *)
Definition fcache := list (fkey * uid).

(* getOrCreateDnsForwarder: a cached forwarder under the key, else dnsForwarderFactory(upstream, dialArg) stored under it *)
Definition get_or_create (fc : fcache) (u : uid) (d : dialarg) : uid * fcache :=
  match find (fun e => fkey_eqb (fst e) (fwd_key u d)) fc with
  | Some e => (snd e, fc)
  | None => (u, (fwd_key u d, u) :: fc)
  end.

(* forwardWithDialArg: a failed exchange over UDP retires the cached forwarder (shouldRetireCachedDnsForwarder;
   stream forwarders of a direct dialer stay) *)
Definition retire (fc : fcache) (k : fkey) : fcache := filter (fun e => negb (fkey_eqb (fst e) k)) fc.

Record fstep := { fs_u : uid; fs_d : dialarg; fs_fail : bool }.

(* a history of upstream queries (successive questions, re-asks): the upstream each used forwarder was created for *)
Fixpoint run_forward (fc : fcache) (h : list fstep) : list uid * fcache :=
  match h with
  | [] => ([], fc)
  | s :: rest =>
    let '(b, fc1) := get_or_create fc (fs_u s) (fs_d s) in
    let fc2 := if fs_fail s && (d_l4 (fs_d s) =? L4_UDP) then retire fc1 (fwd_key (fs_u s) (fs_d s)) else fc1 in
    let '(bs, fc3) := run_forward fc2 rest in
    (b :: bs, fc3)
  end.

(* ---------- client.go: Router.LookupIPAddr (per-family loop), resolvingDialer.lookupIPAddr ---------- *)
Inductive lres := LAddrs | LPassthrough | LError (e : N) | LNone.

(* for _, qtype := range qtypes { selectUpstream; lookupTypeDedup } — every asked upstream answers with an address *)
Fixpoint lookup_loop (r : router) (nm : string) (bm : list N) (q : question) (ts : list N)
         (sent : list (N * N)) (saw_pass : bool) (first_err : option N) : list (N * N) * lres :=
  match ts with
  | [] => (sent, match sent with
                 | _ :: _ => LAddrs
                 | [] => if saw_pass then LPassthrough else match first_err with Some e => LError e | None => LNone end
                 end)
  | t :: rest =>
    match select_upstream r nm bm (with_type q t) with
    | Ok (PlanUp i) => lookup_loop r nm bm q rest (sent ++ [(t, i)]) saw_pass first_err
    | Ok _ => lookup_loop r nm bm q rest sent true first_err            (* errPassthroughToBaseResolver *)
    | Err e => lookup_loop r nm bm q rest sent saw_pass (match first_err with None => Some e | s => s end)
    end
  end.
Definition lookup_ip_addr (r : router) (nm : string) (ver : N) (bm : list N) (q : question) : list (N * N) * lres :=
  lookup_loop r nm bm q (families ver) [] false None.

(* resolvingDialer.lookupIPAddr / lookupControlIPAddr: questions sent, and who produced the result
   (0 upstreams, 300 bootstrap, 301 base, 1000+e error) *)
Definition dialer_lookup (r : router) (named : option string) (control_host host : string) (ver : N) (bm : list N) (q : question)
  : list (N * N) * N :=
  let nm := match named with Some n => n | None => ""%string end in
  if same_host host control_host then
    if String.eqb nm "" then ([], 300)
    else let '(s, l) := lookup_ip_addr r nm ver bm q in
         (s, match l with LAddrs => 0 | LPassthrough => 300 | LError e => 1000 + e | LNone => 300 end)
  else let '(s, l) := lookup_ip_addr r nm ver bm q in
       (s, match l with LAddrs => 0 | LPassthrough => 301 | LError e => 1000 + e | LNone => if String.eqb nm "" then 301 else 0 end).

(* ================================================================================================ *)
(* component/dns/upstream.go: UpstreamResolver.GetUpstream — lazy initialisation under concurrent callers *)
(* ================================================================================================ *)
(* Every caller that finds the state unset builds its own *Upstream.  dns.New's FinishInitCallback REGISTERS a
   built upstream in upstream2Index (pointer -> index of the tag); Dns.ResponseSelect later identifies the answering
   upstream by that pointer and treats an unregistered pointer as "asis".  The slow path as a straight-line program
   of atomic steps (coq/gen/C07_InitProg.v, read off the source by shape on every run). *)
Inductive retk := RetOwn | RetPublished.
Inductive iop :=
| ILoad                      (* state := u.state.Load(); initialised -> return the published upstream *)
| IBuild                     (* newUpstreamFunc: this caller's own *Upstream *)
| IRegister                  (* FinishInitCallback: upstream2Index.Store(own, i) *)
| IStore                     (* u.state.Store(&upstreamState{own}) *)
| ICasOrRet (k : retk)       (* if !u.state.CompareAndSwap(state, new) { return k } *)
| IRet (k : retk).

Record ithread := { t_pc : list iop; t_reg : bool; t_pubd : bool; t_done : option (option nat) }.
Record istate := { g_pub : option nat; g_regd : list nat; g_thr : nat -> ithread }.

Definition upd (f : nat -> ithread) (i : nat) (th : ithread) : nat -> ithread := fun j => if Nat.eqb j i then th else f j.

(* one atomic step of caller i (its own build is identified with i) *)
Definition istep (g : istate) (i : nat) : istate :=
  let th := g_thr g i in
  match t_done th, t_pc th with
  | Some _, _ | _, [] => g
  | None, op :: rest =>
    let go := fun pub regd reg pubd => {| g_pub := pub; g_regd := regd;
                 g_thr := upd (g_thr g) i {| t_pc := rest; t_reg := reg; t_pubd := pubd; t_done := None |} |} in
    let ret := fun v => {| g_pub := g_pub g; g_regd := g_regd g;
                 g_thr := upd (g_thr g) i {| t_pc := rest; t_reg := t_reg th; t_pubd := t_pubd th; t_done := Some v |} |} in
    let retv := fun k => match k with RetOwn => Some i | RetPublished => g_pub g end in
    match op with
    | ILoad => match g_pub g with Some v => ret (Some v) | None => go (g_pub g) (g_regd g) (t_reg th) (t_pubd th) end
    | IBuild => go (g_pub g) (g_regd g) (t_reg th) (t_pubd th)
    | IRegister => go (g_pub g) (i :: g_regd g) true (t_pubd th)
    | IStore => go (Some i) (g_regd g) (t_reg th) true
    | ICasOrRet k => match g_pub g with
                     | None => go (Some i) (g_regd g) (t_reg th) true
                     | Some _ => ret (retv k)
                     end
    | IRet k => ret (retv k)
    end
  end.
Definition irun (g : istate) (sched : list nat) : istate := fold_left istep sched g.
Definition iinit (p : list iop) : istate :=
  {| g_pub := None; g_regd := []; g_thr := fun _ => {| t_pc := p; t_reg := false; t_pubd := false; t_done := None |} |}.
