(* C15 — executable comparison functions used by the generated cases file (no proofs). *)
From Coq Require Import List ZArith Bool Arith.
From Dae Require Import C15_Spec C15_Model C15_Switch.
Import ListNotations.
Open Scope Z_scope.

(* dump of one AliveDialerSet of the implementation (read by reflection in the harness) *)
Record set_dump := {
  sd_t : ntype;
  sd_entries : list (nat * Z);
  sd_idx : list Z;               (* dialerToIndex for dialers 0..n-1: index, -1 (Init), -2 (NotAlive) *)
  sd_lat : list (option Z);      (* dialerToLatency for dialers 0..n-1 *)
  sd_policy : spol;
  sd_best : option nat;
  sd_best_lat : Z
}.

Inductive obs_sel := OSok (d : nat) (lat : Z) (sel : ntype) | OSerr (e : sel_err) (lat : Z).

Inductive obs_step :=
| SOp (m : mop) (dumps : list set_dump) (cbs : list (ntype * bool))
| SSel (rq : reqtype) (strict : bool) (excl : option nat) (results : list obs_sel)
| SGetMin (t : ntype) (excl : option nat) (d : option nat) (lat : Z)      (* AliveDialerSet.GetMinLatency *)
| SGetRand (t : ntype) (excl : option nat) (ds : list (option nat))       (* AliveDialerSet.GetRandExcluded, repeated *)
| SPanic (m : mop).                                                       (* the operation panicked (last step) *)

Record obs_case := {
  oc_n : nat; oc_offs : list Z; oc_tol : Z; oc_p0 : gpol;
  oc_init : list set_dump;       (* all six sets right after NewDialerGroup (empty for fixed) *)
  oc_init_cbs : list (ntype * bool);
  oc_steps : list obs_step;
  oc_foreign : bool              (* the history names a dialer that is not a member: only impl = raw model is judged *)
}.

Definition cfg_of (c : obs_case) : cfg :=
  {| c_n := oc_n c; c_off := fun d => nth d (oc_offs c) 0; c_tol := oc_tol c |}.

Definition slot_code (s : slot) : Z :=
  match s with SAt i => Z.of_nat i | SInit => -1 | SNotAlive => -2 end.
Definition oZ_eqb (a b : option Z) : bool :=
  match a, b with Some x, Some y => x =? y | None, None => true | _, _ => false end.
Definition entry_eqb (a b : nat * Z) : bool := Nat.eqb (fst a) (fst b) && (snd a =? snd b).
Fixpoint list_eqb {A} (eqb : A -> A -> bool) (l1 l2 : list A) : bool :=
  match l1, l2 with
  | [], [] => true
  | x :: r1, y :: r2 => eqb x y && list_eqb eqb r1 r2
  | _, _ => false
  end.
Definition cb_eqb (a b : ntype * bool) : bool := ntype_eqb (fst a) (fst b) && Bool.eqb (snd a) (snd b).

(* impl = model on one set (exact, including the order of aliveEntries) *)
Definition dump_matches (n : nat) (a : aset) (d : set_dump) : bool :=
  list_eqb entry_eqb (a_entries a) (sd_entries d)
  && list_eqb Z.eqb (map (fun i => slot_code (a_idx a i)) (seq 0 n)) (sd_idx d)
  && list_eqb oZ_eqb (map (a_lat a) (seq 0 n)) (sd_lat d)
  && spol_eqb (a_policy a) (sd_policy d)
  && onat_eqb (a_best a) (sd_best d)
  && (a_best_lat a =? sd_best_lat d).

(* a set state (entries, best) against the spec's view of the same type *)
Definition entries_match_view (es : list (nat * Z)) (v : view) (minp : bool) : bool :=
  Nat.eqb (length es) (length v)
  && forallb (fun e => match view_get (fst e) v with
                       | Some m => if minp then snd e =? eff m else true
                       | None => false end) es
  && forallb (fun x => existsb (fun e => Nat.eqb (fst e) (fst x)) es) v.

Definition best_ok (tol : Z) (v : view) (p : spol) (best : option nat) : bool :=
  match p with
  | SRandom => negb (is_some best)
  | SMin _ => match best with Some b => within_tol tol v b | None => match v with [] => true | _ => false end end
  end.

Definition model_sets (g : group) : ntype -> aset :=
  match g_sets g with Some s => s | None => empty_sets end.

Definition sel_matches_model (m : msel) (o : obs_sel) : bool :=
  match m, o with
  | MOk ds l sels, OSok d lo selo =>
      (l =? lo) && existsb (fun x => Nat.eqb (fst x) d && ntype_eqb (snd x) selo) (combine ds sels)
  | MErr e l, OSerr eo lo =>
      match e, eo with ENoDialer, ENoDialer | ENoAlive, ENoAlive | EOutOfRange, EOutOfRange => l =? lo | _, _ => false end
  | _, _ => false
  end.

Definition res_of_obs (o : obs_sel) : sel_res :=
  match o with OSok d l _ => ROk d l | OSerr e l => RErr e l end.
Definition res_of_model := results_of.

(* error codes:  1 impl<>model (set dump)   5 impl<>model (callbacks)   4 impl<>model (selection)
                 2 impl<>spec (set state: alive view / standing choice / switch reason)
                 6 impl<>spec (selection)
                 3 model<>spec (set state)  7 model<>spec (selection) *)
Definition check_dump (c : cfg) (s' : sstate) (g' : group) (impl_best model_best : ntype -> option nat)
           (is_policy : bool) (n : N) (d : set_dump) : list (N * N) :=
  let t := sd_t d in
  let a := model_sets g' t in
  let v := ss_views s' t in
  let minp := is_min_policy (sd_policy d) in
  (if dump_matches (c_n c) a d then [] else [(n, 1%N)])
  ++ (if entries_match_view (sd_entries d) v minp
         && best_ok (c_tol c) v (sd_policy d) (sd_best d)
         && (if minp then switch_ok (c_tol c) v (impl_best t) (sd_best d) is_policy else true)
      then [] else [(n, 2%N)])
  ++ (if entries_match_view (a_entries a) v (is_min_policy (a_policy a))
         && best_ok (c_tol c) v (a_policy a) (a_best a)
         && (if is_min_policy (a_policy a) then switch_ok (c_tol c) v (model_best t) (a_best a) is_policy else true)
      then [] else [(n, 3%N)]).

Definition upd_best (f : ntype -> option nat) (ds : list set_dump) : ntype -> option nat :=
  fold_left (fun f d => fun t => if ntype_eqb t (sd_t d) then sd_best d else f t) ds f.

Definition is_policy_mop (m : mop) : bool :=
  match m with MOp (OPolicy _) | MSwitchSet _ _ | MPublish _ => true | _ => false end.

(* a direct read of one set against the spec's view: nil iff no non-excluded alive node, else such a node *)
Definition direct_ok (v : view) (excl : option nat) (d : option nat) : bool :=
  match d with
  | None => match cands excl v with [] => true | _ => false end
  | Some x => existsb (Nat.eqb x) (cands excl v)
  end.

Fixpoint check_steps (c : cfg) (steps : list obs_step) (x : xstate) (g : group)
         (impl_best : ntype -> option nat) (n : N) : list (N * N) :=
  match steps with
  | [] => []
  | SOp m dumps cbs :: rest =>
      let x' := xspec_step c x m in
      let '(g', mcb) := xstep_raw c g m in
      let ep := if xstep_raw_panics c g m then [(n, 1%N)] else [] in
      let is_policy := is_policy_mop m in
      let model_best := fun t => a_best (model_sets g t) in
      let e := flat_map (check_dump c (sstate_of x') g' impl_best model_best is_policy n) dumps in
      let e5 := if list_eqb cb_eqb mcb cbs then [] else [(n, 5%N)] in
      let impl_best' := match m with
                        | MOp (OPolicy (GFixed _)) => fun _ => None
                        | _ => upd_best impl_best dumps end in
      ep ++ e ++ e5 ++ check_steps c rest x' g' impl_best' (n + 1)%N
  | SPanic m :: _ => if xstep_raw_panics c g m then [] else [(n, 1%N)]
  | SSel rq strict excl results :: rest =>
      let t := key_of rq in
      let s := sstate_of x in
      let m := select c g rq strict excl in
      let e4 := if forallb (sel_matches_model m) results then [] else [(n, 4%N)] in
      let e6 := if forallb (fun o => select_ok c s t strict excl (res_of_obs o)) results then [] else [(n, 6%N)] in
      let e7 := if forallb (select_ok c s t strict excl) (res_of_model m) then [] else [(n, 7%N)] in
      e4 ++ e6 ++ e7 ++ check_steps c rest x g impl_best (n + 1)%N
  | SGetMin t excl d l :: rest =>
      let '(md, ml) := get_min (model_sets g t) excl in
      let v := x_views x t in
      let e4 := if onat_eqb md d && (ml =? l) then [] else [(n, 4%N)] in
      let e6 := if direct_ok v excl d then [] else [(n, 6%N)] in
      let e7 := if direct_ok v excl md then [] else [(n, 7%N)] in
      e4 ++ e6 ++ e7 ++ check_steps c rest x g impl_best (n + 1)%N
  | SGetRand t excl ds :: rest =>
      let mds := get_rand (model_sets g t) excl in
      let v := x_views x t in
      let e4 := if forallb (fun d => match d with
                                     | Some y => existsb (Nat.eqb y) mds
                                     | None => match mds with [] => true | _ => false end end) ds
                then [] else [(n, 4%N)] in
      let e6 := if forallb (direct_ok v excl) ds then [] else [(n, 6%N)] in
      let e7 := if match mds with [] => direct_ok v excl None | _ => forallb (fun y => direct_ok v excl (Some y)) mds end
                then [] else [(n, 7%N)] in
      e4 ++ e6 ++ e7 ++ check_steps c rest x g impl_best (n + 1)%N
  end.

Definition check_case (oc : obs_case) : list (N * N) :=
  let c := cfg_of oc in
  let x0 := xspec_init c (oc_p0 oc) in
  let g0 := init_group c (oc_p0 oc) in
  let mcb0 := match oc_p0 oc with GSet sp => snd (build_sets c store0 sp) | GFixed _ => [] end in
  let e0 := flat_map (check_dump c (sstate_of x0) g0 (fun _ => None) (fun _ => None) true 0%N) (oc_init oc) in
  let e5 := if list_eqb cb_eqb mcb0 (oc_init_cbs oc) then [] else [(0%N, 5%N)] in
  let all := e0 ++ e5 ++ check_steps c (oc_steps oc) x0 g0 (upd_best (fun _ => None) (oc_init oc)) 1%N in
  if oc_foreign oc
  then filter (fun e => match snd e with 1%N | 4%N | 5%N => true | _ => false end) all
  else all.

(* branch signature of a case (computed on the model): number of notifications that changed the standing
   choice of a set, selections answered from a fallback type, selections reporting no alive node,
   last-resort selections, selections where the excluded node was the standing choice, reads (selections and
   direct set reads) made while some set's policy differs from the published policy *)
Definition mismatch (g : group) : bool :=
  match g_policy g with
  | GSet p => existsb (fun t => negb (spol_eqb (a_policy (model_sets g t)) p)) all_types
  | GFixed _ => false
  end.

Fixpoint sig_steps (c : cfg) (steps : list obs_step) (g : group) (acc : N * N * N * N * N * N) : N * N * N * N * N * N :=
  match steps with
  | [] => acc
  | SOp m _ _ :: rest =>
      let g' := fst (xstep_raw c g m) in
      let changed := match m with
                     | MOp (ONotify _ t _) => negb (onat_eqb (a_best (model_sets g t)) (a_best (model_sets g' t)))
                     | _ => false end in
      let '(a1, a2, a3, a4, a5, a6) := acc in
      sig_steps c rest g' ((if changed then a1 + 1 else a1)%N, a2, a3, a4, a5, a6)
  | SSel rq strict excl _ :: rest =>
      let t := key_of rq in
      let m := select c g rq strict excl in
      let '(a1, a2, a3, a4, a5, a6) := acc in
      let first_empty := match g_policy g with
                         | GSet _ => match get_rand (model_sets g t) excl with [] => true | _ => false end
                         | GFixed _ => false end in
      let fb := match m with MOk _ _ _ => first_empty | _ => false end in
      let na := match m with MErr ENoAlive _ => true | _ => false end in
      let lr := match m with MOk _ l _ => (l =? timeout) | _ => false end in
      let eb := match excl, g_policy g with
                | Some e, GSet (SMin _) => onat_eqb (a_best (model_sets g t)) (Some e)
                | _, _ => false end in
      sig_steps c rest g ((a1, if fb then a2 + 1 else a2, if na then a3 + 1 else a3,
                           if lr then a4 + 1 else a4, if eb then a5 + 1 else a5,
                           if mismatch g then a6 + 1 else a6)%N)
  | SPanic _ :: _ => acc
  | SGetMin _ _ _ _ :: rest | SGetRand _ _ _ :: rest =>
      let '(a1, a2, a3, a4, a5, a6) := acc in
      sig_steps c rest g ((a1, a2, a3, a4, a5, if mismatch g then a6 + 1 else a6)%N)
  end.

Definition case_signature (oc : obs_case) : N * N * N * N * N * N :=
  sig_steps (cfg_of oc) (oc_steps oc) (init_group (cfg_of oc) (oc_p0 oc)) (0, 0, 0, 0, 0, 0)%N.
