(* C12 — code-shaped executable model (no proofs here).
   pkg/trie/trie.go            Prefix2bin128, NewTrieFromPrefixes, HasPrefix (the succinct trie itself is
                               abstracted to the set of its keys: C11 owns the LOUDS bit-level model)
   control/bpf_utils.go        cidrToBpfLpmKey; common.Ipv6ByteSliceToUint32Array
   control/routing_matcher_builder.go   canonicalizePrefixes, hashLpmSet, prefixesEqual, addIp / addSourceIp /
                               addSourceMac (lpmDedup, simulatedLpmTries), BuildUserspace (one trie per stored set)
   control/routing_matcher_userspace.go Match, restricted to IpSet / SourceIpSet / Mac match sets
   kernel/bpf/lpm_trie.c       longest_prefix_match (byte loop) and the meaning of trie_lookup_elem *)
From Coq Require Import List NArith ZArith Bool.
From Dae Require Import C12_Spec.
Import ListNotations.
Open Scope N_scope.

(* ---------- netip.Addr.As16 / AsSlice: the 128-bit value (IPv4 kept in mapped form), big-endian ---------- *)
Fixpoint bytes_be (k : nat) (a : N) : list N :=
  match k with O => [] | S k' => N.land (N.shiftr a (8 * N.of_nat k')) 255 :: bytes_be k' a end.
Definition as16 (p : prefix) : list N := bytes_be 16 (addr128 p).
Definition as_slice (p : prefix) : list N := if p_is4 p then bytes_be 4 (p_addr p) else bytes_be 16 (p_addr p).

(* ---------- trie.Prefix2bin128 ---------- *)
(* for j := 7; j >= 0; j-- { (ip[i]>>j)&1 == 1 } *)
Definition byte_bits (b : N) : list bool :=
  map (fun j => N.land (N.shiftr b j) 1 =? 1) [7; 6; 5; 4; 3; 2; 1; 0].
(* the two nested loops with the labelled break: leave when n == 0, else write the bit and n--
   (since commit 1e92e18; before it the test came after the write, so n = 0 ran through all 128 bits) *)
Fixpoint p2b_loop (bs : list bool) (n : Z) : list bool :=
  match bs with
  | [] => []
  | b :: rest => if (n =? 0)%Z then [] else b :: p2b_loop rest (n - 1)
  end.
Definition prefix2bin128 (p : prefix) : list bool :=
  let n := (Z.of_N (p_bits p) + (if p_is4 p then 96 else 0))%Z in
  p2b_loop (flat_map byte_bits (as16 p)) n.

(* ---------- trie.NewTrieFromPrefixes / HasPrefix, abstractly ---------- *)
Fixpoint is_prefix (k w : list bool) : bool :=
  match k, w with
  | [], _ => true
  | a :: k', b :: w' => Bool.eqb a b && is_prefix k' w'
  | _ :: _, [] => false
  end.
Definition has_prefix (keys : list (list bool)) (w : list bool) : bool := existsb (fun k => is_prefix k w) keys.
Definition new_trie_from_prefixes (ps : list prefix) : list (list bool) := map prefix2bin128 ps.
(* Match / ResponseMatcher.Match: Prefix2bin128(PrefixFrom(AddrFrom16(addr), 128)) *)
Definition probe_bin (a : N) : list bool := prefix2bin128 {| p_is4 := false; p_addr := a; p_bits := 128 |}.
Definition trie_match (ps : list prefix) (a : N) : bool := has_prefix (new_trie_from_prefixes ps) (probe_bin a).

(* ---------- cidrToBpfLpmKey ---------- *)
(* internal.NativeEndian.Uint32 *)
Definition word_of_bytes (big : bool) (b0 b1 b2 b3 : N) : N :=
  if big then N.shiftl b0 24 + N.shiftl b1 16 + N.shiftl b2 8 + b3
  else b0 + N.shiftl b1 8 + N.shiftl b2 16 + N.shiftl b3 24.
Fixpoint words_of_bytes (big : bool) (bs : list N) : list N :=
  match bs with
  | b0 :: b1 :: b2 :: b3 :: rest => word_of_bytes big b0 b1 b2 b3 :: words_of_bytes big rest
  | _ => []
  end.
Record lpm_key := { lk_prefixlen : N; lk_data : list N }.
Definition cidr_to_lpm_key (big : bool) (p : prefix) : lpm_key :=
  {| lk_prefixlen := (if p_is4 p then p_bits p + 96 else p_bits p);
     lk_data := words_of_bytes big (as16 p) |}.
(* the key the datapath probes with: prefixlen 128, data = the 16 address bytes as they lie in memory *)
Definition probe_key (big : bool) (a : N) : lpm_key :=
  {| lk_prefixlen := 128; lk_data := words_of_bytes big (bytes_be 16 a) |}.

(* ---------- the kernel LPM trie over these keys ---------- *)
(* bytes of a key as they lie in memory *)
Definition bytes_of_word (big : bool) (w : N) : list N :=
  let b i := N.land (N.shiftr w (8 * i)) 255 in
  if big then [b 3; b 2; b 1; b 0] else [b 0; b 1; b 2; b 3].
Definition key_bytes (big : bool) (k : lpm_key) : list N := flat_map (bytes_of_word big) (lk_data k).
(* longest_prefix_match, byte loop: prefixlen += 8 - fls(node ^ key); >= limit -> limit; diff -> prefixlen *)
Fixpoint lpm_common (node key : list N) (limit acc : N) : N :=
  match node, key with
  | x :: node', y :: key' =>
      let diff := N.lxor x y in
      let acc' := acc + (8 - N.size diff) in
      if limit <=? acc' then limit
      else if negb (diff =? 0) then acc'
      else lpm_common node' key' limit acc'
  | _, _ => acc
  end.
(* a stored node / a lookup key inside the kernel: prefixlen and the data bytes (copied at update time) *)
Record lpm_node := { ln_prefixlen : N; ln_data : list N }.
Definition lpm_node_of_key (big : bool) (k : lpm_key) : lpm_node :=
  {| ln_prefixlen := lk_prefixlen k; ln_data := key_bytes big k |}.
Definition lpm_matchlen (node key : lpm_node) : N :=
  lpm_common (ln_data node) (ln_data key) (N.min (ln_prefixlen node) (ln_prefixlen key)) 0.
(* trie_lookup_elem: the stored key of greatest prefixlen all of whose prefixlen bits the probe shares *)
Definition lpm_lookup (nodes : list lpm_node) (key : lpm_node) : option N :=
  fold_left (fun best node =>
               if lpm_matchlen node key =? ln_prefixlen node then
                 match best with
                 | Some l => if l <? ln_prefixlen node then Some (ln_prefixlen node) else best
                 | None => Some (ln_prefixlen node)
                 end
               else best) nodes None.
Definition is_some {A} (o : option A) : bool := match o with Some _ => true | None => false end.
(* the map after BpfMapBatchUpdate of the keys of a set *)
Definition lpm_map_of (big : bool) (ps : list prefix) : list lpm_node :=
  map (fun p => lpm_node_of_key big (cidr_to_lpm_key big p)) ps.
Definition kernel_lookup (big : bool) (ps : list prefix) (a : N) : option N :=
  lpm_lookup (lpm_map_of big ps) (lpm_node_of_key big (probe_key big a)).
Definition kernel_match (big : bool) (ps : list prefix) (a : N) : bool := is_some (kernel_lookup big ps a).

(* ---------- canonicalizePrefixes ---------- *)
Definition prefix_eqb (p q : prefix) : bool :=
  Bool.eqb (p_is4 p) (p_is4 q) && (p_addr p =? p_addr q) && (p_bits p =? p_bits q).
(* netip.Addr.Less: bit length of the family first, then the value *)
Definition addr_less (p q : prefix) : bool :=
  match p_is4 p, p_is4 q with
  | true, false => true
  | false, true => false
  | _, _ => p_addr p <? p_addr q
  end.
Definition prefix_less (p q : prefix) : bool :=
  if negb (p_bits p =? p_bits q) then p_bits p <? p_bits q else addr_less p q.
(* sort.Slice with a strict total order: the result is the sorted list whatever the algorithm *)
Fixpoint insert_sorted (p : prefix) (l : list prefix) : list prefix :=
  match l with
  | [] => [p]
  | q :: l' => if prefix_less q p then q :: insert_sorted p l' else p :: l
  end.
Definition sort_prefixes (l : list prefix) : list prefix := fold_right insert_sorted [] l.
(* deduped[len-1] != prefix *)
Fixpoint dedup_adjacent (l : list prefix) : list prefix :=
  match l with
  | [] => []
  | p :: l' => match l' with
               | [] => [p]
               | q :: _ => if prefix_eqb p q then dedup_adjacent l' else p :: dedup_adjacent l'
               end
  end.
Definition canonicalize (l : list prefix) : list prefix := dedup_adjacent (sort_prefixes l).

(* ---------- hashLpmSet (FNV-1a, uint64) ---------- *)
Definition fnv_offset : N := 14695981039346656037.
Definition fnv_prime : N := 1099511628211.
Definition fnv_step (h x : N) : N := (N.lxor h x * fnv_prime) mod 2 ^ 64.
Definition hash_lpm_set (ps : list prefix) : N :=
  fold_left (fun h p => fold_left fnv_step (as_slice p) (fnv_step h (p_bits p))) ps fnv_offset.

Fixpoint prefixes_equal (a b : list prefix) : bool :=
  match a, b with
  | [], [] => true
  | x :: a', y :: b' => prefix_eqb x y && prefixes_equal a' b'
  | _, _ => false
  end.

(* ---------- RoutingMatcherBuilder: addIp / addSourceIp / addSourceMac ---------- *)
Inductive op :=
| OpIp (src not : bool) (values : list prefix)    (* addIp (src=false) / addSourceIp (src=true) *)
| OpMac (not : bool) (macs : list N).

Record rule := { r_role : role; r_not : bool; r_index : N; r_values : list prefix }.
Record builder := {
  b_tries : list (list prefix);                    (* simulatedLpmTries *)
  b_dedup : list (N * (N * list prefix));          (* lpmDedup: hash -> (index, prefixes); newest binding first *)
  b_rules : list rule                              (* compiledRules, oldest first *)
}.
Definition new_builder : builder := {| b_tries := []; b_dedup := []; b_rules := [] |}.

Definition dedup_get (d : list (N * (N * list prefix))) (h : N) : option (N * list prefix) :=
  match find (fun e => fst e =? h) d with Some e => Some (snd e) | None => None end.

Definition mac_prefix (m : N) : prefix := {| p_is4 := false; p_addr := m; p_bits := 128 |}.

Section Hash.
  Variable hash : list prefix -> N.

  Definition add_ip (b : builder) (src : bool) (not : bool) (raw : list prefix) : builder :=
    let values := canonicalize raw in
    let h := hash values in
    let fresh := N.of_nat (length (b_tries b)) in
    let '(idx, tries, dedup) :=
      match dedup_get (b_dedup b) h with
      | Some (i, ps) =>
          if prefixes_equal ps values then (i, b_tries b, b_dedup b)
          else (fresh, b_tries b ++ [values], (h, (fresh, values)) :: b_dedup b)
      | None => (fresh, b_tries b ++ [values], (h, (fresh, values)) :: b_dedup b)
      end in
    {| b_tries := tries; b_dedup := dedup;
       b_rules := b_rules b ++ [{| r_role := if src then RSrc else RDst; r_not := not; r_index := idx; r_values := raw |}] |}.

  Definition add_source_mac (b : builder) (not : bool) (macs : list N) : builder :=
    let macs' := if not then macs ++ [0] else macs in
    let values := map mac_prefix macs' in
    let idx := N.of_nat (length (b_tries b)) in
    {| b_tries := b_tries b ++ [values]; b_dedup := b_dedup b;
       b_rules := b_rules b ++ [{| r_role := RMac; r_not := not; r_index := idx; r_values := values |}] |}.

  Definition step (b : builder) (o : op) : builder :=
    match o with
    | OpIp src not values => add_ip b src not values
    | OpMac not macs => add_source_mac b not macs
    end.
  Definition run (ops : list op) : builder := fold_left step ops new_builder.
End Hash.

(* ---------- BuildUserspace + Match on these rules ---------- *)
(* BuildUserspace: one trie per stored set *)
Definition build_userspace (tries : list (list prefix)) : list (list (list bool)) :=
  map new_trie_from_prefixes tries.
(* Match: ipSetBin / sourceIpSetBin / macBin are computed once per call *)
Definition packet_bin (k : packet) (r : role) : list bool :=
  match r with RDst => probe_bin (k_dst k) | RSrc => probe_bin (k_src k) | RMac => probe_bin (k_mac k) end.
(* lpm.HasPrefix(targetBin) on lpmMatcher[lpmIndex]; a bad index is an error (None) *)
Fixpoint match_loop (lpm : list (list (list bool))) (rs : list rule) (bin : role -> list bool) (i : N)
  : option (option N) :=
  match rs with
  | [] => Some None
  | r :: rest =>
      match nth_error lpm (N.to_nat (r_index r)) with
      | None => None
      | Some t =>
          let good := has_prefix t (bin (r_role r)) in
          if Bool.eqb good (r_not r) then match_loop lpm rest bin (i + 1) else Some (Some i)
      end
  end.
Definition match_rules (tries : list (list prefix)) (rs : list rule) (k : packet) : option (option N) :=
  let lpm := build_userspace tries in
  let dst := packet_bin k RDst in
  let src := packet_bin k RSrc in
  let mac := packet_bin k RMac in
  match_loop lpm rs (fun r => match r with RDst => dst | RSrc => src | RMac => mac end) 0.

(* the same decision taken by the kernel: one LPM map per stored set (buildRoutingKernspace), three lookup
   keys per packet (tproxy.c fills lpm_key_saddr / lpm_key_daddr / lpm_key_mac once) *)
Fixpoint match_loop_kernel (maps : list (list lpm_node)) (rs : list rule) (key : role -> lpm_node) (i : N)
  : option (option N) :=
  match rs with
  | [] => Some None
  | r :: rest =>
      match nth_error maps (N.to_nat (r_index r)) with
      | None => None
      | Some m =>
          let good := is_some (lpm_lookup m (key (r_role r))) in
          if Bool.eqb good (r_not r) then match_loop_kernel maps rest key (i + 1) else Some (Some i)
      end
  end.
Definition match_rules_kernel (big : bool) (tries : list (list prefix)) (rs : list rule) (k : packet)
  : option (option N) :=
  let maps := map (lpm_map_of big) tries in
  let dst := lpm_node_of_key big (probe_key big (k_dst k)) in
  let src := lpm_node_of_key big (probe_key big (k_src k)) in
  let mac := lpm_node_of_key big (probe_key big (k_mac k)) in
  match_loop_kernel maps rs (fun r => match r with RDst => dst | RSrc => src | RMac => mac end) 0.

(* what the user wrote, as spec rules *)
Definition spec_rule_of (r : rule) : set_rule :=
  {| sr_role := r_role r; sr_not := r_not r; sr_set := r_values r |}.

(* ---------- component/dns/response_routing.go: ResponseMatcherBuilder.addIp + ResponseMatcher.Match ---------- *)
(* addIp: ipSet = append(ipSet, NewTrieFromPrefixes(cidrs)) with Value = its position (no canonicalisation,
   no sharing); Match: slices.ContainsFunc(bin128, ipSet[Value].HasPrefix) over the answer's addresses *)
Record resp_rule := { rr_not : bool; rr_values : list prefix }.
Fixpoint response_loop (tries : list (list (list bool))) (rs : list resp_rule) (bins : list (list bool)) (i : N)
  : option N :=
  match rs, tries with
  | r :: rest, t :: trest =>
      if Bool.eqb (existsb (has_prefix t) bins) (rr_not r) then response_loop trest rest bins (i + 1) else Some i
  | _, _ => None
  end.
Definition response_match (rs : list resp_rule) (ips : list N) : option N :=
  response_loop (map (fun r => new_trie_from_prefixes (rr_values r)) rs) rs (map probe_bin ips) 0.
Definition resp_spec_rules (rs : list resp_rule) : list (bool * list prefix) :=
  map (fun r => (rr_not r, rr_values r)) rs.

(* ---------- KernspaceSnapshot / BuildUserspace / snapshot.BuildKernspace, in whatever order ---------- *)
(* control_plane.go takes builder.KernspaceSnapshot() right after the builder exists; first start: BuildKernspace
   from the snapshot, then builder.BuildUserspace(); staged reload: BuildUserspace first, the snapshot is turned
   into kernel keys at listener cutover (CommitPreparedDatapath) and again on rollback (RebuildReloadDatapath).
   KernspaceSnapshot copies the slice HEADER of simulatedLpmTries: snapshot and builder share one backing array.
   BuildUserspace ends by releasing the builder's fields (field := nil); `clear_on_release` says whether it also
   writes the shared backing array (clear(b.simulatedLpmTries), or elem := nil while building).  The code as it
   stands does not: clear_on_release = false is the model of the code, true is the aliasing hazard. *)
Inductive bstep := SSnapshot | SInstall | SUserspace.
Record mem := {
  m_array : list (list prefix);                 (* the backing array of b.simulatedLpmTries *)
  m_builder : bool;                             (* b.simulatedLpmTries still points at it (false: nil) *)
  m_snap : option bool;                         (* snapshot taken; its simulatedLpmTries points at the array / is nil *)
  m_lpm : option (list (list (list bool)));     (* RoutingMatcher.lpmMatcher once BuildUserspace ran *)
  m_installs : list (list (list lpm_key))       (* per BuildKernspace call, per stored set: the keys for newLpmMap *)
}.
Definition mem_init (tries : list (list prefix)) : mem :=
  {| m_array := tries; m_builder := true; m_snap := None; m_lpm := None; m_installs := [] |}.
(* buildRoutingKernspace: keys[j] = cidrToBpfLpmKey(cidr) for every stored set *)
Definition kernel_keys_of (big : bool) (tries : list (list prefix)) : list (list lpm_key) :=
  map (map (cidr_to_lpm_key big)) tries.
Definition bstep_run (clear_on_release big : bool) (m : mem) (s : bstep) : option mem :=
  match s with
  | SSnapshot =>
      Some {| m_array := m_array m; m_builder := m_builder m; m_snap := Some (m_builder m);
              m_lpm := m_lpm m; m_installs := m_installs m |}
  | SInstall =>
      match m_snap m with
      | Some true =>
          Some {| m_array := m_array m; m_builder := m_builder m; m_snap := m_snap m; m_lpm := m_lpm m;
                  m_installs := m_installs m ++ [kernel_keys_of big (m_array m)] |}
      | _ => None                                (* no snapshot / "no routing rules to build" *)
      end
  | SUserspace =>
      if m_builder m then
        Some {| m_array := (if clear_on_release then map (fun _ => []) (m_array m) else m_array m);
                m_builder := false; m_snap := m_snap m;
                m_lpm := Some (build_userspace (m_array m)); m_installs := m_installs m |}
      else None                                  (* the builder was already released *)
  end.
Fixpoint order_run (clear_on_release big : bool) (m : mem) (order : list bstep) : option mem :=
  match order with
  | [] => Some m
  | s :: rest => match bstep_run clear_on_release big m s with
                 | Some m' => order_run clear_on_release big m' rest
                 | None => None
                 end
  end.
(* does the kernel map written from one key list match the address *)
Definition keys_match (big : bool) (keys : list lpm_key) (a : N) : bool :=
  is_some (lpm_lookup (map (lpm_node_of_key big) keys) (lpm_node_of_key big (probe_key big a))).

(* ---------- vocabulary of the theorems ---------- *)
(* the canonical prefix list of every stored set, as addIp/addSourceIp/addSourceMac left them *)
Definition canonical_tries (hash : list prefix -> N) (ops : list op) : list (list prefix) := b_tries (run hash ops).

(* what addIp/addSourceIp store for a rule is the canonical list of what it was given; addSourceMac stores the
   /128 prefixes as they come *)
Definition stored_form (r : rule) : list prefix :=
  match r_role r with RMac => r_values r | _ => canonicalize (r_values r) end.


Definition wf_op (o : op) : bool :=
  match o with OpIp _ _ vs => forallb wf_prefix vs | OpMac _ ms => forallb wf_mac ms end.
Definition wf_packet (k : packet) : bool := wf_addr (k_dst k) && wf_addr (k_src k) && wf_addr (k_mac k).
Definition wf_resp_rule (r : resp_rule) : bool := forallb wf_prefix (rr_values r).
