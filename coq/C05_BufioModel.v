(* C05 - the bufio detection reader as storage (no proofs in this file).
   bufioConn.TakeRelayPrefix returns reader.Peek(buffered) - a slice ALIASING bufio.Reader's internal buffer -
   and Discards it; tryRelayGatherWrite may then call src.Read(relay buffer) BEFORE it writes that slice.
   bufio.Reader.Read(p) with an empty buffer (r == w): if len(p) >= len(b.buf) it reads straight into p and does
   not touch b.buf; otherwise it resets r = w = 0 and reads into b.buf from offset 0.  Here the internal
   buffer is explicit and the prefix is a view (offsets) resolved when the gather write finally happens. *)
From Coq Require Import List NArith Bool.
From Dae Require Import C05_Spec C05_Model.
From Dae.gen Require Import C05_Extracted.
Import ListNotations.
Open Scope N_scope.

Record breader := mkB { b_arr : list N; b_r : N; b_w : N }.    (* b.buf contents, b.r, b.w *)
Definition view := (N * N)%type.                               (* b.buf[lo:hi] *)
Definition resolve_view (arr : list N) (v : view) : list N := take (snd v - fst v) (drop (fst v) arr).
Definition buffered (b : breader) : list N := resolve_view (b_arr b) (b_r b, b_w b).
Definition wf_reader (b : breader) : Prop := b_r b <= b_w b /\ b_w b <= len (b_arr b).

(* TakeRelayPrefix: Peek(Buffered()) then Discard(Buffered()) *)
Definition take_prefix_view (b : breader) : view * breader :=
  ((b_r b, b_w b), mkB (b_arr b) (b_w b) (b_w b)).

(* bufio.Reader.Read(p), len p = n, on a reader of size sz; incoming: what the socket has ready (non-empty).
   Returns (bytes copied to p, reader, bytes left in the socket). *)
Definition reader_read (sz n : N) (b : breader) (incoming : list N) : list N * breader * list N :=
  if b_r b =? b_w b then
    if sz <=? n then (take n incoming, b, drop n incoming)                 (* large read: directly into p *)
    else
      let got := take sz incoming in                                       (* one read into b.buf[0:] *)
      let arr' := got ++ drop (len got) (b_arr b) in
      let out := take n got in
      (out, mkB arr' (len out) (len got), drop sz incoming)
  else
    let out := take n (buffered b) in
    (out, mkB (b_arr b) (b_r b + len out) (b_w b), incoming).

(* tryRelayGatherWrite on a bufioConn source: take the prefix, optionally read once (TIOCINQ said data is
   pending), only then write prefix ++ body.  Returns (bytes written, reader, bytes left in the socket). *)
Definition gather (sz n : N) (pend : bool) (b : breader) (incoming : list N) : list N * breader * list N :=
  let '(v, b1) := take_prefix_view b in
  if pend then
    let '(body, b2, rest) := reader_read sz n b1 incoming in
    (resolve_view (b_arr b2) v ++ body, b2, rest)
  else (resolve_view (b_arr b1) v, b1, incoming).
