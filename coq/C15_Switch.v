(* C15 — run-time policy switches as they really execute (definitions only, no proofs).
   DialerGroup.SetSelectionPolicy, when both the old and the new policy keep alive sets, is NOT atomic for a
   concurrent reader: it calls set.SetSelectionPolicy(new) on the six shared AliveDialerSets one after the other
   (in the order of the aliveDialerSets array: TCP4, TCP6, DNS-UDP4, DNS-UDP6, data-UDP4, data-UDP6) and only then
   publishes the new group state with selectionState.Store.  Selections read the PUBLISHED policy (an atomic
   pointer) and the shared sets, notifications act on the sets; both can run between any two of those steps.
   Here a history is a list of MICRO events: the atomic events of C15_Spec.op, a per-set switch, and the publish.
   Every interleaving of a switch with notifications is such a list, and a selection is a query on the state after
   any prefix.  The lists are NOT restricted to well-formed switches: any per-set policy may coexist with any
   published policy and any cached best (nil or not), which is more than the code can produce.
   (The switches fixed <-> alive-set policies publish a state built aside / drop the sets after the store: they
   are atomic for a reader and stay `MOp (OPolicy _)`.) *)
From Coq Require Import List ZArith Bool Arith.
From Dae Require Import C15_Spec C15_Model.
Import ListNotations.
Open Scope Z_scope.

Inductive mop :=
| MOp (o : op)                        (* an atomic event (latency summary, health flag, notification, atomic policy switch) *)
| MSwitchSet (t : ntype) (p : spol)   (* set t executes SetSelectionPolicy(p); the published group policy is untouched *)
| MPublish (p : spol).                (* selectionState.Store: the published policy becomes p, the sets are untouched *)

(* uniqueAliveDialerSets over aliveDialerSets[0..7] ([0],[1] alias TCP4, TCP6) *)
Definition switch_order : list ntype :=
  [(DTcp, V4); (DTcp, V6); (DDnsUdp, V4); (DDnsUdp, V6); (DDataUdp, V4); (DDataUdp, V6)].

(* what one call DialerGroup.SetSelectionPolicy(np) executes, given the published policy *)
Definition expand_policy (published np : gpol) : list mop :=
  match published, np with
  | GSet p, GSet p' =>
      (if spol_eqb p p' then [] else map (fun t => MSwitchSet t p') switch_order) ++ [MPublish p']
  | _, _ => [MOp (OPolicy np)]
  end.

(* ---- the model of the Go group under micro events ---- *)
Definition xstep (c : cfg) (g : group) (m : mop) : group * cblog :=
  match m with
  | MOp o => step c g o
  | MSwitchSet t p =>
      match g_sets g with
      | Some sets =>
          let a' := set_selection_policy c (g_store g) t (sets t) p in
          ({| g_store := g_store g; g_policy := g_policy g;
              g_sets := Some (fun t' => if ntype_eqb t' t then a' else sets t') |}, [])
      | None => (g, [])
      end
  | MPublish p =>
      match g_sets g with
      | Some sets => ({| g_store := g_store g; g_policy := GSet p; g_sets := Some sets |}, [])
      | None => (g, [])
      end
  end.

Definition xrun (c : cfg) (p0 : gpol) (h : list mop) : group :=
  fold_left (fun g m => fst (xstep c g m)) h (init_group c p0).

(* ---- the spec's replay: views per type, each under the policy its set currently has ---- *)
Record xstate := { x_store : store; x_pub : gpol; x_tpol : ntype -> spol; x_views : ntype -> view }.

Definition xspec_init (c : cfg) (p : gpol) : xstate :=
  {| x_store := store0; x_pub := p;
     x_tpol := fun _ => match p with GSet sp => sp | GFixed _ => SRandom end;
     x_views := match p with GSet sp => fun t => view_build c sp store0 t | GFixed _ => fun _ => [] end |}.

Definition xspec_step (c : cfg) (x : xstate) (m : mop) : xstate :=
  match m with
  | MOp (OLat d t l) =>
      {| x_store := {| st_lat := upd2 (st_lat (x_store x)) d t l; st_alive := st_alive (x_store x) |};
         x_pub := x_pub x; x_tpol := x_tpol x; x_views := x_views x |}
  | MOp (OAlive d t b) =>
      {| x_store := {| st_lat := st_lat (x_store x); st_alive := upd2 (st_alive (x_store x)) d t b |};
         x_pub := x_pub x; x_tpol := x_tpol x; x_views := x_views x |}
  | MOp (ONotify d t b) =>
      match x_pub x with
      | GSet _ =>
          {| x_store := x_store x; x_pub := x_pub x; x_tpol := x_tpol x;
             x_views := fun t' => if ntype_eqb t' t then view_notify c (x_tpol x t) (x_store x) t d b (x_views x t)
                                  else x_views x t' |}
      | GFixed _ => x
      end
  | MOp (OPolicy np) =>
      match x_pub x, np with
      | GSet _, GSet p' =>
          {| x_store := x_store x; x_pub := np; x_tpol := fun _ => p';
             x_views := fun t => if spol_eqb (x_tpol x t) p' then x_views x t
                                 else view_repolicy c p' (x_store x) t (x_views x t) |}
      | GFixed _, GSet p' =>
          {| x_store := x_store x; x_pub := np; x_tpol := fun _ => p';
             x_views := fun t => view_build c p' (x_store x) t |}
      | _, GFixed _ => {| x_store := x_store x; x_pub := np; x_tpol := x_tpol x; x_views := fun _ => [] |}
      end
  | MSwitchSet t p =>
      match x_pub x with
      | GSet _ =>
          {| x_store := x_store x; x_pub := x_pub x;
             x_tpol := fun t' => if ntype_eqb t' t then p else x_tpol x t';
             x_views := fun t' => if ntype_eqb t' t
                                  then (if spol_eqb (x_tpol x t) p then x_views x t
                                        else view_repolicy c p (x_store x) t (x_views x t))
                                  else x_views x t' |}
      | GFixed _ => x
      end
  | MPublish p =>
      match x_pub x with
      | GSet _ => {| x_store := x_store x; x_pub := GSet p; x_tpol := x_tpol x; x_views := x_views x |}
      | GFixed _ => x
      end
  end.

Definition xspec_run (c : cfg) (p0 : gpol) (h : list mop) : xstate := fold_left (xspec_step c) h (xspec_init c p0).

(* the selection checker of C15_Spec judges against a published policy and the views *)
Definition sstate_of (x : xstate) : sstate := {| ss_store := x_store x; ss_policy := x_pub x; ss_views := x_views x |}.

(* ---- invariant (stated here, proved in C15_SwitchProofs.v): every set, under ITS OWN policy ---- *)
Definition rand_inv (a : aset) (v : view) : Prop :=
  a_best a = None /\ forall x m, In (x, m) v -> m = None.

Definition xgroup_ok (c : cfg) (g : group) (x : xstate) : Prop :=
  g_store g = x_store x /\ g_policy g = x_pub x /\
  match g_policy g with
  | GFixed _ => g_sets g = None
  | GSet _ => exists sets, g_sets g = Some sets /\
                           forall t, a_policy (sets t) = x_tpol x t /\ set_ok (sets t) (x_views x t) /\
                                     (is_min_policy (x_tpol x t) = true -> min_inv (c_tol c) (sets t) (x_views x t)) /\
                                     (x_tpol x t = SRandom -> rand_inv (sets t) (x_views x t))
  end.

(* ---- the rejected variant of GetMinLatency: "no cached best means no alive dialer" ---- *)
Definition get_min_early (a : aset) (excl : option nat) : option nat * Z :=
  match a_best a with
  | None => (None, hour)
  | Some _ => get_min a excl
  end.

(* ---- notifications for a dialer that is NOT a member of the group ----
   The Go set has no membership guard: NotifyLatencyChange reads dialerToIndex[dialer]; for a dialer that was never
   registered the map read yields the zero value 0, i.e. "alive at index 0".  The model of C15_Model.v treats every
   number as a member (all keys start at -Init).  The raw variant below is what the code does: an absent key of a
   non-member (still at its start value) reads as index 0; everything else is the member code.  It can panic
   (aliveEntries[0] on an empty slice) - reported by notify_raw_panics.  For members the two coincide
   (C15_members_only_raw); the property quantifies over notifications of the group's own nodes only, and the sets are
   registered with exactly those (DialerGroup.registerAliveDialerSets). *)
Definition touch (c : cfg) (a : aset) (d : nat) : aset :=
  if Nat.ltb d (c_n c) then a
  else match a_idx a d with
       | SInit => {| a_idx := updn (a_idx a) d (SAt 0); a_lat := a_lat a; a_entries := a_entries a;
                     a_policy := a_policy a; a_best := a_best a; a_best_lat := a_best_lat a |}
       | _ => a
       end.

Definition notify_raw (c : cfg) (st : store) (t : ntype) (a : aset) (d : nat) (alive : bool) : aset * list bool :=
  notify c st t (touch c a d) d alive.

Definition notify_raw_panics (c : cfg) (st : store) (t : ntype) (a : aset) (d : nat) (alive : bool) : bool :=
  match a_idx (touch c a d) d with
  | SAt i => Nat.leb (length (a_entries a)) i
             && (negb alive || is_some (snapshot_latency st d t (a_policy a)))
  | _ => false
  end.

Definition xstep_raw (c : cfg) (g : group) (m : mop) : group * cblog :=
  match m with
  | MOp (ONotify d t b) =>
      match g_sets g with
      | Some sets =>
          let '(a', cb) := notify_raw c (g_store g) t (sets t) d b in
          ({| g_store := g_store g; g_policy := g_policy g;
              g_sets := Some (fun t' => if ntype_eqb t' t then a' else sets t') |}, map (fun x => (t, x)) cb)
      | None => (g, [])
      end
  | _ => xstep c g m
  end.

Definition xstep_raw_panics (c : cfg) (g : group) (m : mop) : bool :=
  match m, g_sets g with
  | MOp (ONotify d t b), Some sets => notify_raw_panics c (g_store g) t (sets t) d b
  | _, _ => false
  end.

Definition xrun_raw (c : cfg) (p0 : gpol) (h : list mop) : group :=
  fold_left (fun g m => fst (xstep_raw c g m)) h (init_group c p0).

Definition member_mop (n : nat) (m : mop) : bool :=
  match m with MOp (ONotify d _ _) => Nat.ltb d n | _ => true end.
