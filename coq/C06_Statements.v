(* GENERATED from C06_Props.v by tools/c06.py: the theorem statements as Props, for the proof files. *)
From Coq Require Import List NArith Bool Arith.
From Dae.gen Require Import C06_Extracted.
From Dae Require Import C06_Spec C06_Model C06_Async C06_Session C06_Clock C06_Key C06_HttpVar C06_Decrypt.
Import ListNotations.
Open Scope N_scope.

Definition C06_tls_roundtrip_stmt : Prop :=
  forall (h : hello) (slack : bytes),
    wf_hello h = true -> extract_sni_bytes (enc_handshake h) slack = raw_name_of h.

Definition C06_tls_stream_roundtrip_stmt : Prop :=
  forall (h : hello) (m : N) (rest slack : bytes),
    wf_hello h = true -> hello_names_wf h = true -> blen (enc_handshake h) < 65536 ->
    sniff_group_tcp (enc_record m h ++ rest) slack = name_of h.

Definition benign (e : rd) : bool := match rd_status e with RsOk | RsEof => true | _ => false end.

Definition is_prefix (p l : bytes) : bool := bytes_eqb p (firstn (length p) l).

Definition C06_chunking_invariant_stmt : Prop :=
  forall (h : hello) (m : N) (script : list rd),
    wf_hello h = true -> hello_names_wf h = true -> blen (enc_handshake h) < 65536 ->
    forallb benign script = true ->
    5 <= blen (rd_data (hd {| rd_window := 0; rd_data := []; rd_status := RsOk |} script)) ->
    is_prefix (enc_record m h) (concat (map rd_data script)) = true ->
    fst (fst (sniff_tcp script)) = name_of h
    /\ sniff_whole (concat (map rd_data script)) = name_of h.

Definition C06_only_carried_name_stmt : Prop :=
  forall (data slack n : bytes),
    extract_sni_bytes data slack = Found n ->
    exists p b1 b2, 3 <= p /\ p + (b1 * 256 + b2) <= blen data
                    /\ sub data (p - 3) p = [0; b1; b2]
                    /\ n = strip_dot (sub data p (p + (b1 * 256 + b2))).

Definition C06_tls_no_oob_stmt : Prop :=
  forall (data slack : bytes),
    extract_sni_strict data <> Oob
    /\ extract_sni_bytes data slack = extract_sni_strict data
    /\ extract_sni_strict data <> OutOfFuel.

Definition C06_linear_no_oob_stmt : Prop :=
  forall o : list frag, extract_sni_linear o <> Oob.

Definition C06_http_roundtrip_stmt : Prop :=
  forall (q : http_head) (body slack : bytes),
    wf_head q = true -> sniff_group_tcp (enc_head q ++ body) slack = host_of q.

Definition C06_http_no_host_no_name_stmt : Prop :=
  forall (q : http_head) (body slack : bytes),
    wf_head q = true -> first_host_header (q_headers q) = None ->
    sniff_group_tcp (enc_head q ++ body) slack = NotFound.

Definition C06_http_scan_past_head_refuted_stmt : Prop :=
  exists (q : http_head) (body : bytes),
    wf_head q = true /\ first_host_header (q_headers q) = None
    /\ sniff_http_past (enc_head q ++ body) <> host_of q
    /\ exists n, sniff_http_past (enc_head q ++ body) = Found n.

Definition reassemble_frags (offsets new : list frag) : list frag := merge_frags (sort_frags (offsets ++ new)).

Definition C06_crypto_reassembly_stmt : Prop :=
  forall (s : bytes) (packets : list (list frag)),
    s <> [] ->
    forallb (fragmentation_of s) packets = true ->
    covers_all s (concat packets) = true ->
    fold_left reassemble_frags packets [] = [(0, s)].

Definition C06_quic_roundtrip_stmt : Prop :=
  forall (h : hello) (packets : list (list frag)),
    wf_hello h = true ->
    forallb (fragmentation_of (enc_handshake h)) packets = true ->
    covers_all (enc_handshake h) (concat packets) = true ->
    extract_sni_linear (fold_left reassemble_frags packets []) = raw_name_of h.

Definition C06_frames_roundtrip_stmt : Prop :=
  forall (fs : list qframe) (offsets : list frag),
    wf_frames fs -> reassemble offsets (enc_frames fs) = ROk (reassemble_frags offsets (cryptos fs)).

Definition C06_replay_exact_stmt : Prop :=
  forall script : list rd,
    let '(r, st, rest) := sniff_tcp script in
    exists n : nat, rest = skipn n script /\ s_buf st = concat (map rd_data (firstn n script))
                    /\ fst (relay_prefix_copy st rest) = s_buf st ++ fst (relay_conn rest).

Definition C06_udp_data_exact_stmt : Prop :=
  forall (st : ustate) (d : bytes) (oracle : list bytes),
    u_data (append_data st d) = u_data st ++ [d]
    /\ (let '(r, st', _) := sniff_udp st oracle in u_data st' = u_data st /\ u_buf st' = u_buf st).

Definition C06_usable_after_timeout_stmt : Prop :=
  forall (script : list rd) (p : N),
    let '(r, st, rest) := sniff_tcp script in
    r <> IoError -> relay_read_all p st rest = relay_prefix_copy st rest.

Definition C06_usable_after_timeout_nonvacuous_stmt : Prop :=
  let script := [ {| rd_window := 4096; rd_data := [22; 3; 1; 0; 100; 1; 0]; rd_status := RsOk |};
                  {| rd_window := 4089; rd_data := []; rd_status := RsTimeout |};
                  {| rd_window := 32768; rd_data := [1; 2]; rd_status := RsOk |};
                  {| rd_window := 32768; rd_data := []; rd_status := RsEof |} ] in
  fst (fst (sniff_tcp script)) = TimedOut
  /\ (let '(r, st, rest) := sniff_tcp script in relay_read_all 32768 st rest)
     = ([22; 3; 1; 0; 100; 1; 0; 1; 2], RsEof).

Definition C06_sniff_wait_bounded_stmt : Prop :=
  forall (origin timeout : N) (parse : bytes -> outcome) (sched : list arrival),
    let '(r, t, buf, rest, ds) := clock_sniff extracted_policy origin timeout parse sched in
    t <= origin + timeout
    /\ Forall (fun d => d = origin + timeout) ds
    /\ exists n : nat, rest = skipn n sched /\ buf = concat (map ar_data (firstn n sched)).

Definition C06_sniff_wait_rearmed_refuted_stmt : Prop :=
  exists (timeout : N) (parse : bytes -> outcome) (sched : list arrival),
    let '(r, t, buf, rest, ds) := clock_sniff RearmedPerRead 0 timeout parse sched in
    4 * timeout < t.

Definition C06_async_same_without_timeout_stmt : Prop :=
  forall script : list rd,
    let '(r, st, pend, rest) := async_sniff script in
    r <> TimedOut -> pend = None /\ sniff_tcp script = (r, st, rest).

Definition C06_async_replay_exact_full : Prop :=
  forall (script : list rd) (drain p : N) (sc : sched),
    let '(r, st, pend, rest) := async_sniff script in
    drain <> 0 -> fst (async_relay drain sc p st pend rest) = s_buf st ++ fst (relay_conn rest).

Definition C06_async_usable_after_timeout_full : Prop :=
  forall (script : list rd) (p : N) (sc : sched),
    let '(r, st, pend, rest) := async_sniff script in
    r <> IoError -> blen (s_buf st) <= p ->
    async_relay 0 sc p st pend rest = (s_buf st ++ fst (relay_conn rest), snd (relay_conn rest)).

Definition C06_async_replay_exact_refuted_stmt : Prop :=
  exists (script : list rd) (drain p : N) (sc : sched),
    let '(r, st, pend, rest) := async_sniff script in
    drain <> 0 /\ fst (async_relay drain sc p st pend rest) <> s_buf st ++ fst (relay_conn rest).

Definition C06_async_usable_after_timeout_refuted_stmt : Prop :=
  exists (script : list rd) (p : N) (sc : sched),
    let '(r, st, pend, rest) := async_sniff script in
    r = TimedOut /\ blen (s_buf st) <= p
    /\ async_relay 0 sc p st pend rest <> (s_buf st ++ fst (relay_conn rest), snd (relay_conn rest)).

Definition C06_async_replay_exact_partial_stmt : Prop :=
  forall (script : list rd) (drain p : N),
    let '(r, st, pend, rest) := async_sniff script in
    drain <> 0 ->
    (match rest with e :: _ => rd_status e = RsOk | [] => True end) ->
    fst (async_relay drain LateFirst p st pend rest) = s_buf st ++ fst (relay_conn rest).

Definition C06_udp_session_replay_exact_stmt : Prop :=
  forall h : list sevent,
    monotone h = true ->
    let '(outs, fwd, dropped, st) := run_session h in
    dropped = [] -> fwd ++ pending st = map ev_data h.

Definition C06_udp_session_never_withholds_full : Prop :=
  forall h : list sevent, monotone h = true ->
    let '(outs, fwd, dropped, st) := run_session h in dropped = [].

Definition C06_udp_session_never_withholds_refuted_stmt : Prop :=
  exists h : list sevent,
    monotone h = true /\
    let '(outs, fwd, dropped, st) := run_session h in
    dropped <> [] /\ fwd ++ pending st <> map ev_data h.

Definition C06_key_fingerprint_exact_stmt : Prop :=
  forall data : bytes,
    fingerprint data = Ok (spec_fingerprint data) /\ key_dcid data = Ok (spec_key_dcid data).

Definition C06_key_fingerprint_no_oob_stmt : Prop :=
  forall data : bytes, fingerprint data <> Err Oob /\ key_dcid data <> Err Oob.

Definition C06_key_fingerprint_nonvacuous_stmt : Prop :=
  let d := [195; 0; 0; 0; 1; 8; 1; 2; 3; 4; 5; 6; 7; 8; 2; 9; 9; 0; 0] in
  fingerprint d = Ok (Some ([0; 0; 0; 1], [1; 2; 3; 4; 5; 6; 7; 8], [9; 9]))
  /\ key_dcid d = Ok (Some [1; 2; 3; 4; 5; 6; 7; 8])
  /\ fingerprint (firstn 14 d) = Ok None /\ key_dcid (firstn 14 d) = Ok (Some [1; 2; 3; 4; 5; 6; 7; 8]).

Definition C06_decrypt_arith_no_oob_stmt : Prop :=
  forall len pnoff blockend pnlen : N,
    1 <= pnoff -> pnoff + max_pn_len <= len -> blockend <= len -> 1 <= pnlen <= max_pn_len ->
    decrypt_arith quic_sample_guard_on_block len pnoff blockend pnlen <> Err Oob.

Definition C06_decrypt_buffer_guard_refuted_stmt : Prop :=
  exists len pnoff blockend pnlen : N,
    1 <= pnoff /\ pnoff + max_pn_len <= len /\ blockend <= len /\ 1 <= pnlen <= max_pn_len
    /\ decrypt_arith false len pnoff blockend pnlen = Err Oob.

Definition C06_nonvacuous_stmt : Prop :=
  let h := {| h_minor := 3; h_random := repeat 7 32%nat; h_session := [1; 2; 3]; h_suites := [19; 1; 19; 2];
              h_compress := [0];
              h_exts := [ExtOther 2570 []; ExtOther 21 [0; 0; 0];
                         ExtServerName [(1, [120]); (0, [65; 46; 98; 46])]; ExtOther 43 [2; 3; 4]] |} in
  let s := enc_handshake h in
  wf_hello h = true /\ hello_names_wf h = true
  /\ name_of h = Found [97; 46; 98]
  /\ sniff_whole (enc_record 1 h ++ [1; 2; 3]) = Found [97; 46; 98]
  /\ fold_left reassemble_frags
       [[(50, sub s 50 (blen s))]; [(20, sub s 20 60); (0, sub s 0 20)]] [] = [(0, s)]
  /\ fst (fst (sniff_tcp [ {| rd_window := 4096; rd_data := firstn 7 (enc_record 1 h); rd_status := RsOk |};
                           {| rd_window := 4089; rd_data := skipn 7 (enc_record 1 h); rd_status := RsOk |} ]))
     = Found [97; 46; 98].
