(* C14 — lemmas. *)
From Coq Require Import List String Ascii ZArith Bool Lia Sorted.
From Dae Require Import C14_Spec C14_Model.
From Dae.gen Require Import C14_Consts.
Import ListNotations.
Open Scope string_scope.

(* ------------------------------------------------------------------------------------------ *)
(* keyword = substring                                                                        *)
(* ------------------------------------------------------------------------------------------ *)
Lemma prefixb_spec : forall p s, prefixb p s = true <-> exists post, s = p ++ post.
Proof.
  induction p as [|a p IH]; intros s; cbn.
  - split; [intros _; exists s; reflexivity | reflexivity].
  - destruct s as [|b s]; cbn.
    + split; [discriminate | intros [post H]; discriminate].
    + rewrite andb_true_iff, Ascii.eqb_eq, IH. split.
      * intros [-> [post ->]]. exists post. reflexivity.
      * intros [post H]. injection H as -> ->. split; [reflexivity | exists post; reflexivity].
Qed.

Lemma containsb_spec : forall s kw, containsb s kw = true <-> is_substring kw s.
Proof.
  unfold is_substring. induction s as [|c s IH]; intros kw.
  - cbn [containsb]. rewrite orb_false_r, prefixb_spec. split.
    + intros [post H]. exists "", post. exact H.
    + intros [pre [post H]]. destruct pre; cbn in H; [exists post; exact H | discriminate].
  - cbn [containsb]. rewrite orb_true_iff, prefixb_spec, IH. split.
    + intros [[post H] | [pre [post H]]].
      * exists "", post. exact H.
      * exists (String c pre), post. cbn. rewrite H. reflexivity.
    + intros [pre [post H]]. destruct pre as [|c' pre]; cbn in H.
      * left. exists post. exact H.
      * right. injection H as _ H. exists pre, post. exact H.
Qed.

(* ------------------------------------------------------------------------------------------ *)
(* filterHit                                                                                  *)
(* ------------------------------------------------------------------------------------------ *)
Section Proofs.
  Variable re_ok : string -> bool.
  Variable re_match : string -> string -> bool.
  Variable dur : string -> option Z.

  Notation param_matches := (param_matches re_ok re_match).
  Notation func_holds := (func_holds re_ok re_match).
  Notation line_hits := (line_hits re_ok re_match).
  Notation member := (member re_ok re_match).
  Notation first_hit := (first_hit re_ok re_match).
  Notation anno_value := (anno_value dur).
  Notation node_offset := (node_offset re_ok re_match dur).
  Notation spec_group := (spec_group re_ok re_match dur).
  Notation name_or_loop := (name_or_loop re_ok re_match).
  Notation subtag_or_loop := (subtag_or_loop re_ok re_match).
  Notation filter_hit := (filter_hit re_ok re_match).
  Notation lines_loop := (lines_loop re_ok re_match dur).
  Notation dialers_loop := (dialers_loop re_ok re_match dur).
  Notation filter_and_annotate := (filter_and_annotate re_ok re_match dur).

  Ltac key_cases p :=
    destruct (p_key p =? "regex") eqn:Kre;
    [apply String.eqb_eq in Kre |
     destruct (p_key p =? "keyword") eqn:Kkw;
     [apply String.eqb_eq in Kkw |
      destruct (p_key p =? "") eqn:Kex; [apply String.eqb_eq in Kex|]]].

  (* the Or loop computes, whenever it returns without error, the disjunction under every reading *)
  Lemma name_or_loop_ok : forall rp n params b,
      name_or_loop (n_name n) params = Ok b ->
      b = existsb (param_matches rp InName n) params.
  Proof.
    intros rp n. induction params as [|p rest IH]; intros b H; cbn in H.
    - injection H as <-. reflexivity.
    - cbn [existsb]. unfold C14_Spec.param_matches at 1, cond_of. cbn [subject].
      destruct (p_key p =? "regex") eqn:Kre.
      + apply String.eqb_eq in Kre. rewrite Kre. cbn.
        destruct (re_ok (p_val p)); [|discriminate]. cbn.
        destruct (re_match (p_val p) (n_name n)); [injection H as <-; reflexivity | auto].
      + destruct (p_key p =? "keyword") eqn:Kkw.
        * apply String.eqb_eq in Kkw. rewrite Kkw. cbn.
          destruct (containsb (n_name n) (p_val p)); [injection H as <-; reflexivity | auto].
        * destruct (p_key p =? "") eqn:Kex; [|discriminate].
          cbn. destruct (n_name n =? p_val p); [injection H as <-; reflexivity | auto].
  Qed.

  Lemma subtag_or_loop_ok : forall rp n params b,
      subtag_or_loop (n_tag n) params = Ok b ->
      b = existsb (param_matches rp InSubtag n) params.
  Proof.
    intros rp n. induction params as [|p rest IH]; intros b H; cbn in H.
    - injection H as <-. reflexivity.
    - cbn [existsb]. unfold C14_Spec.param_matches at 1, cond_of. cbn [subject].
      destruct (p_key p =? "regex") eqn:Kre.
      + apply String.eqb_eq in Kre. rewrite Kre. cbn.
        destruct (re_ok (p_val p)); [|discriminate]. cbn.
        destruct (re_match (p_val p) (n_tag n)); [injection H as <-; reflexivity | auto].
      + destruct (p_key p =? "") eqn:Kex; [|discriminate].
        cbn. destruct (n_tag n =? p_val p); [injection H as <-; reflexivity | auto].
  Qed.

  Lemma name_or_loop_valid : forall s params,
      forallb (param_valid re_ok InName) params = true -> exists b, name_or_loop s params = Ok b.
  Proof.
    intros s. induction params as [|p rest IH]; intros V; cbn.
    - eauto.
    - cbn in V. apply andb_true_iff in V as [Vp Vr]. specialize (IH Vr).
      unfold param_valid, cond_of in Vp.
      destruct (p_key p =? "regex") eqn:Kre.
      + apply String.eqb_eq in Kre. rewrite Kre in Vp. cbn in Vp.
        destruct (re_ok (p_val p)); [|discriminate].
        destruct (re_match (p_val p) s); eauto.
      + destruct (p_key p =? "keyword") eqn:Kkw.
        * destruct (containsb s (p_val p)); eauto.
        * destruct (p_key p =? "") eqn:Kex; [|discriminate].
          destruct (s =? p_val p); eauto.
  Qed.

  Lemma subtag_or_loop_valid : forall s params,
      forallb (param_valid re_ok InSubtag) params = true -> exists b, subtag_or_loop s params = Ok b.
  Proof.
    intros s. induction params as [|p rest IH]; intros V; cbn.
    - eauto.
    - cbn in V. apply andb_true_iff in V as [Vp Vr]. specialize (IH Vr).
      unfold param_valid, cond_of in Vp.
      destruct (p_key p =? "regex") eqn:Kre.
      + apply String.eqb_eq in Kre. rewrite Kre in Vp. cbn in Vp.
        destruct (re_ok (p_val p)); [|discriminate].
        destruct (re_match (p_val p) s); eauto.
      + destruct (p_key p =? "") eqn:Kex.
        * destruct (s =? p_val p); eauto.
        * destruct (p_key p =? "keyword"); discriminate.
  Qed.

  Lemma eqb_xorb : forall a b, Bool.eqb a b = negb (xorb a b).
  Proof. destruct a, b; reflexivity. Qed.

  Lemma filter_hit_ok : forall rp rf d l b,
      filter_hit d l = Ok b -> b = line_hits rp rf d l.
  Proof.
    intros rp rf d. induction l as [|f rest IH]; intros b H; cbn in H.
    - injection H as <-. reflexivity.
    - cbn [C14_Spec.line_hits forallb]. unfold C14_Spec.func_holds at 1, input_of.
      destruct (f_name f =? "name") eqn:Nn.
      + destruct (name_or_loop (n_name d) (f_params f)) as [sub|e] eqn:L; [|discriminate].
        apply (name_or_loop_ok rp) in L. rewrite <- L.
        rewrite eqb_xorb in H. destruct (xorb sub (f_not f)); cbn in *.
        * apply IH. exact H.
        * injection H as <-. reflexivity.
      + destruct (f_name f =? "subtag") eqn:Ns; [|discriminate].
        destruct (subtag_or_loop (n_tag d) (f_params f)) as [sub|e] eqn:L; [|discriminate].
        apply (subtag_or_loop_ok rp) in L. rewrite <- L.
        rewrite eqb_xorb in H. destruct (xorb sub (f_not f)); cbn in *.
        * apply IH. exact H.
        * injection H as <-. reflexivity.
  Qed.

  Lemma filter_hit_valid : forall d l,
      line_valid re_ok l = true -> exists b, filter_hit d l = Ok b.
  Proof.
    intros d. induction l as [|f rest IH]; intros V; cbn.
    - eauto.
    - cbn in V. apply andb_true_iff in V as [Vf Vr]. specialize (IH Vr).
      unfold func_valid, input_of in Vf.
      destruct (f_name f =? "name") eqn:Nn.
      + destruct (name_or_loop_valid (n_name d) _ Vf) as [sub ->].
        destruct (Bool.eqb sub (f_not f)); eauto.
      + destruct (f_name f =? "subtag") eqn:Ns; [|discriminate].
        destruct (subtag_or_loop_valid (n_tag d) _ Vf) as [sub ->].
        destruct (Bool.eqb sub (f_not f)); eauto.
  Qed.

  (* ---------------------------------------------------------------------------------------- *)
  (* NewAnnotation                                                                            *)
  (* ---------------------------------------------------------------------------------------- *)
  Lemma new_annotation_loop_ok : forall a acc z,
      new_annotation_loop dur acc a = Ok z ->
      anno_valid dur a = true /\
      z = if Z.eqb acc 0 then first_nonzero (anno_settings dur a) else acc.
  Proof.
    induction a as [|p rest IH]; intros acc z H; cbn in H.
    - injection H as <-. split; [reflexivity|]. cbn. destruct (Z.eqb acc 0) eqn:E; [|reflexivity].
      apply Z.eqb_eq in E. exact E.
    - destruct (p_key p =? "add_latency") eqn:K; [|discriminate].
      destruct (dur (p_val p)) as [lat|] eqn:D; [|discriminate].
      apply IH in H as [V ->]. split.
      + cbn. unfold anno_param_valid. rewrite K, D. exact V.
      + unfold anno_settings. cbn [flat_map]. rewrite D. cbn [app].
        fold (anno_settings dur rest). unfold first_nonzero at 2. cbn [find].
        destruct (Z.eqb acc 0) eqn:E.
        * destruct (Z.eqb lat 0) eqn:E2; cbn; reflexivity.
        * rewrite E. reflexivity.
  Qed.

  Lemma new_annotation_ok : forall ra a z,
      new_annotation dur a = Ok z -> z = anno_value ra a.
  Proof.
    intros ra a z H. apply new_annotation_loop_ok in H as [V ->].
    unfold C14_Spec.anno_value. rewrite V. reflexivity.
  Qed.

  Lemma new_annotation_loop_valid : forall a acc,
      anno_valid dur a = true -> exists z, new_annotation_loop dur acc a = Ok z.
  Proof.
    induction a as [|p rest IH]; intros acc V; cbn.
    - eauto.
    - cbn in V. apply andb_true_iff in V as [Vp Vr]. unfold anno_param_valid in Vp.
      apply andb_true_iff in Vp as [K D]. rewrite K.
      destruct (dur (p_val p)); [|discriminate]. apply IH. exact Vr.
  Qed.

  (* ---------------------------------------------------------------------------------------- *)
  (* FilterAndAnnotate                                                                        *)
  (* ---------------------------------------------------------------------------------------- *)
  Lemma lines_loop_ok : forall rp rf ra d lines annos o,
      List.length lines = List.length annos ->
      lines_loop d lines annos = Ok o ->
      o = option_map (anno_value ra) (first_hit rp rf d lines annos).
  Proof.
    intros rp rf ra d. induction lines as [|l lines IH]; intros annos o Len H.
    - cbn in H. injection H as <-. reflexivity.
    - destruct annos as [|a annos]; [discriminate|]. cbn in Len. injection Len as Len.
      cbn [C14_Model.lines_loop hd tl] in H. cbn [C14_Spec.first_hit].
      destruct (filter_hit d l) as [b|e] eqn:FH; [|discriminate].
      apply (filter_hit_ok rp rf) in FH. rewrite <- FH. destruct b.
      + destruct (new_annotation dur a) as [z|e] eqn:NA; [|discriminate].
        injection H as <-. cbn. f_equal. apply new_annotation_ok. exact NA.
      + apply IH; assumption.
  Qed.

  Lemma lines_loop_valid : forall d lines annos,
      List.length lines = List.length annos ->
      forallb (line_valid re_ok) lines = true -> forallb (anno_valid dur) annos = true ->
      exists o, lines_loop d lines annos = Ok o.
  Proof.
    intros d. induction lines as [|l lines IH]; intros annos Len VL VA.
    - cbn. eauto.
    - destruct annos as [|a annos]; [discriminate|]. cbn in Len. injection Len as Len.
      cbn in VL, VA. apply andb_true_iff in VL as [Vl VL]. apply andb_true_iff in VA as [Va VA].
      cbn. destruct (filter_hit_valid d l Vl) as [b ->]. destruct b.
      + unfold new_annotation. destruct (new_annotation_loop_valid a 0%Z Va) as [z ->]. eauto.
      + apply IH; assumption.
  Qed.

  Lemma first_hit_none : forall rp rf d lines annos,
      List.length lines = List.length annos ->
      (first_hit rp rf d lines annos = None <-> existsb (line_hits rp rf d) lines = false).
  Proof.
    intros rp rf d. induction lines as [|l lines IH]; intros annos Len.
    - cbn. tauto.
    - destruct annos as [|a annos]; [discriminate|]. cbn in Len. injection Len as Len.
      cbn. destruct (line_hits rp rf d l); cbn.
      + split; discriminate.
      + apply IH. exact Len.
  Qed.

  Lemma dialers_loop_ok : forall rp rf ra pool lines annos l,
      lines <> [] ->
      List.length lines = List.length annos ->
      dialers_loop pool lines annos = Ok l ->
      l = spec_group rp rf ra pool lines annos.
  Proof.
    intros rp rf ra pool lines annos l NE Len. revert l.
    induction pool as [|d pool IH]; intros l H; cbn in H.
    - injection H as <-. reflexivity.
    - destruct (lines_loop d lines annos) as [o|e] eqn:LL; [|discriminate].
      destruct (dialers_loop pool lines annos) as [l'|e] eqn:DL; [|discriminate].
      injection H as <-. specialize (IH l' eq_refl).
      apply (lines_loop_ok rp rf ra) in LL; [|exact Len].
      unfold C14_Spec.spec_group. cbn [filter].
      assert (M : C14_Spec.member re_ok re_match rp rf lines d = existsb (line_hits rp rf d) lines).
      { destruct lines; [congruence | reflexivity]. }
      rewrite M.
      destruct (first_hit rp rf d lines annos) as [a|] eqn:FH.
      + assert (E : existsb (line_hits rp rf d) lines = true).
        { destruct (existsb (line_hits rp rf d) lines) eqn:E; [reflexivity|].
          apply (first_hit_none rp rf d lines annos Len) in E. congruence. }
        rewrite E. cbn [map]. unfold C14_Spec.node_offset at 1. rewrite FH.
        subst o. cbn. f_equal. exact IH.
      + pose proof (proj1 (first_hit_none rp rf d lines annos Len) FH) as E.
        rewrite E. subst o. cbn. exact IH.
  Qed.

  Lemma dialers_loop_valid : forall pool lines annos,
      List.length lines = List.length annos ->
      forallb (line_valid re_ok) lines = true -> forallb (anno_valid dur) annos = true ->
      exists l, dialers_loop pool lines annos = Ok l.
  Proof.
    intros pool lines annos Len VL VA. induction pool as [|d pool IH]; cbn.
    - eauto.
    - destruct (lines_loop_valid d lines annos Len VL VA) as [o ->].
      destruct IH as [l ->]. eauto.
  Qed.

  Lemma filter_true_id : forall (A : Type) (l : list A), filter (fun _ => true) l = l.
  Proof. induction l; cbn; congruence. Qed.

  (* An answer without error is the group under every reading of invalid fragments. *)
  Lemma filter_and_annotate_ok : forall pool lines annos l,
      filter_and_annotate pool lines annos = Ok l ->
      forall rp rf ra, l = spec_group rp rf ra pool lines annos.
  Proof.
    intros pool lines annos l H rp rf ra. unfold C14_Model.filter_and_annotate in H.
    destruct (Nat.eqb (List.length lines) (List.length annos)) eqn:Len; [|discriminate].
    apply Nat.eqb_eq in Len. cbn in H.
    destruct lines as [|l0 lines].
    - injection H as <-. unfold C14_Spec.spec_group. cbn [C14_Spec.member].
      rewrite filter_true_id. apply map_ext. intros n. reflexivity.
    - apply dialers_loop_ok; [discriminate | exact Len | exact H].
  Qed.

  Lemma filter_and_annotate_valid : forall pool lines annos,
      def_valid re_ok dur lines annos = true ->
      exists l, filter_and_annotate pool lines annos = Ok l.
  Proof.
    intros pool lines annos V. unfold def_valid in V.
    apply andb_true_iff in V as [V VA]. apply andb_true_iff in V as [Len VL].
    unfold C14_Model.filter_and_annotate. rewrite Len. cbn.
    apply Nat.eqb_eq in Len.
    destruct lines as [|l0 lines]; [eauto|].
    apply dialers_loop_valid; assumption.
  Qed.

  Lemma members_exact_proof : forall pool lines annos,
      def_valid re_ok dur lines annos = true ->
      forall rp rf ra,
        filter_and_annotate pool lines annos = Ok (spec_group rp rf ra pool lines annos).
  Proof.
    intros pool lines annos V rp rf ra.
    destruct (filter_and_annotate_valid pool lines annos V) as [l H].
    rewrite H. f_equal. apply filter_and_annotate_ok. exact H.
  Qed.

  Lemma error_only_if_invalid_proof : forall pool lines annos e,
      filter_and_annotate pool lines annos = Err e -> def_valid re_ok dur lines annos = false.
  Proof.
    intros pool lines annos e H.
    destruct (def_valid re_ok dur lines annos) eqn:V; [|reflexivity].
    destruct (filter_and_annotate_valid pool lines annos V) as [l H']. congruence.
  Qed.

  Definition to_outcome (r : result (list (node * Z))) : outcome :=
    match r with Ok l => Members l | Err _ => ConfigError end.

  Lemma never_silent_proof : forall pool lines annos,
      spec_allows re_ok re_match dur pool lines annos (to_outcome (filter_and_annotate pool lines annos)).
  Proof.
    intros pool lines annos.
    destruct (filter_and_annotate pool lines annos) as [l|e] eqn:H; cbn.
    - intros rp rf ra. apply filter_and_annotate_ok. exact H.
    - eapply error_only_if_invalid_proof. exact H.
  Qed.

  Lemma no_filters_all_proof : forall pool,
      filter_and_annotate pool [] [] = Ok (map (fun n => (n, 0%Z)) pool)
      /\ spec_group rd_lo_p rd_lo_f rd_lo_a pool [] [] = map (fun n => (n, 0%Z)) pool.
  Proof.
    intros pool. split; [reflexivity|].
    unfold C14_Spec.spec_group. cbn [C14_Spec.member]. rewrite filter_true_id. reflexivity.
  Qed.
End Proofs.

(* ------------------------------------------------------------------------------------------ *)
(* the executable spec is the declarative one                                                 *)
(* ------------------------------------------------------------------------------------------ *)
Lemma sorted_map_S : forall l, StronglySorted lt l -> StronglySorted lt (map S l).
Proof.
  induction 1 as [|a l SS IH FA]; cbn; constructor; [exact IH|].
  rewrite Forall_forall in *. intros x Hx. apply in_map_iff in Hx as [y [<- Hy]].
  apply FA in Hy. lia.
Qed.

Lemma filter_positions : forall (A : Type) (f : A -> bool) (d : A) (l : list A),
    exists idxs, StronglySorted lt idxs
                 /\ filter f l = map (fun i => nth i l d) idxs
                 /\ forall i, In i idxs <-> (i < List.length l /\ f (nth i l d) = true).
Proof.
  intros A f d. induction l as [|a l [idxs [SS [EQ IN]]]].
  - exists []. split; [constructor|]. split; [reflexivity|]. intros i. cbn. split; [tauto | lia].
  - assert (SS' : StronglySorted lt (map S idxs)) by (apply sorted_map_S; exact SS).
    assert (MM : map (fun i => nth i (a :: l) d) (map S idxs) = map (fun i => nth i l d) idxs)
      by (rewrite map_map; reflexivity).
    assert (INS : forall i, In i (map S idxs) <-> (exists i', i = S i' /\ i' < List.length l /\ f (nth i' l d) = true)).
    { intros i. rewrite in_map_iff. split.
      - intros [y [<- Hy]]. exists y. split; [reflexivity|]. apply IN. exact Hy.
      - intros [i' [-> H]]. exists i'. split; [reflexivity|]. apply IN. exact H. }
    cbn [filter]. destruct (f a) eqn:FA.
    + exists (0 :: map S idxs). split; [|split].
      * constructor; [exact SS'|]. rewrite Forall_forall. intros x Hx.
        apply in_map_iff in Hx as [y [<- _]]. lia.
      * replace (a :: filter f l) with (nth 0 (a :: l) d :: map (fun i => nth i (a :: l) d) (map S idxs));
          [reflexivity|]. rewrite MM, EQ. reflexivity.
      * intros i. cbn [In]. rewrite INS. cbn [List.length]. split.
        -- intros [<-|[i' [-> [L F]]]]; cbn; [split; [lia | exact FA] | split; [lia | exact F]].
        -- intros [L F]. destruct i as [|i']; [left; reflexivity|]. right. exists i'. cbn in F.
           split; [reflexivity|]. split; [lia | exact F].
    + exists (map S idxs). split; [exact SS'|]. split; [rewrite MM; exact EQ|].
      intros i. rewrite INS. cbn [List.length]. split.
      * intros [i' [-> [L F]]]. cbn. split; [lia | exact F].
      * intros [L F]. destruct i as [|i']; [cbn in F; congruence|]. exists i'. cbn in F.
        split; [reflexivity|]. split; [lia | exact F].
Qed.

Section Declarative.
  Variable re_ok : string -> bool.
  Variable re_match : string -> string -> bool.
  Variable dur : string -> option Z.
  Variable rp : input -> node -> param -> bool.
  Variable rf : node -> func -> bool.
  Variable ra : annotation -> Z.

  Lemma func_holds_iff : forall n f,
      func_holds re_ok re_match rp rf n f = true <-> func_holds_P re_ok re_match rp rf n f.
  Proof.
    intros n f. unfold func_holds, func_holds_P.
    destruct (input_of (f_name f)) as [i|]; [|tauto].
    rewrite <- existsb_exists.
    destruct (existsb (param_matches re_ok re_match rp i n) (f_params f)), (f_not f); cbn;
      intuition congruence.
  Qed.

  Lemma line_hits_iff : forall n l,
      line_hits re_ok re_match rp rf n l = true <-> satisfies re_ok re_match rp rf n l.
  Proof.
    intros n l. unfold line_hits, satisfies. rewrite forallb_forall.
    split; intros H f I; apply func_holds_iff; apply H; exact I.
  Qed.

  Lemma first_hit_spec : forall n lines annos a,
      first_hit re_ok re_match rp rf n lines annos = Some a ->
      exists j l, nth_error lines j = Some l /\ nth_error annos j = Some a
                  /\ line_hits re_ok re_match rp rf n l = true
                  /\ forall j' l', j' < j -> nth_error lines j' = Some l' ->
                                    line_hits re_ok re_match rp rf n l' = false.
  Proof.
    intros n. induction lines as [|l lines IH]; intros annos a H; [discriminate|].
    destruct annos as [|a0 annos]; [discriminate|]. cbn in H.
    destruct (line_hits re_ok re_match rp rf n l) eqn:LH.
    - injection H as <-. exists 0, l. cbn. repeat split; auto. intros j' l' Hj. lia.
    - destruct (IH annos a H) as [j [l1 [N1 [N2 [LH1 FST]]]]].
      exists (S j), l1. cbn. repeat split; auto.
      intros j' l' Hj N. destruct j' as [|j']; cbn in N.
      + injection N as <-. exact LH.
      + eapply FST; [|exact N]. lia.
  Qed.

  Lemma spec_group_is_group : forall pool lines annos,
      lines <> [] -> List.length lines = List.length annos ->
      is_group re_ok re_match dur rp rf ra pool lines annos
               (spec_group re_ok re_match dur rp rf ra pool lines annos).
  Proof.
    intros pool lines annos NE Len. unfold is_group, spec_group.
    assert (M : forall n, member re_ok re_match rp rf lines n = true <->
                          exists l, In l lines /\ satisfies re_ok re_match rp rf n l).
    { intros n. unfold member. destruct lines as [|l0 ls]; [congruence|].
      rewrite existsb_exists. split; intros [l [I H]]; exists l; (split; [exact I|]); apply line_hits_iff; exact H. }
    split.
    - destruct (filter_positions node (member re_ok re_match rp rf lines) (mkNode 0 "" "") pool)
        as [idxs [SS [EQ IN]]].
      exists idxs. split; [exact SS|]. split.
      + rewrite map_map. cbn [fst]. rewrite map_id. exact EQ.
      + intros i. rewrite IN. rewrite M. tauto.
    - intros n z I. apply in_map_iff in I as [n' [E I]]. injection E as -> <-.
      apply filter_In in I as [_ MB].
      unfold node_offset.
      destruct (first_hit re_ok re_match rp rf n lines annos) as [a|] eqn:FH.
      + destruct (first_hit_spec n lines annos a FH) as [j [l [N1 [N2 [LH FST]]]]].
        exists j, l, a. repeat split; auto.
        * apply line_hits_iff. exact LH.
        * intros j' l' Hj N S. apply line_hits_iff in S. rewrite (FST j' l' Hj N) in S. discriminate.
      + apply (first_hit_none re_ok re_match rp rf n lines annos Len) in FH.
        unfold member in MB. destruct lines; [congruence|]. congruence.
  Qed.

  Lemma group_characterisation_proof : forall pool lines annos,
      def_valid re_ok dur lines annos = true -> lines <> [] ->
      exists g, filter_and_annotate re_ok re_match dur pool lines annos = Ok g
                /\ is_group re_ok re_match dur rp rf ra pool lines annos g.
  Proof.
    intros pool lines annos V NE. eexists. split.
    - apply members_exact_proof. exact V.
    - apply spec_group_is_group; [exact NE|].
      unfold def_valid in V. apply andb_true_iff in V as [V _]. apply andb_true_iff in V as [Len _].
      apply Nat.eqb_eq. exact Len.
  Qed.
End Declarative.

(* ------------------------------------------------------------------------------------------ *)
(* an error names a fragment that really is in the definition                                  *)
(* ------------------------------------------------------------------------------------------ *)
Definition key_known (i : input) (k : string) : Prop :=
  k = "" \/ k = "regex" \/ (i = InName /\ k = "keyword").

Definition error_genuine (re_ok : string -> bool) (dur : string -> option Z)
           (lines : list line) (annos : list annotation) (e : err) : Prop :=
  match e with
  | EBadRegex => exists l f p, In l lines /\ In f l /\ In p (f_params f) /\ input_of (f_name f) <> None
                               /\ p_key p = "regex" /\ re_ok (p_val p) = false
  | EUnknownKey => exists l f p i, In l lines /\ In f l /\ In p (f_params f) /\ input_of (f_name f) = Some i
                                   /\ ~ key_known i (p_key p)
  | EUnknownInput => exists l f, In l lines /\ In f l /\ input_of (f_name f) = None
  | EAnnoFormat => exists a p, In a annos /\ In p a /\ p_key p = "add_latency" /\ dur (p_val p) = None
  | EAnnoKey => exists a p, In a annos /\ In p a /\ p_key p <> "add_latency"
  | ELenMismatch => List.length lines <> List.length annos
  | _ => False
  end.

Definition frag_genuine (re_ok : string -> bool) (dur : string -> option Z)
           (lines : list line) (annos : list annotation) (e : err) : Prop :=
  match e with ELenMismatch => False | _ => error_genuine re_ok dur lines annos e end.

Section Genuine.
  Variable re_ok : string -> bool.
  Variable re_match : string -> string -> bool.
  Variable dur : string -> option Z.

  Lemma name_or_loop_err : forall s params e,
      name_or_loop re_ok re_match s params = Err e ->
      exists p, In p params /\
                ((e = EBadRegex /\ p_key p = "regex" /\ re_ok (p_val p) = false)
                 \/ (e = EUnknownKey /\ ~ key_known InName (p_key p))).
  Proof.
    intros s. induction params as [|p rest IH]; intros e H; cbn in H; [discriminate|].
    assert (R : forall e, name_or_loop re_ok re_match s rest = Err e ->
                          exists p0, In p0 (p :: rest) /\
                ((e = EBadRegex /\ p_key p0 = "regex" /\ re_ok (p_val p0) = false)
                 \/ (e = EUnknownKey /\ ~ key_known InName (p_key p0)))).
    { intros e0 H0. destruct (IH e0 H0) as [p0 [I P]]. exists p0. split; [right; exact I | exact P]. }
    destruct (p_key p =? "regex") eqn:Kre.
    - apply String.eqb_eq in Kre. destruct (re_ok (p_val p)) eqn:RO.
      + destruct (re_match (p_val p) s); [discriminate | apply R; exact H].
      + injection H as <-. exists p. split; [left; reflexivity | left; auto].
    - destruct (p_key p =? "keyword") eqn:Kkw.
      + destruct (containsb s (p_val p)); [discriminate | apply R; exact H].
      + destruct (p_key p =? "") eqn:Kex.
        * destruct (s =? p_val p); [discriminate | apply R; exact H].
        * injection H as <-. exists p. split; [left; reflexivity | right]. split; [reflexivity|].
          apply String.eqb_neq in Kre, Kkw, Kex. unfold key_known. intuition congruence.
  Qed.

  Lemma subtag_or_loop_err : forall s params e,
      subtag_or_loop re_ok re_match s params = Err e ->
      exists p, In p params /\
                ((e = EBadRegex /\ p_key p = "regex" /\ re_ok (p_val p) = false)
                 \/ (e = EUnknownKey /\ ~ key_known InSubtag (p_key p))).
  Proof.
    intros s. induction params as [|p rest IH]; intros e H; cbn in H; [discriminate|].
    assert (R : forall e, subtag_or_loop re_ok re_match s rest = Err e ->
                          exists p0, In p0 (p :: rest) /\
                ((e = EBadRegex /\ p_key p0 = "regex" /\ re_ok (p_val p0) = false)
                 \/ (e = EUnknownKey /\ ~ key_known InSubtag (p_key p0)))).
    { intros e0 H0. destruct (IH e0 H0) as [p0 [I P]]. exists p0. split; [right; exact I | exact P]. }
    destruct (p_key p =? "regex") eqn:Kre.
    - apply String.eqb_eq in Kre. destruct (re_ok (p_val p)) eqn:RO.
      + destruct (re_match (p_val p) s); [discriminate | apply R; exact H].
      + injection H as <-. exists p. split; [left; reflexivity | left; auto].
    - destruct (p_key p =? "") eqn:Kex.
      + destruct (s =? p_val p); [discriminate | apply R; exact H].
      + injection H as <-. exists p. split; [left; reflexivity | right]. split; [reflexivity|].
        apply String.eqb_neq in Kre, Kex. unfold key_known. intuition (try congruence; try discriminate).
  Qed.

  Lemma filter_hit_err : forall d l e,
      filter_hit re_ok re_match d l = Err e ->
      frag_genuine re_ok dur [l] [] e \/ False.
  Proof.
    intros d. induction l as [|f rest IH]; intros e H; cbn in H; [discriminate|].
    assert (R : forall e, filter_hit re_ok re_match d rest = Err e -> frag_genuine re_ok dur [f :: rest] [] e).
    { intros e0 H0. destruct (IH e0 H0) as [G|[]].
      destruct e0; cbn in G |- *; try contradiction.
      - destruct G as [l [f0 [p [[<-|[]] [I2 R]]]]]. exists (f :: rest), f0, p. cbn. tauto.
      - destruct G as [l [f0 [p [i [[<-|[]] [I2 R]]]]]]. exists (f :: rest), f0, p, i. cbn. tauto.
      - destruct G as [l [f0 [[<-|[]] [I2 R]]]]. exists (f :: rest), f0. cbn. tauto.
      - destruct G as [a [p [[] _]]].
      - destruct G as [a [p [[] _]]]. }
    left.
    destruct (f_name f =? "name") eqn:Nn.
    - assert (IO : input_of (f_name f) = Some InName) by (unfold input_of; rewrite Nn; reflexivity).
      destruct (name_or_loop re_ok re_match (n_name d) (f_params f)) as [sub|e'] eqn:L.
      + destruct (Bool.eqb sub (f_not f)); [discriminate | apply R; exact H].
      + injection H as <-. apply name_or_loop_err in L as [p [I [[-> [K RO]]|[-> K]]]]; cbn.
        * exists (f :: rest), f, p. cbn. rewrite IO. repeat split; auto. discriminate.
        * exists (f :: rest), f, p, InName. cbn. auto.
    - destruct (f_name f =? "subtag") eqn:Ns.
      + assert (IO : input_of (f_name f) = Some InSubtag) by (unfold input_of; rewrite Nn, Ns; reflexivity).
        destruct (subtag_or_loop re_ok re_match (n_tag d) (f_params f)) as [sub|e'] eqn:L.
        * destruct (Bool.eqb sub (f_not f)); [discriminate | apply R; exact H].
        * injection H as <-. apply subtag_or_loop_err in L as [p [I [[-> [K RO]]|[-> K]]]]; cbn.
          -- exists (f :: rest), f, p. cbn. rewrite IO. repeat split; auto. discriminate.
          -- exists (f :: rest), f, p, InSubtag. cbn. auto.
      + injection H as <-. cbn. exists (f :: rest), f. cbn. unfold input_of. rewrite Nn, Ns. auto.
  Qed.

  Lemma new_annotation_loop_err : forall a acc e,
      new_annotation_loop dur acc a = Err e -> frag_genuine re_ok dur [] [a] e.
  Proof.
    induction a as [|p rest IH]; intros acc e H; cbn in H; [discriminate|].
    destruct (p_key p =? "add_latency") eqn:K.
    - apply String.eqb_eq in K. destruct (dur (p_val p)) eqn:D.
      + apply IH in H. destruct e; cbn in H |- *; try contradiction.
        * destruct H as [l [f [p0 [[] _]]]].
        * destruct H as [l [f [p0 [i [[] _]]]]].
        * destruct H as [l [f [[] _]]].
        * destruct H as [a [p0 [[<-|[]] [I R]]]]. exists (p :: rest), p0. cbn. tauto.
        * destruct H as [a [p0 [[<-|[]] [I R]]]]. exists (p :: rest), p0. cbn. tauto.
      + injection H as <-. cbn. exists (p :: rest), p. cbn. auto.
    - injection H as <-. cbn. apply String.eqb_neq in K. exists (p :: rest), p. cbn. auto.
  Qed.

  Lemma genuine_mono : forall lines annos lines' annos' e,
      (forall l, In l lines -> In l lines') -> (forall a, In a annos -> In a annos') ->
      frag_genuine re_ok dur lines annos e -> frag_genuine re_ok dur lines' annos' e.
  Proof.
    intros lines annos lines' annos' e HL HA G. destruct e; cbn in G |- *; try contradiction.
    - destruct G as [l [f [p [I R]]]]. exists l, f, p. split; auto.
    - destruct G as [l [f [p [i [I R]]]]]. exists l, f, p, i. split; auto.
    - destruct G as [l [f [I R]]]. exists l, f. split; auto.
    - destruct G as [a [p [I R]]]. exists a, p. split; auto.
    - destruct G as [a [p [I R]]]. exists a, p. split; auto.
  Qed.

  Lemma lines_loop_err : forall d lines annos e,
      List.length lines = List.length annos ->
      lines_loop re_ok re_match dur d lines annos = Err e ->
      frag_genuine re_ok dur lines annos e.
  Proof.
    intros d. induction lines as [|l lines IH]; intros annos e Len H; [discriminate|].
    destruct annos as [|a annos]; [discriminate|]. cbn in Len. injection Len as Len.
    cbn [C14_Model.lines_loop hd tl] in H.
    destruct (filter_hit re_ok re_match d l) as [b|e'] eqn:FH.
    - destruct b.
      + unfold new_annotation in H.
        destruct (new_annotation_loop dur 0 a) as [z|e'] eqn:NA; [discriminate|].
        injection H as <-. apply new_annotation_loop_err in NA.
        eapply genuine_mono; [| | exact NA].
        * intros ? [].
        * intros a0 [<-|[]]. left. reflexivity.
      + specialize (IH annos e Len H).
        eapply genuine_mono; [| | exact IH]; intros; right; assumption.
    - injection H as <-. apply filter_hit_err in FH as [G|[]].
      eapply genuine_mono; [| | exact G].
      + intros l0 [<-|[]]. left. reflexivity.
      + intros ? [].
  Qed.

  Lemma dialers_loop_err : forall pool lines annos e,
      List.length lines = List.length annos ->
      dialers_loop re_ok re_match dur pool lines annos = Err e ->
      frag_genuine re_ok dur lines annos e.
  Proof.
    intros pool lines annos e Len. induction pool as [|d pool IH]; intros H; cbn in H; [discriminate|].
    destruct (lines_loop re_ok re_match dur d lines annos) as [o|e'] eqn:LL.
    - destruct (dialers_loop re_ok re_match dur pool lines annos) as [l'|e'] eqn:DL; [discriminate|].
      injection H as <-. apply IH. reflexivity.
    - injection H as <-. apply lines_loop_err in LL; [exact LL | exact Len].
  Qed.

  Lemma error_genuine_proof : forall pool lines annos e,
      filter_and_annotate re_ok re_match dur pool lines annos = Err e ->
      error_genuine re_ok dur lines annos e.
  Proof.
    intros pool lines annos e H. unfold C14_Model.filter_and_annotate in H.
    destruct (Nat.eqb (List.length lines) (List.length annos)) eqn:Len; cbn in H.
    - apply Nat.eqb_eq in Len. destruct lines as [|l0 lines]; [discriminate|].
      pose proof (dialers_loop_err _ _ _ _ Len H) as G. destruct e; cbn in G |- *; tauto.
    - injection H as <-. cbn. apply Nat.eqb_neq. exact Len.
  Qed.
End Genuine.

(* the annotation of a line: first NON-ZERO setting; "first setting" is false *)
Lemma anno_value_proof : forall dur a z,
    new_annotation dur a = Ok z <-> (anno_valid dur a = true /\ z = first_nonzero (anno_settings dur a)).
Proof.
  intros dur a z. split.
  - intros H. apply new_annotation_loop_ok in H. exact H.
  - intros [V ->]. destruct (new_annotation_loop_valid dur a 0%Z V) as [z H].
    unfold new_annotation. rewrite H. f_equal. apply new_annotation_loop_ok in H as [_ ->]. reflexivity.
Qed.

Lemma anno_first_setting_refuted_proof :
  ~ (forall dur a z, new_annotation dur a = Ok z -> z = hd 0%Z (anno_settings dur a)).
Proof.
  intros H.
  specialize (H (fun s => if s =? "0s" then Some 0%Z else if s =? "5ms" then Some 5000000%Z else None)
                [mkParam "add_latency" "0s"; mkParam "add_latency" "5ms"] 5000000%Z eq_refl).
  vm_compute in H. discriminate.
Qed.

(* the strict reading is false: lazy validation *)
Lemma invalid_always_reported_refuted_proof :
  ~ (forall re_ok re_match dur pool lines annos,
        def_valid re_ok dur lines annos = false ->
        exists e, filter_and_annotate re_ok re_match dur pool lines annos = Err e).
Proof.
  intros H.
  specialize (H (fun _ => true) (fun _ _ => false) (fun _ => None)
                [mkNode 0 "a" ""]
                [[mkFunc "name" false [mkParam "keyword" "a"; mkParam "bogus" "x"]]; [mkFunc "nosuchinput" false []]]
                [[]; [mkParam "bogus" "1"]] eq_refl).
  destruct H as [e H]. vm_compute in H. discriminate.
Qed.

(* non-vacuity *)
Definition nv_re_ok : string -> bool := fun _ => true.
Definition nv_re_match : string -> string -> bool := fun pat s => containsb s pat.
Definition nv_dur : string -> option Z := fun s => if s =? "5ms" then Some 5000000%Z else None.
Definition nv_pool : list node :=
  [mkNode 0 "hk1" "sub"; mkNode 1 "hk1" "sub"; mkNode 2 "" "x"; mkNode 3 "sg" "sub"; mkNode 4 "" "sub2"].
Definition nv_lines : list line :=
  [ [mkFunc "name" false [mkParam "regex" "zz"; mkParam "keyword" "hk"]];
    [mkFunc "name" true [mkParam "keyword" "hk"]; mkFunc "subtag" false [mkParam "" "sub"; mkParam "regex" "b2"]] ].
Definition nv_annos : list annotation := [ [mkParam "add_latency" "5ms"]; [] ].

Definition nonvacuous_statement : Prop :=
  def_valid nv_re_ok nv_dur nv_lines nv_annos = true
  /\ filter_and_annotate nv_re_ok nv_re_match nv_dur nv_pool nv_lines nv_annos
     = Ok [(mkNode 0 "hk1" "sub", 5000000%Z); (mkNode 1 "hk1" "sub", 5000000%Z);
           (mkNode 3 "sg" "sub", 0%Z); (mkNode 4 "" "sub2", 0%Z)]
  /\ new_policy (PRFunc (mkFunc "fixed" false [mkParam "" "-3"])) = Ok (PFixed, (-3)%Z)
  /\ new_policy (PRFunc (mkFunc "fixed" false [mkParam "" "9223372036854775808"])) = Err EPolAtoi.

Lemma nonvacuous_proof : nonvacuous_statement.
Proof. vm_compute. repeat split; reflexivity. Qed.

(* ------------------------------------------------------------------------------------------ *)
(* policy                                                                                     *)
(* ------------------------------------------------------------------------------------------ *)
Definition result_to_option {A} (r : result A) : option A :=
  match r with Ok a => Some a | Err _ => None end.

Lemma policy_fs_proof : forall fs, result_to_option (new_policy_fs fs) = spec_policy fs.
Proof.
  intros [|f [|f2 fs]]; try reflexivity.
  unfold new_policy_fs, spec_policy, policy_of_name.
  destruct (f_name f =? "random") eqn:E1; [reflexivity|].
  destruct (f_name f =? "fixed") eqn:E2.
  - apply String.eqb_eq in E2. rewrite E2. cbn.
    destruct (f_not f); [reflexivity|].
    destruct (f_params f) as [|p [|p2 ps]]; try reflexivity.
    destruct (p_key p =? ""); cbn; [|reflexivity].
    destruct (parse_int (p_val p)); reflexivity.
  - destruct (f_name f =? "min_avg10") eqn:E3; [reflexivity|].
    destruct (f_name f =? "min_moving_avg") eqn:E4.
    + destruct (f_name f =? "min") eqn:E5; [|reflexivity].
      apply String.eqb_eq in E4. apply String.eqb_eq in E5. rewrite E4 in E5. discriminate.
    + destruct (f_name f =? "min"); reflexivity.
Qed.

Lemma policy_validation_proof : forall r, result_to_option (new_policy r) = spec_policy_raw r.
Proof.
  intros r. unfold new_policy, spec_policy_raw.
  destruct r; cbn [parse_function_list_or_string policy_functions]; try apply policy_fs_proof.
  reflexivity.
Qed.

(* the string constants of the Go sources (coq/gen/C14_Consts.v, regenerated on every run) are the ones
   the spec is written with *)
Definition consts_tied_statement : Prop :=
  input_of go_FilterInput_Name = Some InName
  /\ input_of go_FilterInput_SubscriptionTag = Some InSubtag
  /\ go_FilterKey_Name_Regex = "regex" /\ go_FilterInput_SubscriptionTag_Regex = "regex"
  /\ go_FilterKey_Name_Keyword = "keyword"
  /\ go_AnnotationKey_AddLatency = "add_latency"
  /\ policy_of_name go_DialerSelectionPolicy_Random = Some PRandom
  /\ policy_of_name go_DialerSelectionPolicy_Fixed = Some PFixed
  /\ policy_of_name go_DialerSelectionPolicy_MinAverage10Latencies = Some PMinAvg10
  /\ policy_of_name go_DialerSelectionPolicy_MinMovingAverageLatencies = Some PMinMovingAvg
  /\ policy_of_name go_DialerSelectionPolicy_MinLastLatency = Some PMinLast
  /\ go_group_elem_allocated_in_loop = true.

Lemma consts_tied_proof : consts_tied_statement.
Proof. unfold consts_tied_statement. repeat split; reflexivity. Qed.

Lemma nth_Z_nth_error : forall (A : Type) (g : list A) (i : Z),
    (0 <= i)%Z -> nth_Z g i = nth_error g (Z.to_nat i).
Proof.
  intros A. induction g as [|a r IH]; intros i Hi; cbn [nth_Z].
  - destruct (Z.to_nat i); reflexivity.
  - destruct (Z.eqb i 0) eqn:E.
    + apply Z.eqb_eq in E. subst i. reflexivity.
    + apply Z.eqb_neq in E. rewrite IH by lia.
      replace (Z.to_nat i) with (S (Z.to_nat (i - 1))) by lia. reflexivity.
Qed.

Lemma fixed_ith_proof : forall (A : Type) (g : list A) (i : Z),
    result_to_option (select_fixed g i) = fixed_choice g i.
Proof.
  intros A g i. unfold select_fixed, fixed_choice.
  destruct (Z.leb 0 i) eqn:L2.
  - apply Z.leb_le in L2. rewrite nth_Z_nth_error by exact L2.
    destruct (Nat.eqb (List.length g) 0) eqn:E0.
    + apply Nat.eqb_eq in E0. destruct g; [|discriminate]. cbn. destruct (Z.to_nat i); reflexivity.
    + destruct (Z.ltb i 0) eqn:L; [apply Z.ltb_lt in L; lia|]. cbn.
      destruct (Z.geb i (Z.of_nat (List.length g))) eqn:G; cbn.
      * rewrite Z.geb_le in G. symmetry. apply nth_error_None. lia.
      * destruct (nth_error g (Z.to_nat i)); reflexivity.
  - apply Z.leb_gt in L2.
    destruct (Nat.eqb (List.length g) 0); [reflexivity|].
    destruct (Z.ltb i 0) eqn:L; [reflexivity | apply Z.ltb_ge in L; lia].
Qed.

(* ------------------------------------------------------------------------------------------ *)
(* the pool built from tagged links has one node per usable occurrence                         *)
(* ------------------------------------------------------------------------------------------ *)
Local Open Scope list_scope.
Section PoolProofs.
  Variable link_name : string -> option string.

  Definition proj_tn (n : node) : string * string := (n_tag n, n_name n).

  Definition pairs_of (tag : string) (links : list string) : list (string * string) :=
    flat_map (fun l => match link_name l with Some nm => [(tag, nm)] | None => [] end) links.

  Definition spec_pairs (m : tagged) : list (string * string) :=
    flat_map (fun e => pairs_of (fst e) (snd e)) m.

  Lemma nodes_loop_proj : forall tag links acc,
      map proj_tn (nodes_loop link_name tag links acc) = map proj_tn acc ++ pairs_of tag links.
  Proof.
    intros tag. induction links as [|l rest IH]; intros acc; cbn.
    - rewrite app_nil_r. reflexivity.
    - destruct (link_name l) as [nm|]; cbn.
      + rewrite IH, map_app, <- app_assoc. reflexivity.
      + apply IH.
  Qed.

  Lemma tags_loop_proj : forall m acc,
      map proj_tn (tags_loop link_name m acc) = map proj_tn acc ++ spec_pairs m.
  Proof.
    induction m as [|[tag links] rest IH]; intros acc; cbn.
    - rewrite app_nil_r. reflexivity.
    - rewrite IH, nodes_loop_proj, <- app_assoc. reflexivity.
  Qed.

  Lemma new_dialer_set_proj : forall m, map proj_tn (new_dialer_set link_name m) = spec_pairs m.
  Proof. intros m. unfold new_dialer_set. rewrite tags_loop_proj. reflexivity. Qed.

  Lemma pairs_of_length : forall tag links,
      List.length (pairs_of tag links)
      = List.length (filter (usable link_name) (map (fun l => (tag, l)) links)).
  Proof.
    intros tag. induction links as [|l rest IH]; [reflexivity|].
    unfold pairs_of in *. cbn [flat_map map filter]. unfold usable at 1. cbn [snd].
    destruct (link_name l); cbn [app List.length]; rewrite IH; reflexivity.
  Qed.

  Lemma spec_pairs_length : forall m,
      List.length (spec_pairs m) = List.length (filter (usable link_name) (occurrences m)).
  Proof.
    induction m as [|e rest IH]; [reflexivity|].
    unfold spec_pairs, occurrences in *. cbn [flat_map].
    rewrite filter_app, !app_length, IH. f_equal. apply pairs_of_length.
  Qed.

  Lemma names_by_tag_proj : forall t pool,
      map n_name (filter (fun n => n_tag n =? t) pool)
      = map snd (filter (fun p => fst p =? t) (map proj_tn pool)).
  Proof.
    intros t. induction pool as [|n pool IH]; cbn; [reflexivity|].
    destruct (n_tag n =? t); cbn; rewrite IH; reflexivity.
  Qed.

  Lemma pairs_of_by_tag : forall t tag links,
      map snd (filter (fun p => fst p =? t) (pairs_of tag links))
      = if tag =? t then names_of link_name links else [].
  Proof.
    intros t tag. induction links as [|l rest IH].
    - cbn. destruct (tag =? t); reflexivity.
    - unfold pairs_of, names_of in *. cbn [flat_map].
      destruct (link_name l) as [nm|]; [|exact IH].
      cbn [app filter fst]. destruct (tag =? t) eqn:E.
      + cbn [map snd]. rewrite IH. reflexivity.
      + exact IH.
  Qed.

  Lemma spec_pairs_by_tag : forall t m,
      map snd (filter (fun p => fst p =? t) (spec_pairs m)) = names_under link_name t m.
  Proof.
    intros t. induction m as [|e rest IH]; [reflexivity|].
    unfold spec_pairs, names_under in *. cbn [flat_map].
    rewrite filter_app, map_app, IH, pairs_of_by_tag. reflexivity.
  Qed.

  Lemma pool_faithful_of_proj : forall m pool,
      map proj_tn pool = spec_pairs m -> pool_faithful link_name m pool.
  Proof.
    intros m pool H. split.
    - rewrite <- spec_pairs_length, <- H, map_length. reflexivity.
    - intros t. rewrite names_by_tag_proj, H. apply spec_pairs_by_tag.
  Qed.

  Lemma pool_one_per_occurrence_proof : forall m,
      pool_faithful link_name m (new_dialer_set link_name m).
  Proof. intros m. apply pool_faithful_of_proj. apply new_dialer_set_proj. Qed.
End PoolProofs.

Lemma no_filters_all_occurrences_proof : forall link_name re_ok re_match dur m,
    exists g, filter_and_annotate re_ok re_match dur (new_dialer_set link_name m) [] [] = Ok g
              /\ map snd g = map (fun _ => 0%Z) g
              /\ pool_faithful link_name m (map fst g).
Proof.
  intros link_name re_ok re_match dur m. eexists. split; [reflexivity|].
  rewrite !map_map. cbn [fst snd]. rewrite map_id. split; [reflexivity|].
  apply pool_one_per_occurrence_proof.
Qed.

Lemma members_exact_occurrences_proof : forall link_name re_ok re_match dur m lines annos,
    def_valid re_ok dur lines annos = true ->
    forall rp rf ra,
      pool_faithful link_name m (new_dialer_set link_name m)
      /\ filter_and_annotate re_ok re_match dur (new_dialer_set link_name m) lines annos
         = Ok (spec_group re_ok re_match dur rp rf ra (new_dialer_set link_name m) lines annos).
Proof.
  intros. split; [apply pool_one_per_occurrence_proof | apply members_exact_proof; assumption].
Qed.

(* the counter-model: building each link only once (keyed by the link string alone) *)
Fixpoint dedup_nodes_loop (link_name : string -> option string) (tag : string) (nodes : list string)
         (st : list string * list node) : list string * list node :=
  match nodes with
  | [] => st
  | link :: rest =>
      if existsb (String.eqb link) (fst st) then dedup_nodes_loop link_name tag rest st
      else match link_name link with
           | None => dedup_nodes_loop link_name tag rest (link :: fst st, snd st)
           | Some nm => dedup_nodes_loop link_name tag rest
                          (link :: fst st, snd st ++ [mkNode (N.of_nat (List.length (snd st))) nm tag])
           end
  end.

Fixpoint dedup_tags_loop (link_name : string -> option string) (m : tagged)
         (st : list string * list node) : list string * list node :=
  match m with
  | [] => st
  | (tag, nodes) :: rest => dedup_tags_loop link_name rest (dedup_nodes_loop link_name tag nodes st)
  end.

Definition new_dialer_set_dedup (link_name : string -> option string) (m : tagged) : list node :=
  snd (dedup_tags_loop link_name m ([], [])).

Lemma dedup_by_link_refuted_proof :
  ~ (forall link_name m, pool_faithful link_name m (new_dialer_set_dedup link_name m)).
Proof.
  intros H.
  destruct (H (fun l => Some l) [("alpha", ["a"; "shared"]); ("beta", ["shared"; "b"])]) as [L _].
  vm_compute in L. discriminate.
Qed.

(* ------------------------------------------------------------------------------------------ *)
(* groups are decoded independently                                                            *)
(* ------------------------------------------------------------------------------------------ *)
Lemma param_parser_spec : forall items to,
    param_parser to items
    = mkGroup (g_name to) (g_filter to ++ filters_of items) (g_anno to ++ annos_of items)
              (fold_left (fun acc it => match it with IPolicy r => Some r | IFilter _ _ => acc end) items (g_policy to)).
Proof.
  induction items as [|it rest IH]; intros to.
  - cbn. rewrite !app_nil_r. destruct to; reflexivity.
  - destruct it as [l a|r]; cbn [param_parser]; rewrite IH; cbn; rewrite <- ?app_assoc; reflexivity.
Qed.

Lemma section_parser_spec : forall sections to,
    section_parser sections to = to ++ map spec_group_decl sections.
Proof.
  induction sections as [|[name items] rest IH]; intros to; cbn [section_parser map].
  - rewrite app_nil_r. reflexivity.
  - rewrite IH, <- app_assoc. f_equal. cbn [app]. f_equal.
    rewrite param_parser_spec. reflexivity.
Qed.

Lemma decode_groups_spec : forall sections, decode_groups sections = map spec_group_decl sections.
Proof. intros. unfold decode_groups. rewrite section_parser_spec. reflexivity. Qed.

Lemma groups_decoded_independently_proof : forall sections,
    List.length (decode_groups sections) = List.length sections
    /\ forall i s, nth_error sections i = Some s ->
                   nth_error (decode_groups sections) i = nth_error (decode_groups [s]) 0
                   /\ nth_error (decode_groups sections) i = Some (spec_group_decl s).
Proof.
  intros sections. rewrite decode_groups_spec. split; [apply map_length|].
  intros i s H. rewrite decode_groups_spec. cbn.
  assert (E : nth_error (map spec_group_decl sections) i = Some (spec_group_decl s))
    by (apply map_nth_error; exact H).
  split; exact E.
Qed.

Lemma filters_annos_aligned : forall items,
    List.length (filters_of items) = List.length (annos_of items).
Proof.
  induction items as [|[l a|r] rest IH]; cbn; [reflexivity | f_equal; exact IH | exact IH].
Qed.

(* the counter-model: ONE scratch element for all groups, ParamParser clearing Filter/FilterAnnotation
   on a section's first `filter` item *)
Fixpoint param_parser_shared (to : group_decl) (filter_set : bool) (items : list group_item) : group_decl :=
  match items with
  | [] => to
  | IFilter l a :: rest =>
      let f := if filter_set then g_filter to else [] in
      let an := if filter_set then g_anno to else [] in
      param_parser_shared (mkGroup (g_name to) (f ++ [l]) (an ++ [a]) (g_policy to)) true rest
  | IPolicy r :: rest =>
      param_parser_shared (mkGroup (g_name to) (g_filter to) (g_anno to) (Some r)) filter_set rest
  end.

Fixpoint section_parser_shared (sections : list (string * list group_item)) (elem : group_decl)
         (to : list group_decl) : list group_decl :=
  match sections with
  | [] => to
  | (name, items) :: rest =>
      let elem := param_parser_shared (mkGroup name (g_filter elem) (g_anno elem) (g_policy elem)) false items in
      section_parser_shared rest elem (to ++ [elem])
  end.

Definition decode_groups_shared (sections : list (string * list group_item)) : list group_decl :=
  section_parser_shared sections zero_group [].

Lemma shared_scratch_refuted_proof :
  ~ (forall sections i s, nth_error sections i = Some s ->
                          nth_error (decode_groups_shared sections) i = nth_error (decode_groups_shared [s]) 0).
Proof.
  intros H.
  specialize (H [("hk", [IPolicy (PRString "min");
                         IFilter [mkFunc "name" false [mkParam "keyword" "hk"]] [mkParam "add_latency" "300ms"]]);
                 ("everything", [IPolicy (PRString "random")])]
                1 ("everything", [IPolicy (PRString "random")]) eq_refl).
  vm_compute in H. discriminate.
Qed.
