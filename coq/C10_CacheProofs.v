(* C10 — cache level = snapshot level (lemmas). *)
From Coq Require Import List NArith Bool.
From Dae Require Import C10_Spec C10_Cache.
Import ListNotations.
Open Scope N_scope.

Lemma map_owner h : map fst (map op_of_cache_op h) = map cache_owner h.
Proof.
  induction h as [|c h IH]; cbn [map]; [reflexivity|].
  rewrite IH. destruct c; reflexivity.
Qed.

Lemma find_map_op (l : list cache_op) (o : N) :
  find (fun x : op => fst x =? o) (map op_of_cache_op l)
  = option_map op_of_cache_op
      (find (fun c => match c with CInsert o' _ | CRemove o' => o' =? o end) l).
Proof.
  induction l as [|c l IH]; cbn [map find option_map]; [reflexivity|].
  destruct c as [o' e|o']; cbn [op_of_cache_op fst];
    destruct (o' =? o); cbn [option_map]; auto.
Qed.

Lemma existsb_extract (ip : N) (l : list answer) :
  existsb (N.eqb ip) (extract_ips l)
  = existsb (fun a => (ip =? snd a) && negb (unspecified a)) l.
Proof.
  unfold extract_ips.
  induction l as [|a l IH]; cbn [filter existsb map]; [reflexivity|].
  destruct (unspecified a) eqn:Ha; cbn [negb].
  - rewrite IH, andb_false_r. reflexivity.
  - cbn [map existsb]. rewrite IH, andb_true_r. reflexivity.
Qed.

Lemma contributes_live (h : list cache_op) (o ip : N) :
  contributes (live (map op_of_cache_op h) o) ip
  = match cache_live h o with
    | Some e => if lists e ip then e_bitmap e else 0
    | None => 0
    end.
Proof.
  unfold live, cache_live. rewrite <- map_rev, find_map_op.
  destruct (find _ (rev h)) as [c|]; cbn [option_map].
  - destruct c as [o' e|o']; cbn [op_of_cache_op snd].
    + unfold contributes, snapshot_of_entry, lists. cbn [s_ips s_bitmap].
      rewrite existsb_extract. reflexivity.
    + reflexivity.
  - reflexivity.
Qed.

Lemma cache_table_eq (h : list cache_op) (ip : N) :
  cache_table h ip = table (map op_of_cache_op h) ip.
Proof.
  unfold cache_table, table. rewrite map_owner.
  induction (map cache_owner h) as [|o os IH]; cbn [fold_right]; [reflexivity|].
  rewrite IH, contributes_live. reflexivity.
Qed.

Lemma cache_table_entry_eq (h : list cache_op) (ip : N) :
  cache_table_entry h ip = table_entry (map op_of_cache_op h) ip.
Proof. unfold cache_table_entry, table_entry. rewrite cache_table_eq. reflexivity. Qed.

Lemma lists_in (e : cache_entry) (ip : N) :
  lists e ip = true -> exists a, In a (e_answers e) /\ snd a = ip /\ unspecified a = false.
Proof.
  unfold lists. intros H. apply existsb_exists in H. destruct H as [a [Hin Ha]].
  apply andb_true_iff in Ha. destruct Ha as [H1 H2].
  exists a. split; [exact Hin|]. split.
  - symmetry. apply N.eqb_eq. exact H1.
  - apply negb_true_iff. exact H2.
Qed.

From Dae Require Import C10_Model C10_Proofs.

Lemma C10_cache_mirror_proof :
  forall (h : list cache_op) (ip : N),
    snd (run (map op_of_cache_op h)) ip = cache_table_entry h ip.
Proof. intros h ip. rewrite cache_table_entry_eq. exact (C10_mirror_proof _ ip). Qed.

Lemma cache_table_nonzero (h : list cache_op) (ip : N) :
  cache_table h ip <> 0 ->
  exists o e, cache_live h o = Some e /\ lists e ip = true.
Proof.
  unfold cache_table.
  induction (map cache_owner h) as [|o os IH]; cbn [fold_right]; intros Hnz.
  - exfalso. apply Hnz. reflexivity.
  - destruct (cache_live h o) as [e|] eqn:Hl.
    + destruct (lists e ip) eqn:Hls.
      * exists o, e. split; assumption.
      * apply IH. intros H0. apply Hnz. rewrite H0. reflexivity.
    + apply IH. intros H0. apply Hnz. rewrite H0. reflexivity.
Qed.

Lemma C10_present_only_if_listed_proof :
  forall (h : list cache_op) (ip : N),
    snd (run (map op_of_cache_op h)) ip <> None ->
    exists o e a, cache_live h o = Some e /\ In a (e_answers e) /\ snd a = ip /\ unspecified a = false.
Proof.
  intros h ip Hp. rewrite C10_cache_mirror_proof in Hp. unfold cache_table_entry in Hp.
  destruct (cache_table h ip =? 0) eqn:Hz; [exfalso; apply Hp; reflexivity|].
  apply N.eqb_neq in Hz. destruct (cache_table_nonzero h ip Hz) as [o [e [Hl Hls]]].
  destruct (lists_in e ip Hls) as [a [Hin [Hs Hu]]].
  exists o, e, a. repeat split; assumption.
Qed.
