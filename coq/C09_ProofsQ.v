(* C09 — the response-cache / singleflight key separates query types (cacheKey: canonical name followed by
   the decimal string of the query type). *)
From Coq Require Import NArith String DecimalString DecimalN DecimalPos.
From Dae.gen Require Import C09_KeyQtype.
Open Scope N_scope.

(* cacheKey(qname, qtype); [full] = the suffix is built from the whole 16-bit type (gen/C09_KeyQtype.v),
   otherwise from its low byte *)
Definition flight_key (full : bool) (name : string) (qtype : N) : string :=
  append name (NilZero.string_of_uint (N.to_uint (if full then qtype else qtype mod 256))).

Lemma append_inj_r : forall s a b, append s a = append s b -> a = b.
Proof. induction s; cbn; intros a0 b H; auto. inversion H; auto. Qed.

Lemma to_uint_nonnil : forall n, N.to_uint n <> Decimal.Nil.
Proof.
  intros [|p]; [discriminate|]. cbn. apply DecimalPos.Unsigned.to_uint_nonnil.
Qed.

Lemma C09_flight_key_injective_qtype_proof : forall name t1 t2,
  flight_key cachekey_full_qtype name t1 = flight_key cachekey_full_qtype name t2 -> t1 = t2.
Proof.
  intros name t1 t2 H. unfold flight_key in H. cbn in H. apply append_inj_r in H.
  apply DecimalN.Unsigned.to_uint_inj.
  pose proof (NilZero.usu _ (to_uint_nonnil t1)) as U1. pose proof (NilZero.usu _ (to_uint_nonnil t2)) as U2.
  rewrite H in U1. rewrite U1 in U2. inversion U2; auto.
Qed.

Lemma C09_flight_key_low_byte_refuted_proof : exists name t1 t2,
  t1 <> t2 /\ t1 < 65536 /\ t2 < 65536 /\ flight_key false name t1 = flight_key false name t2.
Proof.
  exists "a.example."%string, 257, 1. repeat split; try (intro; discriminate); reflexivity.
Qed.

Print Assumptions C09_flight_key_injective_qtype_proof.
