(* Link C12 + C11 — the prefix trie of C12 is the REAL succinct trie of pkg/trie.

   C12 models trie.NewTrieFromPrefixes / Trie.HasPrefix abstractly (the trie = the list of its keys, HasPrefix = "some
   key is a prefix of the word") and proves that this answers CIDR containment.  The structure pkg/trie really builds —
   the LOUDS numbering (C11_louds_correct) and its packed storage with sampled rank/select and CompactBitLists
   (C11_packed_correct) — is verified by C11 for ANY alphabet without repetition.  Here the two are joined for the
   alphabet trie.ValidCidrChars = {'0','1'}: the keys are the '0'/'1' strings Prefix2bin128 emits, and the real
   structure built from them, navigated as HasPrefix does, answers set containment. *)
From Coq Require Import List Arith NArith Bool Lia.
From Dae Require Import C11_Spec C11_Model C11_Louds C11_Proofs C11_PackedProofs C11_Layer3 C11_Props.
From Dae Require C12_Spec C12_Model C12_Props.
From Dae Require C01_Spec C01_Model Link_C01_C12.
Import ListNotations.
Open Scope N_scope.

(* trie.ValidCidrChars = NewValidChars([]byte{'0','1'}) *)
Definition cidr_chars : list N := [48; 49].
(* a bit string as the Go string of '0' / '1' bytes *)
Definition enc (b : bool) : N := if b then 49 else 48.
Definition encs (k : list bool) : str := map enc k.

Lemma cidr_chars_nodup : NoDup cidr_chars.
Proof. apply nodupb_sound. vm_compute. reflexivity. Qed.
Lemma cidr_chars_len : (length cidr_chars <= 256)%nat.
Proof. cbn. lia. Qed.

Lemma is_prefix_enc : forall k w, C11_Spec.is_prefix (encs k) (encs w) = C12_Model.is_prefix k w.
Proof.
  induction k as [|a k IH]; intros [|b w]; cbn; try reflexivity. rewrite IH. now destruct a, b.
Qed.

Lemma has_prefix_enc : forall keys w,
  C11_Model.has_prefix (map encs keys) (encs w) = C12_Model.has_prefix keys w.
Proof.
  intros keys w. unfold C11_Model.has_prefix, C12_Model.has_prefix.
  induction keys as [|k keys IH]; cbn; [reflexivity|]. now rewrite is_prefix_enc, IH.
Qed.

Lemma encs_valid : forall keys, keys_valid cidr_chars (map encs keys) = true.
Proof.
  intros keys. unfold keys_valid. apply forallb_forall. intros k Hk. apply in_map_iff in Hk as [k0 [<- _]].
  apply forallb_forall. intros c Hc. apply in_map_iff in Hc as [b [<- _]]. destruct b; vm_compute; reflexivity.
Qed.

(* the keys NewTrieFromPrefixes hands to NewTrie, and the word Match looks up *)
Definition cidr_keys (ps : list C12_Spec.prefix) : list str := map encs (C12_Model.new_trie_from_prefixes ps).
Definition cidr_word (a : N) : str := encs (C12_Model.probe_bin a).

(* LOUDS level: NewTrie never fails on these keys, and HasPrefix over the structure it builds is set containment *)
Theorem Link_louds_trie_contains :
  forall ps a, forallb C12_Spec.wf_prefix ps = true -> C12_Spec.wf_addr a = true ->
    exists L, l_new cidr_chars (cidr_keys ps) = Some L /\
              l_has cidr_chars L (cidr_word a) = C12_Spec.set_contains ps a.
Proof.
  intros ps a Hps Ha.
  assert (Hnew : l_new cidr_chars (cidr_keys ps) = Some (louds_of_nodes cidr_chars (bfs_nodes (cidr_keys ps)))).
  { unfold l_new, cidr_keys. now rewrite encs_valid. }
  eexists. split; [exact Hnew|].
  rewrite (C11_louds_correct cidr_chars _ (cidr_word a) _ cidr_chars_nodup cidr_chars_len Hnew).
  unfold cidr_word, cidr_keys. rewrite has_prefix_enc. exact (C12_Props.C12_trie_contains ps a Hps Ha).
Qed.
Print Assumptions Link_louds_trie_contains.

(* packed level: the trie exactly as pkg/trie stores it (64-bit words, rank/select samples, CompactBitLists).
   C11's premises: a non-empty key list (NewTrie indexes keys[0]) and the size bound of the sample arrays *)
Theorem Link_packed_trie_contains :
  forall ps a, forallb C12_Spec.wf_prefix ps = true -> C12_Spec.wf_addr a = true ->
    ps <> [] -> 2 * N.of_nat (wt (cidr_keys ps)) + 1 < 2 ^ 64 ->
    exists t, p_new cidr_chars (cidr_keys ps) = Some t /\
              p_has cidr_chars t (cidr_word a) = C12_Spec.set_contains ps a.
Proof.
  intros ps a Hps Ha Hne Hsz.
  assert (Hk : cidr_keys ps <> []).
  { unfold cidr_keys, C12_Model.new_trie_from_prefixes. destruct ps; [congruence | discriminate]. }
  assert (Hnew : p_new cidr_chars (cidr_keys ps)
                 = Some (pack_louds cidr_chars (louds_of_nodes cidr_chars (bfs_nodes (cidr_keys ps))))).
  { unfold p_new, l_new, cidr_keys. now rewrite encs_valid. }
  eexists. split; [exact Hnew|].
  rewrite (C11_packed_correct cidr_chars (cidr_keys ps) (cidr_word a) _ cidr_chars_nodup cidr_chars_len Hk Hsz Hnew).
  unfold cidr_word, cidr_keys. rewrite has_prefix_enc. exact (C12_Props.C12_trie_contains ps a Hps Ha).
Qed.
Print Assumptions Link_packed_trie_contains.

(* in C01's terms (through Link_C01_C12): the real packed trie built from a routing rule's prefix list answers exactly
   C01's `existsb (px_covers x)` *)
Theorem Link_packed_trie_is_covers :
  forall (lpm : list C01_Model.prefix128) (x : N),
    forallb Link_C01_C12.px_ok lpm = true -> x < 2 ^ 128 -> lpm <> [] ->
    2 * N.of_nat (wt (cidr_keys (map Link_C01_C12.to12 lpm))) + 1 < 2 ^ 64 ->
    exists t, p_new cidr_chars (cidr_keys (map Link_C01_C12.to12 lpm)) = Some t /\
              p_has cidr_chars t (cidr_word x) = existsb (C01_Model.px_covers x) lpm.
Proof.
  intros lpm x Hl Hx Hne Hsz.
  assert (Hk : cidr_keys (map Link_C01_C12.to12 lpm) <> []).
  { unfold cidr_keys, C12_Model.new_trie_from_prefixes. destruct lpm; [congruence | discriminate]. }
  set (ks := cidr_keys (map Link_C01_C12.to12 lpm)) in *.
  assert (Hnew : p_new cidr_chars ks = Some (pack_louds cidr_chars (louds_of_nodes cidr_chars (bfs_nodes ks)))).
  { unfold p_new, l_new, ks, cidr_keys. now rewrite encs_valid. }
  eexists. split; [exact Hnew|].
  rewrite (C11_packed_correct cidr_chars ks (cidr_word x) _ cidr_chars_nodup cidr_chars_len Hk Hsz Hnew).
  unfold cidr_word, ks, cidr_keys. rewrite has_prefix_enc.
  exact (Link_C01_C12.Link_trie_is_covers lpm x Hl Hx).
Qed.
Print Assumptions Link_packed_trie_is_covers.

(* Non-vacuity: {10.0.0.0/8, 8000::/1, 2001:db8::/32} as the packed structure; the probes 10.1.2.3 (in), 11.0.0.1 (out),
   8000::1 (in), 2001:db8::1 (in), ::1 (out) *)
Example Link_C12_C11_nonvacuous :
  let ps := [ C12_Spec.Build_prefix true 0x0a000000 8; C12_Spec.Build_prefix false (2 ^ 127) 1;
              C12_Spec.Build_prefix false 0x20010db8000000000000000000000000 32 ] in
  let probes := [0xffff0a010203; 0xffff0b000001; 2 ^ 127 + 1; 0x20010db8000000000000000000000001; 1] in
  forallb C12_Spec.wf_prefix ps = true /\ forallb C12_Spec.wf_addr probes = true /\
  2 * N.of_nat (wt (cidr_keys ps)) + 1 < 2 ^ 64 /\
  match p_new cidr_chars (cidr_keys ps) with
  | Some t => map (fun a => p_has cidr_chars t (cidr_word a)) probes
  | None => []
  end = map (C12_Spec.set_contains ps) probes /\
  map (C12_Spec.set_contains ps) probes = [true; false; true; true; false].
Proof. cbv zeta. repeat split; vm_compute; reflexivity. Qed.

(* DISCHARGED: C12's modelling shortcut "the succinct trie is the set of its keys" (and with it the same shortcut in
     C01 / C07's ip sets, through Link_C01_C12), from C11_louds_correct / C11_packed_correct instantiated at the
     alphabet {'0','1'}.
   REMAINING: C12's wf_prefix / wf_addr; for the packed form C11's size bound (key bits below 2^63: at most 128 per
     prefix) and a non-empty prefix list (NewTrie indexes keys[0]; the builders never create an empty set).
   NOT LINKED: the match loops of C01 / C07 are not re-stated over the packed trie (lookup-level link only). *)
