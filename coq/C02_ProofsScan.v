(* C02 — lemmas, part B: the kernel scan over the installed bytes computes dns_adjust of the userspace scan. *)
From Coq Require Import ZArith List NArith Bool String Lia ZifyBool ZifyN ZifyNat.
From Dae Require Import C01_Spec C01_Model C01_Proofs C02_Spec C02_Model C02_Proofs.
From Dae.gen Require Import C01_Consts C02_Consts.
Import ListNotations.
Open Scope N_scope.
Ltac Zify.zify_post_hook ::= Z.div_mod_to_equations.

(* ---------------------------------------------------------------------------------------------- *)
(* the state byte                                                                                   *)
(* ---------------------------------------------------------------------------------------------- *)

Definition st_of (good bad must dns : bool) : N := b2n bad + 2 * b2n good + 4 * b2n must + 8 * b2n dns.

Lemma has_bad g b m d : has (st_of g b m d) K_ROUTE_STATE_BAD_RULE = b.
Proof. destruct g, b, m, d; reflexivity. Qed.
Lemma has_good g b m d : has (st_of g b m d) K_ROUTE_STATE_GOOD_SUBRULE = g.
Proof. destruct g, b, m, d; reflexivity. Qed.
Lemma has_must g b m d : has (st_of g b m d) K_ROUTE_STATE_MUST = m.
Proof. destruct g, b, m, d; reflexivity. Qed.
Lemma has_dns g b m d : has (st_of g b m d) K_ROUTE_STATE_DNS_QUERY = d.
Proof. destruct g, b, m, d; reflexivity. Qed.
Lemma has_bad_or_good g b m d : has (st_of g b m d) (N.lor K_ROUTE_STATE_BAD_RULE K_ROUTE_STATE_GOOD_SUBRULE) = b || g.
Proof. destruct g, b, m, d; reflexivity. Qed.
Lemma set_good g b m d : N.lor (st_of g b m d) K_ROUTE_STATE_GOOD_SUBRULE = st_of true b m d.
Proof. destruct g, b, m, d; reflexivity. Qed.

Lemma negb_b2n b : negb (b2n b =? 0) = b.
Proof. destruct b; reflexivity. Qed.

Lemma pos_ltb x : negb (x =? 0) = (0 <? x).
Proof. destruct (N.eqb_spec x 0), (N.ltb_spec 0 x); try reflexivity; lia. Qed.

(* RoutingMatcher.Match, the part of the loop body after the evaluation of the match-set *)
Definition go_fin (m : mset) (good1 bad must : bool) : (bool * bool * bool) + decision :=
  let outbound := m_out m in
  let good2 := if negb (outbound =? OutboundLogicalOr) then false else good1 in
  let bad2 := if negb (outbound =? OutboundLogicalOr) then (if Bool.eqb good1 (m_not m) then true else bad) else bad in
  if negb (N.land outbound OutboundLogicalMask =? OutboundLogicalMask) then
    if negb bad2 then
      if outbound =? OutboundMustRules then inl (good2, bad2, true)
      else inr (outbound, m_mark m, m_must m || must)
    else inl (good2, false, must)
  else inl (good2, bad2, must).

Lemma match_loop_step tries a bm m rest i good bad must :
  match_loop tries a bm (m :: rest) i good bad must =
  match (if bad || good then Ok good else eval_mset tries a bm i m) with
  | Err e => Err e
  | Ok g1 => match go_fin m g1 bad must with
             | inl (g, b, mu) => match_loop tries a bm rest (i + 1) g b mu
             | inr d => Ok d
             end
  end.
Proof.
  cbn [match_loop]. destruct (if bad || good then Ok good else eval_mset tries a bm i m) as [g1|err]; [|reflexivity].
  unfold go_fin.
  destruct (negb (m_out m =? OutboundLogicalOr)); cbv zeta iota beta;
    destruct (negb (N.land (m_out m) OutboundLogicalMask =? OutboundLogicalMask));
    try reflexivity.
  - destruct (negb (if Bool.eqb g1 (m_not m) then true else bad)); [|reflexivity].
    destruct (m_out m =? OutboundMustRules); reflexivity.
  - destruct (negb bad); [|reflexivity]. destruct (m_out m =? OutboundMustRules); reflexivity.
Qed.

(* the word the kernel returns when a rule decides *)
Definition kstop (dns : bool) (o mark : N) (must : bool) : N :=
  if negb must && dns then pack K_OUTBOUND_CONTROL_PLANE_ROUTING mark must else pack o mark must.

Lemma k_finalize_spec alloc e m g1 bad must dns ca ix bits :
  decodes alloc e m -> m_out m < 256 ->
  k_finalize {| c_state := st_of g1 bad must dns; c_dw_cached := ca; c_dw_idx := ix; c_dw_bits := bits |} e =
  match go_fin m g1 bad must with
  | inl (g, b, mu) => inl {| c_state := st_of g b mu dns; c_dw_cached := ca; c_dw_idx := ix; c_dw_bits := bits |}
  | inr (o, mk, mu) => inr (KWord (kstop dns o mk mu))
  end.
Proof.
  intros (Ht & Hn & Hob & Hmu & Hmk & _) Ho.
  unfold k_finalize, go_fin. rewrite Hn, Hob, Hmu, Hmk, !negb_b2n.
  change K_OUTBOUND_LOGICAL_MASK with OutboundLogicalMask. rewrite (mask_small _ Ho).
  change K_OUTBOUND_LOGICAL_OR with OutboundLogicalOr. change K_OUTBOUND_MUST_RULES with OutboundMustRules.
  destruct (N.eqb_spec (m_out m) OutboundLogicalOr) as [E1|E1].
  { rewrite E1. destruct g1, bad, must, dns, (m_not m), (m_must m); reflexivity. }
  destruct (N.eqb_spec (m_out m) OutboundLogicalAnd) as [E2|E2].
  { rewrite E2. destruct g1, bad, must, dns, (m_not m), (m_must m); reflexivity. }
  destruct (N.eqb_spec (m_out m) OutboundMustRules) as [E3|E3].
  { try rewrite E3. destruct g1, bad, must, dns, (m_not m), (m_must m); reflexivity. }
  cbn [orb negb]. unfold kstop.
  destruct g1, bad, must, dns, (m_not m), (m_must m); reflexivity.
Qed.

(* ---------------------------------------------------------------------------------------------- *)
(* process names: sixteen bytes compared as two 64-bit words                                        *)
(* ---------------------------------------------------------------------------------------------- *)

Lemma le32_inj4 a0 a1 a2 a3 b0 b1 b2 b3 :
  a0 < 256 -> a1 < 256 -> a2 < 256 -> a3 < 256 -> b0 < 256 -> b1 < 256 -> b2 < 256 -> b3 < 256 ->
  a0 + 256 * a1 + 65536 * a2 + 16777216 * a3 = b0 + 256 * b1 + 65536 * b2 + 16777216 * b3 ->
  a0 = b0 /\ a1 = b1 /\ a2 = b2 /\ a3 = b3.
Proof. intros. lia. Qed.

Lemma le32_lt l o : (forall b, In b l -> b < 256) -> le32 l o < 4294967296.
Proof.
  intros H. assert (B : forall k, byte_at l k < 256).
  { intros k. unfold byte_at. destruct (nth_in_or_default k l 0) as [Hi|Hd]; [now apply H | rewrite Hd; lia]. }
  unfold le32. pose proof (B o). pose proof (B (o + 1)%nat). pose proof (B (o + 2)%nat). pose proof (B (o + 3)%nat). lia.
Qed.

Lemma le64_eq_split l1 l2 o : (forall b, In b l1 -> b < 256) -> (forall b, In b l2 -> b < 256) ->
  (le64 l1 o =? le64 l2 o) = (le32 l1 o =? le32 l2 o) && (le32 l1 (o + 4) =? le32 l2 (o + 4)).
Proof.
  intros H1 H2. unfold le64.
  pose proof (le32_lt l1 o H1). pose proof (le32_lt l2 o H2). pose proof (le32_lt l1 (o + 4) H1). pose proof (le32_lt l2 (o + 4) H2).
  destruct (N.eqb_spec (le32 l1 o) (le32 l2 o)), (N.eqb_spec (le32 l1 (o + 4)) (le32 l2 (o + 4))); cbn [andb];
    apply N.eqb_eq || apply N.eqb_neq; lia.
Qed.

Lemma le32_eq_split l1 l2 o : (forall b, In b l1 -> b < 256) -> (forall b, In b l2 -> b < 256) ->
  (le32 l1 o =? le32 l2 o) =
  (byte_at l1 o =? byte_at l2 o) && (byte_at l1 (o + 1) =? byte_at l2 (o + 1)) &&
  (byte_at l1 (o + 2) =? byte_at l2 (o + 2)) && (byte_at l1 (o + 3) =? byte_at l2 (o + 3)).
Proof.
  intros H1 H2.
  assert (B : forall l, (forall b, In b l -> b < 256) -> forall k, byte_at l k < 256).
  { intros l H k. unfold byte_at. destruct (nth_in_or_default k l 0) as [Hi|Hd]; [now apply H | rewrite Hd; lia]. }
  pose proof (B l1 H1 o). pose proof (B l1 H1 (o + 1)%nat). pose proof (B l1 H1 (o + 2)%nat). pose proof (B l1 H1 (o + 3)%nat).
  pose proof (B l2 H2 o). pose proof (B l2 H2 (o + 1)%nat). pose proof (B l2 H2 (o + 2)%nat). pose proof (B l2 H2 (o + 3)%nat).
  unfold le32.
  destruct (N.eqb_spec (byte_at l1 o) (byte_at l2 o)), (N.eqb_spec (byte_at l1 (o + 1)) (byte_at l2 (o + 1))),
    (N.eqb_spec (byte_at l1 (o + 2)) (byte_at l2 (o + 2))), (N.eqb_spec (byte_at l1 (o + 3)) (byte_at l2 (o + 3)));
    cbn [andb]; apply N.eqb_eq || apply N.eqb_neq; lia.
Qed.

Lemma list_eqb_16 l1 l2 : List.length l1 = 16%nat -> List.length l2 = 16%nat ->
  (forall b, In b l1 -> b < 256) -> (forall b, In b l2 -> b < 256) ->
  list_eqb l1 l2 = (le64 l1 0 =? le64 l2 0) && (le64 l1 8 =? le64 l2 8).
Proof.
  intros L1 L2 H1 H2.
  rewrite !le64_eq_split, !le32_eq_split by assumption.
  do 17 (destruct l1 as [|? l1]; try discriminate). do 17 (destruct l2 as [|? l2]; try discriminate).
  unfold byte_at. cbn [list_eqb nth Nat.add]. rewrite !andb_assoc, andb_true_r. reflexivity.
Qed.

Lemma list_eqb_refl l : list_eqb l l = true.
Proof. induction l; cbn [list_eqb]; [reflexivity|]. now rewrite N.eqb_refl. Qed.

Lemma list_eqb_eq : forall l1 l2, list_eqb l1 l2 = true -> l1 = l2.
Proof.
  induction l1 as [|x l1 IH]; destruct l2 as [|y l2]; cbn [list_eqb]; try discriminate; [reflexivity|].
  intros H. apply andb_true_iff in H as [H1 H2]. apply N.eqb_eq in H1. f_equal; auto.
Qed.

Lemma nth16_id l : List.length l = 16%nat -> nth16 l = l.
Proof. intros L. do 17 (destruct l as [|? l]; try discriminate). reflexivity. Qed.

(* ---------------------------------------------------------------------------------------------- *)
(* one generation, one packet                                                                       *)
(* ---------------------------------------------------------------------------------------------- *)

Section Packet.
Variable tries : list (list prefix128).
Variable alloc : N.
Variable km : kmaps.
Variable pk : packet.
Variable wan : bool.
Variable bm : option (list N).

Let a := args_of_packet pk.
Let ka := kargs_of pk wan.
Let hs := p_sport pk.
Let hd := p_dport pk.

Hypothesis Hpk : wf_packet pk = true.
Hypothesis Htries : forall k t, nth_error tries k = Some t -> forallb wf_prefix t = true.
Hypothesis Hlpm : forall k t, nth_error tries k = Some t ->
  km_lpm km (ring_slot MaxMatchSetLen alloc (N.of_nat k)) = Some (map key_of_prefix t).
Hypothesis Hdom : km_domain km (bytes_be 16 (p_dst pk)) = dom_entry bm.
Hypothesis Hlan : wan = true \/ nth 0 (p_pname pk) 0 = 0.   (* a LAN probe carries no process name *)
Hypothesis Hbm : match bm with Some w => List.length w = 32%nat /\ (forall x, In x w -> x < 4294967296) | None => True end.

Lemma pk_facts :
  p_src pk < 2 ^ 128 /\ p_dst pk < 2 ^ 128 /\ p_sport pk < 65536 /\ p_dport pk < 65536 /\
  List.length (p_pname pk) = 16%nat /\ (forall b, In b (p_pname pk) -> b < 256) /\ p_mac pk < 2 ^ 48 /\ p_dscp pk < 256.
Proof.
  unfold wf_packet in Hpk. rewrite !andb_true_iff in Hpk.
  destruct Hpk as [[[[[[[H1 H2] H3] H4] H5] H6] H7] H8].
  apply Nat.eqb_eq in H5. rewrite forallb_forall in H6.
  repeat split; try lia; auto. intros b Hb. specialize (H6 b Hb). lia.
Qed.

Definition kword (w : N) : N :=
  match dom_entry bm with Some dr => le32 dr (4 * N.to_nat w) | None => 0 end.

Definition cache_ok (c : kctx) : Prop := c_dw_cached c = true -> c_dw_bits c = kword (c_dw_idx c).

Definition bmv (i : N) : bool := match bm with Some w => bm_bit w i | None => false end.

Lemma kbit i : i < 1024 -> (N.land (N.shiftr (kword (i / 32)) (i mod 32)) 1 =? 1) = bmv i.
Proof.
  intros Hi. unfold kword, bmv, dom_entry. destruct bm as [w|].
  - destruct Hbm as [L B]. unfold bm_bit.
    assert (Hw : (N.to_nat (i / 32) < List.length w)%nat) by (rewrite L; lia).
    rewrite (nth_error_nth' w 0 Hw).
    destruct (bitmap_zero w) eqn:Z.
    + rewrite N.shiftr_0_l. unfold bitmap_zero in Z. rewrite forallb_forall in Z.
      specialize (Z _ (nth_In w 0 Hw)). apply N.eqb_eq in Z. rewrite <- Z. now rewrite N.bits_0.
    + rewrite le32_enc_bitmap by exact B. apply bit_test.
  - now rewrite N.shiftr_0_l.
Qed.

Lemma good_step (c : kctx) (g must dns : bool) :
  c_state c = st_of false false must dns -> cache_ok c ->
  c_state (if g then setf c K_ROUTE_STATE_GOOD_SUBRULE else c) = st_of g false must dns /\
  cache_ok (if g then setf c K_ROUTE_STATE_GOOD_SUBRULE else c).
Proof.
  intros Hs Hc. destruct g; [|now split]. split; [|exact Hc].
  cbn [setf c_state]. rewrite Hs. apply set_good.
Qed.

Lemma k_eval_agrees n m e c i must dns :
  i < 1024 -> wf_mset n m = true -> n <= N.of_nat (List.length tries) -> decodes alloc e m ->
  c_state c = st_of false false must dns -> cache_ok c ->
  exists g c', eval_mset tries a bm i m = Ok g /\ k_eval km ka hs hd c i e = inl c' /\
               c_state c' = st_of g false must dns /\ cache_ok c'.
Proof.
  intros Hi Hwf Hn Hdec Hs Hc.
  destruct (wf_mset_facts _ _ Hwf) as (Ht & Ho & Hmk & Hps & Hpe & Hmask & Hpn & Hpb & Hd & Hl).
  destruct Hdec as (Dt & Dn & Dob & Dmu & Dmk & Dlpm & Dport & Dl4 & Dver & Dpn & Ddscp).
  destruct pk_facts as (Psrc & Pdst & Psp & Pdp & Ppn & Ppb & Pmac & Pdscp).
  assert (Cases : m_type m = 0 \/ m_type m = 1 \/ m_type m = 2 \/ m_type m = 3 \/ m_type m = 4 \/ m_type m = 5 \/
                  m_type m = 6 \/ m_type m = 7 \/ m_type m = 8 \/ m_type m = 9 \/ m_type m = 10) by lia.
  unfold k_eval, eval_mset. rewrite Dt.
  assert (LPM : forall target, target < 2 ^ 128 -> is_lpm_type (m_type m) = true ->
            exists g c', match nth_error tries (N.to_nat (m_lpm m)) with
                         | Some lpm => Ok (existsb (px_covers target) lpm)
                         | None => Err E_BAD_LPM
                         end = Ok g /\
                         k_match_lpm km c e (bytes_be 16 target) = inl c' /\ c_state c' = st_of g false must dns /\ cache_ok c').
  { intros target Htg Hty. specialize (Hl Hty). specialize (Dlpm Hty).
    assert (Hlt : (N.to_nat (m_lpm m) < List.length tries)%nat) by lia.
    destruct (nth_error tries (N.to_nat (m_lpm m))) as [lpm|] eqn:E; [|apply nth_error_None in E; lia].
    exists (existsb (px_covers target) lpm). eexists. split; [reflexivity|].
    unfold k_match_lpm. rewrite Dlpm.
    pose proof (ring_slot_lt alloc (m_lpm m)) as Hsl. destruct (N.ltb_spec (ring_slot MaxMatchSetLen alloc (m_lpm m)) K_MAX_LPM_NUM); [|lia].
    pose proof (Hlpm _ _ E) as Hk. rewrite N2Nat.id in Hk. rewrite Hk.
    rewrite lpm_lookup_keys by (eauto using Htries). split; [reflexivity|]. now apply good_step. }
  destruct Cases as [T|[T|[T|[T|[T|[T|[T|[T|[T|[T|T]]]]]]]]]]; rewrite T in *; red_if.
  - (* DomainSet *)
    unfold k_match_domain.
    destruct (N.leb_spec (K_MAX_MATCH_SET_LEN / 32) (i / 32)) as [Hbad|_]; [change (K_MAX_MATCH_SET_LEN / 32) with 32 in Hbad; lia|].
    exists (bmv i). eexists. split; [reflexivity|]. split; [reflexivity|].
    set (c1 := if negb (c_dw_cached c) || negb (c_dw_idx c =? i / 32) then _ else c).
    assert (Hd' : km_domain km (ka_daddr ka) = dom_entry bm) by exact Hdom.
    assert (Hc1 : c_state c1 = st_of false false must dns /\ cache_ok c1 /\ c_dw_bits c1 = kword (i / 32)).
    { subst c1. rewrite Hd'. fold (kword (i / 32)). destruct (c_dw_cached c) eqn:Ca; cbn [negb orb].
      - destruct (N.eqb_spec (c_dw_idx c) (i / 32)) as [Ei|Ei]; cbn [negb].
        + split; [exact Hs|]. split; [exact Hc|]. rewrite <- Ei. now apply Hc.
        + split; [exact Hs|]. unfold cache_ok. cbn [c_dw_cached c_dw_bits c_dw_idx]. split; [intros _|]; reflexivity.
      - split; [exact Hs|]. unfold cache_ok. cbn [c_dw_cached c_dw_bits c_dw_idx]. split; [intros _|]; reflexivity. }
    destruct Hc1 as (S1 & C1 & B1). rewrite B1, (kbit i Hi). now apply good_step.
  - (* IpSet *) apply (LPM (p_dst pk) Pdst eq_refl).
  - (* SourceIpSet *) apply (LPM (p_src pk) Psrc eq_refl).
  - (* Port *)
    destruct (Dport (or_introl eq_refl)) as [-> ->].
    eexists. eexists. split; [reflexivity|]. split; [reflexivity|]. now apply good_step.
  - (* SourcePort *)
    destruct (Dport (or_intror eq_refl)) as [-> ->].
    eexists. eexists. split; [reflexivity|]. split; [reflexivity|]. now apply good_step.
  - (* L4Proto *)
    rewrite (Dl4 eq_refl). eexists. eexists. split; [reflexivity|].
    assert (E : negb (N.land (byte_at (ka_flag ka) 0 mod 256) (m_mask m) =? 0) = (0 <? N.land (a_l4 a) (m_mask m))).
    { rewrite pos_ltb. unfold ka, a. cbn [kargs_of ka_flag args_of_packet a_l4]. destruct (p_l4 pk); reflexivity. }
    rewrite E. split; [reflexivity|]. now apply good_step.
  - (* IpVersion *)
    rewrite (Dver eq_refl). eexists. eexists. split; [reflexivity|].
    assert (E : negb (N.land (byte_at (ka_flag ka) 1 mod 256) (m_mask m) =? 0) = (0 <? N.land (a_ipver a) (m_mask m))).
    { rewrite pos_ltb. unfold ka, a. cbn [kargs_of ka_flag args_of_packet a_ipver]. destruct (p_ipver pk); reflexivity. }
    rewrite E. split; [reflexivity|]. now apply good_step.
  - (* Mac *)
    apply (LPM (p_mac pk)); [|reflexivity]. apply N.lt_trans with (2 ^ 48); [exact Pmac | reflexivity].
  - (* ProcessName *)
    destruct (Dpn eq_refl) as [D0 D8]. rewrite D0, D8.
    eexists. eexists. split; [reflexivity|].
    assert (E : negb (byte_at (ka_flag ka) 7 mod 256 =? 0) && negb (byte_at (ka_flag ka) 2 mod 256 =? 0) &&
                equal16 (le64 (m_pname m) 0) (le64 (m_pname m) 8)
                        (byte_at (ka_flag ka) 2 + 4294967296 * byte_at (ka_flag ka) 3)
                        (byte_at (ka_flag ka) 4 + 4294967296 * byte_at (ka_flag ka) 5)
                = negb (nth 0 (a_pname a) 0 =? 0) && list_eqb (m_pname m) (a_pname a)).
    { unfold ka, a. cbn [kargs_of ka_flag args_of_packet a_pname]. unfold byte_at at 1 2 3 4 5 6. cbn [nth].
      rewrite (list_eqb_16 _ _ Hpn Ppn Hpb Ppb). unfold equal16, le64. cbn [Nat.add].
      assert (W : negb (b2n wan mod 256 =? 0) = wan) by (destruct wan; reflexivity). rewrite W.
      assert (F0 : le32 (p_pname pk) 0 mod 256 = nth 0 (p_pname pk) 0).
      { assert (B : forall k, byte_at (p_pname pk) k < 256).
        { intros k. unfold byte_at. destruct (nth_in_or_default k (p_pname pk) 0) as [Hi'|Hd']; [now apply Ppb | rewrite Hd'; lia]. }
        unfold le32. pose proof (B 0%nat). pose proof (B 1%nat). pose proof (B 2%nat). pose proof (B 3%nat).
        change (nth 0 (p_pname pk) 0) with (byte_at (p_pname pk) 0). cbn [Nat.add]. lia. }
      rewrite F0. destruct Hlan as [G|G].
      - rewrite G. reflexivity.
      - rewrite G. cbn [N.eqb negb andb]. now rewrite andb_false_r. }
    rewrite E. split; [reflexivity|]. now apply good_step.
  - (* Dscp *)
    rewrite (Ddscp eq_refl). eexists. eexists. split; [reflexivity|].
    assert (E : (byte_at (ka_flag ka) 6 mod 256 =? m_dscp m) = (a_dscp a =? m_dscp m)).
    { unfold ka, a. cbn [kargs_of ka_flag args_of_packet a_dscp]. unfold byte_at. cbn [nth]. rewrite N.mod_small by exact Pdscp. reflexivity. }
    rewrite E. split; [reflexivity|]. now apply good_step.
  - (* Fallback *)
    exists true. eexists. split; [reflexivity|]. split; [reflexivity|]. apply (good_step c true must dns Hs Hc).
Qed.

(* what the callers read out of the loop's outcome *)
Definition loop_answer (r : option kret) : option decision :=
  match r with Some w => decode_word w | None => None end.

Definition expected_d (dns : bool) (user : option decision) : option decision :=
  match user with
  | Some (o, mark, must) => Some (if dns && negb must then (CONTROL_PLANE_ROUTING, mark, false) else (o, mark, must))
  | None => None
  end.

Lemma kstop_decode dns o mk mu : o < 256 -> mk < 4294967296 ->
  decode_word (KWord (kstop dns o mk mu)) = expected_d dns (Some (o, mk, mu)).
Proof.
  intros Ho Hm. unfold kstop, expected_d. rewrite andb_comm.
  destruct (dns && negb mu) eqn:E.
  - apply andb_true_iff in E as [_ E]. destruct mu; [discriminate|]. now apply decode_pack.
  - now apply decode_pack.
Qed.

Lemma k_loop_scan n dns : forall ms es i good bad must c,
  Forall2 (decodes alloc) es ms -> forallb (wf_mset n) ms = true -> n <= N.of_nat (List.length tries) ->
  i + N.of_nat (List.length ms) <= 1024 ->
  (forall k e, nth_error es k = Some e -> nth (N.to_nat (i + N.of_nat k)) (km_routing km) (zeros 24) = e) ->
  c_state c = st_of good bad must dns -> cache_ok c ->
  loop_answer (k_loop km ka hs hd (List.length ms) i c) =
  expected_d dns (user_answer (match_loop tries a bm ms i good bad must)).
Proof.
  induction ms as [|m ms IH]; intros es i good bad must c HF Hwf Hn Hlen Hent Hs Hc.
  - reflexivity.
  - inversion HF as [|e m' es' ms' Hdec HF']; subst.
    cbn [forallb] in Hwf. apply andb_true_iff in Hwf as [Hwm Hwf'].
    cbn [List.length] in Hlen |- *. cbn [k_loop]. rewrite match_loop_step.
    assert (Hi : i < 1024) by lia.
    unfold k_cb. destruct (N.leb_spec K_MAX_MATCH_SET_LEN i) as [Hbad|_]; [change K_MAX_MATCH_SET_LEN with 1024 in Hbad; lia|].
    pose proof (Hent 0%nat e eq_refl) as He. rewrite N.add_0_r in He. rewrite He.
    rewrite Hs, has_bad_or_good.
    assert (Hent' : forall k e0, nth_error es' k = Some e0 ->
                                 nth (N.to_nat (i + 1 + N.of_nat k)) (km_routing km) (zeros 24) = e0).
    { intros k e0 Hk. replace (i + 1 + N.of_nat k) with (i + N.of_nat (S k)) by lia. now apply Hent. }
    destruct (wf_mset_facts _ _ Hwm) as (_ & Ho & Hmk & _).
    assert (Fin : forall g1 c1, c_state c1 = st_of g1 bad must dns -> cache_ok c1 ->
              loop_answer (match k_finalize c1 e with
                           | inr r => Some r
                           | inl c2 => k_loop km ka hs hd (List.length ms) (i + 1) c2
                           end) =
              expected_d dns (user_answer (match go_fin m g1 bad must with
                                           | inl (g, b, mu) => match_loop tries a bm ms (i + 1) g b mu
                                           | inr d => Ok d
                                           end))).
    { intros g1 c1 Hs1 Hc1. destruct c1 as [st ca ix bits]. cbn [c_state] in Hs1. subst st.
      rewrite (k_finalize_spec alloc e m g1 bad must dns ca ix bits Hdec Ho).
      destruct (go_fin m g1 bad must) as [[[g b] mu]|[[o mk] mu]] eqn:GF.
      - apply (IH es'); auto; lia.
      - cbn [loop_answer user_answer].
        assert (o = m_out m /\ mk = m_mark m) as [-> ->].
        { unfold go_fin in GF.
          repeat match type of GF with context [if ?b then _ else _] => destruct b end; try discriminate.
          injection GF as <- <- _. now split. }
        now apply kstop_decode. }
    destruct (bad || good) eqn:BG.
    + (* skip the evaluation *) apply Fin; assumption.
    + apply orb_false_iff in BG as [-> ->].
      destruct (k_eval_agrees n m e c i must dns Hi Hwm Hn Hdec Hs Hc) as (g & c' & Eg & Ek & Sc' & Cc').
      rewrite Eg, Ek. apply Fin; assumption.
Qed.

End Packet.

(* ---------------------------------------------------------------------------------------------- *)
(* from buildRoutingKernspace to the packet                                                         *)
(* ---------------------------------------------------------------------------------------------- *)

Lemma install_facts prev ms tries alloc km :
  install prev ms tries alloc = Ok km ->
  forallb (wf_mset (N.of_nat (List.length tries))) ms = true ->
  km_routing km = map (kentry alloc) ms ++ skipn (List.length ms) (km_routing prev) /\
  km_meta km = N.of_nat (List.length ms) /\
  km_lpm km = install_tries (km_lpm prev) alloc 0 tries /\
  km_domain km = km_domain prev /\
  N.of_nat (List.length tries) <= 1024 /\ N.of_nat (List.length ms) <= 1024 /\ ms <> [].
Proof.
  intros H Hwf. unfold install in H. change MaxMatchSetLen with 1024 in H.
  destruct (N.ltb_spec 1024 (N.of_nat (List.length tries))) as [|Hc]; [discriminate|].
  destruct (negb (last (map m_type ms) 255 =? MatchType_Fallback)) eqn:Hf; [discriminate|].
  rewrite (rewrite_rules_kentry alloc _ _ ms Hwf (N.le_refl _) Hc) in H.
  rewrite map_length in H.
  destruct (N.ltb_spec 1024 (N.of_nat (List.length ms))) as [|Hm]; [discriminate|].
  injection H as <-. cbn [km_routing km_meta km_lpm km_domain]. repeat split; auto.
  intros ->. discriminate.
Qed.

Lemma be16_hdr s d : s < 65536 -> d < 65536 ->
  be16 (be16_bytes s ++ be16_bytes d) 0 = s /\ be16 (be16_bytes s ++ be16_bytes d) 2 = d.
Proof. intros Hs Hd. unfold be16, byte_at, be16_bytes. cbn [nth app Nat.add]. lia. Qed.

Lemma decode_route_ret r :
  decode_word (match r with Some (KWord w) => KWord w | Some (KErrno _) => KErrno K_EPERM | None => KErrno K_EPERM end)
  = loop_answer r.
Proof. destruct r as [[w|e]|]; reflexivity. Qed.

Lemma expected_d_dport dport u : expected_d (dport =? 53) u = expected dport u.
Proof. destruct u as [[[o mk] mu]|]; reflexivity. Qed.

Lemma bitmap_ok_facts w : bitmap_ok w = true -> List.length w = 32%nat /\ (forall x, In x w -> x < 4294967296).
Proof.
  unfold bitmap_ok. rewrite andb_true_iff. intros [H1 H2]. apply Nat.eqb_eq in H1. rewrite forallb_forall in H2.
  split; [exact H1|]. intros x Hx. specialize (H2 x Hx). change (2 ^ 32) with 4294967296 in H2. lia.
Qed.

Theorem kscan_scan_proof :
  forall (prev : kmaps) (ms : list mset) (tries : list (list prefix128)) (alloc : N) (dm : string -> list N)
         (pk : packet) (wan : bool) (km : kmaps),
    forallb (wf_mset (N.of_nat (List.length tries))) ms = true ->
    forallb (forallb wf_prefix) tries = true ->
    probe_ok pk wan = true ->
    bitmap_ok (dm (p_domain pk)) = true ->
    install prev ms tries alloc = Ok km ->
    let bm := if String.eqb (p_domain pk) "" then None else Some (dm (p_domain pk)) in
    kernel_decides prev ms tries alloc (dom_entry bm) pk wan
    = Ok (expected (p_dport pk) (user_answer (match_sets {| mt_sets := ms; mt_tries := tries |} dm (args_of_packet pk)))).
Proof.
  intros prev ms tries alloc dm pk wan km Hwf Hpx Hprobe Hbmok Hinst bm.
  unfold probe_ok in Hprobe. apply andb_true_iff in Hprobe as [Hpk Hlan0].
  assert (Hlan : wan = true \/ nth 0 (p_pname pk) 0 = 0).
  { destruct wan; [now left|right]. cbn [orb] in Hlan0. rewrite forallb_forall in Hlan0.
    destruct (nth_in_or_default 0 (p_pname pk) 0) as [Hi|Hd]; [|exact Hd].
    specialize (Hlan0 _ Hi). now apply N.eqb_eq in Hlan0. }
  unfold kernel_decides. rewrite Hinst. f_equal.
  destruct (install_facts _ _ _ _ _ Hinst Hwf) as (Hr & Hmeta & Hl & _ & Hct & Hcm & Hne).
  set (km' := {| km_routing := km_routing km; km_meta := km_meta km; km_lpm := km_lpm km;
                 km_domain := fun k => if list_eqb k (bytes_be 16 (p_dst pk)) then dom_entry bm else km_domain km k |}).
  assert (Pf : p_sport pk < 65536 /\ p_dport pk < 65536).
  { unfold wf_packet in Hpk. rewrite !andb_true_iff in Hpk. lia. }
  destruct Pf as [Psp Pdp]. destruct (be16_hdr _ _ Psp Pdp) as [Bs Bd].
  unfold k_route. cbn [kargs_of ka_flag ka_l4hdr]. rewrite Bs, Bd.
  change (km_meta km') with (km_meta km). rewrite Hmeta.
  destruct (N.leb_spec (N.of_nat (List.length ms)) K_MAX_MATCH_SET_LEN) as [_|Hbad]; [|change K_MAX_MATCH_SET_LEN with 1024 in Hbad; lia].
  rewrite Nat2N.id.
  assert (St0 : (if (p_dport pk =? 53) &&
                     ((byte_at [match p_l4 pk with TCP => K_L4ProtoType_TCP | UDP => K_L4ProtoType_UDP end;
                                match p_ipver pk with V4 => K_IpVersionType_4 | V6 => K_IpVersionType_6 end;
                                le32 (p_pname pk) 0; le32 (p_pname pk) 4; le32 (p_pname pk) 8; le32 (p_pname pk) 12;
                                p_dscp pk; b2n wan] 0 =? K_L4ProtoType_UDP)
                      || (byte_at [match p_l4 pk with TCP => K_L4ProtoType_TCP | UDP => K_L4ProtoType_UDP end;
                                   match p_ipver pk with V4 => K_IpVersionType_4 | V6 => K_IpVersionType_6 end;
                                   le32 (p_pname pk) 0; le32 (p_pname pk) 4; le32 (p_pname pk) 8; le32 (p_pname pk) 12;
                                   p_dscp pk; b2n wan] 0 =? K_L4ProtoType_TCP))
                 then K_ROUTE_STATE_DNS_QUERY else 0) = st_of false false false (p_dport pk =? 53)).
  { unfold byte_at. cbn [nth]. destruct (p_l4 pk), (p_dport pk =? 53); reflexivity. }
  rewrite St0. rewrite decode_route_ret.
  assert (Hbm : match bm with Some w => List.length w = 32%nat /\ (forall x, In x w -> x < 4294967296) | None => True end).
  { subst bm. destruct (String.eqb (p_domain pk) ""); [exact I|]. now apply bitmap_ok_facts. }
  pose proof (k_loop_scan tries alloc km' pk wan bm Hpk) as L.
  specialize (L (fun k t Hk => proj1 (forallb_forall _ _) Hpx t (nth_error_In _ _ Hk))).
  assert (Hlpm' : forall k t, nth_error tries k = Some t ->
            km_lpm km' (ring_slot MaxMatchSetLen alloc (N.of_nat k)) = Some (map key_of_prefix t)).
  { intros k t Hk. change (km_lpm km') with (km_lpm km). rewrite Hl.
    rewrite <- (N.add_0_l (N.of_nat k)). apply install_tries_get; [change MaxMatchSetLen with 1024; exact Hct | exact Hk]. }
  specialize (L Hlpm').
  assert (Hdom' : km_domain km' (bytes_be 16 (p_dst pk)) = dom_entry bm).
  { subst km'. cbn [km_domain]. now rewrite list_eqb_refl. }
  specialize (L Hdom' Hlan Hbm (N.of_nat (List.length tries)) (p_dport pk =? 53) ms (map (kentry alloc) ms) 0 false false false).
  rewrite L.
  - rewrite expected_d_dport. f_equal. f_equal. unfold match_sets. cbn [mt_sets mt_tries args_of_packet a_domain].
    destruct ms as [|m0 ms0]; [contradiction|]. reflexivity.
  - clear L. induction ms as [|m ms' IH]; cbn [map]; constructor.
    + cbn [forallb] in Hwf. apply andb_true_iff in Hwf as [H1 _]. now apply (encode_decode alloc _ m H1).
    + clear IH. cbn [forallb] in Hwf. apply andb_true_iff in Hwf as [_ H2].
      clear -H2. induction ms' as [|m' r IH]; cbn [map]; constructor.
      * cbn [forallb] in H2. apply andb_true_iff in H2 as [H1 _]. now apply (encode_decode alloc _ m' H1).
      * apply IH. cbn [forallb] in H2. now apply andb_true_iff in H2 as [_ H2].
  - exact Hwf.
  - apply N.le_refl.
  - lia.
  - intros k e Hk. rewrite N.add_0_l, Nat2N.id. change (km_routing km') with (km_routing km). rewrite Hr.
    assert (Hlt : (k < List.length (map (kentry alloc) ms))%nat) by (apply nth_error_Some; congruence).
    rewrite app_nth1 by exact Hlt. now apply nth_error_nth.
  - reflexivity.
  - intros Hcached. discriminate.
Qed.

(* ---------------------------------------------------------------------------------------------- *)
(* the side condition on probes matters: a LAN probe that carried a process name would be decided     *)
(* differently (the kernel compares names only on the WAN path)                                       *)
(* ---------------------------------------------------------------------------------------------- *)

Definition kscan_scan_statement (lan_has_no_name : bool) : Prop :=
  forall (prev : kmaps) (ms : list mset) (tries : list (list prefix128)) (alloc : N) (dm : string -> list N)
         (pk : packet) (wan : bool) (km : kmaps),
    forallb (wf_mset (N.of_nat (List.length tries))) ms = true ->
    forallb (forallb wf_prefix) tries = true ->
    (if lan_has_no_name then probe_ok pk wan = true else wf_packet pk = true) ->
    bitmap_ok (dm (p_domain pk)) = true ->
    install prev ms tries alloc = Ok km ->
    let bm := if String.eqb (p_domain pk) "" then None else Some (dm (p_domain pk)) in
    kernel_decides prev ms tries alloc (dom_entry bm) pk wan
    = Ok (expected (p_dport pk) (user_answer (match_sets {| mt_sets := ms; mt_tries := tries |} dm (args_of_packet pk)))).

Definition curl16 : list N := [99; 117; 114; 108] ++ repeat 0 12.

(* pname(X) -> block; fallback: direct *)
Definition pn_msets (name : list N) : list mset :=
  [ {| m_type := MatchType_ProcessName; m_not := false; m_out := 1; m_mark := 0; m_must := false; m_lpm := 0; m_ps := 0; m_pe := 0;
       m_mask := 0; m_pname := name; m_dscp := 0 |};
    {| m_type := MatchType_Fallback; m_not := false; m_out := 0; m_mark := 0; m_must := false; m_lpm := 0; m_ps := 0; m_pe := 0;
       m_mask := 0; m_pname := repeat 0 16; m_dscp := 0 |} ].
Definition pn_packet (name : list N) : packet :=
  {| p_src := 0xffff0a000001; p_dst := 0xffff01020304; p_sport := 40000; p_dport := 443; p_l4 := TCP; p_ipver := V4;
     p_domain := ""; p_regex_hits := []; p_pname := name; p_mac := 0; p_dscp := 0 |}.

Lemma kscan_scan_unrestricted_refuted_proof : ~ kscan_scan_statement false.
Proof.
  intros H.
  specialize (H empty_kmaps (pn_msets curl16) [] 0 (fun _ => repeat 0 32) (pn_packet curl16) false).
  destruct (install empty_kmaps (pn_msets curl16) [] 0) as [km|e] eqn:E; [|vm_compute in E; discriminate].
  specialize (H km eq_refl eq_refl eq_refl eq_refl eq_refl).
  vm_compute in H. discriminate.
Qed.

Lemma kscan_scan_statement_proof : kscan_scan_statement true.
Proof. exact kscan_scan_proof. Qed.

(* the four combinations of is_wan and name on the two programs pname('') and pname(curl):
   the empty name never matches (782ec41); a named WAN probe matches; only the LAN probe with a name - outside the
   quantifier - is decided differently *)
Lemma pname_combinations :
  let user ms pk := match_sets {| mt_sets := ms; mt_tries := [] |} (fun _ => []) (args_of_packet pk) in
  let z := repeat 0 16 in
  kernel_decides empty_kmaps (pn_msets z) [] 0 None (pn_packet z) true = Ok (Some (0, 0, false)) /\ user (pn_msets z) (pn_packet z) = Ok (0, 0, false) /\
  kernel_decides empty_kmaps (pn_msets z) [] 0 None (pn_packet z) false = Ok (Some (0, 0, false)) /\
  kernel_decides empty_kmaps (pn_msets curl16) [] 0 None (pn_packet curl16) true = Ok (Some (1, 0, false)) /\ user (pn_msets curl16) (pn_packet curl16) = Ok (1, 0, false) /\
  kernel_decides empty_kmaps (pn_msets curl16) [] 0 None (pn_packet z) true = Ok (Some (0, 0, false)) /\ user (pn_msets curl16) (pn_packet z) = Ok (0, 0, false) /\
  kernel_decides empty_kmaps (pn_msets curl16) [] 0 None (pn_packet curl16) false = Ok (Some (0, 0, false)) /\
  probe_ok (pn_packet curl16) false = false /\ probe_ok (pn_packet z) true = true /\ probe_ok (pn_packet z) false = true.
Proof. vm_compute. repeat split. Qed.

(* ---------------------------------------------------------------------------------------------- *)
(* ring, totality, tables                                                                           *)
(* ---------------------------------------------------------------------------------------------- *)

Lemma NoDup_map_on {A B} (f : A -> B) : forall l, NoDup l -> (forall x y, In x l -> In y l -> f x = f y -> x = y) -> NoDup (map f l).
Proof.
  induction l as [|x l IH]; intros Hn Hinj; cbn [map]; constructor.
  - inversion Hn as [|? ? Hx Hl]; subst. intros Hin. apply in_map_iff in Hin as (y & Hy & Hyl).
    assert (y = x) by (apply Hinj; [now right | now left | exact Hy]). subst. contradiction.
  - inversion Hn; subst. apply IH; [assumption|]. intros a b Ha Hb. apply Hinj; now right.
Qed.

Lemma ring_nodup alloc count : (count <= 1024)%nat ->
  NoDup (map (fun i => ring_slot MaxMatchSetLen alloc (N.of_nat i)) (seq 0 count)).
Proof.
  intros Hc. apply NoDup_map_on; [apply seq_NoDup|].
  intros x y Hx Hy E. apply in_seq in Hx. apply in_seq in Hy.
  apply Nat2N.inj. apply (ring_slot_inj alloc); change MaxMatchSetLen with 1024; try lia. exact E.
Qed.

Lemma install_total prev ms tries alloc :
  forallb (wf_mset (N.of_nat (List.length tries))) ms = true ->
  (List.length tries <= 1024)%nat -> (List.length ms <= 1024)%nat ->
  last (map m_type ms) 255 = MatchType_Fallback ->
  exists km, install prev ms tries alloc = Ok km.
Proof.
  intros Hwf Ht Hm Hf. unfold install. change MaxMatchSetLen with 1024.
  destruct (N.ltb_spec 1024 (N.of_nat (List.length tries))); [lia|].
  rewrite Hf, N.eqb_refl. cbn [negb].
  rewrite (rewrite_rules_kentry alloc _ _ ms Hwf (N.le_refl _)) by lia.
  rewrite map_length. destruct (N.ltb_spec 1024 (N.of_nat (List.length ms))); [lia|]. eexists. reflexivity.
Qed.

(* the byte layout and the enum values the model hard-codes are the ones both compilers report *)
Definition MODEL_TABLE : list (string * N) :=
  [("ms_size", 24); ("ms_value", 0); ("ms_not", 16); ("ms_type", 17); ("ms_outbound", 18); ("ms_must", 19); ("ms_mark", 20);
   ("lpm_size", 20); ("lpm_prefixlen", 0); ("lpm_data", 4); ("dr_size", 128); ("dr_bitmap", 0);
   ("pr_size", 4); ("pr_start", 0); ("pr_end", 2); ("max_match_set_len", MaxMatchSetLen); ("task_comm_len", TaskCommLen);
   ("MatchType_DomainSet", MatchType_DomainSet); ("MatchType_IpSet", MatchType_IpSet); ("MatchType_SourceIpSet", MatchType_SourceIpSet);
   ("MatchType_Port", MatchType_Port); ("MatchType_SourcePort", MatchType_SourcePort); ("MatchType_L4Proto", MatchType_L4Proto);
   ("MatchType_IpVersion", MatchType_IpVersion); ("MatchType_Mac", MatchType_Mac); ("MatchType_ProcessName", MatchType_ProcessName);
   ("MatchType_Dscp", MatchType_Dscp); ("MatchType_Fallback", MatchType_Fallback);
   ("OutboundDirect", OutboundDirect); ("OutboundBlock", OutboundBlock); ("OutboundMustRules", OutboundMustRules);
   ("OutboundControlPlaneRouting", OutboundControlPlaneRouting); ("OutboundLogicalOr", OutboundLogicalOr);
   ("OutboundLogicalAnd", OutboundLogicalAnd); ("OutboundLogicalMask", OutboundLogicalMask);
   ("L4ProtoType_TCP", L4ProtoType_TCP); ("L4ProtoType_UDP", L4ProtoType_UDP); ("IpVersion_4", IpVersion_4); ("IpVersion_6", IpVersion_6)]%string.

(* union members of struct match_set: all at offset 0; index u32, the two enums 4 bytes, pname 16 bytes, MatchType 1 byte;
   lpm_array_map has room for every ring slot *)
Definition MODEL_UNION_TABLE : list (string * N) :=
  [("ms_index", 0); ("ms_index_size", 4); ("ms_port_range", 0); ("ms_l4proto_type", 0); ("ms_l4proto_size", 4);
   ("ms_ip_version", 0); ("ms_ip_version_size", 4); ("ms_pname", 0); ("ms_pname_size", 16); ("ms_dscp", 0); ("ms_type_size", 1);
   ("max_lpm_num", 1032)]%string.

Definition table_eqb (a b : list (string * N)) : bool :=
  Nat.eqb (List.length a) (List.length b) &&
  forallb (fun xy : (string * N) * (string * N) => String.eqb (fst (fst xy)) (fst (snd xy)) && (snd (fst xy) =? snd (snd xy))) (combine a b).

Lemma enum_sync_proof :
  table_eqb C_TABLE GO_TABLE = true /\ table_eqb C_TABLE MODEL_TABLE = true /\ table_eqb C_UNION_TABLE MODEL_UNION_TABLE = true /\
  MaxMatchSetLen <= K_MAX_LPM_NUM /\ CONTROL_PLANE_ROUTING = OutboundControlPlaneRouting.
Proof. vm_compute. repeat split; discriminate. Qed.

(* non-vacuity: a generation with an LPM set, a port range, a domain set, must_rules and a fallback, installed after
   earlier reloads moved the ring to slot 1022 (so the two tries wrap around) *)
Definition ex_tries : list (list prefix128) :=
  [ [ {| px_v4 := true; px_addr := 0xffff0a000000; px_bits := 8 |} ]; [ {| px_v4 := false; px_addr := 0x20010db8000000000000000000000000; px_bits := 32 |} ];
    [ {| px_v4 := false; px_addr := 0x0242ac110002; px_bits := 128 |} ] ].
Definition ex_mk (t : N) (neg : bool) (o mark : N) (must : bool) (lpm ps pe mask : N) : mset :=
  {| m_type := t; m_not := neg; m_out := o; m_mark := mark; m_must := must; m_lpm := lpm; m_ps := ps; m_pe := pe; m_mask := mask;
     m_pname := repeat 0 16; m_dscp := 0 |}.
Definition ex_msets : list mset :=
  [ ex_mk MatchType_Port false OutboundMustRules 0 false 0 53 53 0;
    ex_mk MatchType_IpSet false OutboundLogicalOr 7 false 0 0 0 0;
    ex_mk MatchType_IpSet false OutboundLogicalAnd 7 false 1 0 0 0;
    ex_mk MatchType_L4Proto true 2 7 false 0 0 0 2;
    ex_mk MatchType_Mac false 3 0xffffffff true 2 0 0 0;
    ex_mk MatchType_DomainSet false 4 0 false 0 0 0 0;
    ex_mk MatchType_Fallback false 0 0 false 0 0 0 0 ].
Definition ex_pk (dst : N) (dport : N) (mac : N) (dom : string) : packet :=
  {| p_src := 0xffffc0a80101; p_dst := dst; p_sport := 50000; p_dport := dport; p_l4 := TCP; p_ipver := V4;
     p_domain := dom; p_regex_hits := []; p_pname := repeat 0 16; p_mac := mac; p_dscp := 0 |}.
Definition ex_dm (s : string) : list N := 32 :: repeat 0 31.   (* bit 5: the domain set at index 5 *)

Lemma nonvacuous_proof :
  forallb (wf_mset 3) ex_msets = true /\ forallb (forallb wf_prefix) ex_tries = true /\
  (exists km, install empty_kmaps ex_msets ex_tries 1022 = Ok km /\
              map (fun k => ms_index (nth k (km_routing km) [])) [1; 2; 4]%nat = [1022; 1023; 0]) /\
  kernel_decides empty_kmaps ex_msets ex_tries 1022 None (ex_pk 0xffff0a010203 443 0 "") false = Ok (Some (2, 7, false)) /\
  kernel_decides empty_kmaps ex_msets ex_tries 1022 None (ex_pk 0xffff0a010203 53 0 "") false = Ok (Some (2, 7, true)) /\
  kernel_decides empty_kmaps ex_msets ex_tries 1022 None (ex_pk 0xffff08080808 443 0x0242ac110002 "") false = Ok (Some (3, 0xffffffff, true)) /\
  kernel_decides empty_kmaps ex_msets ex_tries 1022 (dom_entry (Some (ex_dm ""))) (ex_pk 0xffff08080808 443 0 "x.org") false = Ok (Some (4, 0, false)) /\
  kernel_decides empty_kmaps ex_msets ex_tries 1022 None (ex_pk 0xffff08080808 443 0 "") false = Ok (Some (0, 0, false)) /\
  kernel_decides empty_kmaps ex_msets ex_tries 1022 None (ex_pk 0xffff08080808 53 0 "") false = Ok (Some (0, 0, true)) /\
  expected 53 (Some (0, 0, false)) = Some (CONTROL_PLANE_ROUTING, 0, false).
Proof. vm_compute. repeat split. eexists. split; reflexivity. Qed.
