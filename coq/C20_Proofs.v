(* C20 — proofs.  Generic in the tables T (hypothesis tables_ok T = true). *)
From Coq Require Import List NArith ZArith Bool Arith Lia.
From Dae Require Import C20_Spec C20_Model C20_Check.
From Dae.gen Require Import C20_ReloadPaths.
Import ListNotations.

#[local] Arguments sumf {A} f l : simpl never.

(* ------------------------------------------------------------------ lists *)
Lemma sumf_nil {A} (f : A -> nat) : sumf f [] = 0.
Proof. reflexivity. Qed.
Lemma sumf_cons {A} (f : A -> nat) x l : sumf f (x :: l) = f x + sumf f l.
Proof. reflexivity. Qed.
Lemma sumf_app {A} (f : A -> nat) l1 l2 : sumf f (l1 ++ l2) = sumf f l1 + sumf f l2.
Proof. induction l1; simpl; [reflexivity | rewrite !sumf_cons, IHl1; lia]. Qed.

Lemma upd_app_len {A} (l1 : list A) y l2 x : upd (l1 ++ y :: l2) (length l1) x = l1 ++ x :: l2.
Proof. induction l1; simpl; [reflexivity | rewrite IHl1; reflexivity]. Qed.

Lemma nth_error_mid {A} (l1 : list A) y l2 : nth_error (l1 ++ y :: l2) (length l1) = Some y.
Proof. induction l1; simpl; auto. Qed.

Lemma upd_length {A} (l : list A) i x : length (upd l i x) = length l.
Proof. revert i; induction l; destruct i; simpl; auto. Qed.

Lemma nth_split {A} (l : list A) i y : nth_error l i = Some y ->
  exists l1 l2, l = l1 ++ y :: l2 /\ i = length l1.
Proof.
  intro H. destruct (nth_error_split l i H) as (l1 & l2 & H1 & H2).
  exists l1, l2. split; auto.
Qed.

(* ------------------------------------------------------------------ histories *)
Lemma lock_run_app h0 h e :
  lock_run h0 (h ++ [e]) = match lock_run h0 h with Some x => lock_step x e | None => None end.
Proof.
  revert h0; induction h as [|a h IH]; intro h0; simpl.
  - destruct (lock_step h0 e); reflexivity.
  - destruct (lock_step h0 a); auto.
Qed.

Lemma mute_run_app d h e :
  mute_run d (h ++ [e]) = match mute_run d h with Some x => mute_run x [e] | None => None end.
Proof.
  revert d; induction h as [|a h IH]; intro d.
  - simpl app. destruct e; simpl; reflexivity.
  - destruct a; simpl; auto. destruct d; auto.
Qed.

(* ------------------------------------------------------------------ invariant *)
Definition sig_okb (pc : sigpc) : bool := match pc with S3 | S4 | S5 true => false | _ => true end.
Definition is_clear (p : prim) : bool :=
  match p with PStorePendingFalse | PEndSupp | PClearBusy => true | _ => false end.
Definition rs_okb (n : nat) (r : rstate) : bool :=
  match r with RWait d => Nat.ltb d n | RRun l => forallb is_clear l end.

Record CInv (s : state) : Prop := {
  ci_hold : holders s = (if pending s then 1 else 0);
  ci_mute : supp s = mute_owed s;
  ci_c : reloading s = true -> 1 <= handoff s \/ has_reset (m_prog s) = true;
  ci_f : 1 <= handoff s -> reloading s = true;
  ci_g : active s = true -> has_deact (w_prog s) = true \/ 1 <= handoff s \/ has_deact (m_prog s) = true;
  ci_pr : forall d, pend_ret s = Some d -> d < length (dones s);
  ci_rl : forallb (rs_okb (length (dones s))) (releasers s) = true;
  ci_wg : guarded (w_prog s) = true;
  ci_wd : deact_ok (w_prog s) = true;
  ci_mg : guarded (m_prog s) = true;
  ci_md : deact_ok (m_prog s) = true;
  ci_j : forallb sig_okb (sigs s) = true
}.

Definition Hist (s : state) : Prop :=
  lock_run false (history s) = Some (pending s) /\ mute_run 0 (history s) = Some (supp s).

Definition Inv (s : state) : Prop := Hist s /\ (exited s = false -> CInv s).

(* static predicates: inversion *)
Definition guard_side (p : prim) (l : list prim) : Prop :=
  match p with
  | PSetActive _ | PSetReloading false | PCoalesce => 1 <= relc l
  | PSetReloading true => False
  | _ => True
  end.

Lemma guarded_cons p l : guarded (p :: l) = true -> guard_side p l /\ guarded l = true.
Proof.
  simpl. intro H. apply andb_prop in H. destruct H as [H1 H2]. split; auto.
  destruct p as [b|b| | | |c| | | | | | | ]; simpl; auto; try (apply Nat.leb_le; exact H1).
  destruct b; [discriminate | apply Nat.leb_le; exact H1].
Qed.

Definition deact_side (p : prim) (l : list prim) : Prop :=
  match p with PSetActive true => existsb is_deact l = true | _ => True end.

Lemma deact_ok_cons p l : deact_ok (p :: l) = true -> deact_side p l /\ deact_ok l = true.
Proof.
  simpl. intro H. apply andb_prop in H. destruct H as [H1 H2]. split; auto.
  destruct p as [b|b| | | |c| | | | | | | ]; simpl; auto. destruct b; simpl; auto.
Qed.

Lemma rs_okb_mono n m r : n <= m -> rs_okb n r = true -> rs_okb m r = true.
Proof.
  destruct r; simpl; auto. intros H1 H2. apply Nat.ltb_lt in H2. apply Nat.ltb_lt. lia.
Qed.

Lemma rs_ok_mono n m l : n <= m -> forallb (rs_okb n) l = true -> forallb (rs_okb m) l = true.
Proof.
  intros H H1. rewrite forallb_forall in *. intros x Hx. eapply rs_okb_mono; eauto.
Qed.

(* ------------------------------------------------------------------ worker / main executing one step *)
Definition prog_of (who : bool) (s : state) : list prim := if who then w_prog s else m_prog s.
Definition set_prog (who : bool) (l : list prim) (s : state) : state :=
  if who then set_w_prog l s else set_m_prog l s.

Ltac bool_hyps :=
  repeat match goal with
  | H : _ && _ = true |- _ => apply andb_prop in H; destruct H
  end.

Ltac split_exec E s' pre :=
  simpl in E; unfold end_supp in E; simpl in E;
  repeat match type of E with context [match ?x with _ => _ end] => destruct x end;
  inversion E; subst s' pre; clear E.

Ltac fin_hist HL HM :=
  unfold Hist, history; simpl; rewrite ?lock_run_app, ?mute_run_app, ?HL, ?HM; simpl;
  split; try reflexivity; try (exfalso; lia).

Ltac fin_field Hrl Hpr :=
  unfold holders, mute_owed, has_deact, has_reset; simpl;
  rewrite ?sumf_app, ?forallb_app, ?app_length, ?sumf_cons, ?sumf_nil; simpl;
  rewrite ?Hrl; simpl; rewrite ?andb_true_r;
  try lia; try assumption; try reflexivity; try discriminate;
  try solve [intuition (auto; try lia; try discriminate)];
  try solve [let d := fresh "d" in let Hd := fresh "Hd" in intros d Hd; inversion Hd; subst; lia];
  try solve [eapply rs_ok_mono; [|eassumption]; lia];
  try solve [rewrite ?andb_true_r; apply Nat.ltb_lt; apply Hpr; reflexivity];
  try solve [bool_hyps; repeat (apply andb_true_intro; split); assumption].

Lemma agent_step T who s p ps s' pre :
  Hist s -> CInv s -> exited s = false ->
  prog_of who s = p :: ps -> exec_prim T s p = (s', pre) ->
  Hist (set_prog who (pre ++ ps) s') /\ (exited s' = false -> CInv (set_prog who (pre ++ ps) s')).
Proof.
  intros [HL HM] [Hh Hm Hc Hf Hg Hpr Hrl Hwg Hwd Hmg Hmd Hj] Hex Hp E.
  unfold holders, mute_owed, history, has_deact, has_reset in *.
  destruct s as [pe ac re su un no qu pr si wp ho mp prt dn rl ex tr rts nr].
  destruct who; simpl in Hp; simpl in Hex; subst ex.
  - (* worker *)
    subst wp.
    apply guarded_cons in Hwg. destruct Hwg as [Hws Hwg].
    apply deact_ok_cons in Hwd. destruct Hwd as [Hwds Hwd].
    destruct pe;
    destruct p as [b|b| | | |c| | | | | | | ]; try destruct b;
      simpl in *; try contradiction;
      try (match goal with H : 1 <= relc _ |- _ => destruct qu; [|exfalso; simpl in *; lia] end);
      split_exec E s' pre; try (exfalso; lia);
      (split; [fin_hist HL HM | intro Hex'; try discriminate; constructor; fin_field Hrl Hpr]).
  - (* main *)
    subst mp.
    apply guarded_cons in Hmg. destruct Hmg as [Hms Hmg].
    apply deact_ok_cons in Hmd. destruct Hmd as [Hmds Hmd].
    destruct pe;
    destruct p as [b|b| | | |c| | | | | | | ]; try destruct b;
      simpl in *; try contradiction;
      try (match goal with H : 1 <= relc _ |- _ => destruct qu; [|exfalso; simpl in *; lia] end);
      split_exec E s' pre; try (exfalso; lia);
      (split; [fin_hist HL HM | intro Hex'; try discriminate; constructor; fin_field Hrl Hpr]).
Qed.

(* ------------------------------------------------------------------ signal threads *)
Lemma sig_step_inv T s i :
  1 <= t_cap T -> Hist s -> CInv s -> Hist (sig_step T s i) /\ CInv (sig_step T s i).
Proof.
  intros Hcap [HL HM] C. unfold sig_step.
  destruct (nth_error (sigs s) i) as [pc|] eqn:E; [|split; [split|]; assumption].
  apply nth_split in E. destruct E as (l1 & l2 & E1 & E2).
  destruct C as [Hh Hm Hc Hf Hg Hpr Hrl Hwg Hwd Hmg Hmd Hj].
  unfold holders, mute_owed, history in *.
  destruct s as [pe ac re su un no qu pr si wp ho mp prt dn rl ex tr rts nr].
  simpl in *. subst si i.
  rewrite sumf_app, sumf_cons in Hh, Hm. rewrite forallb_app in Hj. simpl in Hj.
  destruct (t_cap T) as [|cap] eqn:Ecap; [lia|].
  destruct pe; destruct pc as [b|b|b| | |f| | ]; try destruct f; simpl in *;
    rewrite ?andb_false_r in Hj; try discriminate;
    try (destruct qu; [|exfalso; simpl in *; lia]); simpl;
    rewrite ?upd_app_len;
    try (split; [split|constructor]; assumption);
    (split; [fin_hist HL HM | constructor; fin_field Hrl Hpr]).
Qed.

(* ------------------------------------------------------------------ release goroutines *)
Lemma rel_step_inv T s r :
  Hist s -> CInv s -> Hist (rel_step T s r) /\ CInv (rel_step T s r).
Proof.
  intros [HL HM] C. assert (Keep : Hist s /\ CInv s) by (split; [split|]; assumption). unfold rel_step.
  destruct (nth_error (releasers s) r) as [y|] eqn:E; [|exact Keep].
  apply nth_split in E. destruct E as (l1 & l2 & E1 & E2).
  destruct C as [Hh Hm Hc Hf Hg Hpr Hrl Hwg Hwd Hmg Hmd Hj].
  unfold holders, mute_owed, history in *.
  destruct s as [pe ac re su un no qu pr si wp ho mp prt dn rl ex tr rts nr].
  simpl in *. subst rl r.
  rewrite sumf_app, sumf_cons in Hh, Hm. rewrite forallb_app in Hrl. simpl in Hrl.
  destruct y as [d|[|p ps]].
  - destruct (nth d dn false); [|exact Keep].
    rewrite upd_app_len.
    destruct pe; simpl in *; (split; [fin_hist HL HM | constructor; fin_field Hrl Hpr]).
  - exact Keep.
  - unfold prog_step.
    destruct p; simpl in Hrl; rewrite ?andb_false_r in Hrl; try discriminate;
    destruct pe; simpl in *; unfold end_supp; simpl;
    try (destruct su as [|su]; [exfalso; lia|]; destruct (Nat.eqb su 0));
    try (destruct (fst pr));
    simpl; rewrite ?upd_app_len;
    try (exfalso; lia);
    (split; [fin_hist HL HM | constructor; fin_field Hrl Hpr]).
Qed.

(* ------------------------------------------------------------------ what tables_ok gives *)
Lemma tables_worker T k path :
  tables_ok T = true -> nth_error (t_worker T) k = Some path ->
  relc (expand path) = 1 /\ endc (expand path) = 1 /\
  guarded (expand path) = true /\ deact_ok (expand path) = true.
Proof.
  unfold tables_ok. intros H E. bool_hyps.
  rewrite forallb_forall in H. specialize (H path (nth_error_In _ _ E)).
  unfold worker_path_ok in H. bool_hyps.
  repeat split; try assumption; apply Nat.eqb_eq; assumption.
Qed.

Lemma tables_main T k path :
  tables_ok T = true -> nth_error (t_main T) k = Some path ->
  relc (expand path) = 1 /\ endc (expand path) = 1 /\
  guarded (expand path) = true /\ deact_ok (expand path) = true /\
  has_deact (expand path) = true /\ has_reset (expand path) = true /\
  existsb is_handoff (expand path) = false.
Proof.
  unfold tables_ok. intros H E. bool_hyps.
  match goal with H : forallb main_path_ok _ = true |- _ =>
    rewrite forallb_forall in H; specialize (H path (nth_error_In _ _ E));
    unfold main_path_ok in H end.
  bool_hyps.
  repeat split; try assumption; try (apply Nat.eqb_eq; assumption).
  apply negb_true_iff; assumption.
Qed.

Lemma tables_cap T : tables_ok T = true -> 1 <= t_cap T.
Proof. unfold tables_ok. intro H. bool_hyps. apply Nat.leb_le. assumption. Qed.

Lemma tables_w0 T : tables_ok T = true -> exists path, nth_error (t_worker T) 0 = Some path.
Proof.
  unfold tables_ok. intro H. bool_hyps. destruct (t_worker T) as [|p l]; [discriminate|].
  exists p; reflexivity.
Qed.

Lemma tables_m0 T : tables_ok T = true -> exists path, nth_error (t_main T) 0 = Some path.
Proof.
  unfold tables_ok. intro H. bool_hyps. destruct (t_main T) as [|p l]; [discriminate|].
  exists p; reflexivity.
Qed.

(* ------------------------------------------------------------------ one step *)
Lemma exited_sig_step T s i : exited (sig_step T s i) = exited s.
Proof.
  unfold sig_step. destruct (nth_error (sigs s) i) as [pc|]; [|reflexivity].
  destruct pc; try reflexivity; simpl.
  - destruct (pending s); reflexivity.
  - destruct (Nat.ltb (length (queue s)) (t_cap T)); reflexivity.
  - unfold end_supp. destruct (supp s); [reflexivity|]. destruct (Nat.eqb n 0); reflexivity.
Qed.

Ltac ret_cases :=
  unfold ret_step;
  repeat match goal with |- context [match ?x with _ => _ end] => destruct x end.

Lemma step_inv T s a : tables_ok T = true -> Inv s -> Inv (step T s a).
Proof.
  intros HT [H C]. assert (Keep : Inv s) by (split; assumption).
  unfold step. destruct (exited s) eqn:Hex; [exact Keep|].
  specialize (C eq_refl).
  destruct a as [b|i|k| |k| |d|p|d|n|r| ].
  - (* ASignal *)
    destruct H as [HL HM]. destruct C as [Hh Hm Hc Hf Hg Hpr Hrl Hwg Hwd Hmg Hmd Hj].
    unfold holders, mute_owed in *.
    split; [split; assumption|]. intros _. constructor; fin_field Hrl Hpr.
  - (* ASig *)
    destruct (sig_step_inv T s i (tables_cap T HT) H C) as [H1 H2]. split; auto.
  - (* AWorkerTake *)
    destruct (w_prog s) eqn:Ew; [|exact Keep].
    destruct (queue s) as [|q0 q'] eqn:Eq; [exact Keep|].
    destruct (nth_error (t_worker T) k) as [path|] eqn:Ep; [|exact Keep].
    destruct (tables_worker T k path HT Ep) as (R1 & R2 & R3 & R4).
    destruct H as [HL HM]. destruct C as [Hh Hm Hc Hf Hg Hpr Hrl Hwg Hwd Hmg Hmd Hj].
    unfold holders, mute_owed in *. rewrite Ew, Eq in *.
    split; [split; assumption|]. intros _. constructor; fin_field Hrl Hpr; rewrite ?R1, ?R2; simpl in *; try lia.
  - (* AWorker *)
    destruct (w_prog s) as [|p ps] eqn:Ew; [exact Keep|].
    unfold prog_step. destruct (exec_prim T s p) as [s' pre] eqn:E.
    exact (agent_step T true s p ps s' pre H C Hex Ew E).
  - (* AMainStart *)
    destruct (m_prog s) eqn:Em; [|exact Keep].
    destruct (reloading s) eqn:Er; [|exact Keep].
    destruct (nth_error (t_main T) k) as [path|] eqn:Ep; [|exact Keep].
    destruct (tables_main T k path HT Ep) as (R1 & R2 & R3 & R4 & R5 & R6 & R7).
    destruct H as [HL HM]. destruct C as [Hh Hm Hc Hf Hg Hpr Hrl Hwg Hwd Hmg Hmd Hj].
    rewrite Em in *. destruct (Hc Er) as [Hho|Hho]; [|discriminate].
    destruct (handoff s) as [|ho'] eqn:Eh; [lia|].
    unfold holders, mute_owed in *. rewrite Em, Eh in *.
    split; [split; assumption|]. intros _. constructor; fin_field Hrl Hpr; rewrite ?R1, ?R2; simpl in *; try lia.
  - (* AMain *)
    destruct (m_prog s) as [|p ps] eqn:Ew; [exact Keep|].
    unfold prog_step. destruct (exec_prim T s p) as [s' pre] eqn:E.
    exact (agent_step T false s p ps s' pre H C Hex Ew E).
  - (* ARetire *)
    destruct H as [HL HM]. destruct C as [Hh Hm Hc Hf Hg Hpr Hrl Hwg Hwd Hmg Hmd Hj].
    unfold holders, mute_owed in *. ret_cases; try exact Keep;
    (split; [split; assumption|]); intros _; constructor; fin_field Hrl Hpr; rewrite ?upd_length; try assumption.
  - (* AEnvRetire *)
    destruct H as [HL HM]. destruct C as [Hh Hm Hc Hf Hg Hpr Hrl Hwg Hwd Hmg Hmd Hj].
    split; [split; assumption|]. intros _. constructor; assumption.
  - (* ASessionsEnd *)
    destruct H as [HL HM]. destruct C as [Hh Hm Hc Hf Hg Hpr Hrl Hwg Hwd Hmg Hmd Hj].
    destruct (nth_error (rets s) d); [|exact Keep].
    split; [split; assumption|]. intros _. constructor; assumption.
  - (* AAdvance *)
    destruct H as [HL HM]. destruct C as [Hh Hm Hc Hf Hg Hpr Hrl Hwg Hwd Hmg Hmd Hj].
    split; [split; assumption|]. intros _. constructor; assumption.
  - (* AReleaser *)
    destruct (rel_step_inv T s r H C) as [H1 H2]. split; auto.
  - (* ATick *)
    destruct H as [HL HM]. destruct C as [Hh Hm Hc Hf Hg Hpr Hrl Hwg Hwd Hmg Hmd Hj].
    split; [split; assumption|]. intros _. constructor; assumption.
Qed.

(* ------------------------------------------------------------------ runs *)
Lemma run_from_app T s l1 l2 : run_from T s (l1 ++ l2) = run_from T (run_from T s l1) l2.
Proof. unfold run_from. apply fold_left_app. Qed.

Lemma init_inv : Inv init_state.
Proof.
  split; [split; reflexivity|]. intros _.
  constructor; simpl; try reflexivity; try discriminate; try lia; intros; try discriminate; try lia.
Qed.

Lemma run_from_inv T s sched : tables_ok T = true -> Inv s -> Inv (run_from T s sched).
Proof.
  intro HT. revert s. induction sched as [|a l IH]; intros s H; [exact H|].
  simpl. apply IH. apply step_inv; assumption.
Qed.

Lemma run_inv T sched : tables_ok T = true -> Inv (run T sched).
Proof. intro HT. apply run_from_inv; [assumption | apply init_inv]. Qed.

(* the signal threads never reach the failed-send branch, also after exit *)
Definition J (s : state) : Prop := forallb sig_okb (sigs s) = true.

Lemma exec_prim_sigs T s p s' pre : exec_prim T s p = (s', pre) -> sigs s' = sigs s.
Proof.
  destruct p; simpl; unfold end_supp;
    repeat match goal with |- context [match ?x with _ => _ end] => destruct x end;
    intro E; inversion E; reflexivity.
Qed.

Lemma rel_step_sigs T s r : sigs (rel_step T s r) = sigs s.
Proof.
  unfold rel_step. destruct (nth_error (releasers s) r) as [[d|[|p ps]]|]; try reflexivity.
  - destruct (nth d (dones s) false); reflexivity.
  - unfold prog_step. destruct (exec_prim T s p) as [s' pre] eqn:E. simpl.
    eapply exec_prim_sigs; eassumption.
Qed.

Lemma J_step T s a : tables_ok T = true -> Inv s -> J s -> J (step T s a).
Proof.
  intros HT [H C] HJ. unfold step. destruct (exited s) eqn:Hex; [exact HJ|].
  specialize (C eq_refl). unfold J in *.
  destruct a as [b|i|k| |k| |d|p|d|n|r| ]; simpl.
  - rewrite forallb_app, HJ. reflexivity.
  - destruct (sig_step_inv T s i (tables_cap T HT) H C) as [_ H2]. apply H2.
  - destruct (w_prog s); [|exact HJ]. destruct (queue s); [exact HJ|].
    destruct (nth_error (t_worker T) k); exact HJ.
  - destruct (w_prog s) as [|p ps]; [exact HJ|]. unfold prog_step.
    destruct (exec_prim T s p) as [s' pre] eqn:E. simpl.
    rewrite (exec_prim_sigs _ _ _ _ _ E). exact HJ.
  - destruct (m_prog s); [|exact HJ]. destruct (reloading s); [|exact HJ].
    destruct (nth_error (t_main T) k); exact HJ.
  - destruct (m_prog s) as [|p ps]; [exact HJ|]. unfold prog_step.
    destruct (exec_prim T s p) as [s' pre] eqn:E. simpl.
    rewrite (exec_prim_sigs _ _ _ _ _ E). exact HJ.
  - ret_cases; exact HJ.
  - exact HJ.
  - destruct (nth_error (rets s) d); exact HJ.
  - exact HJ.
  - rewrite rel_step_sigs. exact HJ.
  - exact HJ.
Qed.

Lemma run_from_J T s sched : tables_ok T = true -> Inv s -> J s -> J (run_from T s sched).
Proof.
  intro HT. revert s. induction sched as [|a l IH]; intros s H HJ; [exact HJ|].
  simpl. apply IH; [apply step_inv | apply J_step]; assumption.
Qed.

(* the quiesce timer *)
Definition Q (T : tables) (s : state) : Prop := (until s <= now s + t_quiesce T)%N.

Lemma end_supp_Q T s : Q T s -> Q T (end_supp (t_quiesce T) s).
Proof.
  unfold Q, end_supp. intro H. destruct (supp s) as [|n]; [exact H|].
  destruct (Nat.eqb n 0); simpl; [lia | exact H].
Qed.

Lemma exec_prim_Q T s p s' pre : Q T s -> exec_prim T s p = (s', pre) -> Q T s'.
Proof.
  intros H E. destruct p; simpl in E;
    try (inversion E; subst s' pre; exact H).
  - inversion E; subst s' pre. apply end_supp_Q; exact H.
  - destruct (fst (progress s)); inversion E; subst s' pre; exact H.
  - destruct (pend_ret s); inversion E; subst s' pre; exact H.
Qed.

Lemma step_Q T s a : Q T s -> Q T (step T s a).
Proof.
  intro H. unfold step. destruct (exited s); [exact H|].
  destruct a as [b|i|k| |k| |d|p|d|n|r| ].
  - exact H.
  - unfold sig_step. destruct (nth_error (sigs s) i) as [pc|]; [|exact H].
    destruct pc; try exact H.
    + destruct (pending s); exact H.
    + destruct (Nat.ltb (length (queue s)) (t_cap T)); exact H.
    + apply (end_supp_Q T s H).
  - destruct (w_prog s); [|exact H]. destruct (queue s); [exact H|].
    destruct (nth_error (t_worker T) k); exact H.
  - destruct (w_prog s) as [|p ps]; [exact H|]. unfold prog_step.
    destruct (exec_prim T s p) as [s' pre] eqn:E. exact (exec_prim_Q _ _ _ _ _ H E).
  - destruct (m_prog s); [|exact H]. destruct (reloading s); [|exact H].
    destruct (nth_error (t_main T) k); exact H.
  - destruct (m_prog s) as [|p ps]; [exact H|]. unfold prog_step.
    destruct (exec_prim T s p) as [s' pre] eqn:E. exact (exec_prim_Q _ _ _ _ _ H E).
  - ret_cases; exact H.
  - exact H.
  - destruct (nth_error (rets s) d); exact H.
  - unfold Q in *. simpl. lia.
  - unfold rel_step. destruct (nth_error (releasers s) r) as [[d0|[|p ps]]|]; try exact H.
    + destruct (nth d0 (dones s) false); exact H.
    + unfold prog_step. destruct (exec_prim T s p) as [s' pre] eqn:E.
      exact (exec_prim_Q _ _ _ _ _ H E).
  - unfold Q in *. simpl. lia.
Qed.

(* ------------------------------------------------------------------ settled states *)
Lemma sig_done_zero l : forallb sig_done l = true -> sumf sig_rel l = 0 /\ sumf sig_end l = 0.
Proof.
  induction l as [|a l IH]; simpl; [split; reflexivity|].
  intro H. apply andb_prop in H. destruct H as [H1 H2]. destruct (IH H2) as [I1 I2].
  rewrite !sumf_cons, I1, I2. destruct a; try discriminate; split; reflexivity.
Qed.

Lemma rs_done_zero l : forallb rs_done l = true -> sumf rs_rel l = 0 /\ sumf rs_end l = 0.
Proof.
  induction l as [|a l IH]; simpl; [split; reflexivity|].
  intro H. apply andb_prop in H. destruct H as [H1 H2]. destruct (IH H2) as [I1 I2].
  rewrite !sumf_cons, I1, I2. destruct a as [d|[|p ps]]; try discriminate; split; reflexivity.
Qed.

Lemma settled_free_inv s :
  CInv s -> settled s = true ->
  pending s = false /\ supp s = 0 /\ active s = false /\ reloading s = false.
Proof.
  intros [Hh Hm Hc Hf Hg Hpr Hrl Hwg Hwd Hmg Hmd Hj] Hs.
  unfold settled in Hs. bool_hyps.
  repeat match goal with H : Nat.eqb _ _ = true |- _ => apply Nat.eqb_eq in H end.
  match goal with H : forallb sig_done _ = true |- _ => destruct (sig_done_zero _ H) as [Z1 Z2] end.
  match goal with H : forallb rs_done _ = true |- _ => destruct (rs_done_zero _ H) as [Z3 Z4] end.
  unfold holders, mute_owed in *.
  destruct (w_prog s); [|discriminate]. destruct (m_prog s); [|discriminate].
  simpl in *.
  split; [destruct (pending s); [lia|reflexivity]|].
  split; [lia|].
  split.
  - destruct (active s); [|reflexivity].
    destruct (Hg eq_refl) as [G|[G|G]]; try discriminate; lia.
  - destruct (reloading s); [|reflexivity].
    destruct (Hc eq_refl) as [G|G]; try discriminate; lia.
Qed.

Lemma nth_error_forallb {A} (f : A -> bool) l i x :
  forallb f l = true -> nth_error l i = Some x -> f x = true.
Proof. intros H E. rewrite forallb_forall in H. apply H. eapply nth_error_In; eassumption. Qed.

(* ------------------------------------------------------------------ retirement goroutines *)
Definition is_cd (x : tail_step) : bool := match x with TCloseDone => true | _ => false end.
(* b: whether the done channel of this retirement is closed *)
Definition rd_rel (r : retirement) (b : bool) : Prop :=
  (b = true -> rt_closed r = true) /\
  match rt_pc_of r with
  | RtDone => b = true
  | _ => if existsb is_cd (rt_tail r) then tail_ok (rt_closed r) (rt_tail r) = true else b = true
  end.
Definition rt_ok (T : tables) (no : N) (r : retirement) : Prop :=
  (0 <= rt_budget r <= Z.max 0 (t_budget_total T))%Z /\
  rt_pc_of r <> RtWait None /\
  (forall dl, rt_pc_of r = RtWait (Some dl) -> (dl <= no + Z.to_N (rt_budget r))%N) /\
  length (rt_tail r) <= length (t_ret_tail T).
Definition R (T : tables) (s : state) : Prop :=
  Forall2 rd_rel (rets s) (dones s) /\ Forall (rt_ok T (now s)) (rets s).

Lemma Forall2_upd_l {A B} (P : A -> B -> Prop) l1 l2 i r x :
  Forall2 P l1 l2 -> nth_error l1 i = Some r -> (forall y, P r y -> P x y) ->
  Forall2 P (upd l1 i x) l2.
Proof.
  intros H. revert i. induction H as [|a b l m Hab H IH]; intros i E Hx; [destruct i; discriminate|].
  destruct i as [|i]; simpl in *.
  - inversion E; subst. constructor; auto.
  - constructor; auto.
Qed.

Lemma Forall2_upd_both {A B} (P : A -> B -> Prop) l1 l2 i x y :
  Forall2 P l1 l2 -> P x y -> Forall2 P (upd l1 i x) (upd l2 i y).
Proof.
  intros H Hxy. revert i. induction H as [|a b l m Hab H IH]; intros i; simpl; [constructor|].
  destruct i as [|i]; constructor; auto.
Qed.

Lemma Forall_upd {A} (P : A -> Prop) l i x : Forall P l -> P x -> Forall P (upd l i x).
Proof.
  intros H Hx. revert i. induction H as [|a l Ha H IH]; intros i; simpl; [constructor|].
  destruct i as [|i]; constructor; auto.
Qed.

Lemma Forall2_nth {A B} (P : A -> B -> Prop) l1 l2 i r :
  Forall2 P l1 l2 -> nth_error l1 i = Some r -> exists b, nth_error l2 i = Some b /\ P r b.
Proof.
  intros H. revert i. induction H as [|a b l m Hab H IH]; intros i E; [destruct i; discriminate|].
  destruct i as [|i]; simpl in *.
  - inversion E; subst. exists b. split; auto.
  - apply IH; assumption.
Qed.

Lemma F2_length {A B} (P : A -> B -> Prop) l1 l2 : Forall2 P l1 l2 -> length l1 = length l2.
Proof. intro H. induction H; simpl; congruence. Qed.

Lemma nth_of_nth_error {A} (l : list A) i x d : nth_error l i = Some x -> nth i l d = x.
Proof. revert i; induction l; destruct i; simpl; intro H; try discriminate; [inversion H; reflexivity | auto]. Qed.

Lemma nth_error_lt {A} (l : list A) i : i < length l -> exists x, nth_error l i = Some x.
Proof.
  revert i; induction l; intros i H; simpl in *; [lia|].
  destruct i; [eexists; reflexivity | apply IHl; lia].
Qed.

Lemma nth_error_some_lt {A} (l : list A) i x : nth_error l i = Some x -> i < length l.
Proof. intro H. apply nth_error_Some. rewrite H. discriminate. Qed.

Lemma nth_upd_same {A} (l : list A) i x d : i < length l -> nth i (upd l i x) d = x.
Proof. revert i; induction l; intros i H; simpl in *; [lia|]. destruct i; simpl; [reflexivity | apply IHl; lia]. Qed.

Lemma nth_upd_true l i j : nth j l false = true -> nth j (upd l i true) false = true.
Proof.
  revert i j; induction l; intros i j H; simpl in *; [destruct j; discriminate|].
  destruct i, j; simpl in *; auto.
Qed.

Lemma cancel_last_cons r l :
  cancel_last (r :: l) = match l with [] => [rt_cancel r] | _ => r :: cancel_last l end.
Proof. destruct l; reflexivity. Qed.

Lemma cancel_last_F2 l m : Forall2 rd_rel l m -> Forall2 rd_rel (cancel_last l) m.
Proof.
  intro H. induction H as [|a b l m Hab H IH]; [constructor|].
  rewrite cancel_last_cons. destruct l as [|a' l'].
  - inversion H; subst. constructor; [exact Hab | constructor].
  - constructor; assumption.
Qed.

Lemma cancel_last_F (P : retirement -> Prop) l :
  (forall r, P r -> P (rt_cancel r)) -> Forall P l -> Forall P (cancel_last l).
Proof.
  intros HP H. induction H as [|a l Ha H IH]; [constructor|].
  rewrite cancel_last_cons. destruct l as [|a' l']; constructor; auto.
Qed.

Lemma cancel_last_sumf (f : retirement -> nat) l :
  (forall r, f (rt_cancel r) = f r) -> sumf f (cancel_last l) = sumf f l.
Proof.
  intro Hf. induction l as [|a l IH]; [reflexivity|].
  rewrite cancel_last_cons. destruct l as [|a' l'].
  - rewrite !sumf_cons, Hf. reflexivity.
  - rewrite !sumf_cons, IH. rewrite !sumf_cons. reflexivity.
Qed.

Lemma timer_armed_total g w : guard_total g = true -> (0 <= w)%Z -> timer_armed g w = true.
Proof. destruct g; simpl; intros H Hw; try discriminate; [reflexivity | apply Z.leb_le; exact Hw]. Qed.

Lemma remaining_budget_range B e z : (0 <= remaining_budget B e z <= Z.max 0 B)%Z.
Proof.
  unfold remaining_budget.
  destruct (Z.leb_spec B 0); [lia|]. destruct z; [lia|].
  destruct (Z.ltb_spec (B - Z.of_N e) 0); lia.
Qed.

Lemma rt_ok_mono T no no' r : (no <= no')%N -> rt_ok T no r -> rt_ok T no' r.
Proof.
  intros Hn (H1 & H2 & H3 & H4). split; [exact H1|]. split; [exact H2|]. split; [|exact H4].
  intros dl E. specialize (H3 dl E). lia.
Qed.

Lemma rt_ok_all_mono T no no' l : (no <= no')%N -> Forall (rt_ok T no) l -> Forall (rt_ok T no') l.
Proof. intros Hn H. eapply Forall_impl; [|exact H]. intros r Hr. eapply rt_ok_mono; eassumption. Qed.

Lemma tables_guard T : tables_ok T = true -> guard_total (t_timer_guard T) = true.
Proof. unfold tables_ok. intro H. bool_hyps. assumption. Qed.

Lemma tables_tail T : tables_ok T = true -> tail_ok false (t_ret_tail T) = true.
Proof. unfold tables_ok. intro H. bool_hyps. assumption. Qed.

Lemma tail_ok_cd c l : tail_ok c l = true -> existsb is_cd l = true.
Proof.
  revert c. induction l as [|x l IH]; intros c H; simpl in *; [discriminate|].
  destruct x; simpl; eauto.
Qed.

Lemma exec_prim_R T s p s' pre :
  tail_ok false (t_ret_tail T) = true -> R T s -> exec_prim T s p = (s', pre) -> R T s'.
Proof.
  intros HTl H E. destruct p; simpl in E;
    try (inversion E; subst s' pre; exact H).
  - inversion E; subst s' pre. unfold end_supp. destruct (supp s) as [|n]; [exact H|].
    destruct (Nat.eqb n 0); exact H.
  - destruct (fst (progress s)); inversion E; subst s' pre; exact H.
  - inversion E; subst s' pre. destruct H as [H1 H2]. unfold R. simpl. split.
    + apply Forall2_app; [apply cancel_last_F2; exact H1|].
      constructor; [|constructor]. split; [intro X; discriminate X|]. simpl.
      rewrite (tail_ok_cd _ _ HTl). exact HTl.
    + apply Forall_app. split.
      * apply cancel_last_F; [|exact H2]. intros r Hr. exact Hr.
      * constructor; [|constructor]. split; [apply remaining_budget_range|].
        split; [discriminate|]. split; [intros dl X; discriminate X|]. simpl. lia.
  - destruct (pend_ret s); inversion E; subst s' pre; exact H.
Qed.

(* one step of a retirement goroutine, as a function on its record *)
Definition ret_next (T : tables) (no : N) (r : retirement) : retirement :=
  match rt_pc_of r with
  | RtInit =>
      if rt_abort r || negb (rt_overlap r) || Nat.eqb (rt_sessions r) 0
      then set_rt_pc RtTail r
      else set_rt_pc (RtWait (if timer_armed (t_timer_guard T) (rt_budget r)
                              then Some (no + Z.to_N (rt_budget r))%N else None)) r
  | RtWait dl =>
      if rt_cancelled r || rt_idle r || match dl with Some t => (t <=? no)%N | None => false end
      then set_rt_pc RtTail r else r
  | RtTail =>
      match rt_tail r with
      | [] => set_rt_pc RtDone r
      | TCloseDone :: rest => rt_advance false rest r
      | TCloseGen :: rest => rt_advance true rest r
      | _ :: rest => rt_advance false rest r
      end
  | RtDone => r
  end.
Definition ret_closes (r : retirement) : bool :=
  match rt_pc_of r, rt_tail r with RtTail, TCloseDone :: _ => true | _, _ => false end.

Lemma upd_same {A} (l : list A) i x : nth_error l i = Some x -> upd l i x = l.
Proof.
  revert i; induction l as [|a l IH]; intros i H; [reflexivity|].
  destruct i; simpl in *; [inversion H; reflexivity | rewrite (IH _ H); reflexivity].
Qed.

Lemma state_eta s : s = set_rets (rets s) (set_dones (dones s) s).
Proof. destruct s; reflexivity. Qed.

Lemma ret_view T s d r :
  nth_error (rets s) d = Some r ->
  ret_step T s d =
  set_rets (upd (rets s) d (ret_next T (now s) r))
    (set_dones (if ret_closes r then upd (dones s) d true else dones s) s).
Proof.
  intro E. unfold ret_step, ret_next, ret_closes. rewrite E.
  destruct (rt_pc_of r) as [|dl| |].
  - destruct (rt_abort r || negb (rt_overlap r) || Nat.eqb (rt_sessions r) 0);
      destruct s; reflexivity.
  - destruct (rt_cancelled r || rt_idle r || match dl with Some t => (t <=? now s)%N | None => false end).
    + destruct s; reflexivity.
    + rewrite (upd_same _ _ _ E). apply state_eta.
  - destruct (rt_tail r) as [|x rest]; [destruct s; reflexivity|].
    destruct x; destruct s; reflexivity.
  - rewrite (upd_same _ _ _ E). apply state_eta.
Qed.

Ltac rtok :=
  unfold rt_ok; simpl;
  split; [assumption|
  split; [try discriminate; try assumption|
  split; [try (let dl := fresh in let X := fresh in intros dl X; discriminate X); try assumption
         | try assumption; try (simpl in *; lia)]]].

Lemma ret_next_ok T no r :
  guard_total (t_timer_guard T) = true -> rt_ok T no r -> rt_ok T no (ret_next T no r).
Proof.
  intros HG (B1 & B2 & B3 & B4). unfold ret_next.
  destruct r as [pc ab ov B se idl can cl tl]. simpl in *.
  destruct pc as [|dl| |]; simpl.
  - destruct (ab || negb ov || Nat.eqb se 0); simpl.
    + rtok.
    + rewrite (timer_armed_total _ _ HG (proj1 B1)). rtok.
      intros dl X. inversion X. subst dl. apply N.le_refl.
  - destruct (can || idl || match dl with Some t => (t <=? no)%N | None => false end); simpl; rtok.
  - destruct tl as [|x rest]; [|destruct x]; simpl in *; rtok.
  - rtok.
Qed.

Lemma ret_next_rel T no r b :
  rd_rel r b -> rd_rel (ret_next T no r) (if ret_closes r then true else b).
Proof.
  unfold rd_rel, ret_next, ret_closes.
  destruct r as [pc ab ov B se idl can cl tl]. simpl.
  destruct pc as [|dl| |]; simpl.
  - intros [H1 H2]. destruct (ab || negb ov || Nat.eqb se 0); simpl; split; assumption.
  - intros [H1 H2].
    destruct (can || idl || match dl with Some t => (t <=? no)%N | None => false end); simpl; split; assumption.
  - intros [H1 H2]. destruct tl as [|x rest]; simpl in *; [split; assumption|].
    destruct x; simpl in *; rewrite ?orb_false_r, ?orb_true_r.
    + split; assumption.
    + split; [reflexivity|]. destruct (existsb is_cd rest); assumption.
    + split; assumption.
    + apply andb_prop in H2. destruct H2 as [H2 H3]. apply negb_true_iff in H3.
      split; [intros _; exact H2|]. change (existsb is_cd rest) with (existsb (fun x => match x with TCloseDone => true | _ => false end) rest). rewrite H3. reflexivity.
    + split; assumption.
  - intros H; exact H.
Qed.

Lemma ret_step_R T s d : guard_total (t_timer_guard T) = true -> R T s -> R T (ret_step T s d).
Proof.
  intros HG [H1 H2].
  destruct (nth_error (rets s) d) as [r|] eqn:E; [|unfold ret_step; rewrite E; split; assumption].
  rewrite (ret_view T s d r E).
  assert (Hr : rt_ok T (now s) r).
  { rewrite Forall_forall in H2. apply H2. eapply nth_error_In; eassumption. }
  destruct (Forall2_nth _ _ _ _ _ H1 E) as (b0 & Eb & Hb).
  pose proof (ret_next_rel T (now s) r b0 Hb) as Hn.
  split; simpl.
  - destruct (ret_closes r) eqn:Ec.
    + apply Forall2_upd_both; assumption.
    + eapply Forall2_upd_l; [exact H1 | exact E |]. intros y Hy.
      pose proof (ret_next_rel T (now s) r y Hy) as Hn'. rewrite Ec in Hn'. exact Hn'.
  - apply Forall_upd; [exact H2|]. apply ret_next_ok; assumption.
Qed.

Lemma R_step T s a : tables_ok T = true -> R T s -> R T (step T s a).
Proof.
  intros HT H. unfold step. destruct (exited s); [exact H|].
  destruct a as [b|i|k| |k| |d|p|d|n|r| ].
  - exact H.
  - unfold sig_step. destruct (nth_error (sigs s) i) as [pc|]; [|exact H].
    destruct pc; try exact H.
    + destruct (pending s); exact H.
    + destruct (Nat.ltb (length (queue s)) (t_cap T)); exact H.
    + unfold end_supp. destruct (supp s) as [|n]; [exact H|]. destruct (Nat.eqb n 0); exact H.
  - destruct (w_prog s); [|exact H]. destruct (queue s); [exact H|].
    destruct (nth_error (t_worker T) k); exact H.
  - destruct (w_prog s) as [|p ps]; [exact H|]. unfold prog_step.
    destruct (exec_prim T s p) as [s' pre] eqn:E. exact (exec_prim_R _ _ _ _ _ (tables_tail T HT) H E).
  - destruct (m_prog s); [|exact H]. destruct (reloading s); [|exact H].
    destruct (nth_error (t_main T) k); exact H.
  - destruct (m_prog s) as [|p ps]; [exact H|]. unfold prog_step.
    destruct (exec_prim T s p) as [s' pre] eqn:E. exact (exec_prim_R _ _ _ _ _ (tables_tail T HT) H E).
  - apply ret_step_R; [apply tables_guard; exact HT | exact H].
  - exact H.
  - destruct (nth_error (rets s) d) as [r|] eqn:E; [|exact H]. destruct H as [H1 H2]. split; simpl.
    + eapply Forall2_upd_l; [exact H1 | exact E |]. intros y Hy. exact Hy.
    + apply Forall_upd; [exact H2|].
      rewrite Forall_forall in H2. exact (H2 r (nth_error_In _ _ E)).
  - destruct H as [H1 H2]. split; [exact H1|]. simpl. eapply rt_ok_all_mono; [|exact H2]. lia.
  - unfold rel_step. destruct (nth_error (releasers s) r) as [[d0|[|p ps]]|]; try exact H.
    + destruct (nth d0 (dones s) false); exact H.
    + unfold prog_step. destruct (exec_prim T s p) as [s' pre] eqn:E.
      exact (exec_prim_R _ _ _ _ _ (tables_tail T HT) H E).
  - destruct H as [H1 H2]. split; [exact H1|]. simpl. eapply rt_ok_all_mono; [|exact H2]. lia.
Qed.

Lemma init_R T : R T init_state.
Proof. split; constructor. Qed.

Lemma run_from_R T s sched : tables_ok T = true -> R T s -> R T (run_from T s sched).
Proof.
  intro HT. revert s. induction sched as [|a l IH]; intros s H; [exact H|].
  simpl. apply IH. apply R_step; assumption.
Qed.

(* ------------------------------------------------------------------ never wedged: a measure *)
Definition weight (L M : nat) (p : prim) : nat :=
  match p with
  | PReleaseAfterRetirement => 7
  | PStartRetirement => 5 + L
  | PBeginHandoff => S M
  | _ => 1
  end.
Fixpoint wsum (L M : nat) (l : list prim) : nat :=
  match l with [] => 0 | p :: l' => weight L M p + wsum L M l' end.
Fixpoint maxl {A} (f : A -> nat) (l : list A) : nat :=
  match l with [] => 0 | x :: l' => Nat.max (f x) (maxl f l') end.

Lemma maxl_ge {A} (f : A -> nat) l x : In x l -> f x <= maxl f l.
Proof.
  induction l as [|y l IH]; simpl; [contradiction|].
  intros [E|E]; [subst; lia | specialize (IH E); lia].
Qed.

Lemma wsum_app L M l1 l2 : wsum L M (l1 ++ l2) = wsum L M l1 + wsum L M l2.
Proof. induction l1; simpl; [reflexivity | rewrite IHl1; lia]. Qed.

Lemma wsum_nohandoff L M l : existsb is_handoff l = false -> wsum L M l = wsum L 0 l.
Proof.
  induction l as [|p l IH]; simpl; [reflexivity|].
  intro H. apply orb_false_iff in H. destruct H as [H1 H2]. rewrite (IH H2).
  destruct p; try discriminate; reflexivity.
Qed.

Definition Lt (T : tables) : nat := length (t_ret_tail T).
Definition Mmax (T : tables) : nat := S (maxl (fun p => wsum (Lt T) 0 (expand p)) (t_main T)).
Definition Wmax (T : tables) : nat := S (maxl (fun p => wsum (Lt T) (Mmax T) (expand p)) (t_worker T)).

Definition sig_w (W : nat) (pc : sigpc) : nat :=
  match pc with
  | S0 _ => 6 + W | S1 _ => 5 + W | S2 _ => 4 + W | S3 => 3 | S4 => 2 | S5 _ => 1
  | SAccepted | SRefused => 0
  end.
Definition rs_w (r : rstate) : nat := match r with RWait _ => 5 | RRun l => length l end.
Definition rt_w (L : nat) (no : N) (r : retirement) : nat :=
  match rt_pc_of r with
  | RtInit => 4 + L
  | RtWait (Some dl) => (if (dl <=? no)%N then 2 else 3) + L
  | RtWait None => 2 + L
  | RtTail => 1 + length (rt_tail r)
  | RtDone => 0
  end.

Lemma rt_sum_cancel L no l : sumf (rt_w L no) (cancel_last l) = sumf (rt_w L no) l.
Proof. apply cancel_last_sumf. intro r. reflexivity. Qed.

Lemma rt_w_mono L no no' r : (no <= no')%N -> rt_w L no' r <= rt_w L no r.
Proof.
  intro H. unfold rt_w. destruct (rt_pc_of r) as [|[dl|]| |]; try lia.
  destruct (N.leb_spec dl no); destruct (N.leb_spec dl no'); lia.
Qed.

Lemma rt_sum_mono L no no' l : (no <= no')%N -> sumf (rt_w L no') l <= sumf (rt_w L no) l.
Proof.
  intro H. induction l as [|r l IH]; [rewrite !sumf_nil; lia|].
  rewrite !sumf_cons. pose proof (rt_w_mono L no no' r H). lia.
Qed.

Definition mu (L W M : nat) (s : state) : nat :=
  sumf (sig_w W) (sigs s) + length (queue s) * W + wsum L M (w_prog s) + handoff s * M
  + wsum L M (m_prog s) + sumf rs_w (releasers s) + sumf (rt_w L (now s)) (rets s).

Ltac mu_fin :=
  simpl; rewrite ?upd_app_len; unfold mu; simpl;
  rewrite ?sumf_app, ?rt_sum_cancel, ?sumf_cons, ?sumf_nil, ?app_length, ?wsum_app, ?Nat.mul_add_distr_r; simpl;
  try lia.

Lemma mu_sig L W M T s i pc :
  nth_error (sigs s) i = Some pc -> sig_done pc = false ->
  mu L W M (sig_step T s i) < mu L W M s.
Proof.
  intros E Hd. unfold sig_step. rewrite E.
  apply nth_split in E. destruct E as (l1 & l2 & E1 & E2).
  destruct s as [pe ac re su un no qu pr si wp ho mp prt dn rl ex tr rts nr].
  simpl in *. subst si i.
  destruct pc as [b|b|b| | |f| | ]; try discriminate; unfold end_supp; simpl;
    try (destruct pe); try (destruct (Nat.ltb (length qu) (t_cap T)));
    try (destruct su as [|su]; [|destruct (Nat.eqb su 0)]); mu_fin.
Qed.

Lemma mu_agent L W M T who s p ps s' pre :
  prog_of who s = p :: ps -> exec_prim T s p = (s', pre) ->
  mu L W M (set_prog who (pre ++ ps) s') < mu L W M s.
Proof.
  intros Hp E.
  destruct s as [pe ac re su un no qu pr si wp ho mp prt dn rl ex tr rts nr].
  destruct who; simpl in Hp; subst;
    destruct p; simpl in E; unfold end_supp in E; simpl in E;
    repeat match type of E with context [match ?x with _ => _ end] => destruct x end;
    inversion E; subst s' pre; clear E; mu_fin.
Qed.

Lemma forallb_false_nth {A} (f : A -> bool) l :
  forallb f l = false -> exists i x, nth_error l i = Some x /\ f x = false.
Proof.
  induction l as [|y l IH]; simpl; [discriminate|].
  destruct (f y) eqn:E; simpl.
  - intro H. destruct (IH H) as (i & x & H1 & H2). exists (S i), x. split; assumption.
  - intros _. exists 0, y. split; [reflexivity | assumption].
Qed.

Lemma sumf_upd {A} (f : A -> nat) l i x y :
  nth_error l i = Some y -> sumf f (upd l i x) + f y = sumf f l + f x.
Proof.
  intro E. apply nth_split in E. destruct E as (l1 & l2 & E1 & E2). subst.
  rewrite upd_app_len, !sumf_app, !sumf_cons. lia.
Qed.

Lemma ret_next_w T no r :
  rt_ok T no r -> rt_pc_of r <> RtDone ->
  (forall dl, rt_pc_of r = RtWait (Some dl) ->
     rt_cancelled r || rt_idle r || (dl <=? no)%N = true) ->
  rt_w (Lt T) no (ret_next T no r) < rt_w (Lt T) no r.
Proof.
  intros (B1 & B2 & B3 & B4) Hnd Hw. unfold ret_next, rt_w, Lt in *.
  destruct r as [pc ab ov B se idl can cl tl]. simpl in *.
  destruct pc as [|[dl|]| |]; try congruence; simpl.
  - destruct (ab || negb ov || Nat.eqb se 0); simpl; [lia|].
    destruct (timer_armed (t_timer_guard T) B); simpl; [|lia].
    destruct (N.leb (no + Z.to_N B) no); lia.
  - rewrite (Hw dl eq_refl). simpl. destruct (N.leb dl no); lia.
  - destruct tl as [|x rest]; [simpl; lia|]. destruct x; simpl; lia.
Qed.

Lemma mu_ret W M T s d r :
  R T s -> exited s = false -> nth_error (rets s) d = Some r -> rt_pc_of r <> RtDone ->
  exists a, is_signal a = false /\ mu (Lt T) W M (step T s a) < mu (Lt T) W M s.
Proof.
  intros [H1 H2] Hex E Hnd.
  assert (Hr : rt_ok T (now s) r).
  { rewrite Forall_forall in H2. apply H2. eapply nth_error_In; eassumption. }
  assert (Hcase : (forall dl, rt_pc_of r = RtWait (Some dl) ->
                     rt_cancelled r || rt_idle r || (dl <=? now s)%N = true) \/
                  (exists dl, rt_pc_of r = RtWait (Some dl) /\ (dl <=? now s)%N = false)).
  { destruct (rt_pc_of r) as [|[dl|]| |]; try (left; intros dl0 X; discriminate X).
    destruct (rt_cancelled r || rt_idle r || (dl <=? now s)%N) eqn:Ec.
    - left. intros dl0 X. inversion X; subst. exact Ec.
    - right. exists dl. split; [reflexivity|]. apply orb_false_iff in Ec. apply Ec. }
  destruct Hcase as [Hw|(dl & Epc & Ec)].
  - exists (ARetire d). split; [reflexivity|]. unfold step. rewrite Hex.
    rewrite (ret_view T s d r E). unfold mu. simpl.
    pose proof (sumf_upd (rt_w (Lt T) (now s)) _ _ (ret_next T (now s) r) _ E).
    pose proof (ret_next_w T (now s) r Hr Hnd Hw). lia.
  - exists (AAdvance (dl - now s)). split; [reflexivity|]. unfold step. rewrite Hex.
    unfold mu. simpl.
    apply nth_split in E. destruct E as (l1 & l2 & E1 & E2). rewrite E1.
    rewrite !sumf_app, !sumf_cons.
    assert (Hle : (now s <= now s + (dl - now s))%N) by lia.
    pose proof (rt_sum_mono (Lt T) _ _ l1 Hle). pose proof (rt_sum_mono (Lt T) _ _ l2 Hle).
    assert (E3 : (dl <=? now s + (dl - now s))%N = true) by (apply N.leb_le; lia).
    unfold rt_w at 2 5. rewrite Epc, Ec, E3. lia.
Qed.

Lemma mu_rel W M T s r y :
  R T s -> CInv s -> exited s = false -> nth_error (releasers s) r = Some y -> rs_done y = false ->
  exists a, is_signal a = false /\ mu (Lt T) W M (step T s a) < mu (Lt T) W M s.
Proof.
  intros HR C Hex E Hd.
  pose proof (nth_error_forallb _ _ _ _ (ci_rl _ C) E) as Hy.
  destruct y as [d|[|p ps]]; [| discriminate |].
  - (* waiting *)
    simpl in Hy. apply Nat.ltb_lt in Hy.
    destruct (nth d (dones s) false) eqn:En.
    + exists (AReleaser r). split; [reflexivity|]. unfold step, rel_step. rewrite Hex, E, En.
      apply nth_split in E. destruct E as (l1 & l2 & E1 & E2).
      destruct s as [pe ac re su un no qu pr si wp ho mp prt dn rl ex tr rts nr].
      simpl in *. subst rl r. mu_fin.
    + destruct HR as [H1 H2].
      assert (Hlt : d < length (rets s)) by (rewrite (F2_length _ _ _ H1); exact Hy).
      destruct (nth_error_lt _ _ Hlt) as [r0 E0].
      destruct (Forall2_nth _ _ _ _ _ H1 E0) as (b0 & Eb & Hb).
      rewrite (nth_of_nth_error _ _ _ false Eb) in En. subst b0.
      apply (mu_ret W M T s d r0); [split; assumption | exact Hex | exact E0 |].
      intro X. destruct Hb as [_ Hb]. rewrite X in Hb. discriminate Hb.
  - (* running clearReloadPending *)
    exists (AReleaser r). split; [reflexivity|]. unfold step, rel_step. rewrite Hex, E.
    unfold prog_step.
    apply nth_split in E. destruct E as (l1 & l2 & E1 & E2).
    destruct s as [pe ac re su un no qu pr si wp ho mp prt dn rl ex tr rts nr].
    simpl in *. subst rl r. apply andb_prop in Hy. destruct Hy as [Hy _].
    destruct p; try discriminate; simpl; unfold end_supp; simpl;
      try (destruct su as [|su]; [|destruct (Nat.eqb su 0)]);
      try (destruct (fst pr)); mu_fin.
Qed.

Lemma progress_step T s :
  tables_ok T = true -> R T s -> CInv s -> exited s = false -> settled s = false ->
  exists a, is_signal a = false /\ mu (Lt T) (Wmax T) (Mmax T) (step T s a) < mu (Lt T) (Wmax T) (Mmax T) s.
Proof.
  intros HT HR C Hex Hs.
  destruct (forallb sig_done (sigs s)) eqn:E1.
  2:{ destruct (forallb_false_nth _ _ E1) as (i & pc & H1 & H2).
      exists (ASig i). split; [reflexivity|]. unfold step. rewrite Hex. eapply mu_sig; eassumption. }
  destruct (w_prog s) as [|p ps] eqn:Ew.
  2:{ exists AWorker. split; [reflexivity|]. unfold step. rewrite Hex, Ew. unfold prog_step.
      destruct (exec_prim T s p) as [s' pre] eqn:E.
      exact (mu_agent _ _ _ T true s p ps s' pre Ew E). }
  destruct (m_prog s) as [|p ps] eqn:Em.
  2:{ exists AMain. split; [reflexivity|]. unfold step. rewrite Hex, Em. unfold prog_step.
      destruct (exec_prim T s p) as [s' pre] eqn:E.
      exact (mu_agent _ _ _ T false s p ps s' pre Em E). }
  destruct (queue s) as [|q0 q'] eqn:Eq.
  2:{ destruct (tables_w0 T HT) as [path Ep].
      exists (AWorkerTake 0). split; [reflexivity|]. unfold step. rewrite Hex, Ew, Eq, Ep.
      pose proof (maxl_ge (fun p => wsum (Lt T) (Mmax T) (expand p)) _ _ (nth_error_In _ _ Ep)) as Hle.
      simpl in Hle. fold (Wmax T) in Hle. unfold mu. simpl. rewrite Ew, Eq. simpl.
      unfold Wmax at 2 4. lia. }
  destruct (handoff s) as [|h] eqn:Eh.
  2:{ destruct (tables_m0 T HT) as [path Ep].
      destruct (tables_main T 0 path HT Ep) as (_ & _ & _ & _ & _ & _ & R7).
      assert (Er : reloading s = true) by (apply (ci_f _ C); lia).
      exists (AMainStart 0). split; [reflexivity|]. unfold step. rewrite Hex, Em, Er, Ep.
      pose proof (maxl_ge (fun p => wsum (Lt T) 0 (expand p)) _ _ (nth_error_In _ _ Ep)) as Hle.
      simpl in Hle. unfold mu. simpl. rewrite Em, Eh. simpl.
      rewrite (wsum_nohandoff _ _ _ R7). unfold Mmax at 2 4. lia. }
  destruct (forallb rs_done (releasers s)) eqn:E6.
  - exfalso. unfold settled in Hs. rewrite E1, Eq, Ew, Eh, Em, E6 in Hs. discriminate.
  - destruct (forallb_false_nth _ _ E6) as (r & y & H1 & H2).
    eapply mu_rel; eassumption.
Qed.

Lemma no_wedge_from T :
  tables_ok T = true -> forall n s, Inv s -> R T s -> mu (Lt T) (Wmax T) (Mmax T) s < n ->
  exists sched' : list action,
    forallb (fun a => negb (is_signal a)) sched' = true /\
    let s' := run_from T s sched' in
    exited s' = true \/
    (settled s' = true /\ pending s' = false /\ supp s' = 0 /\ active s' = false /\ reloading s' = false).
Proof.
  intros HT n. induction n as [|n IH]; intros s HI HR Hlt; [lia|].
  destruct (exited s) eqn:Hex.
  { exists []. split; [reflexivity|]. left. exact Hex. }
  destruct HI as [H C]. pose proof (C Hex) as C'.
  destruct (settled s) eqn:Hs.
  { exists []. split; [reflexivity|]. right. split; [exact Hs|].
    apply settled_free_inv; assumption. }
  destruct (progress_step T s HT HR C' Hex Hs) as (a & Ha & Hmu).
  destruct (IH (step T s a)) as (l & Hl & Hend).
  - apply step_inv; [assumption | split; assumption].
  - apply R_step; assumption.
  - lia.
  - exists (a :: l). split; [simpl; rewrite Ha, Hl; reflexivity|]. exact Hend.
Qed.

Lemma C20_no_wedge_proof :
  forall (T : tables) (sched : list action), tables_ok T = true ->
    exists sched' : list action,
      forallb (fun a => negb (is_signal a)) sched' = true /\
      let s' := run T (sched ++ sched') in
      exited s' = true \/
      (settled s' = true /\ pending s' = false /\ supp s' = 0 /\ active s' = false /\ reloading s' = false).
Proof.
  intros T sched HT.
  destruct (no_wedge_from T HT (S (mu (Lt T) (Wmax T) (Mmax T) (run T sched))) (run T sched)
              (run_inv T sched HT) (run_from_R T _ sched HT (init_R T)) (Nat.lt_succ_diag_r _)) as (l & Hl & Hend).
  exists l. split; [exact Hl|]. unfold run. rewrite run_from_app. exact Hend.
Qed.

(* ------------------------------------------------------------------ the theorems of C20_Props.v *)
Lemma C20_every_path_releases_proof : tables_ok gen_tables = true.
Proof. vm_compute. reflexivity. Qed.

Lemma C20_serialised_proof :
  forall (T : tables) (sched : list action), tables_ok T = true ->
    lock_run false (history (run T sched)) = Some (pending (run T sched)).
Proof. intros T sched HT. destruct (run_inv T sched HT) as [[HL _] _]. exact HL. Qed.

Lemma C20_mutual_exclusion_proof :
  forall (T : tables) (sched : list action), tables_ok T = true ->
    let s := run T sched in
    exited s = false -> holders s = (if pending s then 1 else 0).
Proof. intros T sched HT s Hex. destruct (run_inv T sched HT) as [_ C]. apply (ci_hold _ (C Hex)). Qed.

Lemma sig_S0_busy T s i b :
  nth_error (sigs s) i = Some (S0 b) -> pending s = true ->
  sig_step T s i = set_sigs (upd (sigs s) i (S5 false)) (emit EvRefuse s).
Proof. intros H1 H2. unfold sig_step. rewrite H1, H2. reflexivity. Qed.

Lemma sig_S5 T s i f :
  nth_error (sigs s) i = Some (S5 f) ->
  sig_step T s i = set_sigs (upd (sigs s) i SRefused) (set_progress (CBusy, busy_msg f (active s)) s).
Proof. intros H1. unfold sig_step. rewrite H1. reflexivity. Qed.

Lemma sig_refused_id T s i : nth_error (sigs s) i = Some SRefused -> sig_step T s i = s.
Proof. intros H1. unfold sig_step. rewrite H1. reflexivity. Qed.

Lemma upd_nth_same {A} (l : list A) i x y : nth_error l i = Some y -> nth_error (upd l i x) i = Some x.
Proof.
  intro H. apply nth_split in H. destruct H as (l1 & l2 & E1 & E2). subst.
  rewrite upd_app_len. apply nth_error_mid.
Qed.

Lemma C20_refusal_changes_nothing_proof :
  forall (T : tables) (s : state) (i : nat) (b : bool),
    exited s = false -> pending s = true ->
    (nth_error (sigs s) i = Some (S0 b) ->
       let s' := step T s (ASig i) in
       same_core s s' /\ progress s' = progress s /\ nth_error (sigs s') i = Some (S5 false)) /\
    (nth_error (sigs s) i = Some (S5 false) ->
       let s' := step T s (ASig i) in
       same_core s s' /\ progress s' = (CBusy, busy_msg false (active s))) /\
    (let '(s', r) := call_try_queue T s b in
       r = false /\ same_core s s' /\ fst (progress s') = CBusy).
Proof.
  intros T s i b Hex Hp. split; [|split].
  - intros H s'. subst s'. unfold step. rewrite Hex. rewrite (sig_S0_busy T s i b H Hp).
    split; [unfold same_core; simpl; repeat split|].
    split; [reflexivity|]. simpl. eapply upd_nth_same; eassumption.
  - intros H s'. subst s'. unfold step. rewrite Hex. rewrite (sig_S5 T s i false H).
    split; [unfold same_core; simpl; repeat split | reflexivity].
  - unfold call_try_queue, step. rewrite Hex. cbn [fold_left].
    set (n := length (sigs s)).
    set (s1 := set_sigs (sigs s ++ [S0 b]) s).
    assert (E1 : sig_step T s1 n = set_sigs (sigs s ++ [S5 false]) (emit EvRefuse s1)).
    { rewrite (sig_S0_busy T s1 n b); [| simpl; apply nth_error_mid | exact Hp].
      simpl. unfold n. rewrite (upd_app_len (sigs s) (S0 b) [] (S5 false)). reflexivity. }
    rewrite E1. set (s2 := set_sigs (sigs s ++ [S5 false]) (emit EvRefuse s1)).
    assert (E2 : sig_step T s2 n =
                 set_sigs (sigs s ++ [SRefused]) (set_progress (CBusy, busy_msg false (active s)) s2)).
    { rewrite (sig_S5 T s2 n false); [| simpl; apply nth_error_mid].
      simpl. unfold n. rewrite (upd_app_len (sigs s) (S5 false) [] SRefused). reflexivity. }
    rewrite E2.
    set (s3 := set_sigs (sigs s ++ [SRefused]) (set_progress (CBusy, busy_msg false (active s)) s2)).
    assert (E3 : sig_step T s3 n = s3).
    { apply sig_refused_id. simpl. apply nth_error_mid. }
    rewrite !E3.
    split; [| split; [unfold same_core; simpl; repeat split | reflexivity]].
    simpl. unfold n. rewrite nth_error_mid. reflexivity.
Qed.

Lemma C20_suppression_balanced_proof :
  forall (T : tables) (sched : list action), tables_ok T = true ->
    let s := run T sched in
    mute_run 0 (history s) = Some (supp s) /\
    (exited s = false -> supp s = mute_owed s).
Proof.
  intros T sched HT s. destruct (run_inv T sched HT) as [[_ HM] C].
  split; [exact HM|]. intro Hex. apply (ci_mute _ (C Hex)).
Qed.

Lemma C20_settled_free_proof :
  forall (T : tables) (sched : list action), tables_ok T = true ->
    let s := run T sched in
    exited s = false -> settled s = true ->
    pending s = false /\ supp s = 0 /\ active s = false /\ reloading s = false.
Proof.
  intros T sched HT s Hex Hs. destruct (run_inv T sched HT) as [_ C].
  apply settled_free_inv; [exact (C Hex) | exact Hs].
Qed.


Lemma C20_send_never_fails_proof :
  forall (T : tables) (sched : list action) (i : nat), tables_ok T = true ->
    let pc := nth_error (sigs (run T sched)) i in
    pc <> Some S3 /\ pc <> Some S4 /\ pc <> Some (S5 true).
Proof.
  intros T sched i HT pc.
  assert (HJ : J (run T sched)).
  { apply run_from_J; [assumption | apply init_inv | reflexivity]. }
  unfold J in HJ. subst pc.
  repeat split; intro E; apply (nth_error_forallb _ _ _ _ HJ) in E; discriminate.
Qed.

Lemma C20_quiesce_bounded_proof :
  forall (T : tables) (sched : list action),
    let s := run T sched in (until s <= now s + t_quiesce T)%N.
Proof.
  intros T sched s. subst s. unfold run.
  assert (H : Q T init_state) by (unfold Q; simpl; lia).
  revert H. generalize init_state. induction sched as [|a l IH]; intros s0 H; [exact H|].
  simpl. apply IH. apply step_Q. exact H.
Qed.

Lemma C20_busy_message_proof :
  forall (T : tables) (s : state) (i : nat) (f : bool),
    exited s = false -> nth_error (sigs s) i = Some (S5 f) ->
    progress (step T s (ASig i)) = (CBusy, if f || active s then MsgActive else MsgRetiring).
Proof.
  intros T s i f Hex H. unfold step. rewrite Hex. rewrite (sig_S5 T s i f H). reflexivity.
Qed.

Lemma C20_code_serialised_and_balanced_proof :
  forall sched : list action,
    let s := run gen_tables sched in
    serialised (history s) /\ in_progress (history s) = Some (if pending s then 1 else 0)
    /\ mute_run 0 (history s) = Some (supp s).
Proof.
  intros sched s.
  destruct (run_inv gen_tables sched C20_every_path_releases_proof) as [[HL HM] _].
  fold s in HL, HM. unfold serialised, in_progress. rewrite HL.
  split; [discriminate|]. split; [destruct (pending s); reflexivity | exact HM].
Qed.

Lemma C20_nonvacuous_proof :
  tables_ok demo_tables = true /\
  (let s := run demo_tables demo_schedule_ok in
   settled s = true /\ pending s = false /\ supp s = 0
   /\ history s = [EvAccept; EvMute; EvRefuse; EvRelease; EvUnmute])
  /\ (let s := run demo_tables demo_schedule_mid in
      pending s = true /\ supp s = 1 /\ holders s = 1 /\ settled s = false)
  /\ (let s := run demo_tables demo_schedule_fail in
      settled s = true /\ pending s = false /\ history s = [EvAccept; EvMute; EvRelease; EvUnmute]).
Proof. vm_compute. repeat split; reflexivity. Qed.

(* ------------------------------------------------------------------ retirement terminates *)
Definition ret_act (d : nat) (a : action) : bool :=
  match a with ARetire d' => Nat.eqb d' d | AAdvance _ => true | _ => false end.
Definition sim (T : tables) (x : N * retirement) (a : action) : N * retirement :=
  match a with
  | ARetire _ => (fst x, ret_next T (fst x) (snd x))
  | AAdvance k => ((fst x + k)%N, snd x)
  | _ => x
  end.

Lemma run_sim T d l : forall s r,
  forallb (ret_act d) l = true -> exited s = false -> nth_error (rets s) d = Some r ->
  exited (run_from T s l) = false /\ releasers (run_from T s l) = releasers s /\
  nth_error (rets (run_from T s l)) d = Some (snd (fold_left (sim T) l (now s, r))).
Proof.
  induction l as [|a l IH]; intros s r Hl Hex E; [simpl; auto|].
  simpl in Hl. apply andb_prop in Hl. destruct Hl as [Ha Hl].
  destruct a; try discriminate Ha.
  - apply Nat.eqb_eq in Ha. subst d0.
    set (s1 := set_rets (upd (rets s) d (ret_next T (now s) r))
                 (set_dones (if ret_closes r then upd (dones s) d true else dones s) s)).
    assert (Es : step T s (ARetire d) = s1).
    { unfold step. rewrite Hex. apply ret_view. exact E. }
    change (run_from T s (ARetire d :: l)) with (run_from T (step T s (ARetire d)) l).
    change (fold_left (sim T) (ARetire d :: l) (now s, r))
      with (fold_left (sim T) l (now s1, ret_next T (now s) r)).
    rewrite Es.
    assert (E1 : nth_error (rets s1) d = Some (ret_next T (now s) r)).
    { simpl. eapply upd_nth_same; exact E. }
    exact (IH s1 _ Hl Hex E1).
  - set (s1 := set_now (now s + n)%N s).
    assert (Es : step T s (AAdvance n) = s1) by (unfold step; rewrite Hex; reflexivity).
    change (run_from T s (AAdvance n :: l)) with (run_from T (step T s (AAdvance n)) l).
    change (fold_left (sim T) (AAdvance n :: l) (now s, r))
      with (fold_left (sim T) l (now s1, r)).
    rewrite Es. exact (IH s1 r Hl Hex E).
Qed.

Lemma phaseA T no r k :
  guard_total (t_timer_guard T) = true -> rt_ok T no r -> (Z.to_N (rt_budget r) <= k)%N ->
  let r3 := ret_next T (no + k) (ret_next T no r) in
  rt_pc_of r3 = RtTail \/ rt_pc_of r3 = RtDone.
Proof.
  intros HG (B1 & B2 & B3 & B4) Hk.
  pose proof (timer_armed_total _ _ HG (proj1 B1)) as Harm.
  destruct r as [pc ab ov B se idl can cl tl]. simpl in *.
  assert (Ek1 : (no + Z.to_N B <=? no + k)%N = true) by (apply N.leb_le; lia).
  destruct pc as [|[dl|]| |]; try congruence; unfold ret_next; simpl.
  - destruct (ab || negb ov || Nat.eqb se 0); simpl.
    + destruct tl as [|x rest]; [|destruct x]; simpl; auto.
    + rewrite Harm. simpl. rewrite Ek1, orb_true_r. simpl. auto.
  - assert (Ek2 : (dl <=? no + k)%N = true).
    { apply N.leb_le. specialize (B3 dl eq_refl). lia. }
    destruct (can || idl || (dl <=? no)%N); simpl.
    + destruct tl as [|x rest]; [|destruct x]; simpl; auto.
    + rewrite Ek2, orb_true_r. simpl. auto.
  - destruct tl as [|x rest]; [simpl; auto|].
    destruct x; simpl; (destruct rest as [|x' rest']; [|destruct x']); simpl; auto.
  - auto.
Qed.

Lemma phaseB T d : forall n no r,
  (rt_pc_of r = RtTail \/ rt_pc_of r = RtDone) ->
  (rt_pc_of r = RtTail -> length (rt_tail r) < n) ->
  rt_pc_of (snd (fold_left (sim T) (repeat (ARetire d) n) (no, r))) = RtDone.
Proof.
  induction n as [|n IH]; intros no r Hpc Hlen; simpl.
  - destruct Hpc as [Hp|Hp]; [specialize (Hlen Hp); lia | exact Hp].
  - apply IH.
    + unfold ret_next. destruct Hpc as [Hp|Hp]; rewrite Hp; [|auto].
      destruct (rt_tail r) as [|x rest]; [simpl; auto|]. destruct x; simpl; auto.
    + unfold ret_next. destruct Hpc as [Hp|Hp]; rewrite Hp.
      * specialize (Hlen Hp). destruct (rt_tail r) as [|x rest]; [simpl; intro X; discriminate X|].
        destruct x; simpl in *; intros _; lia.
      * intro X. congruence.
Qed.

Lemma ret_next_len T no r : length (rt_tail (ret_next T no r)) <= length (rt_tail r).
Proof.
  unfold ret_next. destruct r as [pc ab ov B se idl can cl tl]. simpl.
  destruct pc as [|dl| |]; simpl; try lia.
  - destruct (ab || negb ov || Nat.eqb se 0); simpl; lia.
  - destruct (can || idl || match dl with Some t => (t <=? no)%N | None => false end); simpl; lia.
  - destruct tl as [|x rest]; [simpl; lia|]. destruct x; simpl; lia.
Qed.

Lemma forallb_repeat {A} (f : A -> bool) a n : f a = true -> forallb f (repeat a n) = true.
Proof. intro H. induction n; simpl; [reflexivity | rewrite H, IHn; reflexivity]. Qed.

Definition ret_fin (d : nat) (s0 st : state) : Prop :=
  nth d (dones st) false = true /\ exited st = false /\ releasers st = releasers s0.

Lemma retire_schedule_done T s d r k :
  tables_ok T = true -> R T s -> exited s = false -> nth_error (rets s) d = Some r ->
  (Z.to_N (rt_budget r) <= k)%N ->
  ret_fin d s (run_from T s (retire_schedule T d k)).
Proof.
  intros HT HR Hex E Hk.
  assert (Hr : rt_ok T (now s) r).
  { destruct HR as [_ H2]. rewrite Forall_forall in H2. apply H2. eapply nth_error_In; eassumption. }
  pose proof (tables_guard T HT) as HG.
  assert (Hl : forallb (ret_act d) (retire_schedule T d k) = true).
  { unfold retire_schedule. rewrite forallb_app. simpl. rewrite Nat.eqb_refl. simpl.
    rewrite forallb_repeat; [reflexivity | simpl; apply Nat.eqb_refl]. }
  destruct (run_sim T d _ s r Hl Hex E) as (I1 & I2 & I3).
  assert (Hd : rt_pc_of (snd (fold_left (sim T) (retire_schedule T d k) (now s, r))) = RtDone).
  { unfold retire_schedule. rewrite fold_left_app. cbn [fold_left app sim fst snd].
    apply phaseB.
    - apply phaseA; assumption.
    - intros _. destruct Hr as (_ & _ & _ & B4).
      pose proof (ret_next_len T (now s + k) (ret_next T (now s) r)).
      pose proof (ret_next_len T (now s) r). lia. }
  pose proof (run_from_R T s (retire_schedule T d k) HT HR) as [H1 _].
  destruct (Forall2_nth _ _ _ _ _ H1 I3) as (b0 & Eb & Hb).
  destruct Hb as [_ Hb]. rewrite Hd in Hb. subst b0.
  split; [exact (nth_of_nth_error _ _ _ false Eb) | split; assumption].
Qed.

Lemma C20_retirement_terminates_proof :
  forall (T : tables) (sched : list action) (d : nat) (r : retirement) (k : N), tables_ok T = true ->
    let s := run T sched in
    exited s = false -> nth_error (rets s) d = Some r ->
    (0 <= rt_budget r <= Z.max 0 (t_budget_total T))%Z /\
    rt_pc_of r <> RtWait None /\
    (forall dl, rt_pc_of r = RtWait (Some dl) -> (dl <= now s + Z.to_N (rt_budget r))%N) /\
    ((Z.to_N (rt_budget r) <= k)%N ->
       let s' := run_from T s (retire_schedule T d k) in
       nth d (dones s') false = true /\ exited s' = false).
Proof.
  intros T sched d r k HT s Hex E.
  assert (HR : R T s) by (apply run_from_R; [exact HT | apply init_R]).
  assert (Hr : rt_ok T (now s) r).
  { destruct HR as [_ H2]. rewrite Forall_forall in H2. apply H2. eapply nth_error_In; eassumption. }
  destruct Hr as (B1 & B2 & B3 & _).
  split; [exact B1|]. split; [exact B2|]. split; [exact B3|].
  intros Hk s'. destruct (retire_schedule_done T s d r k HT HR Hex E Hk) as (F1 & F2 & _).
  split; assumption.
Qed.

(* release goroutine x: one step *)
Lemma rel_clear_step T s x p ps :
  exited s = false -> nth_error (releasers s) x = Some (RRun (p :: ps)) -> is_clear p = true ->
  let s' := step T s (AReleaser x) in
  nth_error (releasers s') x = Some (RRun ps) /\ exited s' = false /\
  (p = PStorePendingFalse -> pending s' = false) /\ (p <> PStorePendingFalse -> pending s' = pending s).
Proof.
  intros Hex E Hp. unfold step, rel_step. rewrite Hex, E. unfold prog_step.
  pose proof (upd_nth_same _ _ (RRun ps) _ E) as Hu.
  destruct s as [pe ac re su un no qu pr si wp ho mp prt dn rl ex tr rts nr]. simpl in *.
  destruct p; try discriminate Hp; simpl; unfold end_supp; simpl;
    try (destruct su as [|su]; [|destruct (Nat.eqb su 0)]);
    try (destruct (fst pr)); simpl;
    (split; [exact Hu|]); (split; [exact Hex|]); split; intro X; try reflexivity; try discriminate X; congruence.
Qed.

Lemma C20_retirement_releases_proof :
  forall (T : tables) (sched : list action) (x d : nat) (r : retirement) (k : N), tables_ok T = true ->
    let s := run T sched in
    exited s = false -> nth_error (releasers s) x = Some (RWait d) -> nth_error (rets s) d = Some r ->
    (Z.to_N (rt_budget r) <= k)%N ->
    let s' := run_from T s (retire_schedule T d k ++ [AReleaser x; AReleaser x; AReleaser x; AReleaser x]) in
    pending s' = false /\ nth_error (releasers s') x = Some (RRun []) /\ supp s' = mute_owed s'.
Proof.
  intros T sched x d r k HT s Hex Ex Er Hk s'.
  assert (HR : R T s) by (apply run_from_R; [exact HT | apply init_R]).
  destruct (retire_schedule_done T s d r k HT HR Hex Er Hk) as (F1 & F2 & F3).
  assert (HI : Inv s') by (apply run_from_inv; [exact HT | apply run_inv; exact HT]).
  subst s'. rewrite run_from_app in *.
  set (s1 := run_from T s (retire_schedule T d k)) in *.
  rewrite <- F3 in Ex.
  change (run_from T s1 [AReleaser x; AReleaser x; AReleaser x; AReleaser x])
    with (step T (step T (step T (step T s1 (AReleaser x)) (AReleaser x)) (AReleaser x)) (AReleaser x)) in *.
  (* first release step: the wait is over *)
  assert (E2 : step T s1 (AReleaser x) = set_releasers (upd (releasers s1) x (RRun clear_pending_prims)) s1).
  { unfold step, rel_step. rewrite F2, Ex, F1. reflexivity. }
  rewrite E2 in *.
  set (s2 := set_releasers (upd (releasers s1) x (RRun clear_pending_prims)) s1) in *.
  assert (X2 : nth_error (releasers s2) x = Some (RRun clear_pending_prims)).
  { simpl. eapply upd_nth_same; exact Ex. }
  assert (Hex2 : exited s2 = false) by exact F2.
  destruct (rel_clear_step T s2 x _ _ Hex2 X2 eq_refl) as (X3 & Hex3 & P3 & _).
  set (s3 := step T s2 (AReleaser x)) in *.
  destruct (rel_clear_step T s3 x _ _ Hex3 X3 eq_refl) as (X4 & Hex4 & _ & P4).
  set (s4 := step T s3 (AReleaser x)) in *.
  destruct (rel_clear_step T s4 x _ _ Hex4 X4 eq_refl) as (X5 & Hex5 & _ & P5).
  set (s5 := step T s4 (AReleaser x)) in *.
  split; [|split].
  - rewrite P5, P4, P3; [reflexivity | reflexivity | discriminate | discriminate].
  - exact X5.
  - destruct HI as [_ C]. exact (ci_mute _ (C Hex5)).
Qed.

(* ------------------------------------------------------------------ a busy report implies a refusal
   (additional invariant, not used by the theorems above) *)
Definition Rf (s : state) : Prop := 1 <= count_ev is_refuse (trace s).
Definition is_pbusy (p : prim) : bool := match p with PProgress CBusy => true | _ => false end.
Definition is_s5 (pc : sigpc) : bool := match pc with S5 _ => true | _ => false end.

Definition K2 (s : state) : Prop :=
  (existsb is_s5 (sigs s) = true -> Rf s) /\ (fst (progress s) = CBusy -> Rf s).
Definition K (s : state) : Prop :=
  K2 s /\ existsb is_pbusy (w_prog s) = false /\ existsb is_pbusy (m_prog s) = false.

Lemma refuse_cons e tr : 1 <= count_ev is_refuse tr -> 1 <= count_ev is_refuse (e :: tr).
Proof. unfold count_ev. simpl. destruct (is_refuse e); simpl; lia. Qed.

Lemma refuse_now tr : 1 <= count_ev is_refuse (EvRefuse :: tr).
Proof. unfold count_ev. simpl. lia. Qed.

Lemma count_ev_rev f l : count_ev f (rev l) = count_ev f l.
Proof.
  unfold count_ev. induction l as [|a l IH]; simpl; [reflexivity|].
  rewrite filter_app, app_length, IH. simpl. destruct (f a); simpl; lia.
Qed.

Lemma exec_prim_K2 T s p s' pre :
  K2 s -> is_pbusy p = false -> exec_prim T s p = (s', pre) ->
  K2 s' /\ existsb is_pbusy pre = false /\ w_prog s' = w_prog s /\ m_prog s' = m_prog s.
Proof.
  intros [K1 K3] Hb E. unfold K2, Rf in *.
  destruct s as [pe ac re su un no qu pr si wp ho mp prt dn rl ex tr rts nr]. simpl in *.
  destruct p as [b|b| | | |c| | | | | | | ]; simpl in E; unfold end_supp in E; simpl in E;
    try (destruct c; try discriminate Hb);
    try (match type of E with context [fst pr] => destruct (fst pr) eqn:Epr end);
    repeat match type of E with context [match ?x with _ => _ end] => destruct x end;
    inversion E; subst s' pre; clear E; simpl;
    (split; [split; intro G; try discriminate G; try congruence; try (apply refuse_cons); auto
            | repeat split; reflexivity]).
Qed.

Lemma expand_nobusy path : forallb known_eff path = true -> existsb is_pbusy (expand path) = false.
Proof.
  unfold expand. induction path as [|e l IH]; simpl; [reflexivity|].
  intro H. apply andb_prop in H. destruct H as [H1 H2].
  rewrite existsb_app, (IH H2), orb_false_r.
  destruct e as [b|b| | | |c| | | | | | | | ]; try reflexivity; try discriminate.
  destruct c; try reflexivity; discriminate.
Qed.

Lemma tables_worker_known T k path :
  tables_ok T = true -> nth_error (t_worker T) k = Some path -> forallb known_eff path = true.
Proof.
  unfold tables_ok. intros H E. bool_hyps.
  rewrite forallb_forall in H. specialize (H path (nth_error_In _ _ E)).
  unfold worker_path_ok in H. bool_hyps. assumption.
Qed.

Lemma tables_main_known T k path :
  tables_ok T = true -> nth_error (t_main T) k = Some path -> forallb known_eff path = true.
Proof.
  unfold tables_ok. intros H E. bool_hyps.
  match goal with H : forallb main_path_ok _ = true |- _ =>
    rewrite forallb_forall in H; specialize (H path (nth_error_In _ _ E));
    unfold main_path_ok in H end.
  bool_hyps. assumption.
Qed.

Lemma clear_nobusy p : is_clear p = true -> is_pbusy p = false.
Proof. destruct p; try discriminate; reflexivity. Qed.

Lemma sig_step_K T s i : CInv s -> K s -> K (sig_step T s i).
Proof.
  intros C [[K1 K3] [Kw Km]]. assert (Keep : K s) by (repeat split; assumption).
  pose proof (ci_j _ C) as Hj.
  unfold sig_step. destruct (nth_error (sigs s) i) as [pc|] eqn:E; [|exact Keep].
  apply nth_split in E. destruct E as (l1 & l2 & E1 & E2).
  unfold K, K2, Rf in *.
  destruct s as [pe ac re su un no qu pr si wp ho mp prt dn rl ex tr rts nr]. simpl in *. subst si i.
  rewrite forallb_app in Hj. rewrite existsb_app in K1. simpl in Hj, K1.
  destruct pc as [b|b|b| | |f| | ]; try destruct f; simpl in *;
    rewrite ?andb_false_r in Hj; try discriminate Hj;
    try exact Keep;
    try (destruct pe); try (destruct (Nat.ltb (length qu) (t_cap T)));
    simpl; rewrite upd_app_len, existsb_app; simpl;
    (split; [split|split; assumption]); intro G;
    try (apply refuse_now); try (apply refuse_cons); auto;
    try (apply K1; rewrite ?orb_true_r; try reflexivity; assumption).
Qed.

Lemma K_step T s a : tables_ok T = true -> Inv s -> K s -> K (step T s a).
Proof.
  intros HT [H C] HK. unfold step. destruct (exited s) eqn:Hex; [exact HK|].
  specialize (C eq_refl).
  destruct a as [b|i|k| |k| |d|p|d|n|r| ].
  - destruct HK as [[K1 K3] [Kw Km]]. unfold K, K2, Rf in *. simpl.
    rewrite existsb_app. simpl. rewrite !orb_false_r. repeat split; assumption.
  - apply sig_step_K; assumption.
  - destruct (w_prog s) eqn:Ew; [|exact HK]. destruct (queue s); [exact HK|].
    destruct (nth_error (t_worker T) k) as [path|] eqn:Ep; [|exact HK].
    destruct HK as [[K1 K3] [Kw Km]]. unfold K, K2, Rf in *. simpl.
    repeat split; try assumption.
    apply expand_nobusy. eapply tables_worker_known; eassumption.
  - destruct (w_prog s) as [|p ps] eqn:Ew; [exact HK|]. unfold prog_step.
    destruct (exec_prim T s p) as [s' pre] eqn:E.
    destruct HK as [HK2 [Kw Km]]. rewrite Ew in Kw. simpl in Kw.
    apply orb_false_iff in Kw. destruct Kw as [Kp Kps].
    destruct (exec_prim_K2 T s p s' pre HK2 Kp E) as (A & B & _ & D).
    unfold K, K2, Rf in *. simpl. rewrite existsb_app, B, Kps, D. repeat split; try apply A; assumption.
  - destruct (m_prog s) eqn:Em; [|exact HK]. destruct (reloading s); [|exact HK].
    destruct (nth_error (t_main T) k) as [path|] eqn:Ep; [|exact HK].
    destruct HK as [[K1 K3] [Kw Km]]. unfold K, K2, Rf in *. simpl.
    repeat split; try assumption.
    apply expand_nobusy. eapply tables_main_known; eassumption.
  - destruct (m_prog s) as [|p ps] eqn:Em; [exact HK|]. unfold prog_step.
    destruct (exec_prim T s p) as [s' pre] eqn:E.
    destruct HK as [HK2 [Kw Km]]. rewrite Em in Km. simpl in Km.
    apply orb_false_iff in Km. destruct Km as [Kp Kps].
    destruct (exec_prim_K2 T s p s' pre HK2 Kp E) as (A & B & D & _).
    unfold K, K2, Rf in *. simpl. rewrite existsb_app, B, Kps, D. repeat split; try apply A; assumption.
  - ret_cases; exact HK.
  - exact HK.
  - destruct (nth_error (rets s) d); exact HK.
  - exact HK.
  - unfold rel_step. destruct (nth_error (releasers s) r) as [[d0|[|p ps]]|] eqn:E; try exact HK.
    + destruct (nth d0 (dones s) false); exact HK.
    + pose proof (nth_error_forallb _ _ _ _ (ci_rl _ C) E) as Hy. simpl in Hy.
      apply andb_prop in Hy. destruct Hy as [Hy _]. apply clear_nobusy in Hy.
      unfold prog_step. destruct (exec_prim T s p) as [s' pre] eqn:E'.
      destruct HK as [HK2 [Kw Km]].
      destruct (exec_prim_K2 T s p s' pre HK2 Hy E') as (A & B & D1 & D2).
      unfold K, K2, Rf in *. simpl. rewrite D1, D2. repeat split; try apply A; assumption.
  - exact HK.
Qed.

Lemma init_K : K init_state.
Proof. unfold K, K2, Rf. simpl. repeat split; intros; discriminate. Qed.

Lemma run_from_K T s sched : tables_ok T = true -> Inv s -> K s -> K (run_from T s sched).
Proof.
  intro HT. revert s. induction sched as [|a l IH]; intros s H HK; [exact HK|].
  simpl. apply IH; [apply step_inv | apply K_step]; assumption.
Qed.

(* every schedule: a signal thread about to write the busy report, or a progress file that says
   busy, implies that a refusal is in the history (also after exit) *)
Lemma C20_busy_implies_refused_proof :
  forall (T : tables) (sched : list action), tables_ok T = true ->
    let s := run T sched in
    (forall i f, nth_error (sigs s) i = Some (S5 f) -> 1 <= count_ev is_refuse (history s)) /\
    (fst (progress s) = CBusy -> 1 <= count_ev is_refuse (history s)).
Proof.
  intros T sched HT s.
  assert (HK : K s) by (apply run_from_K; [assumption | apply init_inv | apply init_K]).
  destruct HK as [[K1 K3] _]. unfold Rf, history in *. rewrite count_ev_rev.
  split; [|exact K3].
  intros i f E. apply K1. apply existsb_exists. exists (S5 f).
  split; [eapply nth_error_In; eassumption | reflexivity].
Qed.

(* ------------------------------------------------------------------ findings: refuted full statements
   and the parts that hold *)
Lemma C20_settled_client_accepts_refuted_proof :
  exists (T : tables) (sched : list action), tables_ok T = true /\
    let s := run T sched in
    exited s = false /\ settled s = true /\ pending s = false /\ supp s = 0 /\
    client_would_send (fst (progress s)) = false.
Proof.
  exists demo_tables,
    [ASignal false; ASig 0; ASig 0; ASig 0; AWorkerTake 0; AWorker; AWorker; AWorker; AWorker; AWorker;
     ASignal true; ASig 1; AWorker; AWorker; AWorker; ASig 1].
  vm_compute. repeat split; reflexivity.
Qed.

Lemma C20_settled_client_accepts_partial_proof :
  forall (T : tables) (sched : list action), tables_ok T = true ->
    let s := run T sched in
    fst (progress s) = CBusy -> 1 <= count_ev is_refuse (history s).
Proof. intros T sched HT. exact (proj2 (C20_busy_implies_refused_proof T sched HT)). Qed.

Lemma C20_every_signal_answered_refuted_proof :
  exists (T : tables) (ops : list cop) (o : cop), tables_ok T = true /\ is_request o = true /\
    exited (ms (mrun T ops)) = false /\ request_answered T (mrun T ops) o = false.
Proof.
  exists demo_tables,
    [OQueue false; OTake; OSetActive true; OCoalesce; OProgress CProcessing; OBeginHandoff],
    OReadyWaitSignal.
  vm_compute. repeat split; reflexivity.
Qed.

Lemma sig_last T s l pc :
  sigs s = l ++ [pc] ->
  sig_step T s (length l) =
  match pc with
  | S0 b => if pending s then set_sigs (l ++ [S5 false]) (emit EvRefuse s)
            else set_sigs (l ++ [S1 b]) (emit EvAccept (set_pending true s))
  | S1 b => set_sigs (l ++ [S2 b]) (emit EvMute (set_supp (S (supp s)) s))
  | S2 b => if Nat.ltb (length (queue s)) (t_cap T)
            then set_sigs (l ++ [SAccepted]) (set_queue (queue s ++ [b]) s)
            else set_sigs (l ++ [S3]) (emit EvRefuse s)
  | S3 => set_sigs (l ++ [S4]) (emit EvRelease (set_pending false s))
  | S4 => set_sigs (l ++ [S5 true]) (end_supp (t_quiesce T) s)
  | S5 f => set_sigs (l ++ [SRefused]) (set_progress (CBusy, busy_msg f (active s)) s)
  | SAccepted | SRefused => s
  end.
Proof.
  intro H. unfold sig_step. rewrite H, nth_error_mid.
  destruct pc; try reflexivity;
    try (destruct (pending s)); try (destruct (Nat.ltb (length (queue s)) (t_cap T)));
    rewrite (upd_app_len l _ [] _); reflexivity.
Qed.

Lemma sig_last_rec T pe ac re su un no qu pr l pc wp ho mp prt dn rl ex tr rts nr :
  sig_step T (Build_state pe ac re su un no qu pr (l ++ [pc]) wp ho mp prt dn rl ex tr rts nr) (length l) =
  match pc with
  | S0 b => if pe then Build_state pe ac re su un no qu pr (l ++ [S5 false]) wp ho mp prt dn rl ex (EvRefuse :: tr) rts nr
            else Build_state true ac re su un no qu pr (l ++ [S1 b]) wp ho mp prt dn rl ex (EvAccept :: tr) rts nr
  | S1 b => Build_state pe ac re (S su) un no qu pr (l ++ [S2 b]) wp ho mp prt dn rl ex (EvMute :: tr) rts nr
  | S2 b => if Nat.ltb (length qu) (t_cap T)
            then Build_state pe ac re su un no (qu ++ [b]) pr (l ++ [SAccepted]) wp ho mp prt dn rl ex tr rts nr
            else Build_state pe ac re su un no qu pr (l ++ [S3]) wp ho mp prt dn rl ex (EvRefuse :: tr) rts nr
  | S3 => Build_state false ac re su un no qu pr (l ++ [S4]) wp ho mp prt dn rl ex (EvRelease :: tr) rts nr
  | S4 => match su with
          | O => Build_state pe ac re su un no qu pr (l ++ [S5 true]) wp ho mp prt dn rl ex tr rts nr
          | S n => if Nat.eqb n 0
                   then Build_state pe ac re n (no + t_quiesce T)%N no qu pr (l ++ [S5 true]) wp ho mp prt dn rl ex (EvUnmute :: tr) rts nr
                   else Build_state pe ac re n un no qu pr (l ++ [S5 true]) wp ho mp prt dn rl ex (EvUnmute :: tr) rts nr
          end
  | S5 f => Build_state pe ac re su un no qu (CBusy, busy_msg f ac) (l ++ [SRefused]) wp ho mp prt dn rl ex tr rts nr
  | SAccepted | SRefused => Build_state pe ac re su un no qu pr (l ++ [pc]) wp ho mp prt dn rl ex tr rts nr
  end.
Proof.
  rewrite (sig_last T (Build_state pe ac re su un no qu pr (l ++ [pc]) wp ho mp prt dn rl ex tr rts nr) l pc eq_refl).
  destruct pc; try reflexivity.
  unfold end_supp. simpl. destruct su as [|n]; [reflexivity|]. destruct (Nat.eqb n 0); reflexivity.
Qed.

Ltac sig_go T :=
  rewrite sig_last_rec; cbv beta iota;
  try match goal with |- context [Nat.ltb ?a ?b] => destruct (Nat.ltb a b) end;
  try match goal with |- context [Nat.eqb ?a 0] => destruct (Nat.eqb a 0) end.

Definition answered (n : nat) (st : state) : Prop :=
  nth_error (sigs st) n = Some SAccepted \/ fst (progress st) = CBusy.

Lemma six_steps_answered T s b :
  answered (length (sigs s))
    (fold_left (fun st _ => sig_step T st (length (sigs s))) [0;1;2;3;4;5]
       (set_sigs (sigs s ++ [S0 b]) s)).
Proof.
  cbn [fold_left].
  destruct s as [pe ac re su un no qu pr si wp ho mp prt dn rl ex tr rts nr].
  change (set_sigs (sigs (Build_state pe ac re su un no qu pr si wp ho mp prt dn rl ex tr rts nr) ++ [S0 b])
            (Build_state pe ac re su un no qu pr si wp ho mp prt dn rl ex tr rts nr))
    with (Build_state pe ac re su un no qu pr (si ++ [S0 b]) wp ho mp prt dn rl ex tr rts nr).
  cbn [sigs].
  destruct pe; repeat (sig_go T); unfold answered; cbn [sigs progress fst]; rewrite nth_error_mid; auto.
Qed.

Lemma call_try_queue_answered T s b :
  exited s = false ->
  let '(s', r) := call_try_queue T s b in r = true \/ fst (progress s') = CBusy.
Proof.
  intro Hex. unfold call_try_queue, step. rewrite Hex.
  destruct (six_steps_answered T s b) as [H|H]; [left; rewrite H; reflexivity | right; exact H].
Qed.

Lemma C20_every_signal_answered_partial_proof :
  forall (T : tables) (m : mstate) (b : bool),
    exited (ms m) = false -> request_answered T m (OQueue b) = true.
Proof.
  intros T m b Hex. unfold request_answered, mstep.
  pose proof (call_try_queue_answered T (ms m) b Hex) as H.
  destruct (call_try_queue T (ms m) b) as [s' r]. cbn [ms].
  destruct H as [H|H]; [subst r; reflexivity|].
  rewrite H. destruct r; reflexivity.
Qed.

Lemma C20_free_means_nobody_waits_proof :
  forall (T : tables) (sched : list action) (r d : nat), tables_ok T = true ->
    let s := run T sched in
    exited s = false -> pending s = false -> nth_error (releasers s) r <> Some (RWait d).
Proof.
  intros T sched r d HT s Hex Hp E.
  destruct (run_inv T sched HT) as [_ C]. pose proof (ci_hold _ (C Hex)) as Hh.
  fold s in Hh. rewrite Hp in Hh. unfold holders in Hh.
  apply nth_split in E. destruct E as (l1 & l2 & E1 & _).
  rewrite E1, sumf_app, sumf_cons in Hh. simpl in Hh. lia.
Qed.

Lemma C20_free_implies_retired_refuted_proof :
  exists (T : tables) (sched : list action), tables_ok T = true /\
    let s := run T sched in
    exited s = false /\ pending s = false /\ forallb (fun x => x) (dones s) = false.
Proof.
  exists demo_tables,
    [ASignal false; ASig 0; ASig 0; ASig 0; AWorkerTake 1; AWorker; AWorker; AWorker; AWorker;
     AMainStart 0; AMain; AMain; AMain; AMain; AMain; AMain; AWorker].
  vm_compute. repeat split; reflexivity.
Qed.

(* ------------------------------------------------------------------ done is closed only after the
   previous generation is *)
Lemma nth_true_lt l d : nth d l false = true -> d < length l.
Proof.
  revert d; induction l as [|a l IH]; intros d H; [destruct d; discriminate|].
  destruct d; simpl in *; [lia | specialize (IH _ H); lia].
Qed.

Lemma done_closed T s d : R T s -> nth d (dones s) false = true -> gen_closed s d = true.
Proof.
  intros [H1 _] Hn. pose proof (nth_true_lt _ _ Hn) as Hlt.
  rewrite <- (F2_length _ _ _ H1) in Hlt.
  destruct (nth_error_lt _ _ Hlt) as [r E].
  destruct (Forall2_nth _ _ _ _ _ H1 E) as (b & Eb & Hb & _).
  rewrite (nth_of_nth_error _ _ _ false Eb) in Hn. unfold gen_closed. rewrite E. auto.
Qed.

Lemma nth_error_upd_neq {A} (l : list A) i j x : i <> j -> nth_error (upd l i x) j = nth_error l j.
Proof.
  revert i j; induction l as [|a l IH]; intros i j H; [reflexivity|].
  destruct i, j; simpl; try reflexivity; [congruence | apply IH; congruence].
Qed.

Lemma exec_prim_releasers T s p s' pre :
  exec_prim T s p = (s', pre) ->
  releasers s' = releasers s \/ exists y, releasers s' = releasers s ++ [y].
Proof.
  destruct p; simpl; unfold end_supp;
    repeat match goal with |- context [match ?x with _ => _ end] => destruct x end;
    intro E; inversion E; simpl; eauto.
Qed.

Lemma nth_error_keep {A} (l l' : list A) x y :
  (l' = l \/ exists z, l' = l ++ [z]) -> nth_error l x = Some y -> nth_error l' x = Some y.
Proof.
  intros [H|[z H]] E; subst; [exact E|].
  rewrite nth_error_app1; [exact E | eapply nth_error_some_lt; exact E].
Qed.

Lemma sig_step_releasers T s i : releasers (sig_step T s i) = releasers s.
Proof.
  unfold sig_step. destruct (nth_error (sigs s) i) as [pc|]; [|reflexivity].
  destruct pc; try reflexivity; simpl.
  - destruct (pending s); reflexivity.
  - destruct (Nat.ltb (length (queue s)) (t_cap T)); reflexivity.
  - unfold end_supp. destruct (supp s); [reflexivity|]. destruct (Nat.eqb n 0); reflexivity.
Qed.

Lemma wait_left_only_when_done T s a x d :
  nth_error (releasers s) x = Some (RWait d) ->
  nth_error (releasers (step T s a)) x <> Some (RWait d) ->
  nth d (dones s) false = true.
Proof.
  intros E Hn. unfold step in Hn. destruct (exited s); [contradiction|].
  destruct a as [b|i|k| |k| |d0|p|d0|n|r| ].
  - contradiction.
  - rewrite sig_step_releasers in Hn. contradiction.
  - exfalso. apply Hn. destruct (w_prog s); [|exact E]. destruct (queue s); [exact E|].
    destruct (nth_error (t_worker T) k); exact E.
  - exfalso. apply Hn. destruct (w_prog s) as [|p ps]; [exact E|]. unfold prog_step.
    destruct (exec_prim T s p) as [s' pre] eqn:E'. simpl.
    exact (nth_error_keep _ _ _ _ (exec_prim_releasers _ _ _ _ _ E') E).
  - exfalso. apply Hn. destruct (m_prog s); [|exact E]. destruct (reloading s); [|exact E].
    destruct (nth_error (t_main T) k); exact E.
  - exfalso. apply Hn. destruct (m_prog s) as [|p ps]; [exact E|]. unfold prog_step.
    destruct (exec_prim T s p) as [s' pre] eqn:E'. simpl.
    exact (nth_error_keep _ _ _ _ (exec_prim_releasers _ _ _ _ _ E') E).
  - exfalso. apply Hn. ret_cases; exact E.
  - contradiction.
  - exfalso. apply Hn. destruct (nth_error (rets s) d0); exact E.
  - contradiction.
  - unfold rel_step in Hn.
    destruct (Nat.eq_dec r x) as [Erx|Erx].
    + subst r. rewrite E in Hn. destruct (nth d (dones s) false); [reflexivity | contradiction].
    + exfalso. apply Hn.
      destruct (nth_error (releasers s) r) as [[d1|[|p ps]]|]; try exact E.
      * destruct (nth d1 (dones s) false); [|exact E]. simpl.
        rewrite nth_error_upd_neq; [exact E | exact Erx].
      * unfold prog_step. destruct (exec_prim T s p) as [s' pre] eqn:E'. simpl.
        rewrite nth_error_upd_neq; [|exact Erx].
        exact (nth_error_keep _ _ _ _ (exec_prim_releasers _ _ _ _ _ E') E).
  - contradiction.
Qed.

Lemma C20_release_only_after_close_proof :
  forall (T : tables) (sched : list action) (a : action) (x d : nat), tables_ok T = true ->
    let s := run T sched in
    (nth d (dones s) false = true -> gen_closed s d = true) /\
    (nth_error (releasers s) x = Some (RWait d) ->
     nth_error (releasers (step T s a)) x <> Some (RWait d) -> gen_closed s d = true).
Proof.
  intros T sched a x d HT s.
  assert (HR : R T s) by (apply run_from_R; [exact HT | apply init_R]).
  split; [apply (done_closed T); exact HR|].
  intros E Hn. apply (done_closed T); [exact HR|].
  eapply wait_left_only_when_done; eassumption.
Qed.

Lemma C20_release_only_after_close_any_tail_refuted_proof :
  exists (T : tables) (sched : list action),
    t_ret_tail T = [TCancel; TCloseDone; TCloseGen; TCleanup; TOther] /\
    let s := run T sched in
    exited s = false /\ gen_closed s 0 = false /\ nth 0 (dones s) false = true /\
    pending s = true /\ count_ev is_accept (history s) = 2 /\ count_ev is_release (history s) = 1.
Proof.
  exists (Build_tables (t_worker demo_tables) (t_main demo_tables) 1 (t_quiesce demo_tables) GAlways
            (t_budget_total demo_tables) [TCancel; TCloseDone; TCloseGen; TCleanup; TOther]),
    (demo_schedule_mid ++ [AMain; AMain; AMain; AMain; AMain; ARetire 0; ARetire 0; ARetire 0;
                           AReleaser 0; AReleaser 0; AReleaser 0; AReleaser 0;
                           ASignal false; ASig 2; ASig 2; ASig 2]).
  vm_compute. repeat split; reflexivity.
Qed.

(* ---------------------------------------------------------------------------------------------
   The readiness wait (waitReloadReadyOrSignal) *)
Lemma rw_fixed_le : forall timeout d evs, (snd (ready_wait RFixed timeout d evs) <= d)%N.
Proof.
  intros timeout d evs. induction evs as [|[t e] rest IH]; simpl.
  - lia.
  - destruct (d <=? t)%N eqn:E; simpl; [lia|].
    apply N.leb_gt in E.
    destruct e as [[|]| |]; simpl; first [lia | exact IH].
Qed.

Lemma rw_fixed_ign : forall timeout d evs,
  only_ignored evs = true -> ready_wait RFixed timeout d evs = (WRTimeout, d).
Proof.
  intros timeout d evs. induction evs as [|[t e] rest IH]; simpl; intros H; auto.
  destruct (d <=? t)%N; auto.
  unfold only_ignored in H. simpl in H.
  destruct e; simpl in H; try discriminate. apply IH. exact H.
Qed.

Lemma C20_ready_wait_bounded_proof :
  forall (timeout origin : N) (evs : list (N * wev)),
    (snd (ready_wait RFixed timeout (origin + timeout) evs) <= origin + timeout)%N /\
    (only_ignored evs = true -> ready_wait RFixed timeout (origin + timeout) evs = (WRTimeout, (origin + timeout)%N)).
Proof. intros. split; [apply rw_fixed_le | apply rw_fixed_ign]. Qed.

Lemma C20_ready_wait_bounded_code_proof :
  ready_deadline_ok gen_ready_deadline = true /\
  forall (timeout origin : N) (evs : list (N * wev)),
    (snd (ready_wait gen_ready_deadline timeout (origin + timeout) evs) <= origin + timeout)%N.
Proof.
  assert (E : gen_ready_deadline = RFixed) by (vm_compute; reflexivity).
  rewrite E. split; [reflexivity | intros; apply rw_fixed_le].
Qed.

Fixpoint rw_sigs (k : N) (n : nat) : list (N * wev) :=
  match n with
  | O => []
  | S m => ((5 * (k + 1))%N, WIgnored) :: rw_sigs (k + 1) m
  end.

Lemma rw_sigs_ignored : forall n k, only_ignored (rw_sigs k n) = true.
Proof. induction n; intros k; [reflexivity|]. unfold only_ignored in *. simpl. apply IHn. Qed.

Lemma rw_rearmed_run : forall n k,
  ready_wait RRearmed 10 (5 * k + 10) (rw_sigs k n) = (WRTimeout, (5 * (k + N.of_nat n) + 10)%N).
Proof.
  induction n; intros k.
  - cbn [rw_sigs ready_wait]. change (N.of_nat 0) with 0%N. rewrite N.add_0_r. reflexivity.
  - cbn [rw_sigs ready_wait].
    destruct (5 * k + 10 <=? 5 * (k + 1))%N eqn:E.
    + apply N.leb_le in E. lia.
    + rewrite IHn. replace (k + 1 + N.of_nat n)%N with (k + N.of_nat (S n))%N by lia. reflexivity.
Qed.

Lemma C20_ready_wait_bounded_any_mode_refuted_proof :
  forall n : nat, exists evs : list (N * wev),
    only_ignored evs = true /\
    (snd (ready_wait RRearmed 10 (0 + 10) evs) >= N.of_nat n * 5 + 10)%N.
Proof.
  intros n. exists (rw_sigs 0 n). split; [apply rw_sigs_ignored|].
  change (0 + 10)%N with (5 * 0 + 10)%N. rewrite rw_rearmed_run. cbn [snd]. lia.
Qed.

(* ---------------------------------------------------------------------------------------------
   The progress file write *)
Lemma pw_all_2 : forallb (pw_safe SUnique (pw_init 2)) (all_seqs 2 8) = true.
Proof. vm_compute. reflexivity. Qed.
Lemma pw_all_3 : forallb (pw_safe SUnique (pw_init 3)) (all_seqs 3 12) = true.
Proof. vm_compute. reflexivity. Qed.

Lemma C20_progress_write_atomic_proof :
  (forall sched, In sched (all_seqs 2 8) -> pw_safe SUnique (pw_init 2) sched = true) /\
  (forall sched, In sched (all_seqs 3 12) -> pw_safe SUnique (pw_init 3) sched = true).
Proof.
  split; intros sched H.
  - exact (proj1 (forallb_forall _ _) pw_all_2 sched H).
  - exact (proj1 (forallb_forall _ _) pw_all_3 sched H).
Qed.

Lemma C20_progress_write_atomic_code_proof :
  gen_staging = SUnique /\
  (forall sched, In sched (all_seqs 3 12) -> pw_safe gen_staging (pw_init 3) sched = true).
Proof.
  assert (E : gen_staging = SUnique) by (vm_compute; reflexivity).
  rewrite E. split; [reflexivity | exact (proj2 C20_progress_write_atomic_proof)].
Qed.

Lemma C20_progress_write_shared_staging_refuted_proof :
  pw_safe SShared (pw_init 2) [0; 1; 0; 1; 0; 1] = false /\
  (let s := fold_left (pw_step SShared) [0; 1; 0; 1; 0; 1] (pw_init 2) in pw_read s = None /\ pw_lost s = true).
Proof. vm_compute. repeat split; reflexivity. Qed.
