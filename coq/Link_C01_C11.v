(* Link C01 + C11 — routing by the first matching rule, with the REAL domain matcher.

   C01_scan_lower assumes [C01_domain_oracle_agrees p dm pk]: bit i of the bitmap [dm] returns = meaning of the
   domain set the builder registered under index i.  Here [dm] is C11's model of AhocorasickSlimtrie (AddSet*,
   Build, MatchDomainBitmap over the packed succinct trie, keyword automaton, regexp oracle), fed with exactly the
   sets RoutingMatcherBuilder registers ([b_domsets] of the lowering, as BuildUserspace does), and the oracle
   hypothesis is DISCHARGED from C11_matcher_packed_partial, for the RAW name as Match receives it (any letter case,
   with or without a trailing dot): C01_Spec reads domain conditions on `normalise (p_domain pk)`, which is C11's
   normalize (c01_normalise_s_norm, bytes_s_norm).  See the comment at the end of the file for what remains. *)
From Coq Require Import List Arith NArith Bool String Ascii Lia ZifyBool ZifyN ZifyNat.
From Dae Require Import C11_Spec C11_Model C11_Louds C11_Proofs C11_Layer3 C11_Props.
From Dae.gen Require Import C11_Extracted.
From Dae Require Import Link_DomainAdapter.
From Dae Require Import C01_Spec C01_Model C01_Proofs C01_Props.
From Dae.gen Require Import C01_Consts.
Import ListNotations.
Open Scope N_scope.

(* ---------- adapters: kinds, sets ---------- *)
(* consts.RoutingDomainKey as the C01 model numbers them (1 full, 2 suffix, 3 keyword, 4 regex) *)
Definition kind_of_key (key : N) : kind :=
  if key =? 1 then KFull else if key =? 2 then KSuffix else if key =? 3 then KKeyword else KRegex.
Definition kind_of_dkind (k : dkind) : kind :=
  match k with DFull => KFull | DSuffix => KSuffix | DKeyword => KKeyword | DRegex => KRegex end.

Lemma kind_of_key_dkind : forall key, kind_of_key key = kind_of_dkind (dkind_of_key key).
Proof. intros key. unfold kind_of_key, dkind_of_key. destruct (key =? 1), (key =? 2), (key =? 3); reflexivity. Qed.

Lemma domain_holds_s : forall k s d hits,
  C01_Spec.domain_holds k s d hits = s_domain_holds (kind_of_dkind k) s d hits.
Proof. intros [] s d hits; reflexivity. Qed.

(* routing.DomainSet{RuleIndex, Key, Domains} -> the set handed to AddSet *)
Definition pset_of (ds : N * (N * list string)) : pset :=
  (fst ds, kind_of_key (fst (snd ds)), map bytes (snd (snd ds))).

(* the sets the builder registers for a program (BuildUserspace: for each simulatedDomainSet: AddSet) *)
Definition c01_domsets (p : program) : list (N * (N * list string)) :=
  match lower_program p with Ok b => b_domsets b | Err _ => [] end.
Definition c01_sets (p : program) : list pset := map pset_of (c01_domsets p).

(* m.domainMatcher.MatchDomainBitmap(domain) *)
Definition c01_dm (rx : str -> str -> bool) (m : C11_Model.matcher ptrie) : string -> list N :=
  fun d => c11_bitmap rx m (bytes d).

(* ---------- the builder registers each domain set under a fresh index ---------- *)
Definition dinv (b : builder) : Prop :=
  NoDup (map fst (b_domsets b)) /\
  forall i, In i (map fst (b_domsets b)) -> i < N.of_nat (List.length (b_rules b)).

Definition grows (b b' : builder) : Prop :=
  (List.length (b_rules b) <= List.length (b_rules b'))%nat /\ b_domsets b' = b_domsets b.

Lemma grows_refl b : grows b b.
Proof. split; [lia | reflexivity]. Qed.
Lemma grows_trans b1 b2 b3 : grows b1 b2 -> grows b2 b3 -> grows b1 b3.
Proof. intros [L1 D1] [L2 D2]. split; [lia | congruence]. Qed.
Lemma grows_append b m : grows b (append_rule b m).
Proof. split; [cbn; rewrite app_length; cbn; lia | reflexivity]. Qed.
Lemma grows_dinv b b' : grows b b' -> dinv b -> dinv b'.
Proof.
  intros [L D] [N1 N2]. split; rewrite D; [exact N1|]. intros i Hi. specialize (N2 i Hi). lia.
Qed.

Lemma add_ports_grows : forall vals t gs b neg ob b', add_ports t gs b neg vals ob = Ok b' -> grows b b'.
Proof.
  induction vals as [|[lo hi] vals IH]; intros t gs b neg ob b' H; cbn [add_ports] in H.
  - inversion H; subst. apply grows_refl.
  - destruct (outbound_to_id gs (per_value_name ob vals)); [|discriminate].
    apply IH in H. eapply grows_trans; [apply grows_append | exact H].
Qed.
Lemma add_pnames_grows : forall vals gs b neg ob b', add_pnames gs b neg vals ob = Ok b' -> grows b b'.
Proof.
  induction vals as [|v vals IH]; intros gs b neg ob b' H; cbn [add_pnames] in H.
  - inversion H; subst. apply grows_refl.
  - destruct (outbound_to_id gs (per_value_name ob vals)); [|discriminate].
    apply IH in H. eapply grows_trans; [apply grows_append | exact H].
Qed.
Lemma add_dscps_grows : forall vals gs b neg ob b', add_dscps gs b neg vals ob = Ok b' -> grows b b'.
Proof.
  induction vals as [|v vals IH]; intros gs b neg ob b' H; cbn [add_dscps] in H.
  - inversion H; subst. apply grows_refl.
  - destruct (outbound_to_id gs (per_value_name ob vals)); [|discriminate].
    apply IH in H. eapply grows_trans; [apply grows_append | exact H].
Qed.
Lemma add_mask_grows t gs b neg mask ob b' : add_mask t gs b neg mask ob = Ok b' -> grows b b'.
Proof.
  unfold add_mask. destruct (outbound_to_id gs (po_name ob)); [|discriminate].
  intro H. inversion H; subst. apply grows_append.
Qed.
Lemma add_mac_grows gs b neg macs ob b' : add_mac gs b neg macs ob = Ok b' -> grows b b'.
Proof.
  unfold add_mac. destruct (outbound_to_id gs (po_name ob)); [|discriminate].
  intro H. inversion H; subst. split; [cbn; rewrite app_length; cbn; lia | reflexivity].
Qed.
Lemma add_ipset_grows t gs b neg vals ob b' : add_ipset t gs b neg vals ob = Ok b' -> grows b b'.
Proof.
  unfold add_ipset. cbv zeta.
  set (c := match dedup_get (b_dedup b) (hash_lpm_set (canonicalize vals)) with
            | Some (eidx, eps) => if prefixes_equal eps (canonicalize vals) then (eidx, b)
                                  else new_trie b (hash_lpm_set (canonicalize vals)) (canonicalize vals)
            | None => new_trie b (hash_lpm_set (canonicalize vals)) (canonicalize vals)
            end).
  assert (G : grows b (snd c)).
  { subst c. destruct (dedup_get (b_dedup b) (hash_lpm_set (canonicalize vals))) as [[eidx eps]|];
      [destruct (prefixes_equal eps (canonicalize vals))|]; cbn [snd new_trie]; try apply grows_refl;
      (split; [cbn; lia | reflexivity]). }
  destruct c as [idx b1]. cbn [snd] in G.
  destruct (outbound_to_id gs (po_name ob)); [|discriminate].
  intro H. inversion H; subst. eapply grows_trans; [exact G | apply grows_append].
Qed.

Lemma NoDup_snoc {A} (l : list A) x : NoDup l -> ~ In x l -> NoDup (l ++ [x]).
Proof.
  induction l as [|a l IH]; intros Hn Hx; cbn; [constructor; [intros []|constructor]|].
  inversion Hn as [|? ? Ha Hl]; subst. constructor.
  - intro H. apply in_app_or in H as [H|[H|[]]]; [now apply Ha | subst; apply Hx; now left].
  - apply IH; [exact Hl | intro H; apply Hx; now right].
Qed.

Lemma add_domain_dinv gs b neg key vals ob b' : add_domain gs b neg key vals ob = Ok b' -> dinv b -> dinv b'.
Proof.
  unfold add_domain. destruct ((1 <=? key) && (key <=? 4)); [|discriminate].
  destruct (outbound_to_id gs (po_name ob)); [|discriminate].
  intros H [N1 N2]. inversion H; subst. clear H. unfold dinv. cbn [append_rule b_domsets b_rules].
  rewrite map_app, app_length. cbn [map fst List.length]. split.
  - apply NoDup_snoc; [exact N1|]. intro Hin. specialize (N2 _ Hin). lia.
  - intros i Hi. apply in_app_or in Hi as [Hi|[<-|[]]]; [specialize (N2 i Hi)|]; lia.
Qed.

Lemma parse_and_add_dinv gs b k neg key vals ob b' :
  parse_and_add gs b k neg key vals ob = Ok b' -> dinv b -> dinv b'.
Proof.
  unfold parse_and_add, with_values. intros H Hd.
  destruct k;
    match type of H with
    | match ?c with Some _ => _ | None => _ end = _ => destruct c as [l|]; [|discriminate]
    end;
    first [ now apply (add_domain_dinv _ _ _ _ _ _ _ H)
          | apply (grows_dinv b b'); [|exact Hd];
            first [ now apply add_ipset_grows in H | now apply add_ports_grows in H | now apply add_mask_grows in H
                  | now apply add_mac_grows in H | now apply add_pnames_grows in H | now apply add_dscps_grows in H ] ].
Qed.

Lemma apply_groups_dinv : forall kgs gs b k neg lf ob b',
  apply_groups gs b k neg kgs lf ob = Ok b' -> dinv b -> dinv b'.
Proof.
  induction kgs as [|[key vals] kgs IH]; intros gs b k neg lf ob b' H Hd; cbn [apply_groups] in H.
  - now inversion H; subst.
  - match type of H with match ?c with Ok _ => _ | Err _ => _ end = _ => destruct c as [b1|] eqn:E; [|discriminate] end.
    apply parse_and_add_dinv in E; [|exact Hd]. exact (IH _ _ _ _ _ _ _ H E).
Qed.

Lemma apply_funcs_dinv : forall cs gs b ob b', apply_funcs gs b cs ob = Ok b' -> dinv b -> dinv b'.
Proof.
  induction cs as [|c cs IH]; intros gs b ob b' H Hd; cbn [apply_funcs] in H.
  - now inversion H; subst.
  - match type of H with match ?c with Ok _ => _ | Err _ => _ end = _ => destruct c as [b1|] eqn:E; [|discriminate] end.
    apply apply_groups_dinv in E; [|exact Hd]. exact (IH _ _ _ _ H E).
Qed.

Lemma apply_rules_dinv : forall rs gs b b', apply_rules gs b rs = Ok b' -> dinv b -> dinv b'.
Proof.
  induction rs as [|r rs IH]; intros gs b b' H Hd; cbn [apply_rules] in H.
  - now inversion H; subst.
  - match type of H with match ?c with Ok _ => _ | Err _ => _ end = _ => destruct c as [b1|] eqn:E; [|discriminate] end.
    apply apply_funcs_dinv in E; [|exact Hd]. exact (IH _ _ _ H E).
Qed.

Lemma lower_program_dinv p b : lower_program p = Ok b -> dinv b.
Proof.
  unfold lower_program.
  match goal with |- match ?c with Ok _ => _ | Err _ => _ end = _ -> _ => destruct c as [b1|] eqn:E; [|discriminate] end.
  apply apply_rules_dinv in E; [|split; [constructor | intros i []]].
  unfold add_fallback. destruct (outbound_to_id _ _); [|discriminate].
  intro H. inversion H; subst. exact (grows_dinv _ _ (grows_append _ _) E).
Qed.

Lemma c01_sets_nodup p : NoDup (map ps_idx (c01_sets p)).
Proof.
  unfold c01_sets, c01_domsets. destruct (lower_program p) as [b|] eqn:E; [|constructor].
  rewrite map_map. unfold pset_of, ps_idx. cbn [fst]. exact (proj1 (lower_program_dinv p b E)).
Qed.

(* ---------- side conditions of the composition, all stated on the program / the packet ---------- *)
(* every domain set sits below the bit length the matcher is created with (consts.MaxMatchSetLen = 1024);
   follows from "at most 1024 match-sets", which C01's wf_program does not impose *)
Definition c01_idx_ok (p : program) : bool := forallb (fun ds => fst ds <? c11_nbits) (c01_domsets p).

(* the two regexp oracles describe the same regexp engine: p_regex_hits lists the regex patterns of the program
   that match the packet's NORMALISED domain; rx is C11's MatchString oracle (MatchDomainBitmap calls it on the
   normalised name) *)
Definition c01_regex_oracles_agree (p : program) (rx : str -> str -> bool) (pk : packet) : Prop :=
  forall i key vals s, In (i, (key, vals)) (c01_domsets p) -> kind_of_key key = KRegex -> In s vals ->
    existsb (String.eqb s) (p_regex_hits pk) = rx (bytes s) (bytes (normalise (p_domain pk))).

(* C01_Spec.normalise is Link_DomainAdapter.s_norm (textually the same function), hence C11's normalize *)
Lemma c01_normalise_s_norm : forall s, C01_Spec.normalise s = s_norm s.
Proof.
  assert (Hl : forall s, C01_Spec.dom_lower s = s_lower s) by (induction s as [|c s IH]; cbn; [reflexivity|now rewrite IH]).
  assert (Hs : forall s, C01_Spec.dom_strip_dot s = s_strip_dot s).
  { induction s as [|c s IH]; [reflexivity|]. destruct s as [|c' s']; [reflexivity|].
    change (C01_Spec.dom_strip_dot (String c (String c' s'))) with (String c (C01_Spec.dom_strip_dot (String c' s'))).
    change (s_strip_dot (String c (String c' s'))) with (String c (s_strip_dot (String c' s'))). now rewrite IH. }
  intros s. unfold C01_Spec.normalise, s_norm. now rewrite Hs, Hl.
Qed.

Lemma c01_bytes_normalise : forall s, bytes (normalise s) = normalize (bytes s).
Proof. intros s. rewrite c01_normalise_s_norm. apply bytes_s_norm. Qed.

(* a name already in normal form is read as it is *)
Lemma c01_normalise_fixed : forall d, normalized (bytes d) -> C01_Spec.normalise d = d.
Proof. intros d H. apply bytes_inj. rewrite c01_bytes_normalise. exact H. Qed.

(* the only names that normalise to the empty name: "" and the root "." *)
Lemma c01_normalise_nonempty : forall d, d <> ""%string -> d <> "."%string -> normalise d <> ""%string.
Proof. intros d H1 H2 H. rewrite c01_normalise_s_norm in H. destruct (s_norm_empty d H); contradiction. Qed.

(* C01's alphabet premise of wf_packet is C11's name_ok *)
Lemma c01_alphabet_name_ok : forall d, domain_alphabet_ok d = name_ok (bytes d).
Proof.
  induction d as [|c d IH]; [reflexivity|]. cbn [domain_alphabet_ok bytes name_ok forallb]. fold (name_ok (bytes d)).
  rewrite IH. f_equal. unfold domain_char_ok, name_char, pat_char, is_lower, is_upper, is_digit, in_range, ch_dash, ch_us, ch_dot.
  cbv zeta. destruct ((97 <=? N_of_ascii c) && (N_of_ascii c <=? 122)), ((65 <=? N_of_ascii c) && (N_of_ascii c <=? 90)),
    ((48 <=? N_of_ascii c) && (N_of_ascii c <=? 57)), (N_of_ascii c =? 45), (N_of_ascii c =? 95), (N_of_ascii c =? 46); reflexivity.
Qed.

(* ---------- the oracle hypothesis of C01, discharged ---------- *)
Lemma c01_oracle_discharged : forall p pk rx_ok rx m,
  kw_nonempty (c01_sets p) = true -> sets_size_ok (c01_sets p) -> sets_ok rx_ok (c01_sets p) = true ->
  c11_build rx_ok (c01_sets p) = Some m ->
  c01_idx_ok p = true ->
  name_ok (bytes (p_domain pk)) = true -> p_domain pk <> "."%string ->
  c01_regex_oracles_agree p rx pk ->
  C01_domain_oracle_agrees p (c01_dm rx m) pk.
Proof.
  intros p pk rx_ok rx m Hk Hs Ho Hb Hidx Hn Hroot Hrx b Hl i key vals Hin.
  destruct (String.eqb (p_domain pk) "") eqn:Ee.
  - (* empty domain: no lookup, and no pattern holds *)
    apply String.eqb_eq in Ee. rewrite Ee. cbn [normalise dom_strip_dot dom_lower].
    symmetry. apply not_true_is_false. intro H. apply existsb_exists in H as [s [_ H]].
    unfold C01_Spec.domain_holds in H. cbn in H. discriminate H.
  - apply String.eqb_neq in Ee.
    pose proof (c01_normalise_nonempty _ Ee Hroot) as Hnn.
    destruct (c11_build_bit rx_ok rx (c01_sets p) Hk Hs Ho) as [m' [Hb' Hbit]].
    rewrite Hb in Hb'. inversion Hb'; subst m'. clear Hb'.
    assert (Hdom : c01_domsets p = b_domsets b) by (unfold c01_domsets; now rewrite Hl).
    assert (Hlt : i < c11_nbits).
    { unfold c01_idx_ok in Hidx. rewrite forallb_forall in Hidx. rewrite <- Hdom in Hin.
      specialize (Hidx _ Hin). cbn [fst] in Hidx. now apply N.ltb_lt. }
    unfold bm_bit, c01_dm. rewrite c11_bitmap_nth.
    replace (i <? c11_nbits) with true by (symmetry; now apply N.ltb_lt).
    rewrite word_of_read, (Hbit _ i Hn).
    assert (Hin' : In (pset_of (i, (key, vals))) (c01_sets p)).
    { unfold c01_sets. rewrite Hdom. now apply in_map. }
    pose proof (bit_nodup rx (c01_sets p) (bytes (p_domain pk)) _ (c01_sets_nodup p) Hin') as Hb1.
    change (ps_idx (pset_of (i, (key, vals)))) with i in Hb1. rewrite Hb1. clear Hb1.
    unfold set_matches, pset_of, ps_kind, ps_pats. cbn [fst snd]. rewrite <- c01_bytes_normalise.
    rewrite existsb_map'. apply existsb_ext_in. intros s Hs'.
    rewrite domain_holds_s, <- kind_of_key_dkind. symmetry.
    apply s_domain_holds_pat_matches; [exact Hnn | rewrite c01_bytes_normalise; now apply normalize_pat_ok |].
    intro Hk'. rewrite <- Hdom in Hin. exact (Hrx i key vals s Hin Hk' Hs').
Qed.

(* "at most MaxMatchSetLen match-sets" implies the index condition *)
Lemma c01_idx_ok_of_rule_count : forall p b,
  lower_program p = Ok b -> N.of_nat (List.length (b_rules b)) <= c11_nbits -> c01_idx_ok p = true.
Proof.
  intros p b Hl Hle. unfold c01_idx_ok, c01_domsets. rewrite Hl. apply forallb_forall. intros ds Hin.
  apply N.ltb_lt. pose proof (proj2 (lower_program_dinv p b Hl) (fst ds) (in_map fst _ _ Hin)). lia.
Qed.

(* ---------- the composed theorem ---------- *)
(* For every well-formed routing program and every packet description — the domain in ANY letter case, with or
   without a trailing dot, also no domain at all — the code path
     patchMustOutbound -> RulesBuilder.Apply + add* -> BuildUserspace (domain sets -> AddSet -> Build) ->
     RoutingMatcher.Match (MatchDomainBitmap over the packed trie / automaton / regexps)
   returns the decision of the first matching rule.  No oracle hypothesis on the bitmap. *)
Theorem Link_route_with_real_domain_matcher :
  forall (p : program) (pk : packet) (rx_ok : str -> bool) (rx : str -> str -> bool),
    wf_program p = true ->
    (* C11's own side conditions, on the sets the builder registers *)
    kw_nonempty (c01_sets p) = true ->            (* no empty keyword (open finding C11/keyword-empty) *)
    sets_size_ok (c01_sets p) ->                  (* key bytes per index < 2^63 (packed trie sample width) *)
    sets_ok rx_ok (c01_sets p) = true ->          (* every regexp compiles (else Build fails) *)
    name_ok (bytes (p_domain pk)) = true ->       (* the raw name is over the host-name alphabet (= domain_alphabet_ok) *)
    (* what the composition adds *)
    c01_idx_ok p = true ->                        (* domain sets below bit 1024 (F9: more -> Go panics) *)
    p_domain pk <> "."%string ->                  (* not the root name: see the end of the file *)
    c01_regex_oracles_agree p rx pk ->            (* one regexp engine behind both oracles *)
    exists m, c11_build rx_ok (c01_sets p) = Some m /\
              model_route p (c01_dm rx m) pk = Ok (decide p pk).
Proof.
  intros p pk rx_ok rx Hwf Hk Hs Ho Hn Hidx Hroot Hrx.
  destruct (c11_build_bit rx_ok rx (c01_sets p) Hk Hs Ho) as [m [Hb _]].
  exists m. split; [exact Hb|].
  apply C01_scan_lower; [exact Hwf|].
  exact (c01_oracle_discharged p pk rx_ok rx m Hk Hs Ho Hb Hidx Hn Hroot Hrx).
Qed.
Print Assumptions Link_route_with_real_domain_matcher.

(* ---------- non-vacuity, on concrete programs ---------- *)
Definition lk_out (n : string) : outbound := {| o_name := n; o_params := [] |}.
Definition lk_prog (k : N) (dk : dkind) (pat : string) : program :=
  {| pr_rules := [ {| r_conds := [ {| c_kind := FDomain; c_neg := false; c_params := [(k, VDomain dk pat)] |} ];
                      r_out := lk_out "proxy" |} ];
     pr_fallback := lk_out "direct";
     pr_groups := [("direct"%string, 0); ("proxy"%string, 2)] |}.
Definition lk_pk (d : string) : packet :=
  {| p_src := 1; p_dst := 2; p_sport := 1000; p_dport := 443; p_l4 := TCP; p_ipver := V6;
     p_domain := d; p_regex_hits := []; p_pname := repeat 0 16; p_mac := 0; p_dscp := 0 |}.
Definition lk_rx_ok : str -> bool := fun _ => true.
Definition lk_rx : str -> str -> bool := fun _ _ => false.

Lemma with_build : forall rx_ok sets (P : C11_Model.matcher ptrie -> Prop),
  match c11_build rx_ok sets with Some m => P m | None => False end ->
  exists m, c11_build rx_ok sets = Some m /\ P m.
Proof. intros rx_ok sets P H. destruct (c11_build rx_ok sets) as [m|]; [now exists m | destruct H]. Qed.

Ltac lk_size :=
  match goal with
  | |- sets_size_ok ?s =>
      let v := eval vm_compute in s in change s with v;
      let j := fresh "j" in
      intro j; unfold size_ok, at_idx; cbn [flat_map ps_idx fst snd];
      match goal with |- context [N.eqb ?a ?b] => destruct (N.eqb a b) end; vm_compute; reflexivity
  end.
Ltac lk_rxagree :=
  match goal with
  | |- c01_regex_oracles_agree ?p _ _ =>
      let i := fresh "i" in let key := fresh "key" in let vals := fresh "vals" in let s := fresh "s" in
      let Hin := fresh "Hin" in let Hk := fresh "Hk" in
      intros i key vals s Hin Hk; exfalso; revert Hin Hk;
      let v := eval vm_compute in (c01_domsets p) in change (c01_domsets p) with v;
      intros [Hin|[]] Hk; inversion Hin; subst; vm_compute in Hk; discriminate
  end.
Ltac lk_c := vm_compute; reflexivity.

(* all hypotheses hold for suffix:b.c with the domains a.b.c (rule), ab.c (fallback) and "" (fallback) *)
Example Link_C01_C11_nonvacuous :
  let p := lk_prog 2 DSuffix "b.c" in
  wf_program p = true /\ kw_nonempty (c01_sets p) = true /\ sets_size_ok (c01_sets p) /\
  sets_ok lk_rx_ok (c01_sets p) = true /\ c01_idx_ok p = true /\
  (forall d, In d ["a.b.c"; "ab.c"; ""]%string ->
     name_ok (bytes d) = true /\ d <> "."%string /\ c01_regex_oracles_agree p lk_rx (lk_pk d)) /\
  exists m, c11_build lk_rx_ok (c01_sets p) = Some m /\
    map (fun d => model_route p (c01_dm lk_rx m) (lk_pk d)) ["a.b.c"; "ab.c"; ""]%string
    = [Ok (2, 0, false); Ok (0, 0, false); Ok (0, 0, false)].
Proof.
  cbv zeta. split; [lk_c|]. split; [lk_c|]. split; [lk_size|]. split; [lk_c|]. split; [lk_c|]. split.
  - intros d [<-|[<-|[<-|[]]]]; (split; [lk_c | split; [discriminate | lk_rxagree]]).
  - apply with_build. lk_c.
Qed.

(* REPAIRED MISMATCH (was Link_C01_C11_normalisation_mismatch).  C01_Spec used to compare the packet's domain with
   the patterns byte for byte while C11 and the Go code compare the normalised name; C01_Spec now reads domain
   conditions on `normalise (p_domain pk)`.  The former witnesses — rule `domain(full: a.b) -> proxy`, domains "A.b"
   and "a.b." (not in normal form) — now satisfy every premise of the composed theorem, and the pipeline and
   `decide` agree on proxy. *)
Theorem Link_C01_C11_normalisation_agrees :
  let p := lk_prog 1 DFull "a.b" in
  wf_program p = true /\ kw_nonempty (c01_sets p) = true /\ sets_size_ok (c01_sets p) /\
  sets_ok lk_rx_ok (c01_sets p) = true /\ c01_idx_ok p = true /\
  forall d, In d ["A.b"; "a.b."]%string ->
    name_ok (bytes d) = true /\ d <> "."%string /\ c01_regex_oracles_agree p lk_rx (lk_pk d) /\
    ~ normalized (bytes d) /\
    decide p (lk_pk d) = (2, 0, false) /\
    exists m, c11_build lk_rx_ok (c01_sets p) = Some m /\
      model_route p (c01_dm lk_rx m) (lk_pk d) = Ok (decide p (lk_pk d)).
Proof.
  cbv zeta. split; [lk_c|]. split; [lk_c|]. split; [lk_size|]. split; [lk_c|]. split; [lk_c|].
  intros d [<-|[<-|[]]];
    (split; [lk_c | split; [discriminate | split; [lk_rxagree | split; [intro H; vm_compute in H; discriminate | split; [lk_c | apply with_build; lk_c]]]]]).
Qed.
Print Assumptions Link_C01_C11_normalisation_agrees.

(* The alphabet premise [name_ok] (C11's quantifier: "host name made of letters, digits, '-', '_', '.'") cannot
   be dropped either: the '^' sentinel is a valid trie character, MatchDomainBitmap does not validate the domain
   (deliberately, issue 528), and a sniffed name is attacker-chosen.  For the rule `domain(full: a.b) -> proxy` the
   normalised name "x^a.b" is routed to proxy although it is not the name a.b. *)
Theorem Link_C01_C11_alphabet_needed :
  let p := lk_prog 1 DFull "a.b" in let d := "x^a.b"%string in
  name_ok (bytes d) = false /\ normalized (bytes d) /\
  decide p (lk_pk d) = (0, 0, false) /\
  exists m, c11_build lk_rx_ok (c01_sets p) = Some m /\
    model_route p (c01_dm lk_rx m) (lk_pk d) = Ok (2, 0, false).
Proof.
  cbv zeta. split; [lk_c|]. split; [lk_c|]. split; [lk_c|]. apply with_build. lk_c.
Qed.
Print Assumptions Link_C01_C11_alphabet_needed.

(* The root name stays outside: for the raw name "." Match calls MatchDomainBitmap on the empty name, where C11 (and
   the Go code) let `full: ""`, `suffix: ""` and a regexp matching the empty string match, while C01_Spec.domain_holds
   says no pattern holds for the empty normalised name. *)
Theorem Link_C01_C11_root_name_needed :
  let p := lk_prog 1 DFull "" in let d := "."%string in
  wf_program p = true /\ name_ok (bytes d) = true /\
  decide p (lk_pk d) = (0, 0, false) /\
  exists m, c11_build lk_rx_ok (c01_sets p) = Some m /\
    model_route p (c01_dm lk_rx m) (lk_pk d) = Ok (2, 0, false).
Proof. cbv zeta. split; [lk_c|]. split; [lk_c|]. split; [lk_c|]. apply with_build. lk_c. Qed.
Print Assumptions Link_C01_C11_root_name_needed.

(* DISCHARGED: C01_domain_oracle_agrees (the whole C10/C11 interface hypothesis of C01_scan_lower), from
     C11_matcher_packed_partial + the fresh-index invariant of the builder (lower_program_dinv, proved here) +
     the string/byte adapters of Link_DomainAdapter.v (normalise = C11's normalize: any case, trailing dot).
   REMAINING (all explicit in Link_route_with_real_domain_matcher):
     - C11's side conditions: kw_nonempty, sets_size_ok, sets_ok (regexps compile), name_ok of the raw domain
       (= C01's domain_alphabet_ok, c01_alphabet_name_ok; cannot be dropped: Link_C01_C11_alphabet_needed);
     - c01_idx_ok: domain sets below bit 1024 (implied by <= 1024 match-sets: c01_idx_ok_of_rule_count; C01's
       wf_program has no such bound; beyond it the Go builder panics, finding F9);
     - the raw name is not the root name "." (Link_C01_C11_root_name_needed);
     - c01_regex_oracles_agree: p_regex_hits (C01) and rx (C11) are answers of the same regexp engine.
   NOT COVERED by either property's harness: the []uint32 packing loop of MatchDomainBitmap, modelled here by
   Link_DomainAdapter.bitmap_words (C11's model exposes the per-index answer only).
   CIDR containment is still C01's direct model here; see Link_C01_C12.v. *)
