(* C18 — code-shaped model (no proofs in this file) of
     control/control_plane.go : isIPLikeDomain, ChooseDialTarget, lookupRealDomainCache,
                                triggerRealDomainProbe, probeAndUpdateRealDomain
     control/dns_control.go   : rememberDnsKnowledge, HasDnsKnowledge
     component/sniffing/sniffing.go : NormalizeDomain
     common/consts/ebpf.go    : OutboundIndex.IsReserved  (constants generated into gen/C18_Consts.v)
   Strings are byte lists; Go library functions are the models of C18_GoStrings.v; netip.ParseAddr is
   the oracle `is_ip`. *)
From Coq Require Import List NArith ZArith Bool.
From Dae Require Import C18_GoStrings C18_Spec.
From Dae.gen Require Import C18_Consts.
Import ListNotations.
Open Scope N_scope.

(* OutboundIndex.IsReserved: String() has a name for it (does not start with "<index: ") *)
Definition is_reserved (outbound : N) : bool := existsb (N.eqb outbound) reserved_outbounds.

(* netip.AddrPort.String *)
Definition dst_string (d : dest) : str :=
  if d_is4 d then d_ip d ++ [c_colon] ++ itoa (d_port d)
  else c_lbr :: d_ip d ++ [c_rbr; c_colon] ++ itoa (d_port d).

Section WithIp.
  Variable is_ip : str -> bool.     (* netip.ParseAddr(s) succeeds *)

  (* isIPLikeDomain *)
  Definition is_ip_like_domain (domain : str) : bool :=
    match domain with
    | [] => false
    | _ =>
        let d := unbracket domain in
        if is_ip d then true
        else match split_host_port d with
             | Some (host, _) => is_ip (unbracket host)
             | None => false
             end
    end.

  (* what the two look-ups of the domain branch would answer *)
  Record lookups := { l_dns : bool;            (* HasDnsKnowledge(cacheKey(domain, qtype of dst)) *)
                      l_real_known : bool;     (* lookupRealDomainCache: known *)
                      l_real_real : bool }.    (*                        real  *)

  Record outcome := { o_target : str; o_reroute : bool; o_dial_ip : bool;
                      o_use_name : bool;       (* local dialMode ended as DialMode_Domain *)
                      o_asked_dns : bool;      (* HasDnsKnowledge was called *)
                      o_asked_real : bool;     (* lookupRealDomainCache was called *)
                      o_probe : bool }.        (* triggerRealDomainProbe was called *)

  (* first switch of ChooseDialTarget: (dialMode = Domain, shouldReroute, asked_dns, asked_real, probe) *)
  Definition decide (mode : dial_mode) (outbound : N) (domain : str) (l : lookups)
    : bool * bool * bool * bool * bool :=
    if negb (is_reserved outbound) && negb (match domain with [] => true | _ => false end) then
      match mode with
      | ModeDomain =>
          if is_ip_like_domain domain then (false, false, false, false, false)      (* break *)
          else if l_dns l then (true, true, true, false, false)
          else if l_real_known l then
                 if l_real_real l then (true, true, true, true, false)
                 else (false, false, true, true, false)
               else (false, false, true, true, true)
      | ModeDomainCao => (true, true, false, false, false)                          (* fallthrough *)
      | ModeDomainPlus => (true, false, false, false, false)
      | ModeIp => (false, false, false, false, false)
      end
    else (false, false, false, false, false).

  (* second switch *)
  Definition domain_target (dst : dest) (domain : str) : str * bool :=
    let d := unbracket domain in
    if is_ip d then (join_host_port d (itoa (d_port dst)), true)
    else match split_host_port d with
         | Some _ => (d, false)
         | None => (join_host_port d (itoa (d_port dst)), false)
         end.

  Definition choose_dial_target (mode : dial_mode) (outbound : N) (dst : dest) (domain : str) (l : lookups)
    : outcome :=
    let '(use_name, reroute, a_dns, a_real, probe) := decide mode outbound domain l in
    let '(target, dial_ip) := if use_name then domain_target dst domain else (dst_string dst, true) in
    {| o_target := target; o_reroute := reroute; o_dial_ip := dial_ip; o_use_name := use_name;
       o_asked_dns := a_dns; o_asked_real := a_real; o_probe := probe |}.

  (* ---- NormalizeDomain, applied by the sniffers before the name reaches the control plane.
     `lt` = strings.ToLower(strings.TrimSpace(host)) *)
  Definition normalize_lowered (lt : str) : str :=
    if has_suffix1 c_rbr lt then trim_brackets lt
    else match split_host_port lt with
         | Some (h, _) => h
         | None => trim_suffix_dot lt
         end.
  Definition normalize_domain_ascii (host : str) : str := normalize_lowered (ascii_lower (ascii_trim_space host)).

  (* ---- the state behind the look-ups, and histories ------------------------------------------- *)
  Open Scope Z_scope.

  Record cp_state := {
    s_now : Z;                          (* time.Now().UnixNano() *)
    s_dns : list (str * Z);             (* DnsController.dnsKnowledge: base key -> expiresAt *)
    s_real : list str;                  (* realDomainSet (a Bloom filter in the code; here the set added) *)
    s_neg : list (str * Z)              (* realDomainNegSet: name -> expiresAt *)
  }.

  Definition assoc_get (k : str) (m : list (str * Z)) : option Z :=
    match find (fun kv => str_eqb (fst kv) k) m with Some kv => Some (snd kv) | None => None end.
  Definition assoc_del (k : str) (m : list (str * Z)) : list (str * Z) :=
    filter (fun kv => negb (str_eqb (fst kv) k)) m.
  Definition assoc_set (k : str) (v : Z) (m : list (str * Z)) : list (str * Z) := (k, v) :: assoc_del k m.

  (* rememberDnsKnowledge(baseKey, originalDeadline); the zero time.Time is excluded by the caller here *)
  Definition remember_dns_knowledge (st : cp_state) (key : str) (expires : Z) : cp_state :=
    match key with
    | [] => st
    | _ =>
        match assoc_get key (s_dns st) with
        | None => {| s_now := s_now st; s_dns := assoc_set key expires (s_dns st); s_real := s_real st; s_neg := s_neg st |}
        | Some cur =>
            if cur <? expires
            then {| s_now := s_now st; s_dns := assoc_set key expires (s_dns st); s_real := s_real st; s_neg := s_neg st |}
            else st
        end
    end.

  (* HasDnsKnowledge *)
  Definition has_dns_knowledge (st : cp_state) (key : str) : bool * cp_state :=
    match key with
    | [] => (false, st)
    | _ =>
        match assoc_get key (s_dns st) with
        | None => (false, st)
        | Some e =>
            if e <=? s_now st
            then (false, {| s_now := s_now st; s_dns := assoc_del key (s_dns st); s_real := s_real st; s_neg := s_neg st |})
            else (true, st)
        end
    end.

  (* lookupRealDomainCache: (known, real) *)
  Definition lookup_real_domain_cache (st : cp_state) (domain : str) : bool * bool * cp_state :=
    if existsb (str_eqb domain) (s_real st) then (true, true, st)
    else match assoc_get domain (s_neg st) with
         | Some e =>
             if s_now st <? e then (true, false, st)
             else (false, false, {| s_now := s_now st; s_dns := s_dns st; s_real := s_real st; s_neg := assoc_del domain (s_neg st) |})
         | None => (false, false, st)
         end.

  (* what the bootstrap resolvers answer when the probe asks them *)
  Inductive probe_answer := PFound | PNoRecord | PFail.

  Definition neg_ttl : Z := real_domain_negative_cache_ttl_ns.

  (* triggerRealDomainProbe + probeAndUpdateRealDomain, run to completion (the probe is asynchronous in the
     code; the harness waits for it).  has_resolvers = len(bootstrapResolvers) > 0. *)
  Definition probe_and_update (st : cp_state) (domain : str) (has_resolvers : bool) (ans : probe_answer)
    : bool * cp_state (* resolver asked?, state *) :=
    match domain with
    | [] => (false, st)
    | _ =>
        if is_ip_like_domain domain then (false, st)
        else
          let '(known, _, st1) := lookup_real_domain_cache st domain in
          if known then (false, st1)
          else
            (* goroutine: probeAndUpdateRealDomain *)
            let '(known2, _, st2) := lookup_real_domain_cache st1 domain in
            if known2 then (false, st2)
            else if negb has_resolvers then (false, st2)
            else match ans with
                 | PFail => (true, st2)
                 | PNoRecord =>
                     (true, {| s_now := s_now st2; s_dns := s_dns st2; s_real := s_real st2;
                               s_neg := assoc_set domain (s_now st2 + neg_ttl) (s_neg st2) |})
                 | PFound =>
                     (true, {| s_now := s_now st2; s_dns := s_dns st2; s_real := domain :: s_real st2;
                               s_neg := assoc_del domain (s_neg st2) |})
                 end
    end.

  (* one call of ChooseDialTarget against the state; the look-ups are made only where the code makes them *)
  Definition choose_step (mode : dial_mode) (st : cp_state) (outbound : N) (dst : dest) (domain : str)
             (key_a key_aaaa : str)       (* cacheKey(domain, A) / cacheKey(domain, AAAA) *)
             (has_resolvers : bool) (ans : probe_answer)
    : outcome * bool * cp_state :=
    let key := if d_is4 dst then key_a else key_aaaa in          (* common.AddrToDnsType(dst.Addr()) *)
    let '(dns, st_d) := has_dns_knowledge st key in
    let '(known, real, st_r) := lookup_real_domain_cache st_d domain in
    let o := choose_dial_target mode outbound dst domain
                                {| l_dns := dns; l_real_known := known; l_real_real := real |} in
    let st1 := if o_asked_real o then st_r else if o_asked_dns o then st_d else st in
    if o_probe o then
      let '(asked, st2) := probe_and_update st1 domain has_resolvers ans in (o, asked, st2)
    else (o, false, st1).

  (* chooseProxyDialer as far as outbound and dial target go; route_to = the outbound c.Route returns *)
  Definition choose_proxy_dialer (mode : dial_mode) (st : cp_state) (outbound route_to : N) (dst : dest)
             (domain key_a key_aaaa : str) (has_resolvers : bool) (ans : probe_answer)
    : outcome * N * bool * cp_state :=
    let '(o1, asked1, st1) := choose_step mode st outbound dst domain key_a key_aaaa has_resolvers ans in
    let ob1 := if o_reroute o1 then outbound_control_plane_routing else outbound in
    if (ob1 =? outbound_control_plane_routing)%N then
      let '(o2, asked2, st2) := choose_step mode st1 route_to dst domain key_a key_aaaa has_resolvers ans in
      (o2, route_to, asked1 || asked2, st2)
    else (o1, outbound, asked1, st1).

  (* ---- the keys, as the code computes them ------------------------------------------------------
     store side (DNS handler): baseKey := cacheKey(q.Name, q.Qtype); responseCacheKey = baseKey + "|" + scope;
       updateDnsCache: dnsCacheBaseKey(responseCacheKey); rememberDnsKnowledge(that, originalDeadline)
     lookup side (ChooseDialTarget): HasDnsKnowledge(cacheKey(domain, AddrToDnsType(dst))) *)
  Definition store_key (qname : str) (qtype : N) (scope : str) : str :=
    base_key (cache_key qname qtype ++ match scope with [] => [] | _ => c_pipe :: scope end).
  Definition lookup_key (domain : str) (qtype : N) : str := cache_key domain qtype.

  (* a response for (qname, qtype) with TTL seconds is cached: __updateDnsCacheDeadline bypasses a name
     that is an IP literal (host = qname without its trailing dot); originalDeadline = now + ttl s *)
  Definition cache_response (st : cp_state) (qname : str) (qtype : N) (scope : str) (ttl_s : Z) : cp_state :=
    if is_ip (trim_suffix_dot qname) then st
    else remember_dns_knowledge st (store_key qname qtype scope) (s_now st + ttl_s * 1000000000).

  (* routeDial: the first attempt, and one retry when the first proxy dial fails with a local network
     failure; every attempt calls chooseProxyDialer with the dial parameters p.  What the retry's
     parameters do with Domain is extracted from the source (gen: route_dial_retry_keeps_domain). *)
  Definition retry_domain (domain : str) : str := if route_dial_retry_keeps_domain then domain else [].
  Definition route_dial_domains (domain : str) (first_fails : bool) : list str :=
    domain :: (if first_fails then [retry_domain domain] else []).
  (* the variant whose retry runs on a copy of the parameters without Domain *)
  Definition route_dial_domains_dropping (domain : str) (first_fails : bool) : list str :=
    domain :: (if first_fails then [[]] else []).

  Inductive op :=
  | OpRemember (key : str) (expires : Z)          (* a DNS answer for base key `key` entered the cache *)
  | OpAdvance (dt : Z)                            (* time passes (dt >= 0) *)
  | OpChoose (outbound : N) (dst : dest) (domain key_a key_aaaa : str) (has_resolvers : bool) (ans : probe_answer).

  Definition advance (st : cp_state) (dt : Z) : cp_state :=
    {| s_now := s_now st + Z.max 0 dt; s_dns := s_dns st; s_real := s_real st; s_neg := s_neg st |}.

  Definition step (mode : dial_mode) (st : cp_state) (o : op) : option (outcome * bool) * cp_state :=
    match o with
    | OpRemember key e => (None, remember_dns_knowledge st key e)
    | OpAdvance dt => (None, advance st dt)
    | OpChoose ob dst dom ka kaaaa hr ans =>
        let '(oc, asked, st') := choose_step mode st ob dst dom ka kaaaa hr ans in (Some (oc, asked), st')
    end.

  Fixpoint run (mode : dial_mode) (st : cp_state) (h : list op) : list (option (outcome * bool)) * cp_state :=
    match h with
    | [] => ([], st)
    | o :: h' =>
        let '(r, st1) := step mode st o in
        let '(rs, st2) := run mode st1 h' in (r :: rs, st2)
    end.

  (* histories in wire form: names as they arrive, keys computed by the code's own key functions *)
  Inductive wire_op :=
  | WResolved (qname : str) (qtype : N) (scope : str) (expires : Z)  (* rememberDnsKnowledge for a stored answer *)
  | WAdvance (dt : Z)
  | WChoose (outbound : N) (dst : dest) (domain : str) (has_resolvers : bool) (ans : probe_answer).

  Definition op_of_wire (w : wire_op) : op :=
    match w with
    | WResolved qn qt sc e => OpRemember (store_key qn qt sc) e
    | WAdvance dt => OpAdvance dt
    | WChoose ob dst dom hr ans => OpChoose ob dst dom (lookup_key dom qtype_a) (lookup_key dom qtype_aaaa) hr ans
    end.

  Definition init_state (now : Z) : cp_state := {| s_now := now; s_dns := []; s_real := []; s_neg := [] |}.

  (* ---- vocabulary of the history theorem: the events a run produces, and what is required of a call ---- *)
  Definition probe_events (name : str) (now : Z) (asked : bool) (ans : probe_answer) : list event :=
    if asked then
      match ans with
      | PFound => [EvVerified name now true]
      | PNoRecord => [EvVerified name now false]
      | PFail => []
      end
    else [].

  Definition step_ok (mode : dial_mode) (evs : list event) (now : Z) (outbound : N) (dst : dest)
             (domain key : str) (o : outcome) : Prop :=
    let k := knowledge_now neg_ttl evs key domain now in
    let c := classify is_ip domain in
    let r := is_reserved outbound in
    o_use_name o = spec_use_name is_ip mode r c k /\
    o_reroute o = spec_reroute is_ip mode r c k /\
    (dest_wf dst = true -> literal_clean c = true -> endpoint_constrained is_ip mode r c k = true ->
     denotes (o_target o) (spec_endpoint is_ip mode r (d_ip dst) (d_port dst) c k) = true).

  (* every ChooseDialTarget call of a history decides as the table says, with the knowledge the past
     events give *)
  Definition op_events (o : op) (now : Z) (r : option (outcome * bool)) : list event :=
    match o, r with
    | OpRemember key e, _ => [EvResolved key e]
    | OpChoose _ _ dom _ _ _ ans, Some (_, asked) => probe_events dom now asked ans
    | _, _ => []
    end.

  Fixpoint history_ok (mode : dial_mode) (st : cp_state) (evs : list event) (h : list op) : Prop :=
    match h with
    | [] => True
    | o :: h' =>
        let '(r, st') := step mode st o in
        match o, r with
        | OpChoose ob dst dom ka k6 _ _, Some (oc, _) =>
            step_ok mode evs (s_now st) ob dst dom (if d_is4 dst then ka else k6) oc
        | _, _ => True
        end /\ history_ok mode st' (evs ++ op_events o (s_now st) r) h'
    end.
End WithIp.
