(* C16 — the two-attempt probe loop: verdicts, and cancellations never count. *)
From Coq Require Import List NArith ZArith Bool Lia.
From Dae Require Import C16_Spec C16_Model C16_Proofs.
From Dae.gen Require Import C16_Consts.
Import ListNotations.
Open Scope N_scope.

Lemma C16_probe_verdict_proof : forall a1 a2 c, model_probe_verdict a1 a2 c = spec_probe_verdict a1 a2 c.
Proof. intros a1 a2 c. destruct a1, a2, c; reflexivity. Qed.

Lemma C16_probe_attempts_proof : probe_max_attempts = 2.
Proof. reflexivity. Qed.

(* whenever the context is cancelled before a second attempt completed, the probe changes nothing and fires no
   callback, whatever the attempts would have yielded; a failure is reported only when both attempts genuinely failed *)
Lemma C16_probe_cancel_never_counts_proof : forall cfg h n d a1 a2 c l,
  (c = CBefore1 \/ (a1 = AErr /\ (c = CBetween \/ c = CDuring2))) ->
  same_health (m_run cfg h) (m_run cfg (h ++ [probe_event a1 a2 c n d l]))
  /\ m_tlog (m_run cfg (h ++ [probe_event a1 a2 c n d l])) = [].
Proof.
  intros cfg h n d a1 a2 c l Hc. unfold probe_event. rewrite C16_probe_verdict_proof.
  assert (Hv : spec_probe_verdict a1 a2 c = VIgnore).
  { destruct Hc as [->|(-> & [->| ->])]; [destruct a1| |]; reflexivity. }
  rewrite Hv. cbn [verdict_event]. apply C16_ignorable_never_counts_proof. discriminate.
Qed.

Lemma C16_probe_failure_iff_proof : forall a1 a2 c,
  model_probe_verdict a1 a2 c = VFailure <-> (a1 = AErr /\ a2 = AErr /\ (c = CNone \/ c = CAfter)).
Proof.
  intros a1 a2 c. rewrite C16_probe_verdict_proof. split.
  - destruct a1, a2, c; cbn; intros H; try discriminate; repeat split; auto.
  - intros (-> & -> & [->| ->]); reflexivity.
Qed.

(* the variant "stop retrying once the context is cancelled, then judge the first attempt's error" reports a failure
   for a probe cut short by teardown *)
Fixpoint probe_loop_break_first (a1 a2 : attempt) (c : cancel_at) (i fuel : nat) (last : attempt_result) : attempt_result :=
  match fuel with
  | O => last
  | S f =>
      let ctx_cancelled := match c, i with CBefore1, _ => true | CBetween, S _ => true | _, _ => false end in
      if (match i with O => false | _ => true end) && ctx_cancelled then last     (* if i > 0 && d.ctx.Err() != nil { break } *)
      else let r := run_attempt a1 a2 c i in
           match r with RError => probe_loop_break_first a1 a2 c (S i) f r | _ => r end
  end.
Lemma C16_probe_verdict_break_first_refuted_proof :
  probe_loop_break_first AErr AErr CBetween 0 2 RNothing = RError
  /\ spec_probe_verdict AErr AErr CBetween = VIgnore
  /\ model_probe_verdict AErr AErr CBetween = VIgnore.
Proof. repeat split; reflexivity. Qed.

Print Assumptions C16_probe_verdict_proof.
Print Assumptions C16_probe_cancel_never_counts_proof.
Print Assumptions C16_probe_failure_iff_proof.
Print Assumptions C16_probe_verdict_break_first_refuted_proof.
