(* C11 — the routing of patterns to the three matching stages and the regex stage. *)
From Coq Require Import List NArith Bool.
From Dae Require Import C11_Spec C11_Model C11_Proofs.
From Dae.gen Require Import C11_Extracted.
Import ListNotations.
Open Scope N_scope.

(* AddSet routes by written kind and by nothing else: after any sequence of AddSet calls that compiled, the
   trie keys held for index i come from the full/suffix sets attached to i, the automaton's keywords from
   the keyword sets, and the regexp list is exactly the written regex patterns of the regex sets attached
   to i, in order — no regex is ever re-interpreted as a keyword or a key, no keyword as a regex. *)
Lemma stage_routing : forall rx_ok sets,
  sets_ok rx_ok sets = true ->
  let s := add_sets valid_domain_chars rx_ok sets in
  err s = false
  /\ (forall i, to_trie s i = at_idx trie_keys sets i)
  /\ (forall i, to_ac s i = at_idx kw_pats sets i)
  /\ (forall i, regexps s i = at_idx rx_pats sets i).
Proof.
  intros rx_ok sets Hs. rewrite sets_ok_eq in Hs.
  destruct (fold_ok rx_ok sets (st0) eq_refl Hs) as [E [T [A [R _]]]]. cbv zeta in *.
  change (fold_left (step rx_ok) sets st0) with (add_sets valid_domain_chars rx_ok sets) in *.
  repeat split; [exact E | intro i; apply T | intro i; apply A | intro i; apply R].
Qed.

Lemma stage_routing_error : forall rx_ok sets,
  sets_ok rx_ok sets = false -> err (add_sets valid_domain_chars rx_ok sets) = true.
Proof. intros rx_ok sets Hs. rewrite sets_ok_eq in Hs. exact (fold_bad rx_ok sets st0 eq_refl Hs). Qed.

Lemma rx_pats_regex : forall x, ps_kind x = KRegex -> rx_pats x = ps_pats x.
Proof. intros x H. unfold rx_pats. now rewrite H. Qed.

(* the regex bit: when only regex sets are attached to index i, bit i is set iff SOME regex of SOME of those
   sets matches the normalised name per the oracle *)
Lemma regex_bit : forall rx_ok rx sets raw i,
  kw_nonempty sets = true -> name_ok raw = true -> sets_ok rx_ok sets = true ->
  (forall x, In x sets -> ps_idx x = i -> ps_kind x = KRegex) ->
  exists b : bool,
    model_answer rx_ok rx sets [raw] [i] = Some [if b then [i] else []]
    /\ (b = true <-> exists x p, In x sets /\ ps_idx x = i /\ In p (ps_pats x) /\ rx p (normalize raw) = true).
Proof.
  intros rx_ok rx sets raw i Hk Hn Hs Hreg.
  exists (bit rx sets raw i). split.
  - rewrite matcher_partial; [|exact Hk | simpl; now rewrite Hn].
    unfold spec_answer. rewrite Hs. cbn [map filter]. now destruct (bit rx sets raw i).
  - unfold bit. rewrite existsb_exists. split.
    + intros [x [Hx Hb]]. apply andb_true_iff in Hb as [Hi Hm]. apply N.eqb_eq in Hi.
      unfold set_matches in Hm. apply existsb_exists in Hm as [p [Hp Hm]].
      rewrite (Hreg x Hx Hi) in Hm. cbn [pat_matches] in Hm. now exists x, p.
    + intros [x [p [Hx [Hi [Hp Hm]]]]]. exists x. split; [exact Hx|].
      apply andb_true_iff. split; [now apply N.eqb_eq|].
      unfold set_matches. apply existsb_exists. exists p. split; [exact Hp|].
      rewrite (Hreg x Hx Hi). exact Hm.
Qed.

(* "^localhost$"-like oracle: matches only the name equal to the literal; the bit follows the oracle and
   is not set for a name that merely contains the literal *)
Lemma regex_bit_nonvacuous :
  let lit := [108;111;99;97;108;104;111;115;116] in           (* localhost *)
  let pat := [94] ++ lit ++ [36] in                            (* ^localhost$ *)
  let rx := fun p n => str_eqb p pat && str_eqb n lit in
  let sets := [(65, KRegex, [pat]); (64, KKeyword, [[111;99;97]]); (1, KFull, [lit])] in
  model_answer (fun _ => true) rx sets
    [lit; [109;121;46] ++ lit ++ [46;108;97;110]; [76;79;67;65;76;72;79;83;84;46]] [65; 64; 1]
  = Some [[65; 64; 1]; [64]; [65; 64; 1]].
Proof. vm_compute. reflexivity. Qed.
