(* C13 — proofs about the small-step tracker model with threads (C13_TrFine.v).
   Main results:
     C13_tuple_refcount_concurrent_proof : with recheck = true, for all thread lists and all schedules, every
       reachable state satisfies refs_match (for every key) and deletes_ok.
     C13_tuple_wait_once_refuted_proof   : with recheck = false a closed schedule violates both. *)
From Coq Require Import List Arith Bool Lia.
From Dae Require Import C13_Model C13_Proofs C13_TrFine.
Import ListNotations.

(* ------------------------------------------------------------------------------------------ *)
(* generic list facts                                                                          *)
(* ------------------------------------------------------------------------------------------ *)
Definition bn (b : bool) : nat := if b then 1 else 0.

Lemma filt_upd {A} (f : A -> bool) (l : list A) i x y :
  nth_error l i = Some x ->
  length (filter f (upd l i y)) + bn (f x) = length (filter f l) + bn (f y).
Proof.
  revert i. induction l as [|z r IH]; intros [|i] H; cbn in *; try discriminate.
  - inversion H; subst. destruct (f x), (f y); cbn; lia.
  - specialize (IH i H). destruct (f z); cbn; lia.
Qed.

Lemma filt_ge {A} (f : A -> bool) (l : list A) i x :
  nth_error l i = Some x -> bn (f x) <= length (filter f l).
Proof.
  revert i. induction l as [|z r IH]; intros [|i] H; cbn in *; try discriminate.
  - inversion H; subst. destruct (f x); cbn; lia.
  - specialize (IH i H). destruct (f z); cbn; lia.
Qed.

Lemma filt_map {A} (f : A -> bool) (g : A -> A) (l : list A) :
  (forall x, f (g x) = f x) -> length (filter f (map g l)) = length (filter f l).
Proof.
  intros H. induction l as [|z r IH]; cbn; [reflexivity|].
  rewrite H. destruct (f z); cbn; now rewrite IH.
Qed.

(* ------------------------------------------------------------------------------------------ *)
(* program-counter classification                                                              *)
(* ------------------------------------------------------------------------------------------ *)
Definition own (pc : opc) : bool := match pc with OHeld | OFWait _ | OFWoken => true | _ => false end.
Definition pc_eid (pc : opc) : option nat :=
  match pc with ORWait e | OFWait e | OKernel e | OFinal e => Some e | _ => None end.
Definition is_del (pc : opc) : bool := match pc with OKernel _ | OFinal _ => true | _ => false end.

Lemma is_owner_eq k t : is_owner k t = (o_key t =? k) && own (o_pc t).
Proof. reflexivity. Qed.

Definition bc1 (eid : nat) (t : othread) : othread :=
  match o_pc t with
  | ORWait e => if e =? eid then mkO (o_key t) (o_mode t) ORWoken else t
  | OFWait e => if e =? eid then mkO (o_key t) (o_mode t) OFWoken else t
  | _ => t end.

Definition bcf (b : option nat) (t : othread) : othread :=
  match b with Some e => bc1 e t | None => t end.

Definition bcast (b : option nat) (thr : list othread) : list othread :=
  match b with Some e => broadcast thr e | None => thr end.

Lemma bcf_key b t : o_key (bcf b t) = o_key t.
Proof.
  destruct b as [e|]; [|reflexivity]. unfold bcf, bc1.
  destruct (o_pc t); try reflexivity; destruct (_ =? _); reflexivity.
Qed.

Lemma bcf_own b t : own (o_pc (bcf b t)) = own (o_pc t).
Proof.
  destruct b as [e|]; [|reflexivity]. unfold bcf, bc1.
  destruct (o_pc t) eqn:E; try (now rewrite E); destruct (_ =? _); cbn; now rewrite ?E.
Qed.

Lemma bcf_del b t : is_del (o_pc (bcf b t)) = is_del (o_pc t).
Proof.
  destruct b as [e|]; [|reflexivity]. unfold bcf, bc1.
  destruct (o_pc t) eqn:E; try (now rewrite E); destruct (_ =? _); cbn; now rewrite ?E.
Qed.

Lemma bcf_eid b t e :
  pc_eid (o_pc (bcf b t)) = Some e ->
  pc_eid (o_pc t) = Some e /\ (is_del (o_pc t) = true \/ b <> Some e).
Proof.
  destruct b as [e0|]; [|intros H; split; [exact H|right; discriminate]].
  unfold bcf, bc1. destruct (o_pc t) eqn:E; rewrite ?E; cbn; try discriminate.
  - destruct (eid =? e0) eqn:Q; cbn; [discriminate|]. rewrite E. cbn. intros H; inversion H; subst.
    split; [reflexivity|]. right. intros H'; inversion H'; subst. now rewrite Nat.eqb_refl in Q.
  - intros H; split; [exact H|now left].
  - intros H; split; [exact H|now left].
  - destruct (eid =? e0) eqn:Q; cbn; [discriminate|]. rewrite E. cbn. intros H; inversion H; subst.
    split; [reflexivity|]. right. intros H'; inversion H'; subst. now rewrite Nat.eqb_refl in Q.
Qed.

Lemma bcf_is_owner b k t : is_owner k (bcf b t) = is_owner k t.
Proof. rewrite !is_owner_eq, bcf_key, bcf_own. reflexivity. Qed.

Lemma nth_bcast b thr j u' :
  nth_error (bcast b thr) j = Some u' -> exists u, nth_error thr j = Some u /\ u' = bcf b u.
Proof.
  destruct b as [e|]; cbn.
  - change (broadcast thr e) with (map (bc1 e) thr).
    rewrite nth_error_map. destruct (nth_error thr j) as [u|]; cbn; [|discriminate].
    intros H; inversion H. eauto.
  - eauto.
Qed.

Lemma owners_bcast b thr k :
  length (filter (is_owner k) (bcast b thr)) = length (filter (is_owner k) thr).
Proof.
  destruct b as [e|]; cbn; [|reflexivity].
  apply (filt_map (is_owner k) (bc1 e)). intros x. apply (bcf_is_owner (Some e)).
Qed.

(* ------------------------------------------------------------------------------------------ *)
(* the invariant                                                                               *)
(* ------------------------------------------------------------------------------------------ *)
Definition entry_ok (o : option fentry) (n : nat) : Prop :=
  match o with
  | None => n = 0
  | Some e => if fe_deleting e then n = 0 /\ fe_refs e = 0 else fe_refs e = n /\ 0 < n
  end.

Record Inv (s : trstate) : Prop := mkInv {
  iA : forall k, entry_ok (r_entries s k) (owners_of s k);
  iB : forall i t e, nth_error (r_thr s) i = Some t -> pc_eid (o_pc t) = Some e ->
                     r_entries s (o_key t) = Some (mkFE e 0 true);
  iC : forall i j t u, nth_error (r_thr s) i = Some t -> nth_error (r_thr s) j = Some u ->
                       o_key t = o_key u -> is_del (o_pc t) = true -> is_del (o_pc u) = true -> i = j;
  iD : deletes_ok s = true }.

(* generic preservation: thread i (currently t) moves to pc', the entry map changes at most at the key of
   t, and optionally entry id b is broadcast *)
Lemma Inv_step s i t pc' ent' nx' b dl' :
  Inv s -> nth_error (r_thr s) i = Some t ->
  (forall k, k <> o_key t -> ent' k = r_entries s k) ->
  (forall n', n' + bn (own (o_pc t)) = owners_of s (o_key t) + bn (own pc') -> entry_ok (ent' (o_key t)) n') ->
  (forall e, pc_eid pc' = Some e -> (is_del pc' = true \/ b <> Some e) ->
             ent' (o_key t) = Some (mkFE e 0 true)) ->
  (forall j u e, j <> i -> nth_error (r_thr s) j = Some u -> o_key u = o_key t ->
                 pc_eid (o_pc u) = Some e -> r_entries s (o_key t) = Some (mkFE e 0 true) ->
                 (is_del (o_pc u) = true \/ b <> Some e) ->
                 ent' (o_key t) = Some (mkFE e 0 true)) ->
  (is_del pc' = true -> forall j u, j <> i -> nth_error (r_thr s) j = Some u -> o_key u = o_key t ->
                                    is_del (o_pc u) = false) ->
  forallb (fun d => snd d =? 0) dl' = true ->
  Inv (mkTR ent' nx' (bcast b (upd (r_thr s) i (mkO (o_key t) (o_mode t) pc'))) dl').
Proof.
  intros [A B C D] Hn Hoff HA HBi HBo HC HD.
  set (t' := mkO (o_key t) (o_mode t) pc').
  assert (NTH : forall j u', nth_error (bcast b (upd (r_thr s) i t')) j = Some u' ->
            exists u, u' = bcf b u /\ ((j = i /\ u = t') \/ (j <> i /\ nth_error (r_thr s) j = Some u))).
  { intros j u' H. apply nth_bcast in H. destruct H as (u&H&->). exists u. split; [reflexivity|].
    rewrite nth_error_upd, Hn in H. destruct (j =? i) eqn:Q.
    - apply Nat.eqb_eq in Q. left. split; [exact Q|]. now inversion H.
    - apply Nat.eqb_neq in Q. right. split; assumption. }
  constructor; cbn [r_entries r_thr r_next r_deletes].
  - intros k. unfold owners_of; cbn [r_thr]. rewrite owners_bcast.
    pose proof (filt_upd (is_owner k) (r_thr s) i t t' Hn) as F.
    rewrite !is_owner_eq in F. subst t'. cbn [o_key o_pc] in F.
    destruct (Nat.eq_dec k (o_key t)) as [->|Nk].
    + rewrite Nat.eqb_refl in F. cbn [andb] in F. apply HA. exact F.
    + rewrite Hoff by exact Nk. assert (Q : (o_key t =? k) = false) by (apply Nat.eqb_neq; congruence).
      rewrite Q in F. cbn in F. rewrite Nat.add_0_r in F.
      rewrite Nat.add_0_r in F. rewrite F. apply A.
  - intros j u' e H He. destruct (NTH j u' H) as (u&->&[[-> ->]|[Nj Hu]]).
    + rewrite bcf_key. apply bcf_eid in He. destruct He as (He&Hb). subst t'. cbn [o_key o_pc] in *.
      apply HBi; assumption.
    + rewrite bcf_key. apply bcf_eid in He. destruct He as (He&Hb).
      destruct (Nat.eq_dec (o_key u) (o_key t)) as [Ek|Nk].
      * rewrite Ek. apply (HBo j u e); try assumption. rewrite <- Ek. eapply B; eassumption.
      * rewrite Hoff by exact Nk. eapply B; eassumption.
  - intros j1 j2 u1' u2' H1 H2 Ek D1 D2.
    destruct (NTH j1 u1' H1) as (u1&->&R1). destruct (NTH j2 u2' H2) as (u2&->&R2).
    rewrite !bcf_key in Ek. rewrite bcf_del in D1, D2.
    destruct R1 as [[-> ->]|[N1 Hu1]], R2 as [[-> ->]|[N2 Hu2]].
    + reflexivity.
    + subst t'. cbn [o_key o_pc] in *. rewrite (HC D1 j2 u2 N2 Hu2 (eq_sym Ek)) in D2. discriminate.
    + subst t'. cbn [o_key o_pc] in *. rewrite (HC D2 j1 u1 N1 Hu1 Ek) in D1. discriminate.
    + eapply C; eassumption.
  - exact HD.
Qed.

Lemma is_del_eid pc : is_del pc = true -> exists e, pc_eid pc = Some e.
Proof. destruct pc; cbn; try discriminate; eauto. Qed.

Ltac g1 := intros k' N; first [ reflexivity | unfold eset; apply Nat.eqb_neq in N; rewrite N; reflexivity ].
Ltac g2 E Epc HA GE :=
  let n' := fresh "n'" in let Hn' := fresh "Hn'" in
  intros n' Hn'; unfold eset; rewrite ?Nat.eqb_refl, ?E; rewrite ?Epc in *; cbn in *; try lia; try (split; lia).
Ltac g3 E HA :=
  let e := fresh "e" in let He := fresh "He" in let Hb := fresh "Hb" in
  intros e He Hb; cbn in He; try discriminate He; inversion He; subst;
  unfold eset; rewrite ?Nat.eqb_refl, ?E; cbn in *;
  try (destruct HA; subst; reflexivity); try reflexivity.
Ltac g4 E :=
  let Ee := fresh "Ee" in
  intros j u e Nj Hu Ek He Ee Hb; unfold eset; rewrite ?Nat.eqb_refl; first [ exact Ee | congruence | idtac ].

Ltac g5 := let Hd := fresh "Hd" in intros Hd; discriminate Hd.
Ltac stp s i t I Hn E Epc HA GE HD pc' b :=
  apply (Inv_step s i t pc' _ _ b _ I Hn); [g1|g2 E Epc HA GE|g3 E HA|g4 E|try g5|try exact HD].

Ltac retain_case s i t I Hn Epc HA GE HD :=
  let E := fresh "E" in let id := fresh "id" in let refs := fresh "refs" in let del := fresh "del" in
  destruct (r_entries s (o_key t)) as [[id refs del]|] eqn:E; cbn [fe_id fe_refs fe_deleting] in *;
  [destruct del;
   [stp s i t I Hn E Epc HA GE HD (ORWait id) (@None nat)
   |stp s i t I Hn E Epc HA GE HD OHeld (@None nat)]
  |stp s i t I Hn E Epc HA GE HD OHeld (@None nat)].

Ltac forget_case s i t I Hn Epc HA GE HD :=
  let E := fresh "E" in let id := fresh "id" in let refs := fresh "refs" in let del := fresh "del" in
  let Q := fresh "Q" in
  destruct (r_entries s (o_key t)) as [[id refs del]|] eqn:E; cbn [fe_id fe_refs fe_deleting] in *;
  [destruct del;
   [stp s i t I Hn E Epc HA GE HD (OFWait id) (@None nat)
   |destruct (1 <? refs) eqn:Q;
    [apply Nat.ltb_lt in Q; stp s i t I Hn E Epc HA GE HD ODone (@None nat)
    |apply Nat.ltb_ge in Q; stp s i t I Hn E Epc HA GE HD ODone (Some id)]]
  |stp s i t I Hn E Epc HA GE HD ODone (@None nat)].

Lemma Inv_tr_step s i : Inv s -> Inv (tr_step true s i).
Proof.
  intros I. unfold tr_step. destruct (nth_error (r_thr s) i) as [t|] eqn:Hn; [|exact I].
  pose proof (iA s I (o_key t)) as HA.
  pose proof (filt_ge (is_owner (o_key t)) (r_thr s) i t Hn) as GE.
  rewrite is_owner_eq, Nat.eqb_refl in GE. cbn [andb] in GE. fold (owners_of s (o_key t)) in GE.
  pose proof (fun e => iB s I i t e Hn) as HB.
  pose proof (fun j u => iC s I i j t u Hn) as HC.
  pose proof (iD s I) as HD. unfold deletes_ok in HD.
  destruct (o_pc t) eqn:Epc; cbn [negb andb]; try exact I.
  - (* OStart *) retain_case s i t I Hn Epc HA GE HD.
  - (* ORWoken *) retain_case s i t I Hn Epc HA GE HD.
  - (* OHeld *)
    destruct (o_mode t) as [|[|[|m]]]; try exact I.
    + (* release *)
      destruct (r_entries s (o_key t)) as [[id refs del]|] eqn:E; cbn [fe_id fe_refs fe_deleting] in *;
        [destruct del; [|destruct refs as [|[|r]]]|].
      * stp s i t I Hn E Epc HA GE HD ODone (@None nat).
      * stp s i t I Hn E Epc HA GE HD ODone (@None nat).
      * stp s i t I Hn E Epc HA GE HD (OKernel id) (@None nat).
        intros _ j u Nj Hu Ek. destruct (is_del (o_pc u)) eqn:Du; [|reflexivity].
        destruct (is_del_eid _ Du) as (e&He). pose proof (iB s I j u e Hu He) as B'.
        rewrite Ek in B'. congruence.
      * stp s i t I Hn E Epc HA GE HD ODone (@None nat).
      * stp s i t I Hn E Epc HA GE HD ODone (@None nat).
    + (* forget *) forget_case s i t I Hn Epc HA GE HD.
  - (* OKernel *)
    pose proof (HB eid eq_refl) as E. rewrite E in HA. cbn in HA.
    stp s i t I Hn E Epc HA GE HD (OFinal eid) (@None nat).
    + intros _ j u Nj Hu Ek. destruct (is_del (o_pc u)) eqn:Du; [|reflexivity].
      exfalso. apply Nj. symmetry. apply (HC j u Hu (eq_sym Ek)); [reflexivity|exact Du].
    + rewrite forallb_app, HD. destruct HA as [-> _]. reflexivity.
  - (* OFinal *)
    pose proof (HB eid eq_refl) as E. rewrite E in *. cbn in HA.
    cbn [fe_id]. rewrite Nat.eqb_refl.
    stp s i t I Hn E Epc HA GE HD ODone (Some eid).
    destruct Hb as [Du|Ne].
    + exfalso. apply Nj. symmetry. apply (HC j u Hu (eq_sym Ek)); [reflexivity|exact Du].
    + exfalso. apply Ne. congruence.
  - (* OFWoken *) forget_case s i t I Hn Epc HA GE HD.
Qed.

Lemma Inv_init thr : Inv (tr_init thr).
Proof.
  assert (P : forall j u, nth_error (r_thr (tr_init thr)) j = Some u -> o_pc u = OStart).
  { unfold tr_init; cbn [r_thr]. intros j u H. rewrite nth_error_map in H.
    destruct (nth_error thr j); cbn in H; [|discriminate]. inversion H. reflexivity. }
  constructor.
  - intros k. cbn. unfold owners_of, tr_init; cbn [r_thr]. induction thr as [|x r IH]; cbn; [reflexivity|].
    rewrite is_owner_eq. cbn. rewrite andb_false_r. apply IH.
    intros j u H. apply (P (S j) u). exact H.
  - intros j u e H He. rewrite (P j u H) in He. discriminate.
  - intros j1 j2 u1 u2 H1 _ _ D1 _. rewrite (P j1 u1 H1) in D1. discriminate.
  - reflexivity.
Qed.

Lemma Inv_run thr sched : Inv (tr_run true thr sched).
Proof.
  unfold tr_run. generalize (Inv_init thr). generalize (tr_init thr).
  induction sched as [|i r IH]; intros s I; cbn; [exact I|]. apply IH. now apply Inv_tr_step.
Qed.

Lemma Inv_refs_match s k : Inv s -> refs_match s k = true.
Proof.
  intros I. pose proof (iA s I k) as A. unfold refs_match, entry_ok in *.
  destruct (r_entries s k) as [[id refs del]|]; cbn [fe_deleting fe_refs] in *.
  - destruct del.
    + destruct A as [-> ->]. reflexivity.
    + destruct A as [-> A]. rewrite Nat.eqb_refl. cbn [andb]. now apply Nat.ltb_lt.
  - rewrite A. reflexivity.
Qed.

Lemma C13_tuple_refcount_concurrent_proof :
  forall (thr : list (nat * nat)) (sched : list nat) (k : nat),
    let s := tr_run true thr sched in
    refs_match s k = true /\ deletes_ok s = true.
Proof.
  intros thr sched k s. pose proof (Inv_run thr sched) as I. fold s in I.
  split; [now apply Inv_refs_match|exact (iD s I)].
Qed.

Lemma C13_tuple_wait_once_refuted_proof :
  exists thr sched, deletes_ok (tr_run false thr sched) = false /\
                    exists k, refs_match (tr_run false thr sched) k = false.
Proof.
  exists [(0,1);(0,1);(0,0)], [0;0;1;2;0;0;1;2;1;1]. split; [vm_compute; reflexivity|].
  exists 0. vm_compute. reflexivity.
Qed.

Print Assumptions C13_tuple_refcount_concurrent_proof.
Print Assumptions C13_tuple_wait_once_refuted_proof.
