(* C17 — capacity cases on lowered programs: counts and verdicts only (no proofs). *)
From Coq Require Import List NArith Bool.
From Dae Require Import C17_Spec C17_Model C17_Capacity.
From Dae.gen Require Import Extracted_C17.
Import ListNotations.
Open Scope N_scope.

(* a program given run-length encoded: (repetitions, rule) *)
Record cap2_case := { c2_blocks : list (nat * rule); c2_impl : N (* 0 ok, 1 error, 2 crash *);
                      c2_names_limit : bool (* the error message names the limit *) }.
Definition c2_program (c : cap2_case) : program := flat_map (fun b => repeat (snd b) (fst b)) (c2_blocks c).

(* codes: 1 impl<>model, 2 impl<>spec (oversized program accepted / limit not named / in-limit refused as oversized),
          9 crash, 3 model<>spec *)
Definition check_cap2 (c : cap2_case) : list N :=
  let p := c2_program c in
  let over := max_match_set_len <? n_match_sets p in
  let m := compile p in
  let e_im := match m, c2_impl c with WOk _, 0 | WErr, 1 | WCrashed, 2 => [] | _, _ => [1] end in
  let e_is := if c2_impl c =? 2 then [9]
              else if over && (c2_impl c =? 0) then [2]
              else if over && negb (c2_names_limit c) then [2]
              else if negb over && c2_names_limit c then [2] else [] in
  let e_ms := match m with WCrashed => [3] | WOk _ => if over then [3] else [] | WErr => if over then [] else [3] end in
  e_im ++ e_is ++ e_ms.
Definition cap2_signature (c : cap2_case) : N * N * N :=
  let p := c2_program c in
  (match compile p with WOk _ => 0 | WErr => 1 | WCrashed => 2 end, n_conditions p, n_match_sets p).
