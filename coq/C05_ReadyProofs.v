(* C05 - the Sniffer's dataReady signal: lemmas. *)
From Coq Require Import List NArith Bool Lia ZifyBool ZifyN.
From Dae Require Import C05_ReadyModel.
From Dae.gen Require Import C05_Extracted.
Import ListNotations.
Open Scope N_scope.

Lemma sniff_ready_once : forall closes rounds,
  (forall x, closes x = 1) ->
  forall st ret, sniff_ready closes rounds 0 = (st, ret) -> ret = true -> st = 1.
Proof.
  intros closes rounds Hc. induction rounds as [|[x v] rest IH]; intros st ret H Hr; cbn [sniff_ready] in H.
  - inversion H; subst. discriminate.
  - rewrite Hc in H. cbn in H. destruct x, v; try (inversion H; subst; reflexivity). eapply IH; eauto.
Qed.

Lemma code_closes_once : forall x, code_closes x = 1.
Proof. intros []; reflexivity. Qed.

(* after SniffTcp returns - whatever the reads and the parsers did - the channel TakeRelaySegments / Read wait on
   has been closed exactly once: they do not block and no close panics *)
Lemma ready_after_sniff_proof : forall rounds st ret,
  sniff_ready code_closes rounds 0 = (st, ret) -> ret = true ->
  receive_blocks st = false /\ close_panics st = false.
Proof.
  intros rounds st ret H Hr. pose proof (sniff_ready_once code_closes rounds code_closes_once st ret H Hr). subst.
  split; reflexivity.
Qed.

(* the Sniffer model of C05_Model.sniff_rounds (a timeout or an end of stream records no dataError, any other
   error does) is what the source does *)
Lemma code_derr_as_modelled : code_derr ROk = false /\ code_derr RTimeout = false /\ code_derr RErr = true.
Proof. repeat split; reflexivity. Qed.

(* the variant that returns early on the expired deadline without closing the channel *)
Definition seed_closes (x : rexit) : N := match x with RTimeout => 0 | _ => 1 end.
Lemma ready_seed_refuted_proof :
  exists rounds, let '(st, ret) := sniff_ready seed_closes rounds 0 in ret = true /\ receive_blocks st = true.
Proof. exists [(RTimeout, VDone)]. vm_compute. split; reflexivity. Qed.
