(* C06 — no out-of-bounds access in the TLS extractor, for both locators. *)
From Dae.gen Require Import C06_Extracted.
From Dae Require Import C06_Spec C06_Model C06_Statements.
From Coq Require Import List NArith Bool Arith Lia ZifyBool ZifyN ZifyNat.
Import ListNotations.
Open Scope N_scope.

(* ------------------------------------------------------------------ basic list facts *)
Lemma oob_blen_app : forall a b : bytes, blen (a ++ b) = blen a + blen b.
Proof. intros; unfold blen; rewrite app_length; lia. Qed.

Lemma oob_blen_skipn : forall (n : nat) (l : bytes), blen (skipn n l) = blen l - N.of_nat n.
Proof. intros; unfold blen; rewrite skipn_length; lia. Qed.

Lemma oob_sub_app : forall (d s : bytes) (i j : N),
  j <= blen d -> sub (d ++ s) i j = sub d i j.
Proof.
  intros d s i j H. unfold sub, blen in *.
  rewrite skipn_app, firstn_app.
  replace (N.to_nat (j - i) - length (skipn (N.to_nat i) d))%nat with 0%nat
    by (rewrite skipn_length; lia).
  cbn [firstn]. destruct (skipn (N.to_nat i - length d) s); apply app_nil_r.
Qed.

Lemma oob_skipn_app : forall (d s : bytes) (i : N),
  i <= blen d -> skipn (N.to_nat i) (d ++ s) = skipn (N.to_nat i) d ++ s.
Proof.
  intros d s i H. unfold blen in *. rewrite skipn_app.
  replace (N.to_nat i - length d)%nat with 0%nat by lia. reflexivity.
Qed.

Lemma oob_nth_app : forall (d s : bytes) (i : N),
  i < blen d -> nth (N.to_nat i) (d ++ s) 0 = nth (N.to_nat i) d 0.
Proof. intros d s i H. unfold blen in *. apply app_nth1. lia. Qed.

Lemma oob_blen_sub : forall (l : bytes) (i j : N), j <= blen l -> blen (sub l i j) = j - i.
Proof.
  intros l i j H. unfold sub, blen in *. rewrite firstn_length, skipn_length. lia.
Qed.

(* ------------------------------------------------------------------ byte locator: in-bounds accesses *)
Definition mkb (d s : bytes) (len : N) : bloc := {| b_data := d ++ s; b_len := len |}.

Lemma oob_b_range : forall d s len i j,
  i <= j -> j <= len -> len <= blen d ->
  b_range (mkb d s len) i j = Ok (sub d i j, mkb d s len).
Proof.
  intros. unfold b_range, mkb; cbn [b_data b_len].
  rewrite oob_blen_app.
  replace ((i <=? j) && (j <=? blen d + blen s)) with true by lia.
  rewrite oob_sub_app by lia. reflexivity.
Qed.

Lemma oob_b_at : forall d s len i,
  i < len -> len <= blen d ->
  b_at (mkb d s len) i = Ok (nth (N.to_nat i) d 0, mkb d s len).
Proof.
  intros. unfold b_at, mkb; cbn [b_data b_len].
  replace (i <? len) with true by lia.
  rewrite oob_nth_app by lia. reflexivity.
Qed.

Lemma oob_b_slice : forall d s len i j,
  i <= j -> j <= len -> len <= blen d ->
  b_slice (mkb d s len) i j = Ok (mkb (skipn (N.to_nat i) d) s (j - i)).
Proof.
  intros. unfold b_slice, mkb; cbn [b_data b_len].
  rewrite oob_blen_app.
  replace ((i <=? j) && (j <=? blen d + blen s)) with true by lia.
  rewrite oob_skipn_app by lia. reflexivity.
Qed.

(* ------------------------------------------------------------------ byte locator: the loops *)
(* two runs over the same data with different slack and different (sufficient) fuel agree, and
   neither leaves the slice nor runs out of fuel *)
Lemma oob_host_loop : forall f d len inext s s' f' j,
  inext <= len -> len <= blen d ->
  f <> 0%nat -> f' <> 0%nat ->
  inext < N.of_nat f + j + 2 -> inext < N.of_nat f' + j + 2 ->
  (host_loop bytes_ops f (mkb d s len) j inext = Ok (mkb d s len) /\
   host_loop bytes_ops f' (mkb d s' len) j inext = Ok (mkb d s' len))
  \/ exists r, r <> Oob /\ r <> OutOfFuel
       /\ host_loop bytes_ops f (mkb d s len) j inext = Err r
       /\ host_loop bytes_ops f' (mkb d s' len) j inext = Err r.
Proof.
  induction f as [|f IH]; intros d len inext s s' f' j Hin Hlen Hf Hf' Hm Hm'; [congruence|].
  destruct f' as [|f']; [congruence|].
  cbn [host_loop op_range bytes_ops].
  destruct (j + 3 <=? inext) eqn:E1; [|left; split; reflexivity].
  rewrite (oob_b_range d s), (oob_b_range d s') by lia. cbv beta iota.
  set (b := sub d j (j + 3)).
  set (ilen := nthb 1 b * 256 + nthb 2 b).
  destruct (negb (nthb 0 b =? tls_name_type_host)) eqn:E2.
  { apply IH; lia. }
  destruct (inext <? j + 3 + ilen) eqn:E3.
  { right. exists NotApplicable. repeat split; discriminate. }
  rewrite (oob_b_range d s), (oob_b_range d s') by lia. cbv beta iota.
  right. eexists. split; [|split; [|split; reflexivity]]; discriminate.
Qed.

Lemma oob_find_loop : forall f d len s s' g g' f' i,
  len <= blen d ->
  g <> 0%nat -> g' <> 0%nat -> len <= N.of_nat g -> len <= N.of_nat g' ->
  f <> 0%nat -> f' <> 0%nat ->
  len < N.of_nat f + i + 4 -> len < N.of_nat f' + i + 4 ->
  find_loop bytes_ops g f (mkb d s len) i = find_loop bytes_ops g' f' (mkb d s' len) i
  /\ find_loop bytes_ops g f (mkb d s len) i <> Oob
  /\ find_loop bytes_ops g f (mkb d s len) i <> OutOfFuel.
Proof.
  induction f as [|f IH]; intros d len s s' g g' f' i Hlen Hg Hg' Hgl Hgl' Hf Hf' Hm Hm';
    [congruence|].
  destruct f' as [|f']; [congruence|].
  cbn [find_loop op_len op_range bytes_ops].
  change (b_len (mkb d s len)) with len. change (b_len (mkb d s' len)) with len.
  destruct (len <=? i + 4) eqn:E1; [repeat split; discriminate|].
  rewrite (oob_b_range d s), (oob_b_range d s') by lia. cbv beta iota zeta.
  change (b_len (mkb d s len)) with len. change (b_len (mkb d s' len)) with len.
  set (b := sub d i (i + 4)).
  set (elen := nthb 2 b * 256 + nthb 3 b).
  destruct (len <? i + 4 + elen) eqn:E2; [repeat split; discriminate|].
  destruct (u16 b =? tls_ext_server_name) eqn:E3; [|apply IH; lia].
  destruct (elen <? 2) eqn:E4; [repeat split; discriminate|].
  rewrite (oob_b_range d s), (oob_b_range d s') by lia. cbv beta iota.
  set (b2 := sub d (i + 4) (i + 6)).
  destruct (elen <? u16 b2 + 2) eqn:E5; [repeat split; discriminate|].
  destruct (oob_host_loop g d len (i + 4 + elen) s s' g' (i + 6))
    as [[H1 H2]|[r [Hr1 [Hr2 [H1 H2]]]]]; try lia.
  - rewrite H1, H2. apply IH; lia.
  - rewrite H1, H2. repeat split; assumption.
Qed.

Lemma oob_extract_bytes : forall d len s s',
  len <= blen d ->
  extract_sni bytes_ops (mkb d s len) = extract_sni bytes_ops (mkb d s' len)
  /\ extract_sni bytes_ops (mkb d s len) <> Oob
  /\ extract_sni bytes_ops (mkb d s len) <> OutOfFuel.
Proof.
  intros d len s s' Hlen.
  unfold extract_sni. cbn [op_len op_range op_at op_slice bytes_ops].
  change (b_len (mkb d s len)) with len. change (b_len (mkb d s' len)) with len.
  destruct (len <? 39) eqn:E0; [repeat split; discriminate|].
  rewrite (oob_b_range d s), (oob_b_range d s') by lia. cbv beta iota zeta.
  change (b_len (mkb d s len)) with len. change (b_len (mkb d s' len)) with len.
  set (b0 := sub d 0 6).
  destruct (negb (nthb 0 b0 =? tls_hs_client_hello)); [repeat split; discriminate|].
  destruct (negb (nthb 4 b0 =? 3) || (nthb 5 b0 <? 1) || (3 <? nthb 5 b0));
    [repeat split; discriminate|].
  rewrite (oob_b_at d s), (oob_b_at d s') by lia. cbv beta iota zeta.
  change (b_len (mkb d s len)) with len. change (b_len (mkb d s' len)) with len.
  set (sid := nth (N.to_nat 38) d 0).
  set (bd1 := 39 + sid + 2).
  destruct (len <? bd1) eqn:E1; [repeat split; discriminate|].
  rewrite (oob_b_range d s), (oob_b_range d s') by lia. cbv beta iota zeta.
  change (b_len (mkb d s len)) with len. change (b_len (mkb d s' len)) with len.
  set (b1 := sub d (bd1 - 2) bd1).
  set (bd2 := bd1 + u16 b1 + 1).
  destruct (len <? bd2) eqn:E2; [repeat split; discriminate|].
  rewrite (oob_b_at d s), (oob_b_at d s') by lia. cbv beta iota zeta.
  change (b_len (mkb d s len)) with len. change (b_len (mkb d s' len)) with len.
  set (cm := nth (N.to_nat (bd2 - 1)) d 0).
  set (bd3 := bd2 + cm + 2).
  destruct (len <? bd3) eqn:E3; [repeat split; discriminate|].
  rewrite (oob_b_range d s), (oob_b_range d s') by lia. cbv beta iota zeta.
  change (b_len (mkb d s len)) with len. change (b_len (mkb d s' len)) with len.
  set (b3 := sub d (bd3 - 2) bd3).
  set (elen := u16 b3).
  set (bd4 := bd3 + elen).
  destruct (len <? bd4) eqn:E4; [repeat split; discriminate|].
  rewrite (oob_b_slice d s), (oob_b_slice d s') by lia. cbv beta iota zeta.
  unfold find_sni_extension. cbn [op_fuel bytes_ops].
  set (k := bd4 - elen).
  set (d' := skipn (N.to_nat k) d).
  assert (Hd' : blen d' = blen d - k).
  { unfold d'. rewrite oob_blen_skipn. lia. }
  change (b_data (mkb d' s (bd4 - k))) with (d' ++ s).
  change (b_data (mkb d' s' (bd4 - k))) with (d' ++ s').
  assert (Hs : N.of_nat (S (length (d' ++ s))) = blen d' + blen s + 1).
  { rewrite <- oob_blen_app. unfold blen. lia. }
  assert (Hs' : N.of_nat (S (length (d' ++ s'))) = blen d' + blen s' + 1).
  { rewrite <- oob_blen_app. unfold blen. lia. }
  apply oob_find_loop; try discriminate; lia.
Qed.

Lemma C06_tls_no_oob_proof : C06_tls_no_oob_stmt.
Proof.
  intros data slack. unfold extract_sni_strict, extract_sni_bytes, bloc_of.
  destruct (oob_extract_bytes data (blen data) [] slack (N.le_refl _)) as [H1 [H2 H3]].
  unfold mkb in *. split; [assumption|]. split; [symmetry|]; assumption.
Qed.
Print Assumptions C06_tls_no_oob_proof.

(* ------------------------------------------------------------------ generic: no Oob from safe operations *)
Section GenericNoOob.
  Context {L : Type} (ops : loc_ops L) (I : L -> Prop).
  Hypothesis Hr : forall l i j, I l -> i <= j ->
    match op_range ops l i j with Ok (_, l1) => I l1 | Err r => r <> Oob end.
  Hypothesis Ha : forall l i, I l ->
    match op_at ops l i with Ok (_, l1) => I l1 | Err r => r <> Oob end.
  Hypothesis Hs : forall l i j, I l -> i <= j ->
    match op_slice ops l i j with Ok l1 => I l1 | Err r => r <> Oob end.

  Lemma oob_gen_host_loop : forall f l j inext, I l ->
    match host_loop ops f l j inext with Ok l1 => I l1 | Err r => r <> Oob end.
  Proof.
    induction f as [|f IH]; intros l j inext HI; cbn [host_loop]; [discriminate|].
    destruct (j + 3 <=? inext); [|assumption].
    pose proof (Hr l j (j + 3) HI ltac:(lia)) as H1.
    destruct (op_range ops l j (j + 3)) as [[b l1]|r]; [|assumption].
    destruct (negb (nthb 0 b =? tls_name_type_host)); [apply IH; assumption|].
    destruct (inext <? j + 3 + (nthb 1 b * 256 + nthb 2 b)); [discriminate|].
    pose proof (Hr l1 (j + 3) (j + 3 + (nthb 1 b * 256 + nthb 2 b)) H1 ltac:(lia)) as H2.
    destruct (op_range ops l1 (j + 3) (j + 3 + (nthb 1 b * 256 + nthb 2 b))) as [[nm l2]|r];
      [discriminate|assumption].
  Qed.

  Lemma oob_gen_find_loop : forall g f l i, I l -> find_loop ops g f l i <> Oob.
  Proof.
    induction f as [|f IH]; intros l i HI; cbn [find_loop]; [discriminate|].
    destruct (op_len ops l <=? i + 4); [discriminate|].
    pose proof (Hr l i (i + 4) HI ltac:(lia)) as H1.
    destruct (op_range ops l i (i + 4)) as [[b l1]|r]; [|assumption].
    cbv zeta.
    destruct (op_len ops l1 <? i + 4 + (nthb 2 b * 256 + nthb 3 b)); [discriminate|].
    destruct (u16 b =? tls_ext_server_name); [|apply IH; assumption].
    destruct (nthb 2 b * 256 + nthb 3 b <? 2); [discriminate|].
    pose proof (Hr l1 (i + 4) (i + 6) H1 ltac:(lia)) as H2.
    destruct (op_range ops l1 (i + 4) (i + 6)) as [[b2 l2]|r]; [|assumption].
    destruct (nthb 2 b * 256 + nthb 3 b <? u16 b2 + 2); [discriminate|].
    pose proof (oob_gen_host_loop g l2 (i + 6) (i + 4 + (nthb 2 b * 256 + nthb 3 b)) H2) as H3.
    destruct (host_loop ops g l2 (i + 6) (i + 4 + (nthb 2 b * 256 + nthb 3 b))) as [l3|r];
      [apply IH; assumption|assumption].
  Qed.

  Lemma oob_gen_extract : forall l, I l -> extract_sni ops l <> Oob.
  Proof.
    intros l HI. unfold extract_sni.
    destruct (op_len ops l <? 39); [discriminate|].
    pose proof (Hr l 0 6 HI ltac:(lia)) as H1.
    destruct (op_range ops l 0 6) as [[b0 l1]|r]; [|assumption].
    destruct (negb (nthb 0 b0 =? tls_hs_client_hello)); [discriminate|].
    destruct (negb (nthb 4 b0 =? 3) || (nthb 5 b0 <? 1) || (3 <? nthb 5 b0)); [discriminate|].
    pose proof (Ha l1 38 H1) as H2.
    destruct (op_at ops l1 38) as [[sid l2]|r]; [|assumption].
    cbv zeta.
    set (bd1 := 39 + sid + 2).
    destruct (op_len ops l2 <? bd1); [discriminate|].
    pose proof (Hr l2 (bd1 - 2) bd1 H2 ltac:(lia)) as H3.
    destruct (op_range ops l2 (bd1 - 2) bd1) as [[b1 l3]|r]; [|assumption].
    set (bd2 := bd1 + u16 b1 + 1).
    destruct (op_len ops l3 <? bd2); [discriminate|].
    pose proof (Ha l3 (bd2 - 1) H3) as H4.
    destruct (op_at ops l3 (bd2 - 1)) as [[cm l4]|r]; [|assumption].
    set (bd3 := bd2 + cm + 2).
    destruct (op_len ops l4 <? bd3); [discriminate|].
    pose proof (Hr l4 (bd3 - 2) bd3 H4 ltac:(lia)) as H5.
    destruct (op_range ops l4 (bd3 - 2) bd3) as [[b3 l5]|r]; [|assumption].
    set (bd4 := bd3 + u16 b3).
    destruct (op_len ops l5 <? bd4); [discriminate|].
    pose proof (Hs l5 (bd4 - u16 b3) bd4 H5 ltac:(lia)) as H6.
    destruct (op_slice ops l5 (bd4 - u16 b3) bd4) as [l6|r]; [|assumption].
    apply oob_gen_find_loop; assumption.
  Qed.
End GenericNoOob.

(* ------------------------------------------------------------------ linear locator *)
Definition lblk (l : lloc) : frag := nth (l_iouter l) (l_o l) (0, []).
(* the cached block is the block the cursor points at *)
Definition linv (l : lloc) : Prop :=
  l_bstart l = fst (lblk l) /\ l_bdata l = snd (lblk l) /\ l_bend l = f_end (lblk l).

Lemma oob_linv_set_block : forall l k, linv (set_block l k).
Proof. intros; unfold linv, lblk, set_block; cbn; auto. Qed.

Lemma oob_linv_bend : forall l, linv l -> l_bend l = l_bstart l + blen (l_bdata l).
Proof. intros l [H1 [H2 H3]]. rewrite H1, H2, H3. reflexivity. Qed.

Lemma oob_relocate_loop : forall fuel l i, linv l ->
  match relocate_loop fuel l i with
  | Ok l1 => linv l1 /\ i < l_bend l1
  | Err r => r <> Oob
  end.
Proof.
  induction fuel as [|f IH]; intros l i HI; cbn [relocate_loop]; [discriminate|].
  destruct (l_bend l <=? i) eqn:E1; [|split; [assumption|lia]].
  destruct (length (l_o l) <=? l_iouter l + 1)%nat; [discriminate|].
  apply IH. apply oob_linv_set_block.
Qed.

Lemma oob_relocate : forall l i, linv l ->
  match relocate l i with
  | Ok l1 => linv l1 /\ l_bstart l1 <= i /\ i < l_bend l1
  | Err r => r <> Oob
  end.
Proof.
  intros l i HI. unfold relocate.
  pose proof (oob_relocate_loop (S (length (l_o l))) l i HI) as H.
  destruct (relocate_loop (S (length (l_o l))) l i) as [l1|r]; [|assumption].
  destruct (i <? l_bstart l1) eqn:E; [discriminate|].
  destruct H as [Hx Hy]. split; [assumption|]. split; lia.
Qed.

Lemma oob_chk_sub : forall i base, base <= i -> chk_sub i base = Ok (i - base).
Proof. intros. unfold chk_sub. replace (base <=? i) with true by lia. reflexivity. Qed.

Lemma oob_chk_slice : forall data lo hi, lo <= hi -> hi <= blen data ->
  chk_slice data lo hi = Ok (sub data lo hi).
Proof.
  intros. unfold chk_slice. replace ((lo <=? hi) && (hi <=? blen data)) with true by lia.
  reflexivity.
Qed.

Lemma oob_range_copy : forall fuel l i j size acc,
  linv l -> l_bstart l <= i -> i <= l_bend l -> i <= j + 1 ->
  j + 1 + blen acc <= size + i ->
  match range_copy fuel l i j size acc with
  | Ok (_, l1) => linv l1
  | Err r => r <> Oob
  end.
Proof.
  induction fuel as [|f IH]; intros l i j size acc HI Hs He Hj Hsz; cbn [range_copy];
    [discriminate|].
  pose proof (oob_linv_bend l HI) as Hb.
  destruct (l_bend l <=? j) eqn:E1.
  - rewrite oob_chk_sub by assumption.
    rewrite oob_chk_slice by lia.
    cbv zeta.
    set (piece := sub (l_bdata l) (i - l_bstart l) (blen (l_bdata l))).
    assert (Hp : blen piece = l_bend l - i).
    { unfold piece. rewrite oob_blen_sub by lia. lia. }
    set (n := firstn (N.to_nat (size - blen acc)) piece).
    assert (Hn : blen n = l_bend l - i).
    { unfold n. unfold blen in *. rewrite firstn_length. lia. }
    destruct ((length (l_o l) <=? l_iouter l + 1)%nat
              || negb (f_end (nth (l_iouter l) (l_o l) (0, []))
                       =? fst (nth (l_iouter l + 1)%nat (l_o l) (0, [])))) eqn:E2;
      [discriminate|].
    apply orb_false_elim in E2. destruct E2 as [_ E2].
    apply negb_false_iff in E2. apply N.eqb_eq in E2.
    assert (Hst : l_bstart (set_block l (l_iouter l + 1)) = l_bend l).
    { destruct HI as [_ [_ H3]]. rewrite H3. unfold lblk. rewrite E2. reflexivity. }
    pose proof (oob_linv_set_block l (l_iouter l + 1)) as HI'.
    pose proof (oob_linv_bend _ HI') as Hb'.
    apply IH; try assumption.
    + lia.
    + lia.
    + lia.
    + rewrite oob_blen_app. lia.
  - rewrite oob_chk_sub by assumption.
    rewrite oob_chk_sub by lia.
    rewrite oob_chk_slice by lia.
    cbv zeta. assumption.
Qed.

Lemma oob_l_range : forall l i j, linv l -> i <= j ->
  match l_range l i j with Ok (_, l1) => linv l1 | Err r => r <> Oob end.
Proof.
  intros l i j HI Hij. unfold l_range.
  destruct (i =? j) eqn:E0; [assumption|].
  destruct (length (l_o l) =? 0)%nat; [discriminate|].
  replace (j <? i) with false by lia.
  pose proof (oob_relocate l (i + l_left l) HI) as H.
  destruct (relocate l (i + l_left l)) as [l1|r]; [|assumption].
  destruct H as [HI1 [H1 H2]].
  pose proof (oob_linv_bend l1 HI1) as Hb.
  destruct (j + l_left l - 1 <? l_bend l1) eqn:E1.
  - rewrite oob_chk_sub by assumption.
    rewrite oob_chk_sub by lia.
    rewrite oob_chk_slice by lia.
    assumption.
  - apply oob_range_copy; try assumption; try lia.
    change (blen []) with 0. lia.
Qed.

Lemma oob_l_at : forall l i, linv l ->
  match l_at l i with Ok (_, l1) => linv l1 | Err r => r <> Oob end.
Proof.
  intros l i HI. unfold l_at.
  destruct (length (l_o l) =? 0)%nat; [discriminate|].
  pose proof (oob_relocate l (i + l_left l) HI) as H.
  destruct (relocate l (i + l_left l)) as [l1|r]; [|assumption].
  destruct H as [HI1 [H1 H2]].
  pose proof (oob_linv_bend l1 HI1) as Hb.
  rewrite oob_chk_sub by assumption.
  replace (i + l_left l - l_bstart l1 <? blen (l_bdata l1)) with true by lia.
  assumption.
Qed.

Lemma oob_l_slice : forall l i j, linv l -> i <= j ->
  match l_slice l i j with Ok l1 => linv l1 | Err r => r <> Oob end.
Proof. intros l i j HI _. unfold l_slice. exact HI. Qed.

Lemma oob_linv_new : forall o, linv (new_linear o).
Proof.
  intros [|f0 o]; unfold new_linear, linv, lblk; cbn [l_bstart l_bdata l_bend l_iouter l_o nth];
    repeat split; reflexivity.
Qed.

Lemma C06_linear_no_oob_proof : C06_linear_no_oob_stmt.
Proof.
  intros o. unfold extract_sni_linear.
  apply (oob_gen_extract linear_ops linv); cbn [op_range op_at op_slice linear_ops].
  - apply oob_l_range.
  - apply oob_l_at.
  - apply oob_l_slice.
  - apply oob_linv_new.
Qed.
Print Assumptions C06_linear_no_oob_proof.
