(* C09 — the preference wait returns each resolution its own response (Part R). *)
From Coq Require Import List NArith Bool Lia.
From Dae Require Import C09_Spec C09_Model C09_Check C09_Proofs C09_ProofsC.
From Dae.gen Require Import C09_Pref.
Import ListNotations.
Open Scope N_scope.

(* the released message is relayed and cached under the request's own (name, type) *)
Definition pref_ok (c : client_query) (released : message) : bool :=
  reply_ok c (pref_reply c released)
  && match cacheable released with
     | Some e => entry_good (key_of (cq_q c)) e
     | None => true
     end.

Lemma pref_own_ok : forall c m,
  fres_tagged (FMsg m) = true -> question_checked (cq_q c) m = true -> q_class (cq_q c) = 1 ->
  pref_ok c m = true.
Proof.
  intros c m T Q Cl. unfold pref_ok, pref_reply.
  pose proof (checked_honest (cq_q c) m T Q Cl) as Hh.
  destruct (cacheable m) as [e|] eqn:Ce.
  - assert (G : entry_good (key_of (cq_q c)) e = true) by (eapply cacheable_good; eauto).
    rewrite G, andb_true_r. apply hit_reply_ok; auto.
  - rewrite andb_true_r. exact (waiter_outcome_ok false c (RMsg m false) Hh Cl).
Qed.

Lemma C09_preference_wait_own_response_proof : forall o cN cP mN mP,
  fres_tagged (FMsg mN) = true -> question_checked (cq_q cN) mN = true -> q_class (cq_q cN) = 1 ->
  fres_tagged (FMsg mP) = true -> question_checked (cq_q cP) mP = true -> q_class (cq_q cP) = 1 ->
  pref_ok cN (pref_release pref_returns_own o mN mP) = true /\
  pref_ok cP (pref_release pref_returns_own o mP mN) = true.
Proof.
  intros. unfold pref_release. cbn. split; apply pref_own_ok; auto.
Qed.

Lemma C09_preference_wait_swap_refuted_proof : exists o cN cP mN mP,
  fres_tagged (FMsg mN) = true /\ question_checked (cq_q cN) mN = true /\ q_class (cq_q cN) = 1 /\
  fres_tagged (FMsg mP) = true /\ question_checked (cq_q cP) mP = true /\ q_class (cq_q cP) = 1 /\
  pref_ok cN (pref_release false o mN mP) = false.
Proof.
  pose (qa := {| q_name := 1; q_case := 0; q_type := 1; q_class := 1 |}).
  pose (q6 := {| q_name := 1; q_case := 0; q_type := 28; q_class := 1 |}).
  exists NFirstInTime, {| cq_id := 0x1111; cq_q := qa |}, {| cq_id := 0x2222; cq_q := q6 |},
    {| m_id := 5; m_q := Some qa; m_rcode := 0; m_tc := false; m_ans := [{| rr_name := 1; rr_type := 1; rr_serial := 7 |}] |},
    {| m_id := 6; m_q := Some q6; m_rcode := 0; m_tc := false; m_ans := [{| rr_name := 1; rr_type := 28; rr_serial := 8 |}] |}.
  vm_compute. repeat split; reflexivity.
Qed.

Print Assumptions C09_preference_wait_own_response_proof.
