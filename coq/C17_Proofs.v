(* C17 — lemmas behind the property theorems.  The lexer, parser and merge/totality developments live in
   C17_ProofsLex.v, C17_ProofsParse.v and C17_ProofsMerge.v; this file assembles the statements used by
   C17_Props.v. *)
From Coq Require Import List NArith Bool Lia Relations String Ascii PeanoNat.
From Dae Require Import C17_Spec C17_Model C17_Toks C17_MergeSpec C17_ProofsLex C17_ProofsParse C17_ProofsMerge C17_ProofsNoCrash C17_Paths C17_ProofsPaths C17_Schema C17_Build.
From Dae.gen Require Import Extracted_C17.
Import ListNotations.
Open Scope N_scope.

Lemma C17_roundtrip_proof :
  forall c : sconfig, wf_config c = true -> parse (show c) = POk (denote c).
Proof.
  intros c Hwf. unfold parse.
  rewrite show_is_render.
  rewrite (lex_render (toks_config c) (toks_wf c Hwf)).
  exact (parse_toks c Hwf).
Qed.

Lemma C17_parse_total_proof : forall text : str, parse text <> PFuel.
Proof. exact parse_total. Qed.

Definition Bs (s : string) : str := map N_of_ascii (list_ascii_of_string s).

Lemma C17_parse_never_crashes_proof :
  forall text : str, (exists ss, parse text = POk ss) \/ parse text = PErr.
Proof. exact parse_answers. Qed.

Lemma C17_merge_order_proof :
  forall fuel fs expand entry m vis,
    dfs_merge fuel fs expand [] entry = Ok (m, vis) ->
    exists t, tree_root t = entry /\ resolves fs expand t /\
              (forall n, sm_get m n = merged_items t n) /\
              vis = rev (tree_paths t) /\ NoDup (tree_paths t).
Proof. exact merge_order. Qed.

Lemma C17_cycle_rejected_proof :
  forall fuel fs expand entry f,
    clos_refl_trans _ (includes fs expand) entry f ->
    clos_trans _ (includes fs expand) f f ->
    forall r, dfs_merge fuel fs expand [] entry <> Ok r.
Proof. exact cycle_rejected. Qed.

Lemma C17_only_dae_in_dir_proof :
  forall fuel fs expand entry m vis,
    dfs_merge fuel fs expand [] entry = Ok (m, vis) ->
    forall f, In f vis -> exists ss, fs f = FFile ss.
Proof.
  intros fuel fs expand entry m vis H f Hin.
  destruct (only_usable_files fuel fs expand [] entry m vis H f Hin) as [[]|E]. exact E.
Qed.

Lemma C17_over_limit_is_error_proof :
  forall n ds, max_match_set_len <? n = true -> build_userspace n ds = WErr.
Proof. intros n ds H. unfold build_userspace. rewrite H. reflexivity. Qed.

Lemma C17_build_never_crashes_proof :
  forall n ds, (forall i, In i ds -> i < n) -> build_userspace n ds <> WCrashed.
Proof.
  intros n ds H. unfold build_userspace.
  destruct (max_match_set_len <? n) eqn:E; [discriminate|].
  replace (existsb (fun i => max_match_set_len <=? i) ds) with false; [discriminate|].
  symmetry. apply N.ltb_ge in E.
  induction ds as [|d r IH]; [reflexivity|].
  cbn [existsb]. rewrite IH by (intros i Hi; apply H; right; exact Hi).
  rewrite orb_false_r. apply N.leb_gt.
  specialize (H d (or_introl eq_refl)). lia.
Qed.

(* containment is by components: the cleaned entry directory's component list is a prefix of the file's
   directory's component list *)
Lemma C17_inside_component_boundary_proof :
  forall d f, inside d f = true -> firstn (List.length (clean d)) (dir_of (clean f)) = clean d.
Proof.
  intros d f H. destruct (inside_is_below d f H) as [below E]. rewrite E.
  rewrite firstn_app, Nat.sub_diag, firstn_all. cbn [firstn]. apply app_nil_r.
Qed.

(* ... a string prefix is not enough: /x/dae.d extends the text of /x/dae and is not inside it *)
Definition C17_sample_dir : path := comps (Bs "/x/dae").
Definition C17_sample_sibling_file : path := comps (Bs "/x/dae.d/a.dae").
Lemma C17_string_prefix_not_enough_proof :
  let d := C17_sample_dir in
  let f := C17_sample_sibling_file in
  firstn (List.length (render d)) (render (dir_of f)) = render d /\ inside d f = false.
Proof. split; vm_compute; reflexivity. Qed.

(* ParamParser on the EMPTY section: there is no early exit - the required check is reached *)
Lemma C17_empty_section_required_proof :
  forall schema decodes fu sid st,
    find_struct schema sid = Some st ->
    section_error schema decodes (S fu) (KStruct sid) [] =
    if existsb f_required (s_fields st) then Some EMissingParam else None.
Proof.
  intros schema decodes fu sid st H. cbn [section_error]. rewrite H.
  replace (existsb (fun f => f_required f && negb (key_assigned [] (f_key f))) (s_fields st))
    with (existsb f_required (s_fields st)); [reflexivity|].
  induction (s_fields st) as [|f r IH]; [reflexivity|].
  cbn [existsb]. rewrite IH. unfold key_assigned at 1. cbn [existsb negb]. rewrite andb_true_r. reflexivity.
Qed.

(* a tree that uses every production *)
Definition C17_sample_config : sconfig :=
  [ (Bs "routing",
     [ IRule [SFunc true (Bs "domain") [SParam (Some (Bs "suffix")) (Lit QBare (Bs "example.com")); SParam None (Lit QSingle (Bs "a b"))];
              SFunc false (Bs "dport") [SParam None (Lit QBare (Bs "80-443"))]]
             (OFunc (SFunc false (Bs "proxy") [SParam (Some (Bs "mark")) (Lit QBare (Bs "0x10"))]));
       IDecl (Bs "fallback") (VLits [Lit QBare (Bs "direct")]) [];
       IDecl (Bs "k") (VFuncs [SFunc false (Bs "f") [SParam None (Lit QDouble (Bs "q\""q"))]]) [SParam (Some (Bs "w")) (Lit QBare (Bs "1"))];
       ILit (Lit QBare (Bs "*.x"));
       ISection (Bs "request") [IRule [SFunc false (Bs "qname") [SParam None (Lit QBare (Bs "x"))]] (OBare (Bs "asis"))] ]) ].

Lemma C17_nonvacuous_proof :
  wf_config C17_sample_config = true /\ parse (show C17_sample_config) = POk (denote C17_sample_config)
  /\ List.length (show C17_sample_config) = 180%nat.
Proof. split; [|split]; vm_compute; reflexivity. Qed.
