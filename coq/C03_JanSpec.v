(* C03 — the userspace janitor of the tracked-flow table, in the property's terms.

   The janitor samples the clock once and then walks the table; the datapath keeps refreshing entries meanwhile,
   so an entry's last-seen time may lie AFTER the sample.  Tracking may end only by the documented idle timeouts:
   an ordinary sweep removes an entry only if, as integers, sample - last_seen > timeout of its kind - never an
   entry refreshed at or after the sample. *)
From Coq Require Import List NArith ZArith Bool.
From Dae Require Import C03_Spec.
Import ListNotations.
Open Scope N_scope.

Definition DOC_UDP_DNS_IDLE_NS : N := 17000000000.
Definition jan_timeout (k : fkey) (closing : bool) : option N :=
  if k_proto k =? IPPROTO_UDP
  then Some (if (k_sport k =? 53) || (k_dport k =? 53) then DOC_UDP_DNS_IDLE_NS else DOC_UDP_IDLE_NS)
  else if k_proto k =? IPPROTO_TCP then Some (if closing then DOC_TCP_CLOSING_NS else DOC_TCP_IDLE_NS)
  else None.
Definition spec_jan_removes (sample : N) (k : fkey) (closing : bool) (last : N) : bool :=
  match jan_timeout k closing with
  | Some t => last + t <? sample
  | None => false
  end.
