(* C05 - executable, code-shaped model of the TCP relay path (no proofs in this file).
   control/tcp.go (handleConn prologue, readDnsMsgFromBufio, bufioConn), control/tcp_sniff_policy.go
   (prefetchForTcpSniff, prefixedConn, isLikelyHttpOrTLSPrefix, shouldTryTcpSniff), component/sniffing
   (Sniffer.readStreamOnce / SniffTcp loop / Sniffer.Read, ConnSniffer.TakeRelayPrefix),
   control/tcp_copy_engine.go + tcp_copy_gather_linux.go (defaultRelayCopyEngine.Copy, tryRelayGatherWrite,
   relayCopyLoop / relayCopyDirect, CopyRelayRemainder), control/tcp_relay_core.go (relayCore.run).
   Time is virtual milliseconds.  A blocking Read returns at min(next arrival, read deadline); on a tie the
   deadline wins; a Read with an already expired deadline fails at once (Go netpoll semantics). *)
From Coq Require Import List NArith Bool.
From Dae Require Import C05_Spec.
From Dae.gen Require Import C05_Extracted.
Import ListNotations.
Open Scope N_scope.

Inductive rerr := EEof | ETimeout | EClosed | EBlock.   (* EBlock: the Read never returns *)
Record rres := mkR { r_data : list N; r_err : option rerr }.


Definition len (l : list N) : N := N.of_nat (length l).
(* p[:n] / p[n:] clipped to the length (the length test only avoids building a huge unary number) *)
Definition take (n : N) (l : list N) : list N := if len l <=? n then l else firstn (N.to_nat n) l.
Definition drop (n : N) (l : list N) : list N := if len l <=? n then [] else skipn (N.to_nat n) l.
Definition nonempty (l : list N) : bool := match l with [] => false | _ => true end.

(* ------------------------------------------------------------------ socket *)
Record sock := mkSock { k_in : list chunk; k_eof : option N; k_dl : option N; k_closed : bool }.

Definition expired (dl : option N) (t : N) : bool := match dl with Some d => d <=? t | None => false end.
Definition dl_or (dl : option N) (t : N) : N := match dl with Some d => d | None => t end.
Definition set_dl (s : sock) (d : option N) : sock := mkSock (k_in s) (k_eof s) d (k_closed s).
Definition close_sock (s : sock) : sock := mkSock (k_in s) (k_eof s) (Some 0) true.

(* drop empty chunks at the head: a zero-length segment is never seen by a reader *)
Fixpoint norm_chunks (l : list chunk) : list chunk :=
  match l with
  | [] => []
  | c :: r => match c_data c with [] => norm_chunks r | _ => c :: norm_chunks r end
  end.

Definition sock_read (now n : N) (s : sock) : rres * sock * N :=
  if k_closed s then (mkR [] (Some EClosed), s, now) else
  if expired (k_dl s) now then (mkR [] (Some ETimeout), s, now) else
  match k_in s with
  | c :: rest =>
      let t := N.max now (c_at c) in
      if expired (k_dl s) t then (mkR [] (Some ETimeout), s, dl_or (k_dl s) t) else
      let a := take n (c_data c) in
      let b := drop n (c_data c) in
      (mkR a None,
       mkSock (match b with [] => rest | _ => mkChunk (c_at c) b :: rest end) (k_eof s) (k_dl s) false, t)
  | [] =>
      match k_eof s with
      | Some e =>
          let t := N.max now e in
          if expired (k_dl s) t then (mkR [] (Some ETimeout), s, dl_or (k_dl s) t)
          else (mkR [] (Some EEof), s, t)
      | None =>
          match k_dl s with
          | Some d => (mkR [] (Some ETimeout), s, d)
          | None => (mkR [] (Some EBlock), s, now)
          end
      end
  end.

(* ------------------------------------------------------------------ wrappers *)
Inductive conn :=
| CSock
| CBufio (buf : list N) (c : conn)                      (* bufioConn: bytes still buffered in the bufio.Reader *)
| CPrefixed (pre : list N) (c : conn)                   (* prefixedConn: prefix[off:] *)
| CSniffer (buf : list N) (derr : option rerr) (c : conn).  (* ConnSniffer: Sniffer.buf, Sniffer.dataError *)

Definition bufio_size : N := c05_bufio_size.   (* size of the detection reader handleConn builds (bufio.NewReader: 4096) *)

Fixpoint conn_read (c : conn) (n : N) (s : sock) (now : N) : rres * conn * sock * N :=
  match c with
  | CSock => let '(r, s', t) := sock_read now n s in (r, CSock, s', t)
  | CBufio buf c' =>
      match buf with
      | _ :: _ => (mkR (take n buf) None, CBufio (drop n buf) c', s, now)
      | [] =>
          if bufio_size <=? n then
            let '(r, c2, s', t) := conn_read c' n s now in (r, CBufio [] c2, s', t)
          else
            let '(r, c2, s', t) := conn_read c' bufio_size s now in
            match r_data r with
            | [] => (mkR [] (r_err r), CBufio [] c2, s', t)
            | d => (mkR (take n d) None, CBufio (drop n d) c2, s', t)
            end
      end
  | CPrefixed pre c' =>
      match pre with
      | _ :: _ =>
          if n <=? len pre then (mkR (take n pre) None, CPrefixed (drop n pre) c', s, now)
          else
            let '(r, c2, s', t) := conn_read c' (n - len pre) s now in
            (mkR (pre ++ r_data r) (r_err r), CPrefixed [] c2, s', t)
      | [] => let '(r, c2, s', t) := conn_read c' n s now in (r, CPrefixed [] c2, s', t)
      end
  | CSniffer buf derr c' =>
      match derr with
      | Some e => (mkR (take n buf) (Some e), CSniffer (drop n buf) derr c', s, now)
      | None =>
          match buf with
          | _ :: _ => (mkR (take n buf) None, CSniffer (drop n buf) None c', s, now)
          | [] => let '(r, c2, s', t) := conn_read c' n s now in (r, CSniffer [] None c2, s', t)
          end
      end
  end.

(* bytes held in user space by the wrappers, in delivery order *)
Fixpoint pending (c : conn) : list N :=
  match c with
  | CSock => []
  | CBufio b c' => b ++ pending c'
  | CPrefixed p c' => p ++ pending c'
  | CSniffer b _ c' => b ++ pending c'
  end.

Definition unread (s : sock) : list N := concat (map c_data (k_in s)).

(* ------------------------------------------------------------------ prologue stages *)
Inductive dns_oracle := DnsErr | DnsQuery | DnsResponse.   (* miekg Unpack of the first complete frame *)

(* bufio.Reader.Peek n over an initially given buffer: fill until n bytes, buffer full, or error *)
Fixpoint peek (fuel : nat) (n : N) (buf : list N) (c : conn) (s : sock) (now : N)
  : bool * list N * conn * sock * N :=
  if (n <=? len buf) then (true, buf, c, s, now) else
  if (bufio_size <=? len buf) then (false, buf, c, s, now) else
  match fuel with
  | O => (false, buf, c, s, now)
  | S f =>
      let '(r, c2, s2, t) := conn_read c (bufio_size - len buf) s now in
      let buf2 := buf ++ r_data r in
      match r_err r with
      | Some _ => ((n <=? len buf2), buf2, c2, s2, t)
      | None => peek f n buf2 c2 s2 t
      end
  end.

Definition peek_fuel : nat := 4200.   (* more than bufio_size: every fill adds a byte or ends the loop *)

Definition be16 (buf : list N) : N := nth 0 buf 0 * 256 + nth 1 buf 0.

(* handleTCPDnsFastPath up to the decision "is this DNS": None = handled as DNS (not a relay).
   Every fallback to the normal relay clears the detection deadline (5fcc1e4); a frame that parses as a
   response is left in the buffer (512bb6f). *)
Definition dns_stage_f (fuel : nat) (orc : dns_oracle) (c : conn) (s : sock) (now : N) : option conn * sock * N :=
  let s1 := set_dl s (Some (now + c05_dns_first_timeout_ms)) in
  let '(ok, buf, c1, s2, t2) := peek fuel 2 [] c s1 now in
  if negb ok then (Some (CBufio buf c1), set_dl s2 None, t2) else
  let l := be16 buf in
  if l <? 12 then (Some (CBufio buf c1), set_dl s2 None, t2) else
  let '(ok2, buf2, c3, s3, t3) := peek fuel (2 + l) buf c1 s2 t2 in
  if negb ok2 then (Some (CBufio buf2 c3), set_dl s3 None, t3) else
  match orc with
  | DnsErr => (Some (CBufio buf2 c3), set_dl s3 None, t3)
  | DnsResponse => (Some (CBufio buf2 c3), set_dl s3 None, t3)
  | DnsQuery => (None, s3, t3)
  end.

Definition dns_stage := dns_stage_f peek_fuel.

(* prefetchForTcpSniff: (wrapped, prefetched, ready) *)
Definition prefetch_stage (wait : N) (c : conn) (s : sock) (now : N) : conn * list N * bool * sock * N :=
  let s1 := set_dl s (Some (now + wait)) in
  let '(r, c2, s2, t) := conn_read c c05_prefetch_bytes s1 now in
  let s3 := set_dl s2 None in
  match r_data r with
  | [] => (c2, [], false, s3, t)
  | d => (CPrefixed d c2, d, true, s3, t)
  end.

Definition lower (b : N) : N := if (65 <=? b) && (b <=? 90) then b + 32 else b.
Fixpoint fold_eq (a b : list N) : bool :=   (* EqualFold on two equally long ASCII slices *)
  match a, b with
  | [], [] => true
  | x :: a', y :: b' => (lower x =? lower y) && fold_eq a' b'
  | _, _ => false
  end.
Definition has_prefix_overlap (probed prefix : list N) : bool :=
  match probed, prefix with
  | [], _ => false
  | _, [] => false
  | _, _ => let n := N.min (len probed) (len prefix) in fold_eq (take n probed) (take n prefix)
  end.
Definition is_likely_http_or_tls (p : list N) : bool :=
  match p with
  | [] => false
  | 22 :: [] => true
  | 22 :: b1 :: _ => b1 =? 3
  | _ => existsb (has_prefix_overlap p) c05_http_prefixes
  end.

(* SniffTcp's read loop.  One oracle answer per round: does the parser say "need more"?  rooms: the
   free space of Sniffer.buf offered to each Read.  dl: the Sniffer's fixed absolute deadline. *)
Definition sniff_min_read : N := 512.   (* bytes.MinRead: ReadFromOnce grows the buffer to offer at least this much *)

Fixpoint sniff_rounds (answers : list (bool * N)) (dl : N) (buf : list N) (c : conn) (s : sock) (now : N)
  : list N * option rerr * conn * sock * N * bool (* spun at EOF until the deadline *) :=
  match answers with
  | [] => (buf, None, c, s, now, false)
  | (more, room) :: rest =>
      let s1 := set_dl s (Some dl) in
      let '(r, c2, s2, t) := conn_read c (N.max room sniff_min_read) s1 now in
      let s3 := set_dl s2 None in
      let buf2 := buf ++ r_data r in
      match r_err r with
      | Some EEof =>
          (* ReadFromOnce turns EOF into nil: no dataError; the parser sees the same bytes again *)
          if nonempty buf2 && more
          then (buf2, None, c2, s3, N.max t dl, true)   (* busy loop until the deadline expires; see ETimeout *)
          else (buf2, None, c2, s3, t, false)
      | Some ETimeout =>
          (* the sniff deadline expiring is not recorded as dataError (repaired in 9ef4b71): the relay's
             first Read goes to the socket *)
          (buf2, None, c2, s3, t, false)
      | Some e => (buf2, Some e, c2, s3, t, false)
      | None => if more then sniff_rounds rest dl buf2 c2 s3 t else (buf2, None, c2, s3, t, false)
      end
  end.

(* SniffTcp always reads at least once *)
Definition sniff_stage (answers : list (bool * N)) (dl : N) (c : conn) (s : sock) (now : N) :=
  sniff_rounds (match answers with [] => [(false, sniff_min_read)] | _ => answers end) dl [] c s now.

Record pcase := mkP {
  p_port : N;                  (* dst.Port() *)
  p_sniff_ms : N;              (* c.sniffingTimeout *)
  p_dial_ip : bool;            (* c.dialMode == ip *)
  p_outbound : N;              (* routingResult.Outbound *)
  p_neg_skip : bool;           (* shouldSkipTcpSniffByNegativeCache *)
  p_dns : dns_oracle;
  p_answers : list (bool * N)  (* sniff rounds: (need more?, room) *)
}.

Record pstate := mkPS {
  ps_conn : option conn;       (* None: handled as DNS *)
  ps_sock : sock;
  ps_now : N;
  ps_ran_dns : bool; ps_ran_prefetch : bool; ps_ran_sniff : bool;
  ps_spin : bool
}.

Definition should_try_sniff (sniff_ms : N) (dial_ip : bool) (outbound port : N) : bool :=
  (0 <? sniff_ms) && negb dial_ip && negb (outbound =? c05_outbound_direct) && negb (outbound =? c05_outbound_block)
  && negb (existsb (N.eqb port) c05_excluded_ports).

Definition p_port53 (p : pcase) : bool := p_port p =? 53.
Definition p_try_sniff (p : pcase) : bool :=
  should_try_sniff (p_sniff_ms p) (p_dial_ip p) (p_outbound p) (p_port p) && negb (p_neg_skip p).

(* handleConn from the port-53 test up to the dial *)
Definition prologue (p : pcase) (s0 : sock) (now0 : N) : pstate :=
  let '(oc, s1, t1, ran_dns) :=
      if p_port53 p then let '(oc, s1, t1) := dns_stage (p_dns p) CSock s0 now0 in (oc, s1, t1, true)
      else (Some CSock, s0, now0, false) in
  match oc with
  | None => mkPS None s1 t1 ran_dns false false false
  | Some c1 =>
      if negb (p_try_sniff p) then mkPS (Some c1) s1 t1 ran_dns false false false else
      let '(c2, pre, ready, s2, t2) := prefetch_stage (p_sniff_ms p) c1 s1 t1 in
      if negb ready then mkPS (Some c2) s2 t2 ran_dns true false false else
      if negb (is_likely_http_or_tls pre) then mkPS (Some c2) s2 t2 ran_dns true false false else
      let '(buf, derr, c3, s3, t3, spin) := sniff_stage (p_answers p) (t2 + p_sniff_ms p) c2 s2 t2 in
      mkPS (Some (CSniffer buf derr c3)) s3 t3 ran_dns true true spin
  end.

(* ------------------------------------------------------------------ copy engine, one direction *)
Inductive phase :=
| PStart                        (* Copy entered: gather-write decision pending *)
| PLoop (via : conn)            (* relayCopyLoop / relayCopyDirect reading through via *)
| PDone (err : option rerr).    (* the direction goroutine is over *)

Record dirst := mkD {
  d_phase : phase;
  d_stack : conn;
  d_out : list N;               (* bytes written to the destination so far *)
  d_nwrites : N;
  d_cw : N;                     (* CloseWrite calls on the destination *)
  d_cw_at : N; d_cw_len : N
}.

(* relayTakeSourceSegments: what the top wrapper hands over, and the wrapper afterwards *)
Definition take_segments (c : conn) : list N * conn :=
  match c with
  | CSock => ([], c)
  | CBufio b c' => (b, CBufio [] c')
  | CPrefixed p c' => (p, CPrefixed [] c')
  | CSniffer b e c' => (b, CSniffer [] e c')
  end.

(* where the copy continues after the gather write: CopyRelayRemainder goes to the INNER conn for
   bufioConn / prefixedConn; ConnSniffer (two-argument CopyRelayRemainder) is not a continuation source and
   keeps being read through Sniffer.Read *)
Definition continuation (c : conn) : conn :=
  match c with
  | CBufio _ c' => c'
  | CPrefixed _ c' => c'
  | _ => c
  end.

Definition is_err (e : option rerr) : bool := match e with Some EEof => false | Some _ => true | None => false end.

(* TIOCINQ on the source socket: bytes (not a FIN) are waiting right now *)
Definition data_pending (s : sock) (now : N) : bool :=
  negb (k_closed s) && match k_in s with c :: _ => c_at c <=? now | [] => false end.

(* one atomic step of a direction: returns the new direction state, the source socket and the time.
   pend: the source unwraps to a *net.TCPConn, so tryRelayGatherWrite asks TIOCINQ and reads once if it says yes *)
Definition dir_step (pend : bool) (d : dirst) (s : sock) (now : N) : dirst * sock * N :=
  match d_phase d with
  | PStart =>
      let '(segs, c1) := take_segments (d_stack d) in
      match segs with
      | [] => (mkD (PLoop (d_stack d)) (d_stack d) (d_out d) (d_nwrites d) (d_cw d) (d_cw_at d) (d_cw_len d), s, now)
      | _ =>
          if pend && data_pending s now then
            let '(r, c2, s2, t) := conn_read c1 c05_relay_buf s now in
            let out := d_out d ++ segs ++ r_data r in
            match r_err r with
            | Some e => (mkD (PDone (if is_err (Some e) then Some e else None)) c2 out (d_nwrites d + 1) (d_cw d) (d_cw_at d) (d_cw_len d), s2, t)
            | None => (mkD (PLoop (continuation c2)) c2 out (d_nwrites d + 1) (d_cw d) (d_cw_at d) (d_cw_len d), s2, t)
            end
          else
            (mkD (PLoop (continuation c1)) c1 (d_out d ++ segs) (d_nwrites d + 1) (d_cw d) (d_cw_at d) (d_cw_len d), s, now)
      end
  | PLoop via =>
      let '(r, via2, s2, t) := conn_read via c05_relay_buf s now in
      let out := d_out d ++ r_data r in
      let nw := match r_data r with [] => d_nwrites d | _ => d_nwrites d + 1 end in
      match r_err r with
      | Some e => (mkD (PDone (if is_err (Some e) then Some e else None)) (d_stack d) out nw (d_cw d) (d_cw_at d) (d_cw_len d), s2, t)
      | None => (mkD (PLoop via2) (d_stack d) out nw (d_cw d) (d_cw_at d) (d_cw_len d), s2, t)
      end
  | PDone _ => (d, s, now)
  end.

(* would the next step block for ever? *)
Definition step_blocks (pend : bool) (d : dirst) (s : sock) (now : N) : bool :=
  match d_phase d with
  | PLoop via => let '(r, _, _, _) := conn_read via c05_relay_buf s now in
                 match r_err r with Some EBlock => true | _ => false end
  | _ => false
  end.

Definition running (d : dirst) : bool := match d_phase d with PDone _ => false | _ => true end.

(* ------------------------------------------------------------------ relayCore.run *)
Record relay := mkRelay {
  y_now : N;
  y_l2r : dirst; y_r2l : dirst;   (* l2r reads L writes R; r2l reads R writes L *)
  y_L : sock; y_R : sock;
  y_err : bool;                   (* some direction ended with an error: cancel + forceClose happened *)
  y_end : N
}.

(* a direction that has just reached PDone: CloseWrite(dst); clean -> grace deadline on dst, error -> forceClose *)
(* dst.(WriteCloser): *net.TCPConn has CloseWrite; bufioConn, prefixedConn and ConnSniffer pass it on to the
   conn they wrap (b8da220) *)
Fixpoint has_close_write (c : conn) : bool :=
  match c with
  | CSock => true
  | CBufio _ c' => has_close_write c'
  | CPrefixed _ c' => has_close_write c'
  | CSniffer _ _ c' => has_close_write c'
  end.

Definition finish (grace : N) (left : bool) (d : dirst) (y : relay) (t : N) : relay :=
  let cw := if left then true else has_close_write (d_stack (y_l2r y)) in
  let d' := if cw then mkD (d_phase d) (d_stack d) (d_out d) (d_nwrites d) (d_cw d + 1) t (len (d_out d)) else d in
  let bad := match d_phase d with PDone (Some _) => true | _ => false end in
  let L := y_L y in let R := y_R y in
  let '(L', R') :=
      if bad then (close_sock L, close_sock R)
      else if left then (L, set_dl R (Some (t + grace))) else (set_dl L (Some (t + grace)), R) in
  if left then mkRelay t d' (y_r2l y) L' R' (y_err y || bad) t
  else mkRelay t (y_l2r y) d' L' R' (y_err y || bad) t.

Definition advance (grace : N) (pend : bool) (left : bool) (y : relay) : relay :=
  if left then
    let '(d', s', t) := dir_step pend (y_l2r y) (y_L y) (y_now y) in
    let y1 := mkRelay t d' (y_r2l y) s' (y_R y) (y_err y) (y_end y) in
    if running d' then y1 else finish grace true d' y1 t
  else
    let '(d', s', t) := dir_step false (y_r2l y) (y_R y) (y_now y) in
    let y1 := mkRelay t (y_l2r y) d' (y_L y) s' (y_err y) (y_end y) in
    if running d' then y1 else finish grace false d' y1 t.

(* time at which the next step of a direction completes *)
Definition next_time (pend : bool) (d : dirst) (s : sock) (now : N) : N :=
  let '(_, _, t) := dir_step pend d s now in t.

(* prio: which direction goes first when both are ready at the same instant *)
Fixpoint simulate (fuel : nat) (grace : N) (pend prio : bool) (y : relay) : relay * bool (* alive *) :=
  match fuel with
  | O => (y, false)
  | S f =>
      let rl := running (y_l2r y) in
      let rr := running (y_r2l y) in
      let bl := negb rl || step_blocks pend (y_l2r y) (y_L y) (y_now y) in
      let br := negb rr || step_blocks false (y_r2l y) (y_R y) (y_now y) in
      if negb rl && negb rr then (y, false)
      else if bl && br then (y, true)
      else
        let tl := next_time pend (y_l2r y) (y_L y) (y_now y) in
        let tr := next_time false (y_r2l y) (y_R y) (y_now y) in
        let left := if bl then false else if br then true
                    else if tl <? tr then true else if tr <? tl then false else prio in
        simulate f grace pend prio (advance grace pend left y)
  end.

Definition new_dir (c : conn) : dirst := mkD PStart c [] 0 0 0 0.

Definition total_len (s : sock) : nat := length (unread s).

Definition run_relay (grace : N) (pend prio : bool) (stack : conn) (L R : sock) (start : N) : relay * bool :=
  let fuel := (total_len L + length (pending stack) + total_len R + 16)%nat in
  simulate fuel grace pend prio (mkRelay start (new_dir stack) (new_dir CSock) L R false start).

(* ------------------------------------------------------------------ whole connection *)
Record outcome := mkO {
  o_handled_dns : bool;
  o_start : N;
  o_dl_at_start : option N;
  o_stack : option conn;
  o_spin : bool;
  o_ran : bool * bool * bool;
  o_up : list N; o_down : list N;
  o_cw_up : N * N * N;      (* CloseWrite(R): count, time, bytes written before *)
  o_cw_down : N * N * N;
  o_up_shut : bool; o_down_shut : bool;   (* the direction ended at a clean end of stream, shutdown passed on after all bytes *)
  o_err : bool; o_alive : bool; o_end : N
}.

Definition shut_clean (d : dirst) : bool :=
  match d_phase d with PDone None => (d_cw d =? 1) && (d_cw_len d =? len (d_out d)) | _ => false end.

Definition mk_sock (sd : side) : sock := mkSock (norm_chunks (s_chunks sd)) (s_eof sd) None false.

Definition connection (p : pcase) (grace : N) (pend prio : bool) (client server : side) : outcome :=
  let ps := prologue p (mk_sock client) 0 in
  match ps_conn ps with
  | None => mkO true (ps_now ps) (k_dl (ps_sock ps)) None false (ps_ran_dns ps, ps_ran_prefetch ps, ps_ran_sniff ps)
                [] [] (0, 0, 0) (0, 0, 0) false false false false (ps_now ps)
  | Some st =>
      let '(y, alive) := run_relay grace pend prio st (ps_sock ps) (mk_sock server) (ps_now ps) in
      mkO false (ps_now ps) (k_dl (ps_sock ps)) (Some st) (ps_spin ps) (ps_ran_dns ps, ps_ran_prefetch ps, ps_ran_sniff ps)
          (d_out (y_l2r y)) (d_out (y_r2l y))
          (d_cw (y_l2r y), d_cw_at (y_l2r y), d_cw_len (y_l2r y))
          (d_cw (y_r2l y), d_cw_at (y_r2l y), d_cw_len (y_r2l y))
          (shut_clean (y_l2r y)) (shut_clean (y_r2l y))
          (y_err y) alive (y_now y)
  end.
