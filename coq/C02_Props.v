(* C02 — property theorems only.  Each is closed by `exact` of a lemma of C02_Proofs.v / C02_ProofsScan.v. *)
From Coq Require Import List NArith Bool String.
From Dae Require Import C01_Spec C01_Model C02_Spec C02_Model C02_Proofs C02_ProofsScan C02_ProofsOrder.
From Dae.gen Require Import C01_Consts C02_Consts.
Import ListNotations.
Open Scope N_scope.

(* REFINEMENT (the property), full strength.  For every array of match-sets the builder can emit (any length up to the
   limit, any of the eleven types, any NOT/OR/AND/must_rules shape, marks below 2^32, outbound ids one byte) with its LPM
   sets, every ring offset `alloc` and every earlier content `prev` of the kernel maps (any number of earlier reloads), and
   every probe of the quantifier (TCP/UDP, IPv4/IPv6, any ports including 53, LAN with or without MAC and no process
   name, WAN with a process name or an unknown process): if buildRoutingKernspace installs the generation, then route()
   over the installed BYTES - decoded as its callers decode the result word - answers dns_adjust of what
   RoutingMatcher.Match answers for the same packet, and nothing when Match answers nothing.
   Hypothesis (interface to C10/C11): the domain_routing_map entry of the destination is the bitmap of the packet's
   domain (`dom_entry`).  `probe_ok` is the quantifier's own side condition: value ranges, and a LAN probe carries no
   process name (the LAN hook never passes one). *)
Theorem C02_kscan_scan :
  forall (prev : kmaps) (ms : list mset) (tries : list (list prefix128)) (alloc : N) (dm : string -> list N)
         (pk : packet) (wan : bool) (km : kmaps),
    forallb (wf_mset (N.of_nat (List.length tries))) ms = true ->
    forallb (forallb wf_prefix) tries = true ->
    probe_ok pk wan = true ->
    bitmap_ok (dm (p_domain pk)) = true ->
    install prev ms tries alloc = Ok km ->
    let bm := if String.eqb (p_domain pk) "" then None else Some (dm (p_domain pk)) in
    kernel_decides prev ms tries alloc (dom_entry bm) pk wan
    = Ok (expected (p_dport pk) (user_answer (match_sets {| mt_sets := ms; mt_tries := tries |} dm (args_of_packet pk)))).
Proof. exact kscan_scan_proof. Qed.
Print Assumptions C02_kscan_scan.

(* The side condition "a LAN probe carries no process name" cannot be dropped: the kernel compares names only on the WAN
   path (is_wan), the userspace matcher whenever a name is present.  Witness: pname(curl) -> block, fallback direct, and
   a probe with is_wan = 0 that carried the name "curl". *)
Definition C02_kscan_scan_unrestricted : Prop := kscan_scan_statement false.

Theorem C02_kscan_scan_unrestricted_refuted : ~ C02_kscan_scan_unrestricted.
Proof. exact kscan_scan_unrestricted_refuted_proof. Qed.
Print Assumptions C02_kscan_scan_unrestricted_refuted.

(* the combinations of is_wan and name, spelled out: pname('') never matches an unknown process (LAN or WAN); pname(curl)
   matches a WAN probe named curl on both sides and no unnamed probe; only the out-of-quantifier LAN probe named curl
   separates the two sides *)
Theorem C02_pname_combinations :
  let user ms pk := match_sets {| mt_sets := ms; mt_tries := [] |} (fun _ => []) (args_of_packet pk) in
  let z := repeat 0 16 in
  kernel_decides empty_kmaps (pn_msets z) [] 0 None (pn_packet z) true = Ok (Some (0, 0, false)) /\ user (pn_msets z) (pn_packet z) = Ok (0, 0, false) /\
  kernel_decides empty_kmaps (pn_msets z) [] 0 None (pn_packet z) false = Ok (Some (0, 0, false)) /\
  kernel_decides empty_kmaps (pn_msets curl16) [] 0 None (pn_packet curl16) true = Ok (Some (1, 0, false)) /\ user (pn_msets curl16) (pn_packet curl16) = Ok (1, 0, false) /\
  kernel_decides empty_kmaps (pn_msets curl16) [] 0 None (pn_packet z) true = Ok (Some (0, 0, false)) /\ user (pn_msets curl16) (pn_packet z) = Ok (0, 0, false) /\
  kernel_decides empty_kmaps (pn_msets curl16) [] 0 None (pn_packet curl16) false = Ok (Some (0, 0, false)) /\
  probe_ok (pn_packet curl16) false = false /\ probe_ok (pn_packet z) true = true /\ probe_ok (pn_packet z) false = true.
Proof. exact pname_combinations. Qed.
Print Assumptions C02_pname_combinations.

(* ORDER INDEPENDENCE.  The ControlPlane takes a KernspaceSnapshot of the builder and then, in any order and any number of
   times, runs BuildUserspace on the builder (which empties it) and buildRoutingKernspace on the snapshot (first start:
   install then BuildUserspace; staged reload: BuildUserspace then CommitPreparedDatapath; RebuildReloadDatapath: install
   again).  With a snapshot that is a value, every such call is given exactly the lowered program's match-sets and
   prefix lists, and every requested call happens - so the tries the kernel gets are those C02_kscan_scan speaks about.
   (Tie: the harness takes the real snapshot and reads it at the time of each call, in these orders.) *)
Theorem C02_install_order_independent :
  forall (ms : list mset) (tries : list (list prefix128)) (ring : N) (km : kmaps) (steps : list bstep),
    ~ In BSnapshot steps ->
    let w := brun false (BSnapshot :: steps) (bworld0 ms tries ring km) in
    (forall e, In e (bw_log w) -> il_rules e = ms /\ il_tries e = tries) /\
    List.length (bw_log w) = count_occ bstep_eq_dec steps BInstall.
Proof. exact install_order_independent_proof. Qed.
Print Assumptions C02_install_order_independent.

(* A snapshot that shares the builder's slice of prefix lists, combined with a BuildUserspace that releases each list
   once its trie exists, breaks this: in the staged-reload order the kernel is given empty tries. *)
Theorem C02_install_order_aliasing_refuted :
  exists (ms : list mset) (tries : list (list prefix128)) (steps : list bstep) (e : ilog),
    ~ In BSnapshot steps /\
    In e (bw_log (brun true (BSnapshot :: steps) (bworld0 ms tries 0 empty_kmaps))) /\ il_tries e <> tries.
Proof. exact install_order_aliasing_refuted_proof. Qed.
Print Assumptions C02_install_order_aliasing_refuted.

(* TOTALITY of the installation for what the builder emits within the limits *)
Theorem C02_install_total :
  forall (prev : kmaps) (ms : list mset) (tries : list (list prefix128)) (alloc : N),
    forallb (wf_mset (N.of_nat (List.length tries))) ms = true ->
    (List.length tries <= 1024)%nat -> (List.length ms <= 1024)%nat ->
    last (map m_type ms) 255 = MatchType_Fallback ->
    exists km, install prev ms tries alloc = Ok km.
Proof. exact install_total. Qed.
Print Assumptions C02_install_total.

(* ROUND TRIP of the encodings: for every match-set and ring offset, the kernel's accessors applied to the bytes the
   control plane writes (Go encoding + ring rewrite) yield the field values: type, not, outbound, must, mark; LPM slot;
   port_start/port_end; protocol/version masks; the process name as two 64-bit words; dscp. *)
Theorem C02_encode_decode :
  forall (alloc n : N) (m : mset), wf_mset n m = true -> decodes alloc (kentry alloc m) m.
Proof. exact encode_decode. Qed.
Print Assumptions C02_encode_decode.

Theorem C02_rewrite_is_kentry :
  forall (alloc count n : N) (ms : list mset), forallb (wf_mset n) ms = true -> n <= count -> count <= 1024 ->
    rewrite_rules alloc count (map enc_mset ms) = Ok (map (kentry alloc) ms).
Proof. exact rewrite_rules_kentry. Qed.
Print Assumptions C02_rewrite_is_kentry.

(* the result word is lossless for marks < 2^32 and outbounds <= 255 *)
Theorem C02_result_word_lossless :
  forall (o mark : N) (must : bool), o < 256 -> mark < 4294967296 ->
    decode_word (KWord (pack o mark must)) = Some (o, mark, must).
Proof. exact decode_pack. Qed.
Print Assumptions C02_result_word_lossless.

(* LPM keys: the kernel trie filled with cidrToBpfLpmKey of a prefix set answers CIDR containment for a /128 lookup *)
Theorem C02_lpm_keys :
  forall (x : N) (t : list prefix128), forallb wf_prefix t = true -> x < 2 ^ 128 ->
    lpm_lookup (map key_of_prefix t) 128 (bytes_be 16 x) = existsb (px_covers x) t.
Proof. exact lpm_lookup_keys. Qed.
Print Assumptions C02_lpm_keys.

(* RING: the slots of one generation are pairwise distinct, and after buildRoutingKernspace every trie sits in the slot
   its rewritten rule index names — for every ring offset and whatever earlier reloads left in the map *)
Theorem C02_ring_injective :
  forall (alloc : N) (count : nat), (count <= 1024)%nat ->
    NoDup (map (fun i => ring_slot MaxMatchSetLen alloc (N.of_nat i)) (seq 0 count)).
Proof. exact ring_nodup. Qed.
Print Assumptions C02_ring_injective.

Theorem C02_ring_own_slot :
  forall (tries : list (list prefix128)) (prev : N -> option (list (list N))) (alloc : N) (k : nat) (t : list prefix128),
    N.of_nat (List.length tries) <= MaxMatchSetLen -> nth_error tries k = Some t ->
    install_tries prev alloc 0 tries (ring_slot MaxMatchSetLen alloc (0 + N.of_nat k)) = Some (map key_of_prefix t).
Proof. intros tries prev alloc k t. exact (install_tries_get tries prev alloc 0 k t). Qed.
Print Assumptions C02_ring_own_slot.

(* SYNC: struct layout, limits and enum values reported by the C compiler, by the Go compiler/consts package and those
   hard-coded in the model coincide (exhaustive over the extracted tables: a proof about the current declarations) *)
Theorem C02_enum_sync :
  table_eqb C_TABLE GO_TABLE = true /\ table_eqb C_TABLE MODEL_TABLE = true /\ table_eqb C_UNION_TABLE MODEL_UNION_TABLE = true /\
  MaxMatchSetLen <= K_MAX_LPM_NUM /\ CONTROL_PLANE_ROUTING = OutboundControlPlaneRouting.
Proof. exact enum_sync_proof. Qed.
Print Assumptions C02_enum_sync.

Example C02_nonvacuous :
  forallb (wf_mset 3) ex_msets = true /\ forallb (forallb wf_prefix) ex_tries = true /\
  (exists km, install empty_kmaps ex_msets ex_tries 1022 = Ok km /\
              map (fun k => ms_index (nth k (km_routing km) [])) [1; 2; 4]%nat = [1022; 1023; 0]) /\
  kernel_decides empty_kmaps ex_msets ex_tries 1022 None (ex_pk 0xffff0a010203 443 0 "") false = Ok (Some (2, 7, false)) /\
  kernel_decides empty_kmaps ex_msets ex_tries 1022 None (ex_pk 0xffff0a010203 53 0 "") false = Ok (Some (2, 7, true)) /\
  kernel_decides empty_kmaps ex_msets ex_tries 1022 None (ex_pk 0xffff08080808 443 0x0242ac110002 "") false = Ok (Some (3, 0xffffffff, true)) /\
  kernel_decides empty_kmaps ex_msets ex_tries 1022 (dom_entry (Some (ex_dm ""))) (ex_pk 0xffff08080808 443 0 "x.org") false = Ok (Some (4, 0, false)) /\
  kernel_decides empty_kmaps ex_msets ex_tries 1022 None (ex_pk 0xffff08080808 443 0 "") false = Ok (Some (0, 0, false)) /\
  kernel_decides empty_kmaps ex_msets ex_tries 1022 None (ex_pk 0xffff08080808 53 0 "") false = Ok (Some (0, 0, true)) /\
  expected 53 (Some (0, 0, false)) = Some (CONTROL_PLANE_ROUTING, 0, false).
Proof. exact nonvacuous_proof. Qed.
