(* C02 — property theorems only. *)
From Coq Require Import List NArith Bool String.
From Dae Require Import C01_Spec C01_Model C02_Spec C02_Model C02_Proofs.
Import ListNotations.
Open Scope N_scope.

Theorem C02_le32_roundtrip : forall x r, x < 4294967296 -> le32 (le32_bytes x ++ r) 0 = x.
Proof. exact le32_bytes_le32. Qed.
Print Assumptions C02_le32_roundtrip.
