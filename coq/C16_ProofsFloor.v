(* C16 — reload: handover of the last known alive state and the selection floor (disjoint groups). *)
From Coq Require Import List NArith ZArith Bool Lia.
From Dae Require Import C16_Spec C16_Model C16_Proofs.
From Dae.gen Require Import C16_Consts.
Import ListNotations.  Open Scope N_scope.

(* ---------- generic ---------- *)
Lemma fl_fold_inv : forall (A B : Type) (Q : A -> Prop) (f : A -> B -> A) l a,
  (forall a b, Q a -> Q (f a b)) -> Q a -> Q (fold_left f l a).
Proof. induction l as [|b r IH]; intros a Hs Ha; cbn [fold_left]; auto. Qed.

Lemma fl_fold_inv_in : forall (A B : Type) (Q : A -> Prop) (f : A -> B -> A) l a,
  (forall a b, In b l -> Q a -> Q (f a b)) -> Q a -> Q (fold_left f l a).
Proof.
  induction l as [|b r IH]; intros a Hs Ha; cbn [fold_left]; auto.
  apply IH; [intros; apply Hs; [now right|assumption]|apply Hs; [now left|assumption]].
Qed.

(* ---------- m_d is untouched by the set-level operations ---------- *)
Lemma fl_inform_md : forall cfg m n d alive l, m_d (inform cfg m n d alive l) = m_d m.
Proof. intros. now destruct (inform_health cfg m n d alive l). Qed.
Lemma fl_inform_group_md : forall cfg m gi g n d alive l, m_d (inform_group cfg m gi g n d alive l) = m_d m.
Proof. intros. now destruct (inform_group_health cfg m gi g n d alive l). Qed.

Lemma fl_new_group_md : forall cfg m gi g, m_d (new_group cfg m gi g) = m_d m.
Proof.
  intros. unfold new_group. cbn [m_d]. destruct (keeps_sets g); [|reflexivity].
  apply fl_fold_inv with (Q := fun m' => m_d m' = m_d m); [|reflexivity].
  intros a d Ha. apply fl_fold_inv with (Q := fun m' => m_d m' = m_d m); [|assumption].
  intros a' e Ha'. now rewrite fl_inform_group_md.
Qed.
Lemma fl_new_groups_md : forall cfg gs m gi, m_d (new_groups cfg m gi gs) = m_d m.
Proof. induction gs as [|g r IH]; intros; cbn [new_groups]; [reflexivity|]. now rewrite IH, fl_new_group_md. Qed.
Lemma fl_fresh_md : forall cfg m n, m_d (m_fresh_generation cfg m) n = fresh_dialer.
Proof. intros. unfold m_fresh_generation. now rewrite fl_new_groups_md. Qed.

(* ---------- handover ---------- *)
Definition HOd (o x : mdialer) : Prop :=
  (forall i, md_fail x i = 0 /\ md_traffic x i = 0) /\ (forall j, md_alive o j = true -> md_alive x j = true).
Definition HO (old : N -> mdialer) (m : mstate) : Prop := forall n, HOd (old n) (m_d m n).

Lemma HO_upd : forall old m m' n x, HO old m -> HOd (old n) x -> m_d m' = upd (m_d m) n x -> HO old m'.
Proof.
  intros old m m' n x H Hx E n'. rewrite E. unfold upd. destruct (n' =? n) eqn:En; [|apply H].
  apply N.eqb_eq in En. now subst.
Qed.

Lemma fl_restore_md : forall cfg o m n l,
  exists x', m_d (restore cfg o m n l) = upd (m_d m) n x' /\ (HOd o (m_d m n) -> HOd o x').
Proof.
  intros. unfold restore.
  match goal with |- context [fold_left ?f all_idx ?a] => destruct (fold_left f all_idx a) as [x' ups] eqn:F end.
  exists x'. split.
  - apply fl_fold_inv with (Q := fun m' => m_d m' = upd (m_d m) n x'); [|reflexivity].
    intros a [[i was] al] Ha. destruct (xorb was al); cbn [log_transition m_d]; now rewrite fl_inform_md.
  - intros H0. change x' with (fst (x', ups)). rewrite <- F.
    apply fl_fold_inv with (Q := fun acc : mdialer * list (N * bool * bool) => HOd o (fst acc)); [|exact H0].
    intros [x u] i (Hc & Ha). cbn [fst snd]. split; cbn [md_fail md_traffic md_alive].
    + intros k. unfold upd. destruct (k =? i); [split; reflexivity|apply Hc].
    + intros j Hj. unfold upd. destruct (j =? canon i) eqn:E; [apply N.eqb_eq in E; now subst|now apply Ha].
Qed.

Lemma HO_restore : forall cfg old m n l, HO old m -> HO old (restore cfg (old n) m n l).
Proof.
  intros. destruct (fl_restore_md cfg (old n) m n l) as (x' & E & Hx).
  eapply HO_upd; [eassumption| |exact E]. apply Hx, H.
Qed.

Lemma fl_maf_md : forall cfg m n d l,
  m_d (mark_alive_fallback cfg m n d l) =
  upd (m_d m) n {| md_alive := upd (md_alive (m_d m n)) (canon (index_of d)) true;
                   md_fail := upd (md_fail (m_d m n)) (index_of d) 0;
                   md_traffic := upd (md_traffic (m_d m n)) (index_of d) 0 |}.
Proof.
  intros. unfold mark_alive_fallback. destruct (md_alive (m_d m n) (canon (index_of d)));
    cbn [log_transition m_d]; now rewrite fl_inform_md.
Qed.

Lemma HO_maf : forall cfg old m n d l, HO old m -> HO old (mark_alive_fallback cfg m n d l).
Proof.
  intros. eapply HO_upd; [eassumption| |apply fl_maf_md].
  destruct (H n) as (Hc & Ha). split; cbn [md_fail md_traffic md_alive].
  - intros k. unfold upd. destruct (k =? index_of d); [split; reflexivity|apply Hc].
  - intros j Hj. unfold upd. destruct (j =? canon (index_of d)); [reflexivity|now apply Ha].
Qed.

Lemma HO_floor : forall cfg old m gi g fb l, HO old m -> HO old (ensure_floor cfg m gi g fb l).
Proof.
  intros. unfold ensure_floor. destruct (keeps_sets g); [|assumption].
  apply fl_fold_inv with (Q := HO old); [|assumption].
  intros a d Ha. destruct (negb _); [assumption|].
  destruct (fb d) as [c|]; [now apply HO_maf|]. destruct (g_members g) as [|e ?]; [assumption|now apply HO_maf].
Qed.

Lemma HO_inherit : forall cfg old l gs m gi, HO old m -> HO old (inherit cfg old m gi gs l).
Proof.
  induction gs as [|g r IH]; intros m gi H; cbn [inherit]; [assumption|].
  apply IH. apply HO_floor. apply fl_fold_inv with (Q := HO old); [|assumption].
  intros a e Ha. now apply HO_restore.
Qed.

Lemma C16_reload_handover_partial_proof : forall cfg h l,
  let m' := m_run cfg (h ++ [EReload l]) in
  (forall n i, md_fail (m_d m' n) i = 0 /\ md_traffic (m_d m' n) i = 0)
  /\ (forall n d, model_alive cfg h n d = true -> d_alive (m_d m' n) d = true).
Proof.
  intros cfg h l m'. subst m'. rewrite m_run_snoc. cbn [m_step]. unfold m_reload.
  set (m := clear_logs (m_run cfg h)).
  assert (H : HO (m_d m) (inherit cfg (m_d m) (m_fresh_generation cfg m) 0 (c_groups cfg) l)).
  { apply HO_inherit. intros n. rewrite fl_fresh_md. split; [split; reflexivity|reflexivity]. }
  split.
  - intros n i. apply (H n).
  - intros n d Hd. unfold d_alive. apply (H n). exact Hd.
Qed.


(* ====================================================================== *)
(* set-level lemmas (the first block is copied from C16_ProofsGroups.v)   *)
(* ====================================================================== *)
Definition fl_keys (l : list (N * Z)) : list N := map fst l.

Lemma fl_is_member_app : forall d a b, is_member d (a ++ b) = is_member d a || is_member d b.
Proof. intros; unfold is_member; apply existsb_app. Qed.
Lemma fl_is_member_In : forall d l, is_member d l = true <-> In d (fl_keys l).
Proof.
  intros d l; unfold is_member, fl_keys. rewrite existsb_exists. split.
  - intros (e & He & Hd). apply N.eqb_eq in Hd. subst. now apply in_map.
  - intros H. apply in_map_iff in H. destruct H as (e & <- & He). exists e; split; auto. apply N.eqb_refl.
Qed.
Lemma fl_is_member_false : forall d l, is_member d l = false <-> ~ In d (fl_keys l).
Proof. intros. rewrite <- fl_is_member_In. destruct (is_member d l); split; congruence. Qed.
Lemma fl_is_member_keys : forall d l l', fl_keys l = fl_keys l' -> is_member d l = is_member d l'.
Proof.
  intros d l l' H. destruct (is_member d l) eqn:E; symmetry.
  - apply fl_is_member_In. rewrite <- H. now apply fl_is_member_In.
  - apply fl_is_member_false. rewrite <- H. now apply fl_is_member_false.
Qed.
Lemma fl_is_member_cons : forall d e l, is_member d (e :: l) = (fst e =? d) || is_member d l.
Proof. reflexivity. Qed.
Lemma fl_is_member_nil : forall d, is_member d [] = false.
Proof. reflexivity. Qed.

Lemma fl_scan_facts : forall l v o,
  let r := fold_left scan_step l (v, o) in
  (snd r = None <-> o = None /\ l = []) /\
  (forall k, snd r = Some k -> o = Some k \/ is_member k l = true).
Proof.
  induction l as [|e r IH]; intros v o; cbn [fold_left].
  - cbn. split; [split; [auto|now intros (H & _)]|auto].
  - set (acc := scan_step (v, o) e). destruct acc as [v' o'] eqn:Ea. specialize (IH v' o'). cbn zeta in *.
    destruct IH as (IH1 & IH2). unfold acc, scan_step in Ea. cbn [fst snd] in Ea.
    split.
    + split.
      * intros H. destruct (proj1 IH1 H) as (Ho & Hr). exfalso. subst o'.
        destruct o; cbn in Ea; [destruct (snd e <? v)%Z|]; inversion Ea.
      * intros (_ & H). discriminate.
    + intros k H0. destruct (IH2 k H0) as [H | H].
      * destruct o as [k0|]; cbn in Ea.
        -- destruct (snd e <? v)%Z; injection Ea as Hv Ho.
           ++ rewrite <- Ho in H. injection H as Hk. right. rewrite fl_is_member_cons, Hk, N.eqb_refl. reflexivity.
           ++ left. congruence.
        -- injection Ea as Hv Ho. rewrite <- Ho in H. injection H as Hk. right. rewrite fl_is_member_cons, Hk, N.eqb_refl. reflexivity.
      * right. rewrite fl_is_member_cons, H. apply orb_true_r.
Qed.

Lemma fl_calc_min_entries : forall tol a, as_entries (calc_min tol a) = as_entries a.
Proof.
  intros. unfold calc_min. destruct (fold_left scan_step (as_entries a) (HOUR, None)) as [ml md].
  destruct (as_best a); [destruct md; [destruct (switch_ok _ _ _)|]|]; reflexivity.
Qed.

Lemma fl_set_lat_keys : forall d v l, fl_keys (set_lat d v l) = fl_keys l.
Proof. intros; unfold fl_keys, set_lat. rewrite map_map. apply map_ext. intros e. destruct (fst e =? d); reflexivity. Qed.

Ltac fl_split_ifs :=
  repeat (cbn [fst snd as_entries as_best as_best_lat andb negb orb];
          match goal with
          | |- context [if ?c then _ else _] => destruct c eqn:?
          | |- context [match ?x with Some _ => _ | None => _ end] => destruct x eqn:?
          end).

Lemma fl_notify_entries_keys : forall minp tol off a d alive lat,
  fl_keys (as_entries (fst (notify minp tol off a d alive lat))) =
  fl_keys (if alive then (if is_member d (as_entries a) then as_entries a else as_entries a ++ [(d, 0%Z)])
        else (if is_member d (as_entries a) then swap_remove d (as_entries a) else as_entries a)).
Proof.
  intros. unfold notify.
  destruct alive; destruct (is_member d (as_entries a)) eqn:M; destruct minp; destruct lat as [raw|];
    cbn [andb negb orb fst snd as_entries as_best as_best_lat];
    fl_split_ifs; rewrite ?fl_calc_min_entries; cbn [as_entries]; rewrite ?fl_calc_min_entries, ?fl_set_lat_keys; try reflexivity.
  all: cbn [fst snd]; rewrite ?fl_calc_min_entries; reflexivity.
Qed.

(* ---------- swap_remove only removes (no NoDup needed) ---------- *)
Lemma fl_removelast_In : forall A (x : A) l, In x (removelast l) -> In x l.
Proof.
  induction l as [|y r IH]; cbn; [auto|]. destruct r as [|z r']; [intros []|].
  intros [H|H]; [now left|right; now apply IH].
Qed.
Lemma fl_set_nth_In : forall A (x v : A) l i, In x (set_nth i v l) -> x = v \/ In x l.
Proof.
  induction l as [|y r IH]; intros i H; [destruct i; destruct H|].
  destruct i; cbn in H.
  - destruct H as [H|H]; [left; now symmetry|right; now right].
  - destruct H as [H|H]; [right; now left|]. destruct (IH _ H); [now left|right; now right].
Qed.
Lemma fl_last_In : forall A (d : A) l, l <> [] -> In (last l d) l.
Proof.
  induction l as [|y r IH]; intros H; [congruence|]. destruct r as [|z r']; [now left|].
  right. apply IH. discriminate.
Qed.
Lemma fl_swap_remove_In : forall d l e, In e (swap_remove d l) -> In e l.
Proof.
  intros d l e. unfold swap_remove. destruct (find_idx d l) as [i|]; [|auto].
  destruct (Nat.ltb i (length l - 1)); intros H; apply fl_removelast_In in H; [|assumption].
  destruct l as [|y r]; [destruct i; destruct H|].
  apply fl_set_nth_In in H. destruct H as [->|H]; [|assumption].
  apply fl_last_In. discriminate.
Qed.


Lemma fl_swap_remove_mem : forall d l k, is_member k (swap_remove d l) = true -> is_member k l = true.
Proof.
  intros d l k H. unfold is_member in *. rewrite existsb_exists in *. destruct H as (e & He & Hk).
  exists e. split; [now apply fl_swap_remove_In in He|assumption].
Qed.

Lemma fl_calc_min_best : forall tol X b, as_best (calc_min tol X) = Some b ->
  as_best X = Some b \/ is_member b (as_entries X) = true.
Proof.
  intros tol X b. unfold calc_min. pose proof (fl_scan_facts (as_entries X) HOUR None) as (_ & F2). cbn zeta in F2.
  destruct (fold_left scan_step (as_entries X) (HOUR, None)) as [ml md]. cbn [snd] in F2.
  destruct (as_best X) as [b0|] eqn:B; [destruct md as [k|]; [destruct (switch_ok tol ml (as_best_lat X))|]|];
    cbn [as_best]; intros H; try (left; congruence).
  - right. destruct (F2 b H); [discriminate|assumption].
  - right. destruct (F2 b H); [discriminate|assumption].
Qed.

Lemma fl_is_member_set_lat : forall y d v l, is_member y (set_lat d v l) = is_member y l.
Proof. intros. apply fl_is_member_keys. apply fl_set_lat_keys. Qed.

Lemma fl_notify_best : forall minp tol off a d alive lat b,
  as_best (fst (notify minp tol off a d alive lat)) = Some b ->
  b = d \/ as_best a = Some b \/ is_member b (as_entries a) = true.
Proof.
  intros minp tol off a d alive lat b. unfold notify.
  destruct alive; destruct (is_member d (as_entries a)) eqn:M; destruct minp; destruct lat as [raw|];
    cbn [andb negb orb fst snd as_entries as_best as_best_lat];
    fl_split_ifs; cbn [fst snd as_best]; intros H.
  all: try (right; left; exact H).
  all: try (left; congruence).
  all: apply fl_calc_min_best in H; cbn [as_best as_entries] in H; destruct H as [H|H]; try discriminate;
       try (right; left; exact H);
       rewrite ?fl_is_member_set_lat in H; try apply fl_swap_remove_mem in H; try (right; right; exact H).
  all: rewrite fl_is_member_app in H; apply orb_true_iff in H; destruct H as [H|H]; [right; right; exact H|left];
       cbn in H; rewrite orb_false_r in H; apply N.eqb_eq in H; now subst.
Qed.


(* ---------- notify: what a `true` notification guarantees; keys stay inside the group ---------- *)
Lemma fl_notify_true_mono : forall minp tol off a d lat y,
  is_member y (as_entries a) = true -> is_member y (as_entries (fst (notify minp tol off a d true lat))) = true.
Proof.
  intros. rewrite (fl_is_member_keys y _ _ (fl_notify_entries_keys minp tol off a d true lat)).
  destruct (is_member d (as_entries a)); [assumption|]. rewrite fl_is_member_app, H. reflexivity.
Qed.
Lemma fl_notify_true_reach : forall minp tol off a d lat,
  is_member d (as_entries (fst (notify minp tol off a d true lat))) = true.
Proof.
  intros. rewrite (fl_is_member_keys d _ _ (fl_notify_entries_keys minp tol off a d true lat)).
  destruct (is_member d (as_entries a)) eqn:M; [assumption|].
  rewrite fl_is_member_app, fl_is_member_cons. cbn [fst]. rewrite N.eqb_refl. apply orb_true_r.
Qed.

Definition good (g : group) (a : aset) : Prop :=
  (forall k, is_member k (as_entries a) = true -> is_member k (g_members g) = true) /\
  (forall b, as_best a = Some b -> is_member b (g_members g) = true).

Lemma fl_notify_good : forall g minp tol off a d alive lat,
  good g a -> is_member d (g_members g) = true -> good g (fst (notify minp tol off a d alive lat)).
Proof.
  intros g minp tol off a d alive lat (G1 & G2) Hd. split.
  - intros k Hk. rewrite (fl_is_member_keys k _ _ (fl_notify_entries_keys minp tol off a d alive lat)) in Hk.
    destruct alive; destruct (is_member d (as_entries a)); auto.
    + rewrite fl_is_member_app in Hk. apply orb_true_iff in Hk. destruct Hk as [Hk|Hk]; [auto|].
      cbn in Hk. rewrite orb_false_r in Hk. apply N.eqb_eq in Hk. now subst.
    + apply fl_swap_remove_mem in Hk; auto.
  - intros b Hb. apply fl_notify_best in Hb. destruct Hb as [->|[Hb|Hb]]; auto.
Qed.

(* ---------- inform_group on the sets ---------- *)
Lemma fl_inform_group_sets : forall cfg m gi g n d alive l gi' d',
  m_sets (inform_group cfg m gi g n d alive l) gi' d' =
  if keeps_sets g && is_member n (g_members g) && ((gi' =? gi) && dom_eqb d' d)
  then fst (notify (is_min g) (c_tol cfg) (offset_of g n) (m_sets m gi d) n alive (lookup_lat l n gi d))
  else m_sets m gi' d'.
Proof.
  intros. unfold inform_group. destruct (keeps_sets g && is_member n (g_members g)); cbn [andb]; [|reflexivity].
  destruct (notify _ _ _ _ _ _ _) as [a' cbs]. reflexivity.
Qed.

Definition SetsInS (cfg : config) (s : N -> dom -> aset) : Prop :=
  forall i g, nth_error (c_groups cfg) i = Some g -> forall d, good g (s (N.of_nat i) d).
Definition SetsIn (cfg : config) (m : mstate) : Prop := SetsInS cfg (m_sets m).

Lemma fl_cond_true : forall g n gi' gi d' d,
  keeps_sets g && is_member n (g_members g) && ((gi' =? gi) && dom_eqb d' d) = true ->
  keeps_sets g = true /\ is_member n (g_members g) = true /\ gi' = gi /\ d' = d.
Proof.
  intros. apply andb_true_iff in H. destruct H as (H1 & H2). apply andb_true_iff in H1, H2.
  destruct H1, H2. repeat split; auto; [now apply N.eqb_eq|now apply dom_eqb_eq].
Qed.

Lemma fl_inform_group_setsin : forall cfg m i g n d alive l,
  nth_error (c_groups cfg) i = Some g -> SetsInS cfg (m_sets m) ->
  SetsInS cfg (m_sets (inform_group cfg m (N.of_nat i) g n d alive l)).
Proof.
  intros cfg m i g n d alive l Hg H i' g' Hg' d'. rewrite fl_inform_group_sets.
  match goal with |- good _ (if ?c then _ else _) => destruct c eqn:C end; [|now apply H].
  apply fl_cond_true in C. destruct C as (_ & Hm & Hi & ->). apply Nat2N.inj in Hi. subst i'.
  assert (g' = g) by congruence. subst g'. apply fl_notify_good; [now apply H|assumption].
Qed.

Lemma fl_inform_groups_lift : forall cfg (P : (N -> dom -> aset) -> Prop) n d alive l,
  (forall m i g, nth_error (c_groups cfg) i = Some g -> P (m_sets m) ->
                 P (m_sets (inform_group cfg m (N.of_nat i) g n d alive l))) ->
  forall gs pre m, c_groups cfg = pre ++ gs -> P (m_sets m) ->
    P (m_sets (inform_groups cfg m (N.of_nat (length pre)) gs n d alive l)).
Proof.
  intros cfg P n d alive l Hs. induction gs as [|g r IH]; intros pre m E Hm; cbn [inform_groups]; [assumption|].
  replace (N.of_nat (length pre) + 1) with (N.of_nat (length (pre ++ [g]))) by (rewrite app_length; cbn [length]; lia).
  apply IH; [rewrite <- app_assoc; exact E|]. apply Hs; [|assumption].
  rewrite E. rewrite nth_error_app2, Nat.sub_diag; [reflexivity|lia].
Qed.
Lemma fl_inform_lift : forall cfg (P : (N -> dom -> aset) -> Prop) n d alive l,
  (forall m i g, nth_error (c_groups cfg) i = Some g -> P (m_sets m) ->
                 P (m_sets (inform_group cfg m (N.of_nat i) g n d alive l))) ->
  forall m, P (m_sets m) -> P (m_sets (inform cfg m n d alive l)).
Proof. intros. unfold inform. now apply (fl_inform_groups_lift cfg P n d alive l H (c_groups cfg) []). Qed.

Lemma fl_inform_setsin : forall cfg m n d alive l, SetsIn cfg m -> SetsIn cfg (inform cfg m n d alive l).
Proof. intros. apply fl_inform_lift with (P := SetsInS cfg); [|assumption]. intros. now apply fl_inform_group_setsin. Qed.

Lemma fl_inform_true_mono : forall cfg m n d l gi' d' y,
  is_member y (as_entries (m_sets m gi' d')) = true ->
  is_member y (as_entries (m_sets (inform cfg m n d true l) gi' d')) = true.
Proof.
  intros. apply fl_inform_lift with (P := fun s => is_member y (as_entries (s gi' d')) = true); [|assumption].
  intros m0 i g Hg H0. rewrite fl_inform_group_sets.
  match goal with |- context [if ?c then _ else _] => destruct c eqn:C end; [|assumption].
  apply fl_cond_true in C. destruct C as (_ & _ & -> & ->). now apply fl_notify_true_mono.
Qed.

Lemma fl_inform_untouched : forall cfg (Q : aset -> Prop) m n d alive l i0 g0 d0,
  nth_error (c_groups cfg) i0 = Some g0 -> is_member n (g_members g0) = false ->
  Q (m_sets m (N.of_nat i0) d0) -> Q (m_sets (inform cfg m n d alive l) (N.of_nat i0) d0).
Proof.
  intros cfg Q m n d alive l i0 g0 d0 Hg0 Hn H.
  apply fl_inform_lift with (P := fun s => Q (s (N.of_nat i0) d0)); [|assumption].
  intros m0 i g Hg H0. rewrite fl_inform_group_sets.
  match goal with |- context [if ?c then _ else _] => destruct c eqn:C end; [|assumption].
  apply fl_cond_true in C. destruct C as (_ & Hm & Hi & _). apply Nat2N.inj in Hi. subst i.
  assert (g = g0) by congruence. subst g. congruence.
Qed.

Lemma fl_inform_groups_reach : forall cfg n d l i0 g0,
  nth_error (c_groups cfg) i0 = Some g0 -> keeps_sets g0 = true -> is_member n (g_members g0) = true ->
  forall gs pre m, c_groups cfg = pre ++ gs ->
    ((i0 < length pre)%nat -> is_member n (as_entries (m_sets m (N.of_nat i0) d)) = true) ->
    is_member n (as_entries (m_sets (inform_groups cfg m (N.of_nat (length pre)) gs n d true l) (N.of_nat i0) d)) = true.
Proof.
  intros cfg n d l i0 g0 Hg0 Hk Hn. induction gs as [|g r IH]; intros pre m E Hm; cbn [inform_groups].
  - apply Hm. rewrite app_nil_r in E. rewrite <- E. apply nth_error_Some. congruence.
  - replace (N.of_nat (length pre) + 1) with (N.of_nat (length (pre ++ [g]))) by (rewrite app_length; cbn [length]; lia).
    apply IH; [rewrite <- app_assoc; exact E|]. intros Hlt. rewrite app_length in Hlt. cbn [length] in Hlt.
    rewrite fl_inform_group_sets.
    destruct (Nat.eq_dec i0 (length pre)) as [Heq|Hne].
    + subst i0. assert (g = g0).
      { rewrite E in Hg0. rewrite nth_error_app2, Nat.sub_diag in Hg0; [cbn in Hg0; congruence|lia]. }
      subst g. rewrite Hk, Hn, N.eqb_refl, dom_eqb_refl. cbn [andb]. apply fl_notify_true_reach.
    + match goal with |- context [if ?c then _ else _] => destruct c eqn:C end; [|apply Hm; lia].
      apply fl_cond_true in C. destruct C as (_ & _ & Hi & _). apply Nat2N.inj in Hi. contradiction.
Qed.
Lemma fl_inform_reach : forall cfg m n d l i0 g0,
  nth_error (c_groups cfg) i0 = Some g0 -> keeps_sets g0 = true -> is_member n (g_members g0) = true ->
  is_member n (as_entries (m_sets (inform cfg m n d true l) (N.of_nat i0) d)) = true.
Proof.
  intros. unfold inform. apply (fl_inform_groups_reach cfg n d l i0 g0 H H0 H1 (c_groups cfg) []); [reflexivity|].
  cbn [length]. lia.
Qed.


(* ---------- restore / mark_alive_fallback / ensure_floor on the sets ---------- *)
Lemma fl_restore_sets_lift : forall cfg (P : (N -> dom -> aset) -> Prop) o m n l,
  (forall m d alive, P (m_sets m) -> P (m_sets (inform cfg m n d alive l))) ->
  P (m_sets m) -> P (m_sets (restore cfg o m n l)).
Proof.
  intros cfg P o m n l Hs Hm. unfold restore.
  match goal with |- context [fold_left ?f all_idx ?a] => destruct (fold_left f all_idx a) as [x' ups] end.
  apply fl_fold_inv with (Q := fun m' => P (m_sets m')); [|exact Hm].
  intros a [[i was] al] Ha. destruct (xorb was al); cbn [log_transition m_sets]; now apply Hs.
Qed.

Lemma fl_maf_sets : forall cfg m n d l, exists m0,
  m_sets m0 = m_sets m /\ m_sets (mark_alive_fallback cfg m n d l) = m_sets (inform cfg m0 n d true l).
Proof.
  intros. unfold mark_alive_fallback. eexists. split; [|destruct (md_alive (m_d m n) (canon (index_of d))); reflexivity].
  reflexivity.
Qed.

Lemma fl_maf_setsin : forall cfg m n d l, SetsIn cfg m -> SetsIn cfg (mark_alive_fallback cfg m n d l).
Proof.
  intros. destruct (fl_maf_sets cfg m n d l) as (m0 & E0 & E). unfold SetsIn. rewrite E.
  apply fl_inform_setsin. unfold SetsIn. now rewrite E0.
Qed.
Lemma fl_maf_mono : forall cfg m n d l gi' d' y,
  is_member y (as_entries (m_sets m gi' d')) = true ->
  is_member y (as_entries (m_sets (mark_alive_fallback cfg m n d l) gi' d')) = true.
Proof.
  intros. destruct (fl_maf_sets cfg m n d l) as (m0 & E0 & E). rewrite E.
  apply fl_inform_true_mono. now rewrite E0.
Qed.
Lemma fl_maf_reach : forall cfg m n d l i0 g0,
  nth_error (c_groups cfg) i0 = Some g0 -> keeps_sets g0 = true -> is_member n (g_members g0) = true ->
  is_member n (as_entries (m_sets (mark_alive_fallback cfg m n d l) (N.of_nat i0) d)) = true.
Proof.
  intros. destruct (fl_maf_sets cfg m n d l) as (m0 & E0 & E). rewrite E. now apply fl_inform_reach with (g0 := g0).
Qed.

Definition NE (a : aset) : Prop := exists y, is_member y (as_entries a) = true.
Lemma NE_len : forall a, NE a <-> negb (Nat.eqb (length (as_entries a)) 0) = true.
Proof.
  intros a; unfold NE. destruct (as_entries a) as [|e r]; cbn.
  - split; [intros (y & H); discriminate|discriminate].
  - split; [reflexivity|]. intros _. exists (fst e). now rewrite N.eqb_refl.
Qed.

Definition floor_step (cfg : config) (gi : N) (g : group) (fb : dom -> option N) (l : latmap) (m : mstate) (d : dom) : mstate :=
  if negb (Nat.eqb (length (as_entries (m_sets m gi d))) 0) then m
  else match (match fb d with Some c => Some c | None => match g_members g with [] => None | e :: _ => Some (fst e) end end) with
       | Some c => mark_alive_fallback cfg m c d l
       | None => m
       end.
Lemma fl_ensure_floor_eq : forall cfg m gi g fb l,
  ensure_floor cfg m gi g fb l = if keeps_sets g then fold_left (floor_step cfg gi g fb l) standard_order m else m.
Proof. reflexivity. Qed.

Lemma fl_floor_step_setsin : forall cfg gi g fb l m d, SetsIn cfg m -> SetsIn cfg (floor_step cfg gi g fb l m d).
Proof.
  intros. unfold floor_step. destruct (negb _); [assumption|].
  destruct (fb d); [now apply fl_maf_setsin|]. destruct (g_members g); [assumption|now apply fl_maf_setsin].
Qed.
Lemma fl_floor_step_mono : forall cfg gi g fb l m d gi' d',
  NE (m_sets m gi' d') -> NE (m_sets (floor_step cfg gi g fb l m d) gi' d').
Proof.
  intros cfg gi g fb l m d gi' d' (y & Hy). exists y. unfold floor_step. destruct (negb _); [assumption|].
  destruct (fb d); [now apply fl_maf_mono|]. destruct (g_members g); [assumption|now apply fl_maf_mono].
Qed.

Lemma fl_floor_setsin : forall cfg m gi g fb l, SetsIn cfg m -> SetsIn cfg (ensure_floor cfg m gi g fb l).
Proof.
  intros. rewrite fl_ensure_floor_eq. destruct (keeps_sets g); [|assumption].
  apply fl_fold_inv with (Q := SetsIn cfg); [|assumption]. intros. now apply fl_floor_step_setsin.
Qed.
Lemma fl_floor_mono : forall cfg m gi g fb l gi' d',
  NE (m_sets m gi' d') -> NE (m_sets (ensure_floor cfg m gi g fb l) gi' d').
Proof.
  intros. rewrite fl_ensure_floor_eq. destruct (keeps_sets g); [|assumption].
  apply fl_fold_inv with (Q := fun m' => NE (m_sets m' gi' d')); [|assumption]. intros. now apply fl_floor_step_mono.
Qed.

Lemma fl_floor_step_own : forall cfg i g fb l m d,
  nth_error (c_groups cfg) i = Some g -> keeps_sets g = true -> g_members g <> [] ->
  (forall d c, fb d = Some c -> is_member c (g_members g) = true) ->
  NE (m_sets (floor_step cfg (N.of_nat i) g fb l m d) (N.of_nat i) d).
Proof.
  intros cfg i g fb l m d Hg Hk Hne Hfb. unfold floor_step.
  destruct (negb _) eqn:C; [now apply NE_len|].
  destruct (fb d) as [c|] eqn:F.
  - exists c. apply fl_maf_reach with (g0 := g); auto. now apply (Hfb d).
  - destruct (g_members g) as [|e r] eqn:Em; [congruence|].
    exists (fst e). apply fl_maf_reach with (g0 := g); auto. rewrite Em. cbn. now rewrite N.eqb_refl.
Qed.

Lemma fl_floor_own : forall cfg m i g fb l,
  nth_error (c_groups cfg) i = Some g -> keeps_sets g = true -> g_members g <> [] ->
  (forall d c, fb d = Some c -> is_member c (g_members g) = true) ->
  forall d, NE (m_sets (ensure_floor cfg m (N.of_nat i) g fb l) (N.of_nat i) d).
Proof.
  intros cfg m i g fb l Hg Hk Hne Hfb d. rewrite fl_ensure_floor_eq, Hk.
  assert (G : forall L m, In d L \/ NE (m_sets m (N.of_nat i) d) ->
                          NE (m_sets (fold_left (floor_step cfg (N.of_nat i) g fb l) L m) (N.of_nat i) d)).
  { induction L as [|d0 L IH]; intros m0 H; cbn [fold_left].
    - destruct H as [[]|H]; assumption.
    - apply IH. destruct H as [[->|H]|H]; [right|now left|right].
      + now apply fl_floor_step_own.
      + now apply fl_floor_step_mono. }
  apply G. left. destruct d; cbn; auto 10.
Qed.

(* ---------- the captured fallback is a member ---------- *)
Lemma fl_first_some_map : forall A B (f : A -> option B) L c,
  first_some (map f L) = Some c -> exists x, In x L /\ f x = Some c.
Proof.
  induction L as [|a r IH]; intros c H; cbn in H; [discriminate|].
  destruct (f a) as [b|] eqn:F.
  - exists a. split; [now left|congruence].
  - destruct (IH c H) as (x & Hx & Hf). exists x. split; [now right|assumption].
Qed.
Lemma fl_get_min_good : forall g a c, good g a -> get_min a = Some c -> is_member c (g_members g) = true.
Proof.
  intros g a c (G1 & G2) H. unfold get_min in H. destruct (as_best a) as [b|] eqn:B.
  - inversion H; subst. now apply G2.
  - pose proof (fl_scan_facts (as_entries a) HOUR None) as (_ & F2). cbn zeta in F2.
    destruct (F2 c H) as [F|F]; [discriminate|now apply G1].
Qed.
Lemma fl_get_rand_good : forall g a c, good g a -> get_rand a = Some c -> is_member c (g_members g) = true.
Proof.
  intros g a c (G1 & G2) H. unfold get_rand in H. destruct (as_entries a) as [|e r] eqn:E; [discriminate|].
  inversion H; subst. apply G1. cbn. now rewrite N.eqb_refl.
Qed.
Lemma fl_select1_good : forall m gi g d c, (forall d, good g (m_sets m gi d)) ->
  select1 m gi g d = Some c -> is_member c (g_members g) = true.
Proof.
  intros m gi g d c G H. unfold select1 in H. destruct (g_policy g).
  - apply fl_first_some_map in H. destruct H as (x & _ & Hx). eapply fl_get_min_good; [apply G|exact Hx].
  - apply fl_first_some_map in H. destruct H as (x & _ & Hx). eapply fl_get_rand_good; [apply G|exact Hx].
  - destruct (g_members g) as [|e r]; [discriminate|]. inversion H; subst. cbn. now rewrite N.eqb_refl.
Qed.
Lemma fl_select_fallback_good : forall m gi g d c, (forall d, good g (m_sets m gi d)) ->
  select_fallback m gi g d = Some c -> is_member c (g_members g) = true.
Proof.
  intros m gi g d c G H. unfold select_fallback in H.
  destruct (g_members g) as [|e r] eqn:Em; [discriminate|]. rewrite <- Em.
  destruct (select1 m gi g d) as [x|] eqn:S1.
  - inversion H; subst. eapply fl_select1_good; eassumption.
  - eapply fl_select1_good; eassumption.
Qed.
Lemma fl_fbv : forall (f : dom -> option N) d,
  match find (fun p => dom_eqb (fst p) d) (map (fun d => (d, f d)) all_doms) with Some p => snd p | None => None end = f d.
Proof. intros f d. destruct d; reflexivity. Qed.

(* ---------- the fresh generation keeps every set inside its group ---------- *)
Lemma fl_new_group_setsin : forall cfg m i g, nth_error (c_groups cfg) i = Some g ->
  SetsIn cfg m -> SetsIn cfg (new_group cfg m (N.of_nat i) g).
Proof.
  intros cfg m i g Hg H. unfold SetsIn, new_group. cbn [m_sets]. destruct (keeps_sets g); [|assumption].
  apply fl_fold_inv with (Q := fun m' => SetsInS cfg (m_sets m')); [|assumption].
  intros a d Ha. apply fl_fold_inv with (Q := fun m' => SetsInS cfg (m_sets m')); [|assumption].
  intros a' e Ha'. now apply fl_inform_group_setsin.
Qed.
Lemma fl_new_groups_setsin : forall cfg gs pre m, c_groups cfg = pre ++ gs ->
  SetsIn cfg m -> SetsIn cfg (new_groups cfg m (N.of_nat (length pre)) gs).
Proof.
  intros cfg. induction gs as [|g r IH]; intros pre m E Hm; cbn [new_groups]; [assumption|].
  replace (N.of_nat (length pre) + 1) with (N.of_nat (length (pre ++ [g]))) by (rewrite app_length; cbn [length]; lia).
  apply IH; [rewrite <- app_assoc; exact E|]. apply fl_new_group_setsin; [|assumption].
  rewrite E. rewrite nth_error_app2, Nat.sub_diag; [reflexivity|lia].
Qed.
Lemma fl_fresh_setsin : forall cfg m, SetsIn cfg (m_fresh_generation cfg m).
Proof.
  intros. unfold m_fresh_generation. apply (fl_new_groups_setsin cfg (c_groups cfg) []); [reflexivity|].
  intros i g Hg d. cbn [m_sets]. split; cbn; intros; discriminate.
Qed.

Lemma fl_restore_setsin : forall cfg o m n l, SetsIn cfg m -> SetsIn cfg (restore cfg o m n l).
Proof.
  intros. apply fl_restore_sets_lift with (P := SetsInS cfg); [|assumption].
  intros. now apply fl_inform_setsin.
Qed.
Lemma fl_restore_untouched : forall cfg (Q : aset -> Prop) o m n l i0 g0 d0,
  nth_error (c_groups cfg) i0 = Some g0 -> is_member n (g_members g0) = false ->
  Q (m_sets m (N.of_nat i0) d0) -> Q (m_sets (restore cfg o m n l) (N.of_nat i0) d0).
Proof.
  intros. apply fl_restore_sets_lift with (P := fun s => Q (s (N.of_nat i0) d0)); [|assumption].
  intros. now apply fl_inform_untouched with (g0 := g0).
Qed.

(* ---------- inherit ---------- *)
Lemma fl_inherit_floor : forall cfg old l, groups_disjoint cfg ->
  forall rest pre m, c_groups cfg = pre ++ rest -> SetsIn cfg m ->
    (forall i g, (i < length pre)%nat -> nth_error (c_groups cfg) i = Some g -> keeps_sets g = true ->
                 g_members g <> [] -> forall d, NE (m_sets m (N.of_nat i) d)) ->
    forall i g, nth_error (c_groups cfg) i = Some g -> keeps_sets g = true -> g_members g <> [] ->
                forall d, NE (m_sets (inherit cfg old m (N.of_nat (length pre)) rest l) (N.of_nat i) d).
Proof.
  intros cfg old l Hdis. induction rest as [|g r IH]; intros pre m E Hin Hdone i gi Hgi Hk Hne d.
  - cbn [inherit]. apply Hdone with (g := gi); auto. rewrite app_nil_r in E. rewrite <- E. apply nth_error_Some. congruence.
  - cbn [inherit].
    replace (N.of_nat (length pre) + 1) with (N.of_nat (length (pre ++ [g]))) by (rewrite app_length; cbn [length]; lia).
    assert (Hg : nth_error (c_groups cfg) (length pre) = Some g).
    { rewrite E. rewrite nth_error_app2, Nat.sub_diag; [reflexivity|lia]. }
    set (m1 := fold_left (fun m0 e => restore cfg (old (fst e)) m0 (fst e) l) (g_members g) m).
    assert (Hin1 : SetsIn cfg m1).
    { apply fl_fold_inv with (Q := SetsIn cfg); [|assumption]. intros. now apply fl_restore_setsin. }
    apply IH with (g := gi); auto.
    + rewrite <- app_assoc. exact E.
    + now apply fl_floor_setsin.
    + clear i gi Hgi Hk Hne d. intros i gi Hlt Hgi Hk Hne d. rewrite app_length in Hlt. cbn [length] in Hlt.
      destruct (Nat.eq_dec i (length pre)) as [Heq|Hneq].
      * subst i. assert (gi = g) by congruence. subst gi.
        apply fl_floor_own; auto. intros d' c. rewrite fl_fbv. apply fl_select_fallback_good.
        intros d''. now apply Hin.
      * apply fl_floor_mono. unfold m1.
        apply fl_fold_inv_in with (Q := fun m' => NE (m_sets m' (N.of_nat i) d)); [|apply Hdone with (g := gi); auto; lia].
        intros a e He Ha. apply fl_restore_untouched with (g0 := gi); auto.
        apply fl_is_member_false. apply (Hdis (length pre) i g gi (fst e)); auto.
        now apply in_map.
Qed.

Lemma fl_forallb_groups_from : forall (f : N * group -> bool) gs k,
  (forall i g, nth_error gs i = Some g -> f (k + N.of_nat i, g) = true) -> forallb f (groups_from k gs) = true.
Proof.
  induction gs as [|g r IH]; intros k H; cbn [groups_from forallb]; [reflexivity|].
  apply andb_true_iff. split.
  - specialize (H O g eq_refl). cbn in H. now rewrite N.add_0_r in H.
  - apply IH. intros i g' Hg'. specialize (H (S i) g' Hg'). replace (k + 1 + N.of_nat i) with (k + N.of_nat (S i)) by lia. exact H.
Qed.

Lemma C16_reload_floor_partial_proof : forall cfg h l, groups_disjoint cfg ->
  m_floor_ok cfg (m_run cfg (h ++ [EReload l])) = true.
Proof.
  intros cfg h l Hdis. rewrite m_run_snoc. cbn [m_step]. unfold m_reload, m_floor_ok.
  set (m := clear_logs (m_run cfg h)).
  apply fl_forallb_groups_from. intros i g Hg. cbn [fst snd]. rewrite N.add_0_l.
  destruct (keeps_sets g) eqn:Hk; [|reflexivity]. cbn [negb orb].
  destruct (g_members g) as [|e r] eqn:Em; [reflexivity|]. cbn [length Nat.eqb orb].
  assert (H : forall d, NE (m_sets (inherit cfg (m_d m) (m_fresh_generation cfg m) (N.of_nat (length (@nil group))) (c_groups cfg) l) (N.of_nat i) d)).
  { apply fl_inherit_floor with (g := g); auto.
    - apply fl_fresh_setsin.
    - intros i0 g0 Hlt. cbn in Hlt. lia.
    - rewrite Em. discriminate. }
  cbn [length N.of_nat] in H.
  cbn [forallb all_doms]. rewrite !andb_true_iff. repeat split; try reflexivity; apply NE_len, H.
Qed.

Print Assumptions C16_reload_handover_partial_proof.
Print Assumptions C16_reload_floor_partial_proof.
