(* C01 — lemmas. *)
From Coq Require Import List NArith Bool String Ascii Arith Lia ZifyBool ZifyN ZifyNat.
From Dae Require Import C01_Spec C01_Model.
From Dae.gen Require Import C01_Consts C01_Patch.
From Dae.common Require RuleScan.
Import ListNotations.
Open Scope N_scope.

(* ------------------------------------------------------------------------------------------------ *)
(* Part 1: the loop of Match is the generic scan                                                     *)
(* ------------------------------------------------------------------------------------------------ *)

Definition R := (N * N)%type.                 (* outbound index, mark *)
Definition atom := (N * mset)%type.           (* array index, match-set *)

Definition tgt_of_id (oid mark : N) (must : bool) : RuleScan.tgt R :=
  if oid =? OutboundLogicalOr then RuleScan.TOr
  else if oid =? OutboundLogicalAnd then RuleScan.TAnd
  else if oid =? OutboundMustRules then RuleScan.TMust
  else RuleScan.TOut (oid, mark) must.
Definition tgt_of (m : mset) : RuleScan.tgt R := tgt_of_id (m_out m) (m_mark m) (m_must m).

Fixpoint tag (i : N) (ms : list mset) : list atom :=
  match ms with [] => [] | m :: r => (i, m) :: tag (N.succ i) r end.

Definition abs_atom (x : atom) : RuleScan.mset atom R := RuleScan.MS x (m_not (snd x)) (tgt_of (snd x)).
Definition abs_arr (i : N) (ms : list mset) : list (RuleScan.mset atom R) := map abs_atom (tag i ms).

Lemma tag_app i l1 l2 : tag i (l1 ++ l2) = tag i l1 ++ tag (i + N.of_nat (List.length l1)) l2.
Proof.
  revert i. induction l1 as [|m l1 IH]; intros i; cbn [tag app List.length].
  - now rewrite N.add_0_r.
  - rewrite IH. replace (N.succ i + N.of_nat (List.length l1)) with (i + N.of_nat (S (List.length l1))) by lia.
    reflexivity.
Qed.

Lemma tag_length i l : List.length (tag i l) = List.length l.
Proof. revert i. induction l; intros; cbn; auto. Qed.

Lemma abs_arr_app i l1 l2 : abs_arr i (l1 ++ l2) = abs_arr i l1 ++ abs_arr (i + N.of_nat (List.length l1)) l2.
Proof. unfold abs_arr. now rewrite tag_app, map_app. Qed.

Lemma abs_arr_length i l : List.length (abs_arr i l) = List.length l.
Proof. unfold abs_arr. now rewrite map_length, tag_length. Qed.

Definition unres (r : res bool) : bool := match r with Ok g => g | Err _ => false end.

Definition res_of (o : option (R * bool)) : res decision :=
  match o with Some ((oid, mk), mu) => Ok (oid, mk, mu) | None => Err E_NO_HIT end.

Lemma mask_small : forall o, o < 256 ->
  (N.land o OutboundLogicalMask =? OutboundLogicalMask) = ((o =? OutboundLogicalOr) || (o =? OutboundLogicalAnd)).
Proof.
  assert (H : forallb (fun o => Bool.eqb (N.land o OutboundLogicalMask =? OutboundLogicalMask)
                                         ((o =? OutboundLogicalOr) || (o =? OutboundLogicalAnd)))
                      (map N.of_nat (seq 0 256)) = true) by (vm_compute; reflexivity).
  rewrite forallb_forall in H. intros o Ho.
  specialize (H o). apply eqb_prop. apply H.
  apply in_map_iff. exists (N.to_nat o). split; [lia|]. apply in_seq. lia.
Qed.

Section Loop.
Variable tries : list (list prefix128).
Variable a : margs.
Variable bm : option (list N).

Definition evx (i : N) (x : atom) : bool := unres (eval_mset tries a bm i (snd x)).

Definition entry_fine (i : N) (m : mset) : Prop :=
  m_out m < 256 /\ exists g, eval_mset tries a bm i m = Ok g.

Lemma match_loop_scan : forall ms i good bad must,
  (forall k m, nth_error ms k = Some m -> entry_fine (i + N.of_nat k) m) ->
  match_loop tries a bm ms i good bad must = res_of (RuleScan.scan atom R evx i (abs_arr i ms) good bad must).
Proof.
  induction ms as [|m ms IH]; intros i good bad must H; [reflexivity|].
  assert (Hm : entry_fine i m) by (specialize (H 0%nat m eq_refl); now rewrite N.add_0_r in H).
  assert (H' : forall k m', nth_error ms k = Some m' -> entry_fine (N.succ i + N.of_nat k) m').
  { intros k m' Hk. specialize (H (S k) m' Hk).
    replace (N.succ i + N.of_nat k) with (i + N.of_nat (S k)) by lia. exact H. }
  destruct Hm as [Ho [g Hg]].
  cbn [match_loop abs_arr tag map abs_atom RuleScan.scan RuleScan.ma RuleScan.mneg RuleScan.mt snd].
  replace (i + 1) with (N.succ i) by lia.
  assert (Hev : (if bad || good then Ok good else eval_mset tries a bm i m)
                = Ok (if bad || good then good else evx i (i, m))).
  { destruct (bad || good); [reflexivity|]. unfold evx. cbn [snd]. now rewrite Hg. }
  rewrite Hev. clear Hev.
  set (g1 := if bad || good then good else evx i (i, m)).
  rewrite (mask_small _ Ho).
  unfold tgt_of, tgt_of_id. fold (abs_arr (N.succ i) ms).
  destruct (m_out m =? OutboundLogicalOr) eqn:E1.
  - cbn [negb orb]. now rewrite IH.
  - cbn [negb orb]. destruct (m_out m =? OutboundLogicalAnd) eqn:E2.
    + cbn [negb]. rewrite IH by exact H'. unfold RuleScan.upd_bad. reflexivity.
    + cbn [negb]. unfold RuleScan.upd_bad.
      destruct (m_out m =? OutboundMustRules) eqn:E3.
      * destruct (if Bool.eqb g1 (m_not m) then true else bad); cbn [negb]; now rewrite IH.
      * destruct (if Bool.eqb g1 (m_not m) then true else bad); cbn [negb]; [now rewrite IH | reflexivity].
Qed.
End Loop.

(* ------------------------------------------------------------------------------------------------ *)
(* Part 2: helper lemmas about the builder's data structures                                          *)
(* ------------------------------------------------------------------------------------------------ *)

(* --- groupParamValuesByKey --- *)

Definition groups_sound (params : list (N * value)) (gsx : list (N * list value)) : Prop :=
  forall k vs, In (k, vs) gsx -> vs <> [] /\ forall x, In x vs -> In (k, x) params.
Definition groups_complete (params : list (N * value)) (gsx : list (N * list value)) : Prop :=
  forall k x, In (k, x) params -> exists vs, In (k, vs) gsx /\ In x vs.

Lemma add_to_group_sound key v gsx k vs :
  (forall k vs, In (k, vs) gsx -> vs <> []) ->
  In (k, vs) (add_to_group key v gsx) ->
  vs <> [] /\ forall x, In x vs -> (k = key /\ x = v) \/ exists vs0, In (k, vs0) gsx /\ In x vs0.
Proof.
  induction gsx as [|[k0 vs0] rest IH]; intros Hne Hin; cbn [add_to_group] in Hin.
  - destruct Hin as [E|[]]. inversion E; subst. split; [discriminate|].
    intros x [->|[]]. now left.
  - destruct (k0 =? key) eqn:E.
    + apply N.eqb_eq in E. subst k0. destruct Hin as [E|Hin].
      * inversion E; subst. split.
        { intro H. apply app_eq_nil in H. destruct H; discriminate. }
        intros x Hx. apply in_app_or in Hx. destruct Hx as [Hx|[->|[]]]; [right|now left].
        exists vs0. split; [now left|assumption].
      * split; [apply (Hne k vs); now right|]. intros x Hx. right. exists vs. split; [now right|assumption].
    + destruct Hin as [E'|Hin].
      * inversion E'; subst. split; [apply (Hne k vs); now left|]. intros x Hx. right. exists vs. split; [now left|assumption].
      * destruct (IH (fun k vs H => Hne k vs (or_intror H)) Hin) as [H1 H2]. split; [assumption|].
        intros x Hx. destruct (H2 x Hx) as [H|[vs1 [Ha Hb]]]; [now left|right].
        exists vs1. split; [now right|assumption].
Qed.

Lemma add_to_group_new key v gsx : exists vs, In (key, vs) (add_to_group key v gsx) /\ In v vs.
Proof.
  induction gsx as [|[k0 vs0] rest IH]; cbn [add_to_group].
  - exists [v]. split; now left.
  - destruct (k0 =? key) eqn:E.
    + apply N.eqb_eq in E. subst. exists (vs0 ++ [v]). split; [now left|]. apply in_or_app. right. now left.
    + destruct IH as [vs [Ha Hb]]. exists vs. split; [now right|assumption].
Qed.

Lemma add_to_group_old key v gsx k vs0 x :
  In (k, vs0) gsx -> In x vs0 -> exists vs, In (k, vs) (add_to_group key v gsx) /\ In x vs.
Proof.
  induction gsx as [|[k1 vs1] rest IH]; intros Hin Hx; [destruct Hin|]. cbn [add_to_group].
  destruct (k1 =? key) eqn:E.
  - destruct Hin as [E'|Hin].
    + inversion E'; subst. exists (vs0 ++ [v]). split; [now left|]. apply in_or_app. now left.
    + exists vs0. split; [now right|assumption].
  - destruct Hin as [E'|Hin].
    + inversion E'; subst. exists vs0. split; [now left|assumption].
    + destruct (IH Hin Hx) as [vs [Ha Hb]]. exists vs. split; [now right|assumption].
Qed.

Lemma group_by_key_gen : forall params done acc,
  groups_sound done acc -> groups_complete done acc ->
  groups_sound (done ++ params) (fold_left (fun gsx kv => add_to_group (fst kv) (snd kv) gsx) params acc) /\
  groups_complete (done ++ params) (fold_left (fun gsx kv => add_to_group (fst kv) (snd kv) gsx) params acc).
Proof.
  induction params as [|[key v] params IH]; intros done acc Hs Hc.
  - rewrite app_nil_r. now split.
  - cbn [fold_left fst snd].
    replace (done ++ (key, v) :: params) with ((done ++ [(key, v)]) ++ params) by (now rewrite <- app_assoc).
    apply IH.
    + intros k vs Hin.
      destruct (add_to_group_sound key v acc k vs (fun k vs H => proj1 (Hs k vs H)) Hin) as [H1 H2].
      split; [assumption|]. intros x Hx. apply in_or_app.
      destruct (H2 x Hx) as [[-> ->]|[vs0 [Ha Hb]]]; [right; now left|left].
      now apply (proj2 (Hs k vs0 Ha)).
    + intros k x Hin. apply in_app_or in Hin. destruct Hin as [Hin|[E|[]]].
      * destruct (Hc k x Hin) as [vs0 [Ha Hb]]. now apply (add_to_group_old key v acc k vs0 x).
      * inversion E; subst. apply add_to_group_new.
Qed.

Lemma group_by_key_ok params :
  groups_sound params (group_by_key params) /\ groups_complete params (group_by_key params).
Proof.
  unfold group_by_key. apply (group_by_key_gen params [] []).
  - intros k vs [].
  - intros k x [].
Qed.

Lemma group_by_key_nonempty params : params <> [] -> group_by_key params <> [].
Proof.
  intros Hne. destruct params as [|[k x] rest]; [congruence|].
  destruct (group_by_key_ok ((k, x) :: rest)) as [_ Hc].
  destruct (Hc k x (or_introl eq_refl)) as [vs [Hin _]]. intro E. rewrite E in Hin. destruct Hin.
Qed.

(* --- canonicalizePrefixes keeps the set --- *)

Lemma px_eqb_eq p q : px_eqb p q = true -> p = q.
Proof.
  destruct p as [v a b], q as [v' a' b']. unfold px_eqb. cbn.
  intros H. apply andb_true_iff in H. destruct H as [H Hb]. apply andb_true_iff in H. destruct H as [Hv Ha].
  apply eqb_prop in Hv. apply N.eqb_eq in Ha. apply N.eqb_eq in Hb. now subst.
Qed.

Lemma existsb_insert_sorted (f : prefix128 -> bool) p l :
  existsb f (insert_sorted p l) = f p || existsb f l.
Proof.
  induction l as [|q r IH]; cbn [insert_sorted existsb]; [reflexivity|].
  destruct (px_less p q); cbn [existsb]; [reflexivity|]. rewrite IH. destruct (f p), (f q); reflexivity.
Qed.

Lemma existsb_sorted (f : prefix128 -> bool) l : existsb f (fold_right insert_sorted [] l) = existsb f l.
Proof.
  induction l as [|p l IH]; cbn [fold_right existsb]; [reflexivity|]. now rewrite existsb_insert_sorted, IH.
Qed.

Lemma existsb_dedup_adj (f : prefix128 -> bool) l : existsb f (dedup_adj l) = existsb f l.
Proof.
  induction l as [|p r IH]; [reflexivity|].
  destruct r as [|q r']; [reflexivity|].
  change (dedup_adj (p :: q :: r')) with (if px_eqb p q then dedup_adj (q :: r') else p :: dedup_adj (q :: r')).
  destruct (px_eqb p q) eqn:E.
  - apply px_eqb_eq in E. subst q. rewrite IH. cbn [existsb]. destruct (f p); reflexivity.
  - cbn [existsb] in *. now rewrite IH.
Qed.

Lemma existsb_canonicalize (f : prefix128 -> bool) l : existsb f (canonicalize l) = existsb f l.
Proof. unfold canonicalize. now rewrite existsb_dedup_adj, existsb_sorted. Qed.

Lemma prefixes_equal_eq : forall a b, prefixes_equal a b = true -> a = b.
Proof.
  induction a as [|x a IH]; destruct b as [|y b]; cbn [prefixes_equal]; intros H; try discriminate; [reflexivity|].
  apply andb_true_iff in H. destruct H as [H1 H2]. apply px_eqb_eq in H1. apply IH in H2. now subst.
Qed.

(* --- the dedup table --- *)

Lemma dedup_get_set d h e h' :
  dedup_get (dedup_set d h e) h' = if h' =? h then Some e else dedup_get d h'.
Proof.
  induction d as [|[k e0] rest IH]; cbn [dedup_set dedup_get].
  - rewrite (N.eqb_sym h h'). reflexivity.
  - destruct (k =? h) eqn:E; cbn [dedup_get].
    + apply N.eqb_eq in E. subst k. rewrite (N.eqb_sym h h'). destruct (h' =? h); reflexivity.
    + rewrite IH. destruct (h' =? h) eqn:E2; [|reflexivity].
      apply N.eqb_eq in E2. subst h'. rewrite E. reflexivity.
Qed.

(* --- masks --- *)

Definition mask_code (b1 b2 : bool) : N := (if b1 then 1 else 0) + (if b2 then 2 else 0).

Lemma or_all_code : forall (l : list N) b1 b2,
  Forall (fun x => x = 1 \/ x = 2) l ->
  fold_left N.lor l (mask_code b1 b2) = mask_code (b1 || existsb (N.eqb 1) l) (b2 || existsb (N.eqb 2) l).
Proof.
  induction l as [|x l IH]; intros b1 b2 H; cbn [fold_left existsb].
  - now rewrite !orb_false_r.
  - inversion H as [|? ? Hx Hl]; subst. destruct Hx as [->| ->].
    + replace (N.lor (mask_code b1 b2) 1) with (mask_code true b2) by (destruct b1, b2; reflexivity).
      rewrite IH by assumption. cbn. destruct b1; reflexivity.
    + replace (N.lor (mask_code b1 b2) 2) with (mask_code b1 true) by (destruct b1, b2; reflexivity).
      rewrite IH by assumption. cbn. destruct b2; cbn; rewrite ?orb_true_r; reflexivity.
Qed.

Lemma mask_hit_1 b1 b2 : (0 <? N.land 1 (mask_code b1 b2)) = b1.
Proof. destruct b1, b2; reflexivity. Qed.
Lemma mask_hit_2 b1 b2 : (0 <? N.land 2 (mask_code b1 b2)) = b2.
Proof. destruct b1, b2; reflexivity. Qed.

(* --- chains of match-sets: the array layout of one condition --- *)

Definition hdr (neg : bool) (mark : N) (must : bool) (m : C01_Model.mset) : Prop :=
  m_not m = neg /\ m_mark m = mark /\ m_must m = must.

Inductive chain (neg : bool) (oid mark : N) (must : bool) : list C01_Model.mset -> Prop :=
| chain_last m : hdr neg mark must m -> m_out m = oid -> chain neg oid mark must [m]
| chain_cons m rest : hdr neg mark must m -> m_out m = OutboundLogicalOr ->
                      chain neg oid mark must rest -> chain neg oid mark must (m :: rest).

Lemma chain_nonempty neg oid mk mu seg : chain neg oid mk mu seg -> seg <> [].
Proof. intros H; inversion H; discriminate. Qed.

Lemma chain_app neg oid mk mu s1 s2 :
  chain neg OutboundLogicalOr mk mu s1 -> chain neg oid mk mu s2 -> chain neg oid mk mu (s1 ++ s2).
Proof.
  induction 1 as [m Hh Ho|m rest Hh Ho Hc IH]; intros H2; cbn [app].
  - now apply chain_cons.
  - apply chain_cons; auto.
Qed.

Lemma chain_lower neg oid mk mu seg :
  chain neg oid mk mu seg -> forall i,
  abs_arr i seg = RuleScan.lower_atoms atom R neg (tgt_of_id oid mk mu) (tag i seg).
Proof.
  induction 1 as [m [Hn [Hk Hu]] Ho|m rest [Hn [Hk Hu]] Ho Hc IH]; intros i.
  - cbn. unfold abs_atom, tgt_of. cbn [snd]. now rewrite Hn, Hk, Hu, Ho.
  - unfold abs_arr in *. cbn [tag map RuleScan.lower_atoms].
    destruct rest as [|m' rest']; [inversion Hc|].
    cbn [tag]. cbn [tag] in IH. rewrite <- IH. cbn [map].
    unfold abs_atom at 1, tgt_of. cbn [snd]. rewrite Hn, Ho. reflexivity.
Qed.

Lemma chain_out_small neg oid mk mu seg :
  chain neg oid mk mu seg -> oid < 256 -> Forall (fun m => m_out m < 256) seg.
Proof.
  induction 1 as [m _ Ho|m rest _ Ho _ IH]; intros Hlt; constructor; auto.
  - now rewrite Ho.
  - rewrite Ho. reflexivity.
Qed.

(* ------------------------------------------------------------------------------------------------ *)
(* Part 3: what every builder callback emits                                                          *)
(* ------------------------------------------------------------------------------------------------ *)

Lemma collect_ok {A} (f : value -> option A) (P : value -> Prop) :
  (forall v, P v -> exists x, f v = Some x) ->
  forall vals, Forall P vals -> exists l, collect f vals = Some l /\ Forall2 (fun v x => f v = Some x) vals l.
Proof.
  intros Hf. induction vals as [|v vals IH]; intros H.
  - exists []. split; [reflexivity|constructor].
  - inversion H as [|? ? Hv Hr]; subst. destruct (Hf v Hv) as [x Hx]. destruct (IH Hr) as [l [Hl Hl2]].
    exists (x :: l). cbn [collect]. rewrite Hx, Hl. split; [reflexivity|now constructor].
Qed.

Lemma existsb_Forall2 {A B} (R0 : A -> B -> Prop) (g : A -> bool) (h : B -> bool) :
  (forall x y, R0 x y -> g x = h y) -> forall l1 l2, Forall2 R0 l1 l2 -> existsb g l1 = existsb h l2.
Proof. intros H. induction 1; cbn [existsb]; [reflexivity|]. f_equal; auto. Qed.

Lemma existsb_map' {A B} (f : B -> bool) (g : A -> B) l : existsb f (map g l) = existsb (fun x => f (g x)) l.
Proof. induction l; cbn; [reflexivity|]. now rewrite IHl. Qed.
Lemma existsb_ext' {A} (f g : A -> bool) l : (forall x, f x = g x) -> existsb f l = existsb g l.
Proof. intros H. induction l; cbn; [reflexivity|]. now rewrite H, IHl. Qed.

Lemma Forall2_nonempty {A B} (R0 : A -> B -> Prop) l1 l2 : Forall2 R0 l1 l2 -> l1 <> [] -> l2 <> [].
Proof. intros H. inversion H; subst; congruence. Qed.

Section Emit.
Variable gs : list (string * N).
Variable pk : packet.
Variable bm : option (list N).
Let a := args_of_packet pk.

Definition bmv (i : N) : bool := match bm with Some w => bm_bit w i | None => false end.
Definition dkind_of_key (key : N) : dkind :=
  if key =? 1 then DFull else if key =? 2 then DSuffix else if key =? 3 then DKeyword else DRegex.
Definition dom_group_holds (key : N) (vals : list string) : bool :=
  existsb (fun s => domain_holds (dkind_of_key key) s (normalise (p_domain pk)) (p_regex_hits pk)) vals.
(* the interface to C11: bit i of the bitmap is the meaning of the domain set registered for index i *)
Definition dom_agree (F : builder) : Prop :=
  forall i key vals, In (i, (key, vals)) (b_domsets F) -> bmv i = dom_group_holds key vals.
Definition ext (b F : builder) : Prop :=
  (exists t, b_tries F = b_tries b ++ t) /\ (exists d, b_domsets F = b_domsets b ++ d).
Definition inv (b : builder) : Prop :=
  forall h idx ps, dedup_get (b_dedup b) h = Some (idx, ps) -> nth_error (b_tries b) (N.to_nat idx) = Some ps.

Lemma ext_refl b : ext b b.
Proof. split; exists []; now rewrite app_nil_r. Qed.
Lemma ext_trans b1 b2 b3 : ext b1 b2 -> ext b2 b3 -> ext b1 b3.
Proof.
  intros [[t1 H1] [d1 H1']] [[t2 H2] [d2 H2']]. split.
  - exists (t1 ++ t2). now rewrite H2, H1, app_assoc.
  - exists (d1 ++ d2). now rewrite H2', H1', app_assoc.
Qed.
Lemma ext_trie b F i ps : ext b F -> nth_error (b_tries b) i = Some ps -> nth_error (b_tries F) i = Some ps.
Proof.
  intros [[t Ht] _] H. rewrite Ht, nth_error_app1; [assumption|]. apply nth_error_Some. congruence.
Qed.
Lemma ext_dom b F x : ext b F -> In x (b_domsets b) -> In x (b_domsets F).
Proof. intros [_ [d Hd]] H. rewrite Hd. apply in_or_app. now left. Qed.

Definition semx (F : builder) (x : atom) : bool := unres (eval_mset (b_tries F) a bm (fst x) (snd x)).
Definition fine (F : builder) (x : atom) : Prop := exists g, eval_mset (b_tries F) a bm (fst x) (snd x) = Ok g.

Definition mac_clause (k : fkind) (neg : bool) : bool := neg && is_mac k && (p_mac pk =? 0).
Definition group_sem (k : fkind) (neg : bool) (vals : list value) : bool :=
  existsb (fun v => value_holds k v pk) vals || mac_clause k neg.

Definition emitted (b b' : builder) (seg : list C01_Model.mset) (neg : bool) (oid mark : N) (must : bool) (s : bool) : Prop :=
  b_rules b' = b_rules b ++ seg /\ ext b b' /\ inv b' /\ chain neg oid mark must seg /\
  forall F, ext b' F -> dom_agree F ->
    Forall (fine F) (tag (N.of_nat (List.length (b_rules b))) seg) /\
    existsb (semx F) (tag (N.of_nat (List.length (b_rules b))) seg) = s.

Lemma append_rule_ext b m : ext b (append_rule b m).
Proof. split; exists []; cbn; now rewrite app_nil_r. Qed.

Lemma emitted_single b b1 m neg oid mk mu s :
  b_rules b1 = b_rules b -> ext b b1 -> inv b1 ->
  hdr neg mk mu m -> m_out m = oid ->
  (forall F, ext b1 F -> dom_agree F ->
     eval_mset (b_tries F) a bm (N.of_nat (List.length (b_rules b))) m = Ok s) ->
  emitted b (append_rule b1 m) [m] neg oid mk mu s.
Proof.
  intros Hr He Hi Hh Ho Hs. unfold emitted. cbn [append_rule b_rules]. rewrite Hr.
  split; [reflexivity|]. split; [exact (ext_trans _ _ _ He (append_rule_ext b1 m))|].
  split; [exact Hi|]. split; [now apply chain_last|].
  intros F HF Hd. specialize (Hs F HF Hd). cbn [tag existsb]. unfold semx, fine. cbn [fst snd]. rewrite Hs.
  split; [constructor; [now exists s|constructor]|]. cbn [unres]. now rewrite orb_false_r.
Qed.

Lemma emitted_app b b1 b' s1 s2 neg oid mk mu x1 x2 :
  emitted b b1 s1 neg OutboundLogicalOr mk mu x1 -> emitted b1 b' s2 neg oid mk mu x2 ->
  emitted b b' (s1 ++ s2) neg oid mk mu (x1 || x2).
Proof.
  intros [Hr1 [He1 [Hi1 [Hc1 Hs1]]]] [Hr2 [He2 [Hi2 [Hc2 Hs2]]]]. unfold emitted.
  split; [now rewrite Hr2, Hr1, app_assoc|]. split; [now apply (ext_trans b b1 b')|]. split; [auto|].
  split; [now apply chain_app|].
  intros F HF Hd. destruct (Hs1 F (ext_trans _ _ _ He2 HF) Hd) as [Hf1 Hx1]. destruct (Hs2 F HF Hd) as [Hf2 Hx2].
  rewrite Hr1, app_length, Nat2N.inj_add in Hf2, Hx2. rewrite tag_app.
  split; [apply Forall_app; now split|]. now rewrite existsb_app, Hx1, Hx2.
Qed.

Lemma or_id : outbound_to_id gs "<OR>" = Ok OutboundLogicalOr.
Proof. reflexivity. Qed.
Lemma and_id : outbound_to_id gs "<AND>" = Ok OutboundLogicalAnd.
Proof. reflexivity. Qed.


(* --- per-value callbacks --- *)

Lemma add_ports_emitted (dst : bool) : forall vals b neg ob oid,
  vals <> [] -> outbound_to_id gs (po_name ob) = Ok oid -> inv b ->
  exists b' seg, add_ports (if dst then MatchType_Port else MatchType_SourcePort) gs b neg vals ob = Ok b' /\
    emitted b b' seg neg oid (po_mark ob) (po_must ob)
            (existsb (fun r => let p := if dst then p_dport pk else p_sport pk in (fst r <=? p) && (p <=? snd r)) vals).
Proof.
  induction vals as [|[lo hi] vals IH]; intros b neg ob oid Hne Hoid Hinv; [congruence|].
  cbn [add_ports existsb fst snd].
  set (mk := fun o => {| m_type := if dst then MatchType_Port else MatchType_SourcePort; m_not := neg; m_out := o;
                         m_mark := po_mark ob; m_must := po_must ob; m_lpm := 0; m_ps := lo; m_pe := hi; m_mask := 0;
                         m_pname := repeat 0 16; m_dscp := 0 |}).
  assert (Hev : forall o F i, eval_mset (b_tries F) a bm i (mk o)
                = Ok (let p := if dst then p_dport pk else p_sport pk in (lo <=? p) && (p <=? hi))).
  { intros o F i. destruct dst; reflexivity. }
  destruct vals as [|v2 vals'].
  - cbn [per_value_name]. rewrite Hoid. cbn [base_mset m_type m_not m_out m_mark m_must m_pname].
    eexists. exists [mk oid]. split; [reflexivity|]. rewrite orb_false_r.
    apply emitted_single; [reflexivity|apply ext_refl|exact Hinv|now repeat split|reflexivity|intros F _ _; apply Hev].
  - cbn [per_value_name]. rewrite or_id. cbn [base_mset m_type m_not m_out m_mark m_must m_pname].
    destruct (IH (append_rule b (mk OutboundLogicalOr)) neg ob oid) as [b' [seg [Hrun Hem]]]; [discriminate|assumption|exact Hinv|].
    exists b', (mk OutboundLogicalOr :: seg). split; [exact Hrun|].
    change (mk OutboundLogicalOr :: seg) with ([mk OutboundLogicalOr] ++ seg).
    eapply emitted_app; [|exact Hem].
    apply emitted_single; [reflexivity|apply ext_refl|exact Hinv|now repeat split|reflexivity|intros F _ _; apply Hev].
Qed.

Lemma add_pnames_emitted : forall vals b neg ob oid,
  vals <> [] -> outbound_to_id gs (po_name ob) = Ok oid -> inv b ->
  exists b' seg, add_pnames gs b neg vals ob = Ok b' /\
    emitted b b' seg neg oid (po_mark ob) (po_must ob)
            (existsb (fun v => negb (nth 0 (p_pname pk) 0 =? 0) && list_eqb v (p_pname pk)) vals).
Proof.
  induction vals as [|v vals IH]; intros b neg ob oid Hne Hoid Hinv; [congruence|].
  cbn [add_pnames existsb].
  set (mk := fun o => {| m_type := MatchType_ProcessName; m_not := neg; m_out := o;
                         m_mark := po_mark ob; m_must := po_must ob; m_lpm := 0; m_ps := 0; m_pe := 0; m_mask := 0;
                         m_pname := v; m_dscp := 0 |}).
  assert (Hev : forall o F i, eval_mset (b_tries F) a bm i (mk o)
                = Ok (negb (nth 0 (p_pname pk) 0 =? 0) && list_eqb v (p_pname pk))) by reflexivity.
  destruct vals as [|v2 vals'].
  - cbn [per_value_name]. rewrite Hoid. cbn [base_mset m_type m_not m_out m_mark m_must m_pname].
    eexists. exists [mk oid]. split; [reflexivity|]. rewrite orb_false_r.
    apply emitted_single; [reflexivity|apply ext_refl|exact Hinv|now repeat split|reflexivity|intros F _ _; apply Hev].
  - cbn [per_value_name]. rewrite or_id. cbn [base_mset m_type m_not m_out m_mark m_must m_pname].
    destruct (IH (append_rule b (mk OutboundLogicalOr)) neg ob oid) as [b' [seg [Hrun Hem]]]; [discriminate|assumption|exact Hinv|].
    exists b', (mk OutboundLogicalOr :: seg). split; [exact Hrun|].
    change (mk OutboundLogicalOr :: seg) with ([mk OutboundLogicalOr] ++ seg).
    eapply emitted_app; [|exact Hem].
    apply emitted_single; [reflexivity|apply ext_refl|exact Hinv|now repeat split|reflexivity|intros F _ _; apply Hev].
Qed.

Lemma add_dscps_emitted : forall vals b neg ob oid,
  vals <> [] -> outbound_to_id gs (po_name ob) = Ok oid -> inv b ->
  exists b' seg, add_dscps gs b neg vals ob = Ok b' /\
    emitted b b' seg neg oid (po_mark ob) (po_must ob) (existsb (fun v => p_dscp pk =? v) vals).
Proof.
  induction vals as [|v vals IH]; intros b neg ob oid Hne Hoid Hinv; [congruence|].
  cbn [add_dscps existsb].
  set (mk := fun o => {| m_type := MatchType_Dscp; m_not := neg; m_out := o;
                         m_mark := po_mark ob; m_must := po_must ob; m_lpm := 0; m_ps := 0; m_pe := 0; m_mask := 0;
                         m_pname := repeat 0 16; m_dscp := v |}).
  assert (Hev : forall o F i, eval_mset (b_tries F) a bm i (mk o) = Ok (p_dscp pk =? v)) by reflexivity.
  destruct vals as [|v2 vals'].
  - cbn [per_value_name]. rewrite Hoid. cbn [base_mset m_type m_not m_out m_mark m_must m_pname].
    eexists. exists [mk oid]. split; [reflexivity|]. rewrite orb_false_r.
    apply emitted_single; [reflexivity|apply ext_refl|exact Hinv|now repeat split|reflexivity|intros F _ _; apply Hev].
  - cbn [per_value_name]. rewrite or_id. cbn [base_mset m_type m_not m_out m_mark m_must m_pname].
    destruct (IH (append_rule b (mk OutboundLogicalOr)) neg ob oid) as [b' [seg [Hrun Hem]]]; [discriminate|assumption|exact Hinv|].
    exists b', (mk OutboundLogicalOr :: seg). split; [exact Hrun|].
    change (mk OutboundLogicalOr :: seg) with ([mk OutboundLogicalOr] ++ seg).
    eapply emitted_app; [|exact Hem].
    apply emitted_single; [reflexivity|apply ext_refl|exact Hinv|now repeat split|reflexivity|intros F _ _; apply Hev].
Qed.

(* --- one match-set per key group --- *)

Lemma add_mask_emitted (l4 : bool) b neg mask ob oid :
  outbound_to_id gs (po_name ob) = Ok oid -> inv b ->
  exists b' seg, add_mask (if l4 then MatchType_L4Proto else MatchType_IpVersion) gs b neg mask ob = Ok b' /\
    emitted b b' seg neg oid (po_mark ob) (po_must ob) (0 <? N.land (if l4 then a_l4 a else a_ipver a) mask).
Proof.
  intros Hoid Hinv. unfold add_mask. rewrite Hoid. eexists. eexists. split; [reflexivity|].
  apply emitted_single; [reflexivity|apply ext_refl|exact Hinv|now repeat split|reflexivity|].
  intros F _ _. destruct l4; reflexivity.
Qed.

Lemma eval_ipset tries (dst : bool) m i lpm :
  m_type m = (if dst then MatchType_IpSet else MatchType_SourceIpSet) ->
  nth_error tries (N.to_nat (m_lpm m)) = Some lpm ->
  eval_mset tries a bm i m = Ok (existsb (px_covers (if dst then p_dst pk else p_src pk)) lpm).
Proof. intros Ht Hn. unfold eval_mset. rewrite Ht. destruct dst; cbn; rewrite Hn; reflexivity. Qed.

Lemma eval_mac tries m i lpm :
  m_type m = MatchType_Mac -> nth_error tries (N.to_nat (m_lpm m)) = Some lpm ->
  eval_mset tries a bm i m = Ok (existsb (px_covers (p_mac pk)) lpm).
Proof. intros Ht Hn. unfold eval_mset. rewrite Ht. cbn. rewrite Hn. reflexivity. Qed.

Lemma new_trie_facts b h vals :
  inv b -> let '(idx, b1) := new_trie b h vals in
  b_rules b1 = b_rules b /\ ext b b1 /\ inv b1 /\ nth_error (b_tries b1) (N.to_nat idx) = Some vals.
Proof.
  intros Hinv. unfold new_trie. cbn [b_rules]. split; [reflexivity|]. split.
  - split; cbn; [exists [vals]; reflexivity|exists []; now rewrite app_nil_r].
  - split.
    + intros h' idx ps. cbn [b_dedup b_tries]. rewrite dedup_get_set. destruct (h' =? h).
      * intros E. inversion E; subst. rewrite Nat2N.id, nth_error_app2, Nat.sub_diag by lia. reflexivity.
      * intros E. apply Hinv in E. rewrite nth_error_app1; [assumption|]. apply nth_error_Some. congruence.
    + cbn [b_tries]. rewrite Nat2N.id, nth_error_app2, Nat.sub_diag by lia. reflexivity.
Qed.

Lemma add_ipset_emitted (dst : bool) b neg vals ob oid :
  outbound_to_id gs (po_name ob) = Ok oid -> inv b ->
  exists b' seg, add_ipset (if dst then MatchType_IpSet else MatchType_SourceIpSet) gs b neg vals ob = Ok b' /\
    emitted b b' seg neg oid (po_mark ob) (po_must ob) (existsb (px_covers (if dst then p_dst pk else p_src pk)) vals).
Proof.
  intros Hoid Hinv. unfold add_ipset.
  set (cv := canonicalize vals). set (h := hash_lpm_set cv).
  assert (Hcase : exists idx b1, (match dedup_get (b_dedup b) h with
                                  | Some (eidx, eps) => if prefixes_equal eps cv then (eidx, b) else new_trie b h cv
                                  | None => new_trie b h cv end) = (idx, b1)
                                 /\ b_rules b1 = b_rules b /\ ext b b1 /\ inv b1
                                 /\ nth_error (b_tries b1) (N.to_nat idx) = Some cv).
  { pose proof (new_trie_facts b h cv Hinv) as Hnew. destruct (new_trie b h cv) as [nidx nb] eqn:En.
    destruct (dedup_get (b_dedup b) h) as [[eidx eps]|] eqn:Eg.
    - destruct (prefixes_equal eps cv) eqn:Ep.
      + apply prefixes_equal_eq in Ep. subst eps. exists eidx, b. repeat split; auto using ext_refl; try apply ext_refl.
        now apply Hinv in Eg.
      + exists nidx, nb. split; [reflexivity|exact Hnew].
    - exists nidx, nb. split; [reflexivity|exact Hnew]. }
  destruct Hcase as [idx [b1 [Hc [Hr [He [Hi Hn]]]]]]. rewrite Hc, Hoid.
  eexists. eexists. split; [reflexivity|].
  apply emitted_single; [exact Hr|exact He|exact Hi|now repeat split|reflexivity|].
  intros F HF _. rewrite <- (existsb_canonicalize _ vals). fold cv.
  apply eval_ipset; [destruct dst; reflexivity|]. cbn [m_lpm]. now apply (ext_trie b1 F).
Qed.

Lemma px_covers_mac x m : px_covers x {| px_v4 := false; px_addr := m; px_bits := 128 |} = (x =? m).
Proof. unfold px_covers. cbn [px_v4 px_bits px_addr]. change (128 - 128) with 0. now rewrite !N.shiftr_0_r. Qed.

Lemma add_mac_emitted b neg macs ob oid :
  outbound_to_id gs (po_name ob) = Ok oid -> inv b ->
  exists b' seg, add_mac gs b neg macs ob = Ok b' /\
    emitted b b' seg neg oid (po_mark ob) (po_must ob)
            (existsb (fun m => m =? p_mac pk) macs || (neg && (p_mac pk =? 0))).
Proof.
  intros Hoid Hinv. unfold add_mac. rewrite Hoid.
  set (macs' := if neg then macs ++ [0] else macs).
  set (vals := map (fun m => {| px_v4 := false; px_addr := m; px_bits := 128 |}) macs').
  eexists. eexists. split; [reflexivity|].
  apply emitted_single; [reflexivity| | |now repeat split|reflexivity|].
  - split; cbn; [exists [vals]; reflexivity|exists []; now rewrite app_nil_r].
  - intros h' idx ps E. cbn [b_dedup b_tries] in *. apply Hinv in E.
    rewrite nth_error_app1; [assumption|]. apply nth_error_Some. congruence.
  - intros F HF _.
    assert (Hn : nth_error (b_tries F) (N.to_nat (N.of_nat (List.length (b_tries b)))) = Some vals).
    { apply (ext_trie _ F _ _ HF). cbn [b_tries]. rewrite Nat2N.id, nth_error_app2, Nat.sub_diag by lia. reflexivity. }
    rewrite (eval_mac _ _ _ vals); [|reflexivity|exact Hn]. f_equal.
    unfold vals. rewrite existsb_map'.
    rewrite (existsb_ext' _ (fun m => m =? p_mac pk)) by (intros m; rewrite px_covers_mac; apply N.eqb_sym).
    unfold macs'. destruct neg; cbn [andb]; [|now rewrite orb_false_r].
    rewrite existsb_app. cbn [existsb]. rewrite orb_false_r. f_equal; try apply N.eqb_sym.
Qed.

Lemma add_domain_emitted b neg key vals ob oid :
  outbound_to_id gs (po_name ob) = Ok oid -> inv b -> 1 <= key <= 4 ->
  exists b' seg, add_domain gs b neg key vals ob = Ok b' /\
    emitted b b' seg neg oid (po_mark ob) (po_must ob) (dom_group_holds key vals).
Proof.
  intros Hoid Hinv Hk. unfold add_domain.
  replace ((1 <=? key) && (key <=? 4)) with true by lia. rewrite Hoid.
  eexists. eexists. split; [reflexivity|].
  apply emitted_single; [reflexivity| |exact Hinv|now repeat split|reflexivity|].
  - split; cbn; [exists []; now rewrite app_nil_r|eexists; reflexivity].
  - intros F HF Hd. unfold eval_mset. cbn [base_mset m_type]. cbn. f_equal.
    change (match bm with Some w => bm_bit w (N.of_nat (List.length (b_rules b))) | None => false end)
      with (bmv (N.of_nat (List.length (b_rules b)))).
    apply Hd. apply (ext_dom _ F _ HF). cbn [b_domsets]. apply in_or_app. right. now left.
Qed.

(* --- one key group of a function (one call of a registered parser) --- *)

Lemma existsb_Forall2_P {A B} (P : A -> Prop) (R0 : A -> B -> Prop) (g : A -> bool) (h : B -> bool) :
  (forall x y, P x -> R0 x y -> g x = h y) ->
  forall l1 l2, Forall P l1 -> Forall2 R0 l1 l2 -> existsb g l1 = existsb h l2.
Proof.
  intros H l1 l2 HP HR. induction HR; cbn [existsb]; [reflexivity|].
  inversion HP; subst. f_equal; auto.
Qed.

Lemma Forall2_codes {A} (f : A -> option N) l1 l2 :
  (forall v x, f v = Some x -> x = 1 \/ x = 2) -> Forall2 (fun v x => f v = Some x) l1 l2 ->
  Forall (fun x => x = 1 \/ x = 2) l2.
Proof. intros H HR. induction HR; constructor; eauto. Qed.

Ltac use_collect f K key vals Hok l Hl Hl2 :=
  let Hinv := fresh "Hinvv" in
  assert (Hinv : forall v, value_ok K key v = true -> exists x, f v = Some x)
    by (let v := fresh "v" in let Hv := fresh "Hv" in intros v Hv; destruct v; try discriminate Hv;
        try (match goal with x : l4proto |- _ => destruct x end); try (match goal with x : ipver |- _ => destruct x end);
        eexists; reflexivity);
  destruct (collect_ok f (fun v => value_ok K key v = true) Hinv vals Hok) as [l [Hl Hl2]];
  unfold parse_and_add, with_values; rewrite Hl.

Lemma nomac k neg s : is_mac k = false -> s || mac_clause k neg = s.
Proof. intros H. unfold mac_clause. rewrite H, andb_false_r. cbn. now rewrite orb_false_r. Qed.

Lemma group_emit b k neg key vals ob oid :
  vals <> [] -> Forall (fun v => value_ok k key v = true) vals ->
  outbound_to_id gs (po_name ob) = Ok oid -> inv b ->
  exists b' seg, parse_and_add gs b k neg key vals ob = Ok b' /\
    emitted b b' seg neg oid (po_mark ob) (po_must ob) (group_sem k neg vals).
Proof.
  intros Hne Hok Hoid Hinv. unfold group_sem. destruct k.
  - (* domain *)
    use_collect as_domain FDomain key vals Hok l Hl Hl2.
    assert (Hk : 1 <= key <= 4).
    { destruct vals as [|v vals']; [congruence|]. inversion Hok as [|? ? Hv _]; subst.
      destruct v; try discriminate Hv. cbn in Hv. destruct k; lia. }
    destruct (add_domain_emitted b neg key l ob oid Hoid Hinv Hk) as [b' [seg [Hrun Hem]]].
    exists b', seg. split; [exact Hrun|]. rewrite nomac by reflexivity.
    replace (existsb (fun v => value_holds FDomain v pk) vals) with (dom_group_holds key l); [exact Hem|].
    symmetry. unfold dom_group_holds.
    apply (existsb_Forall2_P (fun v => value_ok FDomain key v = true) (fun v x => as_domain v = Some x)); auto.
    intros v x Hv Hx. destruct v; try discriminate Hv. cbn in Hx. inversion Hx; subst. cbn [value_holds].
    cbn in Hv. unfold dkind_of_key. destruct k; apply N.eqb_eq in Hv; subst key; reflexivity.
  - (* ip *)
    use_collect as_prefix FIp key vals Hok l Hl Hl2.
    destruct (add_ipset_emitted true b neg l ob oid Hoid Hinv) as [b' [seg [Hrun Hem]]].
    exists b', seg. split; [exact Hrun|]. rewrite nomac by reflexivity.
    replace (existsb (fun v => value_holds FIp v pk) vals) with (existsb (px_covers (p_dst pk)) l); [exact Hem|].
    symmetry. apply (existsb_Forall2_P (fun v => value_ok FIp key v = true) (fun v x => as_prefix v = Some x)); auto.
    intros v x Hv Hx. destruct v; try discriminate Hv. cbn in Hx. inversion Hx; subst. reflexivity.
  - (* sip *)
    use_collect as_prefix FSip key vals Hok l Hl Hl2.
    destruct (add_ipset_emitted false b neg l ob oid Hoid Hinv) as [b' [seg [Hrun Hem]]].
    exists b', seg. split; [exact Hrun|]. rewrite nomac by reflexivity.
    replace (existsb (fun v => value_holds FSip v pk) vals) with (existsb (px_covers (p_src pk)) l); [exact Hem|].
    symmetry. apply (existsb_Forall2_P (fun v => value_ok FSip key v = true) (fun v x => as_prefix v = Some x)); auto.
    intros v x Hv Hx. destruct v; try discriminate Hv. cbn in Hx. inversion Hx; subst. reflexivity.
  - (* port *)
    use_collect as_range FPort key vals Hok l Hl Hl2.
    destruct (add_ports_emitted true l b neg ob oid (Forall2_nonempty _ _ _ Hl2 Hne) Hoid Hinv) as [b' [seg [Hrun Hem]]].
    exists b', seg. split; [exact Hrun|]. rewrite nomac by reflexivity.
    match type of Hem with emitted _ _ _ _ _ _ _ ?s => replace (existsb (fun v => value_holds FPort v pk) vals) with s; [exact Hem|] end.
    symmetry. apply (existsb_Forall2_P (fun v => value_ok FPort key v = true) (fun v x => as_range v = Some x)); auto.
    intros v x Hv Hx. destruct v; try discriminate Hv. cbn in Hx. inversion Hx; subst. reflexivity.
  - (* sport *)
    use_collect as_range FSport key vals Hok l Hl Hl2.
    destruct (add_ports_emitted false l b neg ob oid (Forall2_nonempty _ _ _ Hl2 Hne) Hoid Hinv) as [b' [seg [Hrun Hem]]].
    exists b', seg. split; [exact Hrun|]. rewrite nomac by reflexivity.
    match type of Hem with emitted _ _ _ _ _ _ _ ?s => replace (existsb (fun v => value_holds FSport v pk) vals) with s; [exact Hem|] end.
    symmetry. apply (existsb_Forall2_P (fun v => value_ok FSport key v = true) (fun v x => as_range v = Some x)); auto.
    intros v x Hv Hx. destruct v; try discriminate Hv. cbn in Hx. inversion Hx; subst. reflexivity.
  - (* l4proto *)
    use_collect as_proto FL4 key vals Hok l Hl Hl2.
    destruct (add_mask_emitted true b neg (or_all l) ob oid Hoid Hinv) as [b' [seg [Hrun Hem]]].
    exists b', seg. split; [exact Hrun|]. rewrite nomac by reflexivity.
    match type of Hem with emitted _ _ _ _ _ _ _ ?s => replace (existsb (fun v => value_holds FL4 v pk) vals) with s; [exact Hem|] end.
    assert (Hc : Forall (fun x => x = 1 \/ x = 2) l).
    { apply (Forall2_codes as_proto vals l); [|exact Hl2]. intros v x Hx. destruct v; try discriminate Hx.
      destruct p; inversion Hx; auto. }
    unfold or_all. change 0 with (mask_code false false) at 2. rewrite (or_all_code l false false Hc). cbn [orb].
    unfold a. cbn [args_of_packet a_l4]. unfold value_holds. destruct (p_l4 pk).
    + change L4ProtoType_TCP with 1. rewrite mask_hit_1. symmetry.
      apply (existsb_Forall2_P (fun v => value_ok FL4 key v = true) (fun v x => as_proto v = Some x)); auto.
      intros v x Hv Hx. destruct v; try discriminate Hv. destruct p; inversion Hx; reflexivity.
    + change L4ProtoType_UDP with 2. rewrite mask_hit_2. symmetry.
      apply (existsb_Forall2_P (fun v => value_ok FL4 key v = true) (fun v x => as_proto v = Some x)); auto.
      intros v x Hv Hx. destruct v; try discriminate Hv. destruct p; inversion Hx; reflexivity.
  - (* ipversion *)
    use_collect as_ver FIpver key vals Hok l Hl Hl2.
    destruct (add_mask_emitted false b neg (or_all l) ob oid Hoid Hinv) as [b' [seg [Hrun Hem]]].
    exists b', seg. split; [exact Hrun|]. rewrite nomac by reflexivity.
    match type of Hem with emitted _ _ _ _ _ _ _ ?s => replace (existsb (fun v => value_holds FIpver v pk) vals) with s; [exact Hem|] end.
    assert (Hc : Forall (fun x => x = 1 \/ x = 2) l).
    { apply (Forall2_codes as_ver vals l); [|exact Hl2]. intros v x Hx. destruct v; try discriminate Hx.
      destruct v; inversion Hx; auto. }
    unfold or_all. change 0 with (mask_code false false) at 2. rewrite (or_all_code l false false Hc). cbn [orb].
    unfold a. cbn [args_of_packet a_ipver]. unfold value_holds. destruct (p_ipver pk).
    + change IpVersion_4 with 1. rewrite mask_hit_1. symmetry.
      apply (existsb_Forall2_P (fun v => value_ok FIpver key v = true) (fun v x => as_ver v = Some x)); auto.
      intros v x Hv Hx. destruct v; try discriminate Hv. destruct v; inversion Hx; reflexivity.
    + change IpVersion_6 with 2. rewrite mask_hit_2. symmetry.
      apply (existsb_Forall2_P (fun v => value_ok FIpver key v = true) (fun v x => as_ver v = Some x)); auto.
      intros v x Hv Hx. destruct v; try discriminate Hv. destruct v; inversion Hx; reflexivity.
  - (* mac *)
    use_collect as_mac FMac key vals Hok l Hl Hl2.
    destruct (add_mac_emitted b neg l ob oid Hoid Hinv) as [b' [seg [Hrun Hem]]].
    exists b', seg. split; [exact Hrun|].
    match type of Hem with emitted _ _ _ _ _ _ _ ?s =>
      replace (existsb (fun v => value_holds FMac v pk) vals || mac_clause FMac neg) with s; [exact Hem|] end.
    unfold mac_clause. cbn [is_mac]. rewrite andb_true_r. f_equal.
    symmetry. apply (existsb_Forall2_P (fun v => value_ok FMac key v = true) (fun v x => as_mac v = Some x)); auto.
    intros v x Hv Hx. destruct v; try discriminate Hv. cbn in Hx. inversion Hx; subst. reflexivity.
  - (* pname *)
    use_collect as_pname FPname key vals Hok l Hl Hl2.
    destruct (add_pnames_emitted l b neg ob oid (Forall2_nonempty _ _ _ Hl2 Hne) Hoid Hinv) as [b' [seg [Hrun Hem]]].
    exists b', seg. split; [exact Hrun|]. rewrite nomac by reflexivity.
    match type of Hem with emitted _ _ _ _ _ _ _ ?s => replace (existsb (fun v => value_holds FPname v pk) vals) with s; [exact Hem|] end.
    symmetry. apply (existsb_Forall2_P (fun v => value_ok FPname key v = true) (fun v x => as_pname v = Some x)); auto.
    intros v x Hv Hx. destruct v; try discriminate Hv. cbn in Hx. inversion Hx; subst. reflexivity.
  - (* dscp *)
    use_collect as_dscp FDscp key vals Hok l Hl Hl2.
    destruct (add_dscps_emitted l b neg ob oid (Forall2_nonempty _ _ _ Hl2 Hne) Hoid Hinv) as [b' [seg [Hrun Hem]]].
    exists b', seg. split; [exact Hrun|]. rewrite nomac by reflexivity.
    match type of Hem with emitted _ _ _ _ _ _ _ ?s => replace (existsb (fun v => value_holds FDscp v pk) vals) with s; [exact Hem|] end.
    symmetry. apply (existsb_Forall2_P (fun v => value_ok FDscp key v = true) (fun v x => as_dscp v = Some x)); auto.
    intros v x Hv Hx. destruct v; try discriminate Hv. cbn in Hx. inversion Hx; subst. cbn [value_holds]. apply N.eqb_sym.
Qed.

(* --- the extracted strip operation is the exact removal of the prefix "must_" --- *)

Lemma substring_all : forall s, substring 0 (String.length s) s = s.
Proof. induction s as [|c s IH]; cbn; [reflexivity|]. now rewrite IH. Qed.

Lemma skip5_strip_must s : prefix "must_" s = true -> skip 5 s = strip_must s.
Proof.
  intros H. unfold strip_must.
  destruct s as [|c1 [|c2 [|c3 [|c4 [|c5 r]]]]]; cbn in H;
    repeat match type of H with (if ?c then _ else _) = true => destruct c; try discriminate H end; try discriminate H.
  cbn [String.length skip]. replace (S (S (S (S (S (String.length r))))) - 5)%nat with (String.length r) by lia.
  cbn [substring]. now rewrite substring_all.
Qed.

Lemma strip_rule_exact s : prefix "must_" s = true -> apply_strip patch_rule_strip_op patch_rule_strip_arg s = strip_must s.
Proof. intros H. unfold apply_strip, patch_rule_strip_op, patch_rule_strip_arg. rewrite H. now apply skip5_strip_must. Qed.
Lemma strip_fallback_exact s : prefix "must_" s = true -> apply_strip patch_fallback_strip_op patch_fallback_strip_arg s = strip_must s.
Proof. intros H. unfold apply_strip, patch_fallback_strip_op, patch_fallback_strip_arg. rewrite H. now apply skip5_strip_must. Qed.

(* --- outbounds: patchMustOutbound + ParseOutbound + outboundToId --- *)

Lemma parse_outbound_params_spec ps mk mu :
  parse_outbound_params ps mk mu =
  (fold_left (fun acc p => match p with OMark m => m | OMust => acc end) ps mk,
   mu || existsb (fun p => match p with OMust => true | _ => false end) ps).
Proof.
  revert mk mu. induction ps as [|[m|] ps IH]; intros mk mu; cbn [parse_outbound_params fold_left existsb].
  - now rewrite orb_false_r.
  - rewrite IH. reflexivity.
  - rewrite IH. cbn. now rewrite orb_true_r.
Qed.

Lemma lookup_groups_ok : forall g n id, groups_ok g = true -> lookup g n = Some id ->
  id < 0xFC /\ String.eqb n "must_rules" = false /\ String.eqb n "<OR>" = false /\ String.eqb n "<AND>" = false.
Proof.
  induction g as [|[n0 id0] g IH]; intros n id Hok Hl; [discriminate|].
  cbn [groups_ok forallb fst snd] in Hok. apply andb_true_iff in Hok. destruct Hok as [H0 Hok].
  cbn [lookup] in Hl. destruct (String.eqb n0 n) eqn:E.
  - apply String.eqb_eq in E. subst n0. inversion Hl; subst id0.
    apply andb_true_iff in H0. destruct H0 as [Hlt Hres]. apply negb_true_iff in Hres.
    apply orb_false_iff in Hres. destruct Hres as [Hres H3]. apply orb_false_iff in Hres. destruct Hres as [H1 H2].
    repeat split; auto. lia.
  - now apply IH.
Qed.

Lemma outbound_to_id_group n id :
  groups_ok gs = true -> lookup gs n = Some id -> outbound_to_id gs n = Ok id /\ id < 0xFC.
Proof.
  intros Hok Hl. destruct (lookup_groups_ok gs n id Hok Hl) as [Hlt [H1 [H2 H3]]].
  unfold outbound_to_id. rewrite H2, H3, H1, Hl. now split.
Qed.

Definition resolved (o : outbound) (ob : pout) : Prop :=
  if is_must_rules o then outbound_to_id gs (po_name ob) = Ok OutboundMustRules
  else exists id, outbound_to_id gs (po_name ob) = Ok id /\ id < 0xFC /\ id = gid gs (out_group o) /\
                  po_mark ob = out_mark o /\ po_must ob = out_must o.

Lemma resolve_rule_out o :
  groups_ok gs = true -> outbound_ok gs false o = true -> resolved o (parse_outbound (patch_rule_outbound o)).
Proof.
  intros Hg Ho. unfold outbound_ok in Ho. apply andb_true_iff in Ho. destruct Ho as [_ Ho]. cbn [negb andb] in Ho.
  unfold resolved. destruct (is_must_rules o) eqn:Em.
  - unfold is_must_rules in Em. apply String.eqb_eq in Em. unfold patch_rule_outbound. rewrite Em. cbn.
    unfold parse_outbound. cbn [o_name]. destruct (parse_outbound_params _ _ _). cbn [po_name]. rewrite Em. reflexivity.
  - cbn [orb] in Ho. destruct (lookup gs (out_group o)) as [id|] eqn:El; [|discriminate].
    destruct (outbound_to_id_group _ _ Hg El) as [Hid Hlt]. exists id.
    unfold patch_rule_outbound, out_group, out_must, out_mark, has_must_prefix in *. unfold is_must_rules in Em.
    destruct (prefix "must_" (o_name o)) eqn:Ep.
    + rewrite Em, (strip_rule_exact _ Ep). unfold parse_outbound. cbn [o_name o_params]. rewrite parse_outbound_params_spec. cbn [po_name po_mark po_must].
      unfold gid. rewrite El. repeat split; auto.
      * now rewrite fold_left_app.
      * rewrite existsb_app. cbn. now rewrite orb_true_r.
    + unfold parse_outbound. rewrite parse_outbound_params_spec. cbn [po_name po_mark po_must].
      unfold gid. rewrite El. repeat split; auto.
Qed.

Lemma resolve_fallback o :
  groups_ok gs = true -> outbound_ok gs true o = true ->
  exists id, outbound_to_id gs (po_name (parse_outbound (patch_fallback o))) = Ok id /\ id < 0xFC /\ id = gid gs (out_group o) /\
             po_mark (parse_outbound (patch_fallback o)) = out_mark o /\ po_must (parse_outbound (patch_fallback o)) = out_must o.
Proof.
  intros Hg Ho. unfold outbound_ok in Ho. apply andb_true_iff in Ho. destruct Ho as [_ Ho]. cbn [negb andb orb] in Ho.
  destruct (lookup gs (out_group o)) as [id|] eqn:El; [|discriminate].
  destruct (outbound_to_id_group _ _ Hg El) as [Hid Hlt]. exists id.
  unfold patch_fallback, out_group, out_must, out_mark, has_must_prefix in *.
  destruct (prefix "must_" (o_name o)) eqn:Ep.
  - rewrite (strip_fallback_exact _ Ep). unfold parse_outbound. cbn [o_name o_params]. rewrite parse_outbound_params_spec. cbn [po_name po_mark po_must].
    unfold gid. rewrite El. repeat split; auto.
    + now rewrite fold_left_app.
    + rewrite existsb_app. cbn. now rewrite orb_true_r.
  - unfold parse_outbound. rewrite parse_outbound_params_spec. cbn [po_name po_mark po_must].
    unfold gid. rewrite El. repeat split; auto.
Qed.

(* --- one function call (all its key groups) --- *)

Lemma apply_groups_emit : forall kgs b k neg (last_func : bool) ob oid,
  kgs <> [] ->
  (forall key vals, In (key, vals) kgs -> vals <> [] /\ Forall (fun v => value_ok k key v = true) vals) ->
  outbound_to_id gs (if last_func then po_name ob else "<AND>"%string) = Ok oid -> inv b ->
  exists b' seg, apply_groups gs b k neg kgs last_func ob = Ok b' /\
    emitted b b' seg neg oid (po_mark ob) (po_must ob)
            (existsb (fun g => existsb (fun v => value_holds k v pk) (snd g)) kgs || mac_clause k neg).
Proof.
  induction kgs as [|[key vals] kgs IH]; intros b k neg last_func ob oid Hne Hall Hoid Hinv; [congruence|].
  destruct (Hall key vals (or_introl eq_refl)) as [Hv1 Hv2].
  cbn [apply_groups existsb snd]. destruct kgs as [|g2 kgs'].
  - set (ob' := {| po_name := if last_func then po_name ob else "<AND>"%string; po_mark := po_mark ob; po_must := po_must ob |}).
    destruct (group_emit b k neg key vals ob' oid Hv1 Hv2 Hoid Hinv) as [b' [seg [Hrun Hem]]].
    rewrite Hrun. exists b', seg. split; [reflexivity|]. cbn [existsb]. rewrite orb_false_r. exact Hem.
  - set (ob' := {| po_name := "<OR>"%string; po_mark := po_mark ob; po_must := po_must ob |}).
    destruct (group_emit b k neg key vals ob' OutboundLogicalOr Hv1 Hv2 or_id Hinv) as [b1 [seg1 [Hrun1 Hem1]]].
    rewrite Hrun1.
    assert (Hinv1 : inv b1) by (destruct Hem1 as [_ [_ [H _]]]; exact H).
    destruct (IH b1 k neg last_func ob oid) as [b' [seg2 [Hrun2 Hem2]]]; [discriminate| |exact Hoid|exact Hinv1|].
    { intros key' vals' Hin. apply Hall. now right. }
    exists b', (seg1 ++ seg2). split; [exact Hrun2|].
    pose proof (emitted_app _ _ _ _ _ _ _ _ _ _ _ Hem1 Hem2) as Hem. cbn [po_mark po_must] in Hem.
    match type of Hem with emitted _ _ _ _ _ _ _ ?s => match goal with |- emitted _ _ _ _ _ _ _ ?t => replace t with s; [exact Hem|] end end.
    unfold group_sem. set (g2' := g2 :: kgs').
    destruct (existsb (fun v => value_holds k v pk) vals), (mac_clause k neg),
             (existsb (fun g => existsb (fun v => value_holds k v pk) (snd g)) g2'); reflexivity.
Qed.

Lemma groups_existsb (f : value -> bool) params :
  existsb (fun g => existsb f (snd g)) (group_by_key params) = existsb (fun kv => f (snd kv)) params.
Proof.
  destruct (group_by_key_ok params) as [Hs Hc].
  apply eq_true_iff_eq. rewrite !existsb_exists. split.
  - intros [[k vs] [Hin Hex]]. cbn [snd] in Hex. apply existsb_exists in Hex. destruct Hex as [x [Hx Hfx]].
    exists (k, x). split; [|exact Hfx]. now apply (proj2 (Hs k vs Hin)).
  - intros [[k x] [Hin Hfx]]. cbn [snd] in Hfx. destruct (Hc k x Hin) as [vs [Hg Hx]].
    exists (k, vs). split; [exact Hg|]. cbn [snd]. apply existsb_exists. now exists x.
Qed.

Lemma cond_sem k neg any :
  xorb neg (any || mac_clause k neg) = (if neg then negb any && negb (is_mac k && (p_mac pk =? 0)) else any).
Proof. unfold mac_clause. destruct neg, any, (is_mac k), (p_mac pk =? 0); reflexivity. Qed.

Lemma cond_emit c b (last_func : bool) ob oid :
  cond_ok c = true -> outbound_to_id gs (if last_func then po_name ob else "<AND>"%string) = Ok oid -> inv b ->
  exists b' seg, apply_groups gs b (c_kind c) (c_neg c) (group_by_key (c_params c)) last_func ob = Ok b' /\
    emitted b b' seg (c_neg c) oid (po_mark ob) (po_must ob) (xorb (c_neg c) (cond_holds c pk)).
Proof.
  intros Hc Hoid Hinv. unfold cond_ok in Hc. apply andb_true_iff in Hc. destruct Hc as [Hne Hvals].
  assert (Hne' : c_params c <> []) by (destruct (c_params c); [discriminate|congruence]).
  destruct (group_by_key_ok (c_params c)) as [Hs _].
  destruct (apply_groups_emit (group_by_key (c_params c)) b (c_kind c) (c_neg c) last_func ob oid) as [b' [seg [Hrun Hem]]];
    [now apply group_by_key_nonempty| |exact Hoid|exact Hinv|].
  { intros key vals Hin. destruct (Hs key vals Hin) as [H1 H2]. split; [exact H1|].
    apply Forall_forall. intros v Hv. rewrite forallb_forall in Hvals. apply (Hvals (key, v)). now apply H2. }
  exists b', seg. split; [exact Hrun|].
  match type of Hem with emitted _ _ _ _ _ _ _ ?s => match goal with |- emitted _ _ _ _ _ _ _ ?t => replace t with s; [exact Hem|] end end.
  rewrite groups_existsb. unfold cond_holds.
  set (any := existsb (fun kv => value_holds (c_kind c) (snd kv) pk) (c_params c)).
  unfold mac_clause. destruct (c_neg c), any, (is_mac (c_kind c)), (p_mac pk =? 0); reflexivity.
Qed.

(* --- one rule --- *)

Definition rtgt_of (oid mark : N) (must : bool) : RuleScan.rtgt R :=
  if oid =? OutboundMustRules then RuleScan.RMust else RuleScan.ROut (oid, mark) must.

Lemma tail_tgt_of oid mk mu : oid <= 252 -> RuleScan.tail_tgt R (rtgt_of oid mk mu) = tgt_of_id oid mk mu.
Proof.
  intros H. unfold rtgt_of, tgt_of_id.
  replace (oid =? OutboundLogicalOr) with false by (symmetry; apply N.eqb_neq; unfold OutboundLogicalOr; lia).
  replace (oid =? OutboundLogicalAnd) with false by (symmetry; apply N.eqb_neq; unfold OutboundLogicalAnd; lia).
  destruct (oid =? OutboundMustRules); reflexivity.
Qed.

Lemma tag_nonempty i seg : seg <> [] -> tag i seg <> [].
Proof. destruct seg; [congruence|discriminate]. Qed.

Lemma lower_conds_cons t (c : RuleScan.cond atom) acs : acs <> [] ->
  RuleScan.lower_conds atom R t (c :: acs)
  = RuleScan.lower_atoms atom R (RuleScan.cneg c) RuleScan.TAnd (RuleScan.catoms c) ++ RuleScan.lower_conds atom R t acs.
Proof. destruct acs; [congruence|reflexivity]. Qed.

Lemma apply_funcs_emit : forall cs b ob oid,
  cs <> [] -> Forall (fun c => cond_ok c = true) cs ->
  outbound_to_id gs (po_name ob) = Ok oid -> oid <= 252 -> inv b ->
  exists b' seg acs, apply_funcs gs b cs ob = Ok b' /\ b_rules b' = b_rules b ++ seg /\ ext b b' /\ inv b' /\
    abs_arr (N.of_nat (List.length (b_rules b))) seg
      = RuleScan.lower_conds atom R (rtgt_of oid (po_mark ob) (po_must ob)) acs /\
    acs <> [] /\ Forall (RuleScan.wf_cond atom) acs /\ Forall (fun m => m_out m < 256) seg /\
    forall F, ext b' F -> dom_agree F ->
      Forall (fine F) (tag (N.of_nat (List.length (b_rules b))) seg) /\
      forallb (RuleScan.cond_holds atom (semx F)) acs = forallb (fun c => cond_holds c pk) cs.
Proof.
  induction cs as [|c cs IH]; intros b ob oid Hne Hok Hoid Hle Hinv; [congruence|].
  inversion Hok as [|? ? Hc Hok']; subst. cbn [apply_funcs]. destruct cs as [|c2 cs'].
  - destruct (cond_emit c b true ob oid Hc Hoid Hinv) as [b' [seg [Hrun [Hr [He [Hi [Hch Hs]]]]]]].
    rewrite Hrun. exists b', seg, [RuleScan.C (c_neg c) (tag (N.of_nat (List.length (b_rules b))) seg)].
    split; [reflexivity|]. split; [exact Hr|]. split; [exact He|]. split; [exact Hi|].
    split. { cbn [RuleScan.lower_conds RuleScan.cneg RuleScan.catoms]. rewrite tail_tgt_of by exact Hle. now apply chain_lower. }
    split; [discriminate|].
    split. { constructor; [|constructor]. unfold RuleScan.wf_cond. cbn. apply tag_nonempty. eapply chain_nonempty; eauto. }
    split. { eapply chain_out_small; eauto. lia. }
    intros F HF Hd. destruct (Hs F HF Hd) as [Hf Hx]. split; [exact Hf|].
    cbn [forallb]. unfold RuleScan.cond_holds. cbn [RuleScan.cneg RuleScan.catoms]. rewrite Hx.
    rewrite !andb_true_r. destruct (c_neg c), (cond_holds c pk); reflexivity.
  - destruct (cond_emit c b false ob OutboundLogicalAnd Hc and_id Hinv) as [b1 [seg1 [Hrun1 [Hr1 [He1 [Hi1 [Hch1 Hs1]]]]]]].
    rewrite Hrun1.
    destruct (IH b1 ob oid) as [b' [seg2 [acs2 [Hrun2 [Hr2 [He2 [Hi2 [Hl2 [Hne2 [Hwf2 [Ho2 Hs2]]]]]]]]]]];
      [discriminate|exact Hok'|exact Hoid|exact Hle|exact Hi1|].
    exists b', (seg1 ++ seg2), (RuleScan.C (c_neg c) (tag (N.of_nat (List.length (b_rules b))) seg1) :: acs2).
    split; [exact Hrun2|]. split; [now rewrite Hr2, Hr1, app_assoc|]. split; [now apply (ext_trans b b1 b')|].
    split; [exact Hi2|].
    rewrite Hr1, app_length, Nat2N.inj_add in Hl2, Hs2.
    split.
    { rewrite abs_arr_app, Hl2, lower_conds_cons by exact Hne2. cbn [RuleScan.cneg RuleScan.catoms]. f_equal.
      rewrite (chain_lower _ _ _ _ _ Hch1). reflexivity. }
    split; [discriminate|].
    split. { constructor; [|exact Hwf2]. unfold RuleScan.wf_cond. cbn. apply tag_nonempty. eapply chain_nonempty; eauto. }
    split. { apply Forall_app. split; [|exact Ho2]. eapply chain_out_small; eauto. reflexivity. }
    intros F HF Hd. destruct (Hs1 F (ext_trans _ _ _ He2 HF) Hd) as [Hf1 Hx1]. destruct (Hs2 F HF Hd) as [Hf2 Hx2].
    split. { rewrite tag_app. apply Forall_app. now split. }
    cbn [forallb]. rewrite Hx2. f_equal.
    unfold RuleScan.cond_holds. cbn [RuleScan.cneg RuleScan.catoms]. rewrite Hx1.
    destruct (c_neg c), (cond_holds c pk); reflexivity.
Qed.

(* --- all rules --- *)

Definition patchr (r : rule) : rule := {| r_conds := r_conds r; r_out := patch_rule_outbound (r_out r) |}.

Fixpoint drk (rs : list rule) (must : bool) (k : bool -> option (R * bool)) : option (R * bool) :=
  match rs with
  | [] => k must
  | r :: rest =>
    if rule_holds r pk then
      if is_must_rules (r_out r) then drk rest true k
      else Some ((gid gs (out_group (r_out r)), out_mark (r_out r)), out_must (r_out r) || must)
    else drk rest must k
  end.

Lemma apply_rules_emit : forall rs b,
  groups_ok gs = true -> Forall (fun r => rule_ok gs r = true) rs -> inv b ->
  exists b' seg ars, apply_rules gs b (map patchr rs) = Ok b' /\ b_rules b' = b_rules b ++ seg /\ ext b b' /\ inv b' /\
    abs_arr (N.of_nat (List.length (b_rules b))) seg = RuleScan.lower atom R ars /\
    Forall (RuleScan.wf_rule atom R) ars /\ Forall (fun m => m_out m < 256) seg /\
    forall F, ext b' F -> dom_agree F ->
      Forall (fine F) (tag (N.of_nat (List.length (b_rules b))) seg) /\
      forall more must, RuleScan.decide atom R (semx F) (ars ++ more) must
                        = drk rs must (fun m => RuleScan.decide atom R (semx F) more m).
Proof.
  induction rs as [|r rs IH]; intros b Hg Hok Hinv.
  - exists b, [], []. cbn [map apply_rules]. rewrite app_nil_r.
    repeat split; auto using ext_refl; try apply ext_refl; constructor.
  - inversion Hok as [|? ? Hr Hok']; subst.
    unfold rule_ok in Hr. apply andb_true_iff in Hr. destruct Hr as [Hr Hout]. apply andb_true_iff in Hr. destruct Hr as [Hne Hconds].
    assert (Hne' : r_conds r <> []) by (destruct (r_conds r); [discriminate|congruence]).
    assert (Hconds' : Forall (fun c => cond_ok c = true) (r_conds r)) by (apply Forall_forall; now rewrite forallb_forall in Hconds).
    pose proof (resolve_rule_out (r_out r) Hg Hout) as Hres. unfold resolved in Hres.
    set (ob := parse_outbound (patch_rule_outbound (r_out r))) in *.
    assert (Hoid : exists oid, outbound_to_id gs (po_name ob) = Ok oid /\ oid <= 252 /\
              rtgt_of oid (po_mark ob) (po_must ob)
              = if is_must_rules (r_out r) then RuleScan.RMust
                else RuleScan.ROut (gid gs (out_group (r_out r)), out_mark (r_out r)) (out_must (r_out r))).
    { destruct (is_must_rules (r_out r)).
      - exists OutboundMustRules. split; [exact Hres|]. split; [reflexivity|reflexivity].
      - destruct Hres as [id [H1 [H2 [H3 [H4 H5]]]]]. exists id. split; [exact H1|]. split; [lia|].
        unfold rtgt_of. replace (id =? OutboundMustRules) with false by (symmetry; apply N.eqb_neq; unfold OutboundMustRules; lia).
        now rewrite H3, H4, H5. }
    destruct Hoid as [oid [Hoid [Hle Hrt]]].
    destruct (apply_funcs_emit (r_conds r) b ob oid Hne' Hconds' Hoid Hle Hinv)
      as [b1 [seg1 [acs [Hrun1 [Hr1 [He1 [Hi1 [Hl1 [Hne1 [Hwf1 [Ho1 Hs1]]]]]]]]]]].
    destruct (IH b1 Hg Hok' Hi1) as [b' [seg2 [ars2 [Hrun2 [Hr2 [He2 [Hi2 [Hl2 [Hwf2 [Ho2 Hs2]]]]]]]]]].
    exists b', (seg1 ++ seg2), (RuleScan.Rl acs (rtgt_of oid (po_mark ob) (po_must ob)) :: ars2).
    cbn [map apply_rules patchr r_conds r_out]. fold ob. rewrite Hrun1.
    split; [exact Hrun2|]. split; [now rewrite Hr2, Hr1, app_assoc|]. split; [now apply (ext_trans b b1 b')|].
    split; [exact Hi2|].
    rewrite Hr1, app_length, Nat2N.inj_add in Hl2, Hs2.
    split. { rewrite abs_arr_app. cbn [RuleScan.lower flat_map]. unfold RuleScan.lower_rule. cbn [RuleScan.rt RuleScan.rconds].
             rewrite <- Hl1. f_equal. exact Hl2. }
    split. { constructor; [|exact Hwf2]. split; cbn; assumption. }
    split. { apply Forall_app. now split. }
    intros F HF Hd. destruct (Hs1 F (ext_trans _ _ _ He2 HF) Hd) as [Hf1 Hx1]. destruct (Hs2 F HF Hd) as [Hf2 Hx2].
    split. { rewrite tag_app. apply Forall_app. now split. }
    intros more must. cbn [app RuleScan.decide drk]. unfold RuleScan.rule_holds at 1. cbn [RuleScan.rconds RuleScan.rt].
    rewrite Hx1. unfold rule_holds. destruct (forallb (fun c => cond_holds c pk) (r_conds r)); [|apply Hx2].
    rewrite Hrt. destruct (is_must_rules (r_out r)); [apply Hx2|reflexivity].
Qed.

Lemma drk_spec fb : forall rs must,
  drk rs must (fun m => Some ((gid gs (out_group fb), out_mark fb), out_must fb || m))
  = Some (let '(o, mk, mu) := decide_rules gs rs fb pk must in ((o, mk), mu)).
Proof.
  induction rs as [|r rs IH]; intros must; cbn [drk decide_rules]; [reflexivity|].
  destruct (rule_holds r pk); [|apply IH]. destruct (is_must_rules (r_out r)); [apply IH|reflexivity].
Qed.

End Emit.

(* ------------------------------------------------------------------------------------------------ *)
(* Part 4: the refinement theorem                                                                     *)
(* ------------------------------------------------------------------------------------------------ *)

Lemma tag_nth : forall l i k x, nth_error (tag i l) k = Some x -> fst x = i + N.of_nat k /\ nth_error l k = Some (snd x).
Proof.
  induction l as [|m l IH]; intros i k x H; destruct k; cbn in H; try discriminate.
  - inversion H; subst. cbn. split; [lia|reflexivity].
  - destruct (IH _ _ _ H) as [H1 H2]. split; [lia|exact H2].
Qed.

Lemma tag_in : forall l i k m, nth_error l k = Some m -> In (i + N.of_nat k, m) (tag i l).
Proof.
  induction l as [|m' l IH]; intros i k m Hk; destruct k; cbn in Hk; try discriminate.
  - inversion Hk; subst. left. f_equal. lia.
  - right. specialize (IH (N.succ i) k m Hk). replace (N.succ i + N.of_nat k) with (i + N.of_nat (S k)) in IH by lia. exact IH.
Qed.

Definition bm_of (dm : string -> list N) (pk : packet) : option (list N) :=
  if String.eqb (p_domain pk) "" then None else Some (dm (p_domain pk)).

Lemma inv_empty : inv empty_builder.
Proof. intros h idx ps H. discriminate H. Qed.

Lemma C01_refinement_core (p : program) (pk : packet) (dm : string -> list N) :
  wf_program p = true ->
  exists b mt, lower_program p = Ok b /\ build_userspace b = Ok mt /\
    (dom_agree pk (bm_of dm pk) b -> match_sets mt dm (args_of_packet pk) = Ok (decide p pk)).
Proof.
  intros Hwf. unfold wf_program in Hwf. apply andb_true_iff in Hwf. destruct Hwf as [Hwf Hfb].
  apply andb_true_iff in Hwf. destruct Hwf as [Hg Hrules].
  set (gs := pr_groups p) in *. set (bm := bm_of dm pk).
  assert (Hrules' : Forall (fun r => rule_ok gs r = true) (pr_rules p)) by (apply Forall_forall; now rewrite forallb_forall in Hrules).
  destruct (apply_rules_emit gs pk bm (pr_rules p) empty_builder Hg Hrules' inv_empty)
    as [b' [seg [ars [Hrun [Hr [He [Hi [Hl [Hwf [Ho Hs]]]]]]]]]].
  cbn [empty_builder b_rules app List.length] in Hr, Hl, Hs. change (N.of_nat 0) with 0 in Hl, Hs.
  destruct (resolve_fallback gs (pr_fallback p) Hg Hfb) as [id [Hid [Hlt [Hgid [Hmk Hmu]]]]].
  set (ob := parse_outbound (patch_fallback (pr_fallback p))) in *.
  set (fbm := base_mset MatchType_Fallback false id ob).
  exists (append_rule b' fbm), {| mt_sets := b_rules b' ++ [fbm]; mt_tries := b_tries b' |}.
  split.
  { unfold lower_program. fold gs. change (map (fun r => {| r_conds := r_conds r; r_out := patch_rule_outbound (r_out r) |}) (pr_rules p))
      with (map patchr (pr_rules p)). rewrite Hrun. unfold add_fallback. fold ob. rewrite Hid. reflexivity. }
  split.
  { unfold build_userspace. cbn [append_rule b_rules b_tries]. rewrite map_app. cbn [map]. rewrite last_last. reflexivity. }
  intros Hd. unfold match_sets. cbn [mt_sets mt_tries]. fold (bm_of dm pk). cbn [args_of_packet a_domain]. fold bm.
  set (F := append_rule b' fbm) in *.
  assert (HF : ext b' F) by apply append_rule_ext.
  destruct (Hs F HF Hd) as [Hfine Hdec].
  set (n := N.of_nat (List.length seg)).
  set (fr := RuleScan.Rl [RuleScan.C false [(n, fbm)]] (RuleScan.ROut (id, po_mark ob) (po_must ob)) : RuleScan.rule atom R).
  assert (Harr : abs_arr 0 (b_rules b' ++ [fbm]) = RuleScan.lower atom R (ars ++ [fr])).
  { rewrite Hr, abs_arr_app, Hl. unfold RuleScan.lower. rewrite flat_map_app. f_equal.
    cbn. unfold abs_atom, tgt_of, tgt_of_id. cbn [snd fbm base_mset m_not m_out m_mark m_must]. try rewrite N.add_0_l. fold n.
    replace (id =? OutboundLogicalOr) with false by (symmetry; apply N.eqb_neq; unfold OutboundLogicalOr; lia).
    replace (id =? OutboundLogicalAnd) with false by (symmetry; apply N.eqb_neq; unfold OutboundLogicalAnd; lia).
    replace (id =? OutboundMustRules) with false by (symmetry; apply N.eqb_neq; unfold OutboundMustRules; lia).
    reflexivity. }
  assert (Hfall : eval_mset (b_tries b') (args_of_packet pk) bm n fbm = Ok true) by reflexivity.
  destruct (b_rules b' ++ [fbm]) as [|m0 ms0] eqn:Earr.
  { apply app_eq_nil in Earr. destruct Earr; discriminate. }
  rewrite <- Earr in *. clear Earr m0 ms0.
  rewrite (match_loop_scan (b_tries b') (args_of_packet pk) bm).
  2:{ intros k m Hk. rewrite N.add_0_l. rewrite Hr in Hk.
      destruct (Nat.ltb k (List.length seg)) eqn:E.
      - apply Nat.ltb_lt in E. rewrite nth_error_app1 in Hk by exact E. split.
        + rewrite Forall_forall in Ho. apply Ho. eapply nth_error_In; eauto.
        + rewrite Forall_forall in Hfine.
          pose proof (tag_in seg 0 k m Hk) as Hin.
          rewrite N.add_0_l in Hin. destruct (Hfine _ Hin) as [g Hg']. cbn [fst snd] in Hg'. exists g. exact Hg'.
      - apply Nat.ltb_ge in E. rewrite nth_error_app2 in Hk by exact E.
        destruct (k - List.length seg)%nat as [|k'] eqn:Ek; cbn in Hk; [|destruct k'; discriminate].
        inversion Hk; subst m. split; [cbn; lia|].
        replace (N.of_nat k) with n by (unfold n; lia). exists true. exact Hfall. }
  rewrite Harr.
  rewrite (RuleScan.scan_lower atom R (semx pk bm F)).
  - rewrite Hdec. unfold fr. cbn [RuleScan.decide]. unfold RuleScan.rule_holds, RuleScan.cond_holds. cbn [RuleScan.rconds RuleScan.rt forallb RuleScan.cneg RuleScan.catoms existsb].
    unfold semx at 1. cbn [fst snd]. change (b_tries F) with (b_tries b'). rewrite Hfall. cbn [unres orb xorb andb].
    rewrite Hgid, Hmk, Hmu.
    match goal with |- res_of ?x = _ =>
      assert (Hx : x = Some (let '(o, mk, mu) := decide_rules gs (pr_rules p) (pr_fallback p) pk false in ((o, mk), mu)))
        by apply drk_spec; rewrite Hx end.
    unfold decide. fold gs.
    destruct (decide_rules gs (pr_rules p) (pr_fallback p) pk false) as [[o mk] mu]. reflexivity.
  - apply Forall_app. split; [exact Hwf|]. constructor; [|constructor]. split; [discriminate|].
    constructor; [|constructor]. discriminate.
  - intros k m Hk. rewrite <- Harr in Hk. unfold abs_arr in Hk. rewrite nth_error_map in Hk.
    destruct (nth_error (tag 0 (b_rules b' ++ [fbm])) k) as [x|] eqn:Ex; [|discriminate]. cbn in Hk. inversion Hk; subst m.
    cbn [RuleScan.ma abs_atom]. destruct (tag_nth _ _ _ _ Ex) as [Hfst _]. unfold evx, semx. rewrite Hfst. reflexivity.
Qed.

Definition domain_oracle_agrees (p : program) (dm : string -> list N) (pk : packet) : Prop :=
  forall b, lower_program p = Ok b -> dom_agree pk (bm_of dm pk) b.

Lemma C01_scan_lower_proof (p : program) (pk : packet) (dm : string -> list N) :
  wf_program p = true -> domain_oracle_agrees p dm pk -> model_route p dm pk = Ok (decide p pk).
Proof.
  intros Hwf Hd. destruct (C01_refinement_core p pk dm Hwf) as [b [mt [Hl [Hb Hm]]]].
  unfold model_route. rewrite Hl, Hb. apply Hm. now apply Hd.
Qed.

Lemma C01_lower_total_proof (p : program) :
  wf_program p = true -> exists b mt, lower_program p = Ok b /\ build_userspace b = Ok mt.
Proof.
  intros Hwf.
  destruct (C01_refinement_core p (Build_packet 0 0 0 0 TCP V4 "" [] [] 0 0) (fun _ => []) Hwf) as [b [mt [Hl [Hb _]]]].
  now exists b, mt.
Qed.

Lemma C01_glue_proof (mt : matcher) (dm : string -> list N) (pk : packet) (is4 : bool) :
  (is4 = true -> N.shiftr (p_dst pk) 32 = 0xffff) ->
  p_ipver pk = (if N.shiftr (p_dst pk) 32 =? 0xffff then V4 else V6) ->
  route_glue mt dm {| ri_src := p_src pk; ri_dst_is4 := is4; ri_dst := p_dst pk; ri_sport := p_sport pk; ri_dport := p_dport pk;
                      ri_l4 := a_l4 (args_of_packet pk); ri_domain := p_domain pk; ri_mac := p_mac pk;
                      ri_pname := p_pname pk; ri_dscp := p_dscp pk |}
  = match_sets mt dm (args_of_packet pk).
Proof.
  intros H4 Hv. unfold route_glue. cbn [ri_src ri_dst_is4 ri_dst ri_sport ri_dport ri_l4 ri_domain ri_mac ri_pname ri_dscp].
  f_equal. unfold args_of_packet. rewrite Hv. f_equal.
  destruct is4; cbn [orb].
  - rewrite (H4 eq_refl). reflexivity.
  - destruct (N.shiftr (p_dst pk) 32 =? 0xffff); reflexivity.
Qed.

Lemma C01_must_patch_exact_proof :
  (forall n : string, patch_name (String.append "must_" n) = (n, true)) /\
  (forall s : string, prefix "must_" s = false -> patch_name s = (s, false)) /\
  patch_has_prefix_arg = "must_"%string /\
  (forall n : string, apply_strip patch_fallback_strip_op patch_fallback_strip_arg (String.append "must_" n) = n).
Proof.
  split; [|split; [|split]].
  - intros n. unfold patch_name, patch_name_with, apply_strip, patch_rule_strip_op, patch_rule_strip_arg. cbn. destruct n; reflexivity.
  - intros s H. unfold patch_name, patch_name_with. now rewrite H.
  - reflexivity.
  - intros n. unfold apply_strip, patch_fallback_strip_op, patch_fallback_strip_arg. cbn. destruct n; reflexivity.
Qed.

(* what strings.TrimLeft(name, "must_") would do instead: group us_proxy becomes proxy, steam becomes eam *)
Lemma C01_must_patch_trimleft_refuted_proof :
  (exists n : string, patch_name_with StripTrimLeft "must_" (String.append "must_" n) <> (n, true)) /\
  patch_name_with StripTrimLeft "must_" "must_us_proxy" = ("proxy"%string, true) /\
  patch_name_with StripTrimLeft "must_" "must_steam" = ("eam"%string, true).
Proof.
  split; [|split; reflexivity]. exists "us_proxy"%string. vm_compute. intro H. discriminate H.
Qed.

Lemma C01_negated_mac_zero_proof (c : cond) (pk : packet) :
  c_kind c = FMac -> c_neg c = true -> p_mac pk = 0 -> cond_holds c pk = false.
Proof. intros Hk Hn Hm. unfold cond_holds. rewrite Hk, Hn, Hm. cbn. now rewrite andb_false_r. Qed.

Lemma C01_pname_needs_name_proof (v : value) (pk : packet) :
  nth 0 (p_pname pk) 0 = 0 -> value_holds FPname v pk = false.
Proof. intros H. destruct v; try reflexivity. cbn. unfold name_holds. now rewrite H. Qed.

Lemma C01_port_bounds_proof (lo hi : N) (pk : packet) :
  value_holds FPort (VRange lo hi) pk = true <-> lo <= p_dport pk <= hi.
Proof. cbn. lia. Qed.

Lemma C01_must_sticky_proof (gs : list (string * N)) (fb : outbound) (pk : packet) :
  forall rs, snd (decide_rules gs rs fb pk true) = true.
Proof.
  induction rs as [|r rs IH]; cbn [decide_rules].
  - cbn. now rewrite orb_true_r.
  - destruct (rule_holds r pk); [|exact IH]. destruct (is_must_rules (r_out r)); [exact IH|]. cbn. now rewrite orb_true_r.
Qed.

(* non-vacuity: a program with all ten functions, negation, must_rules, a must_ prefix and a mark is well formed and is
   decided at three different places by three packets *)
Definition ex_program : program :=
  {| pr_rules :=
       [ {| r_conds := [ {| c_kind := FL4; c_neg := false; c_params := [(0, VProto UDP)] |};
                         {| c_kind := FPort; c_neg := false; c_params := [(0, VRange 53 53)] |} ];
            r_out := {| o_name := "must_rules"; o_params := [] |} |};
         {| r_conds := [ {| c_kind := FDomain; c_neg := false; c_params := [(2, VDomain DSuffix "example.com"); (1, VDomain DFull "a.b")] |};
                         {| c_kind := FMac; c_neg := true; c_params := [(0, VMac 0x0242ac110002)] |};
                         {| c_kind := FIpver; c_neg := false; c_params := [(0, VVer V4); (0, VVer V6)] |} ];
            r_out := {| o_name := "must_proxy"; o_params := [OMark 16] |} |};
         {| r_conds := [ {| c_kind := FIp; c_neg := false; c_params := [(0, VCidr true 0xffff0a000000 8)] |};
                         {| c_kind := FSip; c_neg := true; c_params := [(0, VCidr false 0x20010db8000000000000000000000000 32)] |};
                         {| c_kind := FSport; c_neg := false; c_params := [(0, VRange 1024 65535)] |};
                         {| c_kind := FPname; c_neg := false; c_params := [(0, VName [99; 117; 114; 108])] |};
                         {| c_kind := FDscp; c_neg := false; c_params := [(0, VDscp 4); (0, VDscp 8)] |} ];
            r_out := {| o_name := "block"; o_params := [] |} |} ];
     pr_fallback := {| o_name := "direct"; o_params := [] |};
     pr_groups := [("direct"%string, 0); ("block"%string, 1); ("proxy"%string, 2)] |}.

Definition ex_pk (dport : N) (dom : string) (mac : N) (dst : N) (pn : list N) (dscp : N) : packet :=
  {| p_src := 0xffffc0a80101; p_dst := dst; p_sport := 2000; p_dport := dport; p_l4 := UDP; p_ipver := V4;
     p_domain := dom; p_regex_hits := []; p_pname := pn; p_mac := mac; p_dscp := dscp |}.

Lemma C01_nonvacuous_proof :
  wf_program ex_program = true /\
  decide ex_program (ex_pk 53 "WWW.Example.COM." 1 0xffff01020304 (repeat 0 16) 0) = (2, 16, true) /\
  decide ex_program (ex_pk 53 "www.example.com" 0 0xffff0a010203 ([99; 117; 114; 108] ++ repeat 0 12) 8) = (1, 0, true) /\
  decide ex_program (ex_pk 80 "" 0 0xffff01020304 (repeat 0 16) 0) = (0, 0, false) /\
  (exists b, lower_program ex_program = Ok b /\ List.length (b_rules b) = 13%nat).
Proof. repeat split; try (vm_compute; reflexivity). eexists. split; vm_compute; reflexivity. Qed.
