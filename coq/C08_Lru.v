(* C08 — the heap selection of evictLRUIfFull picks the k least recently used entries (lemmas). *)
From Coq Require Import List ZArith NArith Bool Lia ZifyBool Arith Permutation.
From Dae Require Import C08_Spec C08_Model.
Import ListNotations.
Open Scope nat_scope.

Lemma length_set_nth : forall l i x, length (set_nth l i x) = length l.
Proof. induction l; destruct i; cbn; intros; auto. Qed.

Lemma nth_set_nth : forall l i x k d,
    nth k (set_nth l i x) d = if (k =? i) && (i <? length l) then x else nth k l d.
Proof.
  induction l as [|h t IH]; intros i x k d.
  - cbn. destruct i, k; cbn; try reflexivity; rewrite ?andb_false_r; reflexivity.
  - destruct i, k; cbn [set_nth nth length]; try reflexivity.
    rewrite IH. change (S k =? S i) with (k =? i). change (S i <? S (length t)) with (i <? length t). reflexivity.
Qed.

Lemma length_swap : forall l i j, length (swap l i j) = length l.
Proof. intros. unfold swap. rewrite !length_set_nth. reflexivity. Qed.

Lemma nth_swap : forall l i j k d, i < length l -> j < length l ->
    nth k (swap l i j) d = if k =? j then nth i l d else if k =? i then nth j l d else nth k l d.
Proof.
  intros l i j k d Hi Hj. unfold swap. rewrite !nth_set_nth, length_set_nth.
  apply Nat.ltb_lt in Hi. apply Nat.ltb_lt in Hj. rewrite Hi, Hj, !andb_true_r.
  destruct (k =? j) eqn:Ej; [apply nth_indep; apply Nat.ltb_lt; assumption|].
  destruct (k =? i) eqn:Ei; [apply nth_indep; apply Nat.ltb_lt; assumption | reflexivity].
Qed.

Lemma la_swap : forall l i j k, i < length l -> j < length l ->
    la (swap l i j) k = if k =? j then la l i else if k =? i then la l j else la l k.
Proof.
  intros. unfold la. rewrite (nth_swap l i j k cdefault) by assumption.
  destruct (k =? j); [reflexivity|]. destruct (k =? i); reflexivity.
Qed.

Lemma swap_perm : forall l i j, i < length l -> j < length l -> Permutation l (swap l i j).
Proof.
  intros l i j Hi Hj. apply (Permutation_nth l (swap l i j) cdefault). split; [rewrite length_swap; reflexivity|].
  exists (fun k => if k =? j then i else if k =? i then j else k). repeat split.
  - intros k Hk. destruct (k =? j); [assumption|]. destruct (k =? i); assumption.
  - intros a b Ha Hb.
    destruct (a =? j) eqn:A1; destruct (b =? j) eqn:B1; destruct (a =? i) eqn:A2; destruct (b =? i) eqn:B2;
      rewrite ?Nat.eqb_eq, ?Nat.eqb_neq in *; lia.
  - intros k Hk. rewrite nth_swap by assumption. destruct (k =? j); [reflexivity|]. destruct (k =? i); reflexivity.
Qed.

(* ------------------------------------------------------------------ heap property *)
Open Scope Z_scope.
Definition hp (l : list cent) (n i : nat) : Prop :=
  ((2 * i + 1 < n)%nat -> la l i <= la l (2 * i + 1)) /\ ((2 * i + 2 < n)%nat -> la l i <= la l (2 * i + 2)).

(* every node of [lo, n) except p satisfies hp; and the parent of p (if in range) is below p's children *)
Definition heap_ex (l : list cent) (n lo p : nat) : Prop :=
  (forall j, (lo <= j < n)%nat -> j <> p -> hp l n j)
  /\ (forall q c, (lo <= q)%nat -> (p = 2 * q + 1 \/ p = 2 * q + 2)%nat -> (c = 2 * p + 1 \/ c = 2 * p + 2)%nat -> (c < n)%nat ->
                  la l q <= la l c).

(* positions of [lo, n) are permuted among themselves, everything else is untouched *)
Definition within (l l' : list cent) (lo n : nat) : Prop :=
  length l' = length l /\ Permutation l l'
  /\ (forall j, (j < lo \/ n <= j)%nat -> nth j l' cdefault = nth j l cdefault)
  /\ (forall a, (lo <= a < n)%nat -> exists a', (lo <= a' < n)%nat /\ nth a l' cdefault = nth a' l cdefault).

Lemma within_refl : forall l lo n, within l l lo n.
Proof. intros. repeat split; auto. intros a Ha. exists a. auto. Qed.

Lemma within_trans : forall l1 l2 l3 lo n, within l1 l2 lo n -> within l2 l3 lo n -> within l1 l3 lo n.
Proof.
  intros l1 l2 l3 lo n (A1 & A2 & A3 & A4) (B1 & B2 & B3 & B4). repeat split.
  - congruence.
  - eapply Permutation_trans; eassumption.
  - intros j Hj. rewrite B3, A3; auto.
  - intros a Ha. destruct (B4 a Ha) as [a' [Ha' E]]. destruct (A4 a' Ha') as [a'' [Ha'' E']]. exists a''. split; [assumption|congruence].
Qed.

Lemma within_swap : forall l lo n i j, (n <= length l)%nat -> (lo <= i < n)%nat -> (lo <= j < n)%nat -> within l (swap l i j) lo n.
Proof.
  intros l lo n i j Hn Hi Hj. repeat split.
  - apply length_swap.
  - apply swap_perm; lia.
  - intros k Hk. rewrite nth_swap by lia.
    destruct (k =? j)%nat eqn:E1; [apply Nat.eqb_eq in E1; lia|]. destruct (k =? i)%nat eqn:E2; [apply Nat.eqb_eq in E2; lia|]. reflexivity.
  - intros a Ha. rewrite nth_swap by lia.
    destruct (a =? j)%nat; [exists i; auto|]. destruct (a =? i)%nat; [exists j; auto|]. exists a; auto.
Qed.

Lemma sift : forall fuel l p n lo,
    (n <= length l)%nat -> (lo <= p)%nat -> (n <= p + fuel)%nat -> heap_ex l n lo p ->
    let l' := heapify_min fuel l p n in
    (forall j, (lo <= j < n)%nat -> hp l' n j) /\ within l l' lo n.
Proof.
  induction fuel as [|f IH]; intros l p n lo Hn Hlo Hfuel [Hex Hgr]; cbn [heapify_min].
  - cbv zeta. split; [|apply within_refl]. intros j Hj. destruct (Nat.eq_dec j p) as [->|Hne]; [|apply Hex; assumption].
    unfold hp. split; intros; lia.
  - cbv zeta.
    set (left := (2 * p + 1)%nat). set (right := (2 * p + 2)%nat).
    set (s1 := if Nat.ltb left n && (la l left <? la l p) then left else p).
    set (s2 := if Nat.ltb right n && (la l right <? la l s1) then right else s1).
    (* facts about the chosen index *)
    assert (Hs1 : (s1 = p /\ ((left < n)%nat -> la l p <= la l left)) \/ (s1 = left /\ (left < n)%nat /\ la l left < la l p)).
    { unfold s1. destruct (Nat.ltb left n) eqn:E1; cbn [andb]; [destruct (la l left <? la l p) eqn:E2|]; [right | left | left];
        rewrite ?Nat.ltb_lt, ?Nat.ltb_ge in E1; repeat split; try reflexivity; intros; try lia. }
    assert (Hs2 : (s2 = s1 /\ ((right < n)%nat -> la l s1 <= la l right)) \/ (s2 = right /\ (right < n)%nat /\ la l right < la l s1)).
    { unfold s2. destruct (Nat.ltb right n) eqn:E1; cbn [andb]; [destruct (la l right <? la l s1) eqn:E2|]; [right | left | left];
        rewrite ?Nat.ltb_lt, ?Nat.ltb_ge in E1; repeat split; try reflexivity; intros; try lia. }
    destruct (Nat.eqb s2 p) eqn:Eq.
    + (* p is already the smallest *)
      apply Nat.eqb_eq in Eq. split; [|apply within_refl].
      intros j Hj. destruct (Nat.eq_dec j p) as [->|Hne]; [|apply Hex; assumption].
      unfold hp. fold left. fold right. unfold left, right in *.
      destruct Hs1 as [[E1 H1]|[E1 [H1 H1']]]; destruct Hs2 as [[E2 H2]|[E2 [H2 H2']]]; try lia.
      split; intros; [apply H1; lia | rewrite E1 in H2; apply H2; lia].
    + apply Nat.eqb_neq in Eq.
      assert (Hc : (s2 = left \/ s2 = right) /\ (s2 < n)%nat /\ la l s2 < la l p
                   /\ ((left < n)%nat -> la l s2 <= la l left) /\ ((right < n)%nat -> la l s2 <= la l right)).
      { unfold left, right in *. destruct Hs1 as [[E1 H1]|[E1 [H1 H1']]]; destruct Hs2 as [[E2 H2]|[E2 [H2 H2']]]; subst s1 s2; rewrite ?E1, ?E2 in *; try lia; repeat split; intros; try lia. }
      destruct Hc as (Hwhich & Hcn & Hlt & Hle1 & Hle2).
      assert (Hpn : (p < n)%nat) by (unfold left, right in *; lia).
      assert (Hw : within l (swap l p s2) lo n) by (apply within_swap; unfold left, right in *; lia).
      assert (Hex' : heap_ex (swap l p s2) n lo s2).
      { split.
        - intros j Hj Hne. unfold hp. rewrite !la_swap by lia.
          destruct (Nat.eq_dec j p) as [->|Hjp].
          + (* j = p: now holds the smaller child *)
            rewrite Nat.eqb_refl. destruct (p =? s2)%nat eqn:E0; [apply Nat.eqb_eq in E0; lia|].
            fold left. fold right. unfold left, right in *.
            split; intros Hlt'.
            * destruct (2 * p + 1 =? s2)%nat eqn:E1; [lia|]. destruct (2 * p + 1 =? p)%nat eqn:E2; [apply Nat.eqb_eq in E2; lia|]. apply Hle1. lia.
            * destruct (2 * p + 2 =? s2)%nat eqn:E1; [lia|]. destruct (2 * p + 2 =? p)%nat eqn:E2; [apply Nat.eqb_eq in E2; lia|]. apply Hle2. lia.
          + destruct (j =? s2)%nat eqn:E0; [apply Nat.eqb_eq in E0; lia|].
            destruct (j =? p)%nat eqn:E0'; [apply Nat.eqb_eq in E0'; lia|].
            destruct (Hex j Hj Hjp) as [Hh1 Hh2].
            split; intros Hlt'.
            * destruct (2 * j + 1 =? s2)%nat eqn:E1; [apply Nat.eqb_eq in E1; unfold left, right in *; lia|].
              destruct (2 * j + 1 =? p)%nat eqn:E2; [|apply Hh1; assumption].
              apply Nat.eqb_eq in E2. apply (Hgr j s2); unfold left, right in *; lia.
            * destruct (2 * j + 2 =? s2)%nat eqn:E1; [apply Nat.eqb_eq in E1; unfold left, right in *; lia|].
              destruct (2 * j + 2 =? p)%nat eqn:E2; [|apply Hh2; assumption].
              apply Nat.eqb_eq in E2. apply (Hgr j s2); unfold left, right in *; lia.
        - intros q c Hq Hpar Hch Hcn'. assert (q = p) by (unfold left, right in *; lia). subst q.
          rewrite !la_swap by lia. rewrite Nat.eqb_refl.
          destruct (p =? s2)%nat eqn:E0; [apply Nat.eqb_eq in E0; lia|].
          destruct (c =? s2)%nat eqn:E1; [apply Nat.eqb_eq in E1; lia|].
          destruct (c =? p)%nat eqn:E2; [apply Nat.eqb_eq in E2; unfold left, right in *; lia|].
          assert (Hs2lo : (lo <= s2 < n)%nat) by (unfold left, right in *; lia).
          assert (Hs2p : s2 <> p) by lia.
          destruct (Hex s2 Hs2lo Hs2p) as [Hh1 Hh2]. destruct Hch as [->| ->]; [apply Hh1 | apply Hh2]; lia. }
      assert (Hlen : (n <= length (swap l p s2))%nat) by (rewrite length_swap; assumption).
      assert (Hlo' : (lo <= s2)%nat) by (unfold left, right in *; lia).
      assert (Hfu : (n <= s2 + f)%nat) by (unfold left, right in *; lia).
      destruct (IH (swap l p s2) s2 n lo Hlen Hlo' Hfu Hex') as [G1 G2].
      split; [exact G1 | eapply within_trans; eassumption].
Qed.

Lemma within_weaken : forall l l' lo lo' n, within l l' lo n -> (lo' <= lo)%nat -> within l l' lo' n.
Proof.
  intros l l' lo lo' n (A1 & A2 & A3 & A4) Hle. repeat split; try assumption.
  - intros j Hj. apply A3. lia.
  - intros a Ha. destruct (le_lt_dec lo a) as [H|H].
    + destruct (A4 a) as [a' [Ha' E]]; [lia|]. exists a'. split; [lia|assumption].
    + exists a. split; [lia|]. apply A3. lia.
Qed.

Lemma build_from_heap : forall k l n,
    (n <= length l)%nat -> (forall j, (k <= j < n)%nat -> hp l n j) ->
    (forall j, (j < n)%nat -> hp (build_from k l n) n j) /\ within l (build_from k l n) 0 n.
Proof.
  induction k as [|k IH]; intros l n Hn Hh; cbn [build_from].
  - split; [intros j Hj; apply Hh; lia | apply within_refl].
  - assert (Hex : heap_ex l n k k).
    { split; [intros j Hj Hne; apply Hh; lia | intros q c Hq Hpar; lia]. }
    destruct (sift n l k n k Hn (le_n k) ltac:(lia) Hex) as [G1 G2].
    destruct G2 as (L1 & L2 & L3 & L4).
    destruct (IH (heapify_min n l k n) n ltac:(lia) G1) as [H1 H2].
    split; [exact H1|]. eapply within_trans; [|exact H2].
    apply (within_weaken l _ k 0 n); [repeat split; assumption | lia].
Qed.

Lemma build_min_heap_ok : forall l,
    (forall j, (j < length l)%nat -> hp (build_min_heap l) (length l) j) /\ within l (build_min_heap l) 0 (length l).
Proof.
  intros l. unfold build_min_heap. apply build_from_heap; [lia|].
  intros j Hj. pose proof (Nat.div_mod (length l) 2 ltac:(lia)). pose proof (Nat.mod_upper_bound (length l) 2 ltac:(lia)).
  unfold hp. split; intros; lia.
Qed.

Lemma child_cases : forall j, (0 < j)%nat -> exists q, (j = 2 * q + 1 \/ j = 2 * q + 2)%nat.
Proof.
  induction j as [|j IH]; intros H; [lia|]. destruct j as [|j']; [exists 0%nat; lia|].
  destruct (IH ltac:(lia)) as [q [E|E]]; [exists q; lia | exists (S q); lia].
Qed.

Lemma root_min : forall l m, (forall j, (j < m)%nat -> hp l m j) -> forall j, (j < m)%nat -> la l 0 <= la l j.
Proof.
  intros l m Hh j. induction j as [j IH] using lt_wf_ind. intros Hj.
  destruct j as [|j']; [lia|]. destruct (child_cases (S j') ltac:(lia)) as [q [E|E]].
  - assert (Hq : (q < S j')%nat) by lia. specialize (IH q Hq ltac:(lia)).
    destruct (Hh q ltac:(lia)) as [H1 _]. rewrite E. specialize (H1 ltac:(lia)). lia.
  - assert (Hq : (q < S j')%nat) by lia. specialize (IH q Hq ltac:(lia)).
    destruct (Hh q ltac:(lia)) as [_ H2]. rewrite E. specialize (H2 ltac:(lia)). lia.
Qed.

Definition ext_inv (l0 l : list cent) (m : nat) : Prop :=
  length l = length l0 /\ Permutation l0 l /\ (forall j, (j < m)%nat -> hp l m j)
  /\ (forall a b, (a < m)%nat -> (m <= b < length l)%nat -> la l b <= la l a).

Lemma la_nth_eq : forall l l' a b, nth a l' cdefault = nth b l cdefault -> la l' a = la l b.
Proof. intros. unfold la. rewrite H. reflexivity. Qed.

Lemma extract_inv : forall k i l0 l,
    (i + k <= length l)%nat -> (k = 0 \/ i + k < length l + 0 \/ True)%nat ->
    ext_inv l0 l (length l - i) -> (i + k < length l \/ k = 0)%nat ->
    ext_inv l0 (extract k i l) (length l - i - k).
Proof.
  induction k as [|k IH]; intros i l0 l Hik _ Hinv Hlt; cbn [extract].
  - replace (length l - i - 0)%nat with (length l - i)%nat by lia. assumption.
  - destruct Hinv as (I1 & I2 & I3 & I4).
    set (m := (length l - i)%nat) in *.
    assert (Hm : (2 <= m)%nat) by (unfold m; lia).
    replace (length l - 1 - i)%nat with (m - 1)%nat by (unfold m; lia).
    set (l1 := swap l 0 (m - 1)).
    assert (Hl1 : length l1 = length l) by apply length_swap.
    assert (Hex : heap_ex l1 (m - 1) 0 0).
    { split; [|intros q c Hq Hpar; lia].
      intros j Hj Hne. destruct (I3 j ltac:(lia)) as [H1 H2]. unfold hp, l1.
      rewrite !la_swap by (unfold m in *; lia).
      assert (E1 : (j =? m - 1)%nat = false) by (apply Nat.eqb_neq; lia).
      assert (E2 : (j =? 0)%nat = false) by (apply Nat.eqb_neq; lia). rewrite E1, E2.
      split; intros Hc.
      - assert (E3 : (2 * j + 1 =? m - 1)%nat = false) by (apply Nat.eqb_neq; lia).
        assert (E4 : (2 * j + 1 =? 0)%nat = false) by (apply Nat.eqb_neq; lia). rewrite E3, E4. apply H1. lia.
      - assert (E3 : (2 * j + 2 =? m - 1)%nat = false) by (apply Nat.eqb_neq; lia).
        assert (E4 : (2 * j + 2 =? 0)%nat = false) by (apply Nat.eqb_neq; lia). rewrite E3, E4. apply H2. lia. }
    destruct (sift (length l) l1 0 (m - 1) 0 ltac:(unfold m in *; lia) (le_n 0) ltac:(unfold m in *; lia) Hex) as [G1 G2].
    set (l2 := heapify_min (length l) l1 0 (m - 1)) in *.
    destruct G2 as (L1 & L2 & L3 & L4).
    assert (Hl2 : length l2 = length l) by congruence.
    assert (Hnew : ext_inv l0 l2 (length l2 - S i)).
    { replace (length l2 - S i)%nat with (m - 1)%nat by (unfold m; lia).
      split; [congruence|]. split; [eapply Permutation_trans; [exact I2|]; eapply Permutation_trans; [|exact L2]; apply swap_perm; unfold m in *; lia|].
      split; [intros j Hj; apply G1; lia|].
      intros a b Ha Hb.
      destruct (L4 a ltac:(lia)) as [a' [Ha' Ea]].
      rewrite (la_nth_eq l1 l2 a a' Ea). rewrite (la_nth_eq l1 l2 b b (L3 b ltac:(lia))).
      unfold l1. rewrite !la_swap by (unfold m in *; lia).
      pose proof (root_min l m I3) as RM.
      destruct (b =? m - 1)%nat eqn:Eb.
      - destruct (a' =? m - 1)%nat eqn:E1; [apply Nat.eqb_eq in E1; lia|].
        destruct (a' =? 0)%nat; apply RM; lia.
      - apply Nat.eqb_neq in Eb. destruct (b =? 0)%nat eqn:Eb0; [apply Nat.eqb_eq in Eb0; lia|].
        destruct (a' =? m - 1)%nat eqn:E1; [apply Nat.eqb_eq in E1; lia|].
        destruct (a' =? 0)%nat; apply I4; unfold m in *; lia. }
    specialize (IH (S i) l0 l2 ltac:(lia) (or_intror (or_intror I)) Hnew ltac:(lia)).
    replace (m - S k)%nat with (length l2 - S i - k)%nat by (unfold m; lia). exact IH.
Qed.

Lemma select_oldest_proof : forall entries k,
    (k < length entries)%nat ->
    let h := extract k 0 (build_min_heap entries) in
    let m := (length entries - k)%nat in
    select_oldest entries k = skipn m h
    /\ Permutation entries h /\ length h = length entries
    /\ (forall a b, (a < m)%nat -> (m <= b < length entries)%nat -> la h b <= la h a).
Proof.
  intros entries k Hk h m.
  destruct (build_min_heap_ok entries) as [B1 (B2 & B3 & _ & _)].
  assert (Hinv0 : ext_inv entries (build_min_heap entries) (length (build_min_heap entries) - 0)).
  { rewrite B2, Nat.sub_0_r. split; [exact B2|]. split; [exact B3|]. split; [exact B1|]. intros a b Ha Hb. rewrite B2 in Hb. lia. }
  assert (Ha1 : (0 + k <= length (build_min_heap entries))%nat) by (rewrite B2; lia).
  assert (Ha2 : (0 + k < length (build_min_heap entries) \/ k = 0)%nat) by (rewrite B2; lia).
  destruct (extract_inv k 0 entries (build_min_heap entries) Ha1 (or_intror (or_intror I)) Hinv0 Ha2) as (E1 & E2 & E3 & E4).
  fold h in E1, E2, E3, E4. rewrite B2, Nat.sub_0_r in E3, E4. fold m in E3, E4.
  repeat split; try assumption.
  - unfold select_oldest. apply Nat.ltb_lt in Hk. rewrite Hk. reflexivity.
  - intros a b Ha Hb. apply E4; [assumption|]. rewrite E1. assumption.
Qed.
