(* C08 — the heap selection of evictLRUIfFull picks the k least recently used entries (lemmas). *)
From Coq Require Import List ZArith NArith Bool Lia ZifyBool Arith Permutation.
From Dae Require Import C08_Spec C08_Model.
Import ListNotations.
Open Scope nat_scope.

Lemma length_set_nth : forall l i x, length (set_nth l i x) = length l.
Proof. induction l; destruct i; cbn; intros; auto. Qed.

Lemma nth_set_nth : forall l i x k d,
    nth k (set_nth l i x) d = if (k =? i) && (i <? length l) then x else nth k l d.
Proof.
  induction l as [|h t IH]; intros i x k d.
  - cbn. destruct i, k; cbn; try reflexivity; rewrite ?andb_false_r; reflexivity.
  - destruct i, k; cbn [set_nth nth length]; try reflexivity.
    rewrite IH. change (S k =? S i) with (k =? i). change (S i <? S (length t)) with (i <? length t). reflexivity.
Qed.

Lemma length_swap : forall l i j, length (swap l i j) = length l.
Proof. intros. unfold swap. rewrite !length_set_nth. reflexivity. Qed.

Lemma nth_swap : forall l i j k d, i < length l -> j < length l ->
    nth k (swap l i j) d = if k =? j then nth i l d else if k =? i then nth j l d else nth k l d.
Proof.
  intros l i j k d Hi Hj. unfold swap. rewrite !nth_set_nth, length_set_nth.
  apply Nat.ltb_lt in Hi. apply Nat.ltb_lt in Hj. rewrite Hi, Hj, !andb_true_r.
  destruct (k =? j) eqn:Ej; [apply nth_indep; apply Nat.ltb_lt; assumption|].
  destruct (k =? i) eqn:Ei; [apply nth_indep; apply Nat.ltb_lt; assumption | reflexivity].
Qed.

Lemma la_swap : forall l i j k, i < length l -> j < length l ->
    la (swap l i j) k = if k =? j then la l i else if k =? i then la l j else la l k.
Proof.
  intros. unfold la. rewrite (nth_swap l i j k cdefault) by assumption.
  destruct (k =? j); [reflexivity|]. destruct (k =? i); reflexivity.
Qed.

Lemma swap_perm : forall l i j, i < length l -> j < length l -> Permutation l (swap l i j).
Proof.
  intros l i j Hi Hj. apply (Permutation_nth l (swap l i j) cdefault). split; [rewrite length_swap; reflexivity|].
  exists (fun k => if k =? j then i else if k =? i then j else k). repeat split.
  - intros k Hk. destruct (k =? j); [assumption|]. destruct (k =? i); assumption.
  - intros a b Ha Hb.
    destruct (a =? j) eqn:A1; destruct (b =? j) eqn:B1; destruct (a =? i) eqn:A2; destruct (b =? i) eqn:B2;
      rewrite ?Nat.eqb_eq, ?Nat.eqb_neq in *; lia.
  - intros k Hk. rewrite nth_swap by assumption. destruct (k =? j); [reflexivity|]. destruct (k =? i); reflexivity.
Qed.

(* ------------------------------------------------------------------ heap property *)
Open Scope Z_scope.
Definition hp (l : list cent) (n i : nat) : Prop :=
  ((2 * i + 1 < n)%nat -> la l i <= la l (2 * i + 1)) /\ ((2 * i + 2 < n)%nat -> la l i <= la l (2 * i + 2)).

(* every node of [lo, n) except p satisfies hp; and the parent of p (if in range) is below p's children *)
Definition heap_ex (l : list cent) (n lo p : nat) : Prop :=
  (forall j, (lo <= j < n)%nat -> j <> p -> hp l n j)
  /\ (forall q c, (lo <= q)%nat -> (p = 2 * q + 1 \/ p = 2 * q + 2)%nat -> (c = 2 * p + 1 \/ c = 2 * p + 2)%nat -> (c < n)%nat ->
                  la l q <= la l c).

(* positions of [lo, n) are permuted among themselves, everything else is untouched *)
Definition within (l l' : list cent) (lo n : nat) : Prop :=
  length l' = length l /\ Permutation l l'
  /\ (forall j, (j < lo \/ n <= j)%nat -> nth j l' cdefault = nth j l cdefault)
  /\ (forall a, (lo <= a < n)%nat -> exists a', (lo <= a' < n)%nat /\ nth a l' cdefault = nth a' l cdefault).

Lemma within_refl : forall l lo n, within l l lo n.
Proof. intros. repeat split; auto. intros a Ha. exists a. auto. Qed.

Lemma within_trans : forall l1 l2 l3 lo n, within l1 l2 lo n -> within l2 l3 lo n -> within l1 l3 lo n.
Proof.
  intros l1 l2 l3 lo n (A1 & A2 & A3 & A4) (B1 & B2 & B3 & B4). repeat split.
  - congruence.
  - eapply Permutation_trans; eassumption.
  - intros j Hj. rewrite B3, A3; auto.
  - intros a Ha. destruct (B4 a Ha) as [a' [Ha' E]]. destruct (A4 a' Ha') as [a'' [Ha'' E']]. exists a''. split; [assumption|congruence].
Qed.

Lemma within_swap : forall l lo n i j, (n <= length l)%nat -> (lo <= i < n)%nat -> (lo <= j < n)%nat -> within l (swap l i j) lo n.
Proof.
  intros l lo n i j Hn Hi Hj. repeat split.
  - apply length_swap.
  - apply swap_perm; lia.
  - intros k Hk. rewrite nth_swap by lia.
    destruct (k =? j)%nat eqn:E1; [apply Nat.eqb_eq in E1; lia|]. destruct (k =? i)%nat eqn:E2; [apply Nat.eqb_eq in E2; lia|]. reflexivity.
  - intros a Ha. rewrite nth_swap by lia.
    destruct (a =? j)%nat; [exists i; auto|]. destruct (a =? i)%nat; [exists j; auto|]. exists a; auto.
Qed.

Lemma sift : forall fuel l p n lo,
    (n <= length l)%nat -> (lo <= p)%nat -> (n <= p + fuel)%nat -> heap_ex l n lo p ->
    let l' := heapify_min fuel l p n in
    (forall j, (lo <= j < n)%nat -> hp l' n j) /\ within l l' lo n.
Proof.
  induction fuel as [|f IH]; intros l p n lo Hn Hlo Hfuel [Hex Hgr]; cbn [heapify_min].
  - split; [|apply within_refl]. intros j Hj. destruct (Nat.eq_dec j p) as [->|Hne]; [|apply Hex; assumption].
    split; intros; lia.
  - cbv zeta.
    set (left := (2 * p + 1)%nat). set (right := (2 * p + 2)%nat).
    set (s1 := if Nat.ltb left n && (la l left <? la l p) then left else p).
    set (s2 := if Nat.ltb right n && (la l right <? la l s1) then right else s1).
    (* facts about the chosen index *)
    assert (Hs1 : (s1 = p /\ ((left < n)%nat -> la l p <= la l left)) \/ (s1 = left /\ (left < n)%nat /\ la l left < la l p)).
    { unfold s1. destruct (Nat.ltb left n) eqn:E1; cbn [andb]; [destruct (la l left <? la l p) eqn:E2|]; [right | left | left];
        rewrite ?Nat.ltb_lt, ?Nat.ltb_ge in E1; repeat split; try reflexivity; intros; try lia. }
    assert (Hs2 : (s2 = s1 /\ ((right < n)%nat -> la l s1 <= la l right)) \/ (s2 = right /\ (right < n)%nat /\ la l right < la l s1)).
    { unfold s2. destruct (Nat.ltb right n) eqn:E1; cbn [andb]; [destruct (la l right <? la l s1) eqn:E2|]; [right | left | left];
        rewrite ?Nat.ltb_lt, ?Nat.ltb_ge in E1; repeat split; try reflexivity; intros; try lia. }
    destruct (Nat.eqb s2 p) eqn:Eq.
    + (* p is already the smallest *)
      apply Nat.eqb_eq in Eq. split; [|apply within_refl].
      intros j Hj. destruct (Nat.eq_dec j p) as [->|Hne]; [|apply Hex; assumption].
      unfold hp. fold left. fold right. unfold left, right in *.
      destruct Hs1 as [[E1 H1]|[E1 [H1 H1']]]; destruct Hs2 as [[E2 H2]|[E2 [H2 H2']]]; try lia.
      split; intros; [apply H1; lia | rewrite E1 in H2; apply H2; lia].
    + apply Nat.eqb_neq in Eq.
      assert (Hc : (s2 = left \/ s2 = right) /\ (s2 < n)%nat /\ la l s2 < la l p
                   /\ ((left < n)%nat -> la l s2 <= la l left) /\ ((right < n)%nat -> la l s2 <= la l right)).
      { unfold left, right in *. destruct Hs1 as [[E1 H1]|[E1 [H1 H1']]]; destruct Hs2 as [[E2 H2]|[E2 [H2 H2']]]; rewrite ?E1, ?E2 in *; try lia.
        - repeat split; try lia; intros; try lia. specialize (H1 H). lia.
        - repeat split; try lia; intros; try lia. specialize (H2 H). lia.
        - repeat split; try lia. }
      destruct Hc as (Hwhich & Hcn & Hlt & Hle1 & Hle2).
      assert (Hpn : (p < n)%nat) by (unfold left, right in *; lia).
      assert (Hw : within l (swap l p s2) lo n) by (apply within_swap; unfold left, right in *; lia).
      assert (Hex' : heap_ex (swap l p s2) n lo s2).
      { split.
        - intros j Hj Hne. unfold hp. rewrite !la_swap by lia.
          destruct (Nat.eq_dec j p) as [->|Hjp].
          + (* j = p: now holds the smaller child *)
            rewrite Nat.eqb_refl. destruct (p =? s2)%nat eqn:E0; [apply Nat.eqb_eq in E0; lia|].
            fold left. fold right. unfold left, right in *.
            split; intros Hlt'.
            * destruct (2 * p + 1 =? s2)%nat eqn:E1; [lia|]. destruct (2 * p + 1 =? p)%nat eqn:E2; [apply Nat.eqb_eq in E2; lia|]. apply Hle1. lia.
            * destruct (2 * p + 2 =? s2)%nat eqn:E1; [lia|]. destruct (2 * p + 2 =? p)%nat eqn:E2; [apply Nat.eqb_eq in E2; lia|]. apply Hle2. lia.
          + destruct (j =? s2)%nat eqn:E0; [apply Nat.eqb_eq in E0; lia|].
            destruct (j =? p)%nat eqn:E0'; [apply Nat.eqb_eq in E0'; lia|].
            destruct (Hex j Hj Hjp) as [Hh1 Hh2].
            split; intros Hlt'.
            * destruct (2 * j + 1 =? s2)%nat eqn:E1; [apply Nat.eqb_eq in E1; unfold left, right in *; lia|].
              destruct (2 * j + 1 =? p)%nat eqn:E2; [|apply Hh1; assumption].
              apply Nat.eqb_eq in E2. apply (Hgr j s2); unfold left, right in *; lia.
            * destruct (2 * j + 2 =? s2)%nat eqn:E1; [apply Nat.eqb_eq in E1; unfold left, right in *; lia|].
              destruct (2 * j + 2 =? p)%nat eqn:E2; [|apply Hh2; assumption].
              apply Nat.eqb_eq in E2. apply (Hgr j s2); unfold left, right in *; lia.
        - intros q c Hq Hpar Hch Hcn'. assert (q = p) by (unfold left, right in *; lia). subst q.
          rewrite !la_swap by lia. rewrite Nat.eqb_refl.
          destruct (p =? s2)%nat eqn:E0; [apply Nat.eqb_eq in E0; lia|].
          destruct (c =? s2)%nat eqn:E1; [apply Nat.eqb_eq in E1; lia|].
          destruct (c =? p)%nat eqn:E2; [apply Nat.eqb_eq in E2; unfold left, right in *; lia|].
          assert (Hs2lo : (lo <= s2 < n)%nat) by (unfold left, right in *; lia).
          assert (Hs2p : s2 <> p) by lia.
          destruct (Hex s2 Hs2lo Hs2p) as [Hh1 Hh2]. destruct Hch as [->| ->]; [apply Hh1 | apply Hh2]; lia. }
      assert (Hlen : (n <= length (swap l p s2))%nat) by (rewrite length_swap; assumption).
      assert (Hlo' : (lo <= s2)%nat) by (unfold left, right in *; lia).
      assert (Hfu : (n <= s2 + f)%nat) by (unfold left, right in *; lia).
      destruct (IH (swap l p s2) s2 n lo Hlen Hlo' Hfu Hex') as [G1 G2].
      split; [exact G1 | eapply within_trans; eassumption].
Qed.
