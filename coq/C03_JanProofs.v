(* C03 — the janitor: selection only of idle entries; histories with sweeps. *)
From Coq Require Import List NArith ZArith Bool Lia.
From Dae Require Import C03_Spec C03_Model C03_Proofs C03_SeqProofs C03_JanSpec C03_JanModel.
From Dae.gen Require Import C03_Consts C03_Janitor.
Import ListNotations.
Open Scope N_scope.

Lemma jan_source_shape_proof :
  JAN_AGE_SIGNED = true /\ JAN_CMP_STRICT = true /\ JAN_CLOSING_STATE = TCP_STATE_CLOSING /\
  JAN_UDP_NS = DOC_UDP_IDLE_NS /\ JAN_UDP_DNS_NS = DOC_UDP_DNS_IDLE_NS /\
  JAN_TCP_EST_NS = DOC_TCP_IDLE_NS /\ JAN_TCP_CLOSING_NS = DOC_TCP_CLOSING_NS /\
  JAN_UDP_NS = UDP_CONN_STATE_TIMEOUT_NS /\ JAN_TCP_EST_NS = TCP_CONN_STATE_ESTABLISHED_TIMEOUT_NS /\
  JAN_TCP_CLOSING_NS = TCP_CONN_STATE_CLOSING_TIMEOUT_NS.
Proof. repeat split; reflexivity. Qed.

Definition TWO63 : N := 0x8000000000000000.

Lemma s64_small : forall z, (- TWO63z <= z < TWO63z)%Z -> s64 z = z.
Proof.
  intros z H. unfold s64, TWO63z, TWO64z in *. rewrite Z.mod_small by lia. lia.
Qed.

Lemma signed_age : forall now last, now < TWO63 -> last < TWO63 ->
  jan_age true now last = (Z.of_N now - Z.of_N last)%Z.
Proof.
  intros now last Hn Hl. unfold jan_age, TWO63 in *.
  assert (Hz : forall n, n < 0x8000000000000000 -> (- TWO63z <= Z.of_N n < TWO63z)%Z) by (intros; unfold TWO63z; lia).
  rewrite (s64_small _ (Hz _ Hn)), (s64_small _ (Hz _ Hl)). apply s64_small. unfold TWO63z. lia.
Qed.

Lemma exceeds_signed : forall now last t, now < TWO63 -> last < TWO63 ->
  jan_exceeds true (jan_age true now last) (Z.of_N t) = (last + t <? now).
Proof.
  intros now last t Hn Hl. rewrite signed_age by assumption. unfold jan_exceeds.
  destruct (last + t <? now) eqn:E.
  - apply N.ltb_lt in E. apply Z.ltb_lt. lia.
  - apply N.ltb_ge in E. apply Z.ltb_ge. lia.
Qed.

(* an ordinary sweep (not the pressure mode, no reload cut-off) selects exactly the entries idle beyond their
   documented timeout at the sample, as integers *)
Lemma jan_selects_iff_idle_proof : forall sample k s,
  sample < TWO63 -> cs_last s < TWO63 ->
  jan_code_selected false 0 sample k s = spec_jan_removes sample k (cs_state s =? TCP_STATE_CLOSING) (cs_last s).
Proof.
  intros sample k s Hn Hl. unfold jan_code_selected, jan_selected, spec_jan_removes, jan_timeout.
  destruct jan_source_shape_proof as (-> & -> & -> & -> & -> & -> & -> & _).
  cbn [N.ltb N.compare andb orb].
  destruct (k_proto k =? IPPROTO_UDP).
  - destruct ((k_sport k =? 53) || (k_dport k =? 53)); rewrite exceeds_signed by assumption; rewrite orb_false_r; reflexivity.
  - destruct (k_proto k =? IPPROTO_TCP); [| reflexivity].
    destruct (cs_state s =? TCP_STATE_CLOSING); rewrite exceeds_signed by assumption; rewrite orb_false_r; reflexivity.
Qed.

Lemma jan_never_selects_refreshed_proof : forall sample k s,
  sample < TWO63 -> cs_last s < TWO63 -> sample <= cs_last s ->
  jan_code_selected false 0 sample k s = false.
Proof.
  intros sample k s Hn Hl Hle. rewrite jan_selects_iff_idle_proof by assumption.
  unfold spec_jan_removes. destruct (jan_timeout k (cs_state s =? TCP_STATE_CLOSING)); [| reflexivity]. apply N.ltb_ge. lia.
Qed.

(* the unsigned reading of the age selects an entry refreshed one nanosecond after the sample *)
Lemma jan_unsigned_refuted_proof :
  ~ (forall sample k s, sample < TWO63 -> cs_last s < TWO63 ->
       jan_selected false true false 0 sample k s = spec_jan_removes sample k (cs_state s =? TCP_STATE_CLOSING) (cs_last s)).
Proof.
  intro H.
  specialize (H 5000000000 (mk_fkey 1 2 40000 443 6) (mk_cs false 0 5000000001 0 7 0 0 1 0 0 0) eq_refl eq_refl).
  vm_compute in H. discriminate H.
Qed.

(* ---------- histories with sweeps ---------- *)
Lemma filter_keeps_get : forall (f : fkey * cstate -> bool) m k s,
  tab_get m k = Some s -> f (k, s) = true -> (forall a b v, fkey_eqb a b = true -> f (a, v) = f (b, v)) ->
  tab_get (filter f m) k = Some s.
Proof.
  intros f m k s Hg Hf Hcong. induction m as [| [a v] r IH]; cbn [tab_get filter] in *; [discriminate|].
  destruct (fkey_eqb a k) eqn:E.
  - inversion Hg. subst v. rewrite (Hcong a k s E), Hf. cbn [tab_get]. rewrite E. reflexivity.
  - destruct (f (a, v)); cbn [tab_get]; [rewrite E|]; apply IH; exact Hg.
Qed.

Lemma sweep_keeps_decision : forall st k d sample,
  dec_of (ks_conn st) k = Some d ->
  (exists s, tab_get (ks_conn st) k = Some s /\ jan_code_selected false 0 sample k s = false) ->
  dec_of (ks_conn (jan_sweep false 0 sample st)) k = Some d.
Proof.
  intros st k d sample Hd (s & Hg & Hs). unfold dec_of in *. unfold jan_sweep. cbn [ks_conn].
  rewrite (filter_keeps_get _ _ _ _ Hg).
  - rewrite Hg in Hd. exact Hd.
  - cbn [fst snd]. rewrite Hs. reflexivity.
  - intros a b v E. apply fkey_eqb_eq in E. subst. reflexivity.
Qed.

(* an event leaves flow k alone: a packet that is quiet for k, or a sweep whose sample is not beyond the entry's
   last refresh plus its timeout (in particular any sample taken before the last refresh) *)
Definition quiet_event (P : param) (st : kstate) (ev : event) (k : fkey) : Prop :=
  match ev with
  | EvPkt s => quiet P st s k
  | EvSweep t =>
      t < TWO63 /\
      exists s, tab_get (ks_conn st) k = Some s /\ cs_last s < TWO63 /\
                t <= cs_last s + (if cs_state s =? TCP_STATE_CLOSING then DOC_TCP_CLOSING_NS else DOC_TCP_IDLE_NS)
  end.
Fixpoint quiet_events (P : param) (st : kstate) (evs : list event) (k : fkey) : Prop :=
  match evs with [] => True | ev :: r => quiet_event P st ev k /\ quiet_events P (run_event P st ev) r k end.

Lemma event_keeps_decision : forall P st ev k d,
  k_proto k = IPPROTO_TCP -> quiet_event P st ev k -> dec_of (ks_conn st) k = Some d ->
  dec_of (ks_conn (run_event P st ev)) k = Some d.
Proof.
  intros P st ev k d Hk Hq Hd. destruct ev as [s | t]; cbn [run_event quiet_event] in *.
  - apply step_keeps_decision; assumption.
  - destruct Hq as (Ht & s & Hg & Hl & Hle). apply sweep_keeps_decision; [exact Hd|].
    exists s. split; [exact Hg|]. rewrite jan_selects_iff_idle_proof by assumption.
    unfold spec_jan_removes, jan_timeout. rewrite Hk. cbn [N.eqb IPPROTO_TCP IPPROTO_UDP Pos.eqb].
    apply N.ltb_ge. exact Hle.
Qed.

Lemma sticky_history_proof : forall P evs st k d,
  k_proto k = IPPROTO_TCP -> dec_of (ks_conn st) k = Some d -> quiet_events P st evs k ->
  dec_of (ks_conn (run_events P st evs)) k = Some d.
Proof.
  intros P evs. induction evs as [| ev r IH]; intros st k d Hk Hd Hq; cbn [run_events]; [exact Hd|].
  destruct Hq as [Hq1 Hq2]. apply IH; [exact Hk | | exact Hq2]. apply event_keeps_decision; assumption.
Qed.

(* kernel-written state -> janitor timeout class *)
Lemma jan_state_classes_proof :
  (forall m k w a now s', fst (mark_tcp_seen m k w false true a now) = Some s' -> (cs_state s' =? JAN_CLOSING_STATE) = true) /\
  (forall wan now a, (cs_state (new_state wan now a) =? JAN_CLOSING_STATE) = false) /\
  (forall m k w a now s s', tab_get m k = Some s -> (cs_state s =? JAN_CLOSING_STATE) = false ->
     fst (mark_tcp_seen m k w false false a now) = Some s' -> (cs_state s' =? JAN_CLOSING_STATE) = false).
Proof.
  repeat split.
  - intros m k w a now s'. unfold mark_tcp_seen.
    destruct (tab_get m k) as [s|]; [destruct (tcp_conn_state_expired s now)|]; cbn [fst]; try discriminate.
    intro H. inversion H. unfold apply_routing.
    destruct (a_rt a) as [[[o mk] mu]|]; destruct (gt (sub64 now (cs_last s)) TCP_CONN_STATE_UPDATE_INTERVAL_NS); reflexivity.
  - intros wan now a. unfold new_state. destruct (a_rt a) as [[[o mk] mu]|]; reflexivity.
  - intros m k w a now s s' Hg Hs. unfold mark_tcp_seen. rewrite Hg.
    destruct (tcp_conn_state_expired s now); cbn [fst]; try discriminate.
    intro H. inversion H. unfold apply_routing.
    destruct (a_rt a) as [[[o mk] mu]|]; destruct (gt (sub64 now (cs_last s)) TCP_CONN_STATE_UPDATE_INTERVAL_NS); cbn; exact Hs.
Qed.
