(* C06 — control-side UDP sniff session (control/udp.go handlePkt, the block between
   `DefaultPacketSnifferSessionMgr.GetOrCreate(key, nil)` and `afterSniffing:`; control/
   packet_sniffer_pool.go: PacketSniffer counters, session TTL + janitor, failed-DCID cache) for ONE
   sniffer key.  The sniffer itself is modelled in C06_Model.v; here its answer to each datagram is
   an input (`sres`).  Times are milliseconds.  No proofs in this file. *)
From Coq Require Import List NArith Bool Arith.
From Dae.gen Require Import C06_Extracted.
From Dae Require Import C06_Spec.
Import ListNotations.
Open Scope N_scope.

(* what SniffUdp answered for this datagram (together with NeedMore()) *)
Inductive sres :=
| SrFound (d : bytes)     (* err == nil; d may be empty *)
| SrNeedMore              (* NeedMore() after the call *)
| SrNotApp                (* errors.Is(err, ErrNotApplicable), NeedMore() false *)
| SrOther.                (* any other error, NeedMore() false *)

Record sess := {
  ss_held : list bytes;        (* sniffer.Data()[1:] : datagrams appended and not yet compacted away *)
  ss_streak : N;               (* noSniStreak *)
  ss_bypass_until : N;         (* bypassSniffUntil, 0 = zero time *)
  ss_fail : N;                 (* consecutiveDecryptFailures *)
  ss_expire : N }.             (* expiresAtNano *)
Record fentry := { fe_expire : N; fe_shift : N }.
Record cstate := { cs_sess : option sess; cs_failed : option fentry }.

(* a datagram of the flow arriving at `now`; `janitor_ran` decides the race when the session's TTL
   has passed for less than one janitor interval *)
Inductive sevent := EvPacket (now : N) (data : bytes) (r : sres) (janitor_ran : bool).
Inductive sout := OHeld | OForward (payloads : list bytes) (domain : bytes).

Definition ev_time (e : sevent) : N := match e with EvPacket t _ _ _ => t end.
Definition ev_data (e : sevent) : bytes := match e with EvPacket _ d _ _ => d end.

(* failedQuicDcidSuppressionTtl *)
Fixpoint ttl_backoff (fuel : nat) (ttl : N) : N :=
  match fuel with
  | O => ttl
  | S f => if ttl <? failed_max_ms
           then (let t := ttl * 2 in if failed_max_ms <? t then failed_max_ms else ttl_backoff f t)
           else ttl
  end.
Definition suppression_ttl (base shift : N) : N :=
  let t := ttl_backoff (N.to_nat shift) base in if failed_max_ms <? t then failed_max_ms else t.

(* failedQuicDcidCache.MarkFailed for this key *)
Definition mark_failed (fe : option fentry) (base now : N) : option fentry :=
  match fe with
  | Some e =>
      if now <? fe_expire e then
        let sh := if fe_shift e <? failed_max_shift then fe_shift e + 1 else fe_shift e in
        let ne := now + suppression_ttl base sh in
        Some {| fe_expire := if ne <? fe_expire e then fe_expire e else ne; fe_shift := sh |}
      else Some {| fe_expire := now + suppression_ttl base 0; fe_shift := 0 |}
  | None => Some {| fe_expire := now + suppression_ttl base 0; fe_shift := 0 |}
  end.
(* IsFailed: an expired entry is deleted *)
Definition is_failed (fe : option fentry) (now : N) : bool * option fentry :=
  match fe with
  | Some e => if now <? fe_expire e then (true, fe) else (false, None)
  | None => (false, None)
  end.

Definition undecided (s : sess) : bool := ss_fail s <? sess_decrypt_fail_threshold.

(* the janitor: a session whose TTL passed at least one janitor interval ago is certainly gone; within
   the interval it depends on the tick.  Returns the surviving session and the datagrams that were
   still withheld in it (they are dropped: Close() releases the buffer). *)
Definition janitor (s : option sess) (now : N) (ran : bool) : option sess * list bytes :=
  match s with
  | Some x =>
      if (ss_expire x + sess_janitor_ms <=? now) || ((ss_expire x <=? now) && ran)
      then (None, if undecided x then ss_held x else [])
      else (Some x, [])
  | None => (None, [])
  end.

Definition new_sess : sess :=
  {| ss_held := []; ss_streak := 0; ss_bypass_until := 0; ss_fail := 0; ss_expire := 0 |}.

(* the verdict tail of the block: RecordSniffNoSni / RecordSniffSuccess, replay, CompactPacketState *)
Definition verdict (s : sess) (held' : list bytes) (fail now : N) (domain : bytes) (exp : N) : sout * sess :=
  let nosni := (length domain =? 0)%nat in
  let streak1 := ss_streak s + 1 in
  let '(streak, bypass) :=
    if nosni then (if sess_nosni_threshold <=? streak1 then (0, now + sess_nosni_bypass_ms) else (streak1, ss_bypass_until s))
    else (0, 0) in
  (OForward held' domain,
   {| ss_held := []; ss_streak := streak; ss_bypass_until := bypass; ss_fail := fail; ss_expire := exp |}).

Definition step (st : cstate) (e : sevent) : sout * list bytes * cstate :=
  match e with
  | EvPacket now data r ran =>
      let '(sess0, dropped) := janitor (cs_sess st) now ran in
      let '(failed, fe) := is_failed (cs_failed st) now in
      if failed then (OForward [data] [], dropped, {| cs_sess := sess0; cs_failed := fe |})
      else
        let s := match sess0 with Some s => s | None => new_sess end in
        let exp := now + sess_ttl_ms in                       (* GetOrCreate: RefreshTtl *)
        let s := {| ss_held := ss_held s; ss_streak := ss_streak s; ss_bypass_until := ss_bypass_until s;
                    ss_fail := ss_fail s; ss_expire := exp |} in
        if now <? ss_bypass_until s then                      (* ShouldBypassSniff *)
          (OForward [data] [], dropped, {| cs_sess := Some s; cs_failed := mark_failed fe failed_soft_ms now |})
        else
          let held' := ss_held s ++ [data] in                 (* AppendData *)
          let keep h f := {| ss_held := h; ss_streak := ss_streak s; ss_bypass_until := ss_bypass_until s;
                             ss_fail := f; ss_expire := exp |} in
          match r with
          | SrNotApp =>
              let f := ss_fail s + 1 in
              if sess_decrypt_fail_threshold <=? f
              then (OForward [data] [], dropped,             (* returns before the replay and before compaction *)
                    {| cs_sess := Some (keep held' f); cs_failed := mark_failed fe failed_decrypt_ms now |})
              else let '(o, s') := verdict s held' f now [] exp in
                   (o, dropped, {| cs_sess := Some s'; cs_failed := fe |})
          | SrNeedMore => (OHeld, dropped, {| cs_sess := Some (keep held' 0); cs_failed := fe |})
          | SrOther => let '(o, s') := verdict s held' 0 now [] exp in
                       (o, dropped, {| cs_sess := Some s'; cs_failed := fe |})
          | SrFound d => let '(o, s') := verdict s held' (ss_fail s) now d exp in
                         (o, dropped, {| cs_sess := Some s'; cs_failed := fe |})
          end
  end.

Definition out_payloads (o : sout) : list bytes := match o with OHeld => [] | OForward p _ => p end.

(* run a history: (per-event outputs, everything forwarded in order, everything dropped, final state) *)
Fixpoint run_from (st : cstate) (h : list sevent) : list sout * list bytes * list bytes * cstate :=
  match h with
  | [] => ([], [], [], st)
  | e :: r =>
      let '(o, d, st1) := step st e in
      let '(os, fwd, dr, st2) := run_from st1 r in
      (o :: os, out_payloads o ++ fwd, d ++ dr, st2)
  end.
Definition init_cstate : cstate := {| cs_sess := None; cs_failed := None |}.
Definition run_session (h : list sevent) := run_from init_cstate h.

(* datagrams still withheld in an undecided live session *)
Definition pending (st : cstate) : list bytes :=
  match cs_sess st with Some s => if undecided s then ss_held s else [] | None => [] end.

Fixpoint monotone_from (t : N) (h : list sevent) : bool :=
  match h with [] => true | e :: r => (t <=? ev_time e) && monotone_from (ev_time e) r end.
Definition monotone (h : list sevent) : bool := monotone_from 0 h.
