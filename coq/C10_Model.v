(* C10 — code-shaped model of control/domain_routing_tracker.go (no proofs in this file).
   Go maps are modelled as total functions into option (lookup) with functional update; the inner
   per-address owner map, which the Go code iterates and measures (len == 0), is an association list.
   Iteration order over Go maps is unspecified; every loop below is order-independent and the
   correspondence compares batches as sets. *)
From Coq Require Import List NArith Bool.
From Dae Require Import C10_Spec.
Import ListNotations.
Open Scope N_scope.

Record ipstate := { st_owners : list (N * N) (* owner -> bitmap *); st_merged : N }.

Record tracker := {
  t_owners : N -> option snapshot;     (* t.owners *)
  t_ips : N -> option ipstate          (* t.ips *)
}.

Definition upd {V} (m : N -> option V) (k : N) (v : option V) : N -> option V :=
  fun k' => if k' =? k then v else m k'.

Definition new_tracker : tracker := {| t_owners := fun _ => None; t_ips := fun _ => None |}.

(* mergeDomainRoutingOwnerBitmaps *)
Definition merge_owners (os : list (N * N)) : N :=
  fold_left (fun acc ob => N.lor acc (snd ob)) os 0.

Definition is_zero_bitmap (b : N) : bool := b =? 0.

(* delete(state.owners, ownerKey) *)
Definition remove_owner (o : N) (os : list (N * N)) : list (N * N) :=
  filter (fun ob => negb (fst ob =? o)) os.

(* state.owners[ownerKey] = bitmap *)
Definition set_owner (o b : N) (os : list (N * N)) : list (N * N) :=
  (o, b) :: remove_owner o os.

(* desiredBitmapForKeyLocked *)
Definition desired (t : tracker) (key owner : N) (s : snapshot) : N * bool :=
  let bp :=
    match t_ips t key with
    | Some st =>
        fold_left (fun (bp : N * bool) (ob : N * N) =>
                     if fst ob =? owner then bp else (N.lor (fst bp) (snd ob), true))
                  (st_owners st) (0, false)
    | None => (0, false)
    end in
  if negb (match s_ips s with [] => true | _ => false end)
     && negb (is_zero_bitmap (s_bitmap s))
     && existsb (N.eqb key) (s_ips s)
  then (N.lor (fst bp) (s_bitmap s), true)
  else bp.

(* applyOwnerSnapshotLocked, first half: drop the old owner entry *)
Definition drop_old_ip (owner : N) (ips : N -> option ipstate) (key : N) : N -> option ipstate :=
  match ips key with
  | None => ips
  | Some st =>
      let os := remove_owner owner (st_owners st) in
      match os with
      | [] => upd ips key None
      | _ => upd ips key (Some {| st_owners := os; st_merged := merge_owners os |})
      end
  end.

Definition add_new_ip (owner b : N) (ips : N -> option ipstate) (key : N) : N -> option ipstate :=
  let os0 := match ips key with Some st => st_owners st | None => [] end in
  let os := set_owner owner b os0 in
  upd ips key (Some {| st_owners := os; st_merged := merge_owners os |}).

Definition apply_owner_snapshot (t : tracker) (owner : N) (s : snapshot) : tracker :=
  let t1 :=
    match t_owners t owner with
    | Some old =>
        {| t_owners := upd (t_owners t) owner None;
           t_ips := fold_left (drop_old_ip owner) (s_ips old) (t_ips t) |}
    | None => t
    end in
  match s_ips s with
  | [] => t1
  | _ =>
      if is_zero_bitmap (s_bitmap s) then t1
      else {| t_owners := upd (t_owners t1) owner (Some {| s_bitmap := s_bitmap s; s_ips := nodup N.eq_dec (s_ips s) |});
              t_ips := fold_left (add_new_ip owner (s_bitmap s)) (s_ips s) (t_ips t1) |}
  end.

Record batches := { b_updates : list (N * N); b_deletes : list N }.

(* syncOwner: the batches for the kernel map, then applyOwnerSnapshotLocked *)
Definition sync_owner (t : tracker) (owner : N) (s : snapshot) : batches * tracker :=
  let old_ips := match t_owners t owner with Some old => s_ips old | None => [] end in
  let affected := nodup N.eq_dec (old_ips ++ s_ips s) in
  let step (acc : batches) (key : N) : batches :=
    let '(d, present) := desired t key owner s in
    match t_ips t key with
    | None =>
        if present then {| b_updates := (key, d) :: b_updates acc; b_deletes := b_deletes acc |} else acc
    | Some cur =>
        if negb present then {| b_updates := b_updates acc; b_deletes := key :: b_deletes acc |}
        else if negb (st_merged cur =? d)
             then {| b_updates := (key, d) :: b_updates acc; b_deletes := b_deletes acc |}
             else acc
    end in
  (fold_left step affected {| b_updates := []; b_deletes := [] |}, apply_owner_snapshot t owner s).

(* The kernel hash map as the batches act on it (BpfMapBatchUpdate with UpdateAny, BpfMapBatchDelete). *)
Definition kmap := N -> option N.

Definition apply_batches (m : kmap) (b : batches) : kmap :=
  let m1 := fold_left (fun m kv => upd m (fst kv) (Some (snd kv))) (b_updates b) m in
  fold_left (fun m k => upd m k None) (b_deletes b) m1.

(* run a whole history: tracker state and shadow kernel map *)
Definition step (st : tracker * kmap) (o : op) : tracker * kmap :=
  let '(b, t') := sync_owner (fst st) (fst o) (snd o) in
  (t', apply_batches (snd st) b).

Definition run (h : list op) : tracker * kmap := fold_left step h (new_tracker, fun _ => None).

(* per-step batches, for the correspondence *)
Fixpoint run_batches (t : tracker) (h : list op) : list batches :=
  match h with
  | [] => []
  | o :: h' => let '(b, t') := sync_owner t (fst o) (snd o) in b :: run_batches t' h'
  end.

(* The internal invariant (stated here, proved in C10_Proofs.v): t.ips is the inverse index of
   t.owners, t.owners holds exactly the live owners that contribute somewhere, merged caches the OR. *)
Definition tracker_consistent (h : list op) (t : tracker) : Prop :=
  (forall o,
      match t_owners t o with
      | None => forall ip, contributes (live h o) ip = 0
      | Some s' => s_bitmap s' = s_bitmap (live h o) /\ s_bitmap s' <> 0 /\ s_ips s' <> [] /\
                   NoDup (s_ips s') /\
                   forall ip, In ip (s_ips s') <-> In ip (s_ips (live h o))
      end) /\
  (forall ip,
      match t_ips t ip with
      | None => forall o, contributes (live h o) ip = 0
      | Some st => st_owners st <> [] /\ NoDup (map fst (st_owners st)) /\
                   st_merged st = merge_owners (st_owners st) /\
                   forall o b, In (o, b) (st_owners st) <-> (b <> 0 /\ contributes (live h o) ip = b)
      end).
