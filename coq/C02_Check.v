(* C02 — executable comparison functions used by the generated cases file (no proofs). *)
From Coq Require Import List NArith Bool String.
From Dae Require Import C01_Spec C01_Model C01_Check C02_Spec C02_Model.
From Dae.gen Require Import C01_Consts C02_Consts.
Import ListNotations.
Open Scope N_scope.

(* byte strings travel as one number (big-endian digits) plus their length *)
Definition unhex (n : nat) (x : N) : list N := bytes_be n x.

Record obs_packet := {
  op_pk : packet;
  op_wan : bool;
  op_bm : option (list N);     (* what the real domain matcher returned for the probe's domain (None: no domain) *)
  op_dkey : option N;          (* domain_routing_map key the Go side produced (16 bytes), None: nothing installed *)
  op_dval : N;                 (* struct domain_routing (128 bytes) *)
  op_go : res decision;        (* RoutingMatcher.Match *)
  op_c : kret }.               (* route() *)

Record obs_case := {
  oc_msets : list mset;                       (* builder.compiledRules *)
  oc_tries : list (list prefix128);           (* builder.simulatedLpmTries *)
  oc_reloads : list N;                        (* LPM counts of earlier generations *)
  oc_alloc : N; oc_next : N;                  (* reserveLpmRingSlots result, globalNextLpmIndex afterwards *)
  oc_kernerr : N;                             (* 0 = installable; else error class of the Go side *)
  oc_raw : list N;                            (* builder.rules, 24 bytes each *)
  oc_kern : list N;                           (* rewriteKernRulesWithRingLpmIndex output *)
  oc_rkeys : list N; oc_metalen : N;
  oc_slots : list N;
  oc_keys : list (list N);                    (* cidrToBpfLpmKey per prefix, 20 bytes each *)
  oc_packets : list obs_packet }.

Definition bytes_eqb := list_eqb.

Definition kret_eqb (a b : kret) : bool :=
  match a, b with KWord x, KWord y => x =? y | KErrno x, KErrno y => x =? y | _, _ => false end.

Definition odec_eqb (a b : option decision) : bool :=
  match a, b with Some x, Some y => dec_eqb x y | None, None => true | _, _ => false end.

(* what earlier generations left in the LPM slots: tries that match everything (a wrong slot shows) *)
Definition stale_kmaps : kmaps :=
  {| km_routing := []; km_meta := 0; km_lpm := fun _ => Some [zeros 20]; km_domain := fun _ => None |}.

Definition kernel_word (ms : list mset) (tries : list (list prefix128)) (alloc : N) (dom : option (list N))
           (pk : packet) (wan : bool) : res kret :=
  match install stale_kmaps ms tries alloc with
  | Err e => Err e
  | Ok km =>
    Ok (k_route {| km_routing := km_routing km; km_meta := km_meta km; km_lpm := km_lpm km;
                   km_domain := fun k => if list_eqb k (bytes_be 16 (p_dst pk)) then dom else None |}
                (kargs_of pk wan))
  end.

Definition user_model (ms : list mset) (tries : list (list prefix128)) (o : obs_packet) : res decision :=
  match_sets {| mt_sets := ms; mt_tries := tries |} (fun _ => match op_bm o with Some w => w | None => [] end)
             (args_of_packet (op_pk o)).

Definition with_index {A} (l : list A) : list (N * A) := combine (map N.of_nat (seq 0 (List.length l))) l.

(* error codes (second component):
     1 C route() <> kernel model        2 C route() <> expected(Go Match)       3 kernel model <> expected(userspace model)
     4 Go Match <> userspace model (C01)   5 builder bytes <> enc_mset           6 ring / rewrite / keys / meta <> model
     7 domain_routing entry <> model    9 probe outside the quantifier: a LAN probe that carries a process name (informational, with 2) *)
Definition check_packets (c : obs_case) (alloc : N) : list (N * N) :=
  let ms := oc_msets c in let tries := oc_tries c in
  List.concat (map (fun ip : N * obs_packet =>
    let '(i, o) := ip in
    let pk := op_pk o in
    let dom := dom_entry (op_bm o) in
    let um := user_model ms tries o in
    let exp_go := expected (p_dport pk) (user_answer (op_go o)) in
    let exp_model := expected (p_dport pk) (user_answer um) in
    (match op_dkey o, dom with
     | None, None => []
     | Some k, Some v => if bytes_eqb (unhex 16 k) (bytes_be 16 (p_dst pk)) && bytes_eqb (unhex 128 (op_dval o)) v then [] else [(i, 7)]
     | _, _ => [(i, 7)]
     end) ++
    (if res_eqb (op_go o) um then [] else [(i, 4)]) ++
    (if odec_eqb (decode_word (op_c o)) exp_go then []
     else (i, 2) :: (if probe_ok pk (op_wan o) then [] else [(i, 9)])) ++
    match kernel_word ms tries alloc dom pk (op_wan o) with
    | Err _ => [(i, 1)]
    | Ok kw =>
      (if kret_eqb (op_c o) kw then [] else [(i, 1)]) ++
      (if odec_eqb (decode_word kw) exp_model then [] else [(i, 3)])
    end)
    (with_index (oc_packets c))).

Definition check_case (c : obs_case) : list (N * N) :=
  let ms := oc_msets c in let tries := oc_tries c in
  (if all2 bytes_eqb (map enc_mset ms) (map (unhex 24) (oc_raw c)) then [] else [(0, 5)]) ++
  match reserve_history 0 (oc_reloads c) with
  | Err _ => [(0, 6)]
  | Ok g =>
    let count := N.of_nat (List.length tries) in
    match reserve g count with
    | Err _ => if oc_kernerr c =? 0 then [(0, 6)] else []
    | Ok (alloc, next) =>
      if negb ((alloc =? oc_alloc c) && (next =? oc_next c)) then [(0, 6)] else
      match install stale_kmaps ms tries alloc with
      | Err _ => if oc_kernerr c =? 0 then [(0, 6)] else []
      | Ok km =>
        (if (oc_kernerr c =? 0)
            && all2 bytes_eqb (firstn (List.length ms) (km_routing km)) (map (unhex 24) (oc_kern c))
            && (km_meta km =? oc_metalen c)
            && all2 N.eqb (map N.of_nat (seq 0 (List.length ms))) (oc_rkeys c)
            && all2 N.eqb (map (fun i => ring_slot MaxMatchSetLen alloc (N.of_nat i)) (seq 0 (List.length tries))) (oc_slots c)
            && all2 (all2 bytes_eqb) (map (map key_of_prefix) tries) (map (map (unhex 20)) (oc_keys c))
            && forallb (fun it : N * list prefix128 =>
                          match km_lpm km (ring_slot MaxMatchSetLen alloc (fst it)) with
                          | Some ks => all2 bytes_eqb ks (map key_of_prefix (snd it))
                          | None => false
                          end) (with_index tries)
         then [] else [(0, 6)]) ++
        check_packets c alloc
      end
    end
  end.

(* coverage signature: (#match-sets, #distinct result words of the kernel among the probes,
   #probes handed to the control plane as DNS, #WAN probes, #probes deciding with must) *)
Definition case_signature (c : obs_case) : N * N * N * N * N :=
  let words := map (fun o => match op_c o with KWord w => w | KErrno e => 2 ^ 63 + e end) (oc_packets c) in
  (N.of_nat (List.length (oc_msets c)),
   N.of_nat (List.length (nodup_N words)),
   N.of_nat (List.length (filter (fun o => match decode_word (op_c o), user_answer (op_go o) with
                                            | Some (ob, _, _), Some (og, _, _) => (ob =? CONTROL_PLANE_ROUTING) && negb (og =? ob)
                                            | _, _ => false end) (oc_packets c))),
   N.of_nat (List.length (filter op_wan (oc_packets c))),
   N.of_nat (List.length (filter (fun o => match decode_word (op_c o) with Some (_, _, mu) => mu | None => false end) (oc_packets c)))).
