(* C02 — executable comparison functions used by the generated cases file (no proofs). *)
From Coq Require Import List NArith Bool String.
From Dae Require Import C01_Spec C01_Model C01_Check C02_Spec C02_Model.
From Dae.gen Require Import C01_Consts C02_Consts.
Import ListNotations.
Open Scope N_scope.

(* byte strings travel as one number (big-endian digits) plus their length *)
Definition unhex (n : nat) (x : N) : list N := bytes_be n x.

Record obs_packet := {
  op_pk : packet;
  op_wan : bool;
  op_bm : option (list N);     (* what the real domain matcher returned for the probe's domain (None: no domain) *)
  op_dkey : option N;          (* domain_routing_map key the Go side produced (16 bytes), None: nothing installed *)
  op_dval : N;                 (* struct domain_routing (128 bytes) *)
  op_go : res decision;        (* RoutingMatcher.Match *)
  op_c : kret }.               (* route() *)

(* one replayed call of buildRoutingKernspace on the Go side *)
Record obs_install := {
  oi_alloc : N; oi_next : N;                  (* reserveLpmRingSlots result, globalNextLpmIndex afterwards *)
  oi_kernerr : N;                             (* 0 = installed; else error class of the Go side *)
  oi_tries : list (list prefix128);           (* snapshot.simulatedLpmTries as read at the time of the call *)
  oi_kern : list N;                           (* rewriteKernRulesWithRingLpmIndex output, 24 bytes each *)
  oi_rkeys : list N; oi_metalen : N;
  oi_slots : list N;
  oi_keys : list (list N) }.                  (* cidrToBpfLpmKey per prefix, 20 bytes each *)

Record obs_case := {
  oc_msets : list mset;                       (* builder.compiledRules *)
  oc_tries : list (list prefix128);           (* builder.simulatedLpmTries, read before any step *)
  oc_reloads : list N;                        (* LPM counts of earlier generations *)
  oc_order : list bstep;                      (* KernspaceSnapshot / BuildUserspace / snapshot.BuildKernspace, as executed *)
  oc_raw : list N;                            (* builder.rules, 24 bytes each *)
  oc_installs : list obs_install;
  oc_packets : list obs_packet }.

Definition bytes_eqb := list_eqb.

Definition kret_eqb (a b : kret) : bool :=
  match a, b with KWord x, KWord y => x =? y | KErrno x, KErrno y => x =? y | _, _ => false end.

Definition odec_eqb (a b : option decision) : bool :=
  match a, b with Some x, Some y => dec_eqb x y | None, None => true | _, _ => false end.

(* what earlier generations left in the LPM slots: tries that match everything (a wrong slot shows) *)
Definition stale_kmaps : kmaps :=
  {| km_routing := []; km_meta := 0; km_lpm := fun _ => Some [zeros 20]; km_domain := fun _ => None |}.

Definition kernel_word (km : kmaps) (dom : option (list N)) (pk : packet) (wan : bool) : kret :=
  k_route {| km_routing := km_routing km; km_meta := km_meta km; km_lpm := km_lpm km;
             km_domain := fun k => if list_eqb k (bytes_be 16 (p_dst pk)) then dom else None |}
          (kargs_of pk wan).

Definition user_model (mt : matcher) (o : obs_packet) : res decision :=
  match_sets mt (fun _ => match op_bm o with Some w => w | None => [] end) (args_of_packet (op_pk o)).

Definition with_index {A} (l : list A) : list (N * A) := combine (map N.of_nat (seq 0 (List.length l))) l.

(* error codes (second component):
     1 C route() <> kernel model        2 C route() <> expected(Go Match)       3 kernel model <> expected(userspace model)
     4 Go Match <> userspace model (C01)   5 builder bytes <> enc_mset           6 ring / rewrite / keys / meta <> model
     7 domain_routing entry <> model    9 probe outside the quantifier: a LAN probe that carries a process name (informational, with 2) *)
Definition NO_C_WORD : kret := KErrno 999.   (* the orchestrator's mark for "nothing was installed: route() was not run" *)

Definition check_packets (c : obs_case) (km : kmaps) (mt : matcher) : list (N * N) :=
  List.concat (map (fun ip : N * obs_packet =>
    let '(i, o) := ip in
    let pk := op_pk o in
    let dom := dom_entry (op_bm o) in
    let um := user_model mt o in
    let exp_go := expected (p_dport pk) (user_answer (op_go o)) in
    let exp_model := expected (p_dport pk) (user_answer um) in
    (match op_dkey o, dom with
     | None, None => []
     | Some k, Some v => if bytes_eqb (unhex 16 k) (bytes_be 16 (p_dst pk)) && bytes_eqb (unhex 128 (op_dval o)) v then [] else [(i, 7)]
     | _, _ => [(i, 7)]
     end) ++
    (if res_eqb (op_go o) um then [] else [(i, 4)]) ++
    (if kret_eqb (op_c o) NO_C_WORD then [] else
     (if odec_eqb (decode_word (op_c o)) exp_go then []
      else (i, 2) :: (if probe_ok pk (op_wan o) then [] else [(i, 9)])) ++
     let kw := kernel_word km dom pk (op_wan o) in
     (if kret_eqb (op_c o) kw then [] else [(i, 1)]) ++
     (if odec_eqb (decode_word kw) exp_model then [] else [(i, 3)])))
    (with_index (oc_packets c))).

(* one buildRoutingKernspace call: the model's log entry against what the Go side did *)
Definition check_install (ms : list mset) (tries : list (list prefix128)) (e : ilog) (oi : obs_install) : bool :=
  (* the snapshot the call read is the lowered program, whenever BuildUserspace ran *)
  all2 (all2 px_eqb) (il_tries e) (oi_tries oi) &&
  (* (a snapshot taken after BuildUserspace, which production never does, is empty and cannot be installed) *)
  match il_rules e with [] => true | _ => all2 mset_eqb (il_rules e) ms && all2 (all2 px_eqb) (oi_tries oi) tries end &&
  match (match il_rules e with [] => Err E_NO_RULES | _ => reserve (il_ring e) (N.of_nat (List.length (il_tries e))) end) with
  | Err _ => negb (oi_kernerr oi =? 0)
  | Ok (alloc, next) =>
    (alloc =? oi_alloc oi) && (next =? oi_next oi) &&
    match install (il_km e) (il_rules e) (il_tries e) alloc with
    | Err _ => negb (oi_kernerr oi =? 0)
    | Ok km =>
      (oi_kernerr oi =? 0)
      && all2 bytes_eqb (firstn (List.length (il_rules e)) (km_routing km)) (map (unhex 24) (oi_kern oi))
      && (km_meta km =? oi_metalen oi)
      && all2 N.eqb (map N.of_nat (seq 0 (List.length (il_rules e)))) (oi_rkeys oi)
      && all2 N.eqb (map (fun i => ring_slot MaxMatchSetLen alloc (N.of_nat i)) (seq 0 (List.length (il_tries e)))) (oi_slots oi)
      && all2 (all2 bytes_eqb) (map (map key_of_prefix) (il_tries e)) (map (map (unhex 20)) (oi_keys oi))
      && forallb (fun it : N * list prefix128 =>
                    match km_lpm km (ring_slot MaxMatchSetLen alloc (fst it)) with
                    | Some ks => all2 bytes_eqb ks (map key_of_prefix (snd it))
                    | None => false
                    end) (with_index (il_tries e))
    end
  end.

Definition check_case (c : obs_case) : list (N * N) :=
  let ms := oc_msets c in let tries := oc_tries c in
  (if all2 bytes_eqb (map enc_mset ms) (map (unhex 24) (oc_raw c)) then [] else [(0, 5)]) ++
  match reserve_history 0 (oc_reloads c) with
  | Err _ => [(0, 6)]
  | Ok g =>
    let w := brun false (oc_order c) (bworld0 ms tries g stale_kmaps) in
    (if Nat.eqb (List.length (bw_log w)) (List.length (oc_installs c))
        && forallb (fun eo => check_install ms tries (fst eo) (snd eo)) (combine (bw_log w) (oc_installs c))
     then [] else [(0, 6)]) ++
    match bw_matcher w with
    | None => [(0, 6)]
    | Some mt => check_packets c (bw_km w) mt
    end
  end.

(* coverage signature: (#match-sets, #distinct result words of the kernel among the probes,
   #probes handed to the control plane as DNS, #WAN probes, #probes deciding with must) *)
Definition case_signature (c : obs_case) : N * N * N * N * N :=
  let words := map (fun o => match op_c o with KWord w => w | KErrno e => 2 ^ 63 + e end) (oc_packets c) in
  (N.of_nat (List.length (oc_msets c)),
   N.of_nat (List.length (nodup_N words)),
   N.of_nat (List.length (filter (fun o => match decode_word (op_c o), user_answer (op_go o) with
                                            | Some (ob, _, _), Some (og, _, _) => (ob =? CONTROL_PLANE_ROUTING) && negb (og =? ob)
                                            | _, _ => false end) (oc_packets c))),
   N.of_nat (List.length (filter op_wan (oc_packets c))),
   N.of_nat (List.length (filter (fun o => match decode_word (op_c o) with Some (_, _, mu) => mu | None => false end) (oc_packets c)))).
