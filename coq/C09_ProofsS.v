(* C09 — proofs about one singleflight flight with clients of mixed kinds (Part S of C09_Model.v). *)
From Coq Require Import List NArith Bool Lia.
From Dae Require Import C09_Spec C09_Model C09_Check C09_Proofs C09_ProofsC.
From Dae.gen Require Import C09_Route.
Import ListNotations.
Open Scope N_scope.

(* a participant of the flight for key k: class IN, asks for k, and can be answered at all *)
Definition participant (k : ckey) (c : fclient) : bool :=
  ckey_eqb (key_of (cq_q (fc_q c))) k && (q_class (cq_q (fc_q c)) =? 1) && (fc_w c || fc_lc c).

Definition pub_good (k : ckey) (pb : pubpoint) : bool :=
  match pb with PNever => true | PWindow e | PBefore e => entry_good k e end.

(* the generated routing decision of writeCachedResponse, in closed form *)
Lemma route_gen : forall w lc,
  route wcr_writer_cond wcr_noconn_cond w lc = if w then 0 else if lc then 1 else 2.
Proof. intros [] []; reflexivity. Qed.

Lemma participant_spec : forall k c, participant k c = true ->
  key_of (cq_q (fc_q c)) = k /\ q_class (cq_q (fc_q c)) = 1 /\ fc_w c || fc_lc c = true.
Proof.
  unfold participant. intros k c H. apply andb_true_iff in H as [H H3]. apply andb_true_iff in H as [H1 H2].
  apply ckey_eqb_eq in H1. apply N.eqb_eq in H2. auto.
Qed.

Lemma servfail_ok : forall c, reply_ok c (servfail c) = true.
Proof.
  intros c. unfold reply_ok, reply_id_ok, reply_question_ok, reply_answers_ok, question_equiv, servfail; cbn.
  rewrite !N.eqb_refl. reflexivity.
Qed.

Lemma hit_rcode : forall p c e, m_rcode (hit_reply p c e) = 0.
Proof. intros [] c e; reflexivity. Qed.

Lemma cached_reply_ok : forall p k c e,
  participant k c = true -> entry_good k e = true ->
  flight_client_ok 0 c (cached_reply wcr_writer_cond wcr_noconn_cond p c e) = true.
Proof.
  intros p k c e P G. destruct (participant_spec _ _ P) as (K & Cl & Ch).
  unfold cached_reply. rewrite route_gen.
  assert (R : flight_client_ok 0 c [hit_reply p (fc_q c) e] = true).
  { cbn [flight_client_ok]. rewrite hit_rcode, N.eqb_refl, andb_true_r.
    apply hit_reply_ok; auto. rewrite K; auto. }
  destruct (fc_w c); auto. destruct (fc_lc c); auto. discriminate.
Qed.

Lemma with_id_ok : forall lq c m,
  fres_tagged (FMsg m) = true -> question_checked lq m = true -> q_class lq = 1 ->
  key_of (cq_q (fc_q c)) = key_of lq -> q_class (cq_q (fc_q c)) = 1 ->
  reply_ok (fc_q c) (with_id m (cq_id (fc_q c))) = true.
Proof.
  intros lq c m T C Cl K Clc.
  pose proof (checked_honest lq m T C Cl) as Hh. rewrite <- K in Hh.
  exact (waiter_outcome_ok false (fc_q c) (RMsg m false) Hh Clc).
Qed.

Lemma post_ok : forall p k lq c r cache rc,
  participant k c = true ->
  (* the flight's result: an upstream message that passed the question check (nothing or itself cached),
     a cached entry, or an error *)
  match r, cache with
  | SFErr, _ => rc = 2
  | SFOk m, None => fres_tagged (FMsg m) = true /\ question_checked lq m = true /\ q_class lq = 1 /\ key_of lq = k /\ rc = m_rcode m
  | SFOk _, Some e => entry_good k e = true /\ rc = 0
  end ->
  flight_client_ok rc c (post wcr_writer_cond wcr_noconn_cond p c r cache) = true.
Proof.
  intros p k lq c r cache rc P H. destruct (participant_spec _ _ P) as (K & Cl & Ch).
  destruct r as [|m]; cbn [post].
  - subst rc. cbn [flight_client_ok servfail m_rcode]. rewrite servfail_ok. reflexivity.
  - destruct cache as [e|].
    + destruct H as [G ->]. eapply cached_reply_ok; eauto.
    + destruct H as (T & C & Cq & Kq & ->). rewrite Ch. cbn [flight_client_ok with_id m_rcode].
      rewrite N.eqb_refl, andb_true_r. eapply with_id_ok; eauto. congruence.
Qed.

Lemma forallb2_map : forall {A B} (f : A -> B -> bool) (g : A -> B) l,
  (forall x, In x l -> f x (g x) = true) -> forallb2 f l (map g l) = true.
Proof.
  induction l; cbn; intros H; auto. rewrite H by (left; auto). apply IHl. intros; apply H; right; auto.
Qed.

Lemma with_id_tagged : forall m id, fres_tagged (FMsg (with_id m id)) = fres_tagged (FMsg m).
Proof. reflexivity. Qed.
Lemma with_id_checked : forall lq m id, question_checked lq (with_id m id) = question_checked lq m.
Proof. reflexivity. Qed.

Lemma cacheable_entry_good : forall lq m e,
  fres_tagged (FMsg m) = true -> question_checked lq m = true -> q_class lq = 1 ->
  cacheable m = Some e -> entry_good (key_of lq) e = true.
Proof. intros. eapply cacheable_good; eauto. apply checked_honest; auto. Qed.

Lemma cacheable_rcode : forall m e, cacheable m = Some e -> m_rcode m = 0.
Proof.
  unfold cacheable. intros m e H. destruct (m_q m); try discriminate.
  destruct (m_rcode m =? 0) eqn:E; try discriminate. apply N.eqb_eq in E. auto.
Qed.

Lemma C09_flight_result_reaches_every_waiter_proof : forall p L Ws pb up,
  let k := key_of (cq_q (fc_q L)) in
  forallb (participant k) (L :: Ws) = true -> pub_good k pb = true -> fres_tagged up = true ->
  flight_ok wcr_writer_cond wcr_noconn_cond p L Ws pb up = true.
Proof.
  intros p L Ws pb up k HP HG HT. unfold flight_ok.
  assert (PL : participant k L = true) by (cbn in HP; apply andb_true_iff in HP; tauto).
  assert (PW : forall c, In c Ws -> participant k c = true).
  { cbn in HP. apply andb_true_iff in HP as [_ HP]. rewrite forallb_forall in HP. auto. }
  destruct (participant_spec _ _ PL) as (_ & ClL & _).
  destruct pb as [|e|e]; cbn [flight flight_rcode pub_good] in *.
  - (* upstream resolution *)
    cbn [shared].
    destruct up as [| |m]; cbn [app forallb2].
    + rewrite (post_ok p k (cq_q (fc_q L)) L SFErr None 2 PL eq_refl). cbn [andb].
      apply forallb2_map. intros c Hc. apply (post_ok p k (cq_q (fc_q L)) c SFErr None 2); auto.
    + rewrite (post_ok p k (cq_q (fc_q L)) L SFErr None 2 PL eq_refl). cbn [andb].
      apply forallb2_map. intros c Hc. apply (post_ok p k (cq_q (fc_q L)) c SFErr None 2); auto.
    + destruct (question_checked (cq_q (fc_q L)) m) eqn:Q; cbn [app forallb2].
      * assert (X : forall c, participant k c = true ->
                  flight_client_ok (m_rcode m) c
                    (post wcr_writer_cond wcr_noconn_cond p c (SFOk (with_id m (cq_id (fc_q L)))) (cacheable m)) = true).
        { intros c Pc. apply (post_ok p k (cq_q (fc_q L))); auto.
          destruct (cacheable m) as [e|] eqn:Ce.
          - split; [eapply cacheable_entry_good; eauto|apply (cacheable_rcode _ _ Ce)].
          - repeat split; auto. }
        rewrite (X L PL). cbn [andb]. apply forallb2_map. intros c Hc. apply X; auto.
      * rewrite (post_ok p k (cq_q (fc_q L)) L SFErr None 2 PL eq_refl). cbn [andb].
        apply forallb2_map. intros c Hc. apply (post_ok p k (cq_q (fc_q L)) c SFErr None 2); auto.
  - (* published in the window: the shared lookup hits; the capturer gets the answer, nobody else *)
    cbn [shared]. rewrite route_gen. cbn [app forallb2].
    assert (X : forall c, participant k c = true ->
                flight_client_ok 0 c (post wcr_writer_cond wcr_noconn_cond p c (SFOk (hit_reply p (fc_q L) e)) (Some e)) = true).
    { intros c Pc. apply (post_ok p k (cq_q (fc_q L))); auto. }
    rewrite (X L PL). cbn [andb]. apply forallb2_map. intros c Hc. apply X; auto.
  - (* published before: plain hits *)
    cbn [map forallb2]. rewrite (cached_reply_ok p k L e PL HG). cbn [andb].
    apply forallb2_map. intros c Hc. eapply cached_reply_ok; eauto.
Qed.

(* the seeded condition "responseWriter != nil && (req == nil || req.lConn == nil)" sends the shared
   resolution's cached answer to the UDP leader's socket and leaves the capturer empty *)
Definition seeded_writer_cond (w rq lc : bool) : bool := w && (negb rq || negb lc).

Lemma C09_flight_seeded_route_refuted_proof :
  exists p L Ws pb up,
    forallb (participant (key_of (cq_q (fc_q L)))) (L :: Ws) = true /\
    pub_good (key_of (cq_q (fc_q L))) pb = true /\ fres_tagged up = true /\
    flight_ok seeded_writer_cond wcr_noconn_cond p L Ws pb up = false.
Proof.
  exists true,
    {| fc_q := {| cq_id := 0x1111; cq_q := wq1 |}; fc_w := false; fc_lc := true |},
    [{| fc_q := {| cq_id := 0x2222; cq_q := wq1 |}; fc_w := true; fc_lc := false |}],
    (PWindow {| ce_name := 1; ce_type := 1; ce_ans := [{| rr_name := 1; rr_type := 1; rr_serial := 7 |}] |}),
    FErr.
  vm_compute. repeat split; reflexivity.
Qed.

Print Assumptions C09_flight_result_reaches_every_waiter_proof.
