(* C16 — the reload hand-over is exact: a flag that was not alive is alive afterwards only for instances outside
   all groups or for floor candidates (members of set-keeping groups). *)
From Coq Require Import List NArith ZArith Bool Lia.
From Dae Require Import C16_Spec C16_Model C16_Proofs C16_ProofsHealth C16_ProofsEdges C16_ProofsFloor C16_ProofsInstances.
From Dae.gen Require Import C16_Consts.
Import ListNotations.  Open Scope N_scope.

(* ---------- generic facts ---------- *)
Lemma hx_restore_exact : forall cfg o m n l,
  (forall d, d_alive (m_d (restore cfg o m n l) n) d = d_alive o d)
  /\ (forall n', n' <> n -> m_d (restore cfg o m n l) n' = m_d m n').
Proof. intros. exact (C16_restore_exact_proof cfg o m n l). Qed.

Lemma hx_maf_other : forall cfg m c d l x, x <> c -> m_d (mark_alive_fallback cfg m c d l) x = m_d m x.
Proof. intros. rewrite fl_maf_md. apply upd_other. now apply N.eqb_neq. Qed.

Lemma hx_nth_mid : forall (pre : list group) g r, nth_error (pre ++ g :: r) (length pre) = Some g.
Proof. intros. rewrite nth_error_app2, Nat.sub_diag; [reflexivity|lia]. Qed.

Lemma hx_in_some_group_false : forall cfg n, in_some_group cfg n = false ->
  forall g, In g (c_groups cfg) -> is_member n (g_members g) = false.
Proof.
  intros cfg n H g Hg. unfold in_some_group in H.
  destruct (is_member n (g_members g)) eqn:E; [|reflexivity].
  rewrite <- H. symmetry. apply existsb_exists. exists g. split; [assumption|exact E].
Qed.
Lemma hx_in_some_group_true : forall cfg n, in_some_group cfg n = true ->
  exists g, In g (c_groups cfg) /\ is_member n (g_members g) = true.
Proof.
  intros cfg n H. unfold in_some_group in H. apply existsb_exists in H. destruct H as (g & Hg & Hm).
  exists g. split; [assumption|exact Hm].
Qed.

(* ====================================================================== *)
(* 1. instances outside all groups start alive                            *)
(* ====================================================================== *)
Definition AllOn (n : N) (m : mstate) : Prop := forall d, d_alive (m_d m n) d = true.

Lemma ao_restore : forall cfg o m x l n, x <> n -> AllOn n m -> AllOn n (restore cfg o m x l).
Proof.
  intros cfg o m x l n Hx H d. destruct (hx_restore_exact cfg o m x l) as (_ & E).
  rewrite E by congruence. apply H.
Qed.
Lemma ao_maf : forall cfg m c d l n, AllOn n m -> AllOn n (mark_alive_fallback cfg m c d l).
Proof.
  intros cfg m c d l n H d'. destruct (N.eq_dec n c) as [->|Hn].
  - unfold d_alive. rewrite fl_maf_md, upd_same. cbn [md_alive]. unfold upd.
    destruct (_ =? _); [reflexivity|apply H].
  - rewrite hx_maf_other by assumption. apply H.
Qed.
Lemma ao_floor : forall cfg m gi g fb l n, AllOn n m -> AllOn n (ensure_floor cfg m gi g fb l).
Proof.
  intros. rewrite fl_ensure_floor_eq. destruct (keeps_sets g); [|assumption].
  apply fl_fold_inv with (Q := AllOn n); [|assumption].
  intros a d Ha. unfold floor_step. destruct (negb _); [assumption|].
  destruct (fb d); [now apply ao_maf|]. destruct (g_members g); [assumption|now apply ao_maf].
Qed.
Lemma ao_inherit : forall cfg old l n gs m gi,
  (forall g, In g gs -> is_member n (g_members g) = false) ->
  AllOn n m -> AllOn n (inherit cfg old m gi gs l).
Proof.
  intros cfg old l n. induction gs as [|g r IH]; intros m gi Hg H; cbn [inherit]; [assumption|].
  apply IH; [intros; apply Hg; now right|]. apply ao_floor.
  apply fl_fold_inv_in with (Q := AllOn n); [|assumption].
  intros a e He Ha. apply ao_restore; [|assumption].
  intros Heq. assert (Hm : is_member n (g_members g) = false) by (apply Hg; now left).
  apply fl_is_member_false in Hm. apply Hm. unfold fl_keys. rewrite <- Heq. now apply in_map.
Qed.

Lemma C16_reload_outside_groups_proof : forall cfg h l n,
  in_some_group cfg n = false -> forall d, model_alive cfg (h ++ [EReload l]) n d = true.
Proof.
  intros cfg h l n Hn d. unfold model_alive. rewrite m_run_snoc. cbn [m_step]. unfold m_reload.
  apply ao_inherit.
  - now apply hx_in_some_group_false.
  - intros d'. rewrite fl_fresh_md. reflexivity.
Qed.

(* ====================================================================== *)
(* 2. exact hand-over                                                      *)
(* ====================================================================== *)
Definition Cand (cfg : config) (x : N) : Prop :=
  exists g, In g (c_groups cfg) /\ keeps_sets g = true /\ is_member x (g_members g) = true.

(* every instance of S that is alive for a type was alive in the old generation, or is a floor candidate *)
Definition Inv (cfg : config) (old : N -> mdialer) (S : N -> Prop) (m : mstate) : Prop :=
  forall x d, S x -> d_alive (m_d m x) d = true -> d_alive (old x) d = true \/ Cand cfg x.

Lemma inv_ext : forall cfg old (S S' : N -> Prop) m, (forall x, S' x -> S x) -> Inv cfg old S m -> Inv cfg old S' m.
Proof. intros cfg old S S' m HS H x d Hx. apply H. now apply HS. Qed.

Lemma inv_restore : forall cfg old S m x0 l,
  Inv cfg old S m -> Inv cfg old (fun x => S x \/ x = x0) (restore cfg (old x0) m x0 l).
Proof.
  intros cfg old S m x0 l H x d Hs Hd. destruct (hx_restore_exact cfg (old x0) m x0 l) as (E1 & E2).
  destruct (N.eq_dec x x0) as [->|Hx].
  - rewrite E1 in Hd. now left.
  - rewrite E2 in Hd by assumption. destruct Hs as [Hs|Hs]; [now apply (H x d)|contradiction].
Qed.

Lemma inv_restores : forall cfg old l mem S m,
  Inv cfg old S m ->
  Inv cfg old (fun x => S x \/ In x (map fst mem))
      (fold_left (fun m0 (e : N * Z) => restore cfg (old (fst e)) m0 (fst e) l) mem m).
Proof.
  intros cfg old l. induction mem as [|e r IH]; intros S m H; cbn [fold_left map].
  - eapply inv_ext; [|exact H]. intros x [Hx|[]]. exact Hx.
  - eapply inv_ext; [|apply IH; apply inv_restore; exact H].
    cbn beta. intros x [Hx|[Hx|Hx]]; [left; now left|left; now right|now right].
Qed.

Lemma inv_maf : forall cfg old S m c d l,
  Inv cfg old S m -> Cand cfg c -> Inv cfg old S (mark_alive_fallback cfg m c d l).
Proof.
  intros cfg old S m c d l H Hc x d' Hs Hd. destruct (N.eq_dec x c) as [->|Hx]; [now right|].
  rewrite hx_maf_other in Hd by assumption. now apply (H x d').
Qed.

Lemma inv_floor : forall cfg old S m gi g fb l,
  Inv cfg old S m ->
  (keeps_sets g = true -> forall d c, fb d = Some c -> Cand cfg c) ->
  (keeps_sets g = true -> forall e r, g_members g = e :: r -> Cand cfg (fst e)) ->
  Inv cfg old S (ensure_floor cfg m gi g fb l).
Proof.
  intros cfg old S m gi g fb l H Hfb Hfirst. rewrite fl_ensure_floor_eq.
  destruct (keeps_sets g); [|assumption].
  apply fl_fold_inv with (Q := Inv cfg old S); [|assumption].
  intros a d Ha. unfold floor_step. destruct (negb _); [assumption|].
  destruct (fb d) as [c|] eqn:F.
  - apply inv_maf; [assumption|]. now apply (Hfb eq_refl d).
  - destruct (g_members g) as [|e r] eqn:Em; [assumption|].
    apply inv_maf; [assumption|]. now apply (Hfirst eq_refl e r).
Qed.

Lemma inv_inherit : forall cfg old l rest pre m S,
  c_groups cfg = pre ++ rest -> SetsIn cfg m -> Inv cfg old S m ->
  Inv cfg old (fun x => S x \/ exists g, In g rest /\ is_member x (g_members g) = true)
      (inherit cfg old m (N.of_nat (length pre)) rest l).
Proof.
  intros cfg old l. induction rest as [|g r IH]; intros pre m S E Hin H.
  - cbn [inherit]. eapply inv_ext; [|exact H]. intros x [Hx|(g & [] & _)]. exact Hx.
  - cbn [inherit].
    replace (N.of_nat (length pre) + 1) with (N.of_nat (length (pre ++ [g]))) by (rewrite app_length; cbn [length]; lia).
    assert (Hg : nth_error (c_groups cfg) (length pre) = Some g) by (rewrite E; apply hx_nth_mid).
    assert (Hgin : In g (c_groups cfg)) by (rewrite E; apply in_or_app; right; now left).
    set (m1 := fold_left (fun m0 (e : N * Z) => restore cfg (old (fst e)) m0 (fst e) l) (g_members g) m).
    assert (Hin1 : SetsIn cfg m1).
    { apply fl_fold_inv with (Q := SetsIn cfg); [|assumption]. intros. now apply fl_restore_setsin. }
    assert (H1 : Inv cfg old (fun x => S x \/ In x (map fst (g_members g))) m1) by (now apply inv_restores).
    eapply inv_ext; [|apply (IH (pre ++ [g]) (ensure_floor cfg m1 (N.of_nat (length pre)) g _ l) (fun x => S x \/ In x (map fst (g_members g)))); [rewrite <- app_assoc; exact E| |]].
    + cbn beta. intros x [Hx|(g0 & [<-|Hg0] & Hm)].
      * left. left. exact Hx.
      * left. right. now apply fl_is_member_In in Hm.
      * right. exists g0. now split.
    + now apply fl_floor_setsin.
    + apply inv_floor; [exact H1| |].
      * intros Hk d c Hc. rewrite fl_fbv in Hc. exists g. split; [assumption|]. split; [assumption|].
        apply fl_select_fallback_good with (m := m) (gi := N.of_nat (length pre)) (d := d); [|exact Hc].
        intros d'. now apply Hin.
      * intros Hk e r' Em. exists g. split; [assumption|]. split; [assumption|].
        rewrite Em. cbn. now rewrite N.eqb_refl.
Qed.

Lemma C16_reload_handover_exact_proof : forall cfg h l n d,
  model_alive cfg h n d = false -> model_alive cfg (h ++ [EReload l]) n d = true ->
  in_some_group cfg n = false
  \/ exists g, In g (c_groups cfg) /\ keeps_sets g = true /\ is_member n (g_members g) = true.
Proof.
  intros cfg h l n d Hold Hnew. destruct (in_some_group cfg n) eqn:G; [right|now left].
  unfold model_alive in Hnew. rewrite m_run_snoc in Hnew. cbn [m_step] in Hnew. unfold m_reload in Hnew.
  set (m := clear_logs (m_run cfg h)) in *.
  assert (H : Inv cfg (m_d m) (fun x => False \/ exists g, In g (c_groups cfg) /\ is_member x (g_members g) = true)
                  (inherit cfg (m_d m) (m_fresh_generation cfg m) (N.of_nat (length (@nil group))) (c_groups cfg) l)).
  { apply inv_inherit; [reflexivity|apply fl_fresh_setsin|]. intros x d' []. }
  cbn [length N.of_nat] in H.
  destruct (H n d) as [Ho|Hc].
  - right. now apply hx_in_some_group_true.
  - exact Hnew.
  - exfalso. unfold model_alive in Hold. subst m. cbn [clear_logs m_d] in Ho. congruence.
  - exact Hc.
Qed.

Print Assumptions C16_reload_outside_groups_proof.
Print Assumptions C16_reload_handover_exact_proof.
