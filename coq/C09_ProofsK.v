(* C09 — proofs about the forwarder-cache model (Part K of C09_Model.v). *)
From Coq Require Import List NArith ZArith Bool Lia Arith.
From Dae Require Import C09_Spec C09_Model C09_ProofsF.
Import ListNotations.

Definition KInv (s : kstate) : Prop :=
  (* A *) (forall e en, nth_error (k_ents s) e = Some en -> fe_inflight en = cntP (is_qusing e) (k_qs s)) /\
  (* B *) (forall e, k_cache s = Some e -> exists en, nth_error (k_ents s) e = Some en /\ fe_retired en = false /\ fe_closed en = false) /\
  (* C *) (forall e en, nth_error (k_ents s) e = Some en -> fe_retired en = true -> fe_closed en = false -> fe_inflight en <> 0%Z) /\
  (* D *) (forall e en, nth_error (k_ents s) e = Some en ->
             fe_closed en = true \/ k_cache s = Some e \/ fe_retired en = true \/ existsb (is_qretiring e) (k_qs s) = true) /\
  (* E *) (forall e, (length (k_ents s) <= e)%nat -> cntP (is_qusing e) (k_qs s) = 0%Z /\ existsb (is_qretiring e) (k_qs s) = false) /\
  (* H *) (forall e, existsb (is_qretiring e) (k_qs s) = true -> k_cache s <> Some e) /\
  (* F *) k_bad s = false.

Lemma length_set_nth : forall {A} (l : list A) i x, length (set_nth l i x) = length l.
Proof. induction l; intros [|i] x; cbn; auto. Qed.

Lemma nth_error_set_nth_cases : forall {A} (l : list A) i x j y,
  nth_error (set_nth l i x) j = Some y ->
  (j = i /\ y = x /\ (i < length l)%nat) \/ (j <> i /\ nth_error l j = Some y).
Proof.
  intros A l i x j y H. destruct (Nat.eq_dec j i) as [->|N].
  - destruct (nth_error l i) eqn:E.
    + rewrite (nth_error_set_nth_eq _ _ _ _ E) in H. inversion H; subst. left. repeat split; auto.
      apply nth_error_Some. congruence.
    + exfalso. assert (L : (length (set_nth l i x) <= i)%nat) by (rewrite length_set_nth; apply nth_error_None; auto).
      apply nth_error_None in L. congruence.
  - right. rewrite nth_error_set_nth_neq in H by auto. auto.
Qed.

Lemma existsb_cnt0 : forall {A} (P : A -> bool) l, cntP P l = 0%Z -> existsb P l = false.
Proof. intros. apply (cntP_zero_existsb P P); auto. Qed.

Lemma cnt_set : forall e (qs : list (bool * qpc)) t qold qnew,
  nth_error qs t = Some qold ->
  cntP (is_qusing e) (set_nth qs t qnew) = (cntP (is_qusing e) qs - b2z (is_qusing e qold) + b2z (is_qusing e qnew))%Z.
Proof. intros. apply cntP_set_nth; auto. Qed.

Lemma retiring_set_false : forall e (qs : list (bool * qpc)) t qnew,
  is_qretiring e qnew = false -> existsb (is_qretiring e) qs = false -> existsb (is_qretiring e) (set_nth qs t qnew) = false.
Proof. intros. apply existsb_set_nth_false; auto. Qed.

Lemma retiring_set_keep : forall e (qs : list (bool * qpc)) t qold qnew,
  nth_error qs t = Some qold -> is_qretiring e qold = false ->
  existsb (is_qretiring e) qs = true -> existsb (is_qretiring e) (set_nth qs t qnew) = true.
Proof. intros. eapply existsb_set_nth_keep; eauto. Qed.

Lemma retiring_set_inv : forall e (qs : list (bool * qpc)) t qnew,
  is_qretiring e qnew = false -> existsb (is_qretiring e) (set_nth qs t qnew) = true -> existsb (is_qretiring e) qs = true.
Proof. intros. eapply existsb_set_nth_inv; eauto. Qed.

(* --- a step that only changes one query's pc, neither from nor to QUsing / QRetiring --- *)
Lemma kinv_kset_q : forall s t qold qnew,
  KInv s -> nth_error (k_qs s) t = Some qold ->
  (forall e, is_qusing e qold = false) -> (forall e, is_qusing e qnew = false) ->
  (forall e, is_qretiring e qold = false) -> (forall e, is_qretiring e qnew = false) ->
  KInv (kset_q s t qnew).
Proof.
  intros s t qold qnew (A & B & C & D & E & H & F) Ht U1 U2 R1 R2.
  unfold KInv, kset_q; cbn [k_ents k_cache k_qs k_bad].
  assert (CN : forall e, cntP (is_qusing e) (set_nth (k_qs s) t qnew) = cntP (is_qusing e) (k_qs s)).
  { intro e. rewrite (cnt_set e _ _ _ _ Ht), U1, U2. cbn. lia. }
  repeat split; auto.
  - intros e en He. rewrite CN. auto.
  - intros e en He. destruct (D e en He) as [X|[X|[X|X]]]; auto.
    right; right; right. exact (retiring_set_keep e _ t qold qnew Ht (R1 e) X).
  - rewrite CN. apply E; auto.
  - apply retiring_set_false; auto. apply E; auto.
  - intros e X. apply H. exact (retiring_set_inv e _ t qnew (R2 e) X).
Qed.

Ltac rkeep := eapply retiring_set_keep; [eassumption | reflexivity | assumption].
Ltac rinv := eapply retiring_set_inv; [ | eassumption]; reflexivity.

Lemma k_lookup_inv : forall s t f a qold,
  KInv s -> nth_error (k_qs s) t = Some qold ->
  (forall e, is_qusing e qold = false) -> (forall e, is_qretiring e qold = false) ->
  KInv (k_lookup s t f a).
Proof.
  intros. unfold k_lookup. destruct (k_cache s); eapply kinv_kset_q; eauto.
Qed.

Ltac kproj := cbn [k_ents k_cache k_qs k_bad].

Lemma kq_step_inv : forall s t, KInv s -> KInv (kq_step true s t).
Proof.
  intros s t I. pose proof I as (A & B & C & D & E & H & F). unfold kq_step.
  destruct (nth_error (k_qs s) t) as [[f pc]|] eqn:Ht; auto.
  destruct pc as [|a|e a|e|e|e|r]; auto.
  - (* QIdle *) eapply k_lookup_inv; eauto.
  - (* QCreating *)
    assert (CN : forall x q', (forall y, is_qusing y q' = false) ->
              cntP (is_qusing x) (set_nth (k_qs s) t q') = cntP (is_qusing x) (k_qs s)).
    { intros x q' U. rewrite (cnt_set x _ _ _ _ Ht), U. cbn. lia. }
    destruct (k_cache s) as [e0|] eqn:Ca; unfold KInv; kproj.
    + (* lost the race: the new instance is closed at once *)
      repeat split; auto.
      * intros e en He. rewrite CN by auto.
        destruct (Nat.lt_ge_cases e (length (k_ents s))) as [L|L].
        -- rewrite nth_error_app1 in He by auto. auto.
        -- rewrite nth_error_app2 in He by auto. destruct (e - length (k_ents s))%nat as [|k] eqn:K; cbn in He; [|destruct k; discriminate].
           inversion He; subst. cbn. symmetry. apply E; auto.
      * intros e X. destruct (B e X) as (en & He & R1 & R2). exists en. rewrite nth_error_app1; auto.
        apply nth_error_Some. congruence.
      * intros e en He R Cl.
        destruct (Nat.lt_ge_cases e (length (k_ents s))) as [L|L].
        -- rewrite nth_error_app1 in He by auto. eauto.
        -- rewrite nth_error_app2 in He by auto. destruct (e - length (k_ents s))%nat as [|k]; cbn in He; [|destruct k; discriminate].
           inversion He; subst. discriminate.
      * intros e en He.
        destruct (Nat.lt_ge_cases e (length (k_ents s))) as [L|L].
        -- rewrite nth_error_app1 in He by auto. destruct (D e en He) as [X|[X|[X|X]]]; auto.
           right; right; right. rkeep.
        -- rewrite nth_error_app2 in He by auto. destruct (e - length (k_ents s))%nat as [|k]; cbn in He; [|destruct k; discriminate].
           inversion He; subst. left; auto.
      * rewrite CN by auto. apply E. rewrite app_length in H0. cbn in H0. lia.
      * apply retiring_set_false; auto. apply E. rewrite app_length in H0. cbn in H0. lia.
      * intros e X. apply H. rinv.
    + (* stored the new instance *)
      repeat split; auto.
      * intros e en He. rewrite CN by auto.
        destruct (Nat.lt_ge_cases e (length (k_ents s))) as [L|L].
        -- rewrite nth_error_app1 in He by auto. auto.
        -- rewrite nth_error_app2 in He by auto. destruct (e - length (k_ents s))%nat as [|k] eqn:K; cbn in He; [|destruct k; discriminate].
           inversion He; subst. cbn. symmetry. apply E; auto.
      * intros e X. inversion X; subst. exists fresh_ent. rewrite nth_error_app2, Nat.sub_diag by auto. cbn. auto.
      * intros e en He R Cl.
        destruct (Nat.lt_ge_cases e (length (k_ents s))) as [L|L].
        -- rewrite nth_error_app1 in He by auto. eauto.
        -- rewrite nth_error_app2 in He by auto. destruct (e - length (k_ents s))%nat as [|k]; cbn in He; [|destruct k; discriminate].
           inversion He; subst. discriminate.
      * intros e en He.
        destruct (Nat.lt_ge_cases e (length (k_ents s))) as [L|L].
        -- rewrite nth_error_app1 in He by auto. destruct (D e en He) as [X|[X|[X|X]]]; auto; try congruence.
           right; right; right. rkeep.
        -- rewrite nth_error_app2 in He by auto. destruct (e - length (k_ents s))%nat as [|k] eqn:K; cbn in He; [|destruct k; discriminate].
           right; left. f_equal. lia.
      * rewrite CN by auto. apply E. rewrite app_length in H0. cbn in H0. lia.
      * apply retiring_set_false; auto. apply E. rewrite app_length in H0. cbn in H0. lia.
      * intros e X Y. inversion Y; subst.
        assert (Z : existsb (is_qretiring (length (k_ents s))) (k_qs s) = false) by (apply E; auto).
        assert (Z2 : existsb (is_qretiring (length (k_ents s))) (k_qs s) = true) by rinv. congruence.
  - (* QHold *)
    destruct (nth_error (k_ents s) e) as [en|] eqn:He.
    + destruct (fe_retired en) eqn:R.
      * destruct a; [eapply k_lookup_inv; eauto|eapply kinv_kset_q; eauto].
      * (* beginUse succeeded *)
        unfold KInv; kproj.
        assert (CN : forall x, cntP (is_qusing x) (set_nth (k_qs s) t (f, QUsing e))
                               = (cntP (is_qusing x) (k_qs s) + b2z (Nat.eqb e x))%Z).
        { intro x. rewrite (cnt_set x _ _ _ _ Ht). cbn. lia. }
        repeat split; auto.
        -- intros x enx Hx. rewrite CN. apply nth_error_set_nth_cases in Hx as [(-> & -> & _)|(N & Hx)].
           ++ rewrite Nat.eqb_refl. cbn. rewrite (A _ _ He). lia.
           ++ destruct (Nat.eqb e x) eqn:Q; [apply Nat.eqb_eq in Q; congruence|]. cbn. rewrite (A _ _ Hx). lia.
        -- intros x X. destruct (B x X) as (enx & Hx & R1 & R2).
           destruct (Nat.eq_dec x e) as [->|N].
           ++ exists (ent_begin en). rewrite (nth_error_set_nth_eq _ _ _ _ He). rewrite He in Hx. inversion Hx; subst. auto.
           ++ exists enx. rewrite nth_error_set_nth_neq by auto. auto.
        -- intros x enx Hx Rx Cx. apply nth_error_set_nth_cases in Hx as [(-> & -> & _)|(N & Hx)]; eauto.
           cbn in Rx. congruence.
        -- intros x enx Hx. apply nth_error_set_nth_cases in Hx as [(-> & -> & _)|(N & Hx)].
           ++ destruct (D _ _ He) as [X|[X|[X|X]]]; auto. right; right; right. rkeep.
           ++ destruct (D _ _ Hx) as [X|[X|[X|X]]]; auto. right; right; right. rkeep.
        -- rewrite CN. rewrite length_set_nth in H0.
           assert (e < length (k_ents s))%nat by (apply nth_error_Some; congruence).
           destruct (Nat.eqb e e0) eqn:Q; [apply Nat.eqb_eq in Q; lia|]. cbn. rewrite (proj1 (E e0 H0)). lia.
        -- rewrite length_set_nth in H0. apply retiring_set_false; auto. apply E; auto.
        -- intros x X. apply H. rinv.
    + eapply kinv_kset_q; eauto.
  - (* QUsing: endUse *)
    destruct (nth_error (k_ents s) e) as [en|] eqn:He; auto.
    unfold KInv; kproj.
    assert (CN : forall x, cntP (is_qusing x) (set_nth (k_qs s) t (f, QEnded e))
                           = (cntP (is_qusing x) (k_qs s) - b2z (Nat.eqb e x))%Z).
    { intro x. rewrite (cnt_set x _ _ _ _ Ht). cbn. lia. }
    repeat split; auto.
    + intros x enx Hx. rewrite CN. apply nth_error_set_nth_cases in Hx as [(-> & -> & _)|(N & Hx)].
      * rewrite Nat.eqb_refl. cbn. rewrite (A _ _ He). lia.
      * destruct (Nat.eqb e x) eqn:Q; [apply Nat.eqb_eq in Q; congruence|]. cbn. rewrite (A _ _ Hx). lia.
    + intros x X. destruct (B x X) as (enx & Hx & R1 & R2).
      destruct (Nat.eq_dec x e) as [->|N].
      * exists (ent_enduse en). rewrite (nth_error_set_nth_eq _ _ _ _ He). rewrite He in Hx. inversion Hx; subst.
        cbn. rewrite R1, R2, andb_false_r. auto.
      * exists enx. rewrite nth_error_set_nth_neq by auto. auto.
    + intros x enx Hx Rx Cx. apply nth_error_set_nth_cases in Hx as [(-> & -> & _)|(N & Hx)]; eauto.
      cbn in *. rewrite Rx in Cx. apply orb_false_iff in Cx as [_ Cx]. rewrite andb_true_r in Cx.
      apply Z.eqb_neq in Cx. auto.
    + intros x enx Hx. apply nth_error_set_nth_cases in Hx as [(-> & -> & _)|(N & Hx)].
      * destruct (D _ _ He) as [X|[X|[X|X]]]; auto.
        -- left. cbn. rewrite X. auto.
        -- right; right; right. rkeep.
      * destruct (D _ _ Hx) as [X|[X|[X|X]]]; auto. right; right; right. rkeep.
    + rewrite CN. rewrite length_set_nth in H0.
      assert (e < length (k_ents s))%nat by (apply nth_error_Some; congruence).
      destruct (Nat.eqb e e0) eqn:Q; [apply Nat.eqb_eq in Q; lia|]. cbn. rewrite (proj1 (E e0 H0)). lia.
    + rewrite length_set_nth in H0. apply retiring_set_false; auto. apply E; auto.
    + intros x X. apply H. rinv.
    + rewrite F. cbn [orb]. unfold close_in_flight.
      destruct (fe_closed en) eqn:Cl; cbn [negb andb]; auto.
      destruct (fe_closed (ent_enduse en)) eqn:Cl'; cbn [andb]; auto.
      cbn in Cl'. rewrite Cl in Cl'. cbn in Cl'. apply andb_true_iff in Cl' as [Z0 _]. apply Z.eqb_eq in Z0.
      apply existsb_cnt0. rewrite CN, Nat.eqb_refl. cbn. rewrite <- (A _ _ He). lia.
  - (* QEnded *)
    destruct f; [|eapply kinv_kset_q; eauto].
    destruct (k_cache s) as [e'|] eqn:Ca; [|eapply kinv_kset_q; eauto].
    destruct (Nat.eqb e' e) eqn:Q; [|eapply kinv_kset_q; eauto].
    apply Nat.eqb_eq in Q; subst e'.
    unfold KInv; kproj.
    assert (CN : forall x, cntP (is_qusing x) (set_nth (k_qs s) t (true, QRetiring e)) = cntP (is_qusing x) (k_qs s)).
    { intro x. rewrite (cnt_set x _ _ _ _ Ht). cbn. lia. }
    repeat split; auto; try discriminate.
    + intros x enx Hx. rewrite CN. auto.
    + intros x enx Hx. destruct (D _ _ Hx) as [X|[X|[X|X]]]; auto.
      * inversion X; subst. right; right; right. eapply existsb_set_nth_new; eauto. cbn. apply Nat.eqb_refl.
      * right; right; right. rkeep.
    + rewrite CN. apply E; auto.
    + destruct (B e eq_refl) as (en & He & _). assert (e < length (k_ents s))%nat by (apply nth_error_Some; congruence).
      apply retiring_set_false; [cbn; apply Nat.eqb_neq; lia|apply E; auto].
  - (* QRetiring *)
    destruct (nth_error (k_ents s) e) as [en|] eqn:He; auto.
    unfold KInv; kproj.
    assert (CN : forall x, cntP (is_qusing x) (set_nth (k_qs s) t (f, QDone 1)) = cntP (is_qusing x) (k_qs s)).
    { intro x. rewrite (cnt_set x _ _ _ _ Ht). cbn. lia. }
    assert (NC : k_cache s <> Some e).
    { apply H. eapply existsb_nth; eauto. cbn. apply Nat.eqb_refl. }
    repeat split; auto.
    + intros x enx Hx. rewrite CN. apply nth_error_set_nth_cases in Hx as [(-> & -> & _)|(N & Hx)]; auto.
      cbn. apply (A _ _ He).
    + intros x X. destruct (B x X) as (enx & Hx & R1 & R2).
      destruct (Nat.eq_dec x e) as [->|N]; [congruence|].
      exists enx. rewrite nth_error_set_nth_neq by auto. auto.
    + intros x enx Hx Rx Cx. apply nth_error_set_nth_cases in Hx as [(-> & -> & _)|(N & Hx)]; eauto.
      cbn in *. apply orb_false_iff in Cx as [_ Cx]. apply Z.eqb_neq in Cx. auto.
    + intros x enx Hx. apply nth_error_set_nth_cases in Hx as [(-> & -> & _)|(N & Hx)].
      * right; right; left. reflexivity.
      * destruct (D _ _ Hx) as [X|[X|[X|X]]]; auto. right; right; right.
        eapply retiring_set_keep; [eassumption | cbn; apply Nat.eqb_neq; auto | assumption].
    + rewrite CN. rewrite length_set_nth in H0. apply E; auto.
    + rewrite length_set_nth in H0. apply retiring_set_false; auto. apply E; auto.
    + intros x X. apply H. rinv.
    + rewrite F. cbn [orb]. unfold close_in_flight.
      destruct (fe_closed en) eqn:Cl; cbn [negb andb]; auto.
      destruct (fe_closed (ent_retire en)) eqn:Cl'; cbn [andb]; auto.
      cbn in Cl'. rewrite Cl in Cl'. cbn in Cl'. apply Z.eqb_eq in Cl'.
      apply existsb_cnt0. rewrite CN. rewrite <- (A _ _ He). auto.
Qed.

Lemma kstep_inv : forall s ev, KInv s -> KInv (kstep true s ev).
Proof.
  intros s ev I. destruct ev as [f|t| |]; cbn [kstep].
  - (* spawn *)
    destruct I as (A & B & C & D & E & H & F). unfold KInv; kproj.
    assert (CN : forall x, cntP (is_qusing x) (k_qs s ++ [(f, QIdle)]) = cntP (is_qusing x) (k_qs s)).
    { intro x. rewrite cntP_app1. cbn. lia. }
    assert (RN : forall x, existsb (is_qretiring x) (k_qs s ++ [(f, QIdle)]) = existsb (is_qretiring x) (k_qs s)).
    { intro x. rewrite existsb_app1. cbn. apply orb_false_r. }
    repeat split; auto.
    + intros e en He. rewrite CN; auto.
    + intros e en He. rewrite RN; auto.
    + rewrite CN. apply E; auto.
    + rewrite RN. apply E; auto.
    + intros e X. rewrite RN in X. auto.
  - apply kq_step_inv; auto.
  - (* reload: retireAll *)
    pose proof I as (A & B & C & D & E & H & F).
    destruct (k_cache s) as [e|] eqn:Ca; auto.
    destruct (nth_error (k_ents s) e) as [en|] eqn:He; auto.
    unfold KInv; kproj. repeat split; auto; try discriminate.
    + intros x enx Hx. apply nth_error_set_nth_cases in Hx as [(-> & -> & _)|(N & Hx)]; auto.
      cbn. apply (A _ _ He).
    + intros x enx Hx Rx Cx. apply nth_error_set_nth_cases in Hx as [(-> & -> & _)|(N & Hx)]; eauto.
      cbn in *. apply orb_false_iff in Cx as [_ Cx]. apply Z.eqb_neq in Cx. auto.
    + intros x enx Hx. apply nth_error_set_nth_cases in Hx as [(-> & -> & _)|(N & Hx)].
      * right; right; left. reflexivity.
      * destruct (D _ _ Hx) as [X|[X|[X|X]]]; auto. inversion X; congruence.
    + rewrite length_set_nth in H0. apply E; auto.
    + rewrite length_set_nth in H0. apply E; auto.
    + rewrite F. cbn [orb]. unfold close_in_flight.
      destruct (fe_closed en) eqn:Cl; cbn [negb andb]; auto.
      destruct (fe_closed (ent_retire en)) eqn:Cl'; cbn [andb]; auto.
      cbn in Cl'. rewrite Cl in Cl'. cbn in Cl'. apply Z.eqb_eq in Cl'.
      apply existsb_cnt0. rewrite <- (A _ _ He). auto.
  - (* closeAll *)
    pose proof I as (A & B & C & D & E & H & F).
    destruct (k_cache s) as [e|] eqn:Ca; auto.
    destruct (nth_error (k_ents s) e) as [en|] eqn:He; auto.
    unfold KInv; kproj. repeat split; auto; try discriminate.
    + intros x enx Hx. apply nth_error_set_nth_cases in Hx as [(-> & -> & _)|(N & Hx)]; auto.
      cbn. apply (A _ _ He).
    + intros x enx Hx Rx Cx. apply nth_error_set_nth_cases in Hx as [(-> & -> & _)|(N & Hx)]; eauto.
      cbn in Cx. discriminate.
    + intros x enx Hx. apply nth_error_set_nth_cases in Hx as [(-> & -> & _)|(N & Hx)].
      * left. reflexivity.
      * destruct (D _ _ Hx) as [X|[X|[X|X]]]; auto. inversion X; congruence.
    + rewrite length_set_nth in H0. apply E; auto.
    + rewrite length_set_nth in H0. apply E; auto.
Qed.

Lemma kinv_init : KInv kinit.
Proof.
  unfold KInv, kinit; cbn. repeat split; auto; try discriminate.
  - intros [|e] en He; discriminate.
  - intros [|e] en He; discriminate.
  - intros [|e] en He; discriminate.
Qed.

Lemma kfold_inv : forall evs s, KInv s -> KInv (fold_left (kstep true) evs s).
Proof. induction evs; cbn; intros; auto. apply IHevs, kstep_inv; auto. Qed.

Definition all_closed (s : kstate) : bool := forallb fe_closed (k_ents s).

Lemma C09_forwarder_cache_no_leak_proof : forall evs,
  let s := krun true evs in
  (* the cache never holds a retired or closed entry *)
  (forall e, k_cache s = Some e -> exists en, nth_error (k_ents s) e = Some en /\ fe_retired en = false /\ fe_closed en = false) /\
  (* no instance is closed by endUse / retire while a query is inside it *)
  k_bad s = false /\
  (* at quiescence every instance ever created is closed, except the one still cached ... *)
  (k_quiescent s = true -> forall e en, nth_error (k_ents s) e = Some en -> fe_closed en = true \/ k_cache s = Some e) /\
  (* ... which closeAll closes: then every instance is closed and the cache is empty *)
  (k_quiescent s = true -> all_closed (kstep true s KCloseAll) = true /\ k_cache (kstep true s KCloseAll) = None).
Proof.
  intros evs s. pose proof (kfold_inv evs kinit kinv_init) as I. fold (krun true evs) in I. fold s in I.
  pose proof I as (A & B & C & D & E & H & F).
  assert (Q : k_quiescent s = true -> forall e en, nth_error (k_ents s) e = Some en -> fe_closed en = true \/ k_cache s = Some e).
  { intros Qs e en He. unfold k_quiescent in Qs.
    assert (NU : existsb (is_qusing e) (k_qs s) = false).
    { apply (forallb_existsb_contra q_quiet); auto. intros [f []]; cbn; auto; discriminate. }
    assert (NR : existsb (is_qretiring e) (k_qs s) = false).
    { apply (forallb_existsb_contra q_quiet); auto. intros [f []]; cbn; auto; discriminate. }
    destruct (D _ _ He) as [X|[X|[X|X]]]; auto; [|congruence].
    destruct (fe_closed en) eqn:Cl; auto. exfalso. apply (C _ _ He X Cl).
    rewrite (A _ _ He). destruct (Z.eq_dec (cntP (is_qusing e) (k_qs s)) 0) as [Z0|Z0]; auto.
    rewrite (cntP_pos_existsb _ _ Z0) in NU. discriminate. }
  split; [exact B|split; [exact F|split; [exact Q|]]].
  intros Qs. cbn [kstep]. destruct (k_cache s) as [e|] eqn:Ca.
  - destruct (B e eq_refl) as (en & He & _). rewrite He. unfold all_closed; kproj. split; auto.
    apply forallb_forall. intros x Hx. apply In_nth_error in Hx as [i Hi].
    apply nth_error_set_nth_cases in Hi as [(-> & -> & _)|(N & Hi)]; [reflexivity|].
    destruct (Q Qs _ _ Hi) as [X|X]; auto. inversion X; congruence.
  - split; auto. unfold all_closed. apply forallb_forall. intros x Hx. apply In_nth_error in Hx as [i Hi].
    destruct (Q Qs _ _ Hi) as [X|X]; auto. discriminate.
Qed.

(* the variant whose retire-by-key deletes the slot unconditionally leaks the replacement instance *)
Lemma C09_forwarder_cache_unconditional_delete_refuted_proof :
  exists evs, let s := krun false evs in
    k_quiescent s = true /\ all_closed (kstep false s KCloseAll) = false.
Proof.
  (* A, B on #0; A fails and retires #0; C creates #1; B fails: deletes #1's slot; D creates #2 *)
  exists [KSpawn true; KSpawn true; KSpawn false; KSpawn false;
          KQ 0; KQ 0; KQ 0; KQ 1; KQ 1;          (* A: miss, create #0, using; B: hit #0, using *)
          KQ 0; KQ 0; KQ 0;                      (* A fails: endUse, delete #0, retire #0 *)
          KQ 2; KQ 2; KQ 2;                      (* C: miss, create #1, using *)
          KQ 1; KQ 1; KQ 1;                      (* B fails: endUse, delete (#1's slot!), retire #0 -> closed *)
          KQ 3; KQ 3; KQ 3; KQ 3; KQ 3;          (* D: miss, create #2, used, done *)
          KQ 2; KQ 2]%nat.                       (* C finishes *)
  vm_compute. split; reflexivity.
Qed.

Print Assumptions C09_forwarder_cache_no_leak_proof.
