(* C19 — property theorems only.  Each is closed by `exact` of a lemma of C19_Proofs.v. *)
From Coq Require Import List NArith Bool String.
From Dae Require Import C19_Spec C19_Lang C19_Model C19_Proofs.
From Dae.gen Require Import C19_Decls.
Import ListNotations.
Open Scope N_scope.

(* Every shared C declaration and its Go mirror (stub-build types, the hand-written real-build types, the
   load-time PARAM literal) have the same size and the same data fields: same (normalised) name, offset,
   width and count, in order.  Exhaustive over the declarations extracted from the current tree. *)
Theorem C19_layouts_agree : forallb pair_agree pairs = true.
Proof. exact layouts_agree_proof. Qed.
Print Assumptions C19_layouts_agree.

(* The real-build hand-written Go types equal the stub-build types of the same name, and no Go mirror type
   lacks a C declaration. *)
Theorem C19_real_stub_agree : forallb gopair_agree gopairs = true /\ unpaired_go = [].
Proof. exact (conj real_stub_agree_proof no_unpaired_proof). Qed.
Print Assumptions C19_real_stub_agree.

(* Every shared enumerator and limit has the same value in C, in Go and (where present) in the JSON spec. *)
Theorem C19_enums_agree : forallb const_agree shared_consts = true.
Proof. exact enums_agree_proof. Qed.
Print Assumptions C19_enums_agree.

(* Connectivity slots, for all outbound ids, network types and packet classes. *)
Theorem C19_connectivity_key :
  forall (o : N) (t : go_nettype) (l4 : N),
    o < 256 ->
    go_conn_key o t = spec_conn_slot o (go_nt_domain t) (nt_v6 t)
    /\ c_conn_key o l4 false (negb (nt_v6 t)) = Some (spec_conn_slot o (c_pkt_domain l4) (nt_v6 t))
    /\ (go_nt_domain t = c_pkt_domain l4 -> c_conn_key o l4 false (negb (nt_v6 t)) = Some (go_conn_key o t))
    /\ (forall o' t', o' < 256 -> go_conn_key o' t' = go_conn_key o t -> o' = o /\ go_nt_domain t' = go_nt_domain t /\ nt_v6 t' = nt_v6 t)
    /\ go_conn_key o t < c_conn_map_entries.
Proof. exact connectivity_key_proof. Qed.
Print Assumptions C19_connectivity_key.

(* Flow-tuple keys, for every host byte order, every flow and every Go representation of its addresses
   (IPv4 peers as 4 or 4-in-6): the memory image of the bpfTuplesKey the control plane builds and the
   struct tuples_key the kernel builds are both the key of the flow: mapped addresses, network-order ports,
   protocol, three zero bytes. *)
Theorem C19_tuple_key_bytes :
  forall (e : endian) (f : flow) (gs gd : goaddr),
    flow_ok f -> same_family f -> go_repr gs (f_src f) -> go_repr gd (f_dst f) ->
    go_tuples_key e gs gd (f_sport f) (f_dport f) (f_proto f) = spec_tuple_key f
    /\ c_flow_key e f = Some (spec_tuple_key f).
Proof. exact tuple_key_bytes_proof. Qed.
Print Assumptions C19_tuple_key_bytes.

(* Reply direction: the key copy_reversed_tuples() builds from the packet of flow f, WHATEVER the destination
   slot held before (every call site passes an uninitialised stack variable), is the key of the reversed flow,
   padding zero, and is byte-identical to the control plane's key of the reversed tuple. *)
Theorem C19_reversed_tuple_key_bytes :
  forall (e : endian) (f : flow) (gs gd : goaddr) (prior : list N),
    flow_ok f -> same_family f -> go_repr gs (f_src f) -> go_repr gd (f_dst f) ->
    List.length prior = size_tk_c ->
    c_reversed_flow_key e prior f = Some (spec_tuple_key (reverse_flow f))
    /\ go_tuples_key e gd gs (f_dport f) (f_sport f) (f_proto f) = spec_tuple_key (reverse_flow f).
Proof. exact reversed_tuple_key_bytes_proof. Qed.
Print Assumptions C19_reversed_tuple_key_bytes.

(* Every use, in the control plane, of a field of a kernel-mirror struct against a constant (comparison, switch
   case, assignment, composite literal; integer literals and named constants alike) uses a declared value of the
   corresponding C enumeration, and where the Go branch or the constant's name says which enumerator is meant,
   that enumerator's value.  Exhaustive over the uses extracted from the current tree. *)
Theorem C19_magic_numbers_agree : forallb magic_ok magic_uses = true.
Proof. exact magic_numbers_agree_proof. Qed.
Print Assumptions C19_magic_numbers_agree.

(* conn_state.state: for every kernel history (FIN/RST seen or not) and every age, the janitor classifies the state
   value the kernel stores as closing exactly when the kernel saw FIN/RST, hence applies the timeout of that class. *)
Theorem C19_janitor_state_agrees :
  forall (fin_seen : bool) (age_ns : N),
    go_janitor_is_closing (c_state_after fin_seen) = fin_seen
    /\ go_janitor_deletes (c_state_after fin_seen) age_ns = spec_janitor_deletes fin_seen age_ns.
Proof. exact janitor_state_agrees_proof. Qed.
Print Assumptions C19_janitor_state_agrees.

(* The one build option MAX_MATCH_SET_LEN = N reaches C as -D and Go as a link-time string.  For every N the
   control plane's init() accepts (does not panic on), the limits both sides derive are equal: rule-count limit,
   bitmap words (exact: the words cover every rule index), and every LPM ring index is a kernel slot. *)
Theorem C19_limit_override_agrees : forall n m, go_rule_limit n = Some m -> limits_agree n m.
Proof. exact limit_override_agrees_proof. Qed.
Print Assumptions C19_limit_override_agrees.

(* ... which is false of an init() that rounds up instead of refusing (witness N = 1000: kernel 1000, Go 1024). *)
Theorem C19_limit_override_rounding_refuted :
  exists n m, run_init [IRoundUp 31 32] n = Some m /\ ~ limits_agree n m.
Proof. exact limit_override_rounding_refuted_proof. Qed.
Print Assumptions C19_limit_override_rounding_refuted.

(* LPM keys: every prefix in every Go representation gives the spec key; the kernel's lookup keys for a
   packet are the full-length spec keys of its addresses; a host prefix's key is byte-identical to the lookup key. *)
Theorem C19_lpm_key_bytes :
  (forall g gbits p, prefix_ok p -> go_prefix_repr g gbits p -> go_lpm_key LE g gbits = spec_lpm_key p)
  /\ (forall f, same_family f ->
        c_route_daddr_key LE f = Some (spec_lpm_lookup_key (f_dst f))
        /\ c_route_saddr_key LE f = Some (spec_lpm_lookup_key (f_src f)))
  /\ (forall a, spec_lpm_key (host_prefix a) = spec_lpm_lookup_key a).
Proof. exact lpm_key_bytes_proof. Qed.
Print Assumptions C19_lpm_key_bytes.

(* What is NOT proved for all inputs: that the kernel trie semantics on these bytes coincide with CIDR
   containment.  Checked on every generated case (model lpm_entry_matches and the C trie stand-in). *)
Definition C19_lpm_semantics_full : Prop :=
  forall p a, prefix_ok p -> ipaddr_ok a ->
    lpm_entry_matches LE (spec_lpm_key p) (spec_lpm_lookup_key a) = prefix_contains p a.

Theorem C19_domain_key_bytes :
  forall (e : endian) (f : flow) (g : goaddr),
    flow_ok f -> same_family f -> go_repr g (f_dst f) ->
    go_domain_key e g = spec_domain_key (f_dst f) /\ c_domain_key LE f = Some (spec_domain_key (f_dst f)).
Proof. exact domain_key_bytes_proof. Qed.
Print Assumptions C19_domain_key_bytes.

Theorem C19_mac_key_bytes :
  forall (e : endian) (mac : list N), List.length mac = 6%nat -> Forall (fun b => b < 256) mac ->
    go_mac_key LE mac = spec_mac_key mac /\ c_mac_key LE mac = spec_mac_key mac.
Proof. exact mac_key_proof. Qed.
Print Assumptions C19_mac_key_bytes.

(* match_set parameter values: what Go writes (explicit little endian) is the spec image, and the kernel's
   native member reads give back the logical value on a little-endian host ... *)
Theorem C19_matchset_value :
  forall v, ms_value_ok v -> go_ms_value v = spec_ms_value v /\ c_ms_read LE (go_ms_value v) v = v.
Proof. exact matchset_value_proof. Qed.
Print Assumptions C19_matchset_value.

(* ... and NOT on a big-endian host (dae targets little-endian hosts only; recorded, not a finding). *)
Definition C19_matchset_value_anyendian_full : Prop :=
  forall e v, ms_value_ok v -> c_ms_read e (go_ms_value v) v = v.
Theorem C19_matchset_value_bigendian_refuted :
  exists v, ms_value_ok v /\ c_ms_read BE (go_ms_value v) v <> v.
Proof. exact matchset_value_bigendian_refuted_proof. Qed.
Print Assumptions C19_matchset_value_bigendian_refuted.

(* Layout functions: every layout they produce for an extracted declaration is well formed (leaves in
   increasing non-overlapping order, inside the object, aligned to their width, size a multiple of the
   alignment).  Full statement (for every declaration of the language) kept visible; proved part: decided for
   every declaration of the current tree. *)
Definition C19_layout_functions_sound_full : Prop :=
  forall L t, ty_ok t = true -> lang_ok L t = true -> layout_wf (layout_of L false t).
Theorem C19_layout_functions_sound_partial : Forall layout_wf all_layouts /\ key_fields_present = true.
Proof. exact (conj all_layouts_wf_proof key_fields_present_proof). Qed.
Print Assumptions C19_layout_functions_sound_partial.

(* Non-vacuity: a concrete IPv4 flow whose source the control plane sees in 4-in-6 form. *)
Example C19_nonvacuous :
  let f := mkflow (IP4 0x01020304) (IP4 0x0a060708) 40000 53 17 in
  flow_ok f /\ same_family f /\ go_repr (G6 (0xffff * 2 ^ 32 + 0x01020304)) (f_src f) /\ go_repr (G4 0x0a060708) (f_dst f)
  /\ spec_tuple_key f = [0;0;0;0;0;0;0;0;0;0;255;255;1;2;3;4; 0;0;0;0;0;0;0;0;0;0;255;255;10;6;7;8; 156;64; 0;53; 17; 0;0;0]
  /\ pairs <> [] /\ shared_consts <> [].
Proof. exact nonvacuous_proof. Qed.
