(* C04 — executable comparison functions used by the generated cases file (no proofs).
   A packet is the index of a probe; the meaning of single values and of outbounds comes from tables the
   harness filled by asking the real builders/matchers (oracle answers as data). *)
From Coq Require Import List String Ascii Bool NArith.
From Dae Require Import C04_Spec C04_Model.
Import ListNotations.
Open Scope string_scope.

Fixpoint list_eqb {A} (eqb : A -> A -> bool) (l1 l2 : list A) : bool :=
  match l1, l2 with
  | [], [] => true
  | x :: t1, y :: t2 => eqb x y && list_eqb eqb t1 t2
  | _, _ => false
  end.
Definition param_eqb (a b : param) : bool := (p_key a =? p_key b) && (p_val a =? p_val b).
Definition func_eqb (a b : func) : bool :=
  (f_name a =? f_name b) && Bool.eqb (f_not a) (f_not b) && list_eqb param_eqb (f_params a) (f_params b).
Definition rule_eqb (a b : rule) : bool := list_eqb func_eqb (r_funcs a) (r_funcs b) && func_eqb (r_out a) (r_out b).
Definition rules_eqb := list_eqb rule_eqb.

Definition atom := (string * string * string)%type.
Definition atom_eqb (a b : atom) : bool :=
  let '(f1, k1, v1) := a in let '(f2, k2, v2) := b in (f1 =? f2) && (k1 =? k2) && (v1 =? v2).

(* meaning of an outbound: None = must_rules, Some (id of (name, mark), must parameter) *)
Definition meaning := (N * bool)%type.

Record obs_case := {
  oc_traffic : bool;                                   (* true: traffic pipeline; false: DNS pipeline *)
  oc_db : geodb;
  oc_raw : list rule;
  oc_stages : list (option (list rule));               (* implementation: AST after each stage, None = error *)
  oc_atoms : list (atom * N);                          (* truth of a value on every probe: bit i = probe i *)
  oc_outs : list (func * option meaning);
  oc_fallback : meaning;
  oc_nprobes : nat;
  oc_cmp_build : bool;                                 (* values and outbounds are all valid: a build error can only be an empty condition *)
  oc_raw_build_err : bool;                             (* implementation: building the un-merged list failed *)
  oc_opt_build_err : bool;                             (* implementation: building the optimised list failed *)
  oc_dec_raw_ok : bool;                                (* decisions of the un-merged list are available *)
  oc_dec_opt_ok : bool;                                (* decisions of the optimised list are available *)
  oc_dec_raw : list (N * bool);                        (* implementation, matcher of the un-merged list *)
  oc_dec_opt : list (N * bool)                         (* implementation, matcher of the optimised list *)
}.

Section Case.
  Variable c : obs_case.

  Definition atom_lookup (a : atom) : option N :=
    match find (fun e => atom_eqb (fst e) a) (oc_atoms c) with Some e => Some (snd e) | None => None end.
  Definition t_atom (f k v : string) (i : nat) : bool :=
    match atom_lookup (f, k, v) with Some bits => N.testbit bits (N.of_nat i) | None => false end.
  Definition t_out (o : func) : option meaning :=
    match find (fun e => func_eqb (fst e) o) (oc_outs c) with Some e => snd e | None => Some (9999%N, false) end.

  Definition observable (d : option meaning * bool) : N * bool :=
    match d with
    | (Some (id, om), acc) => (id, om || acc)
    | (None, acc) => (fst (oc_fallback c), snd (oc_fallback c) || acc)
    end.
  Definition obs_eqb (a b : N * bool) : bool := N.eqb (fst a) (fst b) && Bool.eqb (snd a) (snd b).

  Definition spec_decision (i : nat) : N * bool := observable (decide nat meaning t_atom t_out (oc_raw c) i).

  Definition model_stages : list (xres (list rule)) :=
    if oc_traffic c then traffic_stages (oc_db c) (oc_raw c) else dns_stages (oc_db c) (oc_raw c).
  Definition model_final : xres (list rule) := last model_stages XErr.
  (* the model's compiled program: lower + scan on the model's optimised list; None = build error *)
  Definition compiled_obs (rs : list rule) (i : nat) : option (N * bool) :=
    match compiled_decision nat meaning t_atom t_out rs i with
    | CDecision d => Some (observable d)
    | CNoHit => Some (7777%N, false)          (* "no match set hit" *)
    | CBuildError => None
    end.
  Definition model_builds (x : xres (list rule)) : bool :=
    match x with XOk rs => match lower rs with Some _ => true | None => false end | _ => false end.
  Definition model_decision (i : nat) : option (N * bool) :=
    match model_final with XOk rs => compiled_obs rs i | _ => None end.

  Definition stage_agrees (m : xres (list rule)) (o : option (list rule)) : bool :=
    match m, o with
    | XOk a, Some b => rules_eqb a b
    | XErr, None => true
    | XCrash, None => true
    | _, _ => false
    end.

  (* every atom of a list is in the table *)
  Definition atoms_of (rs : list rule) : list atom :=
    flat_map (fun r => flat_map (fun f => map (fun p => (f_name f, p_key p, p_val p)) (f_params f)) (r_funcs r)) rs.
  Definition atoms_known (rs : list rule) : bool :=
    forallb (fun a => match atom_lookup a with Some _ => true | None => false end) (atoms_of rs).

  Definition probes : list nat := seq 0 (oc_nprobes c).

  (* the table respects aliases and the model's geodata expansion on the values of this case *)
  Definition table_respects : bool :=
    forallb (fun r =>
      forallb (fun f =>
        forallb (fun p =>
          forallb (fun i =>
            Bool.eqb (t_atom (f_name f) (p_key p) (p_val p) i)
                     (t_atom (canon_fname (f_name f)) (canon_key (canon_fname (f_name f)) (p_key p)) (p_val p) i)
            && (let cf := canon_fname (f_name f) in
                let cp := {| p_key := canon_key cf (p_key p); p_val := p_val p |} in
                match expand_param (oc_db c) cf cp with
                | XOk ps => Bool.eqb (t_atom cf (p_key cp) (p_val cp) i)
                                     (existsb (fun q => t_atom cf (p_key q) (p_val q) i) ps)
                | _ => true
                end)) probes) (f_params f)) (r_funcs r)) (oc_raw c).

  (* hypotheses of the partial theorems, decided on this case *)
  Definition neg_head_b (r : rule) : bool := match r_funcs r with [f] => f_not f | _ => false end.
  Definition meaning_eqb (a b : option meaning) : bool :=
    match a, b with
    | Some x, Some y => obs_eqb x y
    | None, None => true
    | _, _ => false
    end.
  (* negated single-condition neighbours with equal name and printed outbound: merged before /repo ec2de34,
     must be left alone now (counted for coverage and to name a regression) *)
  Definition neg_neighbours (a b : rule) : bool :=
    match r_funcs a, r_funcs b with
    | [fa], [fb] => (f_name fa =? f_name fb) && f_not fa && f_not fb && (out_print (r_out b) =? out_print (r_out a))
    | _, _ => false
    end.
  Fixpoint hazards (rs : list rule) : list (N * N) :=   (* (negated neighbours, outbound-print collisions) *)
    match rs with
    | a :: t =>
        match t with
        | b :: _ => [((if neg_neighbours a b then 1 else 0),
                      (if mergeable a b && negb (meaning_eqb (t_out (r_out a)) (t_out (r_out b))) then 1 else 0))%N]
        | [] => []
        end ++ hazards t
    | [] => []
    end.
  Definition n_neg_hazards (rs : list rule) : N := fold_right (fun h acc => (fst h + acc)%N) 0%N (hazards rs).
  Definition n_out_hazards (rs : list rule) : N := fold_right (fun h acc => (snd h + acc)%N) 0%N (hazards rs).

  Definition dedup_collisions (rs : list rule) : N :=
    fold_right N.add 0%N
      (map (fun r => fold_right N.add 0%N
         (map (fun f =>
            N.of_nat (List.length (filter (fun pq =>
              (param_print (fst pq) =? param_print (snd pq)) &&
              negb (forallb (fun i => Bool.eqb (t_atom (f_name f) (p_key (fst pq)) (p_val (fst pq)) i)
                                               (t_atom (f_name f) (p_key (snd pq)) (p_val (snd pq)) i)) probes))
              (list_prod (f_params f) (f_params f))))) (r_funcs r))) rs).

  Definition mid_stage : xres (list rule) :=
    nth (if oc_traffic c then 1 else 0) model_stages XErr.
  Definition n_empty_conditions (rs : list rule) : N :=
    N.of_nat (List.length (filter (fun f => match f_params f with [] => true | _ => false end) (flat_map r_funcs rs))
              + List.length (filter (fun r => match r_funcs r with [] => true | _ => false end) rs)).
  Definition hypotheses_hold : bool :=
    match mid_stage with
    | XOk mid => N.eqb (n_out_hazards (map sort_funcs mid)) 0
                 && N.eqb (dedup_collisions (merge_sort_opt mid)) 0
    | _ => true
    end.
  Definition model_mid_decision (i : nat) : option (N * bool) :=
    match mid_stage with XOk rs => compiled_obs rs i | _ => None end.

  Fixpoint index_errs {A B} (f : nat -> A -> B -> bool) (i : nat) (l1 : list A) (l2 : list B) (code : N) : list (N * N) :=
    match l1, l2 with
    | x :: t1, y :: t2 => (if f i x y then [] else [(N.of_nat i, code)]) ++ index_errs f (S i) t1 t2 code
    | [], [] => []
    | _, _ => [(N.of_nat i, code)]
    end.

  (* error codes:
       1 (stage k)  implementation AST / error-ness after stage k differs from the model     (tie)
       2 (probe i)  implementation decision on the optimised list differs from the spec      (the property)
       3 (probe i)  model decision differs from the spec although the partial theorems' hypotheses hold
       4 (probe i)  implementation decision on the un-merged list differs from the spec      (grounding)
       5            oracle tables incomplete or not alias/geodata respecting
       11 (probe i) implementation decision (optimised list) differs from the model's compiled program (tie, lowering+scan)
       12 (probe i) implementation decision (un-merged list) differs from the model's compiled program      (tie)
       13           building the optimised list fails in the implementation but not in the model, or vice versa (tie)
       14           the same for the un-merged list                                                             (tie)
       7 (probe i)  model decision differs from the spec, hypotheses do NOT hold (expected: refuted statement) *)
  Definition check_case : list (N * N) :=
    index_errs (fun _ m o => stage_agrees m o) 0 model_stages (oc_stages c) 1%N
    ++ (if atoms_known (oc_raw c) && table_respects
           && match model_final with XOk rs => atoms_known rs | _ => true end then [] else [(0, 5)]%N)
    ++ (if oc_cmp_build c && match model_final with XOk _ => true | _ => false end then
          (if Bool.eqb (oc_opt_build_err c) (negb (model_builds model_final)) then [] else [(0, 13)]%N)
          ++ (if Bool.eqb (oc_raw_build_err c) (negb (model_builds mid_stage)) then [] else [(0, 14)]%N)
        else [])
    ++ (if oc_dec_opt_ok c then
          index_errs (fun i _ d => obs_eqb d (spec_decision i)) 0 probes (oc_dec_opt c) 2%N
          ++ index_errs (fun i _ d => match model_decision i with Some m => obs_eqb d m | None => false end) 0 probes (oc_dec_opt c) 11%N
        else [])
    ++ (if oc_dec_raw_ok c then
          index_errs (fun i _ d => obs_eqb d (spec_decision i)) 0 probes (oc_dec_raw c) 4%N
          ++ index_errs (fun i _ d => match model_mid_decision i with Some m => obs_eqb d m | None => false end) 0 probes (oc_dec_raw c) 12%N
        else [])
    ++ flat_map (fun i => match model_decision i with
                          | Some d => if obs_eqb d (spec_decision i) then []
                                      else [(N.of_nat i, if hypotheses_hold then 3 else 7)%N]
                          | None => []
                          end) probes.

  (* signature for the evidence: (rules merged away, values removed by dedup, values added by geodata,
     negated neighbours (must stay unmerged), outbound-print hazards, dedup collisions, model class 0 ok/1 err/2 crash,
     conditions left without values) *)
  Definition count_params (rs : list rule) : N :=
    N.of_nat (List.length (atoms_of rs)).
  Definition case_signature : N * N * N * N * N * N * N * N :=
    let st := model_stages in
    let get k := match nth k st XErr with XOk rs => rs | _ => [] end in
    let o := if oc_traffic c then 1 else 0 in
    let pre := if oc_traffic c then get 0 else oc_raw c in
    let dat := get o in let mrg := get (S o) in let ddp := get (S (S o)) in
    ((N.of_nat (List.length dat) - N.of_nat (List.length mrg))%N,
     (count_params mrg - count_params ddp)%N,
     (count_params dat - count_params pre)%N,
     n_neg_hazards (map sort_funcs dat), n_out_hazards (map sort_funcs dat),
     dedup_collisions mrg,
     match model_final with XOk _ => 0 | XErr => 1 | XCrash => 2 end,
     n_empty_conditions ddp)%N.
End Case.
