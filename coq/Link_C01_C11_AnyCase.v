(* Link C01 + C11, second form — domains in ANY letter case / with a trailing dot.

   Link_route_with_real_domain_matcher needs the packet's domain in normal form because C01_Spec compares it with
   the patterns byte for byte (see Link_C01_C11_normalisation_mismatch).  What the composition of the two models
   gives for a raw sniffed name is stated here: the pipeline decides as C01's `decide` does FOR THE NORMALISED
   NAME (lower case, one trailing dot removed — Link_DomainAdapter.s_norm, proved equal to C11's normalize,
   i.e. strings.ToLower(strings.TrimSuffix(domain, ".")), and to C07_Spec.norm_name).  This is the statement a user of domain rules relies on. *)
From Coq Require Import List Arith NArith Bool String Ascii Lia.
From Dae Require Import C11_Spec C11_Model C11_Louds C11_Proofs C11_Layer3 C11_Props.
From Dae.gen Require Import C11_Extracted.
From Dae Require Import Link_DomainAdapter.
From Dae Require Import C01_Spec C01_Model C01_Proofs C01_Props.
From Dae Require Import Link_C01_C11.
Import ListNotations.
Open Scope N_scope.

Definition with_domain (pk : packet) (d : string) : packet :=
  {| p_src := p_src pk; p_dst := p_dst pk; p_sport := p_sport pk; p_dport := p_dport pk; p_l4 := p_l4 pk;
     p_ipver := p_ipver pk; p_domain := d; p_regex_hits := p_regex_hits pk; p_pname := p_pname pk;
     p_mac := p_mac pk; p_dscp := p_dscp pk |}.

(* the packet as the rules see it *)
Definition normalized_packet (pk : packet) : packet := with_domain pk (s_norm (p_domain pk)).

(* Match reads the domain only to fetch the bitmap *)
Lemma match_loop_domain : forall tries pk d bm ms i g b mu,
  match_loop tries (args_of_packet (with_domain pk d)) bm ms i g b mu
  = match_loop tries (args_of_packet pk) bm ms i g b mu.
Proof.
  intros tries pk d bm ms. induction ms as [|m ms IH]; intros i g b mu; [reflexivity|].
  cbn [match_loop].
  change (eval_mset tries (args_of_packet (with_domain pk d)) bm i m) with (eval_mset tries (args_of_packet pk) bm i m).
  destruct (if b || g then Ok g else eval_mset tries (args_of_packet pk) bm i m) as [g1|e]; [|reflexivity].
  destruct (negb (m_out m =? C01_Consts.OutboundLogicalOr)); cbn zeta beta iota;
    repeat match goal with |- context [if ?c then _ else _] => destruct c end; try reflexivity; apply IH.
Qed.

Lemma model_route_domain : forall p dm dm' pk d,
  (if String.eqb (p_domain pk) "" then None else Some (dm (p_domain pk)))
  = (if String.eqb d "" then None else Some (dm' d)) ->
  model_route p dm pk = model_route p dm' (with_domain pk d).
Proof.
  intros p dm dm' pk d H. unfold model_route.
  destruct (lower_program p) as [b|]; [|reflexivity]. destruct (build_userspace b) as [mt|]; [|reflexivity].
  unfold match_sets. change (a_domain (args_of_packet pk)) with (p_domain pk).
  change (a_domain (args_of_packet (with_domain pk d))) with d. rewrite H.
  destruct (mt_sets mt); [reflexivity|]. symmetry. apply match_loop_domain.
Qed.

(* MatchDomainBitmap depends on the raw name only through its normal form *)
Lemma c11_bitmap_normalize : forall rx m raw raw',
  normalize raw = normalize raw' -> c11_bitmap rx m raw = c11_bitmap rx m raw'.
Proof.
  intros rx m raw raw' H.
  assert (E : forall i, c11_match_bit rx m raw i = c11_match_bit rx m raw' i).
  { intros i. unfold c11_match_bit, match_bit.
    rewrite <- !strip_dot_trim. fold (normalize raw) (normalize raw'). now rewrite H. }
  unfold c11_bitmap, bitmap_words. apply map_ext. intros w. unfold word_of, word_bits.
  induction (map N.of_nat (seq 0 32)) as [|b bs IH]; [reflexivity|]. cbn [fold_right]. now rewrite E, IH.
Qed.

Theorem Link_route_with_real_domain_matcher_any_case :
  forall (p : program) (pk : packet) (rx_ok : str -> bool) (rx : str -> str -> bool),
    let pk' := normalized_packet pk in
    wf_program p = true ->
    kw_nonempty (c01_sets p) = true -> sets_size_ok (c01_sets p) -> sets_ok rx_ok (c01_sets p) = true ->
    name_ok (bytes (p_domain pk)) = true ->                  (* raw name over the alphabet, any case *)
    c01_idx_ok p = true ->
    normalized (bytes (p_domain pk')) ->                     (* i.e. not two trailing dots *)
    (p_domain pk <> ""%string -> p_domain pk' <> ""%string) ->  (* i.e. not the root name "." *)
    c01_regex_oracles_agree p rx pk' ->
    exists m, c11_build rx_ok (c01_sets p) = Some m /\
              model_route p (c01_dm rx m) pk = Ok (decide p pk').
Proof.
  intros p pk rx_ok rx pk' Hwf Hk Hs Ho Hn Hidx Hz Hroot Hrx.
  assert (Hn' : name_ok (bytes (p_domain pk')) = true).
  { unfold pk', normalized_packet, with_domain. cbn [p_domain]. rewrite bytes_s_norm.
    pose proof (normalize_pat_ok _ Hn) as Hp. unfold name_ok, pat_ok in *. rewrite forallb_forall in *.
    intros c Hc. unfold name_char. now rewrite (Hp c Hc). }
  destruct (Link_route_with_real_domain_matcher p pk' rx_ok rx Hwf Hk Hs Ho Hn' Hidx Hz Hrx) as [m [Hb Hr]].
  exists m. split; [exact Hb|]. rewrite <- Hr. unfold pk', normalized_packet.
  apply model_route_domain.
  set (d := p_domain pk) in *. set (d' := s_norm d).
  assert (Hbm : c01_dm rx m d = c01_dm rx m d').
  { unfold c01_dm. apply c11_bitmap_normalize. unfold d'. rewrite bytes_s_norm.
    symmetry. unfold pk', normalized_packet, with_domain in Hz. cbn [p_domain] in Hz.
    fold d in Hz. rewrite bytes_s_norm in Hz. exact Hz. }
  destruct (String.eqb_spec d "") as [E|E].
  - subst d'. rewrite E. reflexivity.
  - specialize (Hroot E). unfold pk', normalized_packet, with_domain in Hroot. cbn [p_domain] in Hroot. fold d d' in Hroot.
    apply String.eqb_neq in Hroot. rewrite Hroot. now rewrite Hbm.
Qed.
Print Assumptions Link_route_with_real_domain_matcher_any_case.

(* the witnesses of the mismatch, now decided as the rules say: "A.b" and "a.b." are the name a.b *)
Example Link_C01_C11_any_case_nonvacuous :
  let p := lk_prog 1 DFull "a.b" in
  forall d, In d ["A.b"; "a.b."; "a.b"]%string ->
    p_domain (normalized_packet (lk_pk d)) = "a.b"%string /\
    decide p (normalized_packet (lk_pk d)) = (2, 0, false) /\
    exists m, c11_build lk_rx_ok (c01_sets p) = Some m /\
      model_route p (c01_dm lk_rx m) (lk_pk d) = Ok (2, 0, false).
Proof.
  cbv zeta. intros d [<-|[<-|[<-|[]]]]; (split; [vm_compute; reflexivity|]; split; [vm_compute; reflexivity|];
    apply with_build; vm_compute; reflexivity).
Qed.

(* DISCHARGED relative to Link_route_with_real_domain_matcher: the premise "domain already in normal form"; the
   spec is read on the normalised name instead.  REMAINING besides that theorem's premises: the raw name does not
   end in two dots and is not the root "." (for those the matcher runs on a name that C01's spec reads as "no
   domain"; same corner as Link_C07_C11_root_name_mismatch). *)
