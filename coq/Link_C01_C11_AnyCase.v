(* Link C01 + C11 — domains in ANY letter case / with a trailing dot: the main composed theorem.

   Before C01_Spec read domain conditions on the normalised name, this file carried the any-case statement through a
   "normalised packet".  C01_Spec now normalises itself (C01_Spec.normalise = Link_DomainAdapter.s_norm = C11's
   normalize), so Link_C01_C11.Link_route_with_real_domain_matcher already IS the any-case statement, with no
   "domain in normal form" premise and no premise about a second trailing dot (the name "a.." is read as "a." on both
   sides).  It is re-exported here under the name the checks list, with wf_packet's alphabet premise in C01's own
   terms, and the former mismatch witnesses as its instances. *)
From Coq Require Import List Arith NArith Bool String Ascii Lia.
From Dae Require Import C11_Spec C11_Model C11_Louds C11_Proofs C11_Layer3 C11_Props.
From Dae.gen Require Import C11_Extracted.
From Dae Require Import Link_DomainAdapter.
From Dae Require Import C01_Spec C01_Model C01_Proofs C01_Props.
From Dae Require Import Link_C01_C11.
Import ListNotations.
Open Scope N_scope.

Theorem Link_route_with_real_domain_matcher_any_case :
  forall (p : program) (pk : packet) (rx_ok : str -> bool) (rx : str -> str -> bool),
    wf_program p = true ->
    kw_nonempty (c01_sets p) = true -> sets_size_ok (c01_sets p) -> sets_ok rx_ok (c01_sets p) = true ->
    domain_alphabet_ok (p_domain pk) = true ->               (* C01's own wf_packet clause; any case, any dots *)
    c01_idx_ok p = true ->
    p_domain pk <> "."%string ->                             (* not the root name *)
    c01_regex_oracles_agree p rx pk ->                       (* regexp oracles agree on bytes (normalise raw) *)
    exists m, c11_build rx_ok (c01_sets p) = Some m /\
              model_route p (c01_dm rx m) pk = Ok (decide p pk).
Proof.
  intros p pk rx_ok rx Hwf Hk Hs Ho Ha Hidx Hroot Hrx.
  apply (Link_route_with_real_domain_matcher p pk rx_ok rx Hwf Hk Hs Ho); try assumption.
  now rewrite <- c01_alphabet_name_ok.
Qed.
Print Assumptions Link_route_with_real_domain_matcher_any_case.

(* "A.b", "a.b.", "a.b" and even "A.B." are the name a.b; "a.b.." is not (it is read as "a.b.") *)
Example Link_C01_C11_any_case_nonvacuous :
  let p := lk_prog 1 DFull "a.b" in
  (forall d, In d ["A.b"; "a.b."; "a.b"; "A.B."]%string ->
    domain_alphabet_ok d = true /\ normalise d = "a.b"%string /\
    decide p (lk_pk d) = (2, 0, false) /\
    exists m, c11_build lk_rx_ok (c01_sets p) = Some m /\
      model_route p (c01_dm lk_rx m) (lk_pk d) = Ok (2, 0, false)) /\
  domain_alphabet_ok "a.b.." = true /\ normalise "a.b.." = "a.b."%string /\
  decide p (lk_pk "a.b..") = (0, 0, false) /\
  exists m, c11_build lk_rx_ok (c01_sets p) = Some m /\
    model_route p (c01_dm lk_rx m) (lk_pk "a.b..") = Ok (0, 0, false).
Proof.
  cbv zeta. split.
  - intros d [<-|[<-|[<-|[<-|[]]]]]; (split; [vm_compute; reflexivity|]; split; [vm_compute; reflexivity|];
      split; [vm_compute; reflexivity|]; apply with_build; vm_compute; reflexivity).
  - split; [vm_compute; reflexivity|]. split; [vm_compute; reflexivity|]. split; [vm_compute; reflexivity|].
    apply with_build; vm_compute; reflexivity.
Qed.
