(* C11 — get/set correctness of the CompactBitList model of C11_Louds.v (common/bitlist/bitlist.go).
   Abstract view: the buffer is an infinite bit string [bits_of b k] (bit k mod 16 of word k / 16).
   * [cbl_get_bits]  : Get reads exactly the bits [i*u, (i+1)*u) (0 when the window is not inside the buffer);
   * [set_loop_bits] : the Set loop writes exactly those bits with the bits of v, every other bit is unchanged;
   * [compact_bitlist_get_set_inrange] : the combination under the original hypotheses (frame for every j
     whose window is inside the old buffer, or outside the new one);
   * [compact_bitlist_get_set] : full frame for every j, under (and re-establishing) [tail_clean];
   * [compact_bitlist_get_set_as_stated_false] : the unrestricted frame without [tail_clean] is refuted.
   No axioms. *)
From Coq Require Import List NArith Bool Lia ZArith ZifyBool ZifyN ZifyNat.
From Dae Require Import C11_Louds.
Import ListNotations.
Open Scope N_scope.

Ltac Zify.zify_post_hook ::= Z.to_euclidean_division_equations.

Definition wf16 (b : list N) : Prop := Forall (fun x => x < 65536) b.
Definition bits_of (b : list N) (k : N) : bool := N.testbit (nthN b (k / 16)) (k mod 16).
Definition blen (b : list N) : N := N.of_nat (length b).

(* ---------- testbit toolkit ---------- *)
Lemma tb_shiftl : forall a n m, N.testbit (N.shiftl a n) m = (n <=? m) && N.testbit a (m - n).
Proof.
  intros. destruct (N.leb_spec n m).
  - rewrite N.shiftl_spec_high' by assumption. reflexivity.
  - rewrite N.shiftl_spec_low by assumption. reflexivity.
Qed.

Lemma tb_u16 : forall a m, N.testbit (u16 a) m = (m <? 16) && N.testbit a m.
Proof.
  intros. unfold u16. change 65536 with (2 ^ 16). destruct (N.ltb_spec m 16).
  - rewrite N.mod_pow2_bits_low by assumption. reflexivity.
  - rewrite N.mod_pow2_bits_high by assumption. reflexivity.
Qed.

Lemma tb_bit : forall k m, N.testbit (N.shiftl 1 k) m = (k =? m).
Proof. intros. rewrite N.shiftl_1_l. apply N.pow2_bits_eqb. Qed.

Lemma tb_small : forall w q, w < 65536 -> 16 <= q -> N.testbit w q = false.
Proof.
  intros w q Hw Hq. rewrite <- (N.mod_small w 65536) by assumption.
  change 65536 with (2 ^ 16). apply N.mod_pow2_bits_high. assumption.
Qed.

Lemma small_tb : forall w, (forall q, 16 <= q -> N.testbit w q = false) -> w < 65536.
Proof.
  intros w H. assert (E : w = w mod 2 ^ 16).
  { apply N.bits_inj. intro q. destruct (N.ltb_spec q 16).
    - rewrite N.mod_pow2_bits_low by assumption. reflexivity.
    - rewrite N.mod_pow2_bits_high by assumption. apply H. assumption. }
  rewrite E. apply N.mod_lt. discriminate.
Qed.

Lemma tb_lt_pow2 : forall v u m, v < 2 ^ u -> u <= m -> N.testbit v m = false.
Proof.
  intros v u m Hv Hm. rewrite <- (N.mod_small v (2 ^ u)) by assumption.
  apply N.mod_pow2_bits_high. assumption.
Qed.

(* ---------- list toolkit ---------- *)
Lemma nthN_lt : forall b i, wf16 b -> nthN b i < 65536.
Proof.
  unfold nthN, wf16. intros b i H. generalize (N.to_nat i). clear i.
  induction H; intros [|n]; cbn [nth]; auto; reflexivity.
Qed.

Lemma upd_length : forall l i x, length (upd l i x) = length l.
Proof. induction l; intros [|i] x; cbn [upd length]; auto. Qed.

Lemma nth_upd : forall l i x k,
  nth k (upd l i x) 0 = if (Nat.eqb k i && Nat.ltb i (length l))%bool then x else nth k l 0.
Proof.
  induction l as [|y l IH]; intros i x k.
  - cbn [upd length]. destruct i; cbn [upd]; rewrite andb_false_r; reflexivity.
  - destruct i as [|i], k as [|k]; cbn [upd nth length]; try reflexivity.
    rewrite IH. reflexivity.
Qed.

Lemma blen_updN : forall b i x, blen (updN b i x) = blen b.
Proof. intros. unfold blen, updN. rewrite upd_length. reflexivity. Qed.

Lemma nthN_updN : forall b i x k,
  nthN (updN b i x) k = if (k =? i) && (i <? blen b) then x else nthN b k.
Proof.
  intros. unfold nthN, updN, blen. rewrite nth_upd.
  assert (E1 : Nat.eqb (N.to_nat k) (N.to_nat i) = (k =? i)) by lia.
  assert (E2 : Nat.ltb (N.to_nat i) (length b) = (i <? N.of_nat (length b))) by lia.
  rewrite E1, E2. reflexivity.
Qed.

Lemma wf16_upd : forall l i x, wf16 l -> x < 65536 -> wf16 (upd l i x).
Proof.
  unfold wf16. induction l as [|y l IH]; intros [|i] x H Hx; cbn [upd]; auto;
    inversion H; subst; constructor; auto.
Qed.

Lemma wf16_updN : forall b i x, wf16 b -> x < 65536 -> wf16 (updN b i x).
Proof. intros. apply wf16_upd; assumption. Qed.

Lemma bits_of_updN : forall b i x k, i < blen b ->
  bits_of (updN b i x) k = if k / 16 =? i then N.testbit x (k mod 16) else bits_of b k.
Proof.
  intros. unfold bits_of. rewrite nthN_updN.
  destruct (N.eqb_spec (k / 16) i); cbn [andb].
  - assert (E : (i <? blen b) = true) by lia. rewrite E. reflexivity.
  - reflexivity.
Qed.

Lemma bits_of_hi : forall b k, wf16 b -> blen b * 16 <= k -> bits_of b k = false.
Proof.
  intros b k _ H. unfold bits_of, nthN. rewrite nth_overflow. reflexivity.
  unfold blen in H. lia.
Qed.

(* ---------- the two inner loops of Set, word level ---------- *)
Lemma set_lo_bits : forall cnt k j w v q, k + j + N.of_nat cnt <= 16 ->
  N.testbit (set_lo cnt k j w v) q =
  if (k + j <=? q) && (q <? k + j + N.of_nat cnt) then N.testbit v (q - j) else N.testbit w q.
Proof.
  induction cnt as [|c IH]; intros k j w v q H.
  - cbn [set_lo]. assert (E : (k + j <=? q) && (q <? k + j + N.of_nat 0) = false) by lia.
    rewrite E. reflexivity.
  - cbn [set_lo]. rewrite IH by lia.
    rewrite N.lor_spec, N.clearbit_eqb, tb_u16, tb_shiftl, N.land_spec, tb_bit.
    destruct (N.eqb_spec (k + j) q) as [Eq|Nq].
    + subst q. replace (k + j - j) with k by lia. rewrite N.eqb_refl.
      assert (E1 : (k + 1 + j <=? k + j) = false) by lia.
      assert (E2 : (k + j <=? k + j) && (k + j <? k + j + N.of_nat (S c)) = true) by lia.
      assert (E3 : (k + j <? 16) = true) by lia. assert (E4 : (j <=? k + j) = true) by lia.
      rewrite E1, E2, E3, E4. cbn [andb negb orb]. rewrite andb_false_r, andb_true_r. reflexivity.
    + assert (E1 : (k =? q - j) && (j <=? q) = false) by lia.
      assert (E2 : (k + 1 + j <=? q) && (q <? k + 1 + j + N.of_nat c)
                   = (k + j <=? q) && (q <? k + j + N.of_nat (S c))) by lia.
      rewrite E2. cbn [negb]. rewrite andb_true_r.
      replace ((q <? 16) && ((j <=? q) && (N.testbit v (q - j) && (k =? q - j)))) with false.
      * rewrite orb_false_r. reflexivity.
      * destruct (k =? q - j) eqn:Ek, (j <=? q) eqn:Ej; try discriminate;
          rewrite ?andb_false_r; reflexivity.
Qed.

Lemma set_hi_bits : forall cnt k j w v q, j <= k -> k - j + N.of_nat cnt <= 16 ->
  N.testbit (set_hi cnt k j w v) q =
  if (k - j <=? q) && (q <? k - j + N.of_nat cnt) then N.testbit v (q + j) else N.testbit w q.
Proof.
  induction cnt as [|c IH]; intros k j w v q Hj H.
  - cbn [set_hi]. assert (E : (k - j <=? q) && (q <? k - j + N.of_nat 0) = false) by lia.
    rewrite E. reflexivity.
  - cbn [set_hi]. rewrite IH by lia.
    rewrite N.lor_spec, N.clearbit_eqb, tb_u16, N.shiftr_spec', N.land_spec, tb_bit.
    destruct (N.eqb_spec (k - j) q) as [Eq|Nq].
    + subst q. replace (k - j + j) with k by lia. rewrite N.eqb_refl.
      assert (E1 : (k + 1 - j <=? k - j) = false) by lia.
      assert (E2 : (k - j <=? k - j) && (k - j <? k - j + N.of_nat (S c)) = true) by lia.
      assert (E3 : (k - j <? 16) = true) by lia.
      rewrite E1, E2, E3. cbn [andb negb orb]. rewrite andb_false_r, andb_true_r. reflexivity.
    + assert (E1 : (k =? q + j) = false) by lia.
      assert (E2 : (k + 1 - j <=? q) && (q <? k + 1 - j + N.of_nat c)
                   = (k - j <=? q) && (q <? k - j + N.of_nat (S c))) by lia.
      rewrite E2, E1. cbn [negb]. rewrite !andb_false_r, andb_true_r, orb_false_r. reflexivity.
Qed.
Lemma set_lo_small : forall cnt k j w v, k + j + N.of_nat cnt <= 16 -> w < 65536 ->
  set_lo cnt k j w v < 65536.
Proof.
  intros. apply small_tb. intros q Hq. rewrite set_lo_bits by assumption.
  assert (E : (k + j <=? q) && (q <? k + j + N.of_nat cnt) = false) by lia.
  rewrite E. apply tb_small; assumption.
Qed.

Lemma set_hi_small : forall cnt k j w v, j <= k -> k - j + N.of_nat cnt <= 16 -> w < 65536 ->
  set_hi cnt k j w v < 65536.
Proof.
  intros. apply small_tb. intros q Hq. rewrite set_hi_bits by assumption.
  assert (E : (k - j <=? q) && (q <? k - j + N.of_nat cnt) = false) by lia.
  rewrite E. apply tb_small; assumption.
Qed.

(* ---------- the Set loop, bit-string level ---------- *)
Lemma set_loop_bits : forall fuel b i j v utt,
  wf16 b -> j < 16 -> utt <= 16 * N.of_nat fuel -> i * 16 + j + utt <= blen b * 16 ->
  let b' := set_loop fuel b i j v utt in
  blen b' = blen b /\ wf16 b' /\
  forall k, bits_of b' k =
    if (i * 16 + j <=? k) && (k <? i * 16 + j + utt) then N.testbit v (k - (i * 16 + j)) else bits_of b k.
Proof.
  induction fuel as [|f IH]; intros b i j v utt Hb Hj Hf Hlen.
  - cbn [set_loop]. split; [reflexivity|]. split; [assumption|]. intro k.
    assert (E : (i * 16 + j <=? k) && (k <? i * 16 + j + utt) = false) by lia.
    rewrite E. reflexivity.
  - cbn [set_loop]. cbv zeta. destruct (N.eqb_spec utt 0) as [U0|U0].
    { split; [reflexivity|]. split; [assumption|]. intro k.
      assert (E : (i * 16 + j <=? k) && (k <? i * 16 + j + utt) = false) by lia.
      rewrite E. reflexivity. }
    set (n1 := N.min utt (16 - j)).
    set (w1 := set_lo (N.to_nat n1) 0 j (nthN b i) v).
    set (b1 := updN b i w1).
    assert (Hi : i < blen b) by lia.
    assert (Hw1 : w1 < 65536).
    { apply set_lo_small. lia. apply nthN_lt. assumption. }
    assert (Hb1 : wf16 b1) by (apply wf16_updN; assumption).
    assert (Hl1 : blen b1 = blen b) by apply blen_updN.
    assert (B1 : forall k, bits_of b1 k =
       if (i * 16 + j <=? k) && (k <? i * 16 + j + n1) then N.testbit v (k - (i * 16 + j)) else bits_of b k).
    { intro k. unfold b1. rewrite bits_of_updN by assumption.
      destruct (N.eqb_spec (k / 16) i) as [Ek|Ek].
      - unfold w1. rewrite set_lo_bits by lia.
        assert (E : (0 + j <=? k mod 16) && (k mod 16 <? 0 + j + N.of_nat (N.to_nat n1))
                    = (i * 16 + j <=? k) && (k <? i * 16 + j + n1)) by lia.
        rewrite E. destruct ((i * 16 + j <=? k) && (k <? i * 16 + j + n1)) eqn:Ec.
        + f_equal. lia.
        + unfold bits_of. rewrite Ek. reflexivity.
      - assert (E : (i * 16 + j <=? k) && (k <? i * 16 + j + n1) = false) by lia.
        rewrite E. reflexivity. }
    destruct (N.leb_spec utt n1) as [Un|Un].
    { split; [assumption|]. split; [assumption|]. intro k. rewrite B1.
      replace n1 with utt by lia. reflexivity. }
    assert (En1 : n1 = 16 - j) by lia.
    set (n2 := N.min utt 16).
    set (b2 := if n1 <? n2 then updN b1 (i + 1) (set_hi (N.to_nat (n2 - n1)) n1 n1 (nthN b1 (i + 1)) v) else b1).
    assert (Hi1 : i + 1 < blen b1) by lia.
    assert (Hb2 : wf16 b2 /\ blen b2 = blen b /\ forall k, bits_of b2 k =
       if (i * 16 + j <=? k) && (k <? i * 16 + j + n2) then N.testbit v (k - (i * 16 + j)) else bits_of b k).
    { unfold b2. destruct (N.ltb_spec n1 n2) as [L|L].
      - split; [|split].
        + apply wf16_updN. assumption. apply set_hi_small; try lia. apply nthN_lt. assumption.
        + rewrite blen_updN. assumption.
        + intro k. rewrite bits_of_updN by assumption.
          destruct (N.eqb_spec (k / 16) (i + 1)) as [Ek|Ek].
          * rewrite set_hi_bits by lia.
            assert (E : (n1 - n1 <=? k mod 16) && (k mod 16 <? n1 - n1 + N.of_nat (N.to_nat (n2 - n1)))
                      = (i * 16 + j <=? k) && (k <? i * 16 + j + n2)) by lia.
            rewrite E. destruct ((i * 16 + j <=? k) && (k <? i * 16 + j + n2)) eqn:Ec.
            -- f_equal. lia.
            -- rewrite <- Ek. fold (bits_of b1 k). rewrite B1.
               assert (E' : (i * 16 + j <=? k) && (k <? i * 16 + j + n1) = false) by lia.
               rewrite E'. reflexivity.
          * rewrite B1.
            assert (E : (i * 16 + j <=? k) && (k <? i * 16 + j + n2)
                      = (i * 16 + j <=? k) && (k <? i * 16 + j + n1)) by lia.
            rewrite E. reflexivity.
      - split; [assumption|]. split; [assumption|]. intro k. rewrite B1.
        replace n2 with n1 by lia. reflexivity. }
    destruct Hb2 as (Hb2 & Hl2 & B2).
    replace ((j + 16) mod 16) with j by lia.
    destruct (IH b2 (i + 1) j (N.shiftr v 16) (utt - 16)) as (L3 & W3 & B3); try assumption; try lia.
    split; [lia|]. split; [assumption|]. intro k. rewrite B3, B2, N.shiftr_spec'.
    destruct ((i * 16 + j <=? k) && (k <? i * 16 + j + utt)) eqn:Ec.
    + destruct (((i + 1) * 16 + j <=? k) && (k <? (i + 1) * 16 + j + (utt - 16))) eqn:Ed.
      * f_equal. lia.
      * assert (E : (i * 16 + j <=? k) && (k <? i * 16 + j + n2) = true) by lia.
        rewrite E. reflexivity.
    + assert (E1 : ((i + 1) * 16 + j <=? k) && (k <? (i + 1) * 16 + j + (utt - 16)) = false) by lia.
      assert (E2 : (i * 16 + j <=? k) && (k <? i * 16 + j + n2) = false) by lia.
      rewrite E1, E2. reflexivity.
Qed.
(* ---------- Get, bit-string level ---------- *)
Lemma get_whole_spec : forall f b base v i off utt,
  wf16 b -> utt < 16 * N.of_nat f -> i * 16 = base + off ->
  (forall m, N.testbit v m = (m <? off) && bits_of b (base + m)) ->
  exists v' i' off' utt',
    get_whole f b v i off utt = (v', i', off', utt') /\ utt' < 16 /\ off' + utt' = off + utt /\
    i' * 16 = base + off' /\
    (forall m, N.testbit v' m = (m <? off') && bits_of b (base + m)).
Proof.
  induction f as [|f IH]; intros b base v i off utt Hb Hf Hi Hv.
  - lia.
  - cbn [get_whole]. destruct (N.leb_spec 16 utt) as [L|L].
    + destruct (IH b base (N.lor v (N.shiftl (nthN b i) off)) (i + 1) (off + 16) (utt - 16))
        as (v' & i' & off' & utt' & E & H1 & H2 & H3 & H4); try assumption; try lia.
      * intro m. rewrite N.lor_spec, tb_shiftl, Hv.
        destruct (N.ltb_spec m off) as [M|M].
        -- assert (E1 : (off <=? m) = false) by lia. assert (E2 : (m <? off + 16) = true) by lia.
           rewrite E1, E2. cbn [andb]. rewrite orb_false_r. reflexivity.
        -- assert (E1 : (off <=? m) = true) by lia. rewrite E1. cbn [andb orb].
           destruct (N.ltb_spec m (off + 16)) as [M'|M'].
           ++ unfold bits_of. cbn [andb]. f_equal; [f_equal|]; lia.
           ++ cbn [andb]. apply tb_small. apply nthN_lt; assumption. lia.
      * exists v', i', off', utt'. repeat split; try assumption. lia.
    + exists v, i, off, utt. repeat split; try assumption.
Qed.

Lemma cbl_get_out : forall m i, blen (c_buf m) * 16 < (i + 1) * c_unit m -> cbl_get m i = 0.
Proof.
  intros m i H. unfold cbl_get. fold (blen (c_buf m)).
  assert (E : (blen (c_buf m) * 16 <? (i + 1) * c_unit m) = true) by lia. rewrite E. reflexivity.
Qed.

Lemma cbl_get_bits : forall m i, wf16 (c_buf m) -> 1 <= c_unit m <= 64 ->
  (i + 1) * c_unit m <= blen (c_buf m) * 16 ->
  forall q, N.testbit (cbl_get m i) q = (q <? c_unit m) && bits_of (c_buf m) (i * c_unit m + q).
Proof.
  intros [u b n] i Hb Hu Hin q. cbn [c_unit c_buf] in *. unfold cbl_get. cbn [c_unit c_buf].
  fold (blen b). assert (E : (blen b * 16 <? (i + 1) * u) = false) by lia. rewrite E. clear E.
  set (p := i * u). cbv zeta.
  assert (HW : nthN b (p / 16) < 65536) by (apply nthN_lt; assumption).
  destruct (N.ltb_spec u (16 - p mod 16)) as [C|C].
  - rewrite N.shiftr_spec', tb_u16, tb_shiftl.
    destruct (N.ltb_spec q u) as [Q|Q].
    + assert (E1 : (q + (16 - p mod 16 - u + p mod 16) <? 16) = true) by lia.
      assert (E2 : (16 - p mod 16 - u <=? q + (16 - p mod 16 - u + p mod 16)) = true) by lia.
      rewrite E1, E2. cbn [andb]. unfold bits_of. f_equal; [f_equal|]; lia.
    + assert (E1 : (q + (16 - p mod 16 - u + p mod 16) <? 16) = false) by lia.
      rewrite E1. reflexivity.
  - destruct (get_whole_spec 5 b p (N.shiftr (nthN b (p / 16)) (p mod 16)) (p / 16 + 1)
                (16 - p mod 16) (u - (16 - p mod 16)))
      as (v' & i' & off' & utt' & E & H1 & H2 & H3 & H4); try assumption; try lia.
    { intro m. rewrite N.shiftr_spec'. destruct (N.ltb_spec m (16 - p mod 16)) as [M|M]; cbn [andb].
      - unfold bits_of. f_equal; [f_equal|]; lia.
      - apply tb_small. assumption. lia. }
    rewrite E.
    assert (HW' : nthN b i' < 65536) by (apply nthN_lt; assumption).
    destruct (N.eqb_spec utt' 0) as [U0|U0].
    { rewrite H4. f_equal. f_equal. lia. }
    assert (X : N.testbit (nthN b i') (q - off') = bits_of b (p + q) \/ ~ (off' <= q < u)).
    { destruct (N.le_gt_cases off' q); [|right; lia]. destruct (N.lt_ge_cases q u); [|right; lia].
      left. unfold bits_of. f_equal; [f_equal|]; lia. }
    destruct (N.ltb_spec (16 - utt') off') as [T|T].
    + rewrite N.lor_spec, H4, tb_shiftl, tb_u16, tb_shiftl.
      destruct (N.ltb_spec q off') as [Q|Q].
      * assert (E1 : (off' - (16 - utt') <=? q) = false \/ (16 - utt' <=? q - (off' - (16 - utt'))) = false) by lia.
        assert (E2 : (q <? u) = true) by lia. rewrite E2. cbn [andb].
        destruct E1 as [E1|E1]; rewrite E1; cbn [andb]; rewrite ?andb_false_r, orb_false_r; reflexivity.
      * cbn [andb orb]. destruct (N.ltb_spec q u) as [Q'|Q'].
        -- assert (E1 : (off' - (16 - utt') <=? q) = true) by lia.
           assert (E2 : (q - (off' - (16 - utt')) <? 16) = true) by lia.
           assert (E3 : (16 - utt' <=? q - (off' - (16 - utt'))) = true) by lia.
           rewrite E1, E2, E3. cbn [andb]. destruct X as [X|X]; [|lia]. rewrite <- X. f_equal. lia.
        -- assert (E2 : (q - (off' - (16 - utt')) <? 16) = false) by lia.
           rewrite E2. cbn [andb]. rewrite andb_false_r. reflexivity.
    + rewrite N.lor_spec, H4, N.shiftr_spec', tb_u16, tb_shiftl.
      destruct (N.ltb_spec q off') as [Q|Q].
      * assert (E1 : (16 - utt' <=? q + (16 - utt' - off')) = false) by lia.
        assert (E2 : (q <? u) = true) by lia. rewrite E1, E2. cbn [andb].
        rewrite andb_false_r, orb_false_r. reflexivity.
      * cbn [andb orb]. destruct (N.ltb_spec q u) as [Q'|Q'].
        -- assert (E1 : (q + (16 - utt' - off') <? 16) = true) by lia.
           assert (E3 : (16 - utt' <=? q + (16 - utt' - off')) = true) by lia.
           rewrite E1, E3. cbn [andb]. destruct X as [X|X]; [|lia]. rewrite <- X. f_equal. lia.
        -- assert (E2 : (q + (16 - utt' - off') <? 16) = false) by lia.
           rewrite E2. reflexivity.
Qed.
(* ---------- growByUnitIndex ---------- *)
Lemma nthN_app_zeros : forall b n k, nthN (b ++ repeat 0 n) k = nthN b k.
Proof.
  intros. unfold nthN. destruct (Nat.lt_ge_cases (N.to_nat k) (length b)) as [L|L].
  - apply app_nth1. assumption.
  - rewrite app_nth2 by assumption. rewrite nth_repeat. rewrite nth_overflow by assumption. reflexivity.
Qed.

Lemma cbl_grow_spec : forall b u i, wf16 b ->
  let b' := cbl_grow b u i in
  wf16 b' /\ (i + 1) * u <= blen b' * 16 /\ (forall k, bits_of b' k = bits_of b k) /\
  (blen b' = blen b \/ (blen b * 16 < (i + 1) * u /\ blen b <= blen b')).
Proof.
  intros b u i Hb. unfold cbl_grow. fold (blen b). cbv zeta.
  destruct (N.ltb_spec (blen b * 16) ((i + 1) * u)) as [L|L].
  - set (bd := (i + 1) * u) in *.
    set (need := bd / 16 + (if bd mod 16 =? 0 then 0 else 1)).
    assert (Hn : bd <= need * 16 /\ blen b < need).
    { unfold need. destruct (N.eqb_spec (bd mod 16) 0); lia. }
    assert (Hl : blen (b ++ repeat 0 (N.to_nat (need - blen b))) = need).
    { unfold blen. rewrite app_length, repeat_length. fold (blen b). unfold blen in *. lia. }
    split; [|split; [|split]].
    + unfold wf16. apply Forall_app. split; [assumption|].
      apply Forall_forall. intros x Hx. apply repeat_spec in Hx. subst x. reflexivity.
    + rewrite Hl. lia.
    + intro k. unfold bits_of. rewrite nthN_app_zeros. reflexivity.
    + right. rewrite Hl. lia.
  - split; [assumption|]. split; [assumption|]. split; [reflexivity|]. left. reflexivity.
Qed.

(* ---------- Set, bit-string level ---------- *)
Lemma cbl_set_bits : forall m i v m', 1 <= c_unit m <= 64 -> wf16 (c_buf m) ->
  cbl_set m i v = Some m' ->
  c_unit m' = c_unit m /\ wf16 (c_buf m') /\
  (i + 1) * c_unit m <= blen (c_buf m') * 16 /\
  (blen (c_buf m') = blen (c_buf m) \/
   (blen (c_buf m) * 16 < (i + 1) * c_unit m /\ blen (c_buf m) <= blen (c_buf m'))) /\
  forall k, bits_of (c_buf m') k =
    if (i * c_unit m <=? k) && (k <? i * c_unit m + c_unit m)
    then N.testbit v (k - i * c_unit m) else bits_of (c_buf m) k.
Proof.
  intros [u b n] i v m' Hu Hb. cbn [c_unit c_buf] in *. unfold cbl_set. cbn [c_unit c_buf c_num].
  destruct (u <? N.size v); [discriminate|].
  destruct (cbl_grow_spec b u i Hb) as (G1 & G2 & G3 & G4).
  set (g := cbl_grow b u i) in *. set (p := i * u) in *.
  set (r := set_loop 6 g (p / 16) (p mod 16) v u).
  intro E. injection E as E. subst m'. cbn [c_unit c_buf]. subst r.
  destruct (set_loop_bits 6 g (p / 16) (p mod 16) v u) as (S1 & S2 & S3); try assumption; try lia.
  split; [reflexivity|]. split; [assumption|]. rewrite S1. split; [lia|]. split; [assumption|].
  intro k. rewrite S3, G3. replace (p / 16 * 16 + p mod 16) with p by lia. reflexivity.
Qed.

(* ---------- Get after Set ---------- *)
Lemma mul_window_disjoint : forall i j u q k, j <> i -> q < u -> k < u -> j * u + q <> i * u + k.
Proof.
  intros i j u q k Hji Hq Hk.
  destruct (N.lt_ge_cases j i) as [L|L].
  - assert ((j + 1) * u <= i * u) by (apply N.mul_le_mono_r; lia). lia.
  - assert ((i + 1) * u <= j * u) by (apply N.mul_le_mono_r; lia). lia.
Qed.

(* bits beyond the last whole unit that fits into the buffer are zero (true of the empty buffer and
   preserved by Set): without it a unit that straddles the end of the old buffer reads 0 before a
   growing Set and its (stale) bits afterwards. *)
Definition tail_clean (m : cbl) : Prop :=
  forall k, blen (c_buf m) * 16 / c_unit m * c_unit m <= k -> bits_of (c_buf m) k = false.

Lemma tail_clean_new : forall u, tail_clean (cbl_new u).
Proof. intros u k _. unfold bits_of, nthN. cbn [cbl_new c_buf]. destruct (N.to_nat (k / 16)); reflexivity. Qed.

Theorem compact_bitlist_get_set_inrange :
  forall m i v m', 1 <= c_unit m <= 64 -> Forall (fun x => x < 65536) (c_buf m) -> v < 2 ^ c_unit m ->
    cbl_set m i v = Some m' ->
    cbl_get m' i = v /\
    (forall j, j <> i -> (j + 1) * c_unit m <= N.of_nat (length (c_buf m)) * 16 -> cbl_get m' j = cbl_get m j) /\
    (forall j, j <> i -> N.of_nat (length (c_buf m')) * 16 < (j + 1) * c_unit m -> cbl_get m' j = cbl_get m j) /\
    c_unit m' = c_unit m /\ Forall (fun x => x < 65536) (c_buf m').
Proof.
  intros m i v m' Hu Hb Hv Hs.
  destruct (cbl_set_bits m i v m' Hu Hb Hs) as (U & W & R & G & B).
  fold (blen (c_buf m)) (blen (c_buf m')). set (u := c_unit m) in *.
  split; [|split; [|split; [|split]]]; try assumption.
  - apply N.bits_inj. intro q. rewrite cbl_get_bits; rewrite ?U; try assumption.
    fold u. rewrite B. destruct (N.ltb_spec q u) as [Q|Q]; cbn [andb].
    + assert (E : (i * u <=? i * u + q) && (i * u + q <? i * u + u) = true) by lia.
      rewrite E. f_equal. lia.
    + symmetry. apply (tb_lt_pow2 v u); assumption.
  - intros j Hj Hin. apply N.bits_inj. intro q.
    rewrite !cbl_get_bits; rewrite ?U; try assumption; fold u.
    + destruct (N.ltb_spec q u) as [Q|Q]; cbn [andb]; [|reflexivity]. rewrite B.
      assert (E : (i * u <=? j * u + q) && (j * u + q <? i * u + u) = false).
      { destruct ((i * u <=? j * u + q) && (j * u + q <? i * u + u)) eqn:E; [|reflexivity].
        exfalso. apply (mul_window_disjoint i j u q (j * u + q - i * u) Hj Q); lia. }
      rewrite E. reflexivity.
    + destruct G as [G|G]; lia.
  - intros j Hj Hout. rewrite !cbl_get_out; fold u; rewrite ?U; fold u; try reflexivity; try assumption.
    destruct G as [G|G]; lia.
Qed.
(* The frame conjunct of the goal statement is false for an arbitrary well-formed buffer: a unit that
   straddles the end of the old buffer reads 0 before a growing Set and its stale bits afterwards. *)
Lemma compact_bitlist_frame_counterexample :
  let m := {| c_unit := 3; c_buf := [32768]; c_num := 5 |} in
  exists m', (1 <= c_unit m <= 64) /\ Forall (fun x => x < 65536) (c_buf m) /\ 0 < 2 ^ c_unit m /\
    cbl_set m 6 0 = Some m' /\ 5 <> 6 /\ cbl_get m 5 = 0 /\ cbl_get m' 5 = 1.
Proof.
  cbv zeta. eexists. split; [cbn; lia|]. split; [repeat constructor|]. split; [reflexivity|].
  split; [vm_compute; reflexivity|]. split; [discriminate|]. split; vm_compute; reflexivity.
Qed.

(* the goal statement exactly as first posed is refuted by that instance *)
Lemma compact_bitlist_get_set_as_stated_false :
  ~ (forall m i v m', 1 <= c_unit m <= 64 -> Forall (fun x => x < 65536) (c_buf m) -> v < 2 ^ c_unit m ->
       cbl_set m i v = Some m' ->
       cbl_get m' i = v /\ (forall j, j <> i -> cbl_get m' j = cbl_get m j)
       /\ c_unit m' = c_unit m /\ Forall (fun x => x < 65536) (c_buf m')).
Proof.
  intro H. destruct compact_bitlist_frame_counterexample as (m' & H1 & H2 & H3 & H4 & H5 & H6 & H7).
  destruct (H _ _ _ _ H1 H2 H3 H4) as (_ & F & _). specialize (F 5 H5). rewrite H6, H7 in F. discriminate.
Qed.

(* the true statement: with the (reachable, preserved) tail invariant the frame holds for every j *)
Theorem compact_bitlist_get_set :
  forall m i v m', 1 <= c_unit m <= 64 -> Forall (fun x => x < 65536) (c_buf m) -> tail_clean m ->
    v < 2 ^ c_unit m ->
    cbl_set m i v = Some m' ->
    cbl_get m' i = v /\ (forall j, j <> i -> cbl_get m' j = cbl_get m j)
    /\ c_unit m' = c_unit m /\ Forall (fun x => x < 65536) (c_buf m') /\ tail_clean m'.
Proof.
  intros m i v m' Hu Hb Ht Hv Hs.
  destruct (compact_bitlist_get_set_inrange m i v m' Hu Hb Hv Hs) as (A1 & A2 & A3 & A4 & A5).
  destruct (cbl_set_bits m i v m' Hu Hb Hs) as (U & W & R & G & B).
  unfold tail_clean in *. rewrite ?U. fold (blen (c_buf m)) (blen (c_buf m')) in *.
  set (u := c_unit m) in *. set (L := blen (c_buf m)) in *. set (L' := blen (c_buf m')) in *.
  split; [assumption|]. split; [|split; [reflexivity|split; [assumption|]]].
  - intros j Hj. destruct (N.le_gt_cases ((j + 1) * u) (L * 16)) as [In|Out]; [apply A2; assumption|].
    rewrite (cbl_get_out m j) by assumption.
    destruct (N.le_gt_cases ((j + 1) * u) (L' * 16)) as [In'|Out'].
    2:{ apply cbl_get_out. rewrite U. assumption. }
    apply N.bits_inj. intro q. rewrite N.bits_0.
    rewrite cbl_get_bits; rewrite ?U; try assumption. fold u.
    destruct (N.ltb_spec q u) as [Q|Q]; cbn [andb]; [|reflexivity]. rewrite B.
    assert (E : (i * u <=? j * u + q) && (j * u + q <? i * u + u) = false).
    { destruct ((i * u <=? j * u + q) && (j * u + q <? i * u + u)) eqn:E; [|reflexivity].
      exfalso. apply (mul_window_disjoint i j u q (j * u + q - i * u) Hj Q); lia. }
    rewrite E. apply Ht.
    assert (D : L * 16 / u < j + 1) by (apply N.div_lt_upper_bound; lia).
    assert (M : L * 16 / u * u <= j * u) by (apply N.mul_le_mono_r; lia). lia.
  - intros k Hk. rewrite B.
    assert (D : i + 1 <= L' * 16 / u) by (apply N.div_le_lower_bound; lia).
    assert (M : (i + 1) * u <= L' * 16 / u * u) by (apply N.mul_le_mono_r; assumption).
    assert (E : (i * u <=? k) && (k <? i * u + u) = false) by lia. rewrite E.
    destruct G as [G|G].
    + apply Ht. fold L. rewrite <- G. assumption.
    + apply bits_of_hi; [assumption|]. fold L. lia.
Qed.

(* iterated form: the invariant of cbl_of_list / cbl_append *)
Definition cbl_inv (m : cbl) : Prop :=
  1 <= c_unit m <= 64 /\ Forall (fun x => x < 65536) (c_buf m) /\ tail_clean m.

Lemma cbl_inv_new : forall u, 1 <= u <= 64 -> cbl_inv (cbl_new u).
Proof. intros u Hu. split; [assumption|]. split; [constructor|apply tail_clean_new]. Qed.

Corollary cbl_inv_set : forall m i v m', cbl_inv m -> cbl_set m i v = Some m' ->
  cbl_inv m' /\ cbl_get m' i = v /\ forall j, j <> i -> cbl_get m' j = cbl_get m j.
Proof.
  intros m i v m' (Hu & Hb & Ht) Hs.
  assert (Hv : v < 2 ^ c_unit m).
  { unfold cbl_set in Hs. destruct (N.ltb_spec (c_unit m) (N.size v)); [discriminate|].
    eapply N.lt_le_trans; [apply N.size_gt|]. apply N.pow_le_mono_r; [discriminate|assumption]. }
  destruct (compact_bitlist_get_set m i v m' Hu Hb Ht Hv Hs) as (A & B & C & D & E).
  split; [|split; assumption]. split; [rewrite C; assumption|]. split; assumption.
Qed.

Print Assumptions compact_bitlist_get_set.
Print Assumptions compact_bitlist_get_set_inrange.
Print Assumptions compact_bitlist_frame_counterexample.
Print Assumptions cbl_inv_set.
Print Assumptions compact_bitlist_get_set_as_stated_false.
