(* C06 — QUIC CRYPTO stream reassembly: sort + merge of fragments recovers the stream. *)
From Coq Require Import List NArith Bool Arith Lia ZifyBool ZifyN ZifyNat Sorted.
From Dae Require Import C06_Spec C06_Model C06_Statements.
Import ListNotations.
Open Scope N_scope.

(* ------------------------------------------------------------------ basics *)
Lemma bytes_eqb_eq : forall a b, bytes_eqb a b = true -> a = b.
Proof.
  unfold bytes_eqb. induction a as [|x a IH]; destruct b as [|y b]; cbn; intros H; try discriminate; auto.
  apply andb_prop in H. destruct H as [H1 H2]. apply andb_prop in H2. destruct H2 as [H2 H3].
  apply N.eqb_eq in H2. subst. f_equal. apply IH. rewrite H1. exact H3.
Qed.

Lemma firstn_app_skipn : forall (a b : nat) (l : bytes),
  firstn a l ++ firstn b (skipn a l) = firstn (a + b) l.
Proof.
  induction a as [|a IH]; intros b l; [reflexivity|].
  destruct l as [|x l]; cbn [firstn skipn Nat.add app].
  - destruct b; reflexivity.
  - f_equal. apply IH.
Qed.

Lemma skipn_skipn_add : forall (a b : nat) (l : bytes), skipn a (skipn b l) = skipn (b + a) l.
Proof.
  intros a b; revert a. induction b as [|b IH]; intros a l; [reflexivity|].
  destruct l as [|x l]; cbn [skipn Nat.add].
  - destruct a; reflexivity.
  - apply IH.
Qed.

Lemma sub_len : forall s i j, i <= j -> j <= blen s -> blen (sub s i j) = j - i.
Proof.
  intros s i j H1 H2. unfold sub, blen in *. rewrite firstn_length, skipn_length. lia.
Qed.

Lemma sub_app : forall s i j k, i <= j -> j <= k -> sub s i j ++ sub s j k = sub s i k.
Proof.
  intros s i j k H1 H2. unfold sub.
  replace (skipn (N.to_nat j) s) with (skipn (N.to_nat (j - i)) (skipn (N.to_nat i) s)).
  - rewrite firstn_app_skipn. f_equal. lia.
  - rewrite skipn_skipn_add. f_equal. lia.
Qed.

Lemma skipn_sub : forall s i j k, i <= j -> skipn (N.to_nat (j - i)) (sub s i k) = sub s j k.
Proof.
  intros s i j k H. unfold sub. rewrite skipn_firstn_comm, skipn_skipn_add.
  f_equal; [lia|]. f_equal. lia.
Qed.

Lemma sub_full : forall s, sub s 0 (blen s) = s.
Proof.
  intros s. unfold sub, blen. cbn [N.to_nat skipn].
  replace (N.to_nat (N.of_nat (length s) - 0)) with (length s) by lia. apply firstn_all.
Qed.

(* ------------------------------------------------------------------ fragments as pieces of s *)
Definition fragP (s : bytes) (f : frag) : Prop :=
  f_end f <= blen s /\ snd f = sub s (fst f) (f_end f).

Lemma frag_of_P : forall s f, frag_of s f = true -> fragP s f.
Proof.
  intros s f H. unfold frag_of in H. apply andb_prop in H. destruct H as [H1 H2].
  apply N.leb_le in H1. apply bytes_eqb_eq in H2. split; assumption.
Qed.

Lemma fragmentation_P : forall s fs, fragmentation_of s fs = true -> Forall (fragP s) fs.
Proof.
  intros s fs H. unfold fragmentation_of in H. rewrite forallb_forall in H.
  apply Forall_forall. intros f Hf. apply frag_of_P, H, Hf.
Qed.

Definition cov (p : N) (f : frag) : bool := (fst f <=? p) && (p <? f_end f).

Lemma covered_cov : forall l p, covered l p = existsb (cov p) l.
Proof. reflexivity. Qed.

Lemma covered_app : forall a b p, covered (a ++ b) p = covered a p || covered b p.
Proof. intros. rewrite !covered_cov. apply existsb_app. Qed.

Lemma covered_iff : forall l p, covered l p = true <-> exists f, In f l /\ fst f <= p /\ p < f_end f.
Proof.
  intros l p. rewrite covered_cov, existsb_exists. unfold cov.
  split; intros [f [H1 H2]]; exists f; split; auto; lia.
Qed.

Lemma covered_ext : forall a b p, (forall f, In f a <-> In f b) -> covered a p = covered b p.
Proof.
  intros a b p H. destruct (covered b p) eqn:E.
  - apply covered_iff in E. apply covered_iff. destruct E as [f [H1 H2]]. exists f. split; auto. apply H, H1.
  - destruct (covered a p) eqn:E2; auto. apply covered_iff in E2. destruct E2 as [f [H1 H2]].
    assert (covered b p = true) by (apply covered_iff; exists f; split; auto; apply H, H1). congruence.
Qed.

(* the merged piece is again a piece of s *)
Lemma merge_data : forall s cur nx,
  fragP s cur -> fragP s nx -> fst nx <= f_end cur -> f_end cur < f_end nx ->
  let c' := (fst cur, snd cur ++ skipn (N.to_nat (f_end cur - fst nx)) (snd nx)) in
  fragP s c' /\ f_end c' = f_end nx.
Proof.
  intros s [o1 d1] [o2 d2] [Hc1 Hc2] [Hn1 Hn2] H1 H2. cbv zeta. unfold fragP, f_end in *. cbn [fst snd] in *.
  remember (o1 + blen d1) as e1. remember (o2 + blen d2) as e2.
  assert (He1 : o1 <= e1) by lia.
  assert (Hd : d1 ++ skipn (N.to_nat (e1 - o2)) d2 = sub s o1 e2).
  { rewrite Hc2, Hn2. rewrite skipn_sub by assumption. apply sub_app; lia. }
  rewrite Hd. assert (Hl : blen (sub s o1 e2) = e2 - o1) by (apply sub_len; lia).
  rewrite Hl. replace (o1 + (e2 - o1)) with e2 by lia. repeat split; auto.
Qed.

Definition le_fst (a b : frag) : Prop := fst a <= fst b.

(* ------------------------------------------------------------------ sorting *)
Lemma insert_in : forall f l g, In g (insert_frag f l) <-> g = f \/ In g l.
Proof.
  intros f l g. induction l as [|h r IH]; cbn [insert_frag].
  - cbn. intuition.
  - destruct (fst f <? fst h); cbn [In]; [intuition|]. rewrite IH. intuition.
Qed.

Lemma insert_sorted : forall f l, StronglySorted le_fst l -> StronglySorted le_fst (insert_frag f l).
Proof.
  intros f l H. induction H as [|h r Hs IH Hf]; cbn [insert_frag].
  - constructor; constructor.
  - destruct (fst f <? fst h) eqn:E.
    + constructor; [constructor; assumption|]. constructor; [unfold le_fst; lia|].
      eapply Forall_impl; [|exact Hf]. unfold le_fst. intros; lia.
    + constructor; [assumption|]. apply Forall_forall. intros g Hg. apply insert_in in Hg.
      destruct Hg as [->|Hg]; [unfold le_fst; lia|]. rewrite Forall_forall in Hf. apply Hf, Hg.
Qed.

Lemma sort_aux : forall l acc, StronglySorted le_fst acc ->
  StronglySorted le_fst (fold_left (fun acc f => insert_frag f acc) l acc)
  /\ forall g, In g (fold_left (fun acc f => insert_frag f acc) l acc) <-> In g acc \/ In g l.
Proof.
  induction l as [|f l IH]; intros acc H; cbn [fold_left].
  - split; auto. intros; cbn; intuition.
  - destruct (IH (insert_frag f acc) (insert_sorted f acc H)) as [H1 H2]. split; auto.
    intros g. rewrite H2, insert_in. cbn [In]. intuition.
Qed.

Lemma sort_sorted : forall l, StronglySorted le_fst (sort_frags l).
Proof. intros l. apply (sort_aux l []). constructor. Qed.

Lemma sort_in : forall l g, In g (sort_frags l) <-> In g l.
Proof. intros l g. unfold sort_frags. rewrite (proj2 (sort_aux l [] (SSorted_nil _))). cbn. intuition. Qed.

(* ------------------------------------------------------------------ merging preserves pieces and coverage *)
Lemma merge_loop_inv : forall s rest cur merged,
  StronglySorted le_fst (cur :: rest) -> Forall (fragP s) (cur :: rest) -> Forall (fragP s) merged ->
  Forall (fragP s) (merge_loop cur rest merged)
  /\ forall p, covered (merge_loop cur rest merged) p = covered (merged ++ cur :: rest) p.
Proof.
  intros s. induction rest as [|nx r IH]; intros cur merged Hs Hf Hm; cbn [merge_loop].
  - split; auto. apply Forall_app. split; auto.
  - inversion Hs as [|? ? Hs' Hle]; subst. inversion Hs' as [|? ? Hs'' Hle']; subst.
    inversion Hle as [|? ? Hle1 Hle2]; subst.
    inversion Hf as [|? ? Hfc Hf']; subst. inversion Hf' as [|? ? Hfn Hf'']; subst.
    destruct (fst nx <=? f_end cur) eqn:E1; [destruct (f_end cur <? f_end nx) eqn:E2|].
    + destruct (merge_data s cur nx Hfc Hfn) as [Hp He]; [lia|lia|].
      cbv zeta in Hp, He.
      set (c' := (fst cur, snd cur ++ skipn (N.to_nat (f_end cur - fst nx)) (snd nx))) in *.
      destruct (IH c' merged) as [I1 I2]; auto.
      { constructor; auto. }
      split; auto. intros p. rewrite I2, !covered_app, !covered_cov. cbn [existsb]. f_equal.
      rewrite orb_assoc. f_equal. unfold cov. change (fst c') with (fst cur).
      rewrite He. unfold le_fst in Hle1. assert (fst cur <= f_end cur) by (unfold f_end; lia). lia.
    + destruct (IH cur merged) as [I1 I2]; auto.
      { constructor; auto. }
      split; auto. intros p. rewrite I2, !covered_app, !covered_cov. cbn [existsb]. f_equal.
      rewrite orb_assoc. f_equal. unfold cov. unfold le_fst in Hle1. lia.
    + destruct (IH nx (merged ++ [cur])) as [I1 I2]; auto.
      { apply Forall_app. split; auto. }
      split; auto. intros p. rewrite I2. rewrite <- app_assoc. reflexivity.
Qed.

Lemma merge_frags_inv : forall s l, StronglySorted le_fst l -> Forall (fragP s) l ->
  Forall (fragP s) (merge_frags l) /\ forall p, covered (merge_frags l) p = covered l p.
Proof.
  intros s [|c r] Hs Hf; cbn [merge_frags]; [split; auto|].
  apply (merge_loop_inv s r c []); auto.
Qed.

Lemma reassemble_inv : forall s a b, Forall (fragP s) a -> Forall (fragP s) b ->
  Forall (fragP s) (reassemble_frags a b)
  /\ forall p, covered (reassemble_frags a b) p = covered (a ++ b) p.
Proof.
  intros s a b Ha Hb. unfold reassemble_frags.
  destruct (merge_frags_inv s (sort_frags (a ++ b)) (sort_sorted _)) as [H1 H2].
  - apply Forall_forall. intros f Hf. apply (proj1 (sort_in _ _)) in Hf.
    assert (HF : Forall (fragP s) (a ++ b)) by (apply Forall_app; split; auto).
    rewrite Forall_forall in HF. apply HF, Hf.
  - split; auto. intros p. rewrite H2. apply covered_ext. intros f. apply sort_in.
Qed.

(* ------------------------------------------------------------------ complete coverage merges to one block *)
Lemma merge_complete : forall s rest cur,
  StronglySorted le_fst (cur :: rest) -> Forall (fragP s) (cur :: rest) ->
  (forall p, f_end cur <= p -> p < blen s -> covered rest p = true) ->
  merge_loop cur rest [] = [(fst cur, sub s (fst cur) (blen s))].
Proof.
  intros s. induction rest as [|nx r IH]; intros cur Hs Hf Hc; cbn [merge_loop].
  - inversion Hf as [|? ? [Hf1 Hf2] _]; subst. cbn [app].
    assert (He : f_end cur = blen s).
    { destruct (N.lt_ge_cases (f_end cur) (blen s)) as [Hlt|Hge]; [|lia].
      specialize (Hc (f_end cur) (N.le_refl _) Hlt). discriminate. }
    rewrite <- He, <- Hf2. destruct cur; reflexivity.
  - inversion Hs as [|? ? Hs' Hle]; subst. inversion Hs' as [|? ? Hs'' Hle']; subst.
    inversion Hle as [|? ? Hle1 Hle2]; subst.
    inversion Hf as [|? ? Hfc Hf']; subst. inversion Hf' as [|? ? Hfn Hf'']; subst.
    destruct (fst nx <=? f_end cur) eqn:E1; [destruct (f_end cur <? f_end nx) eqn:E2|].
    + destruct (merge_data s cur nx Hfc Hfn) as [Hp He]; [lia|lia|].
      cbv zeta in Hp, He.
      set (c' := (fst cur, snd cur ++ skipn (N.to_nat (f_end cur - fst nx)) (snd nx))) in *.
      change [(fst cur, sub s (fst cur) (blen s))] with [(fst c', sub s (fst c') (blen s))].
      apply IH.
      * constructor; auto.
      * constructor; auto.
      * intros p Hp1 Hp2. rewrite He in Hp1.
        assert (Hcp : covered (nx :: r) p = true) by (apply Hc; lia).
        rewrite covered_cov in *. cbn [existsb] in Hcp. unfold cov at 1 in Hcp.
        apply orb_prop in Hcp. destruct Hcp as [Hcp|Hcp]; [lia|exact Hcp].
    + apply IH.
      * constructor; auto.
      * constructor; auto.
      * intros p Hp1 Hp2.
        assert (Hcp : covered (nx :: r) p = true) by (apply Hc; lia).
        rewrite covered_cov in *. cbn [existsb] in Hcp. unfold cov at 1 in Hcp.
        apply orb_prop in Hcp. destruct Hcp as [Hcp|Hcp]; [lia|exact Hcp].
    + exfalso. destruct Hfn as [Hfn1 Hfn2].
      assert (Hnx : fst nx <= f_end nx) by (unfold f_end; lia).
      assert (Hcp : covered (nx :: r) (f_end cur) = true) by (apply Hc; lia).
      apply covered_iff in Hcp. destruct Hcp as [f [Hin [Hf1 Hf2]]].
      destruct Hin as [->|Hin]; [lia|].
      rewrite Forall_forall in Hle'. specialize (Hle' f Hin). unfold le_fst in Hle'. lia.
Qed.

Lemma merge_frags_complete : forall s l, s <> [] ->
  StronglySorted le_fst l -> Forall (fragP s) l ->
  (forall p, p < blen s -> covered l p = true) ->
  merge_frags l = [(0, s)].
Proof.
  intros s l Hne Hs Hf Hc.
  assert (Hpos : 0 < blen s) by (destruct s; [congruence|unfold blen; cbn [length]; lia]).
  destruct l as [|c r].
  - specialize (Hc 0 Hpos). discriminate.
  - cbn [merge_frags].
    assert (H0 : fst c = 0).
    { pose proof (Hc 0 Hpos) as H. apply covered_iff in H. destruct H as [f [Hin [H1 H2]]].
      destruct Hin as [->|Hin]; [lia|].
      inversion Hs as [|? ? _ Hle]; subst. rewrite Forall_forall in Hle.
      specialize (Hle f Hin). unfold le_fst in Hle. lia. }
    rewrite (merge_complete s r c Hs Hf).
    + rewrite H0, sub_full. reflexivity.
    + intros p Hp1 Hp2. specialize (Hc p Hp2). rewrite covered_cov in *. cbn [existsb] in Hc.
      unfold cov at 1 in Hc. apply orb_prop in Hc. destruct Hc as [Hc|Hc]; [lia|exact Hc].
Qed.

Lemma covers_all_iff : forall s l, covers_all s l = true -> forall p, p < blen s -> covered l p = true.
Proof.
  intros s l H p Hp. unfold covers_all in H. rewrite forallb_forall in H.
  specialize (H (N.to_nat p)). rewrite N2Nat.id in H. apply H. apply in_seq. unfold blen in Hp. lia.
Qed.

Lemma fold_reassemble : forall s packets acc, s <> [] -> packets <> [] ->
  Forall (fragP s) acc -> Forall (fun pk => Forall (fragP s) pk) packets ->
  (forall p, p < blen s -> covered (acc ++ concat packets) p = true) ->
  fold_left reassemble_frags packets acc = [(0, s)].
Proof.
  intros s. induction packets as [|pk rest IH]; intros acc Hne Hpk Ha Hp Hc; [congruence|].
  inversion Hp as [|? ? Hp1 Hp2]; subst. cbn [fold_left].
  destruct (reassemble_inv s acc pk Ha Hp1) as [R1 R2].
  destruct rest as [|pk2 rest2].
  - cbn [fold_left]. unfold reassemble_frags. apply merge_frags_complete; auto.
    + apply sort_sorted.
    + apply Forall_forall. intros f Hf. apply (proj1 (sort_in _ _)) in Hf.
      assert (HF : Forall (fragP s) (acc ++ pk)) by (apply Forall_app; split; auto).
      rewrite Forall_forall in HF. apply HF, Hf.
    + intros p Hlt. rewrite (covered_ext _ (acc ++ pk)) by (intros f; apply sort_in).
      specialize (Hc p Hlt). cbn [concat] in Hc. rewrite app_nil_r in Hc. exact Hc.
  - apply IH; auto; [discriminate|].
    intros p Hlt. specialize (Hc p Hlt). rewrite covered_app, R2.
    cbn [concat] in Hc. rewrite app_assoc in Hc. rewrite covered_app in Hc. exact Hc.
Qed.

Lemma C06_crypto_reassembly_proof : C06_crypto_reassembly_stmt.
Proof.
  unfold C06_crypto_reassembly_stmt. intros s packets Hne Hfr Hcov.
  apply fold_reassemble; auto.
  - intros ->. cbn in Hcov. destruct s; [congruence|discriminate].
  - apply Forall_forall. intros pk Hin. rewrite forallb_forall in Hfr.
    apply fragmentation_P, Hfr, Hin.
  - cbn [app]. apply covers_all_iff. exact Hcov.
Qed.

Print Assumptions C06_crypto_reassembly_proof.
