(* C06 — QUIC CRYPTO stream reassembly: sort + merge of fragments recovers the stream. *)
From Coq Require Import List NArith ZArith Bool Arith Lia ZifyBool ZifyN ZifyNat Sorted.
From Dae.gen Require Import C06_Extracted.
From Dae Require Import C06_Spec C06_Model C06_Statements.
Import ListNotations.
Open Scope N_scope.

(* ------------------------------------------------------------------ basics *)
Lemma bytes_eqb_eq : forall a b, bytes_eqb a b = true -> a = b.
Proof.
  unfold bytes_eqb. induction a as [|x a IH]; destruct b as [|y b]; cbn; intros H; try discriminate; auto.
  apply andb_prop in H. destruct H as [H1 H2]. apply andb_prop in H2. destruct H2 as [H2 H3].
  apply N.eqb_eq in H2. subst. f_equal. apply IH. rewrite H1. exact H3.
Qed.

Lemma firstn_app_skipn : forall (a b : nat) (l : bytes),
  firstn a l ++ firstn b (skipn a l) = firstn (a + b) l.
Proof.
  induction a as [|a IH]; intros b l; [reflexivity|].
  destruct l as [|x l]; cbn [firstn skipn Nat.add app].
  - destruct b; reflexivity.
  - f_equal. apply IH.
Qed.

Lemma skipn_skipn_add : forall (a b : nat) (l : bytes), skipn a (skipn b l) = skipn (b + a) l.
Proof.
  intros a b; revert a. induction b as [|b IH]; intros a l; [reflexivity|].
  destruct l as [|x l]; cbn [skipn Nat.add].
  - destruct a; reflexivity.
  - apply IH.
Qed.

Lemma sub_len : forall s i j, i <= j -> j <= blen s -> blen (sub s i j) = j - i.
Proof.
  intros s i j H1 H2. unfold sub, blen in *. rewrite firstn_length, skipn_length. lia.
Qed.

Lemma sub_app : forall s i j k, i <= j -> j <= k -> sub s i j ++ sub s j k = sub s i k.
Proof.
  intros s i j k H1 H2. unfold sub.
  replace (skipn (N.to_nat j) s) with (skipn (N.to_nat (j - i)) (skipn (N.to_nat i) s)).
  - rewrite firstn_app_skipn. f_equal. lia.
  - rewrite skipn_skipn_add. f_equal. lia.
Qed.

Lemma skipn_sub : forall s i j k, i <= j -> skipn (N.to_nat (j - i)) (sub s i k) = sub s j k.
Proof.
  intros s i j k H. unfold sub. rewrite skipn_firstn_comm, skipn_skipn_add.
  f_equal; [lia|]. f_equal. lia.
Qed.

Lemma sub_full : forall s, sub s 0 (blen s) = s.
Proof.
  intros s. unfold sub, blen. cbn [N.to_nat skipn].
  replace (N.to_nat (N.of_nat (length s) - 0)) with (length s) by lia. apply firstn_all.
Qed.

(* ------------------------------------------------------------------ fragments as pieces of s *)
Definition fragP (s : bytes) (f : frag) : Prop :=
  f_end f <= blen s /\ snd f = sub s (fst f) (f_end f).

Lemma frag_of_P : forall s f, frag_of s f = true -> fragP s f.
Proof.
  intros s f H. unfold frag_of in H. apply andb_prop in H. destruct H as [H1 H2].
  apply N.leb_le in H1. apply bytes_eqb_eq in H2. split; assumption.
Qed.

Lemma fragmentation_P : forall s fs, fragmentation_of s fs = true -> Forall (fragP s) fs.
Proof.
  intros s fs H. unfold fragmentation_of in H. rewrite forallb_forall in H.
  apply Forall_forall. intros f Hf. apply frag_of_P, H, Hf.
Qed.

Definition cov (p : N) (f : frag) : bool := (fst f <=? p) && (p <? f_end f).

Lemma covered_cov : forall l p, covered l p = existsb (cov p) l.
Proof. reflexivity. Qed.

Lemma covered_app : forall a b p, covered (a ++ b) p = covered a p || covered b p.
Proof. intros. rewrite !covered_cov. apply existsb_app. Qed.

Lemma covered_iff : forall l p, covered l p = true <-> exists f, In f l /\ fst f <= p /\ p < f_end f.
Proof.
  intros l p. rewrite covered_cov, existsb_exists. unfold cov.
  split; intros [f [H1 H2]]; exists f; split; auto; lia.
Qed.

Lemma covered_ext : forall a b p, (forall f, In f a <-> In f b) -> covered a p = covered b p.
Proof.
  intros a b p H. destruct (covered b p) eqn:E.
  - apply covered_iff in E. apply covered_iff. destruct E as [f [H1 H2]]. exists f. split; auto. apply H, H1.
  - destruct (covered a p) eqn:E2; auto. apply covered_iff in E2. destruct E2 as [f [H1 H2]].
    assert (covered b p = true) by (apply covered_iff; exists f; split; auto; apply H, H1). congruence.
Qed.

(* the merged piece is again a piece of s *)
Lemma merge_data : forall s cur nx,
  fragP s cur -> fragP s nx -> fst nx <= f_end cur -> f_end cur < f_end nx ->
  let c' := (fst cur, snd cur ++ skipn (N.to_nat (f_end cur - fst nx)) (snd nx)) in
  fragP s c' /\ f_end c' = f_end nx.
Proof.
  intros s [o1 d1] [o2 d2] [Hc1 Hc2] [Hn1 Hn2] H1 H2. cbv zeta. unfold fragP, f_end in *. cbn [fst snd] in *.
  remember (o1 + blen d1) as e1. remember (o2 + blen d2) as e2.
  assert (He1 : o1 <= e1) by lia.
  assert (Hd : d1 ++ skipn (N.to_nat (e1 - o2)) d2 = sub s o1 e2).
  { rewrite Hc2, Hn2. rewrite skipn_sub by assumption. apply sub_app; lia. }
  rewrite Hd. assert (Hl : blen (sub s o1 e2) = e2 - o1) by (apply sub_len; lia).
  rewrite Hl. replace (o1 + (e2 - o1)) with e2 by lia. repeat split; auto.
Qed.

Definition le_fst (a b : frag) : Prop := fst a <= fst b.

(* ------------------------------------------------------------------ sorting *)
Lemma insert_in : forall f l g, In g (insert_frag f l) <-> g = f \/ In g l.
Proof.
  intros f l g. induction l as [|h r IH]; cbn [insert_frag].
  - cbn. intuition.
  - destruct (fst f <? fst h); cbn [In]; [intuition|]. rewrite IH. intuition.
Qed.

Lemma insert_sorted : forall f l, StronglySorted le_fst l -> StronglySorted le_fst (insert_frag f l).
Proof.
  intros f l H. induction H as [|h r Hs IH Hf]; cbn [insert_frag].
  - constructor; constructor.
  - destruct (fst f <? fst h) eqn:E.
    + constructor; [constructor; assumption|]. constructor; [unfold le_fst; lia|].
      eapply Forall_impl; [|exact Hf]. unfold le_fst. intros; lia.
    + constructor; [assumption|]. apply Forall_forall. intros g Hg. apply insert_in in Hg.
      destruct Hg as [->|Hg]; [unfold le_fst; lia|]. rewrite Forall_forall in Hf. apply Hf, Hg.
Qed.

Lemma sort_aux : forall l acc, StronglySorted le_fst acc ->
  StronglySorted le_fst (fold_left (fun acc f => insert_frag f acc) l acc)
  /\ forall g, In g (fold_left (fun acc f => insert_frag f acc) l acc) <-> In g acc \/ In g l.
Proof.
  induction l as [|f l IH]; intros acc H; cbn [fold_left].
  - split; auto. intros; cbn; intuition.
  - destruct (IH (insert_frag f acc) (insert_sorted f acc H)) as [H1 H2]. split; auto.
    intros g. rewrite H2, insert_in. cbn [In]. intuition.
Qed.

Lemma sort_sorted : forall l, StronglySorted le_fst (sort_frags l).
Proof. intros l. apply (sort_aux l []). constructor. Qed.

Lemma sort_in : forall l g, In g (sort_frags l) <-> In g l.
Proof. intros l g. unfold sort_frags. rewrite (proj2 (sort_aux l [] (SSorted_nil _))). cbn. intuition. Qed.

(* ------------------------------------------------------------------ merging preserves pieces and coverage *)
Lemma merge_loop_inv : forall s rest cur merged,
  StronglySorted le_fst (cur :: rest) -> Forall (fragP s) (cur :: rest) -> Forall (fragP s) merged ->
  Forall (fragP s) (merge_loop cur rest merged)
  /\ forall p, covered (merge_loop cur rest merged) p = covered (merged ++ cur :: rest) p.
Proof.
  intros s. induction rest as [|nx r IH]; intros cur merged Hs Hf Hm; cbn [merge_loop].
  - split; auto. apply Forall_app. split; auto.
  - inversion Hs as [|? ? Hs' Hle]; subst. inversion Hs' as [|? ? Hs'' Hle']; subst.
    inversion Hle as [|? ? Hle1 Hle2]; subst.
    inversion Hf as [|? ? Hfc Hf']; subst. inversion Hf' as [|? ? Hfn Hf'']; subst.
    destruct (fst nx <=? f_end cur) eqn:E1; [destruct (f_end cur <? f_end nx) eqn:E2|].
    + destruct (merge_data s cur nx Hfc Hfn) as [Hp He]; [lia|lia|].
      cbv zeta in Hp, He.
      set (c' := (fst cur, snd cur ++ skipn (N.to_nat (f_end cur - fst nx)) (snd nx))) in *.
      destruct (IH c' merged) as [I1 I2]; auto.
      { constructor; auto. }
      split; auto. intros p. rewrite I2, !covered_app, !covered_cov. cbn [existsb]. f_equal.
      rewrite orb_assoc. f_equal. unfold cov. change (fst c') with (fst cur).
      rewrite He. unfold le_fst in Hle1. assert (fst cur <= f_end cur) by (unfold f_end; lia). lia.
    + destruct (IH cur merged) as [I1 I2]; auto.
      { constructor; auto. }
      split; auto. intros p. rewrite I2, !covered_app, !covered_cov. cbn [existsb]. f_equal.
      rewrite orb_assoc. f_equal. unfold cov. unfold le_fst in Hle1. lia.
    + destruct (IH nx (merged ++ [cur])) as [I1 I2]; auto.
      { apply Forall_app. split; auto. }
      split; auto. intros p. rewrite I2. rewrite <- app_assoc. reflexivity.
Qed.

Lemma merge_frags_inv : forall s l, StronglySorted le_fst l -> Forall (fragP s) l ->
  Forall (fragP s) (merge_frags l) /\ forall p, covered (merge_frags l) p = covered l p.
Proof.
  intros s [|c r] Hs Hf; cbn [merge_frags]; [split; auto|].
  apply (merge_loop_inv s r c []); auto.
Qed.

Lemma reassemble_inv : forall s a b, Forall (fragP s) a -> Forall (fragP s) b ->
  Forall (fragP s) (reassemble_frags a b)
  /\ forall p, covered (reassemble_frags a b) p = covered (a ++ b) p.
Proof.
  intros s a b Ha Hb. unfold reassemble_frags.
  destruct (merge_frags_inv s (sort_frags (a ++ b)) (sort_sorted _)) as [H1 H2].
  - apply Forall_forall. intros f Hf. apply (proj1 (sort_in _ _)) in Hf.
    assert (HF : Forall (fragP s) (a ++ b)) by (apply Forall_app; split; auto).
    rewrite Forall_forall in HF. apply HF, Hf.
  - split; auto. intros p. rewrite H2. apply covered_ext. intros f. apply sort_in.
Qed.

(* ------------------------------------------------------------------ complete coverage merges to one block *)
Lemma merge_complete : forall s rest cur,
  StronglySorted le_fst (cur :: rest) -> Forall (fragP s) (cur :: rest) ->
  (forall p, f_end cur <= p -> p < blen s -> covered rest p = true) ->
  merge_loop cur rest [] = [(fst cur, sub s (fst cur) (blen s))].
Proof.
  intros s. induction rest as [|nx r IH]; intros cur Hs Hf Hc; cbn [merge_loop].
  - inversion Hf as [|? ? [Hf1 Hf2] _]; subst. cbn [app].
    assert (He : f_end cur = blen s).
    { destruct (N.lt_ge_cases (f_end cur) (blen s)) as [Hlt|Hge]; [|lia].
      specialize (Hc (f_end cur) (N.le_refl _) Hlt). discriminate. }
    rewrite <- He, <- Hf2. destruct cur; reflexivity.
  - inversion Hs as [|? ? Hs' Hle]; subst. inversion Hs' as [|? ? Hs'' Hle']; subst.
    inversion Hle as [|? ? Hle1 Hle2]; subst.
    inversion Hf as [|? ? Hfc Hf']; subst. inversion Hf' as [|? ? Hfn Hf'']; subst.
    destruct (fst nx <=? f_end cur) eqn:E1; [destruct (f_end cur <? f_end nx) eqn:E2|].
    + destruct (merge_data s cur nx Hfc Hfn) as [Hp He]; [lia|lia|].
      cbv zeta in Hp, He.
      set (c' := (fst cur, snd cur ++ skipn (N.to_nat (f_end cur - fst nx)) (snd nx))) in *.
      change [(fst cur, sub s (fst cur) (blen s))] with [(fst c', sub s (fst c') (blen s))].
      apply IH.
      * constructor; auto.
      * constructor; auto.
      * intros p Hp1 Hp2. rewrite He in Hp1.
        assert (Hcp : covered (nx :: r) p = true) by (apply Hc; lia).
        rewrite covered_cov in *. cbn [existsb] in Hcp. unfold cov at 1 in Hcp.
        apply orb_prop in Hcp. destruct Hcp as [Hcp|Hcp]; [lia|exact Hcp].
    + apply IH.
      * constructor; auto.
      * constructor; auto.
      * intros p Hp1 Hp2.
        assert (Hcp : covered (nx :: r) p = true) by (apply Hc; lia).
        rewrite covered_cov in *. cbn [existsb] in Hcp. unfold cov at 1 in Hcp.
        apply orb_prop in Hcp. destruct Hcp as [Hcp|Hcp]; [lia|exact Hcp].
    + exfalso. destruct Hfn as [Hfn1 Hfn2].
      assert (Hnx : fst nx <= f_end nx) by (unfold f_end; lia).
      assert (Hcp : covered (nx :: r) (f_end cur) = true) by (apply Hc; lia).
      apply covered_iff in Hcp. destruct Hcp as [f [Hin [Hf1 Hf2]]].
      destruct Hin as [->|Hin]; [lia|].
      rewrite Forall_forall in Hle'. specialize (Hle' f Hin). unfold le_fst in Hle'. lia.
Qed.

Lemma merge_frags_complete : forall s l, s <> [] ->
  StronglySorted le_fst l -> Forall (fragP s) l ->
  (forall p, p < blen s -> covered l p = true) ->
  merge_frags l = [(0, s)].
Proof.
  intros s l Hne Hs Hf Hc.
  assert (Hpos : 0 < blen s) by (destruct s; [congruence|unfold blen; cbn [length]; lia]).
  destruct l as [|c r].
  - specialize (Hc 0 Hpos). discriminate.
  - cbn [merge_frags].
    assert (H0 : fst c = 0).
    { pose proof (Hc 0 Hpos) as H. apply covered_iff in H. destruct H as [f [Hin [H1 H2]]].
      destruct Hin as [->|Hin]; [lia|].
      inversion Hs as [|? ? _ Hle]; subst. rewrite Forall_forall in Hle.
      specialize (Hle f Hin). unfold le_fst in Hle. lia. }
    rewrite (merge_complete s r c Hs Hf).
    + rewrite H0, sub_full. reflexivity.
    + intros p Hp1 Hp2. specialize (Hc p Hp2). rewrite covered_cov in *. cbn [existsb] in Hc.
      unfold cov at 1 in Hc. apply orb_prop in Hc. destruct Hc as [Hc|Hc]; [lia|exact Hc].
Qed.

Lemma covers_all_iff : forall s l, covers_all s l = true -> forall p, p < blen s -> covered l p = true.
Proof.
  intros s l H p Hp. unfold covers_all in H. rewrite forallb_forall in H.
  specialize (H (N.to_nat p)). rewrite N2Nat.id in H. apply H. apply in_seq. unfold blen in Hp. lia.
Qed.

Lemma fold_reassemble : forall s packets acc, s <> [] -> packets <> [] ->
  Forall (fragP s) acc -> Forall (fun pk => Forall (fragP s) pk) packets ->
  (forall p, p < blen s -> covered (acc ++ concat packets) p = true) ->
  fold_left reassemble_frags packets acc = [(0, s)].
Proof.
  intros s. induction packets as [|pk rest IH]; intros acc Hne Hpk Ha Hp Hc; [congruence|].
  inversion Hp as [|? ? Hp1 Hp2]; subst. cbn [fold_left].
  destruct (reassemble_inv s acc pk Ha Hp1) as [R1 R2].
  destruct rest as [|pk2 rest2].
  - cbn [fold_left]. unfold reassemble_frags. apply merge_frags_complete; auto.
    + apply sort_sorted.
    + apply Forall_forall. intros f Hf. apply (proj1 (sort_in _ _)) in Hf.
      assert (HF : Forall (fragP s) (acc ++ pk)) by (apply Forall_app; split; auto).
      rewrite Forall_forall in HF. apply HF, Hf.
    + intros p Hlt. rewrite (covered_ext _ (acc ++ pk)) by (intros f; apply sort_in).
      specialize (Hc p Hlt). cbn [concat] in Hc. rewrite app_nil_r in Hc. exact Hc.
  - apply IH; auto; [discriminate|].
    intros p Hlt. specialize (Hc p Hlt). rewrite covered_app, R2.
    cbn [concat] in Hc. rewrite app_assoc in Hc. rewrite covered_app in Hc. exact Hc.
Qed.

Lemma C06_crypto_reassembly_proof : C06_crypto_reassembly_stmt.
Proof.
  unfold C06_crypto_reassembly_stmt. intros s packets Hne Hfr Hcov.
  apply fold_reassemble; auto.
  - intros ->. cbn in Hcov. destruct s; [congruence|discriminate].
  - apply Forall_forall. intros pk Hin. rewrite forallb_forall in Hfr.
    apply fragmentation_P, Hfr, Hin.
  - cbn [app]. apply covers_all_iff. exact Hcov.
Qed.

Print Assumptions C06_crypto_reassembly_proof.

(* ------------------------------------------------------------------ QUIC varint and frame parsing round trip *)
(* RFC 9000 section 16, minimal-length encoding, n < 2^62 *)


Ltac divlia := Zify.zify; Z.div_mod_to_equations; lia.

Lemma chain : forall n a b, b = a * 256 -> a <> 0 -> (n / b) * 256 + (n / a) mod 256 = n / a.
Proof.
  intros n a b -> Ha. rewrite <- N.div_div by lia. rewrite N.mul_comm. symmetry. apply N.div_mod'. 
Qed.
Lemma t8 : forall n, n < 4611686018427387904 -> ~ n < 1073741824 ->
 ((((((((192 + n / 72057594037927936) mod 64) * 256 + (n / 281474976710656) mod 256) * 256 + (n / 1099511627776) mod 256) * 256 +
     (n / 4294967296) mod 256) * 256 + (n / 16777216) mod 256) * 256 + (n / 65536) mod 256) * 256 + (n / 256) mod 256) * 256 + n mod 256 = n.
Proof.
  intros n H1 H2.
  assert (Hm : (192 + n / 72057594037927936) mod 64 = n / 72057594037927936).
  { assert (n / 72057594037927936 < 64) by (apply N.div_lt_upper_bound; lia).
    change 192 with (3 * 64). rewrite N.add_comm, N.mod_add by lia. apply N.mod_small. assumption. }
  rewrite Hm.
  rewrite (chain n 281474976710656 72057594037927936); [|reflexivity|discriminate].
  rewrite (chain n 1099511627776 281474976710656); [|reflexivity|discriminate].
  rewrite (chain n 4294967296 1099511627776); [|reflexivity|discriminate].
  rewrite (chain n 16777216 4294967296); [|reflexivity|discriminate].
  rewrite (chain n 65536 16777216); [|reflexivity|discriminate].
  rewrite (chain n 256 65536); [|reflexivity|discriminate].
  rewrite <- (N.div_1_r n) at 2. rewrite (chain n 1 256); [|reflexivity|discriminate]. apply N.div_1_r.
Qed.
Lemma q8 : forall n, n < 4611686018427387904 -> (192 + n / 72057594037927936) / 64 = 3.
Proof.
  intros n H. assert (n / 72057594037927936 < 64) by (apply N.div_lt_upper_bound; lia).
  change 192 with (3 * 64). rewrite N.add_comm, N.div_add by lia. rewrite N.div_small by assumption. reflexivity.
Qed.

Lemma uvarint_enc : forall n r, n < 4611686018427387904 ->
  uvarint (enc_varint n ++ r) = Some (n, blen (enc_varint n)).
Proof.
  intros n r Hn. unfold enc_varint.
  destruct (n <? 64) eqn:E1; [|destruct (n <? 16384) eqn:E2; [|destruct (n <? 1073741824) eqn:E3]];
    cbn [app]; unfold uvarint.
  - assert (Hq : n / 64 = 0) by divlia. assert (Hm : n mod 64 = n) by divlia.
    rewrite Hq, Hm. change (N.shiftl 1 0) with 1.
    replace (blen (n :: r) <? 1) with false by (unfold blen; cbn [length]; lia).
    change (N.to_nat 1 - 1)%nat with 0%nat. cbn [firstn fold_left]. reflexivity.
  - assert (Hq : (64 + n / 256) / 64 = 1) by divlia.
    rewrite Hq. change (N.shiftl 1 1) with 2.
    match goal with |- context [blen ?l <? 2] => replace (blen l <? 2) with false by (unfold blen; cbn [length]; lia) end.
    change (N.to_nat 2 - 1)%nat with 1%nat. cbn [firstn fold_left]. f_equal. f_equal. divlia.
  - assert (Hq : (128 + n / 16777216) / 64 = 2) by divlia.
    rewrite Hq. change (N.shiftl 1 2) with 4.
    match goal with |- context [blen ?l <? 4] => replace (blen l <? 4) with false by (unfold blen; cbn [length]; lia) end.
    change (N.to_nat 4 - 1)%nat with 3%nat. cbn [firstn fold_left]. f_equal. f_equal. divlia.
  - assert (Hq : (192 + n / 72057594037927936) / 64 = 3) by (apply q8; assumption).
    rewrite Hq. change (N.shiftl 1 3) with 8.
    match goal with |- context [blen ?l <? 8] => replace (blen l <? 8) with false by (unfold blen; cbn [length]; lia) end.
    change (N.to_nat 8 - 1)%nat with 7%nat. cbn [firstn fold_left]. f_equal. f_equal. apply t8; [assumption|lia].
Qed.

Lemma enc_varint_nonempty : forall n, 1 <= blen (enc_varint n).
Proof.
  intros n. unfold enc_varint.
  destruct (n <? 64); [|destruct (n <? 16384); [|destruct (n <? 1073741824)]]; unfold blen; cbn [length]; lia.
Qed.

Lemma skipn_blen_app : forall (a b : bytes), skipn (N.to_nat (blen a)) (a ++ b) = b.
Proof.
  intros a b. unfold blen. rewrite Nat2N.id, skipn_app, skipn_all, Nat.sub_diag. reflexivity.
Qed.

Lemma sub_mid : forall (a d y : bytes), sub (a ++ d ++ y) (blen a) (blen a + blen d) = d.
Proof.
  intros a d y. unfold sub. rewrite skipn_blen_app.
  replace (N.to_nat (blen a + blen d - blen a)) with (length d) by (unfold blen; lia).
  rewrite firstn_app, firstn_all, Nat.sub_diag. cbn [firstn]. apply app_nil_r.
Qed.

Lemma uvarint_small : forall b r, b < 64 -> uvarint (b :: r) = Some (b, 1).
Proof.
  intros b r H. assert (E : enc_varint b = [b]) by (unfold enc_varint; replace (b <? 64) with true by lia; reflexivity).
  change (b :: r) with ([b] ++ r). rewrite <- E. rewrite uvarint_enc by lia. rewrite E. reflexivity.
Qed.

Lemma frames_step : forall f pre X Y acc o, X <> [] ->
  extract_frame (X ++ Y) = FOk o (blen X) ->
  frames_loop (S f) (pre ++ X ++ Y) (blen pre) acc
  = frames_loop f ((pre ++ X) ++ Y) (blen (pre ++ X)) (match o with Some x => acc ++ [x] | None => acc end).
Proof.
  intros f pre X Y acc o Hne He. cbn [frames_loop].
  replace (blen pre <? blen (pre ++ X ++ Y)) with true
    by (destruct X; [congruence|unfold blen; rewrite !app_length; cbn [length]; lia]).
  rewrite skipn_blen_app, He. rewrite <- app_assoc. f_equal. unfold blen. rewrite app_length. lia.
Qed.

Lemma extract_ping : forall Y, extract_frame ([1] ++ Y) = FOk None (blen [1]).
Proof.
  intros Y. cbn [app]. unfold extract_frame. rewrite uvarint_small by lia. reflexivity.
Qed.

Lemma extract_padding : forall k Y, count_zeros Y = 0 ->
  extract_frame (repeat 0 (S k) ++ Y) = FOk None (blen (repeat 0 (S k))).
Proof.
  intros k Y HY. cbn [repeat app]. unfold extract_frame. rewrite uvarint_small by lia.
  unfold frame_ping, frame_padding. change (0 =? 1) with false. change (0 =? 0) with true. cbv iota.
  change (N.to_nat 1) with 1%nat. cbn [skipn]. f_equal.
  unfold blen. cbn [length]. rewrite repeat_length.
  assert (Hc : count_zeros (repeat 0 k ++ Y) = N.of_nat k).
  { induction k as [|k IH]; [exact HY|]. cbn [repeat app count_zeros]. rewrite IH. lia. }
  rewrite Hc. lia.
Qed.

Lemma extract_crypto : forall off d Y, off < 4611686018427387904 -> blen d < 4611686018427387904 ->
  extract_frame (([6] ++ enc_varint off ++ enc_varint (blen d) ++ d) ++ Y)
  = FOk (Some (off, d)) (blen ([6] ++ enc_varint off ++ enc_varint (blen d) ++ d)).
Proof.
  intros off d Y Ho Hd. cbn [app]. rewrite <- !app_assoc.
  set (eo := enc_varint off). set (el := enc_varint (blen d)).
  unfold extract_frame. rewrite uvarint_small by lia.
  unfold frame_ping, frame_padding, frame_crypto.
  change (6 =? 1) with false. change (6 =? 0) with false. change (6 =? 6) with true. cbv iota.
  change (N.to_nat 1) with 1%nat. cbn [skipn]. subst eo. rewrite uvarint_enc by assumption.
  set (eo := enc_varint off).
  replace (1 + blen eo) with (blen (6 :: eo)) by (unfold blen; cbn [length]; lia).
  change (6 :: eo ++ el ++ d ++ Y) with ((6 :: eo) ++ el ++ d ++ Y).
  rewrite skipn_blen_app. subst el. rewrite uvarint_enc by assumption.
  set (el := enc_varint (blen d)).
  replace (blen (6 :: eo) + blen el) with (blen ((6 :: eo) ++ el)) by (unfold blen; rewrite app_length; lia).
  replace ((6 :: eo) ++ el ++ d ++ Y) with (((6 :: eo) ++ el) ++ d ++ Y) by (rewrite <- app_assoc; reflexivity).
  replace (blen (((6 :: eo) ++ el) ++ d ++ Y) <? blen ((6 :: eo) ++ el) + blen d) with false
    by (unfold blen; rewrite !app_length; lia).
  rewrite sub_mid. f_equal. unfold blen. cbn [app length]. rewrite !app_length. cbn [length]. lia.
Qed.

Fixpoint pad_count (fs : list qframe) : nat :=
  match fs with QPadding n :: r => (n + pad_count r)%nat | _ => 0%nat end.
Fixpoint drop_pads (fs : list qframe) : list qframe :=
  match fs with QPadding _ :: r => drop_pads r | _ => fs end.

Lemma enc_pads : forall fs, enc_frames fs = repeat 0 (pad_count fs) ++ enc_frames (drop_pads fs).
Proof.
  induction fs as [|[n| |off d] r IH]; try reflexivity.
  cbn [pad_count drop_pads]. unfold enc_frames in *. cbn [flat_map enc_qframe].
  rewrite IH, repeat_app, <- app_assoc. reflexivity.
Qed.

Lemma cryptos_drop : forall fs, cryptos (drop_pads fs) = cryptos fs.
Proof. induction fs as [|[n| |off d] r IH]; try reflexivity. exact IH. Qed.

Lemma length_drop : forall fs, (length (drop_pads fs) <= length fs)%nat.
Proof. induction fs as [|[n| |off d] r IH]; cbn [drop_pads length]; lia. Qed.

Lemma wf_drop : forall fs, wf_frames fs -> wf_frames (drop_pads fs).
Proof.
  induction fs as [|[n| |off d] r IH]; intros H; auto. inversion H; subst. apply IH. assumption.
Qed.

Lemma zeros_drop : forall fs, count_zeros (enc_frames (drop_pads fs)) = 0.
Proof. induction fs as [|[n| |off d] r IH]; try reflexivity. exact IH. Qed.

Lemma frames_core : forall fuel fs pre acc, wf_frames fs -> (length fs < fuel)%nat ->
  frames_loop fuel (pre ++ enc_frames fs) (blen pre) acc = ROk (acc ++ cryptos fs).
Proof.
  induction fuel as [|fuel IH]; intros fs pre acc Hwf Hlen; [lia|].
  destruct fs as [|fr rest].
  - cbn [frames_loop enc_frames flat_map cryptos]. rewrite !app_nil_r, N.ltb_irrefl. reflexivity.
  - inversion Hwf as [|? ? Hw1 Hw2]; subst. cbn [length] in Hlen.
    destruct fr as [n| |off d].
    + cbn [wf_qframe] in Hw1. destruct n as [|m]; [lia|].
      change (enc_frames (QPadding (S m) :: rest)) with (repeat 0 (S m) ++ enc_frames rest).
      rewrite (enc_pads rest), (app_assoc (repeat 0 (S m))), <- repeat_app.
      change (S m + pad_count rest)%nat with (S (m + pad_count rest)).
      rewrite frames_step with (o := None).
      * rewrite IH; [|apply wf_drop; assumption|pose proof (length_drop rest); lia].
        rewrite cryptos_drop. reflexivity.
      * discriminate.
      * apply extract_padding, zeros_drop.
    + change (enc_frames (QPing :: rest)) with ([1] ++ enc_frames rest).
      rewrite frames_step with (o := None).
      * rewrite IH; [reflexivity|assumption|lia].
      * discriminate.
      * apply extract_ping.
    + destruct Hw1 as [Ho Hd].
      change (enc_frames (QCrypto off d :: rest)) with (enc_qframe (QCrypto off d) ++ enc_frames rest).
      cbn [enc_qframe].
      rewrite frames_step with (o := Some (off, d)).
      * rewrite IH; [|assumption|lia]. cbn [cryptos flat_map crypto_of]. rewrite <- app_assoc. reflexivity.
      * discriminate.
      * apply extract_crypto; assumption.
Qed.

Lemma enc_frames_length : forall fs, wf_frames fs -> (length fs <= length (enc_frames fs))%nat.
Proof.
  induction fs as [|fr r IH]; intros H; [cbn; lia|]. inversion H as [|? ? H1 H2]; subst.
  unfold enc_frames in *. cbn [flat_map length]. rewrite app_length. specialize (IH H2).
  assert (1 <= length (enc_qframe fr))%nat; [|lia].
  destruct fr as [n| |off d]; cbn [enc_qframe wf_qframe] in *.
  - rewrite repeat_length. assumption.
  - cbn. lia.
  - cbn [app length]. lia.
Qed.

(* frame parsing round trip: the first phase of `reassemble` recovers exactly the CRYPTO frames,
   whatever PADDING / PING frames are interleaved *)
Lemma C06_frames_roundtrip : forall fs acc, wf_frames fs ->
  frames_loop (S (length (enc_frames fs))) (enc_frames fs) 0 acc = ROk (acc ++ cryptos fs).
Proof.
  intros fs acc H. apply (frames_core (S (length (enc_frames fs))) fs [] acc H).
  pose proof (enc_frames_length fs H). lia.
Qed.

Lemma C06_reassemble_roundtrip : forall fs offsets, wf_frames fs ->
  reassemble offsets (enc_frames fs) = ROk (reassemble_frags offsets (cryptos fs)).
Proof.
  intros fs offsets H. unfold reassemble. rewrite C06_frames_roundtrip by assumption. reflexivity.
Qed.

Print Assumptions C06_frames_roundtrip.
Print Assumptions C06_reassemble_roundtrip.
