(* C19 — declaration language, layout functions, byte-order memory primitives (no proofs in this file).

   Part 1: the declaration language both translators emit (coq/gen/C19_Decls.v) and the two layout
           functions: c_layout (clang, x86-64/bpf: natural alignment, unions, aligned attribute) and
           go_layout (gc on amd64/arm64: same size/align rules, zero-size marker fields, the "final
           zero-size field" rule, no unions).
   Part 2: byte-level models of the key constructors of both sides.  Memory is a list of bytes; scalar
           loads/stores go through the host byte order `e`; the field offsets used by the writes are
           COMPUTED by the layout functions from the extracted declarations. *)
From Coq Require Import List NArith Bool String Ascii.
From Dae Require Import C19_Spec.
Import ListNotations.
Open Scope N_scope.

(* ------------------------------------------------------------------------------------------ *)
(* Part 1: declarations and layout                                                              *)
(* ------------------------------------------------------------------------------------------ *)

Inductive ty :=
| TScalar (k : skind) (w : N)            (* size = alignment = w *)
| TArr (n : N) (e : ty)
| TStruct (fs : list (string * ty))
| TUnion (fs : list (string * ty))       (* C only *)
| TAligned (a : N) (t : ty)              (* C only: __attribute__((aligned(a))) *)
| TMarker.                               (* Go only: structs.HostLayout, zero size *)

Inductive lang := LC | LGo.

Definition round_up (x a : N) : N := ((x + a - 1) / a) * a.

(* (size, alignment) *)
Fixpoint sa (L : lang) (t : ty) : N * N :=
  match t with
  | TScalar _ w => (w, N.max 1 w)
  | TArr n e => let '(s, a) := sa L e in (n * s, a)
  | TStruct fs =>
      (* go: offset after the last field, alignment so far, size of the last field, offset of the last field *)
      let '(off, al, lasts, lasto) :=
        (fix go (fs : list (string * ty)) (off al lasts lasto : N) : N * N * N * N :=
           match fs with
           | [] => (off, al, lasts, lasto)
           | (_, t) :: r =>
               let '(s, a) := sa L t in
               let o := round_up off a in
               go r (o + s) (N.max al a) s o
           end) fs 0 1 1 0 in
      let off' := match L with
                  | LGo => if (0 <? lasto) && (lasts =? 0) then off + 1 else off
                  | LC => off
                  end in
      (round_up off' al, al)
  | TUnion fs =>
      let '(sz, al) :=
        (fix go (fs : list (string * ty)) (sz al : N) : N * N :=
           match fs with
           | [] => (sz, al)
           | (_, t) :: r => let '(s, a) := sa L t in go r (N.max sz s) (N.max al a)
           end) fs 0 1 in
      (round_up sz al, al)
  | TAligned a t => let '(s, a0) := sa L t in let al := N.max a a0 in (round_up s al, al)
  | TMarker => (0, 1)
  end.

Definition join (pre nm : string) : string :=
  if String.eqb nm "" then pre else if String.eqb pre "" then nm else (pre ++ "." ++ nm)%string.

Definition digit (n : nat) : string := String (ascii_of_nat (48 + n)) EmptyString.
Definition idx_name (pre : string) (i : nat) : string :=
  (pre ++ "[" ++ (if Nat.ltb i 10 then digit i else digit (Nat.div i 10) ++ digit (Nat.modulo i 10)) ++ "]")%string.

(* leaves in declaration order.  allm = false: of a union only the first member (what bpf2go mirrors);
   allm = true: every union member (used to compare with clang's offsetof of every member). *)
Fixpoint leaves (L : lang) (allm : bool) (t : ty) (base : N) (name : string) : list leaf :=
  match t with
  | TScalar k w => [mkleaf name base w 1 k]
  | TArr n e =>
      match e with
      | TScalar k w => [mkleaf name base w n k]
      | _ => let s := fst (sa L e) in
             flat_map (fun i => leaves L allm e (base + N.of_nat i * s) (idx_name name i)) (seq 0 (N.to_nat n))
      end
  | TStruct fs =>
      (fix go (fs : list (string * ty)) (off : N) : list leaf :=
         match fs with
         | [] => []
         | (nm, t) :: r =>
             let '(s, a) := sa L t in
             let o := round_up off a in
             leaves L allm t (base + o) (join name nm) ++ go r (o + s)
         end) fs 0
  | TUnion fs =>
      if allm then
        (fix go (fs : list (string * ty)) : list leaf :=
           match fs with
           | [] => []
           | (nm, t) :: r => leaves L allm t base (join name nm) ++ go r
           end) fs
      else match fs with
           | [] => []
           | (nm, t) :: _ => leaves L allm t base (join name nm)
           end
  | TAligned _ t => leaves L allm t base name
  | TMarker => []
  end.

Definition layout_of (L : lang) (allm : bool) (t : ty) : layout :=
  let '(s, a) := sa L t in mklayout s a (leaves L allm t 0 "").

Definition c_layout (t : ty) : layout := layout_of LC false t.
Definition go_layout (t : ty) : layout := layout_of LGo false t.

(* which constructors each language has *)
Fixpoint lang_ok (L : lang) (t : ty) : bool :=
  match t with
  | TScalar _ _ => true
  | TArr _ e => lang_ok L e
  | TStruct fs => (fix go (fs : list (string * ty)) : bool :=
                     match fs with [] => true | (_, t) :: r => lang_ok L t && go r end) fs
  | TUnion fs => match L with
                 | LGo => false
                 | LC => (fix go (fs : list (string * ty)) : bool :=
                            match fs with [] => true | (_, t) :: r => lang_ok L t && go r end) fs
                 end
  | TAligned _ t => match L with LGo => false | LC => lang_ok L t end
  | TMarker => match L with LGo => true | LC => false end
  end.

(* the shape for which the soundness lemma is proved: scalar widths and aligned attributes are powers
   of two up to 2^6, arrays have scalar elements or well-shaped elements *)
Definition pow2b (w : N) : bool := existsb (N.eqb w) [1; 2; 4; 8; 16; 32; 64].

Fixpoint ty_ok (t : ty) : bool :=
  match t with
  | TScalar _ w => pow2b w
  | TArr _ e => match e with TScalar _ w => pow2b w | _ => false end
  | TStruct fs => (fix go (fs : list (string * ty)) : bool :=
                     match fs with [] => true | (_, t) :: r => ty_ok t && go r end) fs
  | TUnion fs => (fix go (fs : list (string * ty)) : bool :=
                    match fs with [] => true | (_, t) :: r => ty_ok t && go r end) fs
  | TAligned a t => pow2b a && ty_ok t
  | TMarker => true
  end.

(* pairs of declarations that must agree: (C name, C decl, Go name, Go decl) *)
Definition pair_agree (p : string * ty * string * ty) : bool :=
  let '(_, c, _, g) := p in
  lang_ok LC c && lang_ok LGo g && layout_agree (c_layout c) (go_layout g).
(* Go real-build declaration vs Go stub declaration of the same type *)
Definition gopair_agree (p : string * ty * ty) : bool :=
  let '(_, r, s) := p in
  lang_ok LGo r && lang_ok LGo s && layout_agree (go_layout r) (go_layout s)
  && (ly_align (go_layout r) =? ly_align (go_layout s)).

(* shared constants: (name, C value, Go value, JSON spec value if the spec has one) *)
Definition const_agree (c : string * N * N * option N) : bool :=
  let '(_, cv, gv, jv) := c in
  (cv =? gv) && match jv with Some j => cv =? j | None => true end.

(* a Go use of a mirror field against a constant: the value must be a declared value of the C enumeration and,
   where the Go branch / constant name says which enumerator is meant, that enumerator's value *)
Definition magic_ok (u : string * N * option N * list N) : bool :=
  let '(_, v, req, allowed) := u in
  existsb (N.eqb v) allowed && match req with Some r => v =? r | None => true end.

(* the build-time limit override: package consts' init() after `MaxMatchSetLen = atoi(MaxMatchSetLen_)`, as a list of
   steps read from the source; None = the process refuses to start (panic) *)
Inductive init_step :=
| IGuardMod (k : N)           (* if MaxMatchSetLen % k != 0 { panic } *)
| IRoundUp (a k : N).         (* MaxMatchSetLen = (MaxMatchSetLen + a) / k * k *)
Fixpoint run_init (steps : list init_step) (m : N) : option N :=
  match steps with
  | [] => Some m
  | IGuardMod k :: r => if m mod k =? 0 then run_init r m else None
  | IRoundUp a k :: r => run_init r ((m + a) / k * k)
  end.

(* field lookup used by the key models *)
Definition field_off (ly : layout) (name : string) : option N :=
  match find (fun l => String.eqb (lf_name l) name) (ly_leaves ly) with
  | Some l => Some (lf_off l)
  | None => None
  end.
Definition off_or0 (o : option N) : nat := match o with Some x => N.to_nat x | None => O end.

(* ------------------------------------------------------------------------------------------ *)
(* Part 2: memory, byte order                                                                   *)
(* ------------------------------------------------------------------------------------------ *)

Inductive endian := LE | BE.

Definition le_load (bs : list N) : N := fold_right (fun b acc => b + 256 * acc) 0 bs.
Definition load (e : endian) (bs : list N) : N := le_load (match e with LE => bs | BE => rev bs end).
Definition store (e : endian) (w : nat) (v : N) : list N :=
  match e with LE => le_bytes w v | BE => rev (le_bytes w v) end.

(* htons/htonl on a host of byte order e: the value whose in-memory representation is the big-endian
   representation of v (Go: common.Htons builds exactly that with unsafe; C: bpf_htons/bpf_htonl) *)
Definition hton (e : endian) (w : nat) (v : N) : N := load e (be_bytes w v).

(* overwrite |bs| bytes of m at offset off *)
Definition write (off : nat) (bs : list N) (m : list N) : list N :=
  (firstn off m ++ bs ++ skipn (off + List.length bs) m)%list.
