(* C13 — lemmas. *)
From Coq Require Import List Arith Bool ZArith Lia Permutation.
From Dae Require Import C13_Spec C13_Model.
From Dae.gen Require Import C13_Consts.
Import ListNotations.

(* ------------------------------------------------------------------------------------------ *)
(* generic list facts                                                                          *)
(* ------------------------------------------------------------------------------------------ *)
Lemma nth_error_upd {A} (l : list A) i j x :
  nth_error (upd l i x) j = if j =? i then (match nth_error l i with Some _ => Some x | None => None end)
                            else nth_error l j.
Proof.
  revert i j; induction l as [|y r IH]; intros i j.
  - destruct i, j; cbn; try reflexivity; destruct (j =? i); reflexivity.
  - destruct i, j; cbn; try reflexivity. apply IH.
Qed.

Lemma flat_map_upd_same {A B} (f : A -> list B) (l : list A) i x y :
  nth_error l i = Some x -> f y = f x -> flat_map f (upd l i y) = flat_map f l.
Proof.
  revert i; induction l as [|z r IH]; intros i H E; destruct i; cbn in *; try discriminate.
  - inversion H; subst. now rewrite E.
  - f_equal. now apply IH.
Qed.

Lemma flat_map_upd_perm {A B} (f : A -> list B) (l : list A) i x y :
  nth_error l i = Some x -> Permutation (flat_map f (upd l i y) ++ f x) (flat_map f l ++ f y).
Proof.
  revert i; induction l as [|z r IH]; intros i H; destruct i; cbn in *; try discriminate.
  - inversion H; subst. rewrite <- !app_assoc.
    etransitivity; [apply Permutation_app_head, Permutation_app_comm|].
    etransitivity; [|apply Permutation_app_head, Permutation_app_comm].
    rewrite !app_assoc. apply Permutation_app_tail, Permutation_app_comm.
  - rewrite <- !app_assoc. apply Permutation_app_head. now apply IH.
Qed.

Lemma concat_flat_map {A} (l : list (list A)) : concat l = flat_map (fun x => x) l.
Proof. induction l; cbn; congruence. Qed.

Lemma nth_nth_error {A} (l : list A) i d x : nth_error l i = Some x -> nth i l d = x.
Proof. revert i; induction l; intros [|i] H; cbn in *; try discriminate; [now inversion H|auto]. Qed.

Lemma nth_error_nth_some {A} (l : list A) i d : i < length l -> nth_error l i = Some (nth i l d).
Proof. revert i; induction l; intros [|i] H; cbn in *; try lia; [reflexivity|apply IHl; lia]. Qed.

Lemma accepted_app l1 l2 : accepted_tasks (l1 ++ l2) = accepted_tasks l1 ++ accepted_tasks l2.
Proof. unfold accepted_tasks. apply flat_map_app. Qed.
Lemma started_app l1 l2 : started_tasks (l1 ++ l2) = started_tasks l1 ++ started_tasks l2.
Proof. unfold started_tasks. apply flat_map_app. Qed.

Lemma perm_helper {A} (U C O X i : list A) :
  Permutation (U ++ X) (C ++ X ++ i) -> Permutation (U ++ O) ((C ++ O) ++ i).
Proof.
  intros H.
  assert (H1 : Permutation U (C ++ i)).
  { apply Permutation_app_inv_r with (l := X). etransitivity; [exact H|].
    rewrite <- app_assoc. apply Permutation_app_head, Permutation_app_comm. }
  etransitivity; [apply Permutation_app_tail, H1|].
  rewrite <- !app_assoc. apply Permutation_app_head, Permutation_app_comm.
Qed.

Lemma upd_overflow {A} (l : list A) i x : length l <= i -> upd l i x = l.
Proof.
  revert i; induction l as [|y r IH]; intros i H; destruct i; cbn in *; try reflexivity; try lia.
  f_equal. apply IH. lia.
Qed.

(* ------------------------------------------------------------------------------------------ *)
(* tasks move, they are never copied or invented:                                               *)
(*   started ++ buffered (in any channel, also pooled ones, or any overflow) has no duplicates  *)
(*   and contains accepted tasks only                                                           *)
(* ------------------------------------------------------------------------------------------ *)
Definition overs (s : state) := flat_map q_over (st_qs s).
Definition buffered (s : state) := concat (st_chans s) ++ overs s.
Definition pcof (s : state) (t : nat) : ppc :=
  match nth_error (st_prods s) t with Some (_, pc) => pc | None => PDone end.
Definition relsafe (pc : ppc) : bool := match pc with PRel _ | PDone => true | _ => false end.

Definition inv (s : state) : Prop :=
  NoDup (started_tasks (st_log s) ++ buffered s)
  /\ incl (started_tasks (st_log s) ++ buffered s) (accepted_tasks (st_log s))
  /\ (forall t, In t (accepted_tasks (st_log s)) -> relsafe (pcof s t) = true).

Lemma inv_same_log s s' :
  st_log s' = st_log s -> Permutation (buffered s') (buffered s) ->
  (forall t, relsafe (pcof s t) = true -> relsafe (pcof s' t) = true) ->
  inv s -> inv s'.
Proof.
  intros L B P (I1 & I2 & I3). unfold inv. rewrite L. repeat split; auto.
  - eapply Permutation_NoDup; [|exact I1]. apply Permutation_app_head, Permutation_sym, B.
  - intros x Hx. apply I2. eapply Permutation_in; [|exact Hx]. apply Permutation_app_head, B.
Qed.

Lemma inv_unchanged s s' :
  st_log s' = st_log s -> st_chans s' = st_chans s -> overs s' = overs s ->
  (forall t, relsafe (pcof s t) = true -> relsafe (pcof s' t) = true) ->
  inv s -> inv s'.
Proof.
  intros L C O P I. apply (inv_same_log s); eauto. unfold buffered. now rewrite C, O.
Qed.

Lemma pcof_set_ppc s i k pc t :
  pcof (set_ppc s i k pc) t = if t =? i then (match nth_error (st_prods s) i with Some _ => pc | None => PDone end)
                              else pcof s t.
Proof.
  unfold pcof, set_ppc, set_prods; cbn. rewrite nth_error_upd.
  destruct (t =? i) eqn:E; [|reflexivity]. destruct (nth_error (st_prods s) i); reflexivity.
Qed.

Lemma chan_upd_perm s c l :
  c < length (st_chans s) ->
  Permutation (concat (upd (st_chans s) c l) ++ chan s c) (concat (st_chans s) ++ l).
Proof.
  intros H. rewrite !concat_flat_map. unfold chan.
  apply (flat_map_upd_perm (fun x => x)). now apply nth_error_nth_some.
Qed.

Ltac pc_cases i :=
  intros t; rewrite pcof_set_ppc; destruct (t =? i) eqn:Eti;
  [apply Nat.eqb_eq in Eti; subst t; unfold pcof; cbn;
   match goal with H : nth_error (st_prods _) i = Some _ |- _ => rewrite !H end; cbn; auto; try discriminate
  | auto].

Ltac same_q := unfold overs; cbn; eapply flat_map_upd_same; eauto.

(* adding a fresh accepted task x to the buffered tasks *)
Lemma inv_enqueue s s' k i q :
  nth_error (st_prods s) i = Some (k, PEnq q) ->
  st_log s' = st_log s ++ [EAccept k i] ->
  st_prods s' = upd (st_prods s) i (k, PRel q) ->
  (Permutation (buffered s') (buffered s ++ [i]) \/ buffered s' = buffered s) ->
  inv s -> inv s'.
Proof.
  intros Hp L P B (I1 & I2 & I3).
  assert (Hni : ~ In i (accepted_tasks (st_log s))).
  { intros Hin. specialize (I3 i Hin). unfold pcof in I3. rewrite Hp in I3. discriminate. }
  unfold inv. rewrite L, accepted_app, started_app. cbn. rewrite app_nil_r.
  repeat split.
  - destruct B as [B|B].
    + eapply Permutation_NoDup.
      * apply Permutation_app_head, Permutation_sym, B.
      * rewrite app_assoc. eapply Permutation_NoDup; [apply Permutation_cons_append|].
        constructor; auto.
    + now rewrite B.
  - intros x Hx. apply in_or_app.
    assert (In x ((started_tasks (st_log s) ++ buffered s) ++ [i])) as Hx'.
    { destruct B as [B|B].
      - rewrite <- app_assoc. eapply Permutation_in; [|exact Hx]. apply Permutation_app_head, B.
      - rewrite B in Hx. apply in_or_app. now left. }
    apply in_app_or in Hx'. destruct Hx' as [Hx'|Hx']; [left; now apply I2|right; exact Hx'].
  - intros t Ht. unfold pcof. rewrite P, nth_error_upd, Hp.
    destruct (t =? i) eqn:Eti; [reflexivity|].
    apply in_app_or in Ht. destruct Ht as [Ht|[Ht|[]]].
    + apply (I3 t Ht).
    + subst. rewrite Nat.eqb_refl in Eti. discriminate.
Qed.

(* moving a buffered task to started *)
Lemma inv_start s s' e t :
  st_log s' = st_log s ++ [e] -> accepted_tasks [e] = [] -> started_tasks [e] = [t] ->
  st_prods s' = st_prods s ->
  Permutation (buffered s) (t :: buffered s') ->
  inv s -> inv s'.
Proof.
  intros L A S P B (I1 & I2 & I3).
  assert (HP : Permutation ((started_tasks (st_log s) ++ [t]) ++ buffered s') (started_tasks (st_log s) ++ buffered s)).
  { rewrite <- app_assoc. apply Permutation_app_head. cbn. now apply Permutation_sym. }
  unfold inv. rewrite L, accepted_app, started_app, A, S, app_nil_r. repeat split.
  - eapply Permutation_NoDup; [apply Permutation_sym, HP|exact I1].
  - intros x Hx. apply I2. eapply Permutation_in; [exact HP|exact Hx].
  - intros x Hx. specialize (I3 x Hx). unfold pcof in *. now rewrite P.
Qed.

Lemma inv_step_prod cap s i g : inv s -> inv (step_prod cap s i g).
Proof.
  intros I. unfold step_prod.
  destruct (nth_error (st_prods s) i) as [[k pc]|] eqn:Hp; [|exact I].
  destruct pc.
  - destruct (st_map s k); (apply (inv_unchanged s); [reflexivity|reflexivity|reflexivity| |exact I]; pc_cases i).
  - destruct (nth_error (st_qs s) q) as [Q|] eqn:Hq; [|exact I].
    destruct (q_refs Q <? 0)%Z.
    + apply (inv_unchanged s); [reflexivity|reflexivity|reflexivity| |exact I]; pc_cases i.
    + apply (inv_unchanged s); [reflexivity|reflexivity|same_q| |exact I]. pc_cases i.
  - destruct g as [c|].
    + destruct (mem c (st_pool s)); [|exact I].
      apply (inv_unchanged s); [reflexivity|reflexivity|reflexivity| |exact I]; pc_cases i.
    + apply (inv_same_log s); [reflexivity| | |exact I].
      * unfold buffered; cbn. rewrite concat_app; cbn. rewrite app_nil_r. apply Permutation_refl.
      * intros t. change (relsafe (pcof s t) = true -> relsafe (pcof (set_ppc (set_chans s (st_chans s ++ [[]])) i k (PHave (length (st_chans s)))) t) = true).
        rewrite pcof_set_ppc. destruct (t =? i) eqn:Eti; auto.
        apply Nat.eqb_eq in Eti; subst t. unfold pcof. cbn. rewrite Hp. cbn. discriminate.
  - destruct (st_map s k).
    + apply (inv_unchanged s); [reflexivity|reflexivity|reflexivity| |exact I]; pc_cases i.
    + apply (inv_same_log s); [reflexivity| | |exact I].
      * unfold buffered, overs; cbn. rewrite flat_map_app; cbn. rewrite app_nil_r. apply Permutation_refl.
      * intros t.
        match goal with |- _ -> relsafe (pcof ?S t) = true =>
          change S with (set_ppc (set_map (set_qs s (st_qs s ++ [mkQ k c [] false 0%Z CNotStarted])) (map_set (st_map s) k (Some (length (st_qs s))))) i k (PStored (length (st_qs s)))) end.
        rewrite pcof_set_ppc. destruct (t =? i) eqn:Eti; auto.
        apply Nat.eqb_eq in Eti; subst t. unfold pcof. cbn. rewrite Hp. cbn. discriminate.
  - destruct (nth_error (st_qs s) q) as [Q|] eqn:Hq; [|exact I].
    destruct (q_refs Q <? 0)%Z.
    + apply (inv_unchanged s); [reflexivity|reflexivity|reflexivity| |exact I]; pc_cases i.
    + apply (inv_unchanged s); [reflexivity|reflexivity|same_q| |exact I]. pc_cases i.
  - destruct (opt_is (st_map s k) q); (apply (inv_unchanged s); [reflexivity|reflexivity|reflexivity| |exact I]; pc_cases i).
  - destruct (nth_error (st_qs s) q) as [Q|] eqn:Hq; [|exact I].
    apply (inv_unchanged s); [reflexivity|reflexivity|same_q| |exact I]. pc_cases i.
  - destruct (nth_error (st_qs s) q) as [Q|] eqn:Hq; [|exact I].
    apply (inv_unchanged s); [reflexivity|reflexivity|same_q| |exact I]. pc_cases i.
  - (* PEnq: the enqueue *)
    destruct (nth_error (st_qs s) q) as [Q|] eqn:Hq; [|exact I].
    assert (Hov : Permutation (buffered (set_q s q (q_set_over Q (q_over Q ++ [i]) true))) (buffered s ++ [i])).
    { unfold buffered, overs; cbn. rewrite <- app_assoc. apply Permutation_app_head.
      pose proof (flat_map_upd_perm q_over (st_qs s) q Q (q_set_over Q (q_over Q ++ [i]) true) Hq) as HP.
      cbn in HP. apply Permutation_app_inv_r with (l := q_over Q).
      etransitivity; [exact HP|]. rewrite <- app_assoc. apply Permutation_app_head, Permutation_app_comm. }
    destruct (q_mode Q).
    + eapply (inv_enqueue s _ k i q Hp); [reflexivity|reflexivity|left; exact Hov|exact I].
    + destruct (length (chan s (q_ch Q)) <? cap).
      * eapply (inv_enqueue s _ k i q Hp); [reflexivity|reflexivity| |exact I].
        destruct (Nat.lt_ge_cases (q_ch Q) (length (st_chans s))) as [Hlt|Hge].
        -- left. unfold buffered; cbn.
           pose proof (chan_upd_perm s (q_ch Q) (chan s (q_ch Q) ++ [i]) Hlt) as HP.
           change (overs (add_log (set_chan s (q_ch Q) (chan s (q_ch Q) ++ [i])) (EAccept k i))) with (overs s).
           eapply perm_helper; exact HP.
        -- right. unfold buffered; cbn. rewrite upd_overflow by lia. reflexivity.
      * eapply (inv_enqueue s _ k i q Hp); [reflexivity|reflexivity|left; exact Hov|exact I].
  - destruct (nth_error (st_qs s) q) as [Q|] eqn:Hq; [|exact I].
    apply (inv_unchanged s); [reflexivity|reflexivity|same_q| |exact I]. pc_cases i.
  - exact I.
Qed.

Lemma chan_pop_perm s c t r :
  chan s c = t :: r -> Permutation (concat (st_chans s)) (t :: concat (upd (st_chans s) c r)).
Proof.
  intros H.
  assert (Hlt : c < length (st_chans s)).
  { destruct (Nat.lt_ge_cases c (length (st_chans s))); auto.
    unfold chan in H. rewrite nth_overflow in H by lia. discriminate. }
  pose proof (chan_upd_perm s c r Hlt) as HP. rewrite H in HP.
  apply Permutation_app_inv_r with (l := r). apply Permutation_sym.
  etransitivity; [|exact HP]. cbn. apply Permutation_middle.
Qed.

Lemma over_pop_perm qs q Q Q' t r :
  nth_error qs q = Some Q -> q_over Q = t :: r -> q_over Q' = r ->
  Permutation (flat_map q_over qs) (t :: flat_map q_over (upd qs q Q')).
Proof.
  intros Hq Ho Ho'. pose proof (flat_map_upd_perm q_over qs q Q Q' Hq) as HP.
  rewrite Ho, Ho' in HP.
  apply Permutation_app_inv_r with (l := r). apply Permutation_sym.
  etransitivity; [|exact HP]. cbn. apply Permutation_middle.
Qed.

Lemma pcof_same s s' : st_prods s' = st_prods s -> forall t, relsafe (pcof s t) = true -> relsafe (pcof s' t) = true.
Proof. intros E t. unfold pcof. now rewrite E. Qed.

Lemma inv_step_conv s q c : inv s -> inv (step_conv s q c).
Proof.
  intros I. unfold step_conv.
  destruct (nth_error (st_qs s) q) as [Q|] eqn:Hq; [|exact I].
  assert (Hchanpop : forall t r, chan s (q_ch Q) = t :: r ->
            inv (start_task (set_chan s (q_ch Q) r) q Q t)).
  { intros t r Hc. apply (inv_start s _ (EStart (q_key Q) q (task_key (set_chan s (q_ch Q) r) t) t) t);
      [reflexivity|reflexivity|reflexivity|reflexivity| |exact I].
    unfold buffered. cbn.
    change (overs (start_task (set_chan s (q_ch Q) r) q Q t)) with (flat_map q_over (upd (st_qs s) q (q_set_pc Q (CRun t)))).
    unfold overs. rewrite (flat_map_upd_same q_over (st_qs s) q Q) by (auto).
    change (t :: concat (upd (st_chans s) (q_ch Q) r) ++ flat_map q_over (st_qs s))
      with ((t :: concat (upd (st_chans s) (q_ch Q) r)) ++ flat_map q_over (st_qs s)).
    apply Permutation_app_tail. now apply chan_pop_perm. }
  destruct (q_pc Q) eqn:Hpc; try exact I.
  - (* CTop *)
    destruct (chan s (q_ch Q)) as [|t r] eqn:Hc.
    + apply (inv_unchanged s); [reflexivity|reflexivity|same_q|apply pcof_same; reflexivity|exact I].
    + now apply Hchanpop.
  - (* CPopOver *)
    destruct (if pop_overflow_rechecks_channel then chan s (q_ch Q) else []) as [|t0 r0] eqn:Hc0.
    2:{ destruct pop_overflow_rechecks_channel; [|discriminate]. now apply Hchanpop. }
    destruct (q_over Q) as [|t r] eqn:Ho.
    + apply (inv_unchanged s); [reflexivity|reflexivity| |apply pcof_same; reflexivity|exact I].
      unfold overs; cbn. eapply flat_map_upd_same; eauto.
    + apply (inv_start s _ (EStart (q_key Q) q (task_key s t) t) t);
        [reflexivity|reflexivity|reflexivity|reflexivity| |exact I].
      unfold buffered, overs. cbn.
      etransitivity; [|apply Permutation_sym, Permutation_middle].
      apply Permutation_app_head.
      eapply over_pop_perm; eauto.
  - (* CRun *)
    destruct I as (I1 & I2 & I3). unfold inv; cbn.
    rewrite accepted_app, started_app; cbn. rewrite !app_nil_r.
    change (buffered (add_log (set_q s q (q_set_pc Q CTop)) (EEnd q t))) with (concat (st_chans s) ++ flat_map q_over (upd (st_qs s) q (q_set_pc Q CTop))).
    rewrite (flat_map_upd_same q_over (st_qs s) q Q) by auto.
    repeat split; auto.
  - (* CWait *)
    destruct c.
    + exact I.
    + destruct (chan s (q_ch Q)) as [|t r] eqn:Hc; [exact I|now apply Hchanpop].
    + destruct ((0 <? q_refs Q)%Z || negb (length (chan s (q_ch Q)) =? 0) || negb (length (q_over Q) =? 0)); [exact I|].
      apply (inv_unchanged s); [reflexivity|reflexivity|same_q|apply pcof_same; reflexivity|exact I].
    + apply (inv_unchanged s); [reflexivity|reflexivity|same_q|apply pcof_same; reflexivity|exact I].
  - (* CChecked *)
    destruct (q_refs Q =? 0)%Z;
      (apply (inv_unchanged s); [reflexivity|reflexivity|same_q|apply pcof_same; reflexivity|exact I]).
  - (* CClaimed *)
    destruct (opt_is (st_map s (q_key Q)) q);
      (apply (inv_unchanged s); [reflexivity|reflexivity|same_q|apply pcof_same; reflexivity|exact I]).
  - (* CDeleted *)
    apply (inv_unchanged s); [reflexivity|reflexivity|same_q|apply pcof_same; reflexivity|exact I].
  - (* CDelFailed *)
    destruct (opt_is (st_map s (q_key Q)) q);
      (apply (inv_unchanged s); [reflexivity|reflexivity|same_q|apply pcof_same; reflexivity|exact I]).
Qed.

Lemma inv_init keys : inv (init keys).
Proof.
  unfold inv, init, buffered, overs; cbn. repeat split; try constructor.
  - intros x [].
  - intros t [].
Qed.

Lemma inv_run cap keys sched : inv (run cap keys sched).
Proof.
  unfold run. generalize (inv_init keys). generalize (init keys).
  induction sched as [|l r IH]; intros s I; cbn; [exact I|].
  apply IH. destruct l; [apply inv_step_prod|apply inv_step_conv]; exact I.
Qed.

Lemma C13_no_dup_no_invent_proof :
  forall cap keys sched, spec_no_dup_no_invent (st_log (run cap keys sched)).
Proof.
  intros. destruct (inv_run cap keys sched) as (I1 & I2 & I3). split.
  - revert I1. generalize (started_tasks (st_log (run cap keys sched))) as l. intros l.
    induction l as [|x l IH]; cbn; intros H; [constructor|].
    inversion H; subst. constructor; [intros Hin; apply H2; apply in_or_app; now left|auto].
  - intros t Ht. apply I2. apply in_or_app. now left.
Qed.

(* ------------------------------------------------------------------------------------------ *)
(* the full statement and its refutation (F7: idle check, then claim, no re-check)              *)
(* ------------------------------------------------------------------------------------------ *)
Definition exactly_once_in_order_full : Prop :=
  forall cap keys sched, 0 < cap ->
    let s := run cap keys sched in
    spec_safe (st_log s) = true /\ (quiescent s = true -> spec_complete (st_log s) = true).

Definition P (i : nat) := LProd i None.
Definition C (q : nat) := LConv q KStep.

(* producer 0 creates the queue of flow 7 and its task runs; the convoy passes its idle check; producer 1
   does a complete EmitTask on the same queue; the convoy claims, deletes and recycles the channel *)
Definition witness_loss : list label :=
  [P 0; P 0; P 0; P 0; P 0; P 0; C 0; C 0; P 0; C 0; C 0; LConv 0 KTimer;
   P 1; P 1; P 1; P 1;
   C 0; C 0; C 0].

(* ... then a producer of flow 8 gets the recycled channel: task 1 (flow 7) runs on flow 8's worker *)
Definition witness_cross : list label :=
  witness_loss ++ [P 2; LProd 2 (Some 0); P 2; P 2; P 2; P 2; C 1].

Lemma witness_loss_ok :
  let s := run 2 [7; 7] witness_loss in
  quiescent s = true /\ spec_complete (st_log s) = false /\ spec_lost (st_log s) = [(7, 1)].
Proof. vm_compute. repeat split. Qed.

Lemma witness_cross_ok :
  let s := run 2 [7; 7; 8] witness_cross in
  spec_safe (st_log s) = false /\ In (EStart 8 1 7 1) (st_log s).
Proof. vm_compute. split; [reflexivity|]. repeat ((left; reflexivity) || right). Qed.

Lemma C13_exactly_once_in_order_refuted_proof :
  exists cap keys sched, 0 < cap /\
    let s := run cap keys sched in quiescent s = true /\ spec_complete (st_log s) = false.
Proof.
  exists 2, [7; 7], witness_loss. split; [lia|]. destruct witness_loss_ok as (A & B & _). split; assumption.
Qed.

Lemma C13_cross_flow_refuted_proof :
  exists cap keys sched, 0 < cap /\ spec_safe (st_log (run cap keys sched)) = false.
Proof.
  exists 2, [7; 7; 8], witness_cross. split; [lia|]. destruct witness_cross_ok as [A _]. exact A.
Qed.

(* second window (F14, repaired in /repo 0813a51): the convoy polls the channel empty, two producers then
   fill the channel (capacity 1) and spill into the overflow list, and the convoy continues with
   popOverflowTask.  Before the repair task 2 overtook task 1; the repaired popOverflowTask polls the channel
   again under the lock, and the same schedule now runs task 1 first. *)
Definition witness_overtake : list label :=
  [P 0; P 0; P 0; P 0; P 0; P 0; C 0; P 0; C 0; C 0;
   P 1; P 1; P 1; P 1; P 2; P 2; P 2; P 2;
   C 0].

Lemma C13_overflow_overtake_fixed_proof :
  let s := run 1 [1; 1; 1] witness_overtake in
  spec_safe (st_log s) = true /\ started_tasks (st_log s) = [0; 1] /\ accepted_tasks (st_log s) = [0; 1; 2]
  /\ (exists Q, nth_error (st_qs s) 0 = Some Q /\ q_over Q = [2]).
Proof. vm_compute. repeat split. eexists; split; reflexivity. Qed.

Lemma C13_full_is_false : ~ exactly_once_in_order_full.
Proof.
  intros H. destruct C13_cross_flow_refuted_proof as (cap & keys & sched & Hc & Hf).
  destruct (H cap keys sched Hc) as [Hs _]. rewrite Hs in Hf. discriminate.
Qed.

(* ------------------------------------------------------------------------------------------ *)
(* tuple tracker: kernel delete exactly when the owner count drops from one to zero             *)
(* ------------------------------------------------------------------------------------------ *)
(* representation invariant after a history: an entry exists iff there are owners, with that count;
   no entry is left in the deleting state between operations *)
Definition tr_agrees (h : list tuple_op) (s : tstate) : Prop :=
  forall g k, ts_tr s g k = match owners_after h g k with 0 => None | n => Some (mkT n false) end.

Lemma owners_after_snoc h o g k :
  owners_after (h ++ [o]) g k =
  let n := owners_after h g k in
  match o with
  | TRetain g' k' => if (g' =? g) && (k' =? k) then S n else n
  | TRelease g' k' => if (g' =? g) && (k' =? k) then pred n else n
  | TForget g' k' => if (g' =? g) && (k' =? k) then pred n else n
  end.
Proof. unfold owners_after. rewrite rev_app_distr. cbn. destruct o; reflexivity. Qed.

Lemma tstep_agrees h s o :
  tr_agrees h s -> tr_agrees (h ++ [o]) (fst (tstep s o)) /\ snd (tstep s o) = must_delete h o.
Proof.
  intros A. destruct o as [g k|g k|g k]; cbn.
  - (* retain *)
    unfold tr_retain. rewrite (A g k).
    destruct (owners_after h g k) eqn:E; cbn; (split; [|reflexivity]);
      intros g' k'; rewrite owners_after_snoc; cbn; unfold ts_set, tr_set;
      rewrite (Nat.eqb_sym g g'), (Nat.eqb_sym k k');
      destruct (g' =? g) eqn:Eg; cbn; try apply A;
      destruct (k' =? k) eqn:Ek; cbn;
      try (apply Nat.eqb_eq in Eg; subst g'); try (apply Nat.eqb_eq in Ek; subst k'); try rewrite E; cbn; try reflexivity; try apply A; try (rewrite (A g k), E; reflexivity).
  - (* release *)
    unfold tr_begin_release. rewrite (A g k).
    destruct (owners_after h g k) as [|[|n]] eqn:E; cbn; (split; [|reflexivity]);
      intros g' k'; rewrite owners_after_snoc; cbn; unfold ts_set, tr_set, tr_finalize, tr_set;
      rewrite (Nat.eqb_sym g g'), (Nat.eqb_sym k k');
      destruct (g' =? g) eqn:Eg; cbn; try apply A;
      destruct (k' =? k) eqn:Ek; cbn;
      try (apply Nat.eqb_eq in Eg; subst g'); try (apply Nat.eqb_eq in Ek; subst k'); try rewrite E; cbn; try reflexivity; try apply A; try (rewrite (A g k), E; reflexivity).
  - (* forget *)
    unfold tr_forget. rewrite (A g k).
    destruct (owners_after h g k) as [|[|n]] eqn:E; cbn; (split; [|reflexivity]);
      intros g' k'; rewrite owners_after_snoc; cbn; unfold ts_set, tr_set;
      rewrite (Nat.eqb_sym g g'), (Nat.eqb_sym k k');
      destruct (g' =? g) eqn:Eg; cbn; try apply A;
      destruct (k' =? k) eqn:Ek; cbn;
      try (apply Nat.eqb_eq in Eg; subst g'); try (apply Nat.eqb_eq in Ek; subst k'); try rewrite E; cbn; try reflexivity; try apply A; try (rewrite (A g k), E; reflexivity).
Qed.

Lemma trun_snoc h o : trun (h ++ [o]) = fst (tstep (trun h) o).
Proof. unfold trun. rewrite fold_left_app. reflexivity. Qed.

Lemma trun_agrees h : tr_agrees h (trun h).
Proof.
  induction h as [|o h IH] using rev_ind.
  - intros g k. reflexivity.
  - rewrite trun_snoc. apply tstep_agrees, IH.
Qed.

Lemma C13_tuple_refcount_proof :
  forall (h : list tuple_op) (o : tuple_op),
    snd (tstep (trun h) o) = must_delete h o
    /\ (forall g k, (exists e, ts_tr (trun h) g k = Some e) <-> 0 < owners_after h g k).
Proof.
  intros h o. split.
  - apply tstep_agrees, trun_agrees.
  - intros g k. rewrite (trun_agrees h g k). destruct (owners_after h g k); split; intros H.
    + destruct H as [e He]. discriminate.
    + lia.
    + lia.
    + eexists; reflexivity.
Qed.
