(* C05 - shared definitions for the half-close / grace theorem (no proofs). *)
From Coq Require Import List NArith Bool.
From Dae Require Import C05_Spec C05_Model.
From Dae.gen Require Import C05_Extracted.
Import ListNotations.
Open Scope N_scope.

Definition seen_lt (start : N) (cut : option N) (c : chunk) : bool := olt (seen start (c_at c)) cut.
(* = before_cut start cut (mkSide l _) *)
Definition deliverable (start : N) (cut : option N) (l : list chunk) : list N :=
  concat (map c_data (filter (seen_lt start cut) l)).

Definition sock_side (s : sock) : side := mkSide (k_in s) (k_eof s).
Definition data_nonempty (l : list chunk) : Prop := Forall (fun c => c_data c <> []) l.

(* the wrapper stacks the handleConn prologue can hand to the relay (port 53 is never sniffed) *)
Definition ready_stack (c : conn) : Prop :=
  c = CSock \/ (exists b, c = CBufio b CSock) \/ (exists d, c = CPrefixed d CSock)
  \/ (exists b, c = CSniffer b None (CPrefixed [] CSock)).

(* relay level: outcome of relayCore.run against the expectation computed on what the sockets still hold *)
Definition relay_matches_spec_stmt : Prop :=
  forall grace pend prio stack L R start,
    ready_stack stack -> 0 < grace ->
    k_dl L = None -> k_closed L = false -> k_dl R = None -> k_closed R = false ->
    wf_chunks (k_in L) (k_eof L) -> wf_chunks (k_in R) (k_eof R) ->
    data_nonempty (k_in L) -> data_nonempty (k_in R) ->
    let y := fst (run_relay grace pend prio stack L R start) in
    let alive := snd (run_relay grace pend prio stack L R start) in
    let x := expect grace start (sock_side L) (sock_side R) in
    d_out (y_l2r y) = pending stack ++ x_up x /\ d_out (y_r2l y) = x_down x /\
    shut_clean (y_l2r y) = x_up_shut x /\ shut_clean (y_r2l y) = x_down_shut x /\ alive = x_alive x.

(* prologue level: what handleConn hands to the relay *)
Definition prologue_ready_stmt : Prop :=
  forall p client,
    wf_side client ->
    let ps := prologue p (mk_sock client) 0 in
    match ps_conn ps with
    | None => True
    | Some st =>
        ready_stack st /\ k_dl (ps_sock ps) = None /\ k_closed (ps_sock ps) = false /\
        k_eof (ps_sock ps) = s_eof client /\
        wf_chunks (k_in (ps_sock ps)) (s_eof client) /\ data_nonempty (k_in (ps_sock ps)) /\
        forall cut, olt (ps_now ps) cut = true ->
          before_cut (ps_now ps) cut client = pending st ++ deliverable (ps_now ps) cut (k_in (ps_sock ps))
    end.
