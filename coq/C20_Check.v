(* C20 — executable comparison functions used by the generated cases file (no proofs).
   A case is a sequence of whole calls of the real functions (tryQueueReloadRequest, clearReloadPending,
   finishReloadSuccess, ...) with the observation the harness made after each call.  Three comparisons
   per step: implementation = model (C20_Model, calls executed without interleaving), implementation =
   spec (the lock of C20_Spec at operation granularity), model = spec. *)
From Coq Require Import List NArith ZArith Bool Arith.
From Dae Require Import C20_Spec C20_Model.
Import ListNotations.

Inductive cop :=
| OQueue (susp : bool)        (* reloadManager.queueReloadRequest(log, req) *)
| OQueueRace (susp : bool)    (* the same call, but between its failed CompareAndSwap and its busy report the
                                 concurrently running holder executes clearReloadPending *)
| OTake                       (* req := <-reloadReqs (non-blocking) *)
| OSetActive (b : bool)
| OSetReloading (b : bool)
| OCoalesce                   (* req = coalesceReloadRequest(req) *)
| OProgress (c : pcode)
| OClearPending               (* clearReloadPending(&m.reloadPending) *)
| OBeginHandoff
| ONotify
| OFinishOk
| OFinishFail
| OStartRetirement            (* startControlPlaneRetirement, no dialer overlap (connections aborted at once) *)
| OStartRetirementWith (p : ret_params)   (* ... with these circumstances *)
| OClearPendingRetirement
| ORetire (d : nat) (wait : N)  (* retirement goroutine d runs, [wait] ns pass; goroutines waiting on it run *)
| OSessionsEnd (d : nat)      (* the old generation of retirement d goes idle *)
| OWaitDrain (maxw : Z) (sessions : nat) (idle_at cancel_at : option N) (watch : N)
                              (* waitForControlPlaneDrain(ctx, plane, maxw): result 0 idle 1 cancelled 2 timeout,
                                 3 = still waiting when the watchdog stopped it after [watch] ns *)
| OBudget (budget : Z) (elapsed : N) (zero : bool)   (* remainingReloadRetirementBudget *)
| OReadyWaitSignal            (* a reload signal arrives while the main loop sits in waitReloadReadyOrSignal *)
| OReadyWaitArms (mode : ready_deadline) (k : nat)
                              (* waitReloadReadyOrSignal fed k ignored signals, then readiness; result: how many
                                 timers it armed (mode: where the source arms its timer, regenerated) *)
| OEnd.                       (* EndReloadProxyFailureSuppression() alone (adversarial cases) *)

(* return value of a call: 0 = none/false, 1 = true, 2 = channel empty *)
Record obs := {
  o_pending : bool; o_active : bool; o_reloading : bool;
  o_supp : nat; o_qlen : nat; o_code : pcode; o_msg : msg; o_suppressed : bool; o_ret : N
}.

Definition pcode_eqb (a b : pcode) : bool :=
  match a, b with
  | CSend, CSend | CProcessing, CProcessing | CDone, CDone | CError, CError | CBusy, CBusy => true
  | _, _ => false
  end.
Definition msg_eqb (a b : msg) : bool :=
  match a, b with
  | MsgNone, MsgNone | MsgActive, MsgActive | MsgRetiring, MsgRetiring | MsgOther, MsgOther => true
  | _, _ => false
  end.

Definition obs_eqb (a b : obs) : bool :=
  Bool.eqb (o_pending a) (o_pending b) && Bool.eqb (o_active a) (o_active b)
  && Bool.eqb (o_reloading a) (o_reloading b) && Nat.eqb (o_supp a) (o_supp b)
  && Nat.eqb (o_qlen a) (o_qlen b) && pcode_eqb (o_code a) (o_code b) && msg_eqb (o_msg a) (o_msg b)
  && Bool.eqb (o_suppressed a) (o_suppressed b) && N.eqb (o_ret a) (o_ret b).

(* waitForControlPlaneDrain in virtual time: the earliest of context cancellation, idle signal and
   timer (armed according to the guard found in the source; a non-positive duration fires at 0) *)
Definition drain_wait_result (g : guard) (maxw : Z) (sessions : nat) (idle_at cancel_at : option N) (watch : N) : N :=
  if Nat.eqb sessions 0 then 0%N else
  let timer := if timer_armed g maxw then Some (Z.to_N maxw) else None in
  let lt a b := match a, b with Some x, Some y => N.ltb x y | Some _, None => true | None, _ => false end in
  let first (a : option N) (b c : option N) := match a with Some x => N.ltb x watch && negb (lt b a) && negb (lt c a) | None => false end in
  if first cancel_at idle_at timer then 1%N
  else if first idle_at cancel_at timer then 0%N
  else if first timer cancel_at idle_at then 2%N
  else 3%N.

(* remainingReloadRetirementBudget reads the real clock: the real value may be smaller than the model's
   by the scheduling delay between taking the time stamp and the call (generously 5 s; the generator
   keeps every input at least that far from a boundary), never larger *)
Definition obs_close (o : cop) (a b : obs) : bool :=
  match o with
  | OBudget _ _ _ =>
      let x := o_ret a in let y := o_ret b in
      (N.leb x y && N.leb y (x + 5000000000))%N
      && obs_eqb a (Build_obs (o_pending b) (o_active b) (o_reloading b) (o_supp b) (o_qlen b) (o_code b) (o_msg b) (o_suppressed b) x)
  | _ => obs_eqb a b
  end.

(* ---- model at call granularity ---- *)
Record mstate := { ms : state; ms_req : bool }.

(* goroutines waiting on an already closed retirement channel run to completion *)
Definition sweep (T : tables) (s : state) : state :=
  fold_left (fun st r => fold_left (fun st' _ => rel_step T st' r) [0;1;2;3;4] st)
            (seq 0 (length (releasers s))) s.

Definition observe (s : state) (ret : N) : obs :=
  {| o_pending := pending s; o_active := active s; o_reloading := reloading s; o_supp := supp s;
     o_qlen := length (queue s); o_code := fst (progress s); o_msg := snd (progress s);
     o_suppressed := suppressed s; o_ret := ret |}.

Definition mstep (T : tables) (m : mstate) (o : cop) : mstate * N :=
  let s := ms m in
  let keep s' r := ({| ms := s'; ms_req := ms_req m |}, r) in
  match o with
  | OQueue b => let '(s', r) := call_try_queue T s b in keep s' (if r then 1 else 0)%N
  | OQueueRace b =>
      let i := length (sigs s) in
      let s2 := sig_step T (step T s (ASignal b)) i in
      match nth_error (sigs s2) i with
      | Some (S5 false) =>
          let s3 := call_prog T s2 clear_pending_prims in
          keep (sig_step T s3 i) 0%N
      | _ =>
          let s3 := fold_left (fun st _ => sig_step T st i) [1;2;3;4;5] s2 in
          keep s3 (match nth_error (sigs s3) i with Some SAccepted => 1 | _ => 0 end)%N
      end
  | OTake => match call_take s with
             | (s', Some b) => ({| ms := s'; ms_req := b |}, if b then 1 else 0)%N
             | (s', None) => keep s' 2%N
             end
  | OSetActive b => keep (call_prog T s [PSetActive b]) 0%N
  | OSetReloading b => keep (call_prog T s [PSetReloading b]) 0%N
  | OCoalesce => let '(s', b) := call_coalesce s (ms_req m) in ({| ms := s'; ms_req := b |}, if b then 1 else 0)%N
  | OProgress c => keep (call_prog T s [PProgress c]) 0%N
  | OClearPending => keep (call_prog T s (expand [EClearPending])) 0%N
  | OBeginHandoff => keep (call_prog T s [PBeginHandoff]) 0%N
  | ONotify => keep s 0%N
  | OFinishOk => keep (sweep T (call_prog T s (expand [EFinishOk]))) 0%N
  | OFinishFail => keep (call_prog T s (expand [EFinishFail])) 0%N
  | OStartRetirement => keep (call_prog T (set_next_ret default_params s) [PStartRetirement]) 0%N
  | OStartRetirementWith p => keep (call_prog T (set_next_ret p s) [PStartRetirement]) 0%N
  | OClearPendingRetirement => keep (call_prog T s [PClearPendingRetirement]) 0%N
  | ORetire d w => keep (call_retire T s d w) 0%N
  | OSessionsEnd d => keep (step T s (ASessionsEnd d)) 0%N
  | OWaitDrain maxw n ia ca watch => keep s (drain_wait_result (t_timer_guard T) maxw n ia ca watch)
  | OBudget b e z => keep s (Z.to_N (remaining_budget b e z))
  | OReadyWaitSignal => keep s 0%N     (* waitReloadReadyOrSignal: `continue` — the signal is dropped *)
  | OReadyWaitArms mode k => keep s (N.of_nat (ready_wait_arms mode k))
  | OEnd => keep (call_prog T s [PEndSupp]) 0%N
  end.

(* ---- spec at call granularity ---- *)
Record sstate := {
  ss_phase : phase;
  ss_ret : option nat;          (* retirement the next success will wait for *)
  ss_wait : option nat;         (* retirement the released request is waiting for (phase Retiring) *)
  ss_closed : list nat;
  ss_next : nat;                (* number of retirements started *)
  ss_need : list N              (* per retirement: the time after which it must have finished (the
                                   remaining reload budget; 0 when nothing has to be waited for) *)
}.
Definition sinit : sstate := {| ss_phase := Free; ss_ret := None; ss_wait := None; ss_closed := []; ss_next := 0; ss_need := [] |}.

Definition set_phase p (x : sstate) := {| ss_phase := p; ss_ret := ss_ret x; ss_wait := ss_wait x; ss_closed := ss_closed x; ss_next := ss_next x; ss_need := ss_need x |}.

(* the old generation must be gone once the reload budget (counted from the request) is used up;
   at once when the user asked for --abort, nothing is shared, or it has no sessions *)
Definition spec_need (total : Z) (p : ret_params) : N :=
  if rp_abort p || negb (rp_overlap p) || Nat.eqb (rp_sessions p) 0 then 0%N
  else if rp_zero_start p then Z.to_N total
  else Z.to_N (total - Z.of_N (rp_elapsed p)).
Fixpoint zero_last (l : list N) : list N :=
  match l with [] => [] | [_] => [0%N] | x :: l' => x :: zero_last l' end.

(* translation of a call into an event of the spec; returns the new spec state and the answer the
   spec demands (for requests) *)
Definition sstep (total : Z) (x : sstate) (o : cop) (took : bool) : sstate * option answer :=
  match o with
  | OQueue _ | OReadyWaitSignal =>
      let '(p, a) := phase_step (ss_phase x) OpRequest in (set_phase p x, a)
  | OQueueRace _ =>
      (* refused (or accepted when nothing was in progress), then the request in progress is released *)
      let '(p, a) := phase_step (ss_phase x) OpRequest in
      (match a with Some Busy => set_phase (fst (phase_step p OpFail)) x | _ => set_phase p x end, a)
  | OTake => if took then (set_phase (fst (phase_step (ss_phase x) OpStart)) x, None) else (x, None)
  | OClearPending | OFinishFail => (set_phase (fst (phase_step (ss_phase x) OpFail)) x, None)
  | OFinishOk =>
      let open_ret := match ss_ret x with
                      | Some d => if existsb (Nat.eqb d) (ss_closed x) then None else Some d
                      | None => None
                      end in
      let p := fst (phase_step (ss_phase x) (OpSucceed (match open_ret with Some _ => true | None => false end))) in
      ({| ss_phase := p; ss_ret := None; ss_wait := open_ret; ss_closed := ss_closed x; ss_next := ss_next x; ss_need := ss_need x |}, None)
  | OStartRetirement | OStartRetirementWith _ =>
      let p := match o with OStartRetirementWith p => p | _ => default_params end in
      (* starting a retirement accelerates the previous one *)
      ({| ss_phase := ss_phase x; ss_ret := Some (ss_next x); ss_wait := ss_wait x; ss_closed := ss_closed x; ss_next := S (ss_next x);
          ss_need := zero_last (ss_need x) ++ [spec_need total p] |}, None)
  | OClearPendingRetirement =>
      ({| ss_phase := ss_phase x; ss_ret := None; ss_wait := ss_wait x; ss_closed := ss_closed x; ss_next := ss_next x; ss_need := ss_need x |}, None)
  | OSessionsEnd d =>
      ({| ss_phase := ss_phase x; ss_ret := ss_ret x; ss_wait := ss_wait x; ss_closed := ss_closed x; ss_next := ss_next x;
          ss_need := upd (ss_need x) d 0%N |}, None)
  | ORetire d w =>
      if N.leb (nth d (ss_need x) 0%N) w then
        let waited := match ss_wait x with Some w' => Nat.eqb w' d | None => false end in
        let p := if waited then fst (phase_step (ss_phase x) OpRetired) else ss_phase x in
        ({| ss_phase := p; ss_ret := ss_ret x; ss_wait := if waited then None else ss_wait x;
            ss_closed := d :: ss_closed x; ss_next := ss_next x; ss_need := ss_need x |}, None)
      else (x, None)
  | _ => (x, None)
  end.

(* does an observation satisfy what the spec demands after this step?  [prev] = observation before *)
Definition probe_ok (o : cop) (cur : obs) : bool :=
  match o with
  | OWaitDrain maxw _ _ _ watch =>
      (* the wait is over when the budget is: it never outlasts max(maxw, 0) *)
      if N.ltb (Z.to_N maxw) watch then negb (N.eqb (o_ret cur) 3) else true
  | OBudget b _ _ => N.leb (o_ret cur) (Z.to_N b)
  | OReadyWaitArms _ _ => N.eqb (o_ret cur) 1   (* one deadline, fixed before the loop: an ignored signal does not extend it *)
  | _ => true
  end.

Definition spec_accepts (x' : sstate) (o : cop) (ans : option answer) (prev cur : obs) : bool :=
  Bool.eqb (o_pending cur) (phase_held (ss_phase x'))
  && Nat.eqb (o_supp cur) (phase_muted (ss_phase x'))
  && match ans with
     | Some Accepted => N.eqb (o_ret cur) 1
     | Some Busy =>
         (* refused, reported busy, and nothing else changed *)
         N.eqb (o_ret cur) 0 && pcode_eqb (o_code cur) CBusy
         && match o with OQueueRace _ => true | _ =>
            Bool.eqb (o_pending cur) (o_pending prev) && Bool.eqb (o_active cur) (o_active prev)
         && Bool.eqb (o_reloading cur) (o_reloading prev) && Nat.eqb (o_supp cur) (o_supp prev)
         && Nat.eqb (o_qlen cur) (o_qlen prev) end
     | None => true
     end.

(* holds of every call sequence, protocol-legal or not: a call of tryQueueReloadRequest that returns
   false reports busy and leaves the lock, the flags, the muting counter and the queue as they were *)
Definition refusal_ok (o : cop) (prev cur : obs) : bool :=
  match o with
  | OQueue _ =>
      if N.eqb (o_ret cur) 0
      then pcode_eqb (o_code cur) CBusy
           && Bool.eqb (o_pending cur) (o_pending prev) && Bool.eqb (o_active cur) (o_active prev)
           && Bool.eqb (o_reloading cur) (o_reloading prev) && Nat.eqb (o_supp cur) (o_supp prev)
           && Nat.eqb (o_qlen cur) (o_qlen prev)
      else true
  | _ => true
  end.

Record obs_case := {
  oc_legal : bool;              (* the call sequence follows the generated worker/completion paths *)
  oc_drained : bool;            (* ... and every agent was run to the end *)
  oc_steps : list (cop * obs)
}.

(* error codes: 1 impl<>model  2 impl<>spec  3 model<>spec  4 final state not free (impl)  5 final state not free (model) *)
Fixpoint check_steps (T : tables) (legal : bool) (steps : list (cop * obs)) (m : mstate) (x : sstate)
         (prev_i prev_m : obs) (n : N) : list (N * N) * (mstate * sstate * obs * obs) :=
  match steps with
  | [] => ([], (m, x, prev_i, prev_m))
  | (o, io) :: rest =>
      let '(m', r) := mstep T m o in
      let mo := observe (ms m') r in
      let took := negb (N.eqb (o_ret io) 2) in
      let '(x', ans) := sstep (t_budget_total T) x o took in
      let e1 := if obs_close o io mo then [] else [(n, 1%N)] in
      let e2 := if (legal && negb (spec_accepts x' o ans prev_i io)) || negb (refusal_ok o prev_i io) || negb (probe_ok o io) then [(n, 2%N)] else [] in
      let e3 := if (legal && negb (spec_accepts x' o ans prev_m mo)) || negb (refusal_ok o prev_m mo) || negb (probe_ok o mo) then [(n, 3%N)] else [] in
      let '(es, fin) := check_steps T legal rest m' x' io mo (n + 1)%N in
      (e1 ++ e2 ++ e3 ++ es, fin)
  end.

Definition obs0 : obs := observe init_state 0%N.

(* back in the initial condition, and the `dae reload` client would send its signal *)
Definition free_obs (o : obs) : bool :=
  negb (o_pending o) && negb (o_active o) && negb (o_reloading o) && Nat.eqb (o_supp o) 0 && Nat.eqb (o_qlen o) 0
  && client_would_send (o_code o).

Definition check_case (T : tables) (c : obs_case) : list (N * N) :=
  let '(es, (m, x, li, lm)) := check_steps T (oc_legal c) (oc_steps c) {| ms := init_state; ms_req := false |} sinit obs0 obs0 0%N in
  es ++ (if oc_drained c && negb (free_obs li) then [(N.of_nat (length (oc_steps c)), 4%N)] else [])
     ++ (if oc_drained c && negb (free_obs lm) then [(N.of_nat (length (oc_steps c)), 5%N)] else []).

(* branch signature for the evidence: (accepted, refused, released, unmuted) counted on the model's history,
   and whether a refusal happened while reloadActive was set *)
Definition case_signature (T : tables) (c : obs_case) : N * N * N * N :=
  let m := fold_left (fun m o => fst (mstep T m (fst o))) (oc_steps c) {| ms := init_state; ms_req := false |} in
  let h := history (ms m) in
  (N.of_nat (count_ev is_accept h), N.of_nat (count_ev is_refuse h), N.of_nat (count_ev is_release h),
   N.of_nat (count_ev is_unmute h)).

(* ---- "every request is answered" at call granularity ---- *)
Definition minit : mstate := {| ms := init_state; ms_req := false |}.
Definition mrun (T : tables) (ops : list cop) : mstate := fold_left (fun m o => fst (mstep T m o)) ops minit.
Definition is_request (o : cop) : bool :=
  match o with OQueue _ | OQueueRace _ | OReadyWaitSignal => true | _ => false end.
(* the call either accepts (returns true) or leaves the busy report in the progress file *)
Definition request_answered (T : tables) (m : mstate) (o : cop) : bool :=
  let '(m', r) := mstep T m o in N.eqb r 1 || pcode_eqb (fst (progress (ms m'))) CBusy.

(* ---------------------------------------------------------------------------------------------
   Atomic-step correspondence.  The harness runs the real goroutines (2-3 signal threads, the holder,
   the release goroutine) through yield points inserted before every statement of
   tryQueueReloadRequest / clearReloadPending / releaseReloadPendingAfterRetirement /
   Begin/EndReloadProxyFailureSuppression under a deterministic scheduler.  A micro-step is what one
   goroutine does between two yields: at most one atomic operation.  The orchestrator translates each
   micro-step into the model actions it amounts to (none for a step without atomic operation). *)
Record mobs := {
  mo_pending : bool; mo_active : bool; mo_reloading : bool; mo_supp : nat; mo_qlen : nat;
  mo_code : pcode; mo_msg : msg;
  mo_done : bool;        (* the done channel of the first retirement is closed *)
  mo_genclosed : bool    (* the Close() of its old generation has returned *)
}.
Definition mobs_of (s : state) : mobs :=
  Build_mobs (pending s) (active s) (reloading s) (supp s) (length (queue s)) (fst (progress s)) (snd (progress s))
             (nth 0 (dones s) false) (gen_closed s 0).
Definition mobs_eqb (a b : mobs) : bool :=
  Bool.eqb (mo_pending a) (mo_pending b) && Bool.eqb (mo_active a) (mo_active b)
  && Bool.eqb (mo_reloading a) (mo_reloading b) && Nat.eqb (mo_supp a) (mo_supp b)
  && Nat.eqb (mo_qlen a) (mo_qlen b) && pcode_eqb (mo_code a) (mo_code b) && msg_eqb (mo_msg a) (mo_msg b)
  && Bool.eqb (mo_done a) (mo_done b) && Bool.eqb (mo_genclosed a) (mo_genclosed b).
(* what a refused request must leave alone *)
Definition core_eqb (a b : mobs) : bool :=
  Bool.eqb (mo_pending a) (mo_pending b) && Bool.eqb (mo_active a) (mo_active b)
  && Bool.eqb (mo_reloading a) (mo_reloading b) && Nat.eqb (mo_supp a) (mo_supp b)
  && Nat.eqb (mo_qlen a) (mo_qlen b).

Record micro_step := { mi_thread : nat; mi_actions : list action; mi_obs : mobs }.
Record micro_case := {
  mc_tables : tables;              (* the holder's script as the only worker path *)
  mc_setup : list action;          (* ASignal for every signal thread *)
  mc_steps : list micro_step;
  mc_results : list (nat * N);     (* signal thread, 1 accepted / 0 refused / 2 not finished *)
  mc_quiescent : bool;             (* every goroutine has finished *)
  mc_releasers : list nat          (* the goroutines spawned by releaseReloadPendingAfterRetirement *)
}.

(* "accepts again only once the previous generation has retired", on the implementation's own
   observations: done is never closed before Close() has returned, and a release goroutine clears
   reloadPending only when the generation it waited for is closed *)
Fixpoint retired_first (rel : list nat) (prev : mobs) (steps : list micro_step) (n : N) : list (N * N) :=
  match steps with
  | [] => []
  | st :: rest =>
      let o := mi_obs st in
      let bad1 := mo_done o && negb (mo_genclosed o) in
      let bad2 := existsb (Nat.eqb (mi_thread st)) rel && mo_pending prev && negb (mo_pending o) && negb (mo_genclosed o) in
      (if bad1 || bad2 then [(n, 7%N)] else []) ++ retired_first rel o rest (n + 1)%N
  end.

(* impl = model after every micro-step: error code 6 *)
Fixpoint micro_model (T : tables) (s : state) (steps : list micro_step) (n : N) : list (N * N) :=
  match steps with
  | [] => []
  | st :: rest =>
      let s' := fold_left (step T) (mi_actions st) s in
      (if mobs_eqb (mobs_of s') (mi_obs st) then [] else [(n, 6%N)]) ++ micro_model T s' rest (n + 1)%N
  end.

(* the lock of the spec read off the implementation's own observations: error code 7 *)
Fixpoint transitions (t : option nat) (prev : mobs) (steps : list micro_step) : nat * nat * bool :=
  (* (acquisitions false->true, releases true->false, some step changed the core) by thread t (None: anybody) *)
  match steps with
  | [] => (0, 0, false)
  | st :: rest =>
      let '(a, r, c) := transitions t (mi_obs st) rest in
      let mine := match t with Some x => Nat.eqb x (mi_thread st) | None => true end in
      if mine then
        ((if negb (mo_pending prev) && mo_pending (mi_obs st) then S a else a),
         (if mo_pending prev && negb (mo_pending (mi_obs st)) then S r else r),
         c || negb (core_eqb prev (mi_obs st)))
      else (a, r, c)
  end.

Definition micro_spec (c : micro_case) : list (N * N) :=
  let o0 := mobs_of init_state in
  let per_thread :=
    flat_map (fun tr : nat * N =>
      let '(t, res) := tr in
      let '(a, r, ch) := transitions (Some t) o0 (mc_steps c) in
      if N.eqb res 1 then (if Nat.eqb a 1 && Nat.eqb r 0 then [] else [(N.of_nat t, 7%N)])   (* accepted: it took the lock itself, once *)
      else if N.eqb res 0 then (if ch then [(N.of_nat t, 7%N)] else [])                       (* refused: it changed nothing *)
      else []) (mc_results c) in
  let '(a, r, _) := transitions None o0 (mc_steps c) in
  let final := last (map mi_obs (mc_steps c)) o0 in
  let held := if mo_pending final then 1 else 0 in
  let accepted := length (filter (fun tr : nat * N => N.eqb (snd tr) 1) (mc_results c)) in
  per_thread ++ retired_first (mc_releasers c) o0 (mc_steps c) 0%N ++
  (if mc_quiescent c &&
      negb (Nat.eqb (mo_supp final) held && Nat.eqb (a - r) held && Nat.eqb (accepted - r) held
            && Nat.leb (mo_qlen final) held)
   then [(N.of_nat (length (mc_steps c)), 7%N)] else []).

Definition check_micro (c : micro_case) : list (N * N) :=
  micro_model (mc_tables c) (fold_left (step (mc_tables c)) (mc_setup c) init_state) (mc_steps c) 0%N
  ++ micro_spec c.

(* ---- the progress file under two or three real writers (statement-level scheduler) ----
   steps: (writer that executed a create/write/rename/remove statement, or 1000 for a statement without
   file-system effect; what a reader of the progress file saw afterwards: 0 the old record, w+1 the
   complete record of writer w, 99 anything else - missing, truncated, spliced) *)
Definition pw_class (s : pw_state) : N :=
  match pw_read s with Some 99 => 0%N | Some w => N.of_nat (S w) | None => 99%N end.
Fixpoint pw_model (m : staging) (s : pw_state) (steps : list (nat * N)) (n : N) : list (N * N) :=
  match steps with
  | [] => []
  | (w, seen) :: rest =>
      let s' := if Nat.eqb w 1000 then s else pw_step m s w in
      (if N.eqb (pw_class s') seen then [] else [(n, 6%N)])
      ++ (if N.eqb seen 99 then [(n, 7%N)] else [])        (* a reader must always find a complete record *)
      ++ pw_model m s' rest (n + 1)%N
  end.
(* [all_ok]: every writer returned nil, i.e. no rename was lost *)
Definition check_pw (m : staging) (writers : nat) (steps : list (nat * N)) (all_ok : bool) : list (N * N) :=
  pw_model m (pw_init writers) steps 0%N
  ++ (if all_ok then [] else [(N.of_nat (length steps), 7%N)])
  ++ (let s := fold_left (fun s x => if Nat.eqb (fst x) 1000 then s else pw_step m s (fst x)) steps (pw_init writers) in
      if Bool.eqb (negb (pw_lost s)) all_ok then [] else [(N.of_nat (length steps), 6%N)]).
