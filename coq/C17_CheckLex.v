(* C17 — token-by-token comparison of the model lexer with the generated ANTLR lexer (no proofs). *)
From Coq Require Import List NArith Bool.
From Dae Require Import C17_Spec C17_Model C17_Check.
Import ListNotations.
Open Scope N_scope.

(* observed tokens: types, byte lengths, and all token texts concatenated *)
Record lex_case := { lc_text : str; lc_errors : bool; lc_types : list N; lc_lens : list nat; lc_cat : str }.
Fixpoint cut (types : list N) (lens : list nat) (cat : str) : list (N * str) :=
  match types, lens with
  | t :: ts, n :: ns => (t, firstn n cat) :: cut ts ns (skipn n cat)
  | _, _ => []
  end.
Definition lc_toks (c : lex_case) : list (N * str) := cut (lc_types c) (lc_lens c) (lc_cat c).

(* ANTLR token type of a model token *)
Definition tok_type (t : tok) : N :=
  match t with
  | TComma => 1 | TLBrace => 2 | TRBrace => 3 | TColon => 4 | TLBrack => 5 | TRBrack => 6 | TNot => 7
  | TLParen => 8 | TRParen => 9 | TArrow => 10 | TAnd => 11 | TId _ => 15 | TNonId _ => 16 | TQuote _ => 17
  end.
Definition punct_text (t : tok) : str :=
  match t with
  | TComma => [44] | TLBrace => [123] | TRBrace => [125] | TColon => [58] | TLBrack => [91] | TRBrack => [93]
  | TNot => [33] | TLParen => [40] | TRParen => [41] | TArrow => [45; 62] | TAnd => [38; 38]
  | TId s | TNonId s => s
  | TQuote s => s
  end.
Definition tok_matches (t : tok) (o : N * str) : bool :=
  (tok_type t =? fst o) &&
  match t with
  | TQuote inner =>
      match snd o with
      | q :: r => ((q =? 34) || (q =? 39)) && str_eqb r (inner ++ [q])
      | [] => false
      end
  | _ => str_eqb (punct_text t) (snd o)
  end.
Fixpoint toks_match (ts : list tok) (os : list (N * str)) : bool :=
  match ts, os with
  | [], [] => true
  | t :: ts', o :: os' => tok_matches t o && toks_match ts' os'
  | _, _ => false
  end.

(* 1: the model lexer and the ANTLR lexer disagree (token stream, or whether the text has a lexical error) *)
Definition check_lex (c : lex_case) : list N :=
  match lex (S (List.length (lc_text c))) (lc_text c) with
  | Ok ts => if negb (lc_errors c) && Nat.eqb (List.length (lc_types c)) (List.length (lc_lens c))
                && toks_match ts (lc_toks c) then [] else [1]
  | Err => if lc_errors c then [] else [1]
  | OutOfFuel => [3]
  end.
