(* C11 — lemmas for layers 1 and 2 (key construction, query string, abstract trie, matcher = spec). *)
From Coq Require Import List NArith Bool Lia ZifyBool ZifyN ZifyNat.
From Dae Require Import C11_Spec C11_Model.
From Dae.gen Require Import C11_Extracted.
Import ListNotations.
Open Scope N_scope.

(* ---------- strings ---------- *)
Lemma str_eqb_true : forall a b, str_eqb a b = true <-> a = b.
Proof.
  induction a as [|x a IH]; intros [|y b]; simpl; split; intro H; try easy.
  - apply andb_true_iff in H as [H1 H2]. apply N.eqb_eq in H1. apply IH in H2. now subst.
  - inversion H; subst. rewrite N.eqb_refl. simpl. now apply IH.
Qed.

Lemma str_eqb_refl : forall a, str_eqb a a = true.
Proof. intro a. now apply str_eqb_true. Qed.

Lemma is_prefix_true : forall p w, is_prefix p w = true <-> exists r, w = p ++ r.
Proof.
  induction p as [|x p IH]; intros w; simpl.
  - split; [intros _; now exists w | easy].
  - destruct w as [|y w].
    + split; [easy | intros [r H]; discriminate].
    + rewrite andb_true_iff, N.eqb_eq, IH. split.
      * intros [-> [r ->]]. now exists r.
      * intros [r H]. inversion H; subst. split; [easy | now exists r].
Qed.

Lemma ends_with_true : forall name suf, ends_with name suf = true <-> exists pre, name = pre ++ suf.
Proof.
  induction name as [|x name IH]; intros suf; cbn [ends_with].
  - rewrite orb_false_r, str_eqb_true. split.
    + intros <-. now exists [].
    + intros [pre H]. symmetry in H. apply app_eq_nil in H as [_ H]. now subst.
  - rewrite orb_true_iff, str_eqb_true, IH. split.
    + intros [<- | [pre ->]]; [now exists [] | now exists (x :: pre)].
    + intros [[|y pre] H]; simpl in H.
      * left. now subst.
      * right. inversion H; subst. now exists pre.
Qed.

Lemma contains_true : forall name p, contains name p = true <-> exists a b, name = a ++ p ++ b.
Proof.
  induction name as [|x name IH]; intros p; cbn [contains].
  - rewrite orb_false_r, is_prefix_true. split.
    + intros [r H]. exists [], r. exact H.
    + intros [a [b H]]. symmetry in H. apply app_eq_nil in H as [-> H]. apply app_eq_nil in H as [-> ->].
      now exists [].
  - rewrite orb_true_iff, is_prefix_true, IH. split.
    + intros [[r H] | [a [b ->]]]; [exists [], r; exact H | now exists (x :: a), b].
    + intros [[|y a] [b H]]; simpl in H.
      * left. now exists b.
      * right. inversion H; subst. now exists a, b.
Qed.

Lemma bool_eq_iff : forall a b : bool, (a = true <-> b = true) -> a = b.
Proof. intros [|] [|] H; try easy; [symmetry|]; apply H; reflexivity. Qed.

(* a key is a prefix of the reversed query iff the un-reversed key is a suffix of the un-reversed query *)
Lemma is_prefix_rev : forall k q, is_prefix (rev k) (rev q) = ends_with q k.
Proof.
  intros k q. apply bool_eq_iff. rewrite is_prefix_true, ends_with_true. split.
  - intros [r H]. exists (rev r). apply (f_equal (@rev N)) in H.
    rewrite rev_involutive, rev_app_distr, rev_involutive in H. exact H.
  - intros [pre ->]. exists (rev pre). now rewrite rev_app_distr.
Qed.

Lemma trim_suffix_snoc : forall c s, trim_suffix c (s ++ [c]) = s.
Proof.
  intros c s. unfold trim_suffix. rewrite rev_app_distr. simpl. rewrite N.eqb_refl. apply rev_involutive.
Qed.

Lemma trim_suffix_other : forall c s, last s (c + 1) <> c -> trim_suffix c s = s.
Proof.
  intros c s H. unfold trim_suffix. destruct (rev s) as [|x r] eqn:E; [easy|].
  destruct (N.eqb_spec x c) as [->|]; [|easy].
  exfalso. apply H. apply (f_equal (@rev N)) in E. rewrite rev_involutive in E. simpl in E.
  rewrite E. apply last_last.
Qed.

(* ---------- alphabets ---------- *)
Lemma lower_byte_pat_char : forall c, name_char c = true -> pat_char (lower_byte c) = true.
Proof.
  intros c. unfold name_char, pat_char, lower_byte, is_lower, is_upper, is_digit, in_range, ch_dash, ch_us, ch_dot.
  intro H. destruct ((65 <=? c) && (c <=? 90)) eqn:E; lia.
Qed.

Lemma pat_char_not_sentinel : forall c, pat_char c = true -> c <> ch_hat /\ c <> ch_dollar.
Proof.
  intros c. unfold pat_char, is_lower, is_digit, in_range, ch_dash, ch_us, ch_dot, ch_hat, ch_dollar. lia.
Qed.

Lemma strip_dot_trim : forall s, strip_dot s = trim_suffix ch_dot s.
Proof. reflexivity. Qed.

Lemma normalize_pat_ok : forall raw, name_ok raw = true -> pat_ok (normalize raw) = true.
Proof.
  intros raw H. unfold normalize, pat_ok. rewrite forallb_forall. intros c Hc.
  apply in_map_iff in Hc as [c0 [<- Hc0]]. apply lower_byte_pat_char.
  unfold name_ok in H. rewrite forallb_forall in H. apply H.
  unfold strip_dot in Hc0. destruct (rev raw) as [|x r] eqn:E; [exact Hc0|].
  destruct (x =? ch_dot); [|exact Hc0].
  apply in_rev in Hc0. rewrite in_rev, E. now right.
Qed.

(* every byte of the pattern alphabet is accepted by ValidDomainChars *)
Lemma pat_char_valid : forall c, pat_char c = true -> vc_valid valid_domain_chars c = true.
Proof.
  intros c H.
  assert (Hlt : c < 128) by (revert H; unfold pat_char, is_lower, is_digit, in_range, ch_dash, ch_us, ch_dot; lia).
  assert (A : forallb (fun c => implb (pat_char c) (vc_valid valid_domain_chars c)) (map N.of_nat (seq 0 128)) = true)
    by (vm_compute; reflexivity).
  assert (Hin : In c (map N.of_nat (seq 0 128))).
  { apply in_map_iff. exists (N.to_nat c). split; [lia|]. apply in_seq. lia. }
  pose proof (proj1 (forallb_forall _ _) A c Hin) as A'. cbv beta in A'. rewrite H in A'. exact A'.
Qed.

Lemma pat_ok_valid : forall d, pat_ok d = true -> valid_pat valid_domain_chars d = true.
Proof.
  intros d H. unfold pat_ok in H. unfold valid_pat. rewrite forallb_forall in *. intros c Hc.
  apply pat_char_valid. now apply H.
Qed.

(* ---------- what a suffix of a well-formed name can be ---------- *)
Lemma pat_ok_app : forall a b, pat_ok (a ++ b) = pat_ok a && pat_ok b.
Proof. intros. unfold pat_ok. apply forallb_app. Qed.

Lemma ends_with_pat_ok : forall name k, pat_ok name = true -> ends_with name k = true -> pat_ok k = true.
Proof.
  intros name k Hn H. apply ends_with_true in H as [pre ->]. rewrite pat_ok_app in Hn.
  now apply andb_true_iff in Hn as [_ Hn].
Qed.

Lemma ends_with_hat_false : forall name d, pat_ok name = true -> ends_with name (ch_hat :: d) = false.
Proof.
  intros name d Hn. destruct (ends_with name (ch_hat :: d)) eqn:E; [|easy].
  apply ends_with_pat_ok in E; [|exact Hn]. simpl in E. discriminate.
Qed.

(* the query string for a well-formed name: reverse of '^' name *)
Definition query (raw : str) : str :=
  to_suffix_trie_string (ch_hat :: map lower_byte (trim_suffix ch_dot raw)).

Lemma query_eq : forall raw, name_ok raw = true -> query raw = rev (ch_hat :: normalize raw).
Proof.
  intros raw H. unfold query, to_suffix_trie_string. f_equal.
  change (map lower_byte (trim_suffix ch_dot raw)) with (normalize raw).
  apply trim_suffix_other.
  pose proof (normalize_pat_ok raw H) as Hp. set (n := normalize raw) in *. clearbody n.
  induction n as [|x n' _] using rev_ind.
  - simpl. unfold ch_hat, ch_dollar. lia.
  - change (ch_hat :: n' ++ [x]) with ((ch_hat :: n') ++ [x]). rewrite last_last.
    rewrite pat_ok_app in Hp. apply andb_true_iff in Hp as [_ Hp]. simpl in Hp. rewrite andb_true_r in Hp.
    now apply pat_char_not_sentinel in Hp.
Qed.

Lemma key_hat : forall d, to_suffix_trie_string (ch_hat :: d ++ [ch_dollar]) = rev (ch_hat :: d).
Proof. intros d. unfold to_suffix_trie_string. change (ch_hat :: d ++ [ch_dollar]) with ((ch_hat :: d) ++ [ch_dollar]). now rewrite trim_suffix_snoc. Qed.
Lemma key_dot : forall d, to_suffix_trie_string (ch_dot :: d ++ [ch_dollar]) = rev (ch_dot :: d).
Proof. intros d. unfold to_suffix_trie_string. change (ch_dot :: d ++ [ch_dollar]) with ((ch_dot :: d) ++ [ch_dollar]). now rewrite trim_suffix_snoc. Qed.
Lemma key_plain : forall d, to_suffix_trie_string (d ++ [ch_dollar]) = rev d.
Proof. intros d. unfold to_suffix_trie_string. now rewrite trim_suffix_snoc. Qed.

(* the three shapes of key against the query '^' name *)
Lemma match_hat : forall name d, pat_ok name = true ->
  is_prefix (rev (ch_hat :: d)) (rev (ch_hat :: name)) = str_eqb name d.
Proof.
  intros name d Hn. rewrite is_prefix_rev. cbn [ends_with str_eqb]. rewrite N.eqb_refl. simpl.
  rewrite ends_with_hat_false by exact Hn. apply orb_false_r.
Qed.
Lemma match_dot : forall name d,
  is_prefix (rev (ch_dot :: d)) (rev (ch_hat :: name)) = ends_with name (ch_dot :: d).
Proof. intros name d. rewrite is_prefix_rev. cbn [ends_with str_eqb]. reflexivity. Qed.
Lemma match_plain_dot : forall name d,
  is_prefix (rev (ch_dot :: d)) (rev (ch_hat :: name)) = ends_with name (ch_dot :: d).
Proof. exact match_dot. Qed.

Lemma and_absorb : forall a b : bool, (b = true -> a = true) -> b && a = b.
Proof. intros [|] [|] H; simpl; auto. Qed.

(* ---------- C11_keys_correct ---------- *)
Lemma full_keys_correct : forall d raw, name_ok raw = true ->
  has_prefix (map to_suffix_trie_string (full_keys valid_domain_chars d)) (query raw)
  = pat_matches (fun _ _ => false) KFull d (normalize raw).
Proof.
  intros d raw H. rewrite (query_eq raw H). pose proof (normalize_pat_ok raw H) as Hn.
  set (name := normalize raw) in *. clearbody name. cbn [pat_matches].
  unfold full_keys. destruct (valid_pat valid_domain_chars d) eqn:V.
  - cbn [map has_prefix existsb]. rewrite key_hat, match_hat by exact Hn. rewrite orb_false_r.
    symmetry. apply and_absorb. intro E. apply str_eqb_true in E. now subst.
  - simpl. symmetry. destruct (pat_ok d) eqn:P; [|apply andb_false_r]. apply pat_ok_valid in P. congruence.
Qed.

Lemma suffix_keys_correct : forall d raw, name_ok raw = true ->
  has_prefix (map to_suffix_trie_string (suffix_keys valid_domain_chars d)) (query raw)
  = pat_matches (fun _ _ => false) KSuffix d (normalize raw).
Proof.
  intros d raw H. rewrite (query_eq raw H). pose proof (normalize_pat_ok raw H) as Hn.
  set (name := normalize raw) in *. clearbody name. cbn [pat_matches].
  unfold suffix_keys. destruct (valid_pat valid_domain_chars d) eqn:V.
  - assert (G : has_prefix (map to_suffix_trie_string [ch_dot :: d ++ [ch_dollar]; ch_hat :: d ++ [ch_dollar]])
                  (rev (ch_hat :: name)) = (str_eqb name d || ends_with name (ch_dot :: d)) && pat_ok d).
    { cbn [map has_prefix existsb]. rewrite key_hat, key_dot, match_hat, match_dot by exact Hn.
      rewrite orb_false_r, orb_comm. symmetry. apply and_absorb. intro E.
      apply orb_true_iff in E as [E|E].
      - apply str_eqb_true in E. now subst.
      - apply ends_with_pat_ok in E; [|exact Hn]. simpl in E. exact E. }
    destruct d as [|c d']; [exact G|].
    destruct (N.eqb_spec c ch_dot) as [->|]; [|exact G].
    cbn [map has_prefix existsb]. rewrite key_plain, match_dot, orb_false_r.
    symmetry. apply and_absorb. intro E. now apply ends_with_pat_ok in E.
  - simpl. symmetry. destruct (pat_ok d) eqn:P; [|apply andb_false_r]. apply pat_ok_valid in P. congruence.
Qed.

(* ---------- the matcher (layers 1-2) against the spec ---------- *)
Lemma has_prefix_app : forall l1 l2 w, has_prefix (l1 ++ l2) w = has_prefix l1 w || has_prefix l2 w.
Proof. intros. unfold has_prefix. apply existsb_app. Qed.

Lemma existsb_flat_map : forall {A B} (f : A -> list B) (g : B -> bool) l,
  existsb g (flat_map f l) = existsb (fun a => existsb g (f a)) l.
Proof. induction l as [|a l IH]; simpl; [easy|]. now rewrite existsb_app, IH. Qed.

Lemma has_prefix_map_flat_map : forall {A} (f : A -> list str) (g : str -> str) l w,
  has_prefix (map g (flat_map f l)) w = existsb (fun a => has_prefix (map g (f a)) w) l.
Proof.
  induction l as [|a l IH]; intros w; simpl; [easy|].
  now rewrite map_app, has_prefix_app, IH.
Qed.

Lemma existsb_ext' : forall {A} (f g : A -> bool) l, (forall a, f a = g a) -> existsb f l = existsb g l.
Proof. intros A f g l H. induction l as [|a l IH]; simpl; [easy|]. now rewrite H, IH. Qed.

Lemma touch_in : forall d i j, In j d \/ j = i -> In j (touch d i).
Proof.
  intros d i j H. unfold touch. destruct (existsb (N.eqb i) d) eqn:E.
  - destruct H as [H| ->]; [exact H|]. apply existsb_exists in E as [y [Hy E]]. apply N.eqb_eq in E. now subst.
  - destruct H as [H| ->]; [now right | now left].
Qed.

Lemma contains_sentinels : forall name p, pat_ok name = true -> pat_ok p = true ->
  contains (ch_hat :: name ++ [ch_dollar]) p = contains name p.
Proof.
  intros name p Hn Hp. apply bool_eq_iff. rewrite !contains_true. split.
  - intros [a [b H]]. destruct p as [|c p'].
    + exists [], name. reflexivity.
    + (* p non-empty and free of '^' and '$' *)
      assert (Hc : forall y, In y (c :: p') -> y <> ch_hat /\ y <> ch_dollar).
      { intros y Hy. apply pat_char_not_sentinel. unfold pat_ok in Hp. rewrite forallb_forall in Hp. now apply Hp. }
      destruct a as [|a0 a'].
      * simpl in H. injection H as H1 _. destruct (Hc c (or_introl eq_refl)) as [Hh _]. exfalso. apply Hh. now symmetry.
      * simpl in H. injection H as Ha0 H'.
        destruct b as [|b0 b'] using rev_ind.
        -- exfalso. rewrite app_nil_r in H'.
           assert (L : last (name ++ [ch_dollar]) 0 = last (a' ++ c :: p') 0) by now rewrite H'.
           rewrite last_last in L.
           assert (H0 : In (last (a' ++ c :: p') 0) (c :: p')).
           { clear -p'. induction a' as [|x a' IH]; simpl.
             - generalize c. induction p' as [|y p' IHp]; intros c0; simpl; [now left|].
               right. apply IHp.
             - destruct (a' ++ c :: p') eqn:E; [now destruct a'|]. exact IH. }
           rewrite <- L in H0. now apply Hc in H0.
        -- clear IHb'.
           assert (H2 : name ++ [ch_dollar] = (a' ++ (c :: p') ++ b') ++ [b0]).
           { rewrite H'. simpl. rewrite <- !app_assoc. simpl. rewrite <- !app_assoc. reflexivity. }
           apply app_inj_tail in H2 as [H2 _]. exists a', b'. exact H2.
  - intros [a [b ->]]. exists (ch_hat :: a), (b ++ [ch_dollar]). simpl. now rewrite <- !app_assoc.
Qed.

Lemma vc_table_aux_notin : forall chars n c acc, ~ In c chars -> vc_table_aux chars n c acc = acc.
Proof.
  induction chars as [|x r IH]; intros n c acc H; simpl; [easy|].
  destruct (N.eqb_spec x c) as [-> |_]; [exfalso; apply H; now left|]. apply IH. intro. apply H. now right.
Qed.

Lemma valid_char_alphabet : forall c, vc_valid valid_domain_chars c = true -> pat_char c = true \/ c = ch_hat.
Proof.
  intros c H. destruct (in_dec N.eq_dec c valid_domain_chars) as [Hin|Hn].
  - assert (A : forallb (fun c => pat_char c || (c =? ch_hat)) valid_domain_chars = true) by (vm_compute; reflexivity).
    pose proof (proj1 (forallb_forall _ _) A c Hin) as A'. cbv beta in A'.
    apply orb_true_iff in A' as [A'|A']; [now left | right; now apply N.eqb_eq].
  - unfold vc_valid, vc_table in H. rewrite (vc_table_aux_notin _ _ _ _ Hn) in H. simpl in H.
    apply N.eqb_eq in H. subst c. left. reflexivity.
Qed.

Lemma valid_kw_pat_ok : forall d, valid_kw valid_domain_chars d = pat_ok d.
Proof.
  intros d. unfold valid_kw, pat_ok. induction d as [|c d IH]; [reflexivity|]. cbn [forallb]. rewrite IH. f_equal.
  apply bool_eq_iff. split.
  - intro H. apply andb_true_iff in H as [H H3]. apply andb_true_iff in H as [H1 H2].
    destruct (valid_char_alphabet c H1) as [P| ->]; [exact P|]. now rewrite N.eqb_refl in H2.
  - intro P. rewrite (pat_char_valid c P). destruct (pat_char_not_sentinel c P) as [A B].
    apply N.eqb_neq in A. apply N.eqb_neq in B. now rewrite A, B.
Qed.

Section MatcherCorrect.
  Variable rx_ok : str -> bool.
  Variable rx : str -> str -> bool.
  Variable ac_ok : list str -> bool.
  Variable ac : list str -> str -> bool.
  (* the keyword automaton is taken to be a substring matcher that never reports an empty pattern (as the
     library does: Contains does not test the root's output flag) and accepts host-name patterns *)
  Hypothesis Hac : forall pats q, ac pats q = ac_real pats q.
  Hypothesis Hacok : forall pats, forallb pat_ok pats = true -> ac_ok pats = true.
  (* any trie implementation that, on key lists satisfying a side condition [good], accepts valid keys and
     answers has_prefix *)
  Variable trie_t : Type.
  Variable t_new : list str -> option trie_t.
  Variable t_has : trie_t -> str -> bool.
  Variable good : list str -> Prop.
  Hypothesis t_new_total : forall keys, keys <> [] ->
    forallb (forallb (vc_valid valid_domain_chars)) keys = true -> good keys -> exists t, t_new keys = Some t.
  Hypothesis t_has_spec : forall keys t w, keys <> [] -> good keys -> t_new keys = Some t ->
    t_has t w = has_prefix keys w.

  Let chars := valid_domain_chars.

  Definition trie_keys (x : pset) : list str :=
    match ps_kind x with
    | KFull => flat_map (full_keys chars) (ps_pats x)
    | KSuffix => flat_map (suffix_keys chars) (ps_pats x)
    | _ => []
    end.
  Definition kw_pats (x : pset) : list str := match ps_kind x with KKeyword => filter (valid_kw chars) (ps_pats x) | _ => [] end.
  Definition rx_pats (x : pset) : list str := match ps_kind x with KRegex => ps_pats x | _ => [] end.
  Definition at_idx {A} (f : pset -> list A) (sets : list pset) (i : N) : list A :=
    flat_map (fun x => if ps_idx x =? i then f x else []) sets.
  Definition set_ok (x : pset) : bool :=
    match ps_kind x with KRegex => forallb rx_ok (ps_pats x) | _ => true end.
  (* no keyword pattern is the empty string *)
  Definition kw_nonempty (sets : list pset) : bool :=
    forallb (fun x => match ps_kind x with
                      | KKeyword => forallb (fun p => match p with [] => false | _ => true end) (ps_pats x)
                      | _ => true
                      end) sets.

  Definition step (s : st) (x : pset) : st := add_set chars rx_ok s (ps_idx x) (ps_kind x) (ps_pats x).

  Lemma app_at_eq : forall {A} (m : N -> list A) i xs j,
    app_at m i xs j = m j ++ (if i =? j then xs else []).
  Proof.
    intros. unfold app_at. rewrite (N.eqb_sym i j). destruct (j =? i); [easy | now rewrite app_nil_r].
  Qed.

  Lemma step_ok : forall s x, err s = false -> set_ok x = true ->
    err (step s x) = false
    /\ (forall i, to_trie (step s x) i = to_trie s i ++ (if ps_idx x =? i then trie_keys x else []))
    /\ (forall i, to_ac (step s x) i = to_ac s i ++ (if ps_idx x =? i then kw_pats x else []))
    /\ (forall i, regexps (step s x) i = regexps s i ++ (if ps_idx x =? i then rx_pats x else []))
    /\ (forall i, In i (dom s) \/ i = ps_idx x -> In i (dom (step s x))).
  Proof.
    intros s x He Hx. unfold step, add_set, set_ok, trie_keys, kw_pats, rx_pats in *. rewrite He.
    destruct (ps_kind x); [| | |rewrite Hx]; cbn [err to_trie to_ac regexps dom];
      repeat split; intros; try apply app_at_eq; try (destruct (ps_idx x =? i); now rewrite app_nil_r);
      now apply touch_in.
  Qed.

  Lemma step_err : forall s x, err s = true -> step s x = s.
  Proof. intros s x He. unfold step, add_set. now rewrite He. Qed.

  Lemma step_bad : forall s x, err s = false -> set_ok x = false -> err (step s x) = true.
  Proof.
    intros s x He Hx. unfold step, add_set, set_ok in *. rewrite He.
    destruct (ps_kind x); try discriminate. now rewrite Hx.
  Qed.

  Lemma fold_err : forall sets s, err s = true -> err (fold_left step sets s) = true.
  Proof. induction sets as [|x sets IH]; intros s He; simpl; [easy|]. rewrite step_err by easy. now apply IH. Qed.

  Lemma fold_ok : forall sets s, err s = false -> forallb set_ok sets = true ->
    let s' := fold_left step sets s in
    err s' = false
    /\ (forall i, to_trie s' i = to_trie s i ++ at_idx trie_keys sets i)
    /\ (forall i, to_ac s' i = to_ac s i ++ at_idx kw_pats sets i)
    /\ (forall i, regexps s' i = regexps s i ++ at_idx rx_pats sets i)
    /\ (forall i, In i (dom s) \/ In i (map ps_idx sets) -> In i (dom s')).
  Proof.
    induction sets as [|x sets IH]; intros s He Hs; cbn [fold_left].
    - unfold at_idx. simpl. repeat split; intros; rewrite ?app_nil_r; auto. destruct H as [H|[]]; auto.
    - simpl in Hs. apply andb_true_iff in Hs as [Hx Hs].
      destruct (step_ok s x He Hx) as [E1 [T1 [A1 [R1 D1]]]].
      destruct (IH (step s x) E1 Hs) as [E2 [T2 [A2 [R2 D2]]]].
      repeat split; intros; unfold at_idx in *; cbn [flat_map].
      + exact E2.
      + now rewrite T2, T1, <- app_assoc.
      + now rewrite A2, A1, <- app_assoc.
      + now rewrite R2, R1, <- app_assoc.
      + apply D2. simpl in H. destruct H as [H|[H|H]]; [left; apply D1; now left | left; apply D1; now right | now right].
  Qed.

  Lemma fold_bad : forall sets s, err s = false -> forallb set_ok sets = false -> err (fold_left step sets s) = true.
  Proof.
    induction sets as [|x sets IH]; intros s He Hs; simpl in *; [discriminate|].
    destruct (set_ok x) eqn:Hx.
    - apply IH; [|exact Hs]. now destruct (step_ok s x He Hx).
    - apply fold_err. now apply step_bad.
  Qed.

  Lemma sets_ok_eq : forall sets, sets_ok rx_ok sets = forallb set_ok sets.
  Proof. reflexivity. Qed.

  (* every key AddSet produces passes NewTrie's character check (after ToSuffixTrieString) *)
  Lemma valid_hat : vc_valid chars ch_hat = true. Proof. vm_compute. reflexivity. Qed.
  Lemma valid_dot : vc_valid chars ch_dot = true. Proof. vm_compute. reflexivity. Qed.

  Lemma forallb_rev : forall {A} (f : A -> bool) l, forallb f (rev l) = forallb f l.
  Proof.
    induction l as [|a l IH]; simpl; [easy|]. rewrite forallb_app, IH. simpl. rewrite andb_true_r. apply andb_comm.
  Qed.

  Lemma full_keys_valid : forall d k, In k (full_keys chars d) -> forallb (vc_valid chars) (to_suffix_trie_string k) = true.
  Proof.
    intros d k H. unfold full_keys in H. destruct (valid_pat chars d) eqn:V; [|easy].
    destruct H as [<-|[]]. rewrite key_hat, forallb_rev. cbn [forallb]. rewrite valid_hat. exact V.
  Qed.

  Lemma suffix_keys_valid : forall d k, In k (suffix_keys chars d) -> forallb (vc_valid chars) (to_suffix_trie_string k) = true.
  Proof.
    intros d k H. unfold suffix_keys in H. destruct (valid_pat chars d) eqn:V; [|easy].
    assert (G : In k [ch_dot :: d ++ [ch_dollar]; ch_hat :: d ++ [ch_dollar]] -> forallb (vc_valid chars) (to_suffix_trie_string k) = true).
    { intros [<-|[<-|[]]]; [rewrite key_dot | rewrite key_hat]; rewrite forallb_rev; cbn [forallb]; rewrite ?valid_hat, ?valid_dot; exact V. }
    destruct d as [|c d']; [now apply G|].
    destruct (c =? ch_dot); [|now apply G].
    destruct H as [<-|[]]. rewrite key_plain, forallb_rev. exact V.
  Qed.

  Lemma trie_keys_valid : forall sets i k, In k (at_idx trie_keys sets i) -> forallb (vc_valid chars) (to_suffix_trie_string k) = true.
  Proof.
    intros sets i k H. unfold at_idx in H. apply in_flat_map in H as [x [_ H]].
    destruct (ps_idx x =? i); [|easy]. unfold trie_keys in H.
    destruct (ps_kind x); try easy; apply in_flat_map in H as [d [_ H]];
      [now apply full_keys_valid in H | now apply suffix_keys_valid in H].
  Qed.

  (* Build over such a trie *)
  Lemma build_tries_gen : forall (f : N -> list str) d,
    (forall i k, In k (f i) -> forallb (vc_valid chars) (to_suffix_trie_string k) = true) ->
    (forall i, f i <> [] -> good (map to_suffix_trie_string (f i))) ->
    exists ts, build_tries trie_t t_new f d = Some ts
      /\ forall i w, (f i <> [] -> In i d) ->
           match lookup ts i with Some t => t_has t w | None => false end
           = has_prefix (map to_suffix_trie_string (f i)) w.
  Proof.
    intros f d Hv Hg. induction d as [|j d [ts [Hb Hl]]].
    - exists []. split; [reflexivity|]. intros i w Hi. simpl.
      destruct (f i) eqn:E; [reflexivity|]. exfalso. apply Hi. discriminate.
    - cbn [build_tries]. destruct (f j) as [|k0 ks] eqn:Ej.
      + exists ts. split; [exact Hb|]. intros i w Hi. apply Hl. intro Hne.
        destruct (Hi Hne) as [->|H]; [congruence | exact H].
      + assert (Hne0 : map to_suffix_trie_string (k0 :: ks) <> []) by discriminate.
        assert (Hgood : good (map to_suffix_trie_string (k0 :: ks))).
        { rewrite <- Ej. apply Hg. rewrite Ej. discriminate. }
        destruct (t_new_total (map to_suffix_trie_string (k0 :: ks)) Hne0) as [t Hn]; [|exact Hgood|].
        { rewrite forallb_forall. intros k Hk. apply in_map_iff in Hk as [k' [<- Hk']]. apply (Hv j). now rewrite Ej. }
        rewrite Hn, Hb. eexists. split; [reflexivity|]. intros i w Hi. cbn [lookup].
        destruct (N.eqb_spec j i) as [->|Hji].
        * rewrite Ej. apply (t_has_spec _ t w Hne0 Hgood Hn).
        * apply Hl. intro Hne. destruct (Hi Hne) as [H|H]; [congruence | exact H].
  Qed.

  Lemma ac_real_app : forall l1 l2 q, ac_real (l1 ++ l2) q = ac_real l1 q || ac_real l2 q.
  Proof. intros. unfold ac_real. apply existsb_app. Qed.

  Lemma bit_parts : forall sets raw i, name_ok raw = true -> kw_nonempty sets = true ->
    has_prefix (map to_suffix_trie_string (at_idx trie_keys sets i)) (query raw)
    || ac_real (at_idx kw_pats sets i) (ch_hat :: normalize raw ++ [ch_dollar])
    || existsb (fun r => rx r (normalize raw)) (at_idx rx_pats sets i)
    = bit rx sets raw i.
  Proof.
    intros sets raw i Hn. pose proof (normalize_pat_ok raw Hn) as Hpn.
    induction sets as [|x sets IH]; intros Hk; [reflexivity|].
    simpl in Hk. apply andb_true_iff in Hk as [Hkx Hk]. specialize (IH Hk).
    unfold at_idx in *. cbn [flat_map]. rewrite map_app, has_prefix_app, ac_real_app, existsb_app.
    unfold bit in *. cbn [existsb]. rewrite <- IH. clear IH.
    set (T := has_prefix (map to_suffix_trie_string (flat_map _ sets)) _).
    set (A := ac_real (flat_map _ sets) _).
    set (R := existsb _ (flat_map _ sets)).
    assert (E : has_prefix (map to_suffix_trie_string (if ps_idx x =? i then trie_keys x else [])) (query raw)
                || ac_real (if ps_idx x =? i then kw_pats x else []) (ch_hat :: normalize raw ++ [ch_dollar])
                || existsb (fun r => rx r (normalize raw)) (if ps_idx x =? i then rx_pats x else [])
                = (ps_idx x =? i) && set_matches rx x (normalize raw)).
    { destruct (ps_idx x =? i); [|reflexivity]. cbn [andb].
      unfold set_matches, trie_keys, kw_pats, rx_pats in *. destruct (ps_kind x) eqn:Ek.
      - rewrite has_prefix_map_flat_map. cbn [ac_real existsb]. rewrite !orb_false_r.
        apply existsb_ext'. intros d. exact (full_keys_correct d raw Hn).
      - rewrite has_prefix_map_flat_map. cbn [ac_real existsb]. rewrite !orb_false_r.
        apply existsb_ext'. intros d. exact (suffix_keys_correct d raw Hn).
      - cbn [map has_prefix existsb]. rewrite orb_false_r. cbn [orb]. unfold ac_real.
        induction (ps_pats x) as [|p ps IHp]; [reflexivity|]. simpl in Hkx. apply andb_true_iff in Hkx as [Hp Hps].
        cbn [filter existsb]. rewrite <- (IHp Hps). clear IHp. cbn [pat_matches].
        pose proof (valid_kw_pat_ok p) as Vp. fold chars in Vp. rewrite Vp. clear Vp. destruct (pat_ok p) eqn:P.
        + cbn [existsb]. destruct p as [|c0 p0]; [discriminate|]. rewrite andb_true_r.
          now rewrite (contains_sentinels (normalize raw) (c0 :: p0) Hpn P).
        + now rewrite andb_false_r.
      - cbn [map has_prefix existsb ac_real]. reflexivity. }
    rewrite <- E.
    destruct (has_prefix (map to_suffix_trie_string (if ps_idx x =? i then trie_keys x else [])) (query raw)),
      (ac_real (if ps_idx x =? i then kw_pats x else []) (ch_hat :: normalize raw ++ [ch_dollar])),
      (existsb (fun r => rx r (normalize raw)) (if ps_idx x =? i then rx_pats x else [])), T, A, R; reflexivity.
  Qed.

  Lemma kw_pats_at_ok : forall sets i, forallb pat_ok (at_idx kw_pats sets i) = true.
  Proof.
    intros sets i. rewrite forallb_forall. intros p Hp.
    unfold at_idx in Hp. apply in_flat_map in Hp as [x [Hx Hp]]. destruct (ps_idx x =? i); [|easy].
    unfold kw_pats in Hp. destruct (ps_kind x); try easy. apply filter_In in Hp as [_ Hp].
    now rewrite <- valid_kw_pat_ok.
  Qed.

  Lemma matcher_correct : forall sets names idxs,
    kw_nonempty sets = true -> forallb name_ok names = true ->
    (forall i, at_idx trie_keys sets i <> [] -> good (map to_suffix_trie_string (at_idx trie_keys sets i))) ->
    run chars rx_ok rx ac_ok ac trie_t t_new t_has sets names idxs
    = if sets_ok rx_ok sets then Some (map (fun raw => filter (bit rx sets raw) idxs) names) else None.
  Proof.
    intros sets names idxs Hk Hn Hgood. unfold run. change (add_sets chars rx_ok sets) with (fold_left step sets st0).
    rewrite sets_ok_eq. destruct (forallb set_ok sets) eqn:Hs.
    - destruct (fold_ok sets st0 eq_refl Hs) as [E [T [A [R D]]]]. cbv zeta in *.
      set (s := fold_left step sets st0) in *. cbn [st0 to_trie to_ac regexps dom app] in T, A, R, D.
      unfold build. rewrite E.
      replace (forallb _ (dom s)) with true.
      2:{ symmetry. rewrite forallb_forall. intros i _. rewrite A. destruct (at_idx kw_pats sets i) eqn:Ea; [easy|].
          apply Hacok. rewrite <- Ea. apply kw_pats_at_ok. }
      cbn [negb].
      destruct (build_tries_gen (to_trie s) (dom s)) as [ts [Hb Hl]].
      { intros i k. rewrite T. apply trie_keys_valid. }
      { intros i. rewrite T. apply Hgood. }
      rewrite Hb. f_equal. apply map_ext_in. intros raw Hraw.
      assert (Hr : name_ok raw = true) by (rewrite forallb_forall in Hn; now apply Hn).
      apply filter_ext_in. intros i _. unfold match_bit. cbn [m_trie m_ac m_rx].
      rewrite <- (bit_parts sets raw i Hr Hk).
      fold (query raw). rewrite Hl.
      2:{ intro Hne. apply D. right. rewrite T in Hne. unfold at_idx in Hne.
          destruct (flat_map (fun x : pset => if ps_idx x =? i then trie_keys x else []) sets) as [|k0 ks] eqn:Ef; [easy|]. clear Hne.
          assert (Hin : In k0 (flat_map (fun x : pset => if ps_idx x =? i then trie_keys x else []) sets)) by (rewrite Ef; now left).
          apply in_flat_map in Hin as [x [Hx Hin]]. destruct (N.eqb_spec (ps_idx x) i) as [<-|]; [|easy].
          now apply in_map. }
      rewrite T, A, R. change (map lower_byte (trim_suffix ch_dot raw)) with (normalize raw).
      f_equal. f_equal. destruct (at_idx kw_pats sets i) eqn:Ea; [reflexivity|]. apply Hac.
    - unfold build. now rewrite (fold_bad sets st0 eq_refl Hs).
  Qed.
End MatcherCorrect.

(* ---------- skipping, independence, the full statement and its counterexample ---------- *)
Definition drop_invalid (x : pset) : pset :=
  match ps_kind x with
  | KFull | KSuffix => (ps_idx x, ps_kind x, filter (valid_pat valid_domain_chars) (ps_pats x))
  | _ => x
  end.

Lemma flat_map_filter_nil : forall {A B} (f : A -> list B) (v : A -> bool) l,
  (forall a, v a = false -> f a = []) -> flat_map f (filter v l) = flat_map f l.
Proof.
  intros A B f v l H. induction l as [|a l IH]; simpl; [easy|].
  destruct (v a) eqn:E; simpl; [now rewrite IH | now rewrite (H a E), IH].
Qed.

Lemma invalid_no_key : forall d, valid_pat valid_domain_chars d = false ->
  full_keys valid_domain_chars d = [] /\ suffix_keys valid_domain_chars d = [].
Proof. intros d H. unfold full_keys, suffix_keys. now rewrite H. Qed.

Lemma skip_invalid : forall rx_ok sets,
  add_sets valid_domain_chars rx_ok (map drop_invalid sets) = add_sets valid_domain_chars rx_ok sets.
Proof.
  intros rx_ok sets. unfold add_sets. generalize (st0). induction sets as [|x sets IH]; intros s; simpl; [easy|].
  rewrite IH. f_equal. unfold drop_invalid, add_set. destruct x as [[i k] pats]. unfold ps_idx, ps_kind, ps_pats. simpl.
  destruct (err s); [easy|]. destruct k; simpl; try reflexivity.
  - rewrite flat_map_filter_nil; [easy|]. intros d Hd. now apply invalid_no_key.
  - rewrite flat_map_filter_nil; [easy|]. intros d Hd. now apply invalid_no_key.
Qed.

Lemma bit_filter : forall rx sets raw i,
  bit rx sets raw i = bit rx (filter (fun x => ps_idx x =? i) sets) raw i.
Proof.
  intros rx sets raw i. unfold bit. induction sets as [|x sets IH]; simpl; [easy|].
  destruct (ps_idx x =? i) eqn:E; simpl; rewrite ?E; simpl; now rewrite IH.
Qed.

(* the library's alphabet (third-party table, copied by hand; the harness reports its real verdicts) *)
Definition ac_char (c : N) : bool := pat_char c || (c =? ch_hat) || (c =? ch_dollar).
Definition ac_ok_lib (pats : list str) : bool := forallb (forallb ac_char) pats.

Lemma ac_ok_lib_plain : forall pats, forallb pat_ok pats = true -> ac_ok_lib pats = true.
Proof.
  intros pats H. unfold ac_ok_lib. rewrite forallb_forall in *. intros p Hp. specialize (H p Hp).
  unfold pat_ok in H. rewrite forallb_forall in *. intros c Hc. unfold ac_char. now rewrite (H c Hc).
Qed.

Definition model_answer rx_ok rx sets names idxs :=
  run valid_domain_chars rx_ok rx ac_ok_lib ac_real (list str) (abs_new valid_domain_chars) abs_has sets names idxs.
Definition spec_answer (rx_ok : str -> bool) (rx : str -> str -> bool) (sets : list pset) (names : list str) (idxs : list N) :=
  if sets_ok rx_ok sets then Some (map (fun raw => filter (bit rx sets raw) idxs) names) else None.

Lemma abs_new_total : forall keys, keys <> [] ->
  forallb (forallb (vc_valid valid_domain_chars)) keys = true -> True -> exists t, abs_new valid_domain_chars keys = Some t.
Proof. intros keys _ H _. unfold abs_new. rewrite H. now exists keys. Qed.

Lemma abs_has_spec : forall keys t w, keys <> [] -> True -> abs_new valid_domain_chars keys = Some t ->
  abs_has t w = has_prefix keys w.
Proof.
  intros keys t w _ _ H. unfold abs_new in H. destruct (forallb (forallb (vc_valid valid_domain_chars)) keys); [|discriminate]. now inversion H.
Qed.

Lemma matcher_partial : forall rx_ok rx sets names idxs,
  kw_nonempty sets = true -> forallb name_ok names = true ->
  model_answer rx_ok rx sets names idxs = spec_answer rx_ok rx sets names idxs.
Proof.
  intros. unfold model_answer, spec_answer.
  apply (matcher_correct rx_ok rx ac_ok_lib ac_real (fun _ _ => eq_refl) ac_ok_lib_plain
           (list str) (abs_new valid_domain_chars) abs_has (fun _ => True) abs_new_total abs_has_spec); auto.
Qed.

Lemma matcher_full_refuted :
  exists sets names idxs, forallb name_ok names = true /\
    model_answer (fun _ => true) (fun _ _ => false) sets names idxs
    <> spec_answer (fun _ => true) (fun _ _ => false) sets names idxs.
Proof.
  exists [(0, KKeyword, [[]])], [[97; 98]], [0]. split; [reflexivity|].
  vm_compute. discriminate.
Qed.

Lemma sets_independent : forall rx_ok rx sets sets' raw i,
  filter (fun x => ps_idx x =? i) sets = filter (fun x => ps_idx x =? i) sets' ->
  kw_nonempty sets = true -> kw_nonempty sets' = true -> name_ok raw = true ->
  sets_ok rx_ok sets = true -> sets_ok rx_ok sets' = true ->
  model_answer rx_ok rx sets [raw] [i] = model_answer rx_ok rx sets' [raw] [i].
Proof.
  intros rx_ok rx sets sets' raw i Hf Hk Hk' Hn Ho Ho'.
  rewrite !matcher_partial by (try assumption; simpl; now rewrite Hn).
  unfold spec_answer. rewrite Ho, Ho'. cbn [map filter].
  now rewrite (bit_filter rx sets), (bit_filter rx sets'), Hf.
Qed.

(* a concrete pattern collection with shared labels, patterns that are suffixes/prefixes of one another,
   digits, '-', '_', a leading-dot suffix, an invalid pattern, a keyword and two sets on one bit *)
Definition ex_sets : list pset :=
  [ (3, KSuffix, [[101;120;46;99;111;109] (* ex.com *); [46;97;46;101;120;46;99;111;109] (* .a.ex.com *); [99;111;109;46] ]);
    (3, KFull, [[97;45;98;95;49;46;99;111;109] (* a-b_1.com *)]);
    (32, KFull, [[101;120;46;99;111;109]; [69;120;46;99;111;109] (* Ex.com: skipped *)]);
    (1023, KKeyword, [[120;46;99] (* x.c *)]) ].
Definition ex_names : list str :=
  [ [101;120;46;99;111;109]                     (* ex.com *);
    [87;87;87;46;69;88;46;67;79;77;46]          (* WWW.EX.COM. *);
    [120;101;120;46;99;111;109]                 (* xex.com *);
    [97;46;101;120;46;99;111;109]               (* a.ex.com *);
    [98;46;97;46;101;120;46;99;111;109]         (* b.a.ex.com *);
    [97;45;98;95;49;46;99;111;109]              (* a-b_1.com *);
    [99;111;109] ].
Lemma matcher_nonvacuous :
  kw_nonempty ex_sets = true /\ forallb name_ok ex_names = true /\
  model_answer (fun _ => true) (fun _ _ => false) ex_sets ex_names [3; 32; 1023; 5]
  = Some [[3; 32; 1023]; [3; 1023]; [1023]; [3; 1023]; [3; 1023]; [3]; []].
Proof. vm_compute. repeat split; reflexivity. Qed.

Lemma keys_nonvacuous :
  name_ok [87;87;87;46;69;88;46;67;79;77;46] = true /\
  has_prefix (map to_suffix_trie_string (suffix_keys valid_domain_chars [101;120;46;99;111;109]))
             (query [87;87;87;46;69;88;46;67;79;77;46]) = true /\
  has_prefix (map to_suffix_trie_string (suffix_keys valid_domain_chars [101;120;46;99;111;109]))
             (query [120;101;120;46;99;111;109]) = false.
Proof. vm_compute. repeat split; reflexivity. Qed.
