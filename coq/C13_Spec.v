(* C13 — UDP flows: ordered exactly-once handling over one stable, leak-free endpoint.
   Spec: the property in its own terms, over the observable history of a run.

   Part 1 (task pool).  A run is a list of events.  A task is accepted for a flow key; later some
   per-flow worker (identified by the key it was created for) starts it and ends it.  The property:
   per flow key the started tasks are, in order, the accepted tasks (never one that was not accepted,
   never twice, never out of order, never by a worker of another flow, never two at a time), and when
   the system has come to rest nothing accepted is left unstarted.

   Part 2 (kernel flow entries).  Owners retain and release a tuple; the kernel entry must be deleted
   exactly when the number of owners drops from one to zero, and a hand-over to the next generation
   (retain there, forget here) deletes nothing.

   Part 3 (endpoints).  Calls for an endpoint key return endpoint identities; the history of dials,
   hand-outs, deaths and closes must satisfy: same live endpoint for the same key, no hand-out of a
   dead / failed / invalidated endpoint, every dialled endpoint closed exactly once at rest.

   Identifiers are natural numbers assigned by the harness (flow keys, tasks, workers, tuples, owners,
   endpoints). *)
From Coq Require Import List Arith Bool.
Import ListNotations.

(* ------------------------------------------------------------------------------------------ *)
(* Part 1: task pool                                                                           *)
(* ------------------------------------------------------------------------------------------ *)
Inductive event :=
| EAccept (k t : nat)            (* EmitTask enqueued task t for flow key k *)
| EStart (qk q tk t : nat)       (* worker q, created for key qk, starts task t whose flow key is tk *)
| EEnd (q t : nat).              (* worker q finished task t *)

(* scan state: accepted-but-not-started tasks (key, task) in acceptance order; running (key, task) *)
Record scan := { sc_pend : list (nat * nat); sc_run : list (nat * nat); sc_errs : list nat }.

Definition scan0 : scan := {| sc_pend := []; sc_run := []; sc_errs := [] |}.

Fixpoint remove_first_key (k : nat) (l : list (nat * nat)) : list (nat * nat) :=
  match l with
  | [] => []
  | p :: r => if fst p =? k then r else p :: remove_first_key k r
  end.

Fixpoint remove_task (t : nat) (l : list (nat * nat)) : list (nat * nat) :=
  match l with
  | [] => []
  | p :: r => if snd p =? t then r else p :: remove_task t r
  end.

Definition first_of_key (k : nat) (l : list (nat * nat)) : option nat :=
  match find (fun p => fst p =? k) l with Some p => Some (snd p) | None => None end.

(* error codes: 1 = run by a worker of another flow; 2 = not the oldest accepted-unstarted task of its
   flow (out of order, duplicate, or never accepted); 3 = two tasks of one flow running at once *)
Definition scan_step (s : scan) (e : event) : scan :=
  match e with
  | EAccept k t => {| sc_pend := sc_pend s ++ [(k, t)]; sc_run := sc_run s; sc_errs := sc_errs s |}
  | EStart qk q tk t =>
      let e1 := if qk =? tk then [] else [1] in
      let e2 := match first_of_key tk (sc_pend s) with
                | Some t' => if t' =? t then [] else [2]
                | None => [2]
                end in
      let e3 := if existsb (fun p => fst p =? tk) (sc_run s) then [3] else [] in
      {| sc_pend := remove_task t (sc_pend s); sc_run := (tk, t) :: sc_run s;
         sc_errs := sc_errs s ++ e1 ++ e2 ++ e3 |}
  | EEnd q t => {| sc_pend := sc_pend s; sc_run := remove_task t (sc_run s); sc_errs := sc_errs s |}
  end.

Definition scan_log (l : list event) : scan := fold_left scan_step l scan0.

(* safety: holds of every history, also unfinished ones *)
Definition spec_safe (l : list event) : bool :=
  match sc_errs (scan_log l) with [] => true | _ => false end.

(* at rest: nothing accepted is left unstarted, nothing still running *)
Definition spec_complete (l : list event) : bool :=
  match sc_pend (scan_log l), sc_run (scan_log l) with [], [] => true | _, _ => false end.

Definition spec_errors (l : list event) : list nat := sc_errs (scan_log l).
Definition spec_lost (l : list event) : list (nat * nat) := sc_pend (scan_log l).

(* projections used by the weaker, separately stated clauses *)
Definition accepted_tasks (l : list event) : list nat :=
  flat_map (fun e => match e with EAccept _ t => [t] | _ => [] end) l.
Definition started_tasks (l : list event) : list nat :=
  flat_map (fun e => match e with EStart _ _ _ t => [t] | _ => [] end) l.

(* no task is started twice, and none that was not accepted *)
Definition spec_no_dup_no_invent (l : list event) : Prop :=
  NoDup (started_tasks l) /\ (forall t, In t (started_tasks l) -> In t (accepted_tasks l)).

(* at most one worker per flow key is inside a task at any time *)
Fixpoint running_keys (l : list event) (run : list (nat * nat)) : list (list nat) :=
  (* run : (worker key, task) currently running; returns the key lists after each event *)
  match l with
  | [] => []
  | e :: r =>
      let run' := match e with
                  | EStart qk _ _ t => (qk, t) :: run
                  | EEnd _ t => remove_task t run
                  | _ => run
                  end in
      map fst run' :: running_keys r run'
  end.

Definition spec_one_at_a_time (l : list event) : Prop :=
  forall ks, In ks (running_keys l []) -> NoDup ks.

(* ------------------------------------------------------------------------------------------ *)
(* Part 2: kernel tuple ownership                                                              *)
(* ------------------------------------------------------------------------------------------ *)
(* history of owner operations on tuples; gen = tracker generation (reload hand-over moves ownership
   from generation g to generation g' by retain in g' then forget in g). *)
Inductive tuple_op :=
| TRetain (g k : nat)
| TRelease (g k : nat)          (* release of one owner: begin + kernel delete (if any) + finalize *)
| TForget (g k : nat).

(* number of owners of tuple k in generation g after a history *)
Fixpoint owners (h : list tuple_op) (g k : nat) : nat :=
  match h with
  | [] => 0
  | o :: r =>
      let n := owners r g k in
      match o with
      | TRetain g' k' => if (g' =? g) && (k' =? k) then S n else n
      | TRelease g' k' => if (g' =? g) && (k' =? k) then pred n else n
      | TForget g' k' => if (g' =? g) && (k' =? k) then pred n else n
      end
  end.
(* histories are written newest first for [owners]; [owners_after] takes oldest first *)
Definition owners_after (h : list tuple_op) (g k : nat) : nat := owners (rev h) g k.

(* what the kernel must see deleted by the last operation o of history h ++ [o] *)
Definition must_delete (h : list tuple_op) (o : tuple_op) : list nat :=
  match o with
  | TRelease g k => if owners_after h g k =? 1 then [k] else []
  | _ => []
  end.

(* ------------------------------------------------------------------------------------------ *)
(* Part 3: endpoints (executable reference machine in the property's terms)                     *)
(* ------------------------------------------------------------------------------------------ *)
(* A history of calls: get-or-create for a client key (dial outcome chosen by the environment: 0 the
   dial succeeds, 1 it fails, 2 no dialer is available), a burst of n concurrent first uses, a write on
   an endpoint handle (0 ok, 1 transport error), registering a kernel flow entry, a health invalidation of
   a dialer, a pool reset.  The property: while an endpoint of a key is alive every call for the key
   returns it and nothing is dialled; a key whose dial just failed gets an error without a dial; an
   endpoint that was retired after an error, or invalidated before it carried traffic, is never
   returned again; every dialled endpoint is closed once (its transport with it) exactly when it stops
   being alive; kernel entries are owned by the generation that used the endpoint last and vanish with
   their last owner; the drain ticket follows the owner. *)
Inductive eop :=
| EGoc (k d g out : nat)
| EBurst (k d g n : nat)
| EWrite (e out : nat)
| ETrack (e t : nat)
| EInval (d : nat)
| EReset
| ERemove (e : nat).

Record erec := mkE { er_key : nat; er_dialer : nat; er_alive : bool; er_retired : bool; er_sent : bool;
                     er_owner : nat; er_tuples : list nat }.
Inductive ecur := CNone | CMarker | CEp (e : nat).
Record espec := mkES { es_cur : nat -> ecur; es_eps : list erec; es_dials : nat }.
Record eres := mkER { r_ret : option nat; r_isnew : bool; r_err : nat }.

Definition es0 : espec := mkES (fun _ => CNone) [] 0.

Definition cur_set (f : nat -> ecur) (k : nat) (v : ecur) : nat -> ecur := fun k' => if k' =? k then v else f k'.

Fixpoint lupd {A} (l : list A) (i : nat) (f : A -> A) : list A :=
  match l, i with
  | [], _ => []
  | x :: r, 0 => f x :: r
  | x :: r, S j => x :: lupd r j f
  end.

Definition e_retire (x : erec) : erec := mkE (er_key x) (er_dialer x) false true (er_sent x) (er_owner x) (er_tuples x).
Definition e_close (x : erec) : erec := mkE (er_key x) (er_dialer x) false (er_retired x) (er_sent x) (er_owner x) (er_tuples x).
Definition e_sent (x : erec) : erec := mkE (er_key x) (er_dialer x) (er_alive x) (er_retired x) true (er_owner x) (er_tuples x).
Definition e_own (g : nat) (x : erec) : erec := mkE (er_key x) (er_dialer x) (er_alive x) (er_retired x) (er_sent x) g (er_tuples x).
Definition e_track (t : nat) (x : erec) : erec :=
  let add := fun u l => if existsb (Nat.eqb u) l then l else l ++ [u] in
  mkE (er_key x) (er_dialer x) (er_alive x) (er_retired x) (er_sent x) (er_owner x) (add (2 * t + 1) (add (2 * t) (er_tuples x))).

Definition clear_cur_of (s : espec) (e : nat) : nat -> ecur :=
  fun k => match es_cur s k with CEp e' => if e' =? e then CNone else CEp e' | c => c end.

Definition es_goc (s : espec) (k d g out : nat) : espec * eres :=
  match es_cur s k with
  | CMarker => (s, mkER None false 1)
  | CEp e => (mkES (es_cur s) (lupd (es_eps s) e (e_own g)) (es_dials s), mkER (Some e) false 0)
  | CNone =>
      match out with
      | 0 => let e := length (es_eps s) in
             (mkES (cur_set (es_cur s) k (CEp e)) (es_eps s ++ [mkE k d true false false g []]) (S (es_dials s)),
              mkER (Some e) true 0)
      | 1 => (mkES (cur_set (es_cur s) k CMarker) (es_eps s) (S (es_dials s)), mkER None true 2)
      | _ => (s, mkER None true 2)
      end
  end.

Definition estep (s : espec) (o : eop) : espec * eres :=
  match o with
  | EGoc k d g out => es_goc s k d g out
  | EBurst k d g n => es_goc s k d g 0
  | EWrite e out =>
      match nth_error (es_eps s) e with
      | None => (s, mkER None false 0)
      | Some x =>
          if er_alive x
          then match out with
               | 0 => (mkES (es_cur s) (lupd (es_eps s) e e_sent) (es_dials s), mkER None false 0)
               | _ => (mkES (clear_cur_of s e) (lupd (es_eps s) e e_retire) (es_dials s), mkER None false 2)
               end
          else (mkES (es_cur s) (lupd (es_eps s) e e_retire) (es_dials s), mkER None false 2)
      end
  | ETrack e t =>
      match nth_error (es_eps s) e with
      | Some x => if er_alive x then (mkES (es_cur s) (lupd (es_eps s) e (e_track t)) (es_dials s), mkER None false 0)
                  else (s, mkER None false 0)
      | None => (s, mkER None false 0)
      end
  | EInval d =>
      let hit := fun x => er_alive x && (er_dialer x =? d) && negb (er_sent x) in
      let eps' := map (fun x => if hit x then e_retire x else x) (es_eps s) in
      let cur' := fun k => match es_cur s k with
                           | CEp e => match nth_error (es_eps s) e with
                                      | Some x => if hit x then CNone else CEp e
                                      | None => CEp e end
                           | c => c end in
      (mkES cur' eps' (es_dials s), mkER None false 0)
  | EReset =>
      let incur := fun (ix : nat * erec) => match es_cur s (er_key (snd ix)) with CEp e => e =? fst ix | _ => false end in
      let fix idx (n : nat) (l : list erec) := match l with [] => [] | x :: r => (n, x) :: idx (S n) r end in
      (mkES (fun _ => CNone) (map (fun ix => if incur ix then e_close (snd ix) else snd ix) (idx 0 (es_eps s))) (es_dials s),
       mkER None false 0)
  | ERemove e =>
      (* a caller drops its handle: if it is still the live endpoint of its key the endpoint is closed and
         leaves the pool; a stale handle (already retired / closed / replaced) changes nothing *)
      match nth_error (es_eps s) e with
      | Some x =>
          if er_alive x
          then (mkES (clear_cur_of s e) (lupd (es_eps s) e e_close) (es_dials s), mkER None false 0)
          else (s, mkER None false 0)
      | None => (s, mkER None false 0)
      end
  end.

(* what must be observable after a call *)
Definition exp_closes (x : erec) : nat := if er_alive x then 0 else 1.
Definition exp_refs (s : espec) (g t : nat) : nat :=
  length (filter (fun x => er_alive x && (er_owner x =? g) && existsb (Nat.eqb t) (er_tuples x)) (es_eps s)).
Definition exp_drain (s : espec) (g : nat) : nat :=
  length (filter (fun x => er_alive x && (er_owner x =? g)) (es_eps s)).
