(* C05 - the bufio detection reader as storage: lemmas. *)
From Coq Require Import List NArith Bool Lia ZifyBool ZifyN.
From Dae Require Import C05_Spec C05_Model C05_Proofs C05_BufioModel.
From Dae.gen Require Import C05_Extracted.
Import ListNotations.
Open Scope N_scope.

(* When the relay buffer is at least as large as the reader's buffer, the read that precedes the write goes
   straight into the relay buffer (bufio's "large read, empty buffer" branch) and leaves b.buf alone: the view
   taken by TakeRelayPrefix still shows the bytes that were buffered; nothing is lost or duplicated. *)
Lemma gather_safe : forall sz n pend b incoming,
  sz <= n ->
  let '(written, b2, rest) := gather sz n pend b incoming in
  written = buffered b ++ (if pend then take n incoming else [])
  /\ written ++ buffered b2 ++ rest = buffered b ++ incoming.
Proof.
  intros sz n pend b incoming Hle. unfold gather, take_prefix_view.
  destruct pend.
  - unfold reader_read. cbn [b_r b_w b_arr]. rewrite N.eqb_refl.
    assert (Hs : (sz <=? n) = true) by (apply N.leb_le; exact Hle). rewrite Hs.
    cbn [b_arr]. split; [reflexivity|].
    assert (Hb : buffered {| b_arr := b_arr b; b_r := b_w b; b_w := b_w b |} = []).
    { unfold buffered, resolve_view. cbn [b_arr b_r b_w fst snd]. rewrite N.sub_diag.
      unfold take. destruct (len (drop (b_w b) (b_arr b)) <=? 0) eqn:E.
      - apply N.leb_le in E. unfold len in E. destruct (drop (b_w b) (b_arr b)); [reflexivity|cbn in E; lia].
      - reflexivity. }
    rewrite Hb. cbn [app]. rewrite <- app_assoc. unfold buffered. rewrite take_drop. reflexivity.
  - cbn [b_arr]. split; [now rewrite app_nil_r|].
    assert (Hb : buffered {| b_arr := b_arr b; b_r := b_w b; b_w := b_w b |} = []).
    { unfold buffered, resolve_view. cbn [b_arr b_r b_w fst snd]. rewrite N.sub_diag.
      unfold take. destruct (len (drop (b_w b) (b_arr b)) <=? 0) eqn:E.
      - apply N.leb_le in E. unfold len in E. destruct (drop (b_w b) (b_arr b)); [reflexivity|cbn in E; lia].
      - reflexivity. }
    rewrite Hb. reflexivity.
Qed.

Lemma reader_fits_relay_buffer : (c05_bufio_size <=? c05_relay_buf) = true.
Proof. reflexivity. Qed.

Lemma bufio_prefix_safe_proof : forall pend b incoming,
  let '(written, b2, rest) := gather c05_bufio_size c05_relay_buf pend b incoming in
  written = buffered b ++ (if pend then take c05_relay_buf incoming else [])
  /\ written ++ buffered b2 ++ rest = buffered b ++ incoming.
Proof. intros. apply gather_safe. apply N.leb_le. exact reader_fits_relay_buffer. Qed.

(* a reader larger than the relay buffer (bufio.NewReaderSize(lConn, 2+65535)): the read refills b.buf from
   offset 0 and the unsent prefix is overwritten *)
Definition w_reader : breader := mkB [0;5;104;101;108;108;111] 0 7.
Lemma large_reader_refuted_proof :
  exists b incoming,
    let '(written, _, _) := gather 65537 c05_relay_buf true b incoming in
    written <> buffered b ++ take c05_relay_buf incoming.
Proof. exists w_reader, [1;2;3]. vm_compute. discriminate. Qed.

Lemma large_reader_witness :
  fst (fst (gather 65537 c05_relay_buf true w_reader [1;2;3])) = [1;2;3;101;108;108;111; 1;2;3]
  /\ fst (fst (gather c05_bufio_size c05_relay_buf true w_reader [1;2;3])) = [0;5;104;101;108;108;111; 1;2;3].
Proof. vm_compute. split; reflexivity. Qed.
