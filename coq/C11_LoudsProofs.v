(* C11 — lemmas about the trie of pkg/trie (layer 3).  Proved here: the tree that NewTrie's BFS enumerates
   (sorted, de-duplicated keys split into runs by first byte) represents exactly the key set:
   walking it answers has_prefix.  The numbering/packing part is stated in C11_Props.v as open. *)
From Coq Require Import List NArith Bool Lia ZifyBool ZifyN ZifyNat Sorting.Sorted Sorting.Permutation Relations.
From Dae Require Import C11_Spec C11_Model C11_Louds C11_Proofs.
Import ListNotations.
Open Scope N_scope.

Definition str_lt (a b : str) : Prop := str_leb a b = true /\ a <> b.

Lemma str_leb_refl : forall a, str_leb a a = true.
Proof. induction a as [|x a IH]; simpl; [easy|]. rewrite N.ltb_irrefl, N.eqb_refl. exact IH. Qed.

Lemma str_leb_cons : forall x a y b,
  str_leb (x :: a) (y :: b) = true <-> x < y \/ (x = y /\ str_leb a b = true).
Proof.
  intros. simpl. destruct (N.ltb_spec x y).
  - split; [now left | easy].
  - destruct (N.eqb_spec x y).
    + split; [now right | intros [?|[_ ?]]; [lia | easy]].
    + split; [easy | intros [?|[? _]]; [lia | easy]].
Qed.

Lemma str_leb_antisym : forall a b, str_leb a b = true -> str_leb b a = true -> a = b.
Proof.
  induction a as [|x a IH]; intros [|y b] H1 H2; try easy.
  apply str_leb_cons in H1. apply str_leb_cons in H2.
  destruct H1 as [H1|[-> H1]], H2 as [H2|[H2' H2]]; try lia. f_equal. now apply IH.
Qed.

Lemma str_leb_trans : forall a b c, str_leb a b = true -> str_leb b c = true -> str_leb a c = true.
Proof.
  induction a as [|x a IH]; intros [|y b] [|z c] H1 H2; try easy.
  apply str_leb_cons in H1. apply str_leb_cons in H2. apply str_leb_cons.
  destruct H1 as [H1|[-> H1]], H2 as [H2|[-> H2]]; try (left; lia). right. split; [easy|]. now apply (IH b).
Qed.

Lemma str_lt_trans : forall a b c, str_lt a b -> str_lt b c -> str_lt a c.
Proof.
  intros a b c [H1 N1] [H2 N2]. split; [now apply (str_leb_trans a b c)|].
  intros ->. apply N1. now apply str_leb_antisym.
Qed.

Lemma str_lt_nil_r : forall a, ~ str_lt a [].
Proof. intros [|x a] [H N]; [now apply N | discriminate]. Qed.

Lemma str_lt_cons : forall x a y b, str_lt (x :: a) (y :: b) <-> x < y \/ (x = y /\ str_lt a b).
Proof.
  intros. unfold str_lt. rewrite str_leb_cons. split.
  - intros [[H|[-> H]] N]; [now left|]. right. split; [easy|]. split; [easy|]. intros ->. now apply N.
  - intros [H|[-> [H N]]]; [split; [now left | intros E; inversion E; lia]|].
    split; [now right | intros E; inversion E; now apply N].
Qed.

Definition ok (g : node) : Prop := StronglySorted str_lt g.

(* ---- leaf handling ---- *)
Lemma ok_leaf : forall g, ok g ->
  ok (drop_leaf g) /\ Forall (fun k => k <> []) (drop_leaf g) /\ (In [] g <-> is_leaf g = true).
Proof.
  intros g H. destruct g as [|k r]; [repeat split; simpl; try constructor; easy|].
  inversion H as [|? ? Hr Hk]; subst.
  assert (Hne : Forall (fun k' => k' <> []) r).
  { rewrite Forall_forall in *. intros k' Hk' ->. now apply (str_lt_nil_r k), Hk. }
  destruct k as [|c t]; cbn [drop_leaf is_leaf].
  - split; [exact Hr|]. split; [exact Hne|]. split; [reflexivity | intros _; now left].
  - split; [exact H|]. split; [constructor; [discriminate | exact Hne]|]. split; [|discriminate].
    intros [E|E]; [discriminate|]. rewrite Forall_forall in Hne. now apply Hne in E.
Qed.

(* ---- runs by first byte ---- *)
Definition label_lt (a b : N * node) : Prop := fst a < fst b.

Lemma groups_inv : forall g, ok g -> Forall (fun k => k <> []) g ->
  StronglySorted label_lt (groups g)
  /\ Forall (fun k => ok (snd k)) (groups g)
  /\ (forall c ts t, In (c, ts) (groups g) -> In t ts -> In (c :: t) g)
  /\ match g, groups g with
     | (c :: _) :: _, (c', _) :: _ => c = c'
     | [], [] => True
     | _, _ => False
     end.
Proof.
  induction g as [|k r IH]; intros H Hne; [simpl; repeat split; try constructor; easy|].
  inversion H as [|? ? Hr Hk]; subst. inversion Hne as [|? ? Hk0 Hne']; subst.
  destruct k as [|c t]; [congruence|]. destruct (IH Hr Hne') as [S [O [M Hd]]]. clear IH.
  cbn [groups]. destruct (groups r) as [|[c' ts] gs] eqn:Eg.
  - split; [constructor; constructor|]. split; [constructor; [simpl; constructor; constructor | constructor]|]. split.
    + intros c0 ts0 t0 [E|[]] Ht. inversion E; subst. destruct Ht as [->|[]]. now left.
    + reflexivity.
  - destruct r as [|[|c2 t2] r']; [discriminate Eg | destruct Hd |]. rewrite Eg in Hd. subst c2.
    assert (Hlt : str_lt (c :: t) (c' :: t2)) by (rewrite Forall_forall in Hk; apply Hk; now left).
    apply str_lt_cons in Hlt.
    destruct (N.eqb_spec c c') as [<-|Hcc].
    + (* same run *)
      repeat split.
      * inversion S; subst. constructor; assumption.
      * inversion O; subst. constructor; [|assumption]. simpl in *.
        constructor; [assumption|]. rewrite Forall_forall. intros t' Ht'.
        assert (Hin : In (c :: t') ((c :: t2) :: r')) by (apply (M c ts t'); [now left | exact Ht']).
        rewrite Forall_forall in Hk. specialize (Hk _ Hin). apply str_lt_cons in Hk.
        destruct Hk as [Hk|[_ Hk]]; [lia | exact Hk].
      * intros c0 ts0 t0 [E|E] Ht.
        -- inversion E; subst. destruct Ht as [->|Ht]; [now left|]. right. apply (M c0 ts t0); [now left | exact Ht].
        -- right. apply (M c0 ts0 t0); [now right | exact Ht].
    + assert (Hc : c < c') by (destruct Hlt as [?|[? _]]; [easy | congruence]).
      repeat split.
      * constructor; [exact S|]. constructor; [exact Hc|]. inversion S as [|? ? _ Hall]; subst.
        rewrite Forall_forall in *. intros x Hx. specialize (Hall x Hx). unfold label_lt in *. simpl in *. lia.
      * constructor; [|exact O]. simpl. constructor; constructor.
      * intros c0 ts0 t0 [E|E] Ht.
        -- inversion E; subst. destruct Ht as [->|[]]. now left.
        -- right. now apply (M c0 ts0 t0).
Qed.

(* the runs partition the node: without any sortedness *)
Lemma groups_sem : forall g x w, Forall (fun k => k <> []) g ->
  has_prefix g (x :: w) = existsb (fun k => (fst k =? x) && has_prefix (snd k) w) (groups g).
Proof.
  induction g as [|k r IH]; intros x w Hne; [reflexivity|].
  inversion Hne as [|? ? Hk Hne']; subst. destruct k as [|c t]; [congruence|].
  cbn [has_prefix existsb is_prefix groups]. fold (has_prefix r (x :: w)). rewrite (IH x w Hne').
  destruct (groups r) as [|[c' ts] gs]; cbn [existsb fst snd has_prefix].
  - destruct (c =? x), (is_prefix t w); reflexivity.
  - destruct (N.eqb_spec c c') as [<-|Hcc]; cbn [existsb fst snd has_prefix].
    + destruct (c =? x), (is_prefix t w), (existsb (fun k : str => is_prefix k w) ts); reflexivity.
    + destruct (c =? x), (is_prefix t w); reflexivity.
Qed.

Lemma sorted_labels_find : forall (gs : list (N * node)) x (f : N * node -> bool),
  StronglySorted label_lt gs ->
  existsb (fun k => (fst k =? x) && f k) gs
  = match find (fun k => fst k =? x) gs with Some k => f k | None => false end.
Proof.
  induction gs as [|k gs IH]; intros x f S; [reflexivity|].
  inversion S as [|? ? S' Hall]; subst. cbn [existsb find].
  destruct (N.eqb_spec (fst k) x) as [E|E]; cbn [andb].
  - replace (existsb _ gs) with false; [apply orb_false_r|]. symmetry.
    apply not_true_is_false. intros Hex. apply existsb_exists in Hex as [k' [Hk' Hb]].
    apply andb_true_iff in Hb as [Hb _]. apply N.eqb_eq in Hb.
    rewrite Forall_forall in Hall. specialize (Hall k' Hk'). unfold label_lt in Hall. lia.
  - now apply IH.
Qed.

(* ---- walking the tree answers has_prefix ---- *)
Lemma walk_correct : forall w g, ok g -> walk g w = has_prefix g w.
Proof.
  induction w as [|c w IH]; intros g Hg; destruct (ok_leaf g Hg) as [Hd [Hne Hl]].
  - cbn [walk]. apply bool_eq_iff. rewrite <- Hl. unfold has_prefix. rewrite existsb_exists. split.
    + intros H. exists []. now split.
    + intros [k [Hk Hp]]. destruct k; [exact Hk | discriminate].
  - cbn [walk]. unfold kids.
    destruct (groups_inv (drop_leaf g) Hd Hne) as [S [O [M _]]].
    assert (E : has_prefix g (c :: w) = is_leaf g || has_prefix (drop_leaf g) (c :: w)).
    { destruct g as [|[|y k] r]; reflexivity. }
    pose proof (sorted_labels_find _ c (fun k => has_prefix (snd k) w) S) as F. cbv beta in F.
    rewrite E, (groups_sem _ c w Hne). f_equal. etransitivity; [|symmetry; exact F].
    destruct (find _ (groups (drop_leaf g))) as [k|] eqn:Ef; [|reflexivity].
    apply IH. apply find_some in Ef as [Hin _]. rewrite Forall_forall in O. now apply (O k).
Qed.

(* ---- sort + de-duplicate gives a strictly sorted list with the same elements ---- *)
Lemma uniq_cons2 : forall a b l, uniq (a :: b :: l) = if str_eqb a b then uniq (b :: l) else a :: uniq (b :: l).
Proof. reflexivity. Qed.

Lemma uniq_in : forall l k, In k (uniq l) <-> In k l.
Proof.
  induction l as [|a l IH]; intros k; [easy|]. destruct l as [|b l']; [easy|]. rewrite uniq_cons2.
  destruct (str_eqb a b) eqn:E.
  - apply str_eqb_true in E. subst b. rewrite IH. simpl. tauto.
  - cbn [In]. rewrite IH. reflexivity.
Qed.

Lemma uniq_sorted : forall l, StronglySorted (fun a b => str_leb a b = true) l -> StronglySorted str_lt (uniq l).
Proof.
  induction l as [|a l IH]; intros S; [constructor|]. inversion S as [|? ? S' Hall]; subst.
  destruct l as [|b l']; [cbn [uniq]; constructor; constructor|]. rewrite uniq_cons2.
  destruct (str_eqb a b) eqn:E; [now apply IH|].
  constructor; [now apply IH|]. rewrite Forall_forall. intros k Hk. apply (proj1 (uniq_in _ _)) in Hk.
  rewrite Forall_forall in Hall. split; [now apply Hall|]. intros <-.
  (* a occurs again in b :: l': then b <= a and a <= b, so a = b *)
  inversion S' as [|? ? _ Hb]; subst. destruct Hk as [->|Hk].
  - now rewrite str_eqb_refl in E.
  - rewrite Forall_forall in Hb. specialize (Hb a Hk).
    assert (a = b) by (apply str_leb_antisym; [apply Hall; now left | exact Hb]).
    subst. now rewrite str_eqb_refl in E.
Qed.

Lemma sort_uniq_ok : forall keys, ok (sort_uniq keys).
Proof.
  intros keys. unfold ok, sort_uniq. apply uniq_sorted.
  apply Sorted_StronglySorted.
  - intros a b c. apply str_leb_trans.
  - pose proof (StrSort.Sorted_sort keys) as H.
    induction H as [|a l Hl IHl Hhd]; constructor; [exact IHl|].
    destruct Hhd; constructor. exact H.
Qed.

Lemma sort_uniq_in : forall keys k, In k (sort_uniq keys) <-> In k keys.
Proof.
  intros keys k. unfold sort_uniq. rewrite uniq_in. split; intro H.
  - eapply Permutation_in; [apply Permutation_sym, StrSort.Permuted_sort | exact H].
  - eapply Permutation_in; [apply StrSort.Permuted_sort | exact H].
Qed.

Lemma has_prefix_ext : forall l1 l2 w, (forall k, In k l1 <-> In k l2) -> has_prefix l1 w = has_prefix l2 w.
Proof.
  intros l1 l2 w H. apply bool_eq_iff. unfold has_prefix. rewrite !existsb_exists.
  split; intros [k [Hk Hp]]; exists k; (split; [now apply H | exact Hp]).
Qed.

Lemma tree_correct : forall keys w, t_walk keys w = has_prefix keys w.
Proof.
  intros keys w. unfold t_walk. rewrite walk_correct by apply sort_uniq_ok.
  apply has_prefix_ext. apply sort_uniq_in.
Qed.

Lemma tree_nonvacuous :
  map (t_walk [[97;98]; [97]; [97;98;99]; [98;99]; [97;98]]) [[97]; [98]; [98;99;100]; [97;120]; []; [99]]
  = [true; false; true; true; false; false].
Proof. vm_compute. reflexivity. Qed.
