(* C11 — code-shaped model of component/routing/domain_matcher/ahocorasick_slimtrie.go (layers 1 and 2)
   and of trie.ValidChars.  No proofs in this file.

   Layer 1: AddSet (validation, key construction with the '^' '.' '$' sentinels), ToSuffixTrieString,
            Build (per bit index: keys -> trie, keywords -> automaton, regexps), MatchDomainBitmap.
   Layer 2: the trie is a section parameter here ([t_new]/[t_has]); C11_Louds.v supplies the succinct
            structure of pkg/trie, [abs_new]/[abs_has] below supply the abstract one
            (has_prefix keys w = some key is a prefix of w).
   Oracles (section variables, answers supplied by the harness): Go regexp, the Aho-Corasick library. *)
From Coq Require Import List NArith Bool.
From Dae Require Import C11_Spec.
Import ListNotations.
Open Scope N_scope.

(* ---------- trie.ValidChars ---------- *)
(* NewValidChars: table[c] = running counter for every listed byte (a later duplicate overwrites),
   zeroChar = the first byte. *)
Fixpoint vc_table_aux (chars : list N) (n : N) (c : N) (acc : N) : N :=
  match chars with
  | [] => acc
  | x :: r => vc_table_aux r (n + 1) c (if x =? c then n mod 256 else acc)
  end.
Definition vc_table (chars : list N) (c : N) : N := vc_table_aux chars 0 c 0.
Definition vc_zero (chars : list N) : N := hd 0 chars.
Definition vc_size (chars : list N) : N := N.of_nat (length chars).
(* IsValidChar: table[c] > 0 || c == zeroChar *)
Definition vc_valid (chars : list N) (c : N) : bool := (0 <? vc_table chars c) || (c =? vc_zero chars).

Definition ch_hat : N := 94.     (* '^' *)
Definition ch_dollar : N := 36.  (* '$' *)

(* strings.TrimSuffix(s, <one byte>) *)
Definition trim_suffix (c : N) (s : str) : str :=
  match rev s with
  | x :: r => if x =? c then rev r else s
  | [] => s
  end.

(* ToSuffixTrieString: drop one trailing '$', reverse *)
Definition to_suffix_trie_string (s : str) : str := rev (trim_suffix ch_dollar s).

(* the abstract trie (layer 2) *)
Definition has_prefix (keys : list str) (w : str) : bool := existsb (fun k => is_prefix k w) keys.

(* the per-bit-index arrays of the Go struct are total functions N -> list (default: empty slice),
   together with the list of indices ever touched (what Build's loops can find non-empty) *)
Definition app_at {A} (m : N -> list A) (i : N) (xs : list A) : N -> list A :=
  fun j => if j =? i then m j ++ xs else m j.
Definition touch (dom : list N) (i : N) : list N := if existsb (N.eqb i) dom then dom else i :: dom.

Fixpoint lookup {A} (m : list (N * A)) (i : N) : option A :=
  match m with
  | [] => None
  | (j, a) :: r => if j =? i then Some a else lookup r i
  end.

Section Matcher.
  Variable chars : list N.                    (* ValidDomainChars, from gen/C11_Extracted.v *)
  Variable rx_ok : str -> bool.               (* regexp.Compile succeeds *)
  Variable rx : str -> str -> bool.           (* Regexp.MatchString *)
  Variable ac_ok : list str -> bool.          (* ahocorasick.NewMatcher succeeds *)
  Variable ac : list str -> str -> bool.      (* Matcher.Contains *)
  Variable trie_t : Type.
  Variable t_new : list str -> option trie_t. (* trie.NewTrie(keys, ValidDomainChars) *)
  Variable t_has : trie_t -> str -> bool.     (* Trie.HasPrefix *)

  Record st := {
    to_trie : N -> list str;   (* toBuildTrie *)
    to_ac : N -> list str;     (* toBuildAc *)
    regexps : N -> list str;   (* regexp (compiled) *)
    dom : list N;              (* indices given to AddSet *)
    err : bool
  }.
  Definition st0 : st :=
    {| to_trie := fun _ => []; to_ac := fun _ => []; regexps := fun _ => []; dom := []; err := false |}.

  Definition valid_pat (d : str) : bool := forallb (vc_valid chars) d.

  (* a keyword is kept only if every byte is valid and none is one of the two anchors *)
  Definition valid_kw (d : str) : bool :=
    forallb (fun c => vc_valid chars c && negb (c =? ch_hat) && negb (c =? ch_dollar)) d.

  (* the keys one pattern contributes *)
  Definition full_keys (d : str) : list str :=
    if valid_pat d then [ch_hat :: d ++ [ch_dollar]] else [].
  Definition suffix_keys (d : str) : list str :=
    if valid_pat d then
      match d with
      | c :: _ => if c =? ch_dot then [d ++ [ch_dollar]]
                  else [ch_dot :: d ++ [ch_dollar]; ch_hat :: d ++ [ch_dollar]]
      | [] => [ch_dot :: d ++ [ch_dollar]; ch_hat :: d ++ [ch_dollar]]
      end
    else [].

  Definition add_set (s : st) (i : N) (k : kind) (pats : list str) : st :=
    if err s then s else
    match k with
    | KFull => {| to_trie := app_at (to_trie s) i (flat_map full_keys pats);
                  to_ac := to_ac s; regexps := regexps s; dom := touch (dom s) i; err := false |}
    | KSuffix => {| to_trie := app_at (to_trie s) i (flat_map suffix_keys pats);
                    to_ac := to_ac s; regexps := regexps s; dom := touch (dom s) i; err := false |}
    | KKeyword => {| to_trie := to_trie s; to_ac := app_at (to_ac s) i (filter valid_kw pats);
                     regexps := regexps s; dom := touch (dom s) i; err := false |}
    | KRegex =>
        if forallb rx_ok pats
        then {| to_trie := to_trie s; to_ac := to_ac s; regexps := app_at (regexps s) i pats;
                dom := touch (dom s) i; err := false |}
        else {| to_trie := to_trie s; to_ac := to_ac s; regexps := regexps s; dom := dom s; err := true |}
    end.

  Definition add_sets (sets : list pset) : st :=
    fold_left (fun s x => add_set s (ps_idx x) (ps_kind x) (ps_pats x)) sets st0.

  Record matcher := {
    m_trie : list (N * trie_t);   (* trie[i] for i in validTrieIndexes *)
    m_ac : N -> list str;         (* ac[i]: the automaton of these patterns; empty = nil *)
    m_rx : N -> list str
  }.

  (* Build: an index whose list is empty is skipped *)
  Fixpoint build_tries (f : N -> list str) (d : list N) : option (list (N * trie_t)) :=
    match d with
    | [] => Some []
    | i :: r =>
        match f i with
        | [] => build_tries f r
        | keys =>
            match t_new (map to_suffix_trie_string keys), build_tries f r with
            | Some t, Some ts => Some ((i, t) :: ts)
            | _, _ => None
            end
        end
    end.

  Definition build (s : st) : option matcher :=
    if err s then None else
    if negb (forallb (fun i => match to_ac s i with [] => true | pats => ac_ok pats end) (dom s)) then None else
    match build_tries (to_trie s) (dom s) with
    | None => None
    | Some ts => Some {| m_trie := ts; m_ac := to_ac s; m_rx := regexps s |}
    end.

  Definition match_bit (m : matcher) (raw : str) (i : N) : bool :=
    let domain := map lower_byte (trim_suffix ch_dot raw) in
    let w := to_suffix_trie_string (ch_hat :: domain) in
    (match lookup (m_trie m) i with Some t => t_has t w | None => false end)
    || (match m_ac m i with [] => false | pats => ac pats (ch_hat :: domain ++ [ch_dollar]) end)
    || existsb (fun r => rx r domain) (m_rx m i).

  (* observable: Build error, or for each name the set bits among the probed indices *)
  Definition run (sets : list pset) (names : list str) (idxs : list N) : option (list (list N)) :=
    match build (add_sets sets) with
    | None => None
    | Some m => Some (map (fun raw => filter (match_bit m raw) idxs) names)
    end.
End Matcher.

Arguments m_trie {trie_t}.
Arguments m_ac {trie_t}.
Arguments m_rx {trie_t}.

(* layer 2 instance: NewTrie refuses keys with a byte outside the alphabet, otherwise is the key set *)
Definition abs_new (chars : list N) (keys : list str) : option (list str) :=
  if forallb (forallb (vc_valid chars)) keys then Some keys else None.
Definition abs_has (keys : list str) (w : str) : bool := has_prefix keys w.

(* the substring automaton the library is meant to be ... *)
Definition ac_ideal (pats : list str) (s : str) : bool := existsb (fun p => contains s p) pats.
(* ... and what it is taken to do in the keyword theorems: Contains never tests the root's output flag,
   so an empty pattern is never reported *)
Definition ac_real (pats : list str) (s : str) : bool :=
  existsb (fun p => match p with [] => false | _ => contains s p end) pats.
