(* C17 — config.New: model of the reflection-driven section/param parsers for their contract
   (config/config.go New, config/decode.go, config/parser.go SectionParser / ParamParser / StringListParser,
   config/patch.go: patchBootstrapResolver, patchTcpCheckHttpMethod, patchMustOutbound's fallback check).  The schema is data (gen/Extracted_C17_Schema.v,
   regenerated from the struct tags); whether a text decodes into a typed scalar is an oracle supplied by
   the harness (common.FuzzyDecode on the real field type).  No proofs in this file. *)
From Coq Require Import List NArith Bool.
From Dae Require Import C17_Spec C17_Schema.
Import ListNotations.
Open Scope N_scope.

Inductive build_error :=
| EMissingSection | EUnknownSection | EUnknownKey | EKeyless | EMissingParam | EBadValue | EBadContext
| EBadItemType | EBadResolver | EOutOfFuel.
Inductive build_result := BOk | BErr (e : build_error).

Fixpoint find_field (fs : list field) (k : str) : option field :=
  match fs with [] => None | f :: r => if str_eqb (f_key f) k then Some f else find_field r k end.
Fixpoint find_struct (sch : list sstruct) (sid : N) : option sstruct :=
  match sch with [] => None | s :: r => if s_id s =? sid then Some s else find_struct r sid end.

Fixpoint split_comma (acc : str) (s : str) : list str :=
  match s with
  | [] => [rev acc]
  | c :: r => if c =? 44 then rev acc :: split_comma [] r else split_comma (c :: acc) r
  end.

(* the key an item assigns, if any *)
Definition item_key (i : gitem) : option str :=
  match i with GParamI p => Some (gp_key p) | GSection n _ => Some n | GRule _ _ => None end.
Definition key_assigned (items : list gitem) (k : str) : bool :=
  existsb (fun i => match item_key i with Some k' => str_eqb k' k | None => false end) items.

Section Build.
  Variable schema : list sstruct.
  Variable decodes : N -> str -> bool.       (* common.FuzzyDecode into the field type [ty] *)

  (* StringListParser: every item must be a parameter *)
  Definition string_list_error (items : list gitem) : option build_error :=
    if forallb (fun i => match i with GParamI _ => true | _ => false end) items then None else Some EBadItemType.

  (* a string value assigned to a field *)
  Definition value_error (f : field) (v : str) : option build_error :=
    match f_kind f with
    | KString | KIface => None
    | KScalar ty => if decodes ty v then None else Some EBadValue
    | KList ty => if (ty =? 0) || forallb (decodes ty) (split_comma [] v) then None else Some EBadValue
    | _ => Some EBadValue
    end.
  (* '&&' chains assigned to a field *)
  Definition funcs_error (f : field) : option build_error :=
    match f_kind f with KIface | KFuncLists => None | _ => Some EBadValue end.

  (* SectionParser / ParamParser; [fuel] bounds the nesting depth *)
  Fixpoint section_error (fuel : nat) (k : fkind) (items : list gitem) {struct fuel} : option build_error :=
    match fuel with
    | O => Some EOutOfFuel
    | S fu =>
        match k with
        | KStringList => string_list_error items
        | KList ty => if ty =? 0 then string_list_error items else Some EBadValue
        | KStructList sid =>
            (fix each (l : list gitem) : option build_error :=
               match l with
               | [] => None
               | GSection _ sub :: r =>
                   match section_error fu (KStruct sid) sub with None => each r | e => e end
               | _ :: _ => Some EBadItemType
               end) items
        | KStruct sid =>
            match find_struct schema sid with
            | None => Some EBadValue
            | Some st =>
                let loop :=
                    (fix loop (l : list gitem) : option build_error :=
                       match l with
                       | [] => None
                       | GParamI p :: r =>
                           match gp_key p with
                           | [] => Some EKeyless
                           | key =>
                               match find_field (s_fields st) key with
                               | None => Some EUnknownKey
                               | Some f =>
                                   match (match gp_funcs p with [] => value_error f (gp_val p) | _ => funcs_error f end) with
                                   | None => loop r
                                   | e => e
                                   end
                               end
                           end
                       | GSection n sub :: r =>
                           match find_field (s_fields st) n with
                           | None => Some EUnknownKey
                           | Some f => match section_error fu (f_kind f) sub with None => loop r | e => e end
                           end
                       | GRule _ _ :: r => if s_has_rules st then loop r else Some EBadContext
                       end) items in
                match loop with
                | Some e => Some e
                | None =>
                    if existsb (fun f => f_required f && negb (key_assigned items (f_key f))) (s_fields st)
                    then Some EMissingParam else None
                end
            end
        | _ => Some EBadValue           (* "unsupported section type" *)
        end
    end.

  (* the documented defaults: the effective value of a string-typed key of a struct section is its last
     assignment, else the default of the schema *)
  Fixpoint last_value (items : list gitem) (k : str) (acc : option str) : option str :=
    match items with
    | [] => acc
    | GParamI p :: r => last_value r k (if str_eqb (gp_key p) k then Some (gp_val p) else acc)
    | _ :: r => last_value r k acc
    end.
  Definition effective_string (sid : N) (items : list gitem) (k : str) : option str :=
    match find_struct schema sid with
    | Some st => match find_field (s_fields st) k with
                 | Some f => last_value items k (f_default f)
                 | None => None
                 end
    | None => None
    end.

  Variable tops : list topsec.
  Variable global_sid : N.                  (* the struct of section 'global' *)
  Definition global_name : str := [103; 108; 111; 98; 97; 108].
  Definition bootstrap_name : str := [98;111;111;116;115;116;114;97;112;95;114;101;115;111;108;118;101;114].
  Definition http_method_name : str := [116;99;112;95;99;104;101;99;107;95;104;116;116;112;95;109;101;116;104;111;100].
  Definition connect_method : str := [67; 79; 78; 78; 69; 67; 84].
  Definition ty_addrport : N := 7.          (* oracle: netip.ParseAddrPort succeeds *)
  Definition ty_http_method : N := 8.       (* oracle: common.IsValidHttpMethod *)

  Definition is_space (c : N) : bool := (c =? 32) || ((9 <=? c) && (c <=? 13)).
  Fixpoint drop_space (s : str) : str := match s with c :: r => if is_space c then drop_space r else s | [] => [] end.
  Definition trim_space (s : str) : str := rev (drop_space (rev (drop_space s))).

  Definition global_string (secs : list gsection) (k : str) : str :=
    match (fix last (l : list gsection) (acc : option (list gitem)) : option (list gitem) :=
             match l with [] => acc | x :: r => last r (if str_eqb (fst x) global_name then Some (snd x) else acc) end) secs None with
    | Some items => match effective_string global_sid items k with Some v => v | None => [] end
    | None => []
    end.
  (* patchBootstrapResolver: empty (after trimming) means the built-in resolvers; otherwise it must be ip:port *)
  Definition bootstrap_value (secs : list gsection) : str := trim_space (global_string secs bootstrap_name).
  Definition bootstrap_bad (secs : list gsection) : bool :=
    match bootstrap_value secs with [] => false | v => negb (decodes ty_addrport v) end.
  (* patchTcpCheckHttpMethod: an unknown method falls back to CONNECT *)
  Definition effective_http_method (secs : list gsection) : str :=
    let v := global_string secs http_method_name in
    if decodes ty_http_method v then v else connect_method.
  Definition include_name : str := [105; 110; 99; 108; 117; 100; 101].

  (* nameToSection: a later section of the same name replaces an earlier one *)
  Fixpoint lookup_last (secs : list gsection) (n : str) (acc : option (list gitem)) : option (list gitem) :=
    match secs with
    | [] => acc
    | s :: r => lookup_last r n (if str_eqb (fst s) n then Some (snd s) else acc)
    end.

  Fixpoint depth (i : gitem) : nat :=
    match i with
    | GSection _ l => S (fold_right (fun x a => Nat.max (depth x) a) O l)
    | _ => O
    end.

  (* patchMustOutbound: routing.fallback given as functions must be exactly one function *)
  Variable routing_sid : N.
  Definition routing_name : str := [114; 111; 117; 116; 105; 110; 103].
  Definition fallback_name : str := [102; 97; 108; 108; 98; 97; 99; 107].
  Fixpoint last_fallback_funcs (items : list gitem) (acc : option nat) : option nat :=
    match items with
    | [] => acc
    | GParamI p :: r =>
        last_fallback_funcs r (if str_eqb (gp_key p) fallback_name
                               then (match gp_funcs p with [] => None | fs => Some (List.length fs) end) else acc)
    | _ :: r => last_fallback_funcs r acc
    end.

  Definition build (secs : list gsection) : build_result :=
    let fuel := S (S (fold_right (fun s a => Nat.max (fold_right (fun x b => Nat.max (depth x) b) O (snd s)) a) O secs)) in
    if existsb (fun t => t_required t && match lookup_last secs (t_name t) None with None => true | Some _ => false end) tops
    then BErr EMissingSection
    else
      match (fix go (ts : list topsec) : option build_error :=
               match ts with
               | [] => None
               | t :: r =>
                   match lookup_last secs (t_name t) None with
                   | None => go r
                   | Some items => match section_error fuel (t_kind t) items with None => go r | e => e end
                   end
               end) tops with
      | Some e => BErr e
      | None =>
          if existsb (fun s => negb (str_eqb (fst s) include_name) &&
                               negb (existsb (fun t => str_eqb (t_name t) (fst s)) tops)) secs
          then BErr EUnknownSection
          else if bootstrap_bad secs then BErr EBadResolver
          else match lookup_last secs routing_name None with
               | Some items => match last_fallback_funcs items None with
                               | Some 1%nat | None => BOk
                               | Some _ => BErr EBadValue
                               end
               | None => BOk
               end
      end.

End Build.
