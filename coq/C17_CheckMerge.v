(* C17 — merge cases over the path/glob/os model of C17_Paths (no proofs). *)
From Coq Require Import List NArith Bool.
From Dae Require Import C17_Spec C17_Model C17_Paths C17_Check.
Import ListNotations.
Open Scope N_scope.

Record mcase := {
  mo_os : list (str * os_node);            (* cleaned absolute path -> what open+stat answers (links followed) *)
  mo_listing : list (str * list str);      (* directory path -> names, in arbitrary order *)
  mo_entry_dir : str;
  mo_entry : str;
  mo_impl : impl_merge;
  mo_globs : list (str * list str)         (* include pattern as written -> filepath.Glob's answer *)
}.

Definition os_of (tab : list (str * os_node)) : path -> os_node :=
  fun p => match find (fun e => str_eqb (fst e) (render p)) tab with Some e => snd e | None => OMissing end.
Definition listing_of (tab : list (str * list str)) : path -> option (list str) :=
  fun p => match find (fun e => str_eqb (fst e) (render p)) tab with Some e => Some (snd e) | None => None end.

Fixpoint sorted_paths (l : list path) : bool :=
  match l with
  | a :: ((b :: _) as r) => path_ltb a b && sorted_paths r
  | _ => true
  end.

(* codes: 1 impl<>model, 2 impl<>spec, 9 crash, 3 model<>spec, 4 Glob differs from its model / contract *)
Definition check_mcase (c : mcase) : list N :=
  let os := os_of (mo_os c) in
  let li := listing_of (mo_listing c) in
  let ed := comps (mo_entry_dir c) in
  let fs := fs_of os ed in
  let ex := expand_of os li ed in
  let fuel := S (S (List.length (mo_os c))) in
  let m := dfs_merge fuel fs ex [] (mo_entry c) in
  let s := spec_merge fuel fs ex (mo_entry c) in
  let names_of (l : list gsection) := map fst l in
  let lex := fun p => negb (match os p with OMissing => true | _ => false end) in
  let e_glob :=
      if forallb (fun g => list_eqb str_eqb (map render (glob li lex (pattern_path ed (fst g)))) (snd g)
                           && sorted_paths (map comps (snd g))) (mo_globs c) then [] else [4] in
  let e_im :=
      match m, mo_impl c with
      | Ok (sm, vis), MOk secs ents =>
          if forallb (fun n => list_eqb gitem_eqb (sm_get sm n) (sm_get secs n)) (names_of sm ++ names_of secs)
             && same_strs vis ents && same_strs (names_of sm) (names_of secs) then [] else [1]
      | Err, MErr => []
      | _, _ => [1]
      end in
  let e_is :=
      match s, mo_impl c with
      | Some t, MOk secs ents =>
          if forallb (fun n => list_eqb gitem_eqb (merged_items t n) (sm_get secs n)) (tree_names t ++ names_of secs)
             && same_strs (tree_paths t) ents
             && forallb (fun p => has_suffix dae_suffix p && inside ed (comps p)) ents then [] else [2]
      | None, MErr => []
      | _, MPanic => [9]
      | _, _ => [2]
      end in
  let e_ms :=
      match s, m with
      | Some t, Ok (sm, vis) =>
          if forallb (fun n => list_eqb gitem_eqb (merged_items t n) (sm_get sm n)) (tree_names t ++ names_of sm)
             && same_strs (tree_paths t) vis then [] else [3]
      | None, Err => []
      | _, _ => [3]
      end in
  e_glob ++ e_im ++ e_is ++ e_ms.

Definition mcase_signature (c : mcase) : N * N * N :=
  let os := os_of (mo_os c) in
  let ed := comps (mo_entry_dir c) in
  match dfs_merge (S (S (List.length (mo_os c)))) (fs_of os ed) (expand_of os (listing_of (mo_listing c)) ed) [] (mo_entry c) with
  | Ok (sm, vis) => (0, N.of_nat (List.length vis), N.of_nat (List.length sm))
  | Err => (1, N.of_nat (List.length (mo_globs c)), 0)
  | OutOfFuel => (3, 0, 0)
  end.
