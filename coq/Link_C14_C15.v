(* Link C14 + C15 — the member list a group's filters compute (C14) IS the dialer list the group's selection
   policy chooses from (C15).

   Go: control/control_plane.go
         dialers, annos, err := dialerSet.FilterAndAnnotate(group.Filter, group.FilterAnnotation)     (C14)
         policy, err := outbound.NewDialerSelectionPolicyFromGroupParam(&group)                         (C14)
         dialerGroup := outbound.NewDialerGroup(finalOption, group.Name, dialers, annos, *policy, ...)  (C15)
       DialerGroup.Dialers = dialers, DialerGroup.dialersAnnotations = annos, in the order FilterAndAnnotate
       appended them; every index C15 speaks about (alive sets, fixed(i), the excluded dialer, the result of
       SelectWithExclusionResult) is a position in that FILTERED list.

   C14 proves what `filter_and_annotate pool lines annos` returns (C14_members_exact, C14_invalid_never_silent:
   exactly the nodes of the pool satisfying a filter line, in pool order, each with the offset of the first
   line it satisfies).  C15 proves what `select` returns for a group of `c_n` dialers numbered 0..c_n-1 with
   offsets `c_off` after every history (C15_select_fixed_ok / _random_ok / _select_min / _complete /
   C15_fixed_ith).  Here the two are composed:

     cfg_of g tol        the C15 group configuration of a C14 member list g (c_n = length, c_off = the
                         annotation offsets C14 computed, positionally)
     gpol_of k i         the C15 policy of the (kind, index) C14's policy parser returns
     dialer_node g d     the C14 node behind C15's dialer number d

   and it is proved, for ALL pools, ALL filter / annotation lists, ALL policies (initial and switched at run
   time) and ALL histories of latency / health / notification / policy events:
     (i)   every dialer `select` returns is a node of the pool that satisfies the filters (under every reading
           of invalid fragments), carrying the offset C14's spec assigns to it, and the C15 spec checker
           accepts the answer;
     (ii)  fixed(i) returns exactly the node C14's select_fixed designates; under random every non-excluded
           alive member is a possible answer; under every alive-set policy a non-excluded alive member of the
           requested type forces an answer among those; a freshly built group offers exactly its members;
     (iii) a node that does not satisfy the filters is never returned, whatever the history.
   Interface hypotheses and findings are summarised at the end of the file. *)
From Coq Require Import List String Ascii ZArith Bool Arith Lia.
From Dae Require Import C14_Spec C14_Model C14_Proofs C14_Props.
From Dae Require Import C15_Spec C15_Model C15_Proofs C15_Props.
Import ListNotations.
Local Open Scope nat_scope.

(* ------------------------------------------------------------------------------------------------ *)
(* Part 1: adapters                                                                                   *)
(* ------------------------------------------------------------------------------------------------ *)

(* NewDialerGroup(option, name, dialers, annos, policy): the group has one dialer per member, numbered by its
   position in the member list; the latency offset of dialer d is annos[d].AddLatency; the tolerance is the
   global option CheckTolerance (not part of C14: a parameter). *)
Definition cfg_of (g : list (node * Z)) (tol : Z) : cfg :=
  {| c_n := List.length g; c_off := fun d => nth d (map snd g) 0%Z; c_tol := tol |}.

(* the node behind C15's dialer number d *)
Definition dialer_node (g : list (node * Z)) (d : nat) : option node := option_map fst (nth_error g d).

(* C14's (policy kind, fixed index) -> C15's group policy *)
Definition gpol_of (k : policy_kind) (i : Z) : gpol :=
  match k with
  | PRandom => GSet SRandom
  | PFixed => GFixed i
  | PMinAvg10 => GSet (SMin MAvg10)
  | PMinMovingAvg => GSet (SMin MMoving)
  | PMinLast => GSet (SMin MLast)
  end.

(* The whole load-time pipeline of one group (control_plane.go): policy, then filter, then NewDialerGroup. *)
Definition build_group (re_ok : string -> bool) (re_match : string -> string -> bool) (dur : string -> option Z)
           (pool : list node) (lines : list line) (annos : list annotation) (r : policy_raw) (tol : Z)
  : result (list (node * Z) * cfg * gpol) :=
  match new_policy r with
  | Err e => Err e
  | Ok (k, i) =>
      match filter_and_annotate re_ok re_match dur pool lines annos with
      | Err e => Err e
      | Ok g => Ok (g, cfg_of g tol, gpol_of k i)
      end
  end.

(* INTERFACE HYPOTHESIS (C15 side).  C15's histories are arbitrary lists of events, and `ONotify d t true` is
   accepted for ANY number d - also d >= c_n, a dialer that is not in the group (see
   Link_foreign_notification_witness below: such a d enters the alive view and is handed out by select).  In
   the Go code an AliveDialerSet is registered with the dialers of its own group only
   (DialerGroup.registerAliveDialerSets ranges over g.Dialers), so NotifyLatencyChange is only ever called
   by members.  That fact is not part of C15's model; it is kept here as a named, executable condition. *)
Definition op_from_member (n : nat) (o : op) : bool :=
  match o with ONotify d _ true => Nat.ltb d n | _ => true end.
Definition notifications_from_members (n : nat) (h : list op) : bool := forallb (op_from_member n) h.

(* "n satisfies the filters" in C14's declarative vocabulary (Spec.satisfies), under a reading *)
Definition satisfies_filters (re_ok : string -> bool) (re_match : string -> string -> bool)
           (rp : input -> node -> param -> bool) (rf : node -> func -> bool) (lines : list line) (n : node) : Prop :=
  lines = [] \/ exists l, In l lines /\ satisfies re_ok re_match rp rf n l.

(* ------------------------------------------------------------------------------------------------ *)
(* Part 2: adapter lemmas, C14 side                                                                   *)
(* ------------------------------------------------------------------------------------------------ *)

Lemma member_iff_satisfies re_ok re_match rp rf lines n :
  member re_ok re_match rp rf lines n = true <-> satisfies_filters re_ok re_match rp rf lines n.
Proof.
  unfold member, satisfies_filters. destruct lines as [|l0 ls].
  - split; [left; reflexivity | reflexivity].
  - rewrite existsb_exists. split.
    + intros [l [I H]]. right. exists l. split; [exact I|]. apply line_hits_iff. exact H.
    + intros [E|[l [I H]]]; [discriminate|]. exists l. split; [exact I|]. apply line_hits_iff. exact H.
Qed.

(* whenever FilterAndAnnotate answers without error - valid definition or not - the answer is the group of
   C14's spec under every reading (C14_invalid_never_silent) *)
Lemma members_are_spec_group re_ok re_match dur pool lines annos g :
  filter_and_annotate re_ok re_match dur pool lines annos = Ok g ->
  forall rp rf ra, g = spec_group re_ok re_match dur rp rf ra pool lines annos.
Proof.
  intros H. pose proof (C14_invalid_never_silent re_ok re_match dur pool lines annos) as S.
  rewrite H in S. exact S.
Qed.

Lemma in_spec_group re_ok re_match dur rp rf ra pool lines annos n z :
  In (n, z) (spec_group re_ok re_match dur rp rf ra pool lines annos) <->
  In n pool /\ member re_ok re_match rp rf lines n = true /\ z = node_offset re_ok re_match dur rp rf ra n lines annos.
Proof.
  unfold spec_group. rewrite in_map_iff. split.
  - intros [n' [E I]]. injection E as -> <-. apply filter_In in I as [I M]. auto.
  - intros [I [M ->]]. exists n. split; [reflexivity|]. apply filter_In. auto.
Qed.

(* what C14 says about the member at a position *)
Lemma member_at_position re_ok re_match dur pool lines annos g d n z :
  filter_and_annotate re_ok re_match dur pool lines annos = Ok g ->
  nth_error g d = Some (n, z) ->
  In n pool /\
  forall rp rf ra,
    member re_ok re_match rp rf lines n = true /\
    satisfies_filters re_ok re_match rp rf lines n /\
    z = node_offset re_ok re_match dur rp rf ra n lines annos.
Proof.
  intros H N. pose proof (members_are_spec_group _ _ _ _ _ _ _ H) as E.
  apply nth_error_In in N. split.
  - rewrite (E rd_lo_p rd_lo_f rd_lo_a) in N. apply in_spec_group in N. tauto.
  - intros rp rf ra. rewrite (E rp rf ra) in N. apply in_spec_group in N. destruct N as (_ & M & Z).
    split; [exact M|]. split; [apply member_iff_satisfies; exact M | exact Z].
Qed.

(* the offsets C15 adds are the ones C14 computed *)
Lemma cfg_of_off (g : list (node * Z)) tol d n z : nth_error g d = Some (n, z) -> c_off (cfg_of g tol) d = z.
Proof.
  intros N. cbn [cfg_of c_off]. apply nth_error_nth. apply (map_nth_error snd) in N. exact N.
Qed.

Lemma dialer_node_some (g : list (node * Z)) d : d < List.length g -> exists n z, nth_error g d = Some (n, z).
Proof.
  intros L. destruct (nth_error g d) as [[n z]|] eqn:E; [eauto|]. apply nth_error_None in E. lia.
Qed.

(* order and multiplicity: the member list is a sub-list of the pool, so distinct pool entries give distinct
   dialers *)
Lemma members_NoDup re_ok re_match dur pool lines annos g :
  filter_and_annotate re_ok re_match dur pool lines annos = Ok g -> NoDup pool -> NoDup (map fst g).
Proof.
  intros H ND. rewrite (members_are_spec_group _ _ _ _ _ _ _ H rd_lo_p rd_lo_f rd_lo_a).
  unfold spec_group. rewrite map_map. cbn [fst]. rewrite map_id. apply NoDup_filter. exact ND.
Qed.

Lemma NoDup_nth_error_inj {A} (l : list A) i j x :
  NoDup l -> nth_error l i = Some x -> nth_error l j = Some x -> i = j.
Proof.
  intros ND Hi Hj. apply (proj1 (NoDup_nth_error l) ND).
  - apply nth_error_Some. congruence.
  - congruence.
Qed.

(* ------------------------------------------------------------------------------------------------ *)
(* Part 3: adapter lemmas, C15 side                                                                   *)
(* ------------------------------------------------------------------------------------------------ *)

(* 3a. The three per-policy soundness theorems of C15 in one statement, and WITHOUT the non-emptiness
   hypothesis `c_n c <> 0` that C15_select_random_ok / C15_select_min carry: C14 can produce an empty group
   (Link_empty_group_witness), and then `select` answers "no dialer in this group" by the first test of
   DialerGroup._select, which the spec checker accepts. *)
Lemma select_empty_group c g rq strict excl :
  c_n c = 0 -> select c g rq strict excl = MErr ENoDialer 0.
Proof. intros H. unfold select, select1. rewrite H. reflexivity. Qed.

Theorem Link_select_ok_all_policies :
  forall (c : cfg) (p0 : gpol) (h : list op) (rq : reqtype) (strict : bool) (excl : option nat) (r : sel_res),
    In r (results_of (select c (run c p0 h) rq strict excl)) ->
    select_ok c (spec_run c p0 h) (key_of rq) strict excl r = true.
Proof.
  intros c p0 h rq strict excl r Hr.
  destruct (Nat.eq_dec (c_n c) 0) as [E0|NE].
  - rewrite (select_empty_group _ _ _ _ _ E0) in Hr. cbn in Hr. destruct Hr as [<-|[]].
    unfold select_ok. rewrite E0. reflexivity.
  - destruct (g_policy (run c p0 h)) as [i|[|m]] eqn:P.
    + eapply C15_select_fixed_ok; eauto.
    + eapply C15_select_random_ok; eauto.
    + eapply C15_select_min; eauto.
Qed.
Print Assumptions Link_select_ok_all_policies.

(* 3b. Under notifications_from_members every alive view only holds dialer numbers below c_n. *)
Definition view_in_range (n : nat) (v : view) : Prop := forall d, In d (map fst v) -> d < n.
Definition views_in_range (n : nat) (s : sstate) : Prop := forall t, view_in_range n (ss_views s t).

Lemma view_notify_in_range c p st t d b v n :
  (b = true -> d < n) -> view_in_range n v -> view_in_range n (view_notify c p st t d b v).
Proof.
  intros Hd Hv. unfold view_notify. destruct b.
  - assert (H1 : view_in_range n (if view_mem d v then v else (v ++ [(d, None)])%list)).
    { destruct (view_mem d v); [exact Hv|]. intros x Hx. rewrite map_app, in_app_iff in Hx.
      destruct Hx as [Hx|[<-|[]]]; [apply Hv; exact Hx | apply Hd; reflexivity]. }
    destruct (lat_of p (st_lat st d t)); [|exact H1].
    intros x Hx. rewrite view_set_fst in Hx. apply H1. exact Hx.
  - intros x Hx. apply view_remove_fst in Hx. apply Hv. tauto.
Qed.

Lemma fold_notify_in_range c p st t flag n : forall ds v,
  (forall d, In d ds -> d < n) -> view_in_range n v ->
  view_in_range n (fold_left (fun v d => view_notify c p st t d (flag d) v) ds v).
Proof.
  induction ds as [|d ds IH]; intros v Hds Hv; cbn [fold_left]; [exact Hv|].
  apply IH; [intros x Hx; apply Hds; right; exact Hx|].
  apply view_notify_in_range; [intros _; apply Hds; left; reflexivity | exact Hv].
Qed.

Lemma view_build_in_range c p st t : view_in_range (c_n c) (view_build c p st t).
Proof.
  unfold view_build. apply (fold_notify_in_range c p st t (fun d => st_alive st d t)).
  - intros d Hd. apply in_seq in Hd. lia.
  - intros d [].
Qed.

Lemma view_repolicy_fst c p st t v : map fst (view_repolicy c p st t v) = map fst v.
Proof. unfold view_repolicy. rewrite map_map. apply map_ext. reflexivity. Qed.

Lemma spec_step_in_range c s o :
  op_from_member (c_n c) o = true -> views_in_range (c_n c) s -> views_in_range (c_n c) (spec_step c s o).
Proof.
  intros Ho Hs. destruct o as [d t l|d t b|d t b|np]; cbn [spec_step].
  - exact Hs.
  - exact Hs.
  - destruct (ss_policy s) as [i|p]; [exact Hs|]. intros t'. cbn [ss_views].
    destruct (ntype_eqb t' t); [|apply Hs].
    apply view_notify_in_range; [|apply Hs].
    intros ->. cbn in Ho. apply Nat.ltb_lt. exact Ho.
  - destruct (ss_policy s) as [i|p], np as [j|p']; intros t'; cbn [ss_views].
    + intros d [].
    + apply view_build_in_range.
    + intros d [].
    + destruct (spol_eqb p p'); [apply Hs|]. intros d Hd. rewrite view_repolicy_fst in Hd. apply (Hs t'). exact Hd.
Qed.

Lemma spec_init_in_range c p : views_in_range (c_n c) (spec_init c p).
Proof.
  intros t. destruct p as [i|sp]; cbn [spec_init ss_views]; [intros d []|apply view_build_in_range].
Qed.

Lemma spec_run_in_range c p0 h :
  notifications_from_members (c_n c) h = true -> views_in_range (c_n c) (spec_run c p0 h).
Proof.
  unfold spec_run, notifications_from_members. generalize (spec_init_in_range c p0).
  generalize (spec_init c p0). induction h as [|o h IH]; intros s Hs Hh; cbn [fold_left]; [exact Hs|].
  cbn [forallb] in Hh. apply andb_true_iff in Hh as [Ho Hh].
  apply IH; [apply spec_step_in_range; assumption | exact Hh].
Qed.

(* 3c. an answer the C15 checker accepts names a dialer of the group *)
Lemma select_ok_in_range c s t strict excl d l :
  views_in_range (c_n c) s -> select_ok c s t strict excl (ROk d l) = true -> d < c_n c.
Proof.
  intros Hs H. unfold select_ok in H. destruct (c_n c) as [|n] eqn:En; [discriminate|].
  destruct (ss_policy s) as [i|p].
  - destruct ((0 <=? i)%Z && (i <? Z.of_nat (S n))%Z) eqn:E; [|discriminate].
    apply andb_true_iff in E as [E1 E2]. apply andb_true_iff in H as [H _]. apply Nat.eqb_eq in H.
    apply Z.leb_le in E1. apply Z.ltb_lt in E2. lia.
  - destruct (first_nonempty (ss_views s) excl (tried t strict)) as [t'|].
    + apply andb_true_iff in H as [H _]. apply view_mem_in in H.
      apply (Hs t'). destruct excl as [e|]; cbn [view_drop] in H; [apply view_remove_fst in H; tauto | exact H].
    + destruct (Nat.eqb (S n) 1 && strict); [|discriminate].
      apply andb_true_iff in H as [H _]. apply Nat.eqb_eq in H. lia.
Qed.

(* the head of the list of types a selection tries is the requested type *)
Lemma first_nonempty_requested views excl t strict :
  cands excl (views t) <> [] -> first_nonempty views excl (tried t strict) = Some t.
Proof.
  intros NE. assert (Hc : exists r, chain t = t :: r) by (destruct t as [[] v]; cbn; eauto).
  destruct Hc as [r Hc]. unfold tried, first_nonempty. destruct strict; rewrite Hc; cbn [app find];
    destruct (cands excl (views t)); congruence.
Qed.

(* ------------------------------------------------------------------------------------------------ *)
(* Part 4: the composed theorems                                                                      *)
(* ------------------------------------------------------------------------------------------------ *)

(* (i) SOUNDNESS.  Whatever the pool, the filter lines, the annotations, the tolerance, the initial policy, the
   history (policy switches included), the request, strictness and the excluded dialer: a dialer number d that
   `select` returns is a position of the member list C14 computed; the node n there is a node of the pool that
   satisfies the filters - under EVERY reading of invalid fragments, in the boolean (member) and in the
   declarative (satisfies) form; the latency offset C15 uses for d is the offset C14's spec assigns to n; and
   the answer is accepted by C15's spec checker for the group configuration built from that member list. *)
Theorem Link_selected_satisfies_filters :
  forall re_ok re_match dur (pool : list node) (lines : list line) (annos : list annotation)
         (g : list (node * Z)) (tol : Z) (p0 : gpol) (h : list op)
         (rq : reqtype) (strict : bool) (excl : option nat) (d : nat) (l : Z),
    filter_and_annotate re_ok re_match dur pool lines annos = Ok g ->
    notifications_from_members (List.length g) h = true ->
    In (ROk d l) (results_of (select (cfg_of g tol) (run (cfg_of g tol) p0 h) rq strict excl)) ->
    exists n z,
      nth_error g d = Some (n, z) /\ dialer_node g d = Some n /\
      In n pool /\
      (forall rp rf ra,
          member re_ok re_match rp rf lines n = true /\
          satisfies_filters re_ok re_match rp rf lines n /\
          z = node_offset re_ok re_match dur rp rf ra n lines annos) /\
      c_off (cfg_of g tol) d = z /\
      select_ok (cfg_of g tol) (spec_run (cfg_of g tol) p0 h) (key_of rq) strict excl (ROk d l) = true.
Proof.
  intros re_ok re_match dur pool lines annos g tol p0 h rq strict excl d l HG HH HR.
  pose proof (Link_select_ok_all_policies _ _ _ _ _ _ _ HR) as OK.
  assert (L : d < List.length g).
  { apply (select_ok_in_range (cfg_of g tol) _ _ _ _ _ _ (spec_run_in_range (cfg_of g tol) p0 h HH) OK). }
  destruct (dialer_node_some g d L) as [n [z N]]. exists n, z.
  destruct (member_at_position _ _ _ _ _ _ _ _ _ _ HG N) as [IP F].
  split; [exact N|]. split; [unfold dialer_node; rewrite N; reflexivity|].
  split; [exact IP|]. split; [exact F|]. split; [apply (cfg_of_off g tol d n z N) | exact OK].
Qed.
Print Assumptions Link_selected_satisfies_filters.

(* (iii) A node that does not satisfy the filters - under SOME reading; for a valid definition readings are
   irrelevant - is never selected, whatever the alive history. *)
Theorem Link_nonmember_never_selected :
  forall re_ok re_match dur (pool : list node) (lines : list line) (annos : list annotation)
         (g : list (node * Z)) (tol : Z) (p0 : gpol) (h : list op)
         (rq : reqtype) (strict : bool) (excl : option nat) (n : node),
    filter_and_annotate re_ok re_match dur pool lines annos = Ok g ->
    notifications_from_members (List.length g) h = true ->
    (exists rp rf, member re_ok re_match rp rf lines n = false) ->
    forall d l, In (ROk d l) (results_of (select (cfg_of g tol) (run (cfg_of g tol) p0 h) rq strict excl)) ->
                dialer_node g d <> Some n.
Proof.
  intros re_ok re_match dur pool lines annos g tol p0 h rq strict excl n HG HH [rp [rf NM]] d l HR E.
  destruct (Link_selected_satisfies_filters _ _ _ _ _ _ _ _ _ _ _ _ _ _ _ HG HH HR) as (n' & z & _ & DN & _ & F & _).
  rewrite DN in E. injection E as ->. destruct (F rp rf rd_lo_a) as [M _]. congruence.
Qed.
Print Assumptions Link_nonmember_never_selected.

(* the same for a node outside the pool *)
Theorem Link_outsider_never_selected :
  forall re_ok re_match dur (pool : list node) (lines : list line) (annos : list annotation)
         (g : list (node * Z)) (tol : Z) (p0 : gpol) (h : list op)
         (rq : reqtype) (strict : bool) (excl : option nat) (n : node),
    filter_and_annotate re_ok re_match dur pool lines annos = Ok g ->
    notifications_from_members (List.length g) h = true ->
    ~ In n pool ->
    forall d l, In (ROk d l) (results_of (select (cfg_of g tol) (run (cfg_of g tol) p0 h) rq strict excl)) ->
                dialer_node g d <> Some n.
Proof.
  intros re_ok re_match dur pool lines annos g tol p0 h rq strict excl n HG HH NP d l HR E.
  destruct (Link_selected_satisfies_filters _ _ _ _ _ _ _ _ _ _ _ _ _ _ _ HG HH HR) as (n' & z & _ & DN & IP & _).
  rewrite DN in E. injection E as ->. contradiction.
Qed.
Print Assumptions Link_outsider_never_selected.

(* (ii-a) fixed(i): C14's reading of fixed(i) (select_fixed over the member list = Spec.fixed_choice, the i-th
   member 0-based, C14_fixed_ith) and C15's (`select` under GFixed i, C15_fixed_ith / C15_select_fixed_ok)
   designate the SAME member - the index counts positions of the FILTERED list - and fail together: after
   every history, strict or not, whatever is excluded or alive (no condition on the history is needed). *)
Theorem Link_fixed_agrees :
  forall (g : list (node * Z)) (tol : Z) (p0 : gpol) (h : list op)
         (rq : reqtype) (strict : bool) (excl : option nat) (i : Z),
    g_policy (run (cfg_of g tol) p0 h) = GFixed i ->
    match select_fixed g i with
    | Ok x => exists sel, select (cfg_of g tol) (run (cfg_of g tol) p0 h) rq strict excl = MOk [Z.to_nat i] 0 sel
                          /\ nth_error g (Z.to_nat i) = Some x
    | Err _ => forall r, In r (results_of (select (cfg_of g tol) (run (cfg_of g tol) p0 h) rq strict excl)) ->
                         exists e lat, r = RErr e lat /\ (e = ENoDialer \/ e = EOutOfRange)
    end.
Proof.
  intros g tol p0 h rq strict excl i HP.
  pose proof (C14_fixed_ith _ g i) as F. unfold fixed_choice in F.
  destruct (select_fixed g i) as [x|e] eqn:SF; cbn [result_to_option] in F.
  - destruct (Z.leb 0 i) eqn:L0; [|discriminate]. apply Z.leb_le in L0.
    rewrite nth_Z_nth_error in F by exact L0. symmetry in F.
    assert (L : Z.to_nat i < List.length g) by (apply nth_error_Some; congruence).
    destruct (C15_fixed_ith (cfg_of g tol) p0 h rq strict excl i) as [sel S].
    + cbn [cfg_of c_n]. lia.
    + exact HP.
    + cbn [cfg_of c_n]. lia.
    + exists sel. split; [exact S | exact F].
  - intros r HR. pose proof (C15_select_fixed_ok (cfg_of g tol) p0 h rq strict excl i r HP HR) as OK.
    unfold select_ok in OK. destruct (C15_index_consistent (cfg_of g tol) p0 h) as (_ & Hpol & _).
    rewrite <- Hpol, HP in OK. cbn [cfg_of c_n] in OK.
    destruct (List.length g) as [|k] eqn:Len.
    + destruct r as [d l|[] l]; try discriminate. eauto.
    + destruct ((0 <=? i)%Z && (i <? Z.of_nat (S k))%Z) eqn:E.
      * exfalso. apply andb_true_iff in E as [E1 E2]. apply Z.leb_le in E1. apply Z.ltb_lt in E2.
        rewrite nth_Z_nth_error in F by exact E1.
        assert (E1' : Z.leb 0 i = true) by (apply Z.leb_le; exact E1). rewrite E1' in F.
        symmetry in F. apply nth_error_None in F. lia.
      * destruct r as [d l|[] l]; try discriminate. eauto.
Qed.
Print Assumptions Link_fixed_agrees.

(* (ii-b) random: every member that is alive for the requested type and not excluded is a possible answer.
   (C15_Props states soundness and the `no alive node` equivalence for random, not this; it follows from
   C15_index_consistent and the lemma select_rand_spec of C15_Proofs.) *)
Theorem Link_random_reaches_every_alive_member :
  forall (g : list (node * Z)) (tol : Z) (p0 : gpol) (h : list op)
         (rq : reqtype) (strict : bool) (excl : option nat) (d : nat) (n : node) (z : Z),
    g_policy (run (cfg_of g tol) p0 h) = GSet SRandom ->
    nth_error g d = Some (n, z) ->
    In d (cands excl (ss_views (spec_run (cfg_of g tol) p0 h) (key_of rq))) ->
    In (ROk d 0) (results_of (select (cfg_of g tol) (run (cfg_of g tol) p0 h) rq strict excl)).
Proof.
  intros g tol p0 h rq strict excl d n z HP N HC.
  set (c := cfg_of g tol) in *.
  destruct (C15_index_consistent c p0 h) as (_ & _ & Hsets). rewrite HP in Hsets.
  destruct Hsets as (sets & Hs & Hall).
  assert (Hok : forall t, set_ok (sets t) (ss_views (spec_run c p0 h) t)) by (intros t; apply (Hall t)).
  assert (NE : c_n c <> 0).
  { unfold c. cbn [cfg_of c_n]. intros E0. apply length_zero_iff_nil in E0. subst g. destruct d; discriminate. }
  unfold select, select1. rewrite HP, Hs. destruct (c_n c) as [|k]; [congruence|].
  rewrite chain_selection_types.
  pose proof (select_rand_spec (g_store (run c p0 h)) sets (ss_views (spec_run c p0 h)) excl (chain (key_of rq)) Hok) as H1.
  assert (F : first_nonempty (ss_views (spec_run c p0 h)) excl (chain (key_of rq)) = Some (key_of rq)).
  { apply (first_nonempty_requested _ excl (key_of rq) true). intros E. rewrite E in HC. destruct HC. }
  rewrite F in H1. destruct H1 as (ds & sel & S & Hds). rewrite S. cbn [results_of].
  apply in_map_iff. exists d. split; [reflexivity|]. apply Hds. exact HC.
Qed.
Print Assumptions Link_random_reaches_every_alive_member.

(* (ii-c) every alive-set policy (random, min, min_avg10, min_moving_avg): if some member is alive for the
   requested type and not excluded, then the selection does answer, every answer is one of those members -
   hence a filter-satisfying node - and never an error.  In particular a sole alive member IS the answer. *)
Theorem Link_alive_member_forces_answer :
  forall (g : list (node * Z)) (tol : Z) (p0 : gpol) (h : list op)
         (rq : reqtype) (strict : bool) (excl : option nat) (p : spol),
    g_policy (run (cfg_of g tol) p0 h) = GSet p ->
    List.length g <> 0 ->
    cands excl (ss_views (spec_run (cfg_of g tol) p0 h) (key_of rq)) <> [] ->
    results_of (select (cfg_of g tol) (run (cfg_of g tol) p0 h) rq strict excl) <> [] /\
    forall r, In r (results_of (select (cfg_of g tol) (run (cfg_of g tol) p0 h) rq strict excl)) ->
              exists d l, r = ROk d l /\
                          In d (cands excl (ss_views (spec_run (cfg_of g tol) p0 h) (key_of rq))).
Proof.
  intros g tol p0 h rq strict excl p HP NE HC. split; [apply select_nonempty|].
  intros r HR. pose proof (Link_select_ok_all_policies _ _ _ _ _ _ _ HR) as OK.
  unfold select_ok in OK. destruct (C15_index_consistent (cfg_of g tol) p0 h) as (_ & Hpol & _).
  rewrite <- Hpol, HP in OK. cbn [cfg_of c_n] in OK. destruct (List.length g) as [|k]; [congruence|].
  change (List.length g) with (c_n (cfg_of g tol)) in *.
  rewrite (first_nonempty_requested _ excl (key_of rq) strict HC) in OK.
  destruct r as [d l|e l]; [|discriminate]. exists d, l. split; [reflexivity|].
  apply andb_true_iff in OK as [M _]. apply view_mem_in in M. exact M.
Qed.
Print Assumptions Link_alive_member_forces_answer.

(* (ii-d) A freshly built group (no event yet) under random offers every one of its members: the composition
   C14 -> NewDialerGroup -> select hands out exactly the filtered nodes from the start (with
   Link_selected_satisfies_filters for the converse inclusion). *)
Lemma view_notify_true_fst c p st t d v :
  In d (map fst (view_notify c p st t d true v)) /\
  forall x, In x (map fst v) -> In x (map fst (view_notify c p st t d true v)).
Proof.
  unfold view_notify.
  assert (H1 : In d (map fst (if view_mem d v then v else (v ++ [(d, None)])%list)) /\
               forall x, In x (map fst v) -> In x (map fst (if view_mem d v then v else (v ++ [(d, None)])%list))).
  { destruct (view_mem d v) eqn:E.
    - split; [apply view_mem_in; exact E | auto].
    - split; [|intros x Hx]; rewrite map_app, in_app_iff; [right; left; reflexivity | left; exact Hx]. }
  destruct (lat_of p (st_lat st d t)); [rewrite view_set_fst|]; exact H1.
Qed.

Lemma fold_notify_true_fst c p st t flag : forall ds v,
  (forall d, In d ds -> flag d = true) ->
  forall x, In x ds \/ In x (map fst v) ->
            In x (map fst (fold_left (fun v d => view_notify c p st t d (flag d) v) ds v)).
Proof.
  induction ds as [|d ds IH]; intros v Hf x Hx; cbn [fold_left].
  - destruct Hx as [[]|Hx]; exact Hx.
  - apply IH; [intros y Hy; apply Hf; right; exact Hy|].
    rewrite (Hf d (or_introl eq_refl)). destruct (view_notify_true_fst c p st t d v) as [A B].
    destruct Hx as [[<-|Hx]|Hx]; [right; exact A | left; exact Hx | right; apply B; exact Hx].
Qed.

Lemma fresh_view_all_members c p t d : d < c_n c -> In d (map fst (view_build c p store0 t)).
Proof.
  intros L. unfold view_build. apply (fold_notify_true_fst c p store0 t (fun d => st_alive store0 d t)).
  - reflexivity.
  - left. apply in_seq. lia.
Qed.

Theorem Link_fresh_group_every_member_selectable :
  forall (g : list (node * Z)) (tol : Z) (rq : reqtype) (strict : bool) (excl : option nat)
         (d : nat) (n : node) (z : Z),
    nth_error g d = Some (n, z) -> excl <> Some d ->
    In (ROk d 0) (results_of (select (cfg_of g tol) (run (cfg_of g tol) (GSet SRandom) []) rq strict excl)).
Proof.
  intros g tol rq strict excl d n z N NX.
  apply (Link_random_reaches_every_alive_member g tol (GSet SRandom) [] rq strict excl d n z); [reflexivity|exact N|].
  assert (L : d < c_n (cfg_of g tol)) by (cbn [cfg_of c_n]; apply nth_error_Some; congruence).
  pose proof (fresh_view_all_members (cfg_of g tol) SRandom (key_of rq) d L) as HV.
  apply in_map_iff in HV as [[d' m] [E HV]]. cbn in E. subst d'.
  apply in_cands. exists m. split; [exact HV|].
  destruct excl as [e|]; cbn [onat_eqb]; [|reflexivity]. apply Nat.eqb_neq. congruence.
Qed.
Print Assumptions Link_fresh_group_every_member_selectable.

(* Exclusion, lifted from dialer numbers to nodes.  C15 excludes a POSITION of the member list
   (C15_excluded_respected_min, select_ok's view_drop); the Go caller excludes a *Dialer.  The two coincide iff
   the member list has no repeated node, which C14 guarantees exactly when the pool has none (members_NoDup;
   Link_duplicate_pool_defeats_exclusion_witness shows the condition cannot be dropped).  The one-node last
   resort of C15's spec (strict caller, one-member group, nothing alive: the member is handed out even if
   excluded) is the other exception, stated as is. *)
Theorem Link_excluded_node_not_selected :
  forall re_ok re_match dur (pool : list node) (lines : list line) (annos : list annotation)
         (g : list (node * Z)) (tol : Z) (p0 : gpol) (h : list op)
         (rq : reqtype) (strict : bool) (e : nat) (ne : node) (p : spol),
    filter_and_annotate re_ok re_match dur pool lines annos = Ok g ->
    NoDup pool ->
    g_policy (run (cfg_of g tol) p0 h) = GSet p ->
    Nat.eqb (List.length g) 1 && strict = false ->
    dialer_node g e = Some ne ->
    forall d l, In (ROk d l) (results_of (select (cfg_of g tol) (run (cfg_of g tol) p0 h) rq strict (Some e))) ->
                dialer_node g d <> Some ne.
Proof.
  intros re_ok re_match dur pool lines annos g tol p0 h rq strict e ne p HG ND HP LR DE d l HR DD.
  pose proof (Link_select_ok_all_policies _ _ _ _ _ _ _ HR) as OK.
  unfold select_ok in OK. destruct (C15_index_consistent (cfg_of g tol) p0 h) as (_ & Hpol & _).
  rewrite <- Hpol, HP in OK. cbn [cfg_of c_n] in OK. cbn [cfg_of c_n] in LR.
  assert (NE : d <> e).
  { destruct (List.length g) as [|k]; [discriminate|].
    destruct (first_nonempty _ _ _) as [t'|].
    - apply andb_true_iff in OK as [M _]. apply view_mem_in in M. cbn [view_drop] in M.
      apply view_remove_fst in M. tauto.
    - rewrite LR in OK. discriminate. }
  apply NE. apply (NoDup_nth_error_inj (map fst g) d e ne (members_NoDup _ _ _ _ _ _ _ HG ND)).
  - unfold dialer_node in DD. destruct (nth_error g d) as [x|] eqn:E; [|discriminate].
    injection DD as <-. apply (map_nth_error fst). exact E.
  - unfold dialer_node in DE. destruct (nth_error g e) as [x|] eqn:E; [|discriminate].
    injection DE as <-. apply (map_nth_error fst). exact E.
Qed.
Print Assumptions Link_excluded_node_not_selected.

(* ------------------------------------------------------------------------------------------------ *)
(* Part 5: the load-time pipeline                                                                     *)
(* ------------------------------------------------------------------------------------------------ *)

(* A valid definition with a valid policy always builds, and what is built is C14's spec group with C14's
   offsets and the policy the configuration names (C14_members_exact + C14_policy_validation). *)
Theorem Link_valid_definition_builds :
  forall re_ok re_match dur pool lines annos r tol k i,
    def_valid re_ok dur lines annos = true ->
    spec_policy_raw r = Some (k, i) ->
    forall rp rf ra,
      build_group re_ok re_match dur pool lines annos r tol
      = Ok (spec_group re_ok re_match dur rp rf ra pool lines annos,
            cfg_of (spec_group re_ok re_match dur rp rf ra pool lines annos) tol,
            gpol_of k i).
Proof.
  intros re_ok re_match dur pool lines annos r tol k i V P rp rf ra. unfold build_group.
  pose proof (C14_policy_validation r) as PV. rewrite P in PV.
  destruct (new_policy r) as [[k' i']|e]; [|discriminate]. cbn in PV. injection PV as -> ->.
  rewrite (C14_members_exact re_ok re_match dur pool lines annos V rp rf ra). reflexivity.
Qed.
Print Assumptions Link_valid_definition_builds.

(* END TO END.  Whatever group the load-time pipeline builds without error, and whatever happens to it
   afterwards, a connection is only ever handed a node of the pool that satisfies the group's filters. *)
Theorem Link_group_selects_only_filtered_nodes :
  forall re_ok re_match dur pool lines annos r tol g c p0 (h : list op)
         (rq : reqtype) (strict : bool) (excl : option nat) (d : nat) (l : Z),
    build_group re_ok re_match dur pool lines annos r tol = Ok (g, c, p0) ->
    notifications_from_members (c_n c) h = true ->
    In (ROk d l) (results_of (select c (run c p0 h) rq strict excl)) ->
    exists n, dialer_node g d = Some n /\ In n pool /\
              (forall rp rf, member re_ok re_match rp rf lines n = true
                             /\ satisfies_filters re_ok re_match rp rf lines n) /\
              (forall rp rf ra, c_off c d = node_offset re_ok re_match dur rp rf ra n lines annos) /\
              select_ok c (spec_run c p0 h) (key_of rq) strict excl (ROk d l) = true.
Proof.
  intros re_ok re_match dur pool lines annos r tol g c p0 h rq strict excl d l B HH HR.
  unfold build_group in B. destruct (new_policy r) as [[k i]|e]; [|discriminate].
  destruct (filter_and_annotate re_ok re_match dur pool lines annos) as [g'|e] eqn:HG; [|discriminate].
  injection B as -> <- <-. cbn [cfg_of c_n] in HH.
  destruct (Link_selected_satisfies_filters _ _ _ _ _ _ _ _ _ _ _ _ _ _ _ HG HH HR) as (n & z & _ & DN & IP & F & OFF & OK).
  exists n. split; [exact DN|]. split; [exact IP|]. split; [|split; [|exact OK]].
  - intros rp rf. destruct (F rp rf rd_lo_a) as (M & S & _). auto.
  - intros rp rf ra. destruct (F rp rf ra) as (_ & _ & Z). rewrite OFF. exact Z.
Qed.
Print Assumptions Link_group_selects_only_filtered_nodes.

(* ------------------------------------------------------------------------------------------------ *)
(* Part 6: non-vacuity and the findings (witnesses by computation)                                     *)
(* ------------------------------------------------------------------------------------------------ *)
Definition ex_tcp4 : ntype := (DTcp, V4).
Definition ex_rq : reqtype := {| rq_l4 := TCP; rq_ipv := V4; rq_isdns := false; rq_udpdom := UUnset |}.
Definition ex_ms (x : Z) : Z := (x * 1000000)%Z.

(* Non-vacuity.  C14's own example (five nodes, duplicate and empty names, two filter lines, a negation, the
   annotation add_latency: 5ms on the first line) with the policy word `min`, tolerance 0.  The pipeline builds
   the 4-member group {0,1,3,4} (pool ids) with offsets 5ms,5ms,0,0 and policy min.  History: every member is
   reported dead for TCP/IPv4, then member 0 (pool id 0, "hk1", +5ms) measures 10 ms and member 2 (pool id 3,
   "sg", +0) measures 12 ms and both are reported alive.  The hypotheses of the composed theorems hold, and
   the composition is visible in the answer: the min policy picks member 2 = pool node 3 at 12 ms, because
   C14's annotation makes member 0 count as 15 ms; excluding member 2 it picks member 0 at 15 ms; under random
   both alive members are offered; after a switch to fixed(3) the 4th MEMBER (pool id 4, not pool position 3)
   is returned.  Pool node 2 (name "", tag "x") fails both filter lines and is behind no dialer number. *)
Definition ex_hist : list op :=
  [ONotify 0 ex_tcp4 false; ONotify 1 ex_tcp4 false; ONotify 2 ex_tcp4 false; ONotify 3 ex_tcp4 false;
   OLat 0 ex_tcp4 (Some (ex_ms 10), None, None); ONotify 0 ex_tcp4 true;
   OLat 2 ex_tcp4 (Some (ex_ms 12), None, None); ONotify 2 ex_tcp4 true].

Example Link_C14_C15_nonvacuous :
  exists g c p0,
    def_valid nv_re_ok nv_dur nv_lines nv_annos = true /\
    build_group nv_re_ok nv_re_match nv_dur nv_pool nv_lines nv_annos (PRString "min") 0%Z = Ok (g, c, p0) /\
    map (fun x => (n_id (fst x), snd x)) g = [(0%N, 5000000%Z); (1%N, 5000000%Z); (3%N, 0%Z); (4%N, 0%Z)] /\
    c_n c = 4 /\ map (c_off c) [0; 1; 2; 3] = [5000000%Z; 5000000%Z; 0%Z; 0%Z] /\ p0 = GSet (SMin MLast) /\
    NoDup nv_pool /\
    notifications_from_members (c_n c) ex_hist = true /\
    ss_views (spec_run c p0 ex_hist) ex_tcp4 = [(0, Some 15000000%Z); (2, Some 12000000%Z)] /\
    results_of (select c (run c p0 ex_hist) ex_rq true None) = [ROk 2 12000000] /\
    dialer_node g 2 = Some (mkNode 3 "sg" "sub") /\
    results_of (select c (run c p0 ex_hist) ex_rq true (Some 2)) = [ROk 0 15000000] /\
    results_of (select c (run c (GSet SRandom) ex_hist) ex_rq true None) = [ROk 0 0; ROk 2 0] /\
    results_of (select c (run c p0 (ex_hist ++ [OPolicy (GFixed 3)])%list) ex_rq true None) = [ROk 3 0] /\
    select_fixed g 3 = Ok (mkNode 4 "" "sub2", 0%Z) /\
    member nv_re_ok nv_re_match rd_lo_p rd_lo_f nv_lines (mkNode 2 "" "x") = false /\
    (forall d, dialer_node g d <> Some (mkNode 2 "" "x")).
Proof.
  eexists _, _, _. split; [vm_compute; reflexivity|]. split; [vm_compute; reflexivity|].
  split; [vm_compute; reflexivity|]. split; [vm_compute; reflexivity|]. split; [vm_compute; reflexivity|].
  split; [reflexivity|].
  split.
  { unfold nv_pool. repeat (constructor; [cbn; intros H; repeat (destruct H as [H|H]; [discriminate H|]); exact H|]).
    constructor. }
  split; [vm_compute; reflexivity|]. split; [vm_compute; reflexivity|]. split; [vm_compute; reflexivity|].
  split; [vm_compute; reflexivity|]. split; [vm_compute; reflexivity|]. split; [vm_compute; reflexivity|].
  split; [vm_compute; reflexivity|]. split; [vm_compute; reflexivity|]. split; [vm_compute; reflexivity|].
  intros [|[|[|[|[|d]]]]]; vm_compute; discriminate.
Qed.

(* FINDING 1 (C15's model, interface hypothesis kept).  C15 accepts a notification from a dialer that is not in
   the group: with a 2-member group and the single event `ONotify 5 (tcp,v4) true`, random selection offers
   dialer number 5, C15's spec checker accepts that answer, and there is no member behind it.  Hence
   notifications_from_members cannot be dropped from Link_selected_satisfies_filters. *)
Example Link_foreign_notification_witness :
  let pool := [mkNode 0 "a" "s"; mkNode 1 "b" "s"] in
  let h := [ONotify 5 ex_tcp4 true] in
  exists g, filter_and_annotate nv_re_ok nv_re_match nv_dur pool [] [] = Ok g /\
            List.length g = 2 /\
            notifications_from_members (List.length g) h = false /\
            results_of (select (cfg_of g 0) (run (cfg_of g 0) (GSet SRandom) h) ex_rq true None)
            = [ROk 0 0; ROk 1 0; ROk 5 0] /\
            select_ok (cfg_of g 0) (spec_run (cfg_of g 0) (GSet SRandom) h) (key_of ex_rq) true None (ROk 5 0) = true /\
            dialer_node g 5 = None.
Proof. cbv zeta. eexists. split; [vm_compute; reflexivity|]. repeat split; vm_compute; reflexivity. Qed.

(* FINDING 2 (C14 can produce an EMPTY group; C15_select_random_ok / C15_select_min / C15_select_complete /
   C15_fixed_ith assume c_n <> 0).  A valid definition over a non-empty pool whose filter matches nothing: the
   group is empty, every policy answers "no dialer in this group", and C14's select_fixed agrees (ESelEmpty).
   The hypothesis is DISCHARGED in Link_select_ok_all_policies (select_empty_group). *)
Example Link_empty_group_witness :
  let lines := [[mkFunc "name" false [mkParam "keyword" "nowhere"]]] in
  let c := cfg_of [] 0%Z in
  def_valid nv_re_ok nv_dur lines [[]] = true /\ nv_pool <> [] /\
  filter_and_annotate nv_re_ok nv_re_match nv_dur nv_pool lines [[]] = Ok [] /\
  results_of (select c (run c (GSet SRandom) []) ex_rq true None) = [RErr ENoDialer 0] /\
  results_of (select c (run c (GSet (SMin MLast)) []) ex_rq false None) = [RErr ENoDialer 0] /\
  results_of (select c (run c (GFixed 0) []) ex_rq true None) = [RErr ENoDialer 0] /\
  select_fixed (@nil (node * Z)) 0 = Err ESelEmpty.
Proof. cbv zeta. split; [vm_compute; reflexivity|]. split; [discriminate|]. repeat split; vm_compute; reflexivity. Qed.

(* FINDING 3 (duplicates).  C14's pools are arbitrary lists; order and multiplicity are preserved
   (spec_group = filter over the pool), so a pool that lists the same node twice gives a member list with the
   same node at two dialer numbers.  C15 identifies a dialer with its NUMBER (Go: with its pointer): excluding
   number 0 then hands out number 1 - the same node.  Link_excluded_node_not_selected therefore needs
   NoDup pool (true in Go: NewDialerSetFromLinks allocates one *Dialer per link, equal names stay distinct
   pointers = distinct n_id). *)
Example Link_duplicate_pool_defeats_exclusion_witness :
  let n := mkNode 7 "a" "s" in
  exists g, filter_and_annotate nv_re_ok nv_re_match nv_dur [n; n] [] [] = Ok g /\
            ~ NoDup [n; n] /\
            results_of (select (cfg_of g 0) (run (cfg_of g 0) (GSet SRandom) []) ex_rq true (Some 0)) = [ROk 1 0] /\
            dialer_node g 0 = Some n /\ dialer_node g 1 = Some n.
Proof.
  cbv zeta. eexists. split; [vm_compute; reflexivity|]. split.
  - intros H. inversion H as [|x l NI _]. apply NI. left. reflexivity.
  - repeat split; vm_compute; reflexivity.
Qed.

(* WHAT IS DISCHARGED / WHAT REMAINS
   Adapters: cfg_of (member list -> C15 cfg: c_n = length, c_off d = offset of member d, tolerance a parameter),
     dialer_node (C15 dialer number -> C14 node), gpol_of (C14 policy kind + index -> C15 gpol), build_group (the
     load-time pipeline), satisfies_filters / member_iff_satisfies (boolean member = declarative satisfies),
     members_are_spec_group, member_at_position, cfg_of_off, members_NoDup, spec_run_in_range,
     select_ok_in_range, first_nonempty_requested.
   Used as stated (Props): C14_invalid_never_silent, C14_members_exact, C14_policy_validation, C14_fixed_ith;
     C15_select_fixed_ok, C15_select_random_ok, C15_select_min, C15_fixed_ith, C15_index_consistent.
     From Proofs files (helper lemmas, not property statements): C14_Proofs.line_hits_iff, nth_Z_nth_error,
     nv_* example data; C15_Proofs.select_rand_spec, chain_selection_types, select_nonempty, in_cands,
     view_mem_in, view_remove_fst, view_set_fst (select_rand_spec is needed because C15_Props has no
     "every alive non-excluded node is a possible random answer" statement).
   DISCHARGED interface hypotheses:
     - "the dialer list C15 selects over is the member list C14 computes": by construction of cfg_of, with
       c_off proved to be C14's node_offset (cfg_of_off + member_at_position);
     - fixed(i) counts positions of the FILTERED list in both developments: Link_fixed_agrees;
     - C15's `c_n c <> 0` (non-empty group) on the random / min theorems: Link_select_ok_all_policies;
     - def_valid is not needed: every group built without error is C14's spec group under every reading
       (C14_invalid_never_silent), so (i) and (iii) hold for invalid definitions too;
     - order / multiplicity: preserved by C14; C15 never assumes distinct NODES, only distinct numbers.
   REMAINING hypotheses:
     - notifications_from_members (length g) h on Link_selected_satisfies_filters, Link_nonmember_never_selected,
       Link_outsider_never_selected, Link_group_selects_only_filtered_nodes: C15's histories allow alive
       notifications from dialer numbers outside the group (Link_foreign_notification_witness); true in Go by
       registerAliveDialerSets, not modelled in C15.  Not needed for Link_fixed_agrees,
       Link_random_reaches_every_alive_member, Link_alive_member_forces_answer, Link_excluded_node_not_selected.
     - NoDup pool on Link_excluded_node_not_selected only (Link_duplicate_pool_defeats_exclusion_witness), and
       C15's own last-resort exception `Nat.eqb (length g) 1 && strict = false`.
     - List.length g <> 0 on Link_alive_member_forces_answer (an alive view entry of an empty group can only
       come from a foreign notification).
   NOT LINKED: reachability for the min policies beyond "an alive member forces an answer among the alive
     members" (which member wins is C15's within_tol clause, kept inside select_ok in the conclusion of (i));
     the group override option (CloneWithGlobalOptionContext replaces each member by a clone, same order) and
     the tolerance's origin (global option) are outside both models. *)
