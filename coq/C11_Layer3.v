(* C11 — assembly of the layer-3 results (tree theorem + LOUDS numbering + bit list) into the statements
   C11_Props.v exports. *)
From Coq Require Import List NArith Bool.
From Dae Require Import C11_Spec C11_Model C11_Louds C11_LoudsProofs C11_NumberingProofs C11_BitlistProofs.
Import ListNotations.
Open Scope N_scope.

(* the logical LOUDS structure built by NewTrie answers has_prefix *)
Lemma louds_has_prefix :
  forall chars keys w L, NoDup chars -> (length chars <= 256)%nat ->
    l_new chars keys = Some L -> l_has chars L w = has_prefix keys w.
Proof.
  intros chars keys w L ND Hlen Hnew.
  rewrite (louds_correct_gen chars keys w L ND Hlen Hnew). apply tree_correct.
Qed.

Lemma louds_has_prefix_nonvacuous :
  match l_new [48;49] [[48]; [48;49]; [49;49;48]; [48]] with
  | Some L => map (l_has [48;49] L) [[48;49;49]; [49]; [49;49]; [49;49;48;49]; []; [49;50]]
  | None => []
  end = [true; false; false; true; false; false].
Proof. vm_compute. reflexivity. Qed.

(* every CompactBitList reachable from NewCompactBitList by Set/Append satisfies cbl_inv, and on such a
   list Set then Get returns the value and leaves every other unit alone *)
Lemma bitlist_reachable_get_set :
  (forall u, 1 <= u <= 64 -> cbl_inv (cbl_new u))
  /\ (forall m i v m', cbl_inv m -> cbl_set m i v = Some m' ->
        cbl_inv m' /\ cbl_get m' i = v /\ forall j, j <> i -> cbl_get m' j = cbl_get m j).
Proof. exact (conj cbl_inv_new cbl_inv_set). Qed.

Lemma bitlist_nonvacuous :
  match cbl_set (cbl_of_list 6 [63; 1; 42]) 5 21 with
  | Some m => map (cbl_get m) [0; 1; 2; 3; 5; 6]
  | None => []
  end = [63; 1; 42; 0; 21; 0].
Proof. vm_compute. reflexivity. Qed.
