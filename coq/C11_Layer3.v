(* C11 — assembly of the layer-3 results (tree theorem + LOUDS numbering + bit list) into the statements
   C11_Props.v exports. *)
From Coq Require Import List NArith Bool.
From Dae Require Import C11_Spec C11_Model C11_Louds C11_LoudsProofs C11_NumberingProofs C11_BitlistProofs.
Import ListNotations.
Open Scope N_scope.

(* the logical LOUDS structure built by NewTrie answers has_prefix *)
Lemma louds_has_prefix :
  forall chars keys w L, NoDup chars -> (length chars <= 256)%nat ->
    l_new chars keys = Some L -> l_has chars L w = has_prefix keys w.
Proof.
  intros chars keys w L ND Hlen Hnew.
  rewrite (louds_correct_gen chars keys w L ND Hlen Hnew). apply tree_correct.
Qed.

Lemma louds_has_prefix_nonvacuous :
  match l_new [48;49] [[48]; [48;49]; [49;49;48]; [48]] with
  | Some L => map (l_has [48;49] L) [[48;49;49]; [49]; [49;49]; [49;49;48;49]; []; [49;50]]
  | None => []
  end = [true; false; false; true; false; false].
Proof. vm_compute. reflexivity. Qed.

(* every CompactBitList reachable from NewCompactBitList by Set/Append satisfies cbl_inv, and on such a
   list Set then Get returns the value and leaves every other unit alone *)
Lemma bitlist_reachable_get_set :
  (forall u, 1 <= u <= 64 -> cbl_inv (cbl_new u))
  /\ (forall m i v m', cbl_inv m -> cbl_set m i v = Some m' ->
        cbl_inv m' /\ cbl_get m' i = v /\ forall j, j <> i -> cbl_get m' j = cbl_get m j).
Proof. exact (conj cbl_inv_new cbl_inv_set). Qed.

Lemma bitlist_nonvacuous :
  match cbl_set (cbl_of_list 6 [63; 1; 42]) 5 21 with
  | Some m => map (cbl_get m) [0; 1; 2; 3; 5; 6]
  | None => []
  end = [63; 1; 42; 0; 21; 0].
Proof. vm_compute. reflexivity. Qed.

(* ---------- the packed trie ---------- *)
From Dae Require Import C11_Proofs C11_PackedProofs.
From Dae.gen Require Import C11_Extracted.

(* NewTrie as stored (64-bit words, sampled rank/select, CompactBitLists) answers has_prefix, for every key
   list whose total size keeps the label bitmap below 2^64 bits *)
Lemma packed_has_prefix :
  forall chars keys w t, NoDup chars -> (length chars <= 256)%nat -> keys <> [] ->
    (2 * N.of_nat (wt keys) + 1 < 2 ^ 64) ->
    p_new chars keys = Some t -> p_has chars t w = has_prefix keys w.
Proof.
  intros chars keys w t ND Hlen Hne Hsize Hnew. unfold p_new in Hnew.
  destruct (l_new chars keys) as [L|] eqn:HL; [|discriminate]. inversion Hnew; subst.
  rewrite (packed_correct_keys chars keys w L ND Hlen Hne HL Hsize).
  now apply louds_has_prefix.
Qed.

Lemma packed_has_prefix_nonvacuous :
  match p_new [48;49] [[48]; [48;49]; [49;49;48]; [48]] with
  | Some t => map (p_has [48;49] t) [[48;49;49]; [49]; [49;49]; [49;49;48;49]; []; [49;50]]
  | None => []
  end = [true; false; false; true; false; false].
Proof. vm_compute. reflexivity. Qed.

Fixpoint nodupb (l : list N) : bool :=
  match l with [] => true | x :: r => negb (existsb (N.eqb x) r) && nodupb r end.
Lemma nodupb_sound : forall l, nodupb l = true -> NoDup l.
Proof.
  induction l as [|x r IH]; intro H; [constructor|]. simpl in H. apply andb_true_iff in H as [H1 H2].
  constructor; [|now apply IH]. intro Hin. apply negb_true_iff in H1.
  assert (existsb (N.eqb x) r = true) by (apply existsb_exists; exists x; split; [exact Hin | apply N.eqb_refl]).
  congruence.
Qed.
Lemma domain_chars_nodup : NoDup valid_domain_chars.
Proof. apply nodupb_sound. vm_compute. reflexivity. Qed.
Lemma domain_chars_len : (length valid_domain_chars <= 256)%nat.
Proof. vm_compute. repeat constructor. Qed.

Definition size_ok (keys : list str) : Prop := 2 * N.of_nat (wt keys) + 1 < 2 ^ 64.

Lemma p_new_total : forall keys, keys <> [] ->
  forallb (forallb (vc_valid valid_domain_chars)) keys = true -> size_ok keys ->
  exists t, p_new valid_domain_chars keys = Some t.
Proof.
  intros keys _ H _. unfold p_new, l_new, keys_valid. rewrite H. eexists. reflexivity.
Qed.

Lemma p_has_spec : forall keys t w, keys <> [] -> size_ok keys -> p_new valid_domain_chars keys = Some t ->
  p_has valid_domain_chars t w = has_prefix keys w.
Proof.
  intros keys t w Hne Hs Hn.
  exact (packed_has_prefix valid_domain_chars keys w t domain_chars_nodup domain_chars_len Hne Hs Hn).
Qed.

(* the matcher over the trie exactly as pkg/trie stores it *)
Definition model_answer_packed rx_ok rx sets names idxs :=
  run valid_domain_chars rx_ok rx ac_ok_lib ac_real ptrie (p_new valid_domain_chars) (p_has valid_domain_chars)
      sets names idxs.
(* all keys of one bit index together stay below the 2^64-bit limit of the sampled rank/select arrays *)
Definition sets_size_ok (sets : list pset) : Prop :=
  forall i, size_ok (map to_suffix_trie_string (at_idx trie_keys sets i)).

Lemma matcher_packed_partial : forall rx_ok rx sets names idxs,
  kw_nonempty sets = true -> forallb name_ok names = true -> sets_size_ok sets ->
  model_answer_packed rx_ok rx sets names idxs = spec_answer rx_ok rx sets names idxs.
Proof.
  intros rx_ok rx sets names idxs Hk Hn Hs. unfold model_answer_packed, spec_answer.
  apply (matcher_correct rx_ok rx ac_ok_lib ac_real (fun _ _ => eq_refl) ac_ok_lib_plain
           ptrie (p_new valid_domain_chars) (p_has valid_domain_chars) size_ok p_new_total p_has_spec); auto.
Qed.

Lemma matcher_packed_nonvacuous :
  kw_nonempty ex_sets = true /\ forallb name_ok ex_names = true /\
  model_answer_packed (fun _ => true) (fun _ _ => false) ex_sets ex_names [3; 32; 1023; 5]
  = Some [[3; 32; 1023]; [3; 1023]; [1023]; [3; 1023]; [3; 1023]; [3]; []].
Proof. vm_compute. repeat split; reflexivity. Qed.

Lemma ex_sets_size_ok : sets_size_ok ex_sets.
Proof.
  intro i. unfold size_ok, at_idx, ex_sets. cbn [flat_map ps_idx fst snd].
  destruct (3 =? i), (32 =? i), (1023 =? i); vm_compute; reflexivity.
Qed.
